(* Peer-to-peer activation (C19): option clamping of Initiator.activate / Target.activate,
   ATR_REQ / ATR_RES / PSL_REQ construction and evaluation (src/nfc/dep.py), the PAX
   parameters in the general bytes and their take-over into LogicalLinkController.cfg
   (src/nfc/llcp/llc.py activate, src/nfc/llcp/pdu.py ParameterExchange / Parameter).
   Definitions only.  Model of the REPAIRED code:
     fixes/c04-target-miu-did.diff    Target.miu = lr - 3 - [did] - [nad]
     fixes/c19-lto-held-as-announced.diff   cfg['send-lto'] = 10 * min(lto // 10, 255)          *)
From Coq Require Import ZArith List Bool.
From NV Require Import Base.Result Base.Bytes Model.Dep.
Import ListNotations.
Open Scope Z_scope.

Definition clamp (lo hi x : Z) : Z := Z.min (Z.max lo x) hi.      (* min(max(lo, x), hi) *)

(* ------------------------------------------------------------------ NFC-DEP options *)
Record iopt := mkiopt { io_brs : Z; io_lri : Z; io_did : option Z; io_nad : option Z; io_gbi : list Z }.
Record topt := mktopt { to_lrt : Z; to_rwt : Z; to_gbt : list Z }.

Definition truthy (o : option Z) : bool := match o with Some x => negb (x =? 0) | None => false end.

(* ppi = (self.lri << 4) | (bool(self.gbi) << 1) | int(bool(self.nad)) *)
Definition i_lri (o : iopt) : Z := clamp 0 3 (io_lri o).
Definition i_brs (o : iopt) : Z := clamp 0 2 (io_brs o).
Definition i_gbi (o : iopt) : list Z := take 48 (io_gbi o).
Definition i_ppi (o : iopt) : Z := i_lri o * 16 + b2z (nonempty (i_gbi o)) * 2 + b2z (truthy (io_nad o)).
Definition i_did0 (o : iopt) : Z := match io_did o with Some d => d | None => 0 end.
Definition atr_req_of (id3 : list Z) (o : iopt) : pdu := PAtrReq id3 (i_did0 o) 0 0 (i_ppi o) (i_gbi o).
Definition brs_byte (brs : Z) : Z := if brs =? 0 then 0 else if brs =? 1 then 9 else 18.   (* (0, 9, 18)[brs] *)
Definition psl_req_of (o : iopt) : pdu := PPslReq (i_did0 o) (brs_byte (i_brs o)) (i_lri o).

Definition t_lrt (o : topt) : Z := clamp 0 3 (to_lrt o).
Definition t_rwt (o : topt) : Z := clamp 0 14 (to_rwt o).
Definition t_gbt (o : topt) : list Z := take 47 (to_gbt o).
(* pp = (lrt << 4) | (bool(gbt) << 1) | int(bool(self.nad))   with self.nad = None *)
Definition t_pp (o : topt) : Z := t_lrt o * 16 + b2z (nonempty (t_gbt o)) * 2.
Definition atr_res_of (id3t : list Z) (o : topt) : pdu := PAtrRes id3t 0 0 0 (t_rwt o) (t_pp o) (t_gbt o).

(* ATR_REQ_RES.lr : (64, 128, 192, 254)[(self.pp >> 4) & 0x3]      PSL_REQ.lr likewise on fsl *)
Definition atr_lr (pp : Z) : Z := lr_of ((pp / 16) mod 4).
Definition psl_lr (fsl : Z) : Z := lr_of (fsl mod 4).
Definition psl_dsi (brs : Z) : Z := (brs / 8) mod 8.
Definition psl_dri (brs : Z) : Z := brs mod 8.
Definition atr_wt (to : Z) : Z := to mod 16.

(* what the two sides hold after activation.  The response waiting time 4096/13.56E6 * 2**wt is
   represented by its exponent wt (both sides evaluate the same floating point expression of it). *)
Record dep_i := mkdi { di_miu : Z; di_wt : Z; di_did : option Z; di_nad : option Z; di_brty : Z; di_gb : list Z }.
Record dep_t := mkdt { dt_miu : Z; dt_wt : Z; dt_did : option Z; dt_brty : Z; dt_gb : list Z }.

(* Initiator.activate after the ATR_RES (and PSL_RES) arrived; brty0: 0 = 106A, 1 = 212F, 2 = 424F *)
Definition ini_eval (o : iopt) (brty0 : Z) (atr_res : pdu) : res dep_i :=
  match atr_res with
  | PAtrRes _ _ _ _ to pp gb =>
      let wt := atr_wt to in
      Ok (mkdi (atr_lr pp - 3 - b2z (is_some (io_did o)) - b2z (is_some (io_nad o)))
               (if wt <? 15 then wt else 14)
               (io_did o) (io_nad o)
               (if brty0 <? i_brs o then i_brs o else brty0)
               gb)
  | _ => Crash AttributeErr
  end.

(* Target.activate after clf.listen returned atr_req (and the bit rate the driver ended up with) *)
Definition tgt_eval (o : topt) (brty : Z) (atr_req : pdu) : res dep_t :=
  match atr_req with
  | PAtrReq _ did _ _ pp gb =>
      let d := if 0 <? did then Some did else None in
      Ok (mkdt (atr_lr pp - 3 - b2z (is_some d)) (t_rwt o) d brty gb)
  | _ => Crash AttributeErr
  end.

(* the driver's part of the target side (harness/sim/air.py TgtClf.listen, after nfc.clf.rcs380):
   the bit rate follows DSI of an accepted PSL_REQ *)
Definition drv_brty (brty0 : Z) (did0 : Z) (psl : option pdu) : Z :=
  match psl with
  | Some (PPslReq did brs _) =>
      if (did =? did0) && (psl_dsi brs =? psl_dri brs) && (psl_dri brs <? 3) then psl_dsi brs else brty0
  | _ => brty0
  end.

(* both activations against each other, through the frame codec; id3 / id3t: the random NFCID3 values *)
(* do_tact: Target.activate returns only when a DEP_REQ with the target's DID arrives; an initiator that was
   given did=0 puts a DID octet 0 into its DEP_REQ while the target (ATR_REQ DID 0 = "no DID") expects none,
   so that target never gets activated *)
Record dep_obs := mkdo { do_frames : list (list Z); do_i : dep_i; do_t : dep_t; do_tact : bool }.

Definition negotiate_dep (brty0 : Z) (io : iopt) (tto : topt) (id3 id3t : list Z) : res dep_obs :=
  let b0 := brty0 =? 0 in
  let atr_req := atr_req_of id3 io in
  let atr_res := atr_res_of id3t tto in
  do f1 <- encode_frame b0 (enc_pdu atr_req);
  do q1 <- decode_frame_tgt b0 f1;
  do f2 <- encode_frame b0 (enc_pdu atr_res);
  do r1 <- decode_frame_ini b0 f2;
  if negb (pdu_name r1 =? 0) then Err ProtocolError else
  let do_psl := brty0 <? i_brs io in
  do pslframes <-
    (if do_psl then
       do f3 <- encode_frame b0 (enc_pdu (psl_req_of io));
       do q3 <- decode_frame_tgt b0 f3;
       do f4 <- encode_frame b0 (enc_pdu (PPslRes (i_did0 io)));
       do r4 <- decode_frame_ini b0 f4;
       if negb (pdu_name r4 =? 1) then Err ProtocolError else Ok ([f3; f4], Some q3)
     else Ok ([], None));
  do di <- ini_eval io brty0 r1;
  do dt <- tgt_eval tto (drv_brty brty0 (i_did0 io) (snd pslframes)) q1;
  Ok (mkdo ([f1; f2] ++ fst pslframes) di dt (opt_eqb (io_did io) (dt_did dt))).

(* ------------------------------------------------------------------ LLCP parameters *)
Record lopt := mklopt { lo_miu : Z; lo_lto : Z; lo_lsc : Z; lo_sec : bool; lo_saps : list Z }.

(* LogicalLinkController.__init__ (repaired): the link timeout is held as it will be announced *)
Definition l_send_lto (o : lopt) : Z := 10 * Z.min (lo_lto o / 10) 255.

(* wks = 1 + sum(1 << sap for sap in snl.values() if sap < 15) *)
Definition wks_of (saps : list Z) : Z := 1 + sum (map (fun s => 2 ^ s) (filter (fun s => s <? 15) saps)).

(* struct.pack('>BBH', T, 2, V); pdu.EncodeError (struct.error re-raised) is represented by Err ValueError:
   Base/Result has no EncodeError and the case lies outside the valid option range *)
Definition u16 (v : Z) : res (list Z) := if (0 <=? v) && (v <? 65536) then Ok [v / 256; v mod 256] else Err ValueError.

(* send_pax as llc.activate builds it, encoded without the two header octets *)
Definition pax_tlvs (o : lopt) : res (list Z) :=
  let wks := Z.land (wks_of (lo_saps o)) 65535 in
  do miux <- (if lo_miu o =? 128 then Ok [] else do b <- u16 (Z.max (lo_miu o - 128) 0); Ok ([2; 2] ++ b));
  do wk <- u16 wks;
  let lto := if l_send_lto o =? 100 then [] else [4; 1; Z.land (l_send_lto o / 10) 255] in
  let optv := (if lo_lsc o =? 0 then 0 else Z.land (lo_lsc o) 3) + (if lo_sec o then 4 else 0) in
  let opt := if (lo_lsc o =? 0) && negb (lo_sec o) then [] else [7; 1; optv] in
  Ok ([1; 1; 19] ++ miux ++ ([3; 2] ++ wk) ++ lto ++ opt).

Definition general_bytes (o : lopt) : res (list Z) := do t <- pax_tlvs o; Ok ([70; 102; 109] ++ t).   (* b'Ffm' *)

(* ParameterExchange.decode over Parameter.decode: TLV walk with the per-type length checks *)
Record pax := mkpax { p_ver : option Z; p_miux : option Z; p_wks : option Z; p_lto : option Z; p_opt : option Z }.

Fixpoint pax_walk (fuel : nat) (d : list Z) (p : pax) : res pax :=
  match fuel with
  | O => Ok p
  | S f =>
    match d with
    | T :: L :: rest =>
        if len rest <? L then Err DecodeError else         (* struct.error while unpacking the value *)
        let V := take L rest in
        let next := drop L rest in
        if T =? 1 then (if L =? 1 then pax_walk f next (mkpax (Some (nth 0 V 0)) (p_miux p) (p_wks p) (p_lto p) (p_opt p)) else Err DecodeError)
        else if T =? 2 then (if L =? 2 then pax_walk f next (mkpax (p_ver p) (Some (Z.land (nth 0 V 0 * 256 + nth 1 V 0) 2047)) (p_wks p) (p_lto p) (p_opt p)) else Err DecodeError)
        else if T =? 3 then (if L =? 2 then pax_walk f next (mkpax (p_ver p) (p_miux p) (Some (nth 0 V 0 * 256 + nth 1 V 0)) (p_lto p) (p_opt p)) else Err DecodeError)
        else if T =? 4 then (if L =? 1 then pax_walk f next (mkpax (p_ver p) (p_miux p) (p_wks p) (Some (nth 0 V 0)) (p_opt p)) else Err DecodeError)
        else if T =? 5 then (if L =? 1 then pax_walk f next p else Err DecodeError)
        else if T =? 7 then (if L =? 1 then pax_walk f next (mkpax (p_ver p) (p_miux p) (p_wks p) (p_lto p) (Some (Z.land (nth 0 V 0) 7))) else Err DecodeError)
        else if T =? 8 then (if L =? 0 then Err DecodeError else pax_walk f next p)
        else if T =? 9 then (if L =? 2 then pax_walk f next p else Err DecodeError)
        else pax_walk f next p
    | _ => Ok p                                             (* while size >= 2 *)
    end
  end.

Definition pax_decode (tlvs : list Z) : res pax := pax_walk (length tlvs) tlvs (mkpax None None None None None).

Definition starts_ffm (gb : list Z) : bool :=
  match gb with 70 :: 102 :: 109 :: _ => true | _ => false end.

(* what llc.activate stores after mac.activate returned the peer's general bytes *)
Record lcfg := mklcfg { c_ok : bool; c_send_miu : Z; c_recv_lto : Z; c_send_wks : Z; c_send_lsc : Z; c_dpc : Z; c_ver : Z }.

Definition llc_takeover (local_sec : bool) (gb : list Z) : res lcfg :=
  if starts_ffm gb && (6 <=? len gb) then
    match pax_decode (drop 3 gb) with
    | Ok p =>
    Ok (mklcfg true
          (match p_miux p with Some x => x + 128 | None => 128 end)
          (match p_lto p with Some x => x * 10 | None => 100 end)
          (match p_wks p with Some x => x | None => 0 end)
          (match p_opt p with Some x => Z.land x 3 | None => 0 end)
          (if local_sec then match p_opt p with Some x => (x / 4) mod 2 | None => 0 end else 0)
          (match p_ver p with Some x => x | None => 0 end))
    | Err DecodeError => Ok (mklcfg false 0 0 0 0 0 0)      (* e19069b: llc.activate logs the error and returns False *)
    | Err e => Err e | Crash c => Crash c | Hang => Hang
    end
  else Ok (mklcfg false 0 0 0 0 0 0).

(* two LLCs activated against each other: A runs the Initiator, B the Target *)
Record p2p_obs := mkp2p { po_dep : dep_obs; po_a : lcfg; po_b : lcfg }.

Definition negotiate (brty0 : Z) (ia : iopt) (tb : topt) (la lb : lopt) (id3 id3t : list Z) : res p2p_obs :=
  do ga <- general_bytes la;
  do gb <- general_bytes lb;
  do d <- negotiate_dep brty0 (mkiopt (io_brs ia) (io_lri ia) (io_did ia) (io_nad ia) ga) (mktopt (to_lrt tb) (to_rwt tb) gb) id3 id3t;
  do ca <- llc_takeover (lo_sec la) (di_gb (do_i d));
  do cb <- (if do_tact d then llc_takeover (lo_sec lb) (dt_gb (do_t d)) else Ok (mklcfg false 0 0 0 0 0 0));
  Ok (mkp2p d ca cb).

(* ------------------------------------------------------------------ one LLC object over several activations *)
(* The cfg entries that live across activations of the same LogicalLinkController: the options of __init__, the entry
   'send-lsc' (local value before the first activation, REMOTE value afterwards), the entry 'local-lsc' (set by the first
   activation, fixes/c19-lsc-announced-after-reactivation.diff) and the values taken over from the last peer. *)
Record lstate := mkls { ls_opt : lopt; ls_send_lsc : Z; ls_local_lsc : option Z; ls_held : lcfg }.

Definition llc_new (o : lopt) : lstate := mkls o (lo_lsc o) None (mklcfg false 0 0 0 0 0 0).

(* local_lsc = self.cfg.setdefault('local-lsc', self.cfg['send-lsc']) *)
Definition announce_lsc (local : option Z) (send_lsc : Z) : Z := match local with Some v => v | None => send_lsc end.

(* the getters of the received PAX and the assignments self.cfg[...] = rcvd_pax.... *)
Definition pax_miu (p : pax) : Z := match p_miux p with Some x => x + 128 | None => 128 end.
Definition pax_lto (p : pax) : Z := match p_lto p with Some x => x * 10 | None => 100 end.
Definition pax_wks (p : pax) : Z := match p_wks p with Some x => x | None => 0 end.
Definition pax_lsc (p : pax) : Z := match p_opt p with Some x => Z.land x 3 | None => 0 end.
Definition pax_dpc (p : pax) : Z := match p_opt p with Some x => (x / 4) mod 2 | None => 0 end.
Definition pax_ver (p : pax) : Z := match p_ver p with Some x => x | None => 0 end.
Definition cfg_assign (sec : bool) (miu lto wks lsc dpc ver : Z) : lcfg := mklcfg true miu lto wks lsc (if sec then dpc else 0) ver.

(* llc.activate of an LLC in state s against a peer that answers with the general bytes peer_gb:
   what is announced, and the state afterwards (unchanged cfg when nothing is taken over) *)
Definition llc_activate (s : lstate) (peer_gb : list Z) : res (list Z * lstate) :=
  let o := ls_opt s in
  let local := announce_lsc (ls_local_lsc s) (ls_send_lsc s) in
  do gb <- general_bytes (mklopt (lo_miu o) (lo_lto o) local (lo_sec o) (lo_saps o));
  do c <- llc_takeover (lo_sec o) peer_gb;
  Ok (gb, if c_ok c then mkls o (c_send_lsc c) (Some local) c else mkls o (ls_send_lsc s) (Some local) (ls_held s)).

(* a history: the peers' general bytes one after the other *)
Fixpoint llc_history (s : lstate) (peers : list (list Z)) : res (list (list Z) * lstate) :=
  match peers with
  | [] => Ok ([], s)
  | g :: rest => do x <- llc_activate s g; do y <- llc_history (snd x) rest; Ok (fst x :: fst y, snd y)
  end.
