(* Shared executable model of TLV structured tag memory (NFC Forum Type 1 and Type 2 tags):
   skip set, value placement of reader and writer, the memory-reader cache with unit-wise
   synchronize, write commands and their effect on the tag memory.
   Definitions only.  Tag memory is [list Z]; addresses are Z. *)
From Coq Require Import ZArith List Bool Lia.
From NV Require Import Base.Result Base.Bytes.
Import ListNotations.
Open Scope Z_scope.

(* ---- skip set: the ranges collected from lock-control / memory-control TLVs ---- *)
Definition ranges := list (Z * Z).                      (* half open [lo, hi) *)
Definition in_range (a : Z) (r : Z * Z) : bool := (fst r <=? a) && (a <? snd r).
Definition in_skip (rs : ranges) (a : Z) : bool := existsb (in_range a) rs.

(* TagCommandError raised by the memory reader when an address cannot be loaded from the tag *)
Definition tag_err {A} : res A := Err (TagCommandError 0).

(* tag_memory[a]: the memory reader loads on demand; [em] is everything that can be loaded *)
Definition rd (em : list Z) (a : Z) : res Z :=
  if a <? 0 then Crash IndexErr else
  match nth_error em (Z.to_nat a) with Some x => Ok x | None => tag_err end.

(* tag_memory[a] = v *)
Definition upd (c : list Z) (a v : Z) : res (list Z) :=
  if (0 <=? a) && (a <? len c)
  then Ok (firstn (Z.to_nat a) c ++ v :: skipn (S (Z.to_nat a)) c)
  else if a <? 0 then Crash IndexErr else tag_err.

(* get_lock_byte_range / get_rsvd_byte_range (tt1.py and tt2.py have identical copies);
   [clip] is the bound given to slice.indices() *)
Definition clip_range (clip lo hi : Z) : Z * Z := (Z.min lo clip, Z.min hi clip).
Definition lock_byte_range (d0 d1 d2 : Z) : Z * Z :=
  let page_addr := Z.shiftr d0 4 in
  let byte_offs := Z.land d0 15 in
  let rsvd_size := ((if 0 <? d1 then d1 else 256) + 7) / 8 in
  let page_size := 2 ^ (Z.land d2 15) in
  let rsvd_from := page_addr * page_size + byte_offs in
  (rsvd_from, rsvd_from + rsvd_size).
Definition rsvd_byte_range (d0 d1 d2 : Z) : Z * Z :=
  let page_addr := Z.shiftr d0 4 in
  let byte_offs := Z.land d0 15 in
  let rsvd_size := if 0 <? d1 then d1 else 256 in
  let page_size := 2 ^ (Z.land d2 15) in
  let rsvd_from := page_addr * page_size + byte_offs in
  (rsvd_from, rsvd_from + rsvd_size).
(* data[0], data[1], data[2] of the TLV value: IndexError when shorter *)
Definition ctl_range (f : Z -> Z -> Z -> Z * Z) (clip : Z) (v : list Z) : res (Z * Z) :=
  match v with
  | d0 :: d1 :: d2 :: _ => let r := f d0 d1 d2 in Ok (clip_range clip (fst r) (snd r))
  | _ => Crash IndexErr
  end.

(* number of addresses in [a, a+n) that are not in the skip set *)
Fixpoint count_free (skip : ranges) (a : Z) (n : nat) : Z :=
  match n with
  | O => 0
  | S n' => (if in_skip skip a then 0 else 1) + count_free skip (a + 1) n'
  end.
(* get_capacity(size, offset, skip_bytes) where [dend] is the end of the data area *)
Definition get_capacity (dend off : Z) (skip : ranges) : Z :=
  let c := count_free skip off (Z.to_nat (dend - off)) in
  c - (if 256 <? c then 4 else 2).
(* independent reading of "what the layout can hold": [f] free bytes after the tag byte,
   a message of n bytes needs n+1 of them if n <= 254 and n+3 otherwise *)
Definition room (f : Z) : Z := Z.max (Z.min 254 (f - 1)) (f - 3).

(* ---- the value loop of read_tlv:
        for i in range(l): while (offset+i) in skip: offset += 1; v[i] = memory[offset+i]
   [a] is offset+i, [suf] the readable memory from address [a] on.  Returns the value and
   the address after the last byte read. *)
Fixpoint read_val (skip : ranges) (a : Z) (suf : list Z) (k : nat) : res (list Z * Z) :=
  match k with
  | O => Ok ([], a)
  | S k' =>
    match suf with
    | [] => tag_err
    | x :: suf' =>
      if in_skip skip a then read_val skip (a + 1) suf' k
      else do r <- read_val skip (a + 1) suf' k'; Ok (x :: fst r, snd r)
    end
  end.

(* ---- the value loop of _write_ndef_data:
        for i, octet in enumerate(data): while offset+i in skip: offset += 1; memory[offset+i] = octet
   Returns the modified memory suffix and the address after the last byte written. *)
Fixpoint write_val (skip : ranges) (a : Z) (suf : list Z) (d : list Z) : res (list Z * Z) :=
  match d with
  | [] => Ok (suf, a)
  | x :: d' =>
    match suf with
    | [] => tag_err
    | y :: suf' =>
      if in_skip skip a then do r <- write_val skip (a + 1) suf' d; Ok (y :: fst r, snd r)
      else do r <- write_val skip (a + 1) suf' d'; Ok (x :: fst r, snd r)
    end
  end.
Definition place (skip : ranges) (c : list Z) (start : Z) (d : list Z) : res (list Z * Z) :=
  if start <? 0 then Crash IndexErr else
  do r <- write_val skip start (skipn (Z.to_nat start) c) d;
  Ok (firstn (Z.to_nat start) c ++ fst r, snd r).

(* read_tlv(memory, offset, skip_bytes) of tt2.py, and of tt1.py once the first byte could be
   read; additionally returns the address after the last byte read *)
Definition read_tlv (em : list Z) (off : Z) (skip : ranges) : res (Z * Z * list Z * Z) :=
  do t <- rd em off;
  if (t =? 0) || (t =? 254) then Ok (t, -1, [], off + 1) else
  do l0 <- rd em (off + 1);
  do lv <- (if l0 =? 255
            then do h <- rd em (off + 2); do l <- rd em (off + 3); Ok (256 * h + l, off + 4)
            else Ok (l0, off + 2));
  do v <- read_val skip (snd lv) (skipn (Z.to_nat (snd lv)) em) (Z.to_nat (fst lv));
  Ok (t, fst lv, fst v, snd v).

(* position of the terminator TLV: first address >= a, below [a + n], that is not skipped *)
Fixpoint term_pos (skip : ranges) (a : Z) (n : nat) : option Z :=
  match n with
  | O => None
  | S n' => if in_skip skip a then term_pos skip (a + 1) n' else Some a
  end.

(* ---- write commands: (byte address of the unit, unit content) ---- *)
Definition write := (Z * list Z)%type.

Fixpoint list_eqb (a b : list Z) : bool :=
  match a, b with
  | [], [] => true
  | x :: a', y :: b' => (x =? y) && list_eqb a' b'
  | _, _ => false
  end.

(* synchronize(): in ascending order the units (u bytes) of the cache that differ from what was
   last read from / written to the tag *)
Fixpoint diffu (fuel : nat) (u : nat) (a : Z) (from cache : list Z) : list write :=
  match fuel with
  | O => []
  | S n =>
    match cache with
    | [] => []
    | _ =>
      let rest := diffu n u (a + Z.of_nat u) (skipn u from) (skipn u cache) in
      if list_eqb (firstn u cache) (firstn u from) then rest else (a, firstn u cache) :: rest
    end
  end.
Definition sync_cmds (u : nat) (from cache : list Z) : list write :=
  diffu (length cache) u 0 from cache.

(* the tag accepts a write iff the unit lies inside its memory; the first refused command makes
   the writer fail with a TagCommandError (commands before it have been executed) *)
Fixpoint accept (n : Z) (ws : list write) : list write * bool :=
  match ws with
  | [] => ([], true)
  | w :: r => if (0 <=? fst w) && (fst w + len (snd w) <=? n)
              then let p := accept n r in (w :: fst p, snd p)
              else ([], false)
  end.

(* effect of an accepted write command on the tag memory *)
Definition apply1 (m : list Z) (w : write) : list Z :=
  firstn (Z.to_nat (fst w)) m ++ snd w ++ skipn (Z.to_nat (fst w) + length (snd w)) m.
Definition apply_ws (m : list Z) (ws : list write) : list Z := fold_left apply1 ws m.

(* A write operation is a sequence of phases; each phase modifies the cache and ends with
   synchronize().  [n] is the size of the tag memory, [from] the cache content after the last
   synchronize (= data_from_tag).  Result and the commands executed by the tag so far. *)
Definition phase := list Z -> res (list Z).
Fixpoint run_phases (u : nat) (n : Z) (from : list Z) (phs : list phase) (acc : list write)
  : res unit * list write :=
  match phs with
  | [] => (Ok tt, acc)
  | ph :: rest =>
    match ph from with
    | Ok c => let p := accept n (sync_cmds u from c) in
              if snd p then run_phases u n c rest (acc ++ fst p) else (tag_err, acc ++ fst p)
    | Err e => (Err e, acc)
    | Crash x => (Crash x, acc)
    | Hang => (Hang, acc)
    end
  end.

(* ---- the memory reader across operations on one tag object.
   Its state is the pair (data_from_tag, data_in_cache).  A write command can fail in two ways: the tag never
   received it ([Lost]) or executed it and only the response was lost ([Unanswered]); data_from_tag is updated
   only after a command succeeded. ---- *)
Inductive fate := Lost | Unanswered.

(* the commands of one synchronize; [k] = Some j: the j-th command from now on fails.  Result: tag memory,
   data_from_tag, commands executed by the tag, and None (the synchronize raised TagCommandError) or the
   remaining fault counter *)
Fixpoint exec_sync (n : Z) (ws : list write) (m from : list Z) (k : option nat) (f : fate)
  : list Z * list Z * list write * option (option nat) :=
  match ws with
  | [] => (m, from, [], Some k)
  | w :: r =>
    if negb ((0 <=? fst w) && (fst w + len (snd w) <=? n)) then (m, from, [], None)
    else
      match k with
      | Some (S O) =>
        match f with
        | Lost => (m, from, [], None)
        | Unanswered => (apply1 m w, from, [w], None)
        end
      | _ =>
        let k' := match k with Some (S j) => Some j | _ => None end in
        let '(m', from', ex, r') := exec_sync n r (apply1 m w) (apply1 from w) k' f in
        (m', from', w :: ex, r')
      end
  end.

(* one attempt of a write operation (a list of phases) starting from the reader state (from, cache).
   When a synchronize fails the memory reader forgets what it has read and changed (repair
   c02-tlv-reader-reset-after-failed-write): the next access loads from the tag again, i.e. data_from_tag and
   data_in_cache are the readable image [vw m'] of the tag memory as the failed command left it. *)
Fixpoint run_attempt (u : nat) (n : Z) (vw : list Z -> list Z) (m from cache : list Z) (phs : list phase) (k : option nat) (f : fate)
  : res unit * (list Z * list Z * list Z) * list write :=
  match phs with
  | [] => (Ok tt, (m, from, cache), [])
  | ph :: rest =>
    match ph cache with
    | Ok c =>
      match exec_sync n (sync_cmds u from c) m from k f with
      | (m', from', ex, Some k') =>
        let '(r, st, ex2) := run_attempt u n vw m' from' c rest k' f in (r, st, ex ++ ex2)
      | (m', from', ex, None) => (tag_err, (m', vw m', vw m'), ex)
      end
    | Err e => (Err e, (m, from, cache), [])
    | Crash x => (Crash x, (m, from, cache), [])
    | Hang => (Hang, (m, from, cache), [])
    end
  end.

(* what the TLV walk does after looking at a TLV: go on (with this skip set), NDEF TLV found, stop *)
Inductive tlv_action := Next (skip : ranges) | Found | Stop.

(* what a fresh reader reports *)
Inductive fresh_t := NoNdef | NotReadable | Msg (d : list Z) | Failed (e : res unit).

(* the NDEF TLV found by the TLV walk *)
Record layout := {
  l_off : Z;           (* _ndef_tlv_offset *)
  l_skip : ranges;     (* _skip_bytes *)
  l_cap : Z;           (* _capacity *)
  l_rd : bool; l_wr : bool;
  l_val : list Z;      (* value of the NDEF TLV *)
  l_dend : Z;          (* end of the data area *)
  l_hw : Z             (* ghost: 1 + highest address read for the TLVs before the NDEF TLV *)
}.
Definition set_val (L : layout) (v : list Z) : layout :=
  {| l_off := l_off L; l_skip := l_skip L; l_cap := l_cap L; l_rd := l_rd L; l_wr := l_wr L;
     l_val := v; l_dend := l_dend L; l_hw := l_hw L |}.

(* The test at the end of _read_ndef_data (repairs c08-15 / c08-16): the NDEF TLV is only reported when
     start = offset + (4 if tag_memory[offset+1] == 0xFF else 2) <= end of the data area,
     len(ndef) <= len(set(range(start, end)) - skip_bytes)  and  len(ndef) <= capacity *)
Definition ndef_hdr (em : list Z) (off : Z) : Z :=
  match rd em (off + 1) with Ok 255 => 4 | _ => 2 end.
Definition ndef_fits (em : list Z) (L : layout) : bool :=
  let start := l_off L + ndef_hdr em (l_off L) in
  (start <=? l_dend L)
  && (len (l_val L) <=? count_free (l_skip L) start (Z.to_nat (l_dend L - start)))
  && (len (l_val L) <=? l_cap L).

(* NDEF message area: the bytes of the data area from the NDEF TLV on that are not reserved *)
Definition ndef_area (L : layout) (a : Z) : bool :=
  (l_off L <=? a) && (a <? l_dend L) && negb (in_skip (l_skip L) a).

(* ---- the phases of _write_ndef_data (tt1.py and tt2.py share this structure):
        length byte := 0 | value bytes and terminator | length ---- *)
Definition ph_len0 (L : layout) : phase := fun c => upd c (l_off L + 1) 0.
Definition ph_data (L : layout) (d : list Z) : phase := fun c =>
  let start := l_off L + (if len d <? 255 then 2 else 4) in
  do r <- place (l_skip L) c start d;
  match term_pos (l_skip L) (snd r) (Z.to_nat (l_dend L - snd r)) with
  | Some t => upd (fst r) t 254
  | None => Ok (fst r)
  end.
Definition ph_len_short (L : layout) (d : list Z) : phase := fun c => upd c (l_off L + 1) (len d).
Definition ph_len_low (L : layout) (d : list Z) : phase := fun c =>
  do c' <- upd c (l_off L + 2) (len d / 256); upd c' (l_off L + 3) (len d mod 256).
Definition ph_len_ff (L : layout) : phase := fun c => upd c (l_off L + 1) 255.
(* tt1.py, and tt2.py before the repair c02-tt2-length-commit: FF and the two length bytes in one synchronize *)
Definition ph_len_long_unrepaired (L : layout) (d : list Z) : phase := fun c =>
  do c1 <- upd c (l_off L + 1) 255;
  do c2 <- upd c1 (l_off L + 2) (len d / 256); upd c2 (l_off L + 3) (len d mod 256).
