(* Model of nfc.clf.device.calculate_crc / add_crc_a/b / check_crc_a/b and the
   ISO/IEC 14443-3 Annex B byte-wise reference.  Executable definitions only. *)
From Coq Require Import ZArith List Bool.
From NV Require Import Base.Result Base.Bytes Base.PyPrims.
Import ListNotations.
Open Scope Z_scope.

(* the code's inner loop body: for pos in range(8) *)
Definition crc_bit (reg octet pos : Z) : Z :=
  let bit := Z.land (Z.lxor reg (Z.land (Z.shiftr octet pos) 1)) 1 in
  let reg := Z.shiftr reg 1 in
  if bit =? 0 then reg else Z.lxor reg 0x8408.

Fixpoint crc_steps (n : nat) (pos octet reg : Z) : Z :=
  match n with O => reg | S n' => crc_steps n' (pos + 1) octet (crc_bit reg octet pos) end.

Definition crc_octet (reg octet : Z) : Z := crc_steps 8 0 octet reg.

(* calculate_crc(data, size, reg) with data[:size] already taken *)
Definition crc16 (reg : Z) (data : list Z) : Z := fold_left crc_octet data reg.

Definition calculate_crc (data : list Z) (size reg : Z) : Z :=
  crc16 reg (pyslice data 0 size).

(* ISO/IEC 14443-3 Annex B, UpdateCrc (unsigned char ch; unsigned short crc) *)
Definition iso_update (crc ch : Z) : Z :=
  let ch1 := Z.lxor ch (Z.land crc 0xFF) in
  let ch2 := Z.land (Z.lxor ch1 (Z.shiftl ch1 4)) 0xFF in
  Z.land (Z.lxor (Z.lxor (Z.lxor (Z.shiftr crc 8) (Z.shiftl ch2 8)) (Z.shiftl ch2 3)) (Z.shiftr ch2 4)) 0xFFFF.
Definition iso_crc (init : Z) (data : list Z) : Z := fold_left iso_update data init.
Definition iso_crc_a (data : list Z) : list Z :=
  let c := iso_crc 0x6363 data in [Z.land c 0xFF; Z.land (Z.shiftr c 8) 0xFF].
Definition iso_crc_b (data : list Z) : list Z :=
  let c := Z.land (Z.lnot (iso_crc 0xFFFF data)) 0xFFFF in [Z.land c 0xFF; Z.land (Z.shiftr c 8) 0xFF].

(* the driver helpers *)
Definition add_crc_a (data : list Z) : list Z :=
  let crc := calculate_crc data (len data) 0x6363 in
  data ++ [Z.land crc 0xFF; Z.shiftr crc 8].
Definition add_crc_b (data : list Z) : list Z :=
  let crc := Z.land (Z.lnot (calculate_crc data (len data) 0xFFFF)) 0xFFFF in
  data ++ [Z.land crc 0xFF; Z.shiftr crc 8].

(* check_crc_x: data[-2], data[-1] raise IndexError when len(data) < 2;
   data[:len-2] is Python's clipping slice (pyslice). *)
Definition check_crc_with (final : Z -> Z) (init : Z) (data : list Z) : res bool :=
  let n := len data in
  let crc := final (calculate_crc data (n - 2) init) in
  do a <- idx data (n - 2);
  do b <- idx data (n - 1);
  Ok ((a =? Z.land crc 0xFF) && (b =? Z.shiftr crc 8)).
Definition check_crc_a := check_crc_with (fun c => c) 0x6363.
Definition check_crc_b := check_crc_with (fun c => Z.land (Z.lnot c) 0xFFFF) 0xFFFF.
