(* C10 - executable model of the LLCP packet collector and of the code that feeds it.

   Sources (nfcpy, src/nfc/llcp):
     llc.py  LogicalLinkController.collect / dispatch, ServiceAccessPoint.dequeue / sendack / mode,
             ServiceDiscovery.dequeue
     tco.py  TransmissionControlObject.dequeue, RawAccessPoint.dequeue, LogicalDataLink.dequeue / sendto,
             DataLinkConnection.dequeue / sendack / send
     pdu.py  header layout, AggregatedFrame.encode / decode, ServiceNameLookup.encode, __len__

   What is modelled: the data the collector looks at.  A PDU is its header fields plus the bytes of its
   information field ([body]); [plen] is what the Python [len(pdu)] returns (the harness checks on every PDU
   it meets that len(pdu) == header_size + len(encoded information field)).  Mutation is state passing; a
   deque is a list (head = left end).  Secure data transfer: [sec c] is the cipher object (icv_size, encrypt)
   or None; the cipher itself is a parameter of the model (the theorems assume only that encrypt lengthens the
   data by icv_size octets); decryption in dispatch() is not modelled.

   The two loops whose budget tests were wrong in the pinned tree are parameterised by a [variant]:
   [orig] is the code as found (`while miu_size > 0` in ServiceDiscovery.dequeue, `while True` around the
   aggregation loop), [fixed] is the repaired code (fixes/c10-1-*.diff, fixes/c10-2-*.diff):
   `while miu_size >= 4` and `while miu_size >= 0`.  Theorems are about [fixed]; [orig] is kept for the
   refutation witnesses. *)
From Coq Require Import ZArith List Bool.
From NV Require Import Base.Result Base.Bytes.
Import ListNotations.
Open Scope Z_scope.

(* ------------------------------------------------------------------ PDUs *)
Record pdu := mkPdu { pt : Z; da : Z; sa : Z; ns : Z; nr : Z; body : list Z }.

(* ptype values of pdu.pdu_type_map *)
Definition PT_SYMM := 0.  Definition PT_PAX := 1.   Definition PT_AGF := 2.  Definition PT_UI := 3.
Definition PT_CONNECT := 4. Definition PT_DISC := 5. Definition PT_CC := 6.  Definition PT_DM := 7.
Definition PT_FRMR := 8.  Definition PT_SNL := 9.   Definition PT_DPS := 10.
Definition PT_I := 12.    Definition PT_RR := 13.   Definition PT_RNR := 14.

(* NumberedProtocolDataUnit.header_size = 3 (I, RR, RNR), ProtocolDataUnit.header_size = 2 *)
Definition numbered (t : Z) : bool := (t =? 12) || (t =? 13) || (t =? 14).
Definition hsize (p : pdu) : Z := if numbered (pt p) then 3 else 2.
(* len(pdu) *)
Definition plen (p : pdu) : Z := hsize p + len (body p).
(* send_pdu.name in ("UI", "I") *)
Definition is_ui_i (p : pdu) : bool := (pt p =? 3) || (pt p =? 12).
Definition set_nr (p : pdu) (n : Z) : pdu := mkPdu (pt p) (da p) (sa p) (ns p) n (body p).

(* ------------------------------------------------------------------ sockets (tco.py) *)
Inductive skind := Raw | Ldl | Dlc.
Definition skind_eqb (a b : skind) : bool :=
  match a, b with Raw, Raw | Ldl, Ldl | Dlc, Dlc => true | _, _ => false end.

(* TransmissionControlObject.State.names index *)
Definition ST_SHUTDOWN := 0. Definition ST_CLOSED := 1. Definition ST_LISTEN := 2. Definition ST_CONNECT := 3.
Definition ST_ESTABLISHED := 4. Definition ST_DISCONNECT := 5. Definition ST_CLOSE_WAIT := 6.

Record sock := mkSock {
  sq : list pdu;            (* send_queue *)
  state : Z;                (* state.value *)
  busy : bool;              (* mode.RECV_BUSY *)
  busy_sent : bool;         (* mode.RECV_BUSY_SENT *)
  confs : Z;                (* recv_confs *)
  rcnt : Z; rack : Z; rwin : Z;   (* recv_cnt V(R), recv_ack V(RA), recv_win RW(L) *)
  scnt : Z; sack : Z; swin : Z;   (* send_cnt V(S), send_ack V(SA), send_win RW(R) *)
  smiu : Z;                 (* send_miu *)
  peer : Z;                 (* peer, None |-> 0 (both are falsy where the code tests it) *)
  addr : Z }.

Definition est (s : sock) : bool := state s =? ST_ESTABLISHED.
Definition with_sq (s : sock) (q : list pdu) : sock :=
  mkSock q (state s) (busy s) (busy_sent s) (confs s) (rcnt s) (rack s) (rwin s) (scnt s) (sack s) (swin s) (smiu s) (peer s) (addr s).
Definition with_busy_sent (s : sock) (b : bool) : sock :=
  mkSock (sq s) (state s) (busy s) b (confs s) (rcnt s) (rack s) (rwin s) (scnt s) (sack s) (swin s) (smiu s) (peer s) (addr s).
(* recv_ack = (recv_ack + recv_confs) % 16; recv_confs = 0 *)
Definition ackstate (s : sock) : sock :=
  mkSock (sq s) (state s) (busy s) (busy_sent s) 0 (rcnt s) ((rack s + confs s) mod 16) (rwin s) (scnt s) (sack s) (swin s) (smiu s) (peer s) (addr s).
(* state.SHUTDOWN = True; close(): queues cleared *)
Definition shutdown (s : sock) : sock :=
  mkSock [] ST_SHUTDOWN (busy s) (busy_sent s) (confs s) (rcnt s) (rack s) (rwin s) (scnt s) (sack s) (swin s) (smiu s) (peer s) (addr s).
Definition with_scnt (s : sock) (q : list pdu) (c : Z) : sock :=
  mkSock q (state s) (busy s) (busy_sent s) (confs s) (rcnt s) (rack s) (rwin s) c (sack s) (swin s) (smiu s) (peer s) (addr s).
Definition with_smiu (s : sock) (m : Z) : sock :=
  mkSock (sq s) (state s) (busy s) (busy_sent s) (confs s) (rcnt s) (rack s) (rwin s) (scnt s) (sack s) (swin s) m (peer s) (addr s).

(* ACK = RNR_PDU if self.mode.RECV_BUSY else RR_PDU; ACK(self.peer, self.addr, self.recv_ack) *)
Definition ack (s : sock) : pdu := mkPdu (if busy s then PT_RNR else PT_RR) (peer s) (addr s) 0 (rack s) [].

(* TransmissionControlObject.dequeue(miu_size, icv_size); miu_size None = no length check (raw) *)
Definition tco_dequeue (miu : option Z) (icv : Z) (q : list pdu) : list pdu * option pdu :=
  match q with
  | [] => (q, None)
  | p :: q' =>
      let pdu_size := if is_ui_i p then plen p + icv else plen p in
      match miu with
      | Some m => if pdu_size - hsize p >? m then (q, None) (* requeue at the left end *) else (q', Some p)
      | None => (q', Some p)
      end
  end.

(* DataLinkConnection.recv_window_slots *)
Definition recv_window_slots (s : sock) : Z := (rwin s - rcnt s + rack s) mod 16.
Definition send_window_slots (s : sock) : Z := (swin s - scnt s + sack s) mod 16.

(* DataLinkConnection.dequeue *)
Definition dlc_dequeue (miu icv : Z) (s : sock) : sock * option pdu :=
  if est s && negb (Bool.eqb (busy_sent s) (busy s)) then
    let s1 := with_busy_sent s (busy s) in (s1, Some (ack s1))
  else
    let '(q', r) := tco_dequeue (Some miu) icv (sq s) in
    match r with
    | Some p =>
        let s1 := with_sq s q' in
        let s2 := if pt p =? PT_FRMR then shutdown s1 else s1 in
        if (pt p =? PT_I) && est s2 then
          let s3 := if negb (confs s2 =? 0) && negb (rcnt s2 =? rack s2) then ackstate s2 else s2 in
          (s3, Some (set_nr p (rack s3)))
        else (s2, Some p)
    | None =>
        if est s && negb (confs s =? 0) && (recv_window_slots s =? 0) then
          let s1 := ackstate s in (s1, Some (ack s1))
        else (s, None)
    end.

(* DataLinkConnection.sendack *)
Definition dlc_sendack (s : sock) : sock * option pdu :=
  if est s && negb (confs s =? 0) && negb (rcnt s =? rack s) then
    let s1 := ackstate s in (s1, Some (ack s1))
  else (s, None).

Definition sock_dequeue (k : skind) (miu icv : Z) (s : sock) : sock * option pdu :=
  match k with
  | Raw => let '(q', r) := tco_dequeue None 0 (sq s) in (with_sq s q', r)
  | Ldl => let '(q', r) := tco_dequeue (Some miu) icv (sq s) in (with_sq s q', r)
  | Dlc => dlc_dequeue miu icv s
  end.

(* ------------------------------------------------------------------ sending (tco.py / llc.sendto) *)
Definition EMSGSIZE := 90. Definition EDESTADDRREQ := 89. Definition ESHUTDOWN := 108.
Definition ENOTCONN := 107. Definition EPIPE := 32. Definition EWOULDBLOCK := 11.

(* llc.sendto on a LogicalDataLink: socket.send_miu = cfg['send-miu']; LogicalDataLink.sendto(message, dest,
   MSG_DONTWAIT) *)
Definition ldl_sendto (link_miu : Z) (s : sock) (msg : list Z) (dest : Z) : res sock :=
  let s := with_smiu s link_miu in
  if state s =? ST_SHUTDOWN then Err (LlcpError ESHUTDOWN)
  else if negb (peer s =? 0) && negb (dest =? peer s) then Err (LlcpError EDESTADDRREQ)
  else if len msg >? smiu s then Err (LlcpError EMSGSIZE)
  else Ok (with_sq s (sq s ++ [mkPdu PT_UI dest (addr s) 0 0 msg])).

(* DataLinkConnection.send(message, MSG_DONTWAIT) *)
Definition dlc_send (s : sock) (msg : list Z) : res sock :=
  if negb (est s) then
    (if state s =? ST_CLOSE_WAIT then Err (LlcpError EPIPE) else Err (LlcpError ENOTCONN))
  else if len msg >? smiu s then Err (LlcpError EMSGSIZE)
  else if send_window_slots s =? 0 then Err (LlcpError EWOULDBLOCK)
  else Ok (with_scnt s (sq s ++ [mkPdu PT_I (peer s) (addr s) (scnt s) 0 msg]) ((scnt s + 1) mod 16)).

(* llc.connect / llc.accept: if socket.send_miu > cfg['send-miu']: socket.send_miu = cfg['send-miu'] *)
Definition llc_clamp_miu (link_miu : Z) (s : sock) : sock :=
  if smiu s >? link_miu then with_smiu s link_miu else s.

(* ------------------------------------------------------------------ service access points (llc.py) *)
(* sock_list holds sockets of one class (insert_socket refuses others): the class is a field of the SAP *)
Record sap := mkSap { skd : skind; socks : list sock; slist : list pdu (* send_list *) }.

(* ServiceAccessPoint.mode: class of sock_list[0]; IndexError -> 0 == RAW_ACCESS_POINT *)
Definition sap_mode (a : sap) : skind := match socks a with [] => Raw | _ => skd a end.

Fixpoint socks_dequeue (k : skind) (miu icv : Z) (l : list sock) : list sock * option pdu :=
  match l with
  | [] => ([], None)
  | s :: r =>
      let '(s', o) := sock_dequeue k miu icv s in
      match o with
      | Some p => (s' :: r, Some p)
      | None => let '(r', o') := socks_dequeue k miu icv r in (s' :: r', o')
      end
  end.

(* ServiceAccessPoint.dequeue: first socket that returns a PDU, else send_list.popleft() *)
Definition sap_dequeue (miu icv : Z) (a : sap) : sap * option pdu :=
  let '(l', o) := socks_dequeue (skd a) miu icv (socks a) in
  match o with
  | Some p => (mkSap (skd a) l' (slist a), Some p)
  | None => match slist a with
            | [] => (mkSap (skd a) l' [], None)
            | p :: r => (mkSap (skd a) l' r, Some p)
            end
  end.

Fixpoint socks_sendack (l : list sock) : list sock * option pdu :=
  match l with
  | [] => ([], None)
  | s :: r =>
      let '(s', o) := dlc_sendack s in
      match o with
      | Some p => (s' :: r, Some p)
      | None => let '(r', o') := socks_sendack r in (s' :: r', o')
      end
  end.

(* ------------------------------------------------------------------ service discovery (llc.py) *)
Record sd := mkSd { sdres : list (Z * Z) (* tid, sap *); sdreq : list (Z * list Z) (* tid, name *);
                    dmpdu : list pdu }.

(* Parameter.encode(SDREQ/SDRES); ServiceNameLookup.encode emits the requests first *)
Definition req_tlv (r : Z * list Z) : list Z := [8; 1 + len (snd r); fst r] ++ snd r.
Definition res_tlv (r : Z * Z) : list Z := [9; 2; fst r; snd r].
Definition snl_pdu (rs : list (Z * Z)) (qs : list (Z * list Z)) : pdu :=
  mkPdu PT_SNL 1 1 0 0 (concat (map req_tlv qs) ++ concat (map res_tlv rs)).

(* while miu_size >= thr: try: sdres.append(self.sdres.popleft()); miu_size -= 4 except IndexError: break
   thr = 1 is the pinned `while miu_size > 0`, thr = 4 the repaired loop *)
Fixpoint take_res (thr : Z) (rs : list (Z * Z)) (miu : Z) : list (Z * Z) * list (Z * Z) * Z :=
  match rs with
  | [] => ([], [], miu)
  | r :: rest =>
      if thr <=? miu then let '(t, rest', m) := take_res thr rest (miu - 4) in (r :: t, rest', m)
      else ([], rs, miu)
  end.

(* for i in range(len(self.sdreq)): tid, name = self.sdreq[0]; rotate(-1) or popleft/append *)
Fixpoint req_loop (n : nat) (q taken : list (Z * list Z)) (miu : Z) : res (list (Z * list Z) * list (Z * list Z) * Z) :=
  match n with
  | O => Ok (taken, q, miu)
  | S k =>
      match q with
      | [] => Crash IndexErr
      | r :: rest =>
          if 3 + len (snd r) >? miu then req_loop k (rest ++ [r]) taken miu
          else req_loop k rest (taken ++ [r]) (miu - (3 + len (snd r)))
      end
  end.

(* ServiceDiscovery.dequeue(miu_size, icv_size) *)
Definition sd_dequeue (thr miu : Z) (d : sd) : res (sd * option pdu) :=
  match sdres d, sdreq d with
  | [], [] =>
      match dmpdu d with
      | p :: r => if miu >? 0 then Ok (mkSd [] [] r, Some p) else Ok (d, None)
      | [] => Ok (d, None)
      end
  | _, _ =>
      let '(t, rest, m1) := take_res thr (sdres d) miu in
      do x <- req_loop (length (sdreq d)) (sdreq d) [] m1;
      let '(tq, restq, _) := x in
      Ok (mkSd rest restq (dmpdu d), Some (snl_pdu t tq))
  end.

(* ------------------------------------------------------------------ the controller's SAP table *)
(* filter(None, self.sap): the non-empty slots in address order; slot 1 is the ServiceDiscovery object *)
Inductive sapobj := SapN (a : sap) | SapD (d : sd).

(* ServiceDiscovery.mode == LOGICAL_DATA_LINK *)
Definition obj_mode (o : sapobj) : skind := match o with SapN a => sap_mode a | SapD _ => Ldl end.

Definition obj_dequeue (thr miu icv : Z) (o : sapobj) : res (sapobj * option pdu) :=
  match o with
  | SapN a => let '(a', r) := sap_dequeue miu icv a in Ok (SapN a', r)
  | SapD d => do x <- sd_dequeue thr miu d; let '(d', r) := x in Ok (SapD d', r)
  end.

(* sap.sendack() - only called for sap.mode == DATA_LINK_CONNECTION *)
Definition obj_sendack (o : sapobj) : sapobj * option pdu :=
  match o with
  | SapN a => let '(l', r) := socks_sendack (socks a) in (SapN (mkSap (skd a) l' (slist a)), r)
  | SapD d => (o, None)
  end.

(* encode_header: struct.pack('!H', dsap << 10 | ptype << 6 | ssap) [+ ns << 4 | nr] *)
Definition enc_hdr (p : pdu) : list Z :=
  [da p * 4 + pt p / 4; (pt p mod 4) * 64 + sa p] ++ (if numbered (pt p) then [ns p * 16 + nr p] else []).

(* llc.sec: None or a cipher object (secure data transfer).  Only what collect() uses of it: icv_size and
   encrypt(header bytes, plaintext) -> ciphertext (the real suite appends a 4-octet ICV) *)
Record cipher := mkCipher { icv_size : Z; encrypt : list Z -> list Z -> list Z }.
Record cfg := mkCfg { send_miu : Z (* cfg['send-miu'] *); send_agf : bool (* cfg['send-agf'] *);
                      sec : option cipher (* self.sec *) }.
(* icv_size = self.sec.icv_size if self.sec else 0 *)
Definition cfg_icv (c : cfg) : Z := match sec c with Some k => icv_size k | None => 0 end.
(* if self.sec and send_pdu.name in ("UI", "I"): send_pdu = encrypt(send_pdu)
   encrypt: a = encode_header(); c = self.sec.encrypt(a, data); pdu_type built from decode_header(a) and data=c *)
Definition maybe_encrypt (c : cfg) (p : pdu) : pdu :=
  match sec c with
  | Some k => if is_ui_i p then mkPdu (pt p) (da p) (sa p) (ns p) (nr p) (encrypt k (enc_hdr p) (body p)) else p
  | None => p
  end.
Record variant := mkVariant { sd_thr : Z; agf_guard : bool }.
Definition orig := mkVariant 1 false.
Definition fixed := mkVariant 4 true.

(* len(AggregatedFrame) = 2 + sum(2 + len(pdu)) *)
Definition agf_info (l : list pdu) : Z := sum (map (fun p => 2 + plen p) l).
Definition agf_len (l : list pdu) : Z := 2 + agf_info l.

(* the first loop of collect(): `for sap in sorted(filter(None, self.sap), reverse=True,
   key=lambda sap: sap.mode == RAW_ACCESS_POINT)` = the raw-mode SAPs in address order, then the others
   (sorted is stable, keys are taken before the loop).  One pass per key value; a pass leaves the SAPs it
   skips untouched and stops at the first PDU. *)
Fixpoint first_pass (c : cfg) (thr : Z) (raw_turn : bool) (miu : Z) (l : list sapobj) : res (list sapobj * option pdu) :=
  match l with
  | [] => Ok ([], None)
  | o :: r =>
      if Bool.eqb (skind_eqb (obj_mode o) Raw) raw_turn then
        do x <- obj_dequeue thr miu 0 o;          (* sap.dequeue(miu_size, icv_size=0) *)
        let '(o', y) := x in
        match y with
        | Some p => Ok (o' :: r, Some (maybe_encrypt c p))
        | None => do z <- first_pass c thr raw_turn miu r; let '(r', y') := z in Ok (o' :: r', y')
        end
      else do z <- first_pass c thr raw_turn miu r; let '(r', y') := z in Ok (o :: r', y')
  end.

Definition phase1 (c : cfg) (thr miu : Z) (l : list sapobj) : res (list sapobj * option pdu) :=
  do x <- first_pass c thr true miu l;
  let '(l1, y) := x in
  match y with
  | Some p => Ok (l1, Some p)
  | None => first_pass c thr false miu l1
  end.

(* voluntary acknowledgement when nothing was dequeued *)
Fixpoint ack_pass (l : list sapobj) : list sapobj * option pdu :=
  match l with
  | [] => ([], None)
  | o :: r =>
      if skind_eqb (obj_mode o) Dlc then
        let '(o', y) := obj_sendack o in
        match y with
        | Some p => (o' :: r, Some p)
        | None => let '(r', y') := ack_pass r in (o' :: r', y')
        end
      else let '(r', y') := ack_pass r in (o :: r', y')
  end.

(* one `for sap in filter(None, self.sap)` pass of the aggregation loop; the last component is deq_none *)
Fixpoint agg_for (c : cfg) (thr M icv : Z) (l : list sapobj) (agf : list pdu) (miu : Z) (deq_none : bool)
  : res (list sapobj * list pdu * Z * bool) :=
  match l with
  | [] => Ok ([], agf, miu, deq_none)
  | o :: r =>
      do x <- obj_dequeue thr miu icv o;          (* sap.dequeue(miu_size, icv_size) *)
      let '(o', y) := x in
      match y with
      | Some p =>
          let agf' := agf ++ [maybe_encrypt c p] in
          let miu' := M - agf_len agf' - 3 in
          if miu' <? 0 then Ok (o' :: r, agf', miu', false)
          else do z <- agg_for c thr M icv r agf' miu' false;
               let '(r', a, m, d) := z in Ok (o' :: r', a, m, d)
      | None =>
          do z <- agg_for c thr M icv r agf miu deq_none;
          let '(r', a, m, d) := z in Ok (o' :: r', a, m, d)
      end
  end.

(* `while True:` (pinned) / `while miu_size >= 0:` (repaired) ... `if miu_size < 0 or deq_none: break` *)
Fixpoint agg_loop (fuel : nat) (c : cfg) (v : variant) (M icv : Z) (l : list sapobj) (agf : list pdu) (miu : Z)
  : res (list sapobj * list pdu * Z) :=
  match fuel with
  | O => Hang
  | S f =>
      if agf_guard v && (miu <? 0) then Ok (l, agf, miu)
      else
        do x <- agg_for c (sd_thr v) M icv l agf miu true;
        let '(l', agf', miu', dn) := x in
        if (miu' <? 0) || dn then Ok (l', agf', miu') else agg_loop f c v M icv l' agf' miu'
  end.

(* final voluntary acknowledgements *)
Fixpoint ack_for (M : Z) (l : list sapobj) (agf : list pdu) : list sapobj * list pdu :=
  match l with
  | [] => ([], agf)
  | o :: r =>
      if skind_eqb (obj_mode o) Dlc then
        let '(o', y) := obj_sendack o in
        match y with
        | Some p =>
            let agf' := agf ++ [p] in
            if M - agf_len agf' - 3 <? 0 then (o' :: r, agf')
            else let '(r', a) := ack_for M r agf' in (o' :: r', a)
        | None => let '(r', a) := ack_for M r agf in (o' :: r', a)
        end
      else let '(r', a) := ack_for M r agf in (o :: r', a)
  end.

Inductive frame := FNone | FOne (p : pdu) | FAgf (l : list pdu).

Definition collect_fuel (c : cfg) : nat := S (S (Z.to_nat (send_miu c))).

(* LogicalLinkController.collect() *)
Definition collect_v (v : variant) (c : cfg) (st : list sapobj) : res (list sapobj * frame) :=
  let M := send_miu c in
  do x <- phase1 c (sd_thr v) M st;
  let '(l1, y) := x in
  let early := match y with Some p => plen p - hsize p >=? M | None => false end in
  match y, early with
  | Some p, true => Ok (l1, FOne p)
  | _, _ =>
      let '(l2, y2) := match y with Some p => (l1, Some p) | None => ack_pass l1 end in
      match y2 with
      | None => Ok (l2, FNone)
      | Some p =>
          if negb (send_agf c) then Ok (l2, FOne p)
          else
            let agf0 := [p] in
            let miu0 := M - agf_len agf0 - 3 in
            do z <- agg_loop (collect_fuel c) c v M (cfg_icv c) l2 agf0 miu0;
            let '(l3, agf1, miu1) := z in
            let '(l4, agf2) := if miu1 >=? 0 then ack_for M l3 agf1 else (l3, agf1) in
            match agf2 with
            | [] => Crash IndexErr            (* agf_pdu.first of an empty aggregate *)
            | [q] => Ok (l4, FOne q)          (* agf_pdu.count > 1 else agf_pdu.first *)
            | _ => Ok (l4, FAgf agf2)
            end
      end
  end.

Definition collect := collect_v fixed.

(* information field of what collect returned (frame = header + information field) *)
Definition frame_info (f : frame) : Z :=
  match f with FNone => 0 | FOne p => len (body p) | FAgf l => agf_info l end.
Definition frame_pdus (f : frame) : list pdu :=
  match f with FNone => [] | FOne p => [p] | FAgf l => l end.

(* ------------------------------------------------------------------ wire format (pdu.py) *)
Definition enc_pdu (p : pdu) : list Z := enc_hdr p ++ body p.
(* AggregatedFrame.encode: header 00 80, then struct.pack('!H', len(encoded)) + encoded per PDU *)
Definition enc_sub (p : pdu) : list Z := [plen p / 256; plen p mod 256] ++ enc_pdu p.
Definition enc_frame (f : frame) : list Z :=
  match f with
  | FNone => []
  | FOne p => enc_pdu p
  | FAgf l => [0; 128] ++ concat (map enc_sub l)
  end.

(* ------------------------------------------------------------------ receiver: pdu.decode + llc.dispatch *)
(* AggregatedFrame.decode loop: `while size > 0`: 2-byte length, then decode(data, offset+2, pdu_size)
   which raises DecodeError if the slice leaves the data or is shorter than 2 *)
Fixpoint agf_chunks (fuel : nat) (d : list Z) : res (list (list Z)) :=
  match d with
  | [] => Ok []
  | _ =>
      match fuel with
      | O => Hang
      | S f =>
          match d with
          | h :: l :: r =>
              let n := h * 256 + l in
              if (n >? len r) || (n <? 2) then Err DecodeError
              else do cs <- agf_chunks f (drop n r); Ok (take n r :: cs)
          | _ => Err DecodeError
          end
      end
  end.

(* per-class decode of a PDU that is not an AGF: header, size and address checks of pdu.py.  The TLV value
   parsing of PAX/CONNECT/CC/SNL/DPS is C11's and is not repeated here (see the check's assumptions).
   Result: the PDU handed to dispatch; [] for SYMM (dispatch returns at once). *)
Definition decode_leaf (t dsap ssap : Z) (d : list Z) : res (list pdu) :=
  let size := len d in
  let rest := drop 2 d in
  if numbered t then
    match d with
    | _ :: _ :: s :: b => Ok [mkPdu t dsap ssap (s / 16) (s mod 16) b]
    | _ => Err DecodeError
    end
  else if t =? PT_SYMM then
    (if negb (dsap =? 0) || negb (ssap =? 0) || (size >=? 3) then Err DecodeError else Ok [])
  else if (t =? PT_PAX) || (t =? PT_DPS) then
    (if negb (dsap =? 0) || negb (ssap =? 0) then Err DecodeError else Ok [mkPdu t dsap ssap 0 0 rest])
  else if t =? PT_DM then
    (if negb (size =? 3) then Err DecodeError else Ok [mkPdu t dsap ssap 0 0 rest])
  else if t =? PT_FRMR then
    (if negb (size =? 6) then Err DecodeError else Ok [mkPdu t dsap ssap 0 0 rest])
  else if t =? PT_SNL then
    (if negb (dsap =? 1) || negb (ssap =? 1) then Err DecodeError else Ok [mkPdu t dsap ssap 0 0 rest])
  else Ok [mkPdu t dsap ssap 0 0 rest].

(* pdu.decode followed by llc.dispatch: the non-AGF, non-SYMM PDUs handed on to the SAP layer, in order.
   [fuel] bounds the nesting depth of aggregated frames (each level needs 4 bytes). *)
Fixpoint rx_dispatch (fuel : nat) (d : list Z) : res (list pdu) :=
  match fuel with
  | O => Crash RecursionErr
  | S f =>
      match d with
      | b0 :: b1 :: rest =>
          let t := ((b0 * 256 + b1) / 64) mod 16 in
          let dsap := b0 / 4 in
          let ssap := b1 mod 64 in
          if t =? PT_AGF then
            if negb (dsap =? 0) || negb (ssap =? 0) then Err DecodeError
            else
              do cs <- agf_chunks (length rest) rest;
              (fix go (cs : list (list Z)) : res (list pdu) :=
                 match cs with
                 | [] => Ok []
                 | c :: cs' => do a <- rx_dispatch f c; do b <- go cs'; Ok (a ++ b)
                 end) cs
          else decode_leaf t dsap ssap d
      | _ => Err DecodeError
      end
  end.

Definition receive (d : list Z) : res (list pdu) := rx_dispatch (S (length d)) d.

(* ------------------------------------------------------------------ how the limits are learnt (pdu.py, llc.py, tco.py) *)
(* Parameter.decode, T == MIUX: V = struct.unpack('>H'); if V & 0xF800: V = V & 0x07FF *)
Definition miux_decode (V : Z) : Z := if negb (Z.land V 63488 =? 0) then Z.land V 2047 else V.
(* ParameterExchange.miu = _miux + 128 (llc.activate: cfg['send-miu'] = rcvd_pax.miu);
   Connect.decode / ConnectionComplete.decode: miu = 128 + V; absent TLV: 128 *)
Definition learn_miu (v : option Z) : Z := match v with Some V => 128 + miux_decode V | None => 128 end.
(* DataLinkConnection.accept / connect: send_miu = rcvd_pdu.miu, then llc.accept / llc.connect clamp it *)
Definition learn_conn_miu (link_miu : Z) (v : option Z) (s : sock) : sock :=
  llc_clamp_miu link_miu (with_smiu s (learn_miu v)).
