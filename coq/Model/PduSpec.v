(* An independent reading of the LLCP 1.3 frame formats (NFC Forum LLCP TS, sections 4.2-4.5), written as a relation
   between the bytes of one PDU and the PDU value, without reference to the decoder's control flow:
     header   : DSAP (6 bits) | PTYPE (4 bits) | SSAP (6 bits) in two octets
     params   : the information field of PAX/CONNECT/CC/SNL/DPS is a sequence of T L V parameters
                (one odd trailing octet and parameters of a type the PDU does not define are ignored)
     fields   : the value of a field is that of the LAST parameter of its type, with the reserved bits ignored;
                absent parameters give the defaults MIU 128, RW 1
     AGF      : information field = sequence of 2-octet big-endian length + PDU, none of them an AGF
   Arithmetic (/, mod) instead of the decoder's shifts and masks. *)
From Coq Require Import ZArith List Bool.
From NV Require Import Base.Bytes Model.Pdu.
Import ListNotations.
Open Scope Z_scope.

Inductive params : list Z -> list (Z * list Z) -> Prop :=
| params_nil : params [] []
| params_pad x : params [x] []
| params_cons T V rest l : params rest l -> params (T :: len V :: V ++ rest) ((T, V) :: l).

(* value lengths required by the parameter formats (4.5.1 - 4.5.11) *)
Definition param_wf (tv : Z * list Z) : Prop :=
  let (T, V) := tv in
  (T = 1 -> len V = 1) /\ (T = 2 -> len V = 2) /\ (T = 3 -> len V = 2) /\ (T = 4 -> len V = 1) /\
  (T = 5 -> len V = 1) /\ (T = 7 -> len V = 1) /\ (T = 8 -> 1 <= len V) /\ (T = 9 -> len V = 2).

Fixpoint last_param (T : Z) (l : list (Z * list Z)) : option (list Z) :=
  match l with
  | [] => None
  | (T', V) :: r => match last_param T r with Some v => Some v | None => if T' =? T then Some V else None end
  end.

Definition be8 (V : list Z) : Z := match V with [a] => a | _ => 0 end.
Definition be16 (V : list Z) : Z := match V with [a; b] => a * 256 + b | _ => 0 end.
Definition opt_field (T : Z) (f : list Z -> Z) (L : list (Z * list Z)) : option Z := option_map f (last_param T L).
Definition def_field (T : Z) (f : list Z -> Z) (dflt : Z) (L : list (Z * list Z)) : Z :=
  match last_param T L with Some V => f V | None => dflt end.
Fixpoint sdreqs (L : list (Z * list Z)) : list (Z * list Z) :=
  match L with
  | [] => []
  | (T, V) :: r => if T =? 8 then match V with tid :: sn => (tid, sn) :: sdreqs r | [] => sdreqs r end else sdreqs r
  end.
Fixpoint sdress (L : list (Z * list Z)) : list (Z * Z) :=
  match L with
  | [] => []
  | (T, V) :: r => if T =? 9 then match V with [a; b] => (a, b) :: sdress r | _ => sdress r end else sdress r
  end.

(* every PDU type but AGF *)
Definition denotes1 (w : list Z) (p : pdu) : Prop :=
  match w with
  | a :: b :: info =>
      let d := a / 4 in let pt := (a mod 4) * 4 + b / 64 in let s := b mod 64 in
      match p with
      | Symm d' s' => pt = 0 /\ d = 0 /\ s = 0 /\ d' = 0 /\ s' = 0 /\ info = []
      | Pax d' s' v m wk l o =>
          pt = 1 /\ d = 0 /\ s = 0 /\ d' = 0 /\ s' = 0 /\
          exists L, params info L /\ Forall param_wf L /\
            v = opt_field 1 be8 L /\ m = opt_field 2 (fun V => be16 V mod 2048) L /\ wk = opt_field 3 be16 L /\
            l = opt_field 4 be8 L /\ o = opt_field 7 (fun V => be8 V mod 8) L
      | Agf _ _ _ => False
      | UI d' s' data => pt = 3 /\ d' = d /\ s' = s /\ data = info
      | Connect d' s' miu rw sn =>
          pt = 4 /\ d' = d /\ s' = s /\
          exists L, params info L /\ Forall param_wf L /\
            miu = def_field 2 (fun V => 128 + be16 V mod 2048) 128 L /\ rw = def_field 5 (fun V => be8 V mod 16) 1 L /\
            sn = last_param 6 L
      | Disc d' s' => pt = 5 /\ d' = d /\ s' = s
      | CC d' s' miu rw =>
          pt = 6 /\ d' = d /\ s' = s /\
          exists L, params info L /\ Forall param_wf L /\
            miu = def_field 2 (fun V => 128 + be16 V mod 2048) 128 L /\ rw = def_field 5 (fun V => be8 V mod 16) 1 L
      | DM d' s' r => pt = 7 /\ d' = d /\ s' = s /\ info = [r]
      | Frmr d' s' fl ptp ns nr vs vr vsa vra =>
          pt = 8 /\ d' = d /\ s' = s /\ info = [fl * 16 + ptp; ns * 16 + nr; vs * 16 + vr; vsa * 16 + vra] /\
          0 <= ptp < 16 /\ 0 <= nr < 16 /\ 0 <= vr < 16 /\ 0 <= vra < 16
      | Snl d' s' rq rs =>
          pt = 9 /\ d = 1 /\ s = 1 /\ d' = 1 /\ s' = 1 /\
          exists L, params info L /\ Forall param_wf L /\ rq = sdreqs L /\ rs = sdress L
      | Dps d' s' e r =>
          pt = 10 /\ d = 0 /\ s = 0 /\ d' = 0 /\ s' = 0 /\
          exists L, params info L /\ Forall param_wf L /\ e = last_param 10 L /\ r = last_param 11 L
      | Info d' s' ns nr data => pt = 12 /\ d' = d /\ s' = s /\ exists q, info = q :: data /\ ns = q / 16 /\ nr = q mod 16
      | RR d' s' nr => pt = 13 /\ d' = d /\ s' = s /\ exists q rest, info = q :: rest /\ nr = q mod 16
      | RNR d' s' nr => pt = 14 /\ d' = d /\ s' = s /\ exists q rest, info = q :: rest /\ nr = q mod 16
      | Unknown pt' d' s' payload => pt' = pt /\ (pt = 11 \/ pt = 15) /\ d' = d /\ s' = s /\ payload = info
      end
  | _ => False
  end.

(* length-prefixed member of an aggregate *)
Definition frame (e : list Z) : list Z := [len e / 256; len e mod 256] ++ e.

Definition denotes (w : list Z) (p : pdu) : Prop :=
  match p with
  | Agf d s ps =>
      exists a b subs, w = a :: b :: concat (map frame subs) /\
        a / 4 = 0 /\ (a mod 4) * 4 + b / 64 = 2 /\ b mod 64 = 0 /\ d = 0 /\ s = 0 /\
        Forall2 denotes1 subs ps /\ Forall (fun e => len e <= 65535) subs
  | _ => denotes1 w p
  end.
