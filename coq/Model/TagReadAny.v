(* Type 2 / Type 1 NDEF readers for ARBITRARY readable memory (property C08).

   Model/T2T.v t2_read and Model/T1T.v t1_read are the readers of the tree as it was when C01-C03 were
   built; they are total on every input but on damaged layouts they report what that code reported:
   an NDEF TLV whose value runs past the data area, a negative capacity, and (Type 1) the crashes of
   the TLV walk.  This file models the readers after the repairs
     fixes/c08-12-tt1-read-error-inside-tlv.diff   read errors inside a TLV end the walk (were: escape)
     fixes/c08-13-tt1-control-tlv-length.diff      control TLVs with a value length other than 3 are ignored
     fixes/c08-14-tt1-segment-range.diff           nothing is addressable beyond segment 15 (2048 bytes)
     fixes/c08-17-tt1-read-all-without-header-rom.diff  a RALL response without header ROM is a failed read (em = [])
     fixes/c08-18-tt1-memory-reader-rereads.diff   RALL and READ8 are issued once: the image only grows (Model/TagLoad.v)
     fixes/c08-15-tt1-ndef-tlv-exceeds-data-area.diff, fixes/c08-16-tt2-ndef-tlv-exceeds-data-area.diff
                                                   an NDEF TLV is only reported when tag, length field and
                                                   value lie inside the data area and the value is not longer
                                                   than the capacity
   Type 2: [t2_read_any] is T2T.t2_read followed by the new test, nothing else.
   Type 1: [t1_read_any] has its own walk ([t1_walk_any], T1T.t1_walk with the two changed branches).

   [em] is everything the memory reader can load: the concatenation of the answers to the read
   commands it issues in ascending order up to the first command that is not answered as expected
   (NAK, timeout, wrong length, the tag gone).  A tag that stops answering after any command is a
   shorter [em].

   The instrumented variants ([..._d]) additionally return the *demand*: 1 + the highest address the
   reader asks the memory reader for (len em + 1 stands for "an address beyond em", i.e. one more,
   failing, read command).  The number of commands is a function of the demand ([t2_cmds], [t1_cmds]).
   Definitions only. *)
From Coq Require Import ZArith List Bool.
From NV Require Import Base.Result Base.Bytes Model.TlvMem Model.T2T Model.T1T.
Import ListNotations.
Open Scope Z_scope.

(* size of tag + length field of the TLV at [off]: tag_memory[offset+1] == 0xFF *)
Definition hdr_size (em : list Z) (off : Z) : Z :=
  match rd em (off + 1) with Ok 255 => 4 | _ => 2 end.

(* start = offset + hdr; space = set(range(start, end)) - skip_bytes;
   not (start > end or len(ndef) > len(space) or len(ndef) > capacity) *)
Definition tlv_fits (em : list Z) (L : layout) : bool :=
  let start := l_off L + hdr_size em (l_off L) in
  (start <=? l_dend L)
  && (len (l_val L) <=? count_free (l_skip L) start (Z.to_nat (l_dend L - start)))
  && (len (l_val L) <=? l_cap L).

(* ------------------------------------------------------------ Type 2 *)
Definition t2_read_any (em : list Z) : res (option layout) :=
  match t2_read em with
  | Ok (Some L) => if tlv_fits em L then Ok (Some L) else Ok None
  | r => r
  end.

(* 1 + highest address read_tlv asks for *)
Definition read_tlv_d (em : list Z) (off : Z) (skip : ranges) : Z :=
  let fail := len em + 1 in
  match rd em off with
  | Ok t =>
    if (t =? 0) || (t =? 254) then off + 1 else
    match rd em (off + 1) with
    | Ok l0 =>
      if l0 =? 255 then
        match rd em (off + 2), rd em (off + 3) with
        | Ok h, Ok l =>
          match read_val skip (off + 4) (skipn (Z.to_nat (off + 4)) em) (Z.to_nat (256 * h + l)) with
          | Ok (_, e) => Z.max (off + 4) e
          | _ => fail
          end
        | _, _ => fail
        end
      else
        match read_val skip (off + 2) (skipn (Z.to_nat (off + 2)) em) (Z.to_nat l0) with
        | Ok (_, e) => Z.max (off + 2) e
        | _ => fail
        end
    | _ => fail
    end
  | _ => fail
  end.

(* T2T.t2_walk with the demand; once [off] is beyond [em] nothing can be read any more: the result is
   None, and one failing read is attempted unless the loop condition ends the walk first *)
Fixpoint t2_walk_d (fuel : nat) (em : list Z) (dend : Z) (skip : ranges) (off : Z) (inner : bool) (hw d : Z)
  : res (option (Z * ranges * list Z * Z)) * Z :=
  match fuel with
  | O => (Ok None, d)
  | S f =>
    if len em <=? off then (Ok None, if inner || (off <? dend) then Z.max d (len em + 1) else d)
    else if negb inner && (dend <=? off) then (Ok None, d)
    else if in_skip skip off then t2_walk_d f em dend skip (off + 1) true hw d
    else
      let d' := Z.max d (read_tlv_d em off skip) in
      match read_tlv em off skip with
      | Ok (t, l, v, e) =>
        match t2_dispatch skip t l v with
        | Ok (Next skip') =>
          t2_walk_d f em dend skip' (off + l + 1 + (if l <? 255 then 1 else 3)) false (Z.max hw e) d'
        | Ok Found => (Ok (Some (off, skip, v, hw)), d')
        | Ok Stop => (Ok None, d')
        | Err x => (Err x, d') | Crash c => (Crash c, d') | Hang => (Hang, d')
        end
      | Err _ => (Ok None, d')
      | Crash c => (Crash c, d')
      | Hang => (Hang, d')
      end
  end.

Definition t2_read_d (em : list Z) : res (option layout) * Z :=
  match rd em 12, rd em 13, rd em 14, rd em 15 with
  | Ok b12, Ok b13, Ok b14, Ok b15 =>
    if negb (b12 =? 225) then (Ok None, 13)
    else if negb (Z.shiftr b13 4 =? 1) then (Ok None, 14)
    else
      let dend := b14 * 8 + 16 in
      match t2_walk_d (S (length em)) em dend [] 16 false 16 16 with
      | (Ok None, d) => (Ok None, d)
      | (Ok (Some (off, skip, v, hw)), d) =>
        let L := {| l_off := off; l_skip := skip; l_cap := get_capacity dend off skip;
                    l_rd := Z.shiftr b15 4 =? 0; l_wr := Z.land b15 15 =? 0;
                    l_val := v; l_dend := dend; l_hw := hw |} in
        (if tlv_fits em L then Ok (Some L) else Ok None, d)
      | (Err e, d) => (Err e, d) | (Crash c, d) => (Crash c, d) | (Hang, d) => (Hang, d)
      end
  | _, _, _, _ => (Ok None, len em + 1)
  end.

(* upper bound of the exchange() calls of Type2TagMemoryReader for demand [d]: one READ per 16 bytes, two
   SECTOR SELECT packets per 1 KiB boundary, the first command that is not answered is sent 3 times
   (transceive: retries=2; the second SECTOR SELECT packet is sent once) *)
Definition t2_cmds_max (d : Z) : Z := (d + 15) / 16 + 2 * (d / 1024) + 3.
(* explicit bound of the demand in terms of the data area: a TLV that is read starts below [dend] or directly
   behind reserved bytes that follow a position below [dend]; its value is at most 65535 bytes long and skips
   reserved bytes; there are at most 256 reserved bytes per control TLV and, below [dend], at most one control
   TLV per 5 bytes *)
Definition t2_demand_bound (dend : Z) : Z := dend + 65541 + 256 * ((dend - 16) / 5 + 1).

(* ------------------------------------------------------------ Type 1 *)
Definition t1_dispatch_any (skip : ranges) (t l : Z) (v : list Z) : res tlv_action :=
  if t =? 0 then Ok (Next skip)
  else if t =? 1 then
    (if l =? 3 then do r <- ctl_range lock_byte_range 2048 v; Ok (Next (r :: skip)) else Ok (Next skip))
  else if t =? 2 then
    (if l =? 3 then do r <- ctl_range rsvd_byte_range 2048 v; Ok (Next (r :: skip)) else Ok (Next skip))
  else if t =? 3 then Ok Found
  else if t =? 254 then Ok Stop
  else Ok (Next skip).

(* while offset < size: if offset in skip: offset += 1; continue; read_tlv (None on ANY read error) ... *)
Fixpoint t1_walk_any (fuel : nat) (em : list Z) (size : Z) (skip : ranges) (off : Z) (hw d : Z)
  : res (option (Z * ranges * list Z * Z)) * Z :=
  match fuel with
  | O => (Hang, d)
  | S f =>
    if size <=? off then (Ok None, d)
    else if in_skip skip off then t1_walk_any f em size skip (off + 1) hw d
    else
      let d' := Z.max d (read_tlv_d em off skip) in
      match read_tlv em off skip with
      | Ok (t, l, v, e) =>
        match t1_dispatch_any skip t l v with
        | Ok (Next skip') =>
          t1_walk_any f em size skip' (off + l + 1 + (if l <? 255 then 1 else 3)) (Z.max hw e) d'
        | Ok Found => (Ok (Some (off, skip, v, hw)), d')
        | Ok Stop => (Ok None, d')
        | Err x => (Err x, d') | Crash c => (Crash c, d') | Hang => (Hang, d')
        end
      | Err _ => (Ok None, d')
      | Crash c => (Crash c, d')
      | Hang => (Hang, d')
      end
  end.

(* _read_ndef_data on the image [em] the memory reader can build (Model/TagLoad.v: RALL data of any length, block
   0Fh, segments); [hr0] is header ROM byte 0 as delivered by RALL *)
Definition t1_read_img (hr0 : Z) (em : list Z) : res (option layout) * Z :=
  if negb (Z.shiftr hr0 4 =? 1) then (Ok None, 1) else
  (* tag_memory[8], [9], [11], [10] in this order; the first one that cannot be loaded ends the read *)
  match rd em 8 with
  | Ok b8 =>
    if negb (b8 =? 225) then (Ok None, 9) else
    match rd em 9 with
    | Ok b9 =>
      if negb (Z.shiftr b9 4 =? 1) then (Ok None, 10) else
      match rd em 11 with
      | Ok b11 =>
        match rd em 10 with
        | Ok b10 =>
          let size := (b10 + 1) * 8 in
          let skip0 := [(104, if size =? 120 then 120 else 128)] in
          match t1_walk_any (S (Z.to_nat size)) em size skip0 12 12 12 with
          | (Ok None, d) => (Ok None, d)
          | (Ok (Some (off, skip, v, hw)), d) =>
            let L := {| l_off := off; l_skip := skip; l_cap := get_capacity size off skip;
                        l_rd := Z.shiftr b11 4 =? 0; l_wr := Z.land b11 15 =? 0;
                        l_val := v; l_dend := size; l_hw := hw |} in
            (if tlv_fits em L then Ok (Some L) else Ok None, d)
          | (Err e, d) => (Err e, d) | (Crash c, d) => (Crash c, d) | (Hang, d) => (Hang, d)
          end
        | _ => (Ok None, 11)
        end
      | _ => (Ok None, 12)
      end
    | _ => (Ok None, 10)
    end
  | _ => (Ok None, 9)
  end.
(* the same for a tag that answers RALL with 122 bytes, READ8 with 9 and RSEG with 129 bytes ([em0]: the memory;
   nothing is addressable from 2048 on; fewer than 120 bytes: RALL failed) *)
Definition t1_read_d (hr0 : Z) (em0 : list Z) : res (option layout) * Z :=
  let em := firstn 2048 em0 in
  if len em <? 120 then (Ok None, 1) else t1_read_img hr0 em.
Definition t1_read_any (hr0 : Z) (em0 : list Z) : res (option layout) := fst (t1_read_d hr0 em0).

(* upper bound of the exchange() calls of Type1TagMemoryReader for demand [d] <= 2049: RALL, READ8 of block
   0Fh, RSEG for segments 1..15, the first command that is not answered is sent 3 times *)
Definition t1_cmds_max (d : Z) : Z :=
  1 + (if 120 <? d then 1 else 0) + (if 128 <? d then (d - 1) / 128 else 0) + 2.

(* ------------------------------------------------------------ what tag.ndef shows *)
Inductive ndef_obs := ONone | ONdef (readable writeable : bool) (capacity : Z) (octets : list Z).
Definition obs_of (r : res (option layout)) : res ndef_obs :=
  match r with
  | Ok None => Ok ONone
  | Ok (Some L) => Ok (ONdef (l_rd L) (l_wr L) (l_cap L) (l_val L))
  | Err e => Err e | Crash c => Crash c | Hang => Hang
  end.

