(* LLCP protocol data units: executable, crash-explicit model of nfcpy src/nfc/llcp/pdu.py
   (the tree with the C11 repairs fixes/c11-1..4 applied).

   Self-contained (only Base.Result / Base.Bytes).  Reused by C07 (robustness) and C10 (pdu_len).

   What is modelled, function by function:
     Parameter.decode(data, offset, size)          param_decode      (TLV, per-type length rules, masking)
     Parameter.encode(T, V)                        param_encode
     ProtocolDataUnit.decode_header / encode_header        decode_header / encode_header
     NumberedProtocolDataUnit.decode_header / encode_header  decode_nheader / encode_nheader
     <Class>.decode(data, offset, size)            dec_symm dec_pax dec_agf dec_ui dec_connect dec_disc dec_cc dec_dm
                                                   dec_frmr dec_snl dec_dps dec_info dec_rr dec_rnr dec_unknown
     <Class>.encode / __len__                      encode / pdu_len
     decode(data, offset, size) (module level)     decode
   Conventions:
     * data is a list Z of bytes; every read goes through [rd] (absolute index into [data], as in the code).
       A struct.unpack_from / data[i] that is NOT inside a try block of the source is [rdc c]: reading out of
       range is [Crash c] (struct.error = StructErr, IndexError = IndexErr); inside `try: .. except struct.error:
       raise DecodeError` it is [Err DecodeError].
     * x >> k, x & m, x << k | y are Z.shiftr / Z.land / Z.shiftl / Z.lor as in the source.
     * `while` loops carry fuel (number of bytes still to be consumed, every iteration consumes >= 2); [Hang] on
       exhaustion is proved unreachable (Proofs/PduTotal.v, decode_total).
     * offset >= 0 is a precondition of all theorems (a negative offset makes struct.unpack_from index from the end;
       no caller in nfcpy does that).
     * Python recursion: after fix c11-4 an AGF inside an AGF is rejected before the recursive call, the call depth of
       decode is therefore bounded by 2 frames and no depth counter is needed (on the unrepaired tree nesting
       depth 498 = 1994 bytes raised RecursionError; this is finding agf-nesting, repaired by c11-4).
       encode / __len__ recurse over hand-built nested AggregatedFrame objects; these are modelled by structural
       recursion (RecursionError for objects nested deeper than CPython's limit is outside the model; a valid PDU
       has nesting depth <= 1).
     * nfc.llcp.pdu.EncodeError is not one of Base.Result.err, encode therefore has its own result type [eres].
   For users of this model (C07, C10):
     Proofs/PduWin.v    decode_char  : decode data off size = DecodeError if off+size > len data or size < 2, else
                                       decode_w (slice data off (off+size))   (decode_w = decoder on the PDU's own bytes)
                        decode_local : decode (pre ++ w ++ post) (len pre) (len w) = decode w 0 (len w)
     Proofs/PduTotal.v  decode_total : for offset >= 0 and bytes_ok data, decode returns Ok _ or Err DecodeError
                        decode_valid : decode .. = Ok p -> valid (norm p)      (field ranges of everything decode returns)
     Proofs/PduLen.v    len_encode   : encode p = EOk b -> pdu_len p = len b
     Bridge/Pdu.v       bridge_len_* : the __len__ methods regenerated from the source are pdu_len
     Model/PduSpec.v    denotes      : independent reading of the frame formats; Proofs/PduSound.v decode_sound *)
From Coq Require Import ZArith List Bool.
From NV Require Import Base.Result Base.Bytes.
Import ListNotations.
Open Scope Z_scope.

(* ------------------------------------------------------------------ PDUs *)
Inductive pdu :=
| Symm (dsap ssap : Z)
| Pax (dsap ssap : Z) (version miux wks lto opt : option Z)          (* _version _miux _wks _lto _opt *)
| Agf (dsap ssap : Z) (aggregate : list pdu)
| UI (dsap ssap : Z) (data : list Z)
| Connect (dsap ssap : Z) (miu rw : Z) (sn : option (list Z))
| Disc (dsap ssap : Z)
| CC (dsap ssap : Z) (miu rw : Z)
| DM (dsap ssap : Z) (reason : Z)
| Frmr (dsap ssap : Z) (flags ptype ns nr vs vr vsa vra : Z)
| Snl (dsap ssap : Z) (sdreq : list (Z * list Z)) (sdres : list (Z * Z))
| Dps (dsap ssap : Z) (ecpk rn : option (list Z))
| Info (dsap ssap : Z) (ns nr : Z) (data : list Z)
| RR (dsap ssap : Z) (nr : Z)
| RNR (dsap ssap : Z) (nr : Z)
| Unknown (ptype dsap ssap : Z) (payload : list Z).

(* decoded parameter (the V of Parameter.decode together with its T) *)
Inductive tlv :=
| TVersion (v : Z) | TMiux (v : Z) | TWks (v : Z) | TLto (v : Z) | TRw (v : Z) | TSn (b : list Z) | TOpt (v : Z)
| TSdreq (tid : Z) (sn : list Z) | TSdres (tid sap : Z) | TEcpk (b : list Z) | TRn (b : list Z)
| TOther (T : Z) (b : list Z).

(* ------------------------------------------------------------------ reading *)
Definition rd (d : list Z) (i : Z) : option Z := if i <? 0 then None else nth_error d (Z.to_nat i).
Definition rdc (c : crash) (d : list Z) (i : Z) : res Z := match rd d i with Some x => Ok x | None => Crash c end.

(* ------------------------------------------------------------------ Parameter.decode *)
(* interpretation of (T, L, V); V has been unpacked with '%ds' % L, so len V = L *)
Definition tlv_interp (T L : Z) (V : list Z) : res tlv :=
  if T =? 1 then if negb (L =? 1) then Err DecodeError else match V with [v] => Ok (TVersion v) | _ => Crash StructErr end
  else if T =? 2 then if negb (L =? 2) then Err DecodeError else
       match V with [a; b] => Ok (TMiux (Z.land (a * 256 + b) 2047)) | _ => Crash StructErr end
  else if T =? 3 then if negb (L =? 2) then Err DecodeError else
       match V with [a; b] => Ok (TWks (a * 256 + b)) | _ => Crash StructErr end
  else if T =? 4 then if negb (L =? 1) then Err DecodeError else match V with [v] => Ok (TLto v) | _ => Crash StructErr end
  else if T =? 5 then if negb (L =? 1) then Err DecodeError else
       match V with [v] => Ok (TRw (Z.land v 15)) | _ => Crash StructErr end
  else if T =? 6 then Ok (TSn V)
  else if T =? 7 then if negb (L =? 1) then Err DecodeError else
       match V with [v] => Ok (TOpt (Z.land v 7)) | _ => Crash StructErr end
  else if T =? 8 then if L =? 0 then Err DecodeError else
       match V with tid :: sn => Ok (TSdreq tid sn) | [] => Crash StructErr end
  else if T =? 9 then if negb (L =? 2) then Err DecodeError else
       match V with [a; b] => Ok (TSdres a b) | _ => Crash StructErr end
  else if T =? 10 then Ok (TEcpk V)
  else if T =? 11 then Ok (TRn V)
  else Ok (TOther T V).

(* returns (L, value).  [size] is the number of bytes left in the PDU (fix c11-2). *)
Definition param_decode (data : list Z) (offset size : Z) : res (Z * tlv) :=
  match rd data offset, rd data (offset + 1) with
  | Some T, Some L =>
      if offset + 2 + L >? len data then Err DecodeError            (* struct.error -> DecodeError *)
      else if 2 + L >? size then Err DecodeError                    (* TLV exceeds the PDU *)
      else do t <- tlv_interp T L (slice data (offset + 2) (offset + 2 + L)); Ok (L, t)
  | _, _ => Err DecodeError
  end.

(* `while size >= 2: T, L, V = Parameter.decode(data, offset, size); <step>; offset, size = offset+2+L, size-2-L` *)
Fixpoint tlv_loop (fuel : nat) (step : pdu -> tlv -> pdu) (data : list Z) (offset size : Z) (st : pdu) : res pdu :=
  if size <? 2 then Ok st else
  match fuel with
  | O => Hang
  | S f => do (L, t) <- param_decode data offset size;
           tlv_loop f step data (offset + 2 + L) (size - 2 - L) (step st t)
  end.

(* ------------------------------------------------------------------ headers *)
Definition decode_header (data : list Z) (offset size : Z) : res (Z * Z) :=
  if size <? 2 then Err DecodeError else
  do d <- rdc StructErr data offset; do s <- rdc StructErr data (offset + 1);
  Ok (Z.shiftr d 2, Z.land s 63).
Definition decode_nheader (data : list Z) (offset size : Z) : res (Z * Z * Z * Z) :=
  if size <? 3 then Err DecodeError else
  do d <- rdc StructErr data offset; do s <- rdc StructErr data (offset + 1); do q <- rdc StructErr data (offset + 2);
  Ok (Z.shiftr d 2, Z.land s 63, Z.shiftr q 4, Z.land q 15).

(* ------------------------------------------------------------------ per-class decode *)
Definition dec_symm data offset size : res pdu :=
  do (dsap, ssap) <- decode_header data offset size;
  if negb (dsap =? 0) || negb (ssap =? 0) then Err DecodeError else
  if size >=? 3 then Err DecodeError else Ok (Symm dsap ssap).

Definition pax_step (p : pdu) (t : tlv) : pdu :=
  match p with
  | Pax d s v m w l o =>
      match t with
      | TVersion x => Pax d s (Some x) m w l o | TMiux x => Pax d s v (Some x) w l o
      | TWks x => Pax d s v m (Some x) l o | TLto x => Pax d s v m w (Some x) o
      | TOpt x => Pax d s v m w l (Some x) | _ => p
      end
  | _ => p
  end.
Definition dec_pax data offset size : res pdu :=
  do (dsap, ssap) <- decode_header data offset size;
  if negb (dsap =? 0) || negb (ssap =? 0) then Err DecodeError else
  tlv_loop (Z.to_nat (size - 2)) pax_step data (offset + 2) (size - 2) (Pax dsap ssap None None None None None).

Definition dec_ui data offset size : res pdu :=
  do (dsap, ssap) <- decode_header data offset size;
  Ok (UI dsap ssap (slice data (offset + 2) (offset + size))).

Definition connect_step (p : pdu) (t : tlv) : pdu :=
  match p with
  | Connect d s miu rw sn =>
      match t with
      | TMiux x => Connect d s (128 + x) rw sn | TRw x => Connect d s miu x sn | TSn b => Connect d s miu rw (Some b)
      | _ => p
      end
  | _ => p
  end.
Definition dec_connect data offset size : res pdu :=
  do (dsap, ssap) <- decode_header data offset size;
  tlv_loop (Z.to_nat (size - 2)) connect_step data (offset + 2) (size - 2) (Connect dsap ssap 128 1 None).

Definition dec_disc data offset size : res pdu :=
  do (dsap, ssap) <- decode_header data offset size; Ok (Disc dsap ssap).

Definition cc_step (p : pdu) (t : tlv) : pdu :=
  match p with
  | CC d s miu rw => match t with TMiux x => CC d s (128 + x) rw | TRw x => CC d s miu x | _ => p end
  | _ => p
  end.
Definition dec_cc data offset size : res pdu :=
  do (dsap, ssap) <- decode_header data offset size;
  tlv_loop (Z.to_nat (size - 2)) cc_step data (offset + 2) (size - 2) (CC dsap ssap 128 1).

Definition dec_dm data offset size : res pdu :=
  if negb (size =? 3) then Err DecodeError else
  do (dsap, ssap) <- decode_header data offset size;
  do r <- rdc StructErr data (offset + 2); Ok (DM dsap ssap r).

Definition dec_frmr data offset size : res pdu :=
  if negb (size =? 6) then Err DecodeError else
  do (dsap, ssap) <- decode_header data offset size;
  do b0 <- rdc StructErr data (offset + 2); do b1 <- rdc StructErr data (offset + 3);
  do b2 <- rdc StructErr data (offset + 4); do b3 <- rdc StructErr data (offset + 5);
  Ok (Frmr dsap ssap (Z.shiftr b0 4) (Z.land b0 15) (Z.shiftr b1 4) (Z.land b1 15)
           (Z.shiftr b2 4) (Z.land b2 15) (Z.shiftr b3 4) (Z.land b3 15)).

Definition snl_step (p : pdu) (t : tlv) : pdu :=
  match p with
  | Snl d s rq rs =>
      match t with
      | TSdreq tid sn => Snl d s (rq ++ [(tid, sn)]) rs | TSdres tid sap => Snl d s rq (rs ++ [(tid, sap)]) | _ => p
      end
  | _ => p
  end.
Definition dec_snl data offset size : res pdu :=
  do (dsap, ssap) <- decode_header data offset size;
  if negb (dsap =? 1) || negb (ssap =? 1) then Err DecodeError else
  tlv_loop (Z.to_nat (size - 2)) snl_step data (offset + 2) (size - 2) (Snl dsap ssap [] []).

Definition dps_step (p : pdu) (t : tlv) : pdu :=
  match p with
  | Dps d s e r => match t with TEcpk b => Dps d s (Some b) r | TRn b => Dps d s e (Some b) | _ => p end
  | _ => p
  end.
Definition dec_dps data offset size : res pdu :=
  do (dsap, ssap) <- decode_header data offset size;
  if negb (dsap =? 0) || negb (ssap =? 0) then Err DecodeError else
  tlv_loop (Z.to_nat (size - 2)) dps_step data (offset + 2) (size - 2) (Dps dsap ssap None None).

Definition dec_info data offset size : res pdu :=
  do (dsap, ssap, ns, nr) <- decode_nheader data offset size;
  Ok (Info dsap ssap ns nr (slice data (offset + 3) (offset + size))).
Definition dec_rr data offset size : res pdu :=
  do (dsap, ssap, ns, nr) <- decode_nheader data offset size; Ok (RR dsap ssap nr).
Definition dec_rnr data offset size : res pdu :=
  do (dsap, ssap, ns, nr) <- decode_nheader data offset size; Ok (RNR dsap ssap nr).

Definition dec_unknown data offset size : res pdu :=
  do (dsap, ssap) <- decode_header data offset size;
  do a <- rdc IndexErr data offset; do b <- rdc IndexErr data (offset + 1);
  Ok (Unknown (Z.land (Z.lor (Z.shiftl a 2) (Z.shiftr b 6)) 15) dsap ssap (slice data (offset + 2) (offset + size))).

(* ------------------------------------------------------------------ decode() and AggregatedFrame.decode *)
(* module-level decode, with the decoder used for ptype 0010 as a parameter *)
Definition decode_gen (agf : list Z -> Z -> Z -> res pdu) (data : list Z) (offset size : Z) : res pdu :=
  if offset + size >? len data then Err DecodeError else
  if size <? 2 then Err DecodeError else
  do a <- rdc StructErr data offset; do b <- rdc StructErr data (offset + 1);
  let ptype := Z.land (Z.shiftr (a * 256 + b) 6) 15 in
  if ptype =? 0 then dec_symm data offset size
  else if ptype =? 1 then dec_pax data offset size
  else if ptype =? 2 then agf data offset size
  else if ptype =? 3 then dec_ui data offset size
  else if ptype =? 4 then dec_connect data offset size
  else if ptype =? 5 then dec_disc data offset size
  else if ptype =? 6 then dec_cc data offset size
  else if ptype =? 7 then dec_dm data offset size
  else if ptype =? 8 then dec_frmr data offset size
  else if ptype =? 9 then dec_snl data offset size
  else if ptype =? 10 then dec_dps data offset size
  else if ptype =? 12 then dec_info data offset size
  else if ptype =? 13 then dec_rr data offset size
  else if ptype =? 14 then dec_rnr data offset size
  else dec_unknown data offset size.

(* decode(data, offset+2, pdu_size) as called from AggregatedFrame.decode: the header peek of fix c11-4 raises
   DecodeError for ptype 0010 before the call; every check of decode() that precedes the dispatch raises
   DecodeError as well, so peek + call is decode_gen with DecodeError in the AGF slot *)
Definition decode_sub : list Z -> Z -> Z -> res pdu := decode_gen (fun _ _ _ => Err DecodeError).

Fixpoint agf_loop (fuel : nat) (data : list Z) (offset size : Z) (acc : list pdu) : res (list pdu) :=
  if size <=? 0 then Ok acc else
  match fuel with
  | O => Hang
  | S f =>
      if size <? 2 then Err DecodeError else                          (* fix c11-3 *)
      match rd data offset, rd data (offset + 1) with
      | Some h, Some l =>
          let n := h * 256 + l in
          if n >? size - 2 then Err DecodeError else                  (* fix c11-3 *)
          do p <- decode_sub data (offset + 2) n;
          agf_loop f data (offset + 2 + n) (size - 2 - n) (acc ++ [p])
      | _, _ => Err DecodeError
      end
  end.
Definition dec_agf data offset size : res pdu :=
  do (dsap, ssap) <- decode_header data offset size;
  if negb (dsap =? 0) || negb (ssap =? 0) then Err DecodeError else
  do l <- agf_loop (Z.to_nat (size - 2)) data (offset + 2) (size - 2) [];
  Ok (Agf dsap ssap l).

Definition decode : list Z -> Z -> Z -> res pdu := decode_gen dec_agf.

(* ------------------------------------------------------------------ encode *)
Inductive eres (A : Type) := EOk (a : A) | EEncodeError | ECrash (c : crash).
Arguments EOk {A} a. Arguments EEncodeError {A}. Arguments ECrash {A} c.
Definition ebind {A B} (r : eres A) (f : A -> eres B) : eres B :=
  match r with EOk a => f a | EEncodeError => EEncodeError | ECrash c => ECrash c end.
Notation "'edo' x <- r ; k" := (ebind r (fun x => k)) (at level 200, x pattern, r at level 100, k at level 200).

Definition in_range (lo hi x : Z) : bool := (lo <=? x) && (x <=? hi).
(* struct.pack('B', v) inside Parameter.encode's try block *)
Definition packB (v : Z) : eres (list Z) := if in_range 0 255 v then EOk [v] else EEncodeError.
Definition packH (v : Z) : eres (list Z) := if in_range 0 65535 v then EOk [v / 256; v mod 256] else EEncodeError.

Definition param_encode (t : tlv) : eres (list Z) :=
  match t with
  | TVersion v => edo b <- packB v; EOk ([1; 1] ++ b)
  | TMiux v => edo b <- packH v; EOk ([2; 2] ++ b)
  | TWks v => edo b <- packH v; EOk ([3; 2] ++ b)
  | TLto v => edo b <- packB v; EOk ([4; 1] ++ b)
  | TRw v => edo b <- packB v; EOk ([5; 1] ++ b)
  | TSn b => if len b >? 255 then EEncodeError else EOk ([6; len b] ++ b)
  | TOpt v => edo b <- packB v; EOk ([7; 1] ++ b)
  | TSdreq tid sn => if len sn >? 254 then EEncodeError else edo b <- packB tid; EOk ([8; 1 + len sn] ++ b ++ sn)
  | TSdres tid sap => edo a <- packB tid; edo b <- packB sap; EOk ([9; 2] ++ a ++ b)
  | TEcpk b => if len b >? 255 then EEncodeError else EOk ([10; len b] ++ b)
  | TRn b => if len b >? 255 then EEncodeError else EOk ([11; len b] ++ b)
  | TOther _ _ => EEncodeError
  end.

Definition encode_header (ptype dsap ssap : Z) : eres (list Z) :=
  if (dsap <? 0) || (ssap <? 0) then EEncodeError else
  if (dsap >? 63) || (ssap >? 63) then EEncodeError else
  let v := Z.lor (Z.lor (Z.shiftl dsap 10) (Z.shiftl ptype 6)) ssap in
  if in_range 0 65535 v then EOk [v / 256; v mod 256] else ECrash StructErr.
Definition encode_nheader (ptype dsap ssap ns nr : Z) : eres (list Z) :=
  edo h <- encode_header ptype dsap ssap;
  if (ns <? 0) || (nr <? 0) then EEncodeError else
  if (ns >? 15) || (nr >? 15) then EEncodeError else
  EOk (h ++ [Z.lor (Z.shiftl ns 4) nr]).

(* struct.pack('!B', v) outside any try block: struct.error escapes *)
Definition rawB (v : Z) : eres (list Z) := if in_range 0 255 v then EOk [v] else ECrash StructErr.

Definition opt_tlv (o : option Z) (mk : Z -> tlv) : eres (list Z) :=
  match o with Some v => param_encode (mk v) | None => EOk [] end.
(* `if self.sn:` - None and the empty string are both skipped *)
Definition optb_tlv (o : option (list Z)) (mk : list Z -> tlv) : eres (list Z) :=
  match o with Some (x :: b) => param_encode (mk (x :: b)) | _ => EOk [] end.

Definition emapM {A B} (f : A -> eres B) : list A -> eres (list B) :=
  fix go (l : list A) : eres (list B) :=
  match l with
  | [] => EOk []
  | x :: r => edo y <- f x; edo ys <- go r; EOk (y :: ys)
  end.
Definition econcat (l : eres (list (list Z))) : eres (list Z) := edo x <- l; EOk (concat x).

(* data += struct.pack('!H', len(encoded_pdu)) + encoded_pdu, for the already encoded members *)
Fixpoint agf_body (encs : list (list Z)) : eres (list Z) :=
  match encs with
  | [] => EOk []
  | e :: r => if in_range 0 65535 (len e) then edo t <- agf_body r; EOk ([len e / 256; len e mod 256] ++ e ++ t)
              else ECrash StructErr
  end.

Fixpoint encode (p : pdu) : eres (list Z) :=
  match p with
  | Symm d s => if negb (d =? 0) || negb (s =? 0) then EEncodeError else encode_header 0 d s
  | Pax d s v m w l o =>
      if negb (d =? 0) || negb (s =? 0) then EEncodeError else
      edo h <- encode_header 1 d s;
      edo a <- opt_tlv v TVersion; edo b <- opt_tlv m TMiux; edo c <- opt_tlv w TWks;
      edo e <- opt_tlv l TLto; edo f <- opt_tlv o TOpt;
      EOk (h ++ a ++ b ++ c ++ e ++ f)
  | Agf d s ps =>
      if negb (d =? 0) || negb (s =? 0) then EEncodeError else
      edo h <- encode_header 2 d s;
      edo encs <- emapM encode ps;
      edo body <- agf_body encs;
      EOk (h ++ body)
  | UI d s data => edo h <- encode_header 3 d s; EOk (h ++ data)
  | Connect d s miu rw sn =>
      edo h <- encode_header 4 d s;
      edo a <- (if miu >? 128 then param_encode (TMiux (miu - 128)) else EOk []);
      edo b <- (if negb (rw =? 1) then param_encode (TRw rw) else EOk []);            (* fix c11-1 *)
      edo c <- optb_tlv sn TSn;
      EOk (h ++ a ++ b ++ c)
  | Disc d s => encode_header 5 d s
  | CC d s miu rw =>
      edo h <- encode_header 6 d s;
      edo a <- (if miu >? 128 then param_encode (TMiux (miu - 128)) else EOk []);
      edo b <- (if negb (rw =? 1) then param_encode (TRw rw) else EOk []);            (* fix c11-1 *)
      EOk (h ++ a ++ b)
  | DM d s r => edo h <- encode_header 7 d s; edo b <- rawB r; EOk (h ++ b)
  | Frmr d s fl pt ns nr vs vr vsa vra =>
      edo h <- encode_header 8 d s;
      edo b0 <- rawB (Z.lor (Z.shiftl fl 4) pt); edo b1 <- rawB (Z.lor (Z.shiftl ns 4) nr);
      edo b2 <- rawB (Z.lor (Z.shiftl vs 4) vr); edo b3 <- rawB (Z.lor (Z.shiftl vsa 4) vra);
      EOk (h ++ b0 ++ b1 ++ b2 ++ b3)
  | Snl d s rq rs =>
      edo h <- encode_header 9 d s;
      edo a <- econcat (emapM (fun x => param_encode (TSdreq (fst x) (snd x))) rq);
      edo b <- econcat (emapM (fun x => param_encode (TSdres (fst x) (snd x))) rs);
      EOk (h ++ a ++ b)
  | Dps d s e r =>
      if negb (d =? 0) || negb (s =? 0) then EEncodeError else
      edo h <- encode_header 10 d s;
      edo a <- optb_tlv e TEcpk; edo b <- optb_tlv r TRn;
      EOk (h ++ a ++ b)
  | Info d s ns nr data => edo h <- encode_nheader 12 d s ns nr; EOk (h ++ data)
  | RR d s nr => encode_nheader 13 d s 0 nr
  | RNR d s nr => encode_nheader 14 d s 0 nr
  | Unknown pt d s payload => edo h <- encode_header pt d s; EOk (h ++ payload)
  end.

(* ------------------------------------------------------------------ __len__ *)
Definition some1 {A} (o : option A) (n : Z) : Z := match o with Some _ => n | None => 0 end.
Definition optb_len (o : option (list Z)) : Z := match o with Some (x :: b) => 2 + len (x :: b) | _ => 0 end.
Definition zsum (l : list Z) : Z := fold_right Z.add 0 l.

Fixpoint pdu_len (p : pdu) : Z :=
  match p with
  | Symm _ _ => 2
  | Pax _ _ v m w l o => 2 + some1 v 3 + some1 m 4 + some1 w 4 + some1 l 3 + some1 o 3
  | Agf _ _ ps => 2 + zsum (map (fun q => 2 + pdu_len q) ps)
  | UI _ _ data => 2 + len data
  | Connect _ _ miu rw sn => 2 + (if miu >? 128 then 4 else 0) + (if negb (rw =? 1) then 3 else 0) + optb_len sn
  | Disc _ _ => 2
  | CC _ _ miu rw => 2 + (if miu >? 128 then 4 else 0) + (if negb (rw =? 1) then 3 else 0)
  | DM _ _ _ => 3
  | Frmr _ _ _ _ _ _ _ _ _ _ => 6
  | Snl _ _ rq rs => 2 + len rs * 4 + zsum (map (fun x => 3 + len (snd x)) rq)
  | Dps _ _ e r => 2 + optb_len e + optb_len r
  | Info _ _ _ _ data => 3 + len data
  | RR _ _ _ => 3
  | RNR _ _ _ => 3
  | Unknown _ _ _ payload => 2 + len payload
  end.

(* ------------------------------------------------------------------ valid field values *)
Definition optZ_ok (lo hi : Z) (o : option Z) : bool := match o with Some v => in_range lo hi v | None => true end.
(* a service name / key / nonce that is present is not empty (`if self.sn:` does not encode an empty one) *)
Definition optb_ok (o : option (list Z)) : bool :=
  match o with Some b => bytes_okb b && in_range 1 255 (len b) | None => true end.
Definition sap_ok (x : Z) : bool := in_range 0 63 x.
Definition is_agf (p : pdu) : bool := match p with Agf _ _ _ => true | _ => false end.

Fixpoint validb (p : pdu) : bool :=
  match p with
  | Symm d s => (d =? 0) && (s =? 0)
  | Pax d s v m w l o => (d =? 0) && (s =? 0) && optZ_ok 0 255 v && optZ_ok 0 2047 m && optZ_ok 0 65535 w &&
                         optZ_ok 0 255 l && optZ_ok 0 7 o
  | Agf d s ps => (d =? 0) && (s =? 0) &&
                  forallb (fun q => validb q && negb (is_agf q) && (pdu_len q <=? 65535)) ps
  | UI d s data => sap_ok d && sap_ok s && bytes_okb data
  | Connect d s miu rw sn => sap_ok d && sap_ok s && in_range 128 (128 + 2047) miu && in_range 0 15 rw && optb_ok sn
  | Disc d s => sap_ok d && sap_ok s
  | CC d s miu rw => sap_ok d && sap_ok s && in_range 128 (128 + 2047) miu && in_range 0 15 rw
  | DM d s r => sap_ok d && sap_ok s && in_range 0 255 r
  | Frmr d s fl pt ns nr vs vr vsa vra =>
      sap_ok d && sap_ok s && in_range 0 15 fl && in_range 0 15 pt && in_range 0 15 ns && in_range 0 15 nr &&
      in_range 0 15 vs && in_range 0 15 vr && in_range 0 15 vsa && in_range 0 15 vra
  | Snl d s rq rs =>
      (d =? 1) && (s =? 1) &&
      forallb (fun x => in_range 0 255 (fst x) && bytes_okb (snd x) && (len (snd x) <=? 254)) rq &&
      forallb (fun x => in_range 0 255 (fst x) && in_range 0 255 (snd x)) rs
  | Dps d s e r => (d =? 0) && (s =? 0) && optb_ok e && optb_ok r
  | Info d s ns nr data => sap_ok d && sap_ok s && in_range 0 15 ns && in_range 0 15 nr && bytes_okb data
  | RR d s nr => sap_ok d && sap_ok s && in_range 0 15 nr
  | RNR d s nr => sap_ok d && sap_ok s && in_range 0 15 nr
  | Unknown pt d s payload => ((pt =? 11) || (pt =? 15)) && sap_ok d && sap_ok s && bytes_okb payload
  end.
Definition valid (p : pdu) : Prop := validb p = true.

(* the PDU a decoder can produce from the same encoding: an empty service name / key / nonce is not encoded
   (`if self.sn:`) and is therefore read back as None *)
Definition norm_optb (o : option (list Z)) : option (list Z) := match o with Some [] => None | _ => o end.
Fixpoint norm (p : pdu) : pdu :=
  match p with
  | Connect d s miu rw sn => Connect d s miu rw (norm_optb sn)
  | Dps d s e r => Dps d s (norm_optb e) (norm_optb r)
  | Agf d s ps => Agf d s (map norm ps)
  | _ => p
  end.
