(* NFC Forum Type 4 Tag NDEF access (src/nfc/tag/tt4.py Type4Tag.NDEF): capability container
   discovery, READ BINARY / UPDATE BINARY chunking by MLe / MLc, NLEN handling, wipe; seen
   through APDUs.  The ISO-DEP layer below is property C12's business: the card (environment;
   the operation-level reading of harness/sim/tag_t3t4.py SimT4Card/T4Session) answers whole APDUs.

   Modelled with the repairs fixes/c01-tt4-nlen-update-truncated.diff (NLEN written in a loop),
   fixes/c01-tt4-short-apdu-limits.diff (MLe/MLc clamped to 256/255 without extended length
   support) and fixes/c01-tt4-capacity-offset-range.diff (capacity clamped to the 16 bit offset
   range), and with the C08 repairs fixes/c08-04..06 (READ BINARY without data / with excess data,
   NLEN beyond the capacity).  Definitions only. *)
From Coq Require Import ZArith List Bool.
From NV Require Import Base.Result Base.Bytes Base.PyPrims Proofs.Chunks Model.T3T.
Import ListNotations.
Open Scope Z_scope.

(* ------------------------------------------------------------ APDUs *)
Inductive op :=
| SelAid (v2 : bool)                       (* SELECT by name D2760000850101 (Le 256) / ...00 (no Le) *)
| SelFid (p2 : Z) (fid : list Z)
| RdBin (off mrl : Z)
| UpBin (off : Z) (data : list Z).

Definition aid (v2 : bool) : list Z := [210; 118; 0; 0; 133; 1; if v2 then 1 else 0].
(* send_apdu without extended length support *)
Definition short_apdu (cla ins p1 p2 : Z) (data : list Z) (mrl : Z) : res (list Z) :=
  if negb (len data =? 0) && (len data >? 255) then Crash ValueErr else
  if negb (mrl =? 0) && (mrl >? 256) then Crash ValueErr else
  Ok ([cla; ins; p1; p2] ++ (if len data =? 0 then [] else len data :: data)
      ++ (if mrl >? 0 then [if mrl =? 256 then 0 else mrl] else [])).
(* (p1, p2) = pack(">H", offset) *)
Definition apdu_of_op (o : op) : res (list Z) :=
  match o with
  | SelAid v2 => short_apdu 0 164 4 0 (aid v2) (if v2 then 256 else 0)
  | SelFid p2 fid => short_apdu 0 164 0 p2 fid 0
  | RdBin off mrl => if (off <? 0) || (off >? 65535) then Crash StructErr else short_apdu 0 176 (off / 256) (off mod 256) [] mrl
  | UpBin off d => if (off <? 0) || (off >? 65535) then Crash StructErr else short_apdu 0 214 (off / 256) (off mod 256) d 0
  end.

(* ------------------------------------------------------------ the card (environment) *)
Record card := mkCard {
  c_cc : list Z; c_fid : list Z; c_file : list Z;
  c_v2 : bool; c_v1 : bool;                 (* which NDEF application names the card knows *)
  c_app : bool; c_sel : Z;                  (* session: application selected; 0 = no file, 1 = CC, 2 = NDEF file *)
  c_budget : Z;                             (* power cut after this many state-changing commands; < 0 = never *)
  c_log : list (Z * list Z)                 (* UPDATE BINARY (offset, data) that took effect, latest first *)
}.
Definition set_sess (c : card) (app : bool) (sel : Z) : card :=
  mkCard (c_cc c) (c_fid c) (c_file c) (c_v2 c) (c_v1 c) app sel (c_budget c) (c_log c).
Definition c_mle (c : card) : Z := bt (c_cc c) 3 * 256 + bt (c_cc c) 4.
Definition c_mlc (c : card) : Z := bt (c_cc c) 5 * 256 + bt (c_cc c) 6.
Definition cc_fid : list Z := [225; 3].
Inductive crsp := RData (d : list Z) | RStatus (sw : Z).

Definition card_step (c : card) (o : op) : crsp * card :=
  match o with
  | SelAid v2 => if (if v2 then c_v2 c else c_v1 c) then (RData [], set_sess c true 0) else (RStatus 27266, c)
  | SelFid _ fid =>
    if c_app c && list_eqb fid cc_fid then (RData [], set_sess c true 1)
    else if c_app c && list_eqb fid (c_fid c) then (RData [], set_sess c true 2)
    else (RStatus 27266, c)
  | RdBin off mrl =>
    if c_sel c =? 0 then (RStatus 27014, c) else
    let f := if c_sel c =? 1 then c_cc c else c_file c in
    if mrl <=? 0 then (RStatus 26368, c) else
    if (c_sel c =? 2) && (mrl >? c_mle c) then (RStatus 26368, c) else
    if off >? len f then (RStatus 27392, c) else (RData (slice f off (off + mrl)), c)
  | UpBin off d =>
    if c_sel c =? 0 then (RStatus 27014, c) else
    if len d =? 0 then (RStatus 26368, c) else
    if len d >? c_mlc c then (RStatus 26368, c) else
    if off + len d >? len (if c_sel c =? 1 then c_cc c else c_file c) then (RStatus 27268, c) else
    if c_sel c =? 1 then (RStatus 27010, c) else
    (RData [], mkCard (c_cc c) (c_fid c) (splice (c_file c) off d) (c_v2 c) (c_v1 c) (c_app c) (c_sel c)
                      (if c_budget c <? 0 then c_budget c else c_budget c - 1) ((off, d) :: c_log c))
  end.

(* send_apdu(..., check_status=True): data | Type4TagCommandError(sw) | the error of a lost card *)
Definition t4_send (c : card) (o : op) : res (list Z) * card :=
  match apdu_of_op o with
  | Ok _ =>
    if c_budget c =? 0 then (Err (TagCommandError 0), c) else
    match card_step c o with
    | (RData d, c1) => (Ok d, c1)
    | (RStatus sw, c1) => (Err (TagCommandError sw), c1)
    end
  | Err e => (Err e, c) | Crash x => (Crash x, c) | Hang => (Hang, c)
  end.

(* ------------------------------------------------------------ discovery *)
Record ccinfo := mkInfo { i_mle : Z; i_mlc : Z; i_cap : Z; i_rd : bool; i_wr : bool; i_nlen : Z; i_fid : list Z; i_p2 : Z }.

Definition be (l : list Z) : Z := fold_left (fun a x => a * 256 + x) l 0.
(* capabilities += (15-len(capabilities)) * b"\0" *)
Definition cc_pad (cap : list Z) : list Z := cap ++ repeat 0 (15 - length cap)%nat.
(* unpack(">BHHB9p") on the 15 capability bytes, version and control TLV checks, clamps, capacity *)
Definition cc_fields (p2 : Z) (c : list Z) : option ccinfo :=
  let ver := bt c 0 in let mle := bt c 1 * 256 + bt c 2 in let mlc := bt c 3 * 256 + bt c 4 in
  let tag := bt c 5 in
  let val := firstn (Z.to_nat (Z.min (bt c 6) 8)) (skipn 7 c) in
  if negb ((ver / 16 =? 1) || (ver / 16 =? 2) || (ver / 16 =? 3)) then None else
  if (tag =? 4) && (len val =? 6) then
    let mfs := be (firstn 2 (skipn 2 val)) in
    Some (mkInfo (Z.min mle 256) (Z.min mlc 255) (Z.min mfs 65536 - 2) (bt val 4 =? 0) (bt val 5 =? 0) 2 (firstn 2 val) p2)
  else if (tag =? 6) && (len val =? 8) then
    let mfs := be (firstn 4 (skipn 2 val)) in
    Some (mkInfo (Z.min mle 256) (Z.min mlc 255) (Z.min mfs 65536 - 4) (bt val 6 =? 0) (bt val 7 =? 0) 4 (firstn 2 val) p2)
  else None.
Definition cc_parse (p2 : Z) (cap : list Z) : option ccinfo := cc_fields p2 (cc_pad cap).

Definition lift {X} (r : res (list Z) * card) (k : list Z -> card -> res X * card) : res X * card :=
  match r with
  | (Ok d, c1) => k d c1
  | (Err e, c1) => (Err e, c1) | (Crash x, c1) => (Crash x, c1) | (Hang, c1) => (Hang, c1)
  end.

(* _select_ndef_application: Some p2-for-select-by-id | None *)
Definition select_app (c : card) : option Z * card :=
  match t4_send c (SelAid true) with
  | (Ok _, c1) => (Some 12, c1)
  | (Err (TagCommandError e), c1) =>
    if e <=? 0 then (None, c1) else
    match t4_send c1 (SelAid false) with (Ok _, c2) => (Some 0, c2) | (_, c2) => (None, c2) end
  | (_, c1) => (None, c1)
  end.
Definition select_fid (c : card) (p2 : Z) (fid : list Z) : res bool * card :=
  match t4_send c (SelFid p2 fid) with
  | (Ok _, c1) => (Ok true, c1)
  | (Err _, c1) => (Ok false, c1)
  | (Crash x, c1) => (Crash x, c1) | (Hang, c1) => (Hang, c1)
  end.
(* a response longer than requested is a protocol error (fixes/c08-05) *)
Definition read_binary (c : card) (max_le off size : Z) : res (list Z) * card :=
  match t4_send c (RdBin off (Z.min max_le size)) with
  | (Ok d, c1) => if len d >? Z.max (Z.min max_le size) 0 then (Err (TagCommandError (-2)), c1) else (Ok d, c1)
  | r => r
  end.

(* _discover_ndef: Ok (Some info) | Ok None (returns False) | Err (escapes to _read_ndef_data) *)
Definition discover (c : card) : res (option ccinfo) * card :=
  match select_app c with
  | (None, c1) => (Ok None, c1)
  | (Some p2, c1) =>
    match select_fid c1 p2 cc_fid with
    | (Ok false, c2) => (Ok None, c2)
    | (Ok true, c2) =>
      lift (read_binary c2 15 0 2) (fun cclen c3 =>
        if negb (len cclen =? 2) then (Ok None, c3) else
        lift (read_binary c3 15 2 (Z.min (be cclen - 2) 15)) (fun cap c4 =>
          if len cap <? 13 then (Ok None, c4) else
          if len cap >? 15 then (Crash StructErr, c4) else
          (Ok (cc_parse p2 cap), c4)))
    | (Err e, c2) => (Err e, c2) | (Crash x, c2) => (Crash x, c2) | (Hang, c2) => (Hang, c2)
    end
  end.

(* ------------------------------------------------------------ read *)
(* while len(data) < nlen: data += _read_binary(nlen_size + len(data), nlen - len(data)) *)
Fixpoint rd_file (fuel : nat) (c : card) (i : ccinfo) (nlen : Z) (acc : list Z) : res (list Z) * card :=
  if len acc <? nlen then
    match fuel with
    | O => (Hang, c)
    | S f =>
      lift (read_binary c (i_mle i) (i_nlen i + len acc) (nlen - len acc)) (fun d c1 =>
        (* no data: _read_ndef_data returns None (fixes/c08-04); rendered as the command error that
           read_with turns into "no NDEF" *)
        if len d =? 0 then (Err (TagCommandError 0), c1) else rd_file f c1 i nlen (acc ++ d))
    end
  else (Ok acc, c).

Definition read_with (c : card) (i : ccinfo) : res fresh * card :=
  match select_fid c (i_p2 i) (i_fid i) with
  | (Ok false, c1) => (Ok NoNdef, c1)
  | (Ok true, c1) =>
    match lift (read_binary c1 (i_mle i) 0 (i_nlen i)) (fun nl c2 =>
            if negb (len nl =? i_nlen i) then (Ok None, c2) else
            if be nl >? i_cap i then (Ok None, c2) else                (* fixes/c08-06: NLEN beyond the capacity *)
            match rd_file (Z.to_nat (Z.min (be nl) 65536 + 1)) c2 i (be nl) [] with
            | (Ok d, c3) => (Ok (Some d), c3)
            | (Err e, c3) => (Err e, c3) | (Crash x, c3) => (Crash x, c3) | (Hang, c3) => (Hang, c3)
            end) with
    | (Ok (Some d), c4) => (Ok (Ndef (i_rd i) (i_wr i) (i_cap i) d), c4)
    | (Ok None, c4) => (Ok NoNdef, c4)
    | (Err _, c4) => (Ok NoNdef, c4)
    | (Crash x, c4) => (Crash x, c4) | (Hang, c4) => (Hang, c4)
    end
  | (Err _, c1) => (Ok NoNdef, c1) | (Crash x, c1) => (Crash x, c1) | (Hang, c1) => (Hang, c1)
  end.

(* _read_ndef_data of a new NDEF object (discovers first); also returns the discovered values *)
Definition t4_read_ndef (c : card) : res (fresh * option ccinfo) * card :=
  match discover c with
  | (Ok None, c1) => (Ok (NoNdef, None), c1)
  | (Ok (Some i), c1) =>
    match read_with c1 i with
    | (Ok f, c2) => (Ok (f, Some i), c2)
    | (Err e, c2) => (Err e, c2) | (Crash x, c2) => (Crash x, c2) | (Hang, c2) => (Hang, c2)
    end
  | (Err _, c1) => (Ok (NoNdef, None), c1)
  | (Crash x, c1) => (Crash x, c1) | (Hang, c1) => (Hang, c1)
  end.

(* ------------------------------------------------------------ write *)
(* pack(">H" / ">I", n) *)
Definition nlen_bytes (ns n : Z) : res (list Z) :=
  if (n <? 0) || (n >=? 256 ^ ns) then Crash StructErr else
  Ok (if ns =? 4 then [n / 16777216; (n / 65536) mod 256; (n / 256) mod 256; n mod 256] else [n / 256; n mod 256]).
Definition zeros (n : Z) : list Z := repeat 0 (Z.to_nat n).

(* offset = 0; while offset < len(data): offset += _update_binary(offset, data[offset:]) *)
Definition ups (mlc off : Z) (payload : list Z) : list (Z * list Z) := with_offsets off (chunks mlc payload).
Definition t4_plan (i : ccinfo) (data nl : list Z) : list (Z * list Z) :=
  if i_nlen i + len data <=? i_mlc i then ups (i_mlc i) 0 (nl ++ data)
  else ups (i_mlc i) 0 (zeros (i_nlen i) ++ data) ++ ups (i_mlc i) 0 nl.

Fixpoint run_ups (c : card) (p : list (Z * list Z)) : res unit * card :=
  match p with
  | [] => (Ok tt, c)
  | (off, d) :: r => match t4_send c (UpBin off d) with
                     | (Ok _, c1) => run_ups c1 r
                     | (Err e, c1) => (Err e, c1) | (Crash x, c1) => (Crash x, c1) | (Hang, c1) => (Hang, c1)
                     end
  end.

(* _write_ndef_data (the NDEF file is the selected file, as left by the read that created the NDEF object) *)
Definition t4_write_ndef (c : card) (i : ccinfo) (data : list Z) : res unit * card :=
  match nlen_bytes (i_nlen i) (len data) with
  | Ok nl => run_ups c (t4_plan i data nl)
  | Err e => (Err e, c) | Crash x => (Crash x, c) | Hang => (Hang, c)
  end.

Definition t4_set_octets (f : fresh) (oi : option ccinfo) (c : card) (data : list Z) : res unit * card :=
  match f, oi with
  | Ndef _ w cap _, Some i =>
    if negb w then (Crash AttributeErr, c)
    else if len data >? cap then (Err ValueError, c)
    else t4_write_ndef c i data
  | _, _ => (Crash AttributeErr, c)
  end.

(* _wipe_ndef_data(wipe): NLEN := 0, then bytes nlen_size .. capacity-1 of the file *)
Definition t4_wipe_plan (i : ccinfo) (w : Z) : list (Z * list Z) :=
  ups (i_mlc i) 0 (zeros (i_nlen i)) ++
  ups (i_mlc i) (i_nlen i) (drop (i_nlen i) (repeat (w mod 256) (Z.to_nat (i_cap i)))).
(* Type4Tag._format(version, wipe): Ok true / Ok false *)
Definition t4_format (f : fresh) (oi : option ccinfo) (c : card) (wipe : option Z) : res bool * card :=
  match f, oi with
  | Ndef _ true _ _, Some i =>
    match wipe with
    | None => (Ok true, c)
    | Some w => match run_ups c (t4_wipe_plan i w) with
                | (Ok _, c1) => (Ok true, c1)
                | (Err _, c1) => (Ok false, c1)
                | (Crash x, c1) => (Crash x, c1) | (Hang, c1) => (Hang, c1)
                end
    end
  | _, _ => (Ok false, c)
  end.

(* a new activation of the card *)
Definition new_session (c : card) : card := mkCard (c_cc c) (c_fid c) (c_file c) (c_v2 c) (c_v1 c) false 0 (-1) [].
Definition t4_fresh (c : card) : res fresh :=
  match fst (t4_read_ndef (new_session c)) with
  | Ok (f, _) => Ok f
  | Err e => Err e | Crash x => Crash x | Hang => Hang
  end.
