(* C06 - SNEP (nfc/snep/client.py, nfc/snep/server.py) and connection handover
   (nfc/handover/client.py, nfc/handover/server.py) over a reliable ordered message
   channel with a maximum message size per direction.

   The blocking Python functions are written as reactive automata: one state per call
   site at which the code waits for the socket (socket.recv() / socket.poll("recv")),
   one transition per message (or close / poll timeout) that arrives there; a
   transition returns the messages the code sends before it waits again (an atomic
   segment in the sense of DESIGN.md section 5).  The application callbacks
   (process_put_request / process_get_request / process_handover_request_message)
   are abstract state machines; every invocation is appended to a log.
   ndeflib is an oracle: decodable / complete / is_hr are abstract predicates.

   Domain: send MIUs >= 1 (range() step; LLCP guarantees >= 128); the 6 octet control messages
   (Continue / Reject / responses) are sent without a size test in the code, the channel flags
   a message above its limit (g_err, socket.send raising EMSGSIZE) and the theorems show the
   flag stays false for MIUs >= 6.  Connection set-up / release and the listen threads are not
   modelled; a session is a list of operations on one established connection followed by
   close().
   Definitions only; proofs are in Proofs/Snep*.v. *)
From Coq Require Import ZArith List Bool.
From NV Require Import Base.Result Base.Bytes Base.PyPrims.
Import ListNotations.
Open Scope Z_scope.

(* ------------------------------------------------------------------ slicing *)
(* [l[0:n], l[n:2n], ...] : the fragments produced by the range()/slice loops *)
Fixpoint chunks_f {A} (fuel n : nat) (l : list A) : list (list A) :=
  match fuel with
  | O => []
  | S f => match l with
           | [] => []
           | _ => firstn n l :: chunks_f f n (skipn n l)
           end
  end.
Definition chunks {A} (miu : Z) (l : list A) : list (list A) :=
  chunks_f (length l) (Z.to_nat miu) l.

(* struct.pack(">L", n) / struct.unpack(">L", ..) *)
Definition be32 (n : Z) : list Z :=
  [n / 16777216 mod 256; n / 65536 mod 256; n / 256 mod 256; n mod 256].
Definition pack_L (n : Z) : res (list Z) :=
  if (0 <=? n) && (n <=? 4294967295) then Ok (be32 n) else Crash StructErr.
Definition unbe32 (a b c d : Z) : Z := ((a * 256 + b) * 256 + c) * 256 + d.

(* socket options (nfc/llcp/__init__.py).  Every sender cuts its fragments by the value its socket
   returns for SO_SNDMIU - the `miu` parameters of the client and server sections below *)
Definition SO_SNDMIU : Z := 1.
Definition SO_RCVMIU : Z := 2.
Definition getsockopt (send_miu recv_miu opt : Z) : Z :=
  if opt =? SO_SNDMIU then send_miu else if opt =? SO_RCVMIU then recv_miu else 0.
Definition fragment_size_option : Z := SO_SNDMIU.

(* what arrives at a waiting call site *)
Inductive input :=
| IMsg (m : list Z)      (* an information unit *)
| ITimeout               (* poll("recv", timeout) returned False because the timeout passed *)
| IClosed.               (* the peer disconnected: recv() returns None, poll("recv") False *)

Definition RSP_CONTINUE : list Z := [16; 128; 0; 0; 0; 0].   (* 10 80 00 00 00 00 *)
Definition REQ_CONTINUE : list Z := [16; 0; 0; 0; 0; 0].     (* 10 00 00 00 00 00 *)
Definition RSP_REJECT   : list Z := [16; 255; 0; 0; 0; 0].   (* 10 FF 00 00 00 00 *)
Definition RSP_UNSUPVER : list Z := [16; 225; 0; 0; 0; 0].   (* 10 E1 00 00 00 00 *)

(* ================================================================== client *)
Inductive cop :=
| OpPut (octets : list Z)                      (* SnepClient.put_octets *)
| OpGet (octets : list Z) (acceptable : Z)     (* SnepClient.get_octets, self.acceptable_length *)
| OpHo  (octets : list Z).                     (* HandoverClient.send_octets; recv_octets *)

Inductive cres :=
| RBool (b : bool) | RNone | ROctets (l : list Z)
| RSnepError (code : Z)      (* raise SnepError(response[1]) *)
| RSendFailed                (* handover: send_octets returned False *)
| RCrash (c : crash).

Inductive ckind := KPut | KGet.

Inductive cst :=
| CAwaitCont (k : ckind) (acc : Z) (rest : list (list Z))  (* send_request: socket.recv() after first fragment *)
| CAwaitResp (k : ckind) (acc : Z)                         (* recv_response: first poll *)
| CMoreResp (k : ckind) (data : list Z) (length : Z)       (* recv_response: poll in the while loop *)
| CHoRecv (octets : list Z)                                (* recv_octets: poll at loop head *)
| CDone (r : cres)
| CIdle.                                                   (* session finished, socket closed *)

(* struct.pack('>BBL', 0x10, 0x02, len(octets)) + octets
   struct.pack('>BBLL', 0x10, 0x01, 4 + len(octets), self.acceptable_length) + octets *)
Definition snep_request (op : cop) : res (list Z) :=
  match op with
  | OpPut o => do l <- pack_L (len o); Ok ([16; 2] ++ l ++ o)
  | OpGet o acc => do l <- pack_L (4 + len o); do a <- pack_L acc; Ok ([16; 1] ++ l ++ a ++ o)
  | OpHo o => Ok o
  end.

Definition send_failed (k : ckind) : cres := match k with KPut => RBool false | KGet => RNone end.
Definition resp_none (k : ckind) : cres := match k with KPut => RBool true | KGet => RNone end.
(* response is not None: if response[1] != 0x81: raise SnepError(response[1]);
   return True / return response[6:] *)
Definition finish (k : ckind) (response : list Z) : cres :=
  match response with
  | _ :: code :: _ =>
      if code =? 129 then match k with KPut => RBool true | KGet => ROctets (drop 6 response) end
      else RSnepError code
  | _ => RCrash IndexErr
  end.

Section Client.
  Variable miu : Z.                        (* socket.getsockopt(SO_SNDMIU) *)
  Variable complete : list Z -> bool.      (* list(ndef.message_decoder(octets, 'strict', {})) raises neither
                                              ndef.DecodeError nor ValueError (both mean: incomplete) *)

  (* send_request(socket, request, send_miu) up to its first wait *)
  Definition send_request (k : ckind) (acc : Z) (req : list Z) : cst * list (list Z) :=
    if len req <=? miu then (CAwaitResp k acc, [req])
    else (CAwaitCont k acc (chunks miu (drop miu req)), [take miu req]).

  Definition client_start (op : cop) : cst * list (list Z) :=
    match op with
    | OpPut _ =>
        match snep_request op with
        | Ok req => send_request KPut 0 req
        | Crash c => (CDone (RCrash c), []) | _ => (CDone (RCrash AssertErr), [])
        end
    | OpGet _ acc =>
        match snep_request op with
        | Ok req => send_request KGet acc req
        | Crash c => (CDone (RCrash c), []) | _ => (CDone (RCrash AssertErr), [])
        end
    | OpHo o =>   (* while len(octets) > 0: send(octets[0:miu]); octets = octets[miu:] -- then recv_octets *)
        (CHoRecv [], chunks miu o)
    end.

  (* first fragment of the response in recv_response *)
  Definition recv_first (k : ckind) (acc : Z) (m : list Z) : cst * list (list Z) :=
    match m with
    | _ :: _ :: a :: b :: c :: d :: _ =>
        let length := unbe32 a b c d in
        if length >? acc then (CDone (resp_none k), [])
        else if len m - 6 <? length then (CMoreResp k m length, [REQ_CONTINUE])
        else (CDone (finish k m), [])
    | _ => (CDone (resp_none k), [])           (* len(snep_response) < 6 *)
    end.

  Definition client_react (st : cst) (i : input) : cst * list (list Z) :=
    match st, i with
    | CAwaitCont k acc rest, IMsg m =>
        if list_eqb m RSP_CONTINUE then (CAwaitResp k acc, rest) else (CDone (send_failed k), [])
    | CAwaitCont k acc rest, IClosed => (CDone (send_failed k), [])     (* None != b"..." *)
    | CAwaitCont _ _ _, ITimeout => (st, [])                            (* recv() has no timeout *)
    | CAwaitResp k acc, IMsg m => recv_first k acc m
    | CAwaitResp k acc, _ => (CDone (resp_none k), [])
    | CMoreResp k data length, IMsg m =>
        let data' := data ++ m in
        if len data' - 6 <? length then (CMoreResp k data' length, [])
        else (CDone (finish k data'), [])
    | CMoreResp k _ _, _ => (CDone (resp_none k), [])
    | CHoRecv octets, IMsg m =>
        let octets' := octets ++ m in
        if complete octets' then (CDone (ROctets octets'), []) else (CHoRecv octets', [])
    | CHoRecv _, _ => (CDone RNone, [])        (* poll returned False: the function falls off its end *)
    | CDone _, _ => (st, [])
    | CIdle, _ => (st, [])
    end.

  (* a session: operations performed one after the other on one connection, then close() *)
  Record csess := { c_cur : cst; c_pending : list cop; c_results : list cres }.

  Fixpoint start_ops (pending : list cop) (results : list cres) : csess * list input :=
    match pending with
    | [] => ({| c_cur := CIdle; c_pending := []; c_results := results |}, [IClosed])
    | op :: p =>
        match client_start op with
        | (CDone r, outs) =>
            let so := start_ops p (results ++ [r]) in (fst so, map IMsg outs ++ snd so)
        | (st, outs) => ({| c_cur := st; c_pending := p; c_results := results |}, map IMsg outs)
        end
    end.

  Definition csess_react (s : csess) (i : input) : csess * list input :=
    match c_cur s with
    | CIdle => (s, [])
    | st =>
        match client_react st i with
        | (CDone r, outs) =>
            let so := start_ops (c_pending s) (c_results s ++ [r]) in (fst so, map IMsg outs ++ snd so)
        | (st', outs) =>
            ({| c_cur := st'; c_pending := c_pending s; c_results := c_results s |}, map IMsg outs)
        end
    end.
End Client.

(* ================================================================== one SnepClient object *)
(* Which connection a request travels on (SnepClient.connect / close / get_octets / put_octets):
   a request on an object without a connection connects to the default server urn:nfc:sn:snep,
   sets self.release_connection and closes afterwards; a request on a connected object clears the
   flag and leaves the connection open. *)
Inductive capi := ApiConnect (service : Z) | ApiClose | ApiRequest (op : cop).
Inductive cact := ActConnect (service : Z) | ActRequest (op : cop) | ActClose.
Record cobj := { o_sock : option Z; o_release : bool }.
Definition DEFAULT_SERVICE : Z := 0.      (* 'urn:nfc:sn:snep' *)

Definition api_close (c : cobj) : cobj * list cact :=
  match o_sock c with
  | Some _ => ({| o_sock := None; o_release := o_release c |}, [ActClose])
  | None => (c, [])
  end.
Definition api_step (c : cobj) (a : capi) : cobj * list cact :=
  match a with
  | ApiClose => api_close c
  | ApiConnect s =>                         (* self.close(); self.socket = Socket(..); connect(service_name) *)
      let r := api_close c in
      ({| o_sock := Some s; o_release := o_release (fst r) |}, snd r ++ [ActConnect s])
  | ApiRequest op =>
      let c1 := match o_sock c with         (* if not self.socket: connect(default); release = True *)
                | None => ({| o_sock := Some DEFAULT_SERVICE; o_release := true |}, [ActConnect DEFAULT_SERVICE])
                | Some s => ({| o_sock := Some s; o_release := false |}, [])     (* else: release = False *)
                end in
      let c2 := if o_release (fst c1) then api_close (fst c1) else (fst c1, []) in   (* finally *)
      (fst c2, snd c1 ++ [ActRequest op] ++ snd c2)
  end.
Fixpoint api_run (c : cobj) (l : list capi) : cobj * list cact :=
  match l with
  | [] => (c, [])
  | a :: r => let s1 := api_step c a in let s2 := api_run (fst s1) r in (fst s2, snd s1 ++ snd s2)
  end.

(* ================================================================== servers *)
Inductive call :=
| CallPut (octets : list Z)     (* process_put_request(records decoded from octets) *)
| CallGet (octets : list Z)     (* process_get_request(...) *)
| CallHo (octets : list Z).     (* process_handover_request_message(...) *)

(* what process_get_request returns *)
Inductive getres :=
| GCode (c : Z)                 (* an int: response code *)
| GMsg (octets : list Z)        (* records; octets = b''.join(ndef.message_encoder(records)) *)
| GEncodeError.                 (* records that raise ndef.EncodeError *)

Inductive sst :=
| SPoll                                  (* while client_socket.poll('recv') *)
| SMore (data : list Z) (length : Z)     (* data += client_socket.recv() *)
| SAwaitCont (rest : list (list Z))      (* if client_socket.recv() == Continue *)
| SClosed
| SCrashed (c : crash).

Section Server.
  Variable A : Type.                                   (* application state *)
  Variable app_put : A -> list Z -> A * Z.
  Variable app_get : A -> list Z -> A * getres.
  Variable app_ho  : A -> list Z -> A * list Z.        (* returns the encoded select message *)
  Variable decodable : list Z -> bool.   (* list(ndef.message_decoder(octets, known_types={})) raises neither
                                            ndef.DecodeError nor ValueError (both give BadRequest) *)
  Variable complete : list Z -> bool.    (* ... (request, 'strict', {}) does not raise *)
  Variable is_hr : list Z -> bool.       (* 'relax' decoding succeeds and records[0].type == 'urn:nfc:wkt:Hr' *)
  Variable max_acc : Z.                  (* self.max_acceptable_length *)
  Variable miu : Z.                      (* client_socket.getsockopt(SO_SNDMIU) *)

  Record srv := { sv_st : sst; sv_app : A; sv_log : list call }.

  Definition mk_response (code : Z) (data : list Z) : res (list Z) :=
    if (0 <=? code) && (code <? 256) then
      do l <- pack_L (len data); Ok ([16; code] ++ l ++ data)
    else Crash StructErr.

  (* SnepServer.process_snep_request *)
  Definition process_snep_request (a : A) (log : list call) (data : list Z) : A * list call * res (list Z) :=
    match data with
    | _ :: rq :: _ :: _ :: _ :: _ :: rest6 =>
        if (rq =? 1) && (10 <=? len data) then
          match rest6 with
          | a0 :: a1 :: a2 :: a3 :: octets =>
              let acceptable := unbe32 a0 a1 a2 a3 in
              if decodable octets then
                let ar := app_get a octets in
                let cd := match snd ar with
                          | GCode c => (c, [])
                          | GMsg o => if len o >? acceptable then (193, []) else (129, o)
                          | GEncodeError => (192, [])
                          end in
                (fst ar, log ++ [CallGet octets], mk_response (fst cd) (snd cd))
              else (a, log, mk_response 194 [])
          | _ => (a, log, Crash IndexErr)
          end
        else if rq =? 2 then
          if decodable rest6 then
            let ar := app_put a rest6 in
            (fst ar, log ++ [CallPut rest6], mk_response (snd ar) [])
          else (a, log, mk_response 194 [])
        else (a, log, mk_response 194 [])
    | _ => (a, log, Crash IndexErr)
    end.

  (* message complete: process, then send the response, fragmented if needed *)
  Definition respond (s : srv) (data : list Z) : srv * list (list Z) :=
    match process_snep_request (sv_app s) (sv_log s) data with
    | (a, log, Ok resp) =>
        if len resp <=? miu then ({| sv_st := SPoll; sv_app := a; sv_log := log |}, [resp])
        else ({| sv_st := SAwaitCont (chunks miu (drop miu resp)); sv_app := a; sv_log := log |},
              [take miu resp])
    | (a, log, Crash c) => ({| sv_st := SCrashed c; sv_app := a; sv_log := log |}, [])
    | (a, log, _) => ({| sv_st := SCrashed AssertErr; sv_app := a; sv_log := log |}, [])
    end.

  Definition set_st (s : srv) (st : sst) : srv := {| sv_st := st; sv_app := sv_app s; sv_log := sv_log s |}.

  (* SnepServer._serve *)
  Definition snep_react (s : srv) (i : input) : srv * list (list Z) :=
    match sv_st s, i with
    | SPoll, IMsg m =>
        match m with
        | v :: _ :: a :: b :: c :: d :: _ =>
            let length := unbe32 a b c d in
            if Z.shiftr v 4 >? 1 then (s, [RSP_UNSUPVER])
            else if length >? max_acc then (s, [RSP_REJECT])
            else if len m - 6 <? length then (set_st s (SMore m length), [RSP_CONTINUE])
            else respond s m
        | _ => (set_st s SClosed, [])      (* not data / initial fragment too short: break *)
        end
    | SPoll, IClosed => (set_st s SClosed, [])
    | SPoll, ITimeout => (s, [])
    | SMore data length, IMsg m =>
        let data' := data ++ m in
        if len data' - 6 <? length then (set_st s (SMore data' length), [])
        else respond s data'
    | SMore data length, IClosed =>
        (* recv() returns None -> TypeError -> break; the partial request is processed; the
           response cannot be sent any more (llcp.Error is caught, the loop ends) *)
        match sv_st (fst (respond s data)) with
        | SCrashed c => (fst (respond s data), [])      (* struct.error from the response header *)
        | _ => (set_st (fst (respond s data)) SClosed, [])
        end
    | SMore _ _, ITimeout => (s, [])
    | SAwaitCont rest, IMsg m =>
        if list_eqb m REQ_CONTINUE then (set_st s SPoll, rest) else (set_st s SPoll, [])
    | SAwaitCont rest, IClosed => (set_st s SClosed, [])
    | SAwaitCont _, ITimeout => (s, [])
    | SClosed, _ => (s, [])
    | SCrashed _, _ => (s, [])
    end.

  (* ---- HandoverServer.serve (with the repair fixes/c06-handover-server-request-reset.diff:
     after the response has been sent the request buffer starts empty again).
     [reset = false] is the code before the repair: the buffer keeps the old request. *)
  Inductive hst := HAccum (request : list Z) | HClosed.
  Record hsrv := { hv_st : hst; hv_app : A; hv_log : list call }.

  Definition ho_process (a : A) (log : list call) (octets : list Z) : A * list call * list Z :=
    if is_hr octets then
      let ar := app_ho a octets in (fst ar, log ++ [CallHo octets], snd ar)
    else (a, log, []).

  Definition ho_react (reset : bool) (s : hsrv) (i : input) : hsrv * list (list Z) :=
    match hv_st s, i with
    | HAccum request, IMsg m =>
        let request' := request ++ m in
        if len request' =? 0 then (s, [])
        else if complete request' then
          match ho_process (hv_app s) (hv_log s) request' with
          | (a, log, response) =>
              ({| hv_st := HAccum (if reset then [] else request'); hv_app := a; hv_log := log |},
               chunks miu response)
          end
        else ({| hv_st := HAccum request'; hv_app := hv_app s; hv_log := hv_log s |}, [])
    | HAccum _, IClosed => ({| hv_st := HClosed; hv_app := hv_app s; hv_log := hv_log s |}, [])
    | HAccum _, ITimeout => (s, [])
    | HClosed, _ => (s, [])
    end.
End Server.

Arguments sv_st {A}. Arguments sv_app {A}. Arguments sv_log {A}.
Arguments hv_st {A}. Arguments hv_app {A}. Arguments hv_log {A}.

Definition snep_server_stopped {A} (s : srv A) : bool :=
  match sv_st s with SClosed | SCrashed _ => true | _ => false end.
Definition ho_server_stopped {A} (s : hsrv A) : bool :=
  match hv_st s with HAccum _ => false | _ => true end.
Definition is_closed_in (i : input) : bool := match i with IClosed => true | _ => false end.

(* ================================================================== channel *)
(* A reliable ordered message channel: an abstract queue type with its operations ... *)
Record chan_ops := {
  Q : Type;
  qnew : Q;
  qput : Q -> input -> Q;
  qget : Q -> option (input * Q)
}.
(* ... and the laws that make it a FIFO (qlist: what is in transit, oldest first) *)
Record chan_ok (C : chan_ops) := {
  qlist : Q C -> list input;
  qnew_spec : qlist (qnew C) = [];
  qput_spec : forall q x, qlist (qput C q x) = qlist q ++ [x];
  qget_spec : forall q, match qget C q with
                        | None => qlist q = []
                        | Some (x, q') => qlist q = x :: qlist q'
                        end
}.
(* the simple instance *)
Definition list_chan : chan_ops :=
  {| Q := list input; qnew := [];
     qput := fun q x => q ++ [x];
     qget := fun q => match q with [] => None | x :: q' => Some (x, q') end |}.

(* ================================================================== two peers *)
Section Sys.
  Variables CS SS : Type.
  Variable creact : CS -> input -> CS * list input.
  Variable sreact : SS -> input -> SS * list input.
  Variable C : chan_ops.
  Variables miu_cs miu_sc : Z.      (* maximum message size client->server / server->client *)

  Record gst := { g_c : CS; g_s : SS; g_cs : Q C; g_sc : Q C; g_err : bool }.

  (* socket.send(): EMSGSIZE if the message exceeds the send MIU *)
  Definition too_big (lim : Z) (x : input) : bool :=
    match x with IMsg m => len m >? lim | _ => false end.
  Definition push_all (lim : Z) (q : Q C) (outs : list input) : Q C := fold_left (qput C) outs q.
  Definition any_too_big (lim : Z) (outs : list input) : bool := existsb (too_big lim) outs.

  (* one delivery: who = true: the oldest message in transit to the client is handed to
     the client, which runs up to its next wait; who = false: the same for the server *)
  Definition gstep (who : bool) (g : gst) : option gst :=
    if who then
      match qget C (g_sc g) with
      | None => None
      | Some (x, q') =>
          let r := creact (g_c g) x in
          Some {| g_c := fst r; g_s := g_s g; g_cs := push_all miu_cs (g_cs g) (snd r); g_sc := q';
                  g_err := g_err g || any_too_big miu_cs (snd r) |}
      end
    else
      match qget C (g_cs g) with
      | None => None
      | Some (x, q') =>
          let r := sreact (g_s g) x in
          Some {| g_c := g_c g; g_s := fst r; g_cs := q'; g_sc := push_all miu_sc (g_sc g) (snd r);
                  g_err := g_err g || any_too_big miu_sc (snd r) |}
      end.

  (* an interleaving is a list of choices *)
  Fixpoint run (sch : list bool) (g : gst) : option gst :=
    match sch with
    | [] => Some g
    | w :: sch' => match gstep w g with Some g' => run sch' g' | None => None end
    end.

  (* nothing in transit *)
  Definition quiescent (g : gst) : Prop := gstep true g = None /\ gstep false g = None.

  (* the schedule used for the executable runs: the client first *)
  Inductive event := Ev (to_client : bool) (x : input) (outs : list input).
  Fixpoint run_cp (fuel : nat) (g : gst) : gst :=
    match fuel with
    | O => g
    | S f => match gstep true g with
             | Some g' => run_cp f g'
             | None => match gstep false g with Some g' => run_cp f g' | None => g end
             end
    end.
  (* the same with the list of deliveries and reactions, for the replay against the code *)
  Fixpoint run_cp_tr (fuel : nat) (g : gst) (tr : list event) : gst * list event :=
    match fuel with
    | O => (g, tr)
    | S f =>
        match qget C (g_sc g), gstep true g with
        | Some (x, _), Some g' => run_cp_tr f g' (tr ++ [Ev true x (snd (creact (g_c g) x))])
        | _, _ =>
            match qget C (g_cs g), gstep false g with
            | Some (x, _), Some g' => run_cp_tr f g' (tr ++ [Ev false x (snd (sreact (g_s g) x))])
            | _, _ => (g, tr)
            end
        end
    end.

  Definition ginit (c0 : CS) (outs0 : list input) (s0 : SS) : gst :=
    {| g_c := c0; g_s := s0; g_cs := push_all miu_cs (qnew C) outs0; g_sc := qnew C;
       g_err := any_too_big miu_cs outs0 |}.
End Sys.

Arguments g_c {CS SS C}. Arguments g_s {CS SS C}. Arguments g_cs {CS SS C}.
Arguments g_sc {CS SS C}. Arguments g_err {CS SS C}.

(* ================================================================== the two systems *)
Section Systems.
  Variable A : Type.
  Variable app_put : A -> list Z -> A * Z.
  Variable app_get : A -> list Z -> A * getres.
  Variable app_ho  : A -> list Z -> A * list Z.
  Variables decodable complete is_hr : list Z -> bool.
  Variable C : chan_ops.
  Variable miu_cs : Z.     (* send MIU of the client socket = channel limit client->server *)
  Variable miu_sc : Z.     (* send MIU of the server socket = channel limit server->client *)
  Variable max_acc : Z.

  (* the finally-clause: client_socket.close() sends a disconnect unless the peer closed first *)
  Definition snep_sys_react (s : srv A) (i : input) : srv A * list input :=
    let r := snep_react A app_put app_get decodable max_acc miu_sc s i in
    (fst r, map IMsg (snd r) ++
            (if snep_server_stopped (fst r) && negb (snep_server_stopped s) && negb (is_closed_in i)
             then [IClosed] else [])).
  Definition ho_sys_react (reset : bool) (s : hsrv A) (i : input) : hsrv A * list input :=
    let r := ho_react A app_ho complete is_hr miu_sc reset s i in
    (fst r, map IMsg (snd r) ++
            (if ho_server_stopped (fst r) && negb (ho_server_stopped s) && negb (is_closed_in i)
             then [IClosed] else [])).
  Definition cl_react := csess_react miu_cs complete.

  Definition snep_init (a : A) (ops : list cop) :=
    let so := start_ops miu_cs ops [] in
    ginit (csess) (srv A) C miu_cs (fst so) (snd so) {| sv_st := SPoll; sv_app := a; sv_log := [] |}.
  Definition ho_init (a : A) (ops : list cop) :=
    let so := start_ops miu_cs ops [] in
    ginit (csess) (hsrv A) C miu_cs (fst so) (snd so) {| hv_st := HAccum []; hv_app := a; hv_log := [] |}.

  Definition snep_step := gstep csess (srv A) cl_react snep_sys_react C miu_cs miu_sc.
  Definition snep_run := run csess (srv A) cl_react snep_sys_react C miu_cs miu_sc.
  Definition ho_step r := gstep csess (hsrv A) cl_react (ho_sys_react r) C miu_cs miu_sc.
  Definition ho_run r := run csess (hsrv A) cl_react (ho_sys_react r) C miu_cs miu_sc.
End Systems.

(* ================================================================== executable instance *)
(* scripted application: the answers are consumed in order *)
Inductive answer := APut (code : Z) | AGet (r : getres) | AHo (octets : list Z).
Definition sapp_put (a : list answer) (_ : list Z) : list answer * Z :=
  match a with APut c :: r => (r, c) | _ => (a, 129) end.
Definition sapp_get (a : list answer) (_ : list Z) : list answer * getres :=
  match a with AGet g :: r => (r, g) | _ => (a, GCode 224) end.
Definition sapp_ho (a : list answer) (_ : list Z) : list answer * list Z :=
  match a with AHo o :: r => (r, o) | _ => (a, []) end.
(* oracle tables filled in by the harness from ndeflib *)
Definition mem (table : list (list Z)) (l : list Z) : bool := existsb (list_eqb l) table.

(* one side against a script of arrivals (correspondence of the single functions) *)
Fixpoint client_script (cpl : list (list Z)) (st : cst) (ins : list input)
  : list (input * list (list Z)) * cst :=
  match ins with
  | [] => ([], st)
  | i :: r =>
      match st with
      | CDone _ | CIdle => ([], st)
      | _ => let so := client_react (mem cpl) st i in
             let rest := client_script cpl (fst so) r in
             ((i, snd so) :: fst rest, snd rest)
      end
  end.

Fixpoint snep_server_script (dec : list (list Z)) (max_acc miu : Z) (s : srv (list answer)) (ins : list input)
  : list (input * list (list Z)) * srv (list answer) :=
  match ins with
  | [] => ([], s)
  | i :: r =>
      if snep_server_stopped s then ([], s) else
      let so := snep_react _ sapp_put sapp_get (mem dec) max_acc miu s i in
      let rest := snep_server_script dec max_acc miu (fst so) r in
      ((i, snd so) :: fst rest, snd rest)
  end.
Fixpoint ho_server_script (cpl hr : list (list Z)) (miu : Z) (reset : bool) (s : hsrv (list answer)) (ins : list input)
  : list (input * list (list Z)) * hsrv (list answer) :=
  match ins with
  | [] => ([], s)
  | i :: r =>
      if ho_server_stopped s then ([], s) else
      let so := ho_react _ sapp_ho (mem cpl) (mem hr) miu reset s i in
      let rest := ho_server_script cpl hr miu reset (fst so) r in
      ((i, snd so) :: fst rest, snd rest)
  end.

(* both sides together over the list channel, client-first schedule, with the delivery trace *)
Definition snep_exec (dec : list (list Z)) (miu_cs miu_sc max_acc : Z) (app : list answer)
  (ops : list cop) (fuel : nat) :=
  run_cp_tr csess (srv (list answer)) (cl_react (mem []) miu_cs)
    (snep_sys_react _ sapp_put sapp_get (mem dec) miu_sc max_acc) list_chan miu_cs miu_sc fuel
    (snep_init _ list_chan miu_cs app ops) [].
Definition ho_exec (cpl hr : list (list Z)) (miu_cs miu_sc : Z) (reset : bool) (app : list answer)
  (ops : list cop) (fuel : nat) :=
  run_cp_tr csess (hsrv (list answer)) (cl_react (mem cpl) miu_cs)
    (ho_sys_react _ sapp_ho (mem cpl) (mem hr) miu_sc reset) list_chan miu_cs miu_sc fuel
    (ho_init _ list_chan miu_cs app ops) [].
