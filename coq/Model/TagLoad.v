(* The command layer below the Type 2 / Type 1 NDEF readers (property C08): what
   tt2.Type2TagMemoryReader._read_from_tag + Type2Tag.read / sector_select / transceive and
   tt1.Type1TagMemoryReader._read_from_tag + Type1Tag.read_all / read_block / read_segment / transceive
   (after the repairs fixes/c08-14, c08-17, c08-18 and the C16 repair of sector_select) build out of
   ARBITRARY answers: a script gives the outcome of every clf.exchange() call in the order the calls
   are made - any byte string of any length, or no answer / a transmission / protocol error; past the
   end of the script the tag is silent.

   [xchg]            one transceive(): the command is sent up to 3 times until an answer arrives
   [t2_load], [t1_load]   the memory reader asked for the first [stop] bytes: the image it holds
                     afterwards (it only ever grows), whether the load succeeded, every frame sent
   [t2_read_responses], [t1_read_responses]
                     tag.ndef of a new tag object against a response script = the readers of
                     Model/TagReadAny.v on the image the loader can build, and the commands the loader
                     sends to satisfy the reader's demand
   Not modelled: the sense() call Type2Tag.read makes after a NAK (it only selects the errno).
   Definitions only. *)
From Coq Require Import ZArith List Bool.
From NV Require Import Base.Result Base.Bytes Model.TlvMem Model.IsoDep Model.TagAct Model.TagReadAny.
Import ListNotations.
Open Scope Z_scope.

Record wire := mkWire { w_script : list aresult; w_sent : list (list Z) (* latest first *) }.
Definition nsent (w : wire) : Z := len (w_sent w).

(* transceive(data, retries = tries - 1): Some answer | None (TagCommandError TIMEOUT / RECEIVE / PROTOCOL) *)
Fixpoint xchg (tries : nat) (w : wire) (frame : list Z) : option (list Z) * wire :=
  match tries with
  | O => (None, w)
  | S t =>
    let w1 := mkWire (tl (w_script w)) (frame :: w_sent w) in
    match hd_x (w_script w) with
    | ARx d => (Some d, w1)
    | _ => xchg t w1 frame
    end
  end.

(* how a load ends *)
Inductive lstat := LDone | LFail | LCrash (c : crash) | LHang.

(* ------------------------------------------------------------ Type 2 *)
(* sector_select(sector): nothing when it is the current sector; C2 FF must be answered with 0A; the second
   packet must NOT be answered (passive ack = timeout, sent once); pack('Bxxx', sector) needs sector <= 255 *)
Definition t2_select (sector cur : Z) (w : wire) : lstat * Z * wire :=
  if sector =? cur then (LDone, cur, w) else
  if (sector <? 0) || (255 <? sector) then (LCrash StructErr, cur, w) else
  match xchg 3 w [194; 255] with
  | (Some [10], w1) =>
    let w2 := mkWire (tl (w_script w1)) ([sector; 0; 0; 0] :: w_sent w1) in
    match hd_x (w_script w1) with
    | ATimeout => (LDone, sector, w2)
    | _ => (LFail, cur, w2)
    end
  | (_, w1) => (LFail, cur, w1)
  end.

(* _read_from_tag(stop): index = len(self) (always a multiple of 16); while index < stop: sector_select(index >> 10);
   data = read(index >> 2) - exactly 16 bytes, anything else (a NAK, a short or long answer) is an error *)
Fixpoint t2_load (fuel : nat) (w : wire) (cur : Z) (acc : list Z) (stop : Z) : lstat * list Z * Z * wire :=
  if stop <=? len acc then (LDone, acc, cur, w) else
  match fuel with
  | O => (LHang, acc, cur, w)
  | S f =>
    match t2_select (len acc / 1024) cur w with
    | (LDone, c1, w1) =>
      match xchg 3 w1 [48; (len acc / 4) mod 256] with
      | (Some d, w2) => if len d =? 16 then t2_load f w2 c1 (acc ++ d) stop else (LFail, acc, c1, w2)
      | (None, w2) => (LFail, acc, c1, w2)
      end
    | (st, c1, w1) => (st, acc, c1, w1)
    end
  end.

Definition T2_MAX : Z := 262144.          (* 256 sectors of 1 KiB *)
Definition t2_fuel : nat := Z.to_nat 16385.
(* everything the memory reader can ever hold *)
Definition t2_image (script : list aresult) : list Z :=
  let '(_, em, _, _) := t2_load t2_fuel (mkWire script []) 0 [] T2_MAX in em.

(* tag.ndef of a new Type2Tag object: result, frames sent (oldest first) *)
Definition t2_read_responses (script : list aresult) : res (option layout) * list (list Z) :=
  let (r, d) := t2_read_d (t2_image script) in
  let '(st, _, _, w) := t2_load t2_fuel (mkWire script []) 0 [] d in
  (match st with LCrash c => Crash c | LHang => Hang | _ => r end, rev (w_sent w)).

(* upper bound of the frames sent for demand d: 3 per READ, 4 per sector change, 4 for a sector change that fails *)
Definition t2_wire_max (d : Z) : Z := 3 * ((Z.max d 0 + 15) / 16) + 4 * (Z.max d 0 / 1024) + 4.

(* ------------------------------------------------------------ Type 1 *)
Definition zeros8 : list Z := [0; 0; 0; 0; 0; 0; 0; 0].
Definition rall_cmd (uid : list Z) : list Z := [0; 0; 0] ++ uid.
Definition read8_cmd (uid : list Z) (blk : Z) : list Z := [2; blk] ++ zeros8 ++ uid.
Definition rseg_cmd (uid : list Z) (seg : Z) : list Z := [16; seg * 16] ++ zeros8 ++ uid.

(* while len(self) < stop: segment = len(self) >> 7 (at most 15); rsp of at least 129 bytes, rsp[1:129] appended *)
Fixpoint t1_segs (fuel : nat) (w : wire) (uid acc : list Z) (stop : Z) : lstat * list Z * wire :=
  if stop <=? len acc then (LDone, acc, w) else
  match fuel with
  | O => (LHang, acc, w)
  | S f =>
    if 15 <? len acc / 128 then (LFail, acc, w) else
    match xchg 3 w (rseg_cmd uid (len acc / 128)) with
    | (Some r, w1) => if len r <? 129 then (LFail, acc, w1) else t1_segs f w1 uid (acc ++ slice r 1 129) stop
    | (None, w1) => (LFail, acc, w1)
    end
  end.

(* a new Type1TagMemoryReader asked for [stop] bytes: RALL (header ROM + whatever follows), then, only when the static
   memory has exactly 120 bytes and more is needed, READ8 of block 0Fh (rsp[1:9], whatever its length), then segments.
   Result: how it ended, header ROM (empty: RALL failed), image, wire *)
Definition t1_load (script : list aresult) (uid : list Z) (stop : Z) : lstat * list Z * list Z * wire :=
  match xchg 3 (mkWire script []) (rall_cmd uid) with
  | (Some r, w1) =>
    if len r <? 2 then (LFail, [], [], w1) else
    let hdr := firstn 2 r in
    let d0 := skipn 2 r in
    if (120 <? stop) && (len d0 =? 120) then
      match xchg 3 w1 (read8_cmd uid 15) with
      | (Some r8, w2) => let '(st, em, w3) := t1_segs 17 w2 uid (d0 ++ slice r8 1 9) stop in (st, hdr, em, w3)
      | (None, w2) => (LFail, hdr, d0, w2)
      end
    else let '(st, em, w3) := t1_segs 17 w1 uid d0 stop in (st, hdr, em, w3)
  | (None, w1) => (LFail, [], [], w1)
  end.

Definition T1_ALL : Z := 1048576.         (* more than any image can hold: load until the tag or segment 15 ends it *)
(* tag.ndef of a new Type1Tag object with UID [uid] (from the RID response): result, frames sent *)
Definition t1_read_responses (uid : list Z) (script : list aresult) : res (option layout) * list (list Z) :=
  match t1_load script uid T1_ALL with
  | (_, [], _, w) => (Ok None, rev (w_sent w))          (* RALL failed: Type1TagCommandError in __init__ *)
  | (_, hr0 :: _, em, _) =>
    let (r, d) := t1_read_img hr0 em in
    let '(st, _, _, w) := t1_load script uid (Z.max 1 d) in
    (match st with LCrash c => Crash c | LHang => Hang | _ => r end, rev (w_sent w))
  end.
(* at most RALL, READ8 and 16 RSEG, each sent up to 3 times *)
Definition t1_wire_max : Z := 54.
Definition t1_image (uid : list Z) (script : list aresult) : list Z :=
  let '(_, _, em, _) := t1_load script uid T1_ALL in em.
