(* C07: header and fragment handling of the SNEP server (src/nfc/snep/server.py _serve, process_snep_request), the
   SNEP client's response reception (src/nfc/snep/client.py recv_response) and the handover server / client
   reassembly loops (src/nfc/handover/server.py serve, _process_request_data; client.py recv_octets), for ARBITRARY
   fragment bytes.  Definitions only.

   The servers are reactive: one arrival (a fragment delivered by the data link connection, or the disconnect) is one
   step of a small state machine; a server thread that has consumed all arrivals waits for the peer (that is its normal
   idle state, it is woken when the link ends).  ndeflib is outside the model: `nd mode octets` is the outcome class of
      mode 0  ndef.message_decoder(octets, known_types={})        (SNEP server)
      mode 1  ndef.message_decoder(octets, 'strict', {})          (handover: is the message complete?)
      mode 2  ndef.message_decoder(octets, 'relax')               (handover: decode the request)
   as an arbitrary function; NdValueError is ndeflib's ValueError / UnicodeDecodeError for a malformed TYPE field, which
   is no ndef.DecodeError.  The application callbacks are the defaults of the base classes (GET -> NotImplemented,
   PUT -> Success, handover request -> one Hs record), so every SNEP response is the 6-byte header.

   The model is of the REPAIRED code (fixes/c07-6-ndef-type-valueerror.diff); orig = true is the code as it was.
   `reset` says whether the handover server starts the next request with an empty buffer (fixes/c06-handover-server-
   request-reset.diff, a C06 repair that may or may not be in the tree under test). *)
From Coq Require Import ZArith List Bool.
From NV Require Import Base.Result Base.Bytes Base.PyPrims.
Import ListNotations.
Open Scope Z_scope.

Inductive ndef_out := NdOk (first_is_hr : bool) | NdDecodeError | NdValueError.
Inductive arrival := Frag (d : list Z) | Closed | Timeout.
(* what the thread does after a step *)
Inductive next (S : Type) := Continue (s : S) | Return.
Arguments Continue {S} s. Arguments Return {S}.

Definition be32 (l : list Z) : Z := fold_left (fun acc b => acc * 256 + b) l 0.
Definition snep_rsp (code : Z) : list Z := [16; code; 0; 0; 0; 0].

Section Snep.
Variable nd : Z -> list Z -> ndef_out.
Variable orig : bool.

(* process_snep_request with the default callbacks; request_data[1] is read first *)
Definition process_snep_request (d : list Z) : res (list Z) :=
  do r <- idx d 1;
  let decoded (o : ndef_out) (ok_code : Z) : res (list Z) :=
    match o with
    | NdOk _ => Ok (snep_rsp ok_code)
    | NdDecodeError => Ok (snep_rsp 194)                         (* BadRequest *)
    | NdValueError => if orig then Crash ValueErr else Ok (snep_rsp 194)
    end in
  if (r =? 1) && (10 <=? len d) then decoded (nd 0 (drop 10 d)) 224     (* GET: NotImplemented *)
  else if r =? 2 then decoded (nd 0 (drop 6 d)) 129                     (* PUT: Success *)
  else Ok (snep_rsp 194).

Inductive snep_state := Idle | Collect (data : list Z) (need : Z).

(* one arrival at the serving thread: (what it sends, what it does next) *)
Definition snep_step (max_len : Z) (st : snep_state) (a : arrival) : res (list (list Z) * next snep_state) :=
  match st, a with
  | _, Timeout => Ok ([], Continue st)                          (* poll('recv') / recv() without timeout keep waiting *)
  | Idle, Closed => Ok ([], Return)                             (* poll('recv') is False *)
  | Idle, Frag d =>
      if len d =? 0 then Ok ([], Return)
      else if len d <? 6 then Ok ([], Return)
      else
        do v <- idx d 0;
        let length := be32 (slice d 2 6) in
        if Z.shiftr v 4 >? 1 then Ok ([snep_rsp 225], Continue Idle)             (* unsupported version *)
        else if length >? max_len then Ok ([snep_rsp 255], Continue Idle)        (* reject *)
        else if len d - 6 <? length then Ok ([snep_rsp 128], Continue (Collect d length))
        else (do r <- process_snep_request d; Ok ([r], Continue Idle))
  | Collect data need, Frag f =>
      let data' := data ++ f in
      if len data' - 6 <? need then Ok ([], Continue (Collect data' need))
      else (do r <- process_snep_request data'; Ok ([r], Continue Idle))
  | Collect data need, Closed =>
      (* recv() returns None: TypeError, break; the incomplete message is processed, send() then raises nfc.llcp.Error *)
      do _ <- process_snep_request data; Ok ([], Return)
  end.

Inductive outcome := Ended | Waiting.

Fixpoint snep_serve (max_len : Z) (st : snep_state) (script : list arrival) : res (list (list Z) * outcome) :=
  match script with
  | [] => Ok ([], Waiting)
  | a :: r =>
      do (s1, nx) <- snep_step max_len st a;
      match nx with
      | Return => Ok (s1, Ended)
      | Continue st' => do (s2, o) <- snep_serve max_len st' r; Ok (s1 ++ s2, o)
      end
  end.

(* ---------------------------------------------------------------- SNEP client: recv_response *)
Inductive cl_state := ClFirst | ClMore (data : list Z) (need : Z).
(* result: None or the response bytes *)
Definition client_step (acceptable : Z) (st : cl_state) (a : arrival) : res (list (list Z) * next cl_state * option (list Z)) :=
  match st, a with
  | ClFirst, Frag d =>
      if len d <? 6 then Ok ([], Return, None)
      else let length := be32 (slice d 2 6) in
           if length >? acceptable then Ok ([], Return, None)
           else if len d - 6 <? length then Ok ([[16; 0; 0; 0; 0; 0]], Continue (ClMore d length), None)
           else Ok ([], Return, Some d)
  | ClMore data need, Frag f =>
      let data' := data ++ f in
      if len data' - 6 <? need then Ok ([], Continue (ClMore data' need), None) else Ok ([], Return, Some data')
  | _, _ => Ok ([], Return, None)                                (* poll() is False: time-out or disconnect *)
  end.

(* ---------------------------------------------------------------- handover server: serve *)
Variable hs : list Z.           (* the encoded default response: one Hs record *)
Variable send_miu : Z.
Variable reset : bool.

Fixpoint chunks (fuel : nat) (d : list Z) : list (list Z) :=
  match fuel with
  | O => []
  | S f => if len d =? 0 then [] else take send_miu d :: chunks f (drop send_miu d)
  end.

Definition ho_process (request : list Z) : res (list Z) :=
  match nd 2 request with
  | NdOk hr => Ok (if hr then hs else [])
  | NdDecodeError => Ok []
  | NdValueError => if orig then Crash ValueErr else Ok []
  end.

(* state: the reassembly buffer *)
Definition ho_step (request : list Z) (a : arrival) : res (list (list Z) * next (list Z)) :=
  match a with
  | Timeout => Ok ([], Continue request)
  | Closed => Ok ([], Return)
  | Frag f =>
      let request' := request ++ f in
      if len request' =? 0 then Ok ([], Continue request')
      else match nd 1 request' with
           | NdDecodeError => Ok ([], Continue request')                         (* need more data *)
           | NdValueError => if orig then Crash ValueErr else Ok ([], Continue request')
           | NdOk _ => do rsp <- ho_process request';
                       Ok (chunks (length rsp) rsp, Continue (if reset then [] else request'))
           end
  end.

Fixpoint ho_serve (request : list Z) (script : list arrival) : res (list (list Z) * outcome) :=
  match script with
  | [] => Ok ([], Waiting)
  | a :: r =>
      do (s1, nx) <- ho_step request a;
      match nx with
      | Return => Ok (s1, Ended)
      | Continue q => do (s2, o) <- ho_serve q r; Ok (s1 ++ s2, o)
      end
  end.

(* handover client recv_octets: octets or b'' (closed) / None (time-out) *)
Definition hc_step (octets : list Z) (a : arrival) : res (next (list Z) * option (list Z)) :=
  match a with
  | Timeout => Ok (Return, None)
  | Closed => Ok (Return, None)
  | Frag f =>
      let octets' := octets ++ f in
      match nd 1 octets' with
      | NdOk _ => Ok (Return, Some octets')
      | NdDecodeError => Ok (Continue octets', None)
      | NdValueError => if orig then Crash ValueErr else Ok (Continue octets', None)
      end
  end.

End Snep.
