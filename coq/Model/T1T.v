(* Executable model of nfc/tag/tt1.py: Type1TagMemoryReader, read_tlv, Type1Tag.NDEF._read_ndef_data,
   _write_ndef_data (three phases), and of Tag.NDEF.octets (setter) in nfc/tag/__init__.py.
   Definitions only.

   The memory reader loads the static memory with RALL, block 0Fh with READ8 and further segments
   with RSEG on demand; everything it can load is the tag memory [m] itself (120 bytes for a static
   tag, a multiple of 128 bytes for a dynamic tag), an access beyond it is the Type1TagCommandError
   the real reader raises (the tag does not answer).  Read commands are not part of the output.
   [hr0] is header ROM byte 0: 11h static memory (byte-wise WRITE-E), 1xh otherwise dynamic memory
   (block-wise WRITE-E8). *)
From Coq Require Import ZArith List Bool Lia.
From NV Require Import Base.Result Base.Bytes Model.TlvMem.
Import ListNotations.
Open Scope Z_scope.

(* the if/elif chain on the TLV type in the loop of _read_ndef_data (no length test for the
   control TLVs: a short value makes get_lock_byte_range raise IndexError) *)
Definition t1_dispatch (skip : ranges) (t l : Z) (v : list Z) : res tlv_action :=
  if t =? 0 then Ok (Next skip)
  else if t =? 1 then do r <- ctl_range lock_byte_range 2048 v; Ok (Next (r :: skip))
  else if t =? 2 then do r <- ctl_range rsvd_byte_range 2048 v; Ok (Next (r :: skip))
  else if t =? 3 then Ok Found
  else if t =? 254 then Ok Stop
  else Ok (Next skip).

(* the TLV walk: while offset < size: if offset in skip: offset += 1; continue; read_tlv ...
   read_tlv returns (None, None, None) when the first byte cannot be read (the loop breaks, no
   NDEF); any other read failure propagates as Type1TagCommandError.  Every step advances
   [off], so fuel > size suffices; when it is used up the loop condition is false. *)
Fixpoint t1_walk (fuel : nat) (em : list Z) (size : Z) (skip : ranges) (off : Z) (hw : Z)
  : res (option (Z * ranges * list Z * Z)) :=
  match fuel with
  | O => Ok None
  | S f =>
    if size <=? off then Ok None
    else if in_skip skip off then t1_walk f em size skip (off + 1) hw
    else
      match rd em off with
      | Ok _ =>
        match read_tlv em off skip with
        | Ok (t, l, v, e) =>
          match t1_dispatch skip t l v with
          | Ok (Next skip') =>
            t1_walk f em size skip' (off + l + 1 + (if l <? 255 then 1 else 3)) (Z.max hw e)
          | Ok Found => Ok (Some (off, skip, v, hw))
          | Ok Stop => Ok None
          | Err x => Err x | Crash c => Crash c | Hang => Hang
          end
        | Err x => Err x | Crash c => Crash c | Hang => Hang
        end
      | Err _ => Ok None          (* tlv_t is None: break *)
      | Crash c => Crash c
      | Hang => Hang
      end
  end.

(* _read_ndef_data on a tag with header ROM byte hr0 and memory m *)
Definition t1_read (hr0 : Z) (m : list Z) : res (option layout) :=
  if len m <? 120 then Ok None                       (* RALL failed *)
  else if negb (Z.shiftr hr0 4 =? 1) then Ok None
  else
    match rd m 8, rd m 9, rd m 10, rd m 11 with
    | Ok b8, Ok b9, Ok b10, Ok b11 =>
      if negb (b8 =? 225) then Ok None
      else if negb (Z.shiftr b9 4 =? 1) then Ok None
      else
        let size := (b10 + 1) * 8 in
        let skip0 := [(104, if size =? 120 then 120 else 128)] in
        do w <- t1_walk (S (Z.to_nat size)) m size skip0 12 12;
        match w with
        | None => Ok None
        | Some (off, skip, v, hw) =>
          Ok (Some {| l_off := off; l_skip := skip; l_cap := get_capacity size off skip;
                      l_rd := Z.shiftr b11 4 =? 0; l_wr := Z.land b11 15 =? 0;
                      l_val := v; l_dend := size; l_hw := hw |})
        end
    | _, _, _, _ => Ok None
    end.

(* ---- the reader after the repairs c08-12 (a read error anywhere inside read_tlv ends the walk: tlv_t None),
        c08-13 (control TLVs are used only when their length is 3) and c08-15 (the NDEF TLV must lie inside the
        data area).  c08-14 (no address beyond segment 15) needs no change: the memory has at most 2048 bytes.
        [t1_read] above is the reader of the tree before these repairs (kept for the C08 development). ---- *)
Definition t1_dispatch_r (skip : ranges) (t l : Z) (v : list Z) : res tlv_action :=
  if t =? 0 then Ok (Next skip)
  else if t =? 1 then
    (if l =? 3 then do r <- ctl_range lock_byte_range 2048 v; Ok (Next (r :: skip)) else Ok (Next skip))
  else if t =? 2 then
    (if l =? 3 then do r <- ctl_range rsvd_byte_range 2048 v; Ok (Next (r :: skip)) else Ok (Next skip))
  else if t =? 3 then Ok Found
  else if t =? 254 then Ok Stop
  else Ok (Next skip).
Fixpoint t1_walk_r (fuel : nat) (em : list Z) (size : Z) (skip : ranges) (off : Z) (hw : Z)
  : res (option (Z * ranges * list Z * Z)) :=
  match fuel with
  | O => Ok None
  | S f =>
    if size <=? off then Ok None
    else if in_skip skip off then t1_walk_r f em size skip (off + 1) hw
    else
      match read_tlv em off skip with
      | Ok (t, l, v, e) =>
        match t1_dispatch_r skip t l v with
        | Ok (Next skip') =>
          t1_walk_r f em size skip' (off + l + 1 + (if l <? 255 then 1 else 3)) (Z.max hw e)
        | Ok Found => Ok (Some (off, skip, v, hw))
        | Ok Stop => Ok None
        | Err x => Err x | Crash c => Crash c | Hang => Hang
        end
      | Err _ => Ok None          (* read_tlv returns (None, None, None): break *)
      | Crash c => Crash c
      | Hang => Hang
      end
  end.
Definition t1_reader (hr0 : Z) (m : list Z) : res (option layout) :=
  if len m <? 120 then Ok None
  else if negb (Z.shiftr hr0 4 =? 1) then Ok None
  else
    match rd m 8, rd m 9, rd m 10, rd m 11 with
    | Ok b8, Ok b9, Ok b10, Ok b11 =>
      if negb (b8 =? 225) then Ok None
      else if negb (Z.shiftr b9 4 =? 1) then Ok None
      else
        let size := (b10 + 1) * 8 in
        let skip0 := [(104, if size =? 120 then 120 else 128)] in
        do w <- t1_walk_r (S (Z.to_nat size)) m size skip0 12 12;
        match w with
        | None => Ok None
        | Some (off, skip, v, hw) =>
          let L := {| l_off := off; l_skip := skip; l_cap := get_capacity size off skip;
                      l_rd := Z.shiftr b11 4 =? 0; l_wr := Z.land b11 15 =? 0;
                      l_val := v; l_dend := size; l_hw := hw |} in
          if ndef_fits m L then Ok (Some L) else Ok None
        end
    | _, _, _, _ => Ok None
    end.

Definition classify (r : res (option layout)) : fresh_t :=
  match r with
  | Ok None => NoNdef
  | Ok (Some L) => if l_rd L then Msg (l_val L) else NotReadable
  | Err e => Failed (Err e)
  | Crash c => Failed (Crash c)
  | Hang => Failed Hang
  end.
Definition t1_fresh (hr0 : Z) (m : list Z) : fresh_t := classify (t1_reader hr0 m).
Definition t1_capacity (hr0 : Z) (m : list Z) : option Z :=
  match t1_reader hr0 m with Ok (Some L) => Some (l_cap L) | _ => None end.
Definition t1_layout (hr0 : Z) (m : list Z) : option layout :=
  match t1_reader hr0 m with Ok (Some L) => Some L | _ => None end.

(* write unit of Type1TagMemoryReader._write_to_tag: 8 byte blocks unless HR0 = x1h *)
Definition t1_unit (hr0 : Z) : nat := if (Z.shiftr hr0 4 =? 1) && negb (Z.land hr0 15 =? 1) then 8%nat else 1%nat.

(* _write_ndef_data (after the repair c01-tt1-empty-message); the length commit is the one of the
   unchanged tree: FF and the two length bytes in one synchronize, ascending block order *)
Definition t1_phases (L : layout) (d : list Z) : list phase :=
  [ph_len0 L; ph_data L d; if len d <? 255 then ph_len_short L d else ph_len_long_unrepaired L d].

Definition t1_write (hr0 : Z) (m d : list Z) : res unit * list write :=
  match t1_reader hr0 m with
  | Ok (Some L) =>
    if negb (l_wr L) then (Crash AttributeErr, [])
    else if l_cap L <? len d then (Err ValueError, [])
    else run_phases (t1_unit hr0) (len m) m (t1_phases L d) []
  | Ok None => (Crash NoneAttr, [])
  | Err e => (Err e, []) | Crash c => (Crash c, []) | Hang => (Hang, [])
  end.

(* ---- observations ---- *)
Fixpoint cut_mems (m : list Z) (ws : list write) : list (list Z) :=
  m :: match ws with [] => [] | w :: r => cut_mems (apply1 m w) r end.
Definition t1_write_obs (hr0 : Z) (m d : list Z) :=
  let p := t1_write hr0 m d in
  let m' := apply_ws m (snd p) in
  (fst p, snd p, m', t1_fresh hr0 m', t1_capacity hr0 m').
Definition t1_cut_obs (hr0 : Z) (m d : list Z) : list fresh_t :=
  map (t1_fresh hr0) (cut_mems m (snd (t1_write hr0 m d))).
Definition t1_free_after_tag (L : layout) : Z :=
  count_free (l_skip L) (l_off L + 1) (Z.to_nat (l_dend L - (l_off L + 1))).

(* ---- well-formed layout (DESIGN.md appendix D) ---- *)
Definition t1_wf_layoutb (hr0 : Z) (m : list Z) : bool :=
  ((Z.land hr0 15 =? 1) && (len m =? 120) || negb (Z.land hr0 15 =? 1) && (256 <=? len m) && (len m <=? 2048) && (len m mod 128 =? 0)) &&
  match t1_reader hr0 m with
  | Ok (Some L) =>
    l_rd L && l_wr L && (l_dend L <=? len m) && (l_hw L <=? l_off L) && (12 <=? l_off L) && (l_off L + 1 <? l_dend L)
    && negb (in_skip (l_skip L) (l_off L)) && negb (in_skip (l_skip L) (l_off L + 1))
    && ((l_cap L <? 255) || (negb (in_skip (l_skip L) (l_off L + 2)) && negb (in_skip (l_skip L) (l_off L + 3))))
  | _ => false
  end.
Definition t1_wf_layout (hr0 : Z) (m : list Z) : Prop := t1_wf_layoutb hr0 m = true.

(* ---- nfc/tag/tt1_broadcom.py: Topaz._format / Topaz512._format (version=None).  They write the
        factory management bytes at fixed addresses and wipe fixed address ranges, whatever TLVs the
        tag holds.  Result: Some true / None when the product has no format method. ---- *)
Definition set_slice (c : list Z) (a : Z) (vals : list Z) : res (list Z) :=
  if (0 <=? a) && (a + len vals <=? len c)
  then Ok (firstn (Z.to_nat a) c ++ vals ++ skipn (Z.to_nat a + length vals) c)
  else tag_err.
Definition ph_format_topaz (wipe : option Z) : phase := fun c =>
  do c1 <- set_slice c 8 [225; 16; 14; 0; 3; 0];
  match wipe with Some w => set_slice c1 14 (repeat (Z.land w 255) 90) | None => Ok c1 end.
Definition ph_format_topaz512 (wipe : option Z) : phase := fun c =>
  do c1 <- set_slice c 8 [225; 16; 63; 0; 1; 3; 242; 48];
  do c2 <- set_slice c1 16 [51; 2; 3; 240; 2; 3; 3; 0];
  match wipe with
  | Some w => do c3 <- set_slice c2 24 (repeat (Z.land w 255) 80); set_slice c3 128 (repeat (Z.land w 255) 384)
  | None => Ok c2
  end.
Definition t1_format_vendor (hr0 hr1 : Z) (m : list Z) (wipe : option Z) : res (option bool) * list write :=
  if (hr0 =? 17) && (hr1 =? 72) then
    let p := run_phases (t1_unit hr0) (len m) m [ph_format_topaz wipe] [] in
    (match fst p with Ok _ => Ok (Some true) | Err e => Err e | Crash c => Crash c | Hang => Hang end, snd p)
  else if (hr0 =? 18) && (hr1 =? 76) then
    let p := run_phases (t1_unit hr0) (len m) m [ph_format_topaz512 wipe] [] in
    (match fst p with Ok _ => Ok (Some true) | Err e => Err e | Crash c => Crash c | Hang => Hang end, snd p)
  else (Ok None, []).
Definition t1_format_obs (hr0 hr1 : Z) (m : list Z) (wipe : option Z) :=
  let p := t1_format_vendor hr0 hr1 m wipe in
  let m' := apply_ws m (snd p) in
  (fst p, snd p, m', t1_fresh hr0 m', t1_capacity hr0 m').

(* ---- several assignments tag.ndef.octets = d on the same tag object (see Model/T2T.v t2_attempt):
        the memory reader keeps (data_from_tag, data_in_cache); the readable image is the memory itself ---- *)
Definition t1_attempt (hr0 : Z) (m : list Z) (L : layout) (from cache d : list Z) (k : option nat) (f : fate)
  : res unit * (list Z * list Z * list Z) * list write :=
  if negb (l_wr L) then (Crash AttributeErr, (m, from, cache), [])
  else if l_cap L <? len d then (Err ValueError, (m, from, cache), [])
  else run_attempt (t1_unit hr0) (len m) (fun x => x) m from cache (t1_phases L d) k f.
Fixpoint t1_attempts (hr0 : Z) (L : layout) (d : list Z) (faults : list (nat * fate)) (st : list Z * list Z * list Z)
  : list Z * list Z * list Z :=
  match faults with
  | [] => st
  | (k, f) :: r =>
    let '(m, from, cache) := st in
    t1_attempts hr0 L d r (snd (fst (t1_attempt hr0 m L from cache d (Some k) f)))
  end.
Definition t1_after (hr0 : Z) (m d : list Z) (faults : list (nat * fate)) : option (layout * (list Z * list Z * list Z)) :=
  match t1_reader hr0 m with
  | Ok (Some L) => Some (L, t1_attempts hr0 L d faults (m, m, m))
  | _ => None
  end.
Definition t1_retry (hr0 : Z) (m d : list Z) (faults : list (nat * fate)) : option (res unit * list Z * list write) :=
  match t1_after hr0 m d faults with
  | Some (L, (m1, from, cache)) =>
    let p := t1_attempt hr0 m1 L from cache d None Lost in Some (fst (fst p), m1, snd p)
  | None => None
  end.
Definition t1_retry_obs (hr0 : Z) (m d : list Z) (k1 : nat) (f : fate) :=
  match t1_after hr0 m d [(k1, f)] with
  | Some (L, (m1, from, cache)) =>
    let p := t1_attempt hr0 m1 L from cache d None Lost in
    Some (m1, from, cache, fst (fst p), snd p, map (t1_fresh hr0) (cut_mems m1 (snd p)))
  | None => None
  end.
Definition t1_rewrite_obs (hr0 : Z) (m d1 : list Z) (k1 : nat) (f : fate) (d2 : list Z) :=
  match t1_after hr0 m d1 [(k1, f)] with
  | Some (L, (m1, from, cache)) =>
    let p := t1_attempt hr0 m1 L from cache d2 None Lost in
    Some (m1, fst (fst p), snd p, map (t1_fresh hr0) (cut_mems m1 (snd p)))
  | None => None
  end.
