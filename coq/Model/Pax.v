(* C07: the part of LogicalLinkController.activate (src/nfc/llcp/llc.py:347-394) that consumes the general
   bytes received from the peer during NFC-DEP activation, for ARBITRARY general bytes.  Definitions only.

   gb = mac.activate(...) is None (activation failed) or the peer's general bytes.  When they start with
   the LLCP magic 'Ffm' and are at least 6 bytes long the parameters are decoded as the TLV list of a PAX
   PDU:  rcvd_pax = pdu.decode(b"\x00\x40" + gb[3:])  (Model/Pdu.v decode, C11) and copied into llc.cfg.

   The model is of the REPAIRED code (fixes/c07-4-llc-activate-general-bytes.diff): a DecodeError of the
   parameter list makes activate() return False.  activate_gb_orig is the code as it was (DecodeError
   leaves activate() and then ContactlessFrontend.connect()).

   The log / info formatting reads version, lto, miu, lsc_text, dpc_text, wks, wks_text of the received
   PAX; lsc_text and dpc_text index constant tuples and are modelled with checked indexing. *)
From Coq Require Import ZArith List Bool.
From NV Require Import Base.Result Base.Bytes Base.PyPrims Model.Pdu.
Import ListNotations.
Open Scope Z_scope.

Record paxcfg := mkcfg { rcvd_ver : Z * Z; send_miu : Z; recv_lto : Z; send_wks : Z; send_lsc : Z; llcp_dpc : Z }.

(* ParameterExchange properties *)
Definition pax_version (v : option Z) : Z * Z :=
  match v with Some x => if x =? 0 then (0, 0) else (Z.shiftr x 4, Z.land x 15) | None => (0, 0) end.
Definition pax_miu (m : option Z) : Z := match m with Some x => x + 128 | None => 128 end.
Definition pax_wks (w : option Z) : Z := match w with Some x => x | None => 0 end.
Definition pax_lto (l : option Z) : Z := (match l with Some x => x | None => 10 end) * 10.
Definition pax_lsc (o : option Z) : Z := match o with Some x => Z.land x 3 | None => 0 end.
Definition pax_dpc (o : option Z) : Z := match o with Some x => Z.land (Z.shiftr x 2) 1 | None => 0 end.
(* ("...", "...", "...", "...")[self.lsc] and ("...", "...")[self.dpc]: the texts are numbered *)
Definition lsc_text (o : option Z) : res Z := idx [0; 1; 2; 3] (pax_lsc o).
Definition dpc_text (o : option Z) : res Z := idx [0; 1] (pax_dpc o).

Definition magic : list Z := [70; 102; 109].     (* b'Ffm' *)
Definition has_magic (g : list Z) : bool := list_eqb (slice g 0 3) magic.

Definition use_pax (sec : bool) (p : pdu) : res (bool * option paxcfg) :=
  match p with
  | Pax _ _ v m w l o =>
      do _ <- lsc_text o; do _ <- dpc_text o;
      Ok (true, Some (mkcfg (pax_version v) (pax_miu m) (pax_lto l) (pax_wks w) (pax_lsc o)
                            (if sec then pax_dpc o else 0)))
  | _ => Crash AttributeErr                    (* a PDU of another class has no `version` *)
  end.

Definition pax_bytes (g : list Z) : list Z := [0; 64] ++ drop 3 g.

(* sec = self.cfg['llcp-sec'];  result = (return value of activate, the cfg entries written) *)
Definition activate_gb (sec : bool) (gb : option (list Z)) : res (bool * option paxcfg) :=
  match gb with
  | None => Ok (false, None)
  | Some g =>
      if negb (0 <? len g) || negb (has_magic g) || negb (6 <=? len g) then Ok (false, None) else
      match decode (pax_bytes g) 0 (len (pax_bytes g)) with
      | Ok p => use_pax sec p
      | Err DecodeError => Ok (false, None)     (* except pdu.DecodeError: return False *)
      | Err e => Err e
      | Crash c => Crash c
      | Hang => Hang
      end
  end.

Definition activate_gb_orig (sec : bool) (gb : option (list Z)) : res (bool * option paxcfg) :=
  match gb with
  | None => Ok (false, None)
  | Some g =>
      if negb (0 <? len g) || negb (has_magic g) || negb (6 <=? len g) then Ok (false, None) else
      do p <- decode (pax_bytes g) 0 (len (pax_bytes g)); use_pax sec p
  end.
