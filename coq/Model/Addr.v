(* C17 - executable model of the LLCP address table of nfc.llcp.llc.LogicalLinkController
   (src/nfc/llcp/llc.py, tco.py) and of two controllers joined by an in-order reliable link.

   Faithful to the code including the repairs of this property (fixes/c17-*.diff):
     - ServiceAccessPoint.remove_socket drops the service names of a SAP that becomes empty
     - _bind_by_name refuses a well-known name whose fixed address is occupied (EADDRINUSE)
   and of C09/C10 in the same functions (close() of a socket whose SAP is gone is a plain close, accept() without
   SAP raises EPIPE, SDRES only while 4 octets of MIU budget are left).
   Still as in the code: the 17th named bind raises EADDRNOTAVAIL (known finding).

   Scope / abstractions (each is checked by the correspondence run or stated as assumption):
     - PDUs: UI, CONNECT, CC, DISC, DM, FRMR, SNL.  MIU/RW parameters of CONNECT/CC are the
       constants 128/1 (no setsockopt on connection sockets), so they are not carried.
     - no I/RR/RNR traffic (C05 covers data transfer on connections).
     - a blocking call whose wait() is reached is a *pending* call of that socket (one
       application thread per socket); it is completed by the dispatch that wakes it.
     - collect() is abstracted to "one PDU is taken from SAP [addr] with MIU budget [miu]";
       which SAP is visited when is an input (XXfer), so theorems hold for every collect order.
     - link MIU 248 both ways, no encryption.  Definitions only. *)
From Coq Require Import ZArith List Bool.
From NV Require Import Base.Result Base.Bytes Base.PyPrims.
Import ListNotations.
Open Scope Z_scope.

(* ---------------------------------------------------------------- errno (Linux) *)
Definition EBADF := 9. Definition EAGAIN := 11. Definition EACCES := 13. Definition EFAULT := 14.
Definition EINVAL := 22. Definition EPIPE := 32. Definition ENOTSOCK := 88.
Definition EDESTADDRREQ := 89. Definition EMSGSIZE := 90. Definition EOPNOTSUPP := 95.
Definition EADDRINUSE := 98. Definition EADDRNOTAVAIL := 99. Definition EISCONN := 106.
Definition ENOTCONN := 107. Definition ESHUTDOWN := 108. Definition ECONNREFUSED := 111.
Definition EALREADY := 114.
Definition link_miu := 248.

(* ---------------------------------------------------------------- names *)
Definition name := list Z.
Definition name_eqb (a b : name) : bool := list_eqb a b.

(* "urn:nfc:" *)
Definition urn_nfc : name := [117; 114; 110; 58; 110; 102; 99; 58].
Definition sn_colon : name := [115; 110; 58].                       (* "sn:" *)
Definition name_sdp : name := urn_nfc ++ sn_colon ++ [115; 100; 112].         (* urn:nfc:sn:sdp *)
Definition name_snep : name := urn_nfc ++ sn_colon ++ [115; 110; 101; 112].   (* urn:nfc:sn:snep *)

Definition is_alpha (c : Z) : bool := ((65 <=? c) && (c <=? 90)) || ((97 <=? c) && (c <=? 122)).
Definition is_digit (c : Z) : bool := (48 <=? c) && (c <=? 57).
(* [a-zA-Z0-9-_:\.] *)
Definition is_namechar (c : Z) : bool :=
  is_alpha c || is_digit c || (c =? 45) || (c =? 95) || (c =? 58) || (c =? 46).

Fixpoint strip_prefix (p l : list Z) : option (list Z) :=
  match p, l with
  | [], _ => Some l
  | x :: p', y :: l' => if x =? y then strip_prefix p' l' else None
  | _ :: _, [] => None
  end.

(* [a-zA-Z0-9-_:\.]*$  -- Python's '$' also matches before one trailing newline *)
Fixpoint tail_ok (l : list Z) : bool :=
  match l with
  | [] => true
  | [c] => is_namechar c || (c =? 10)
  | c :: l' => is_namechar c && tail_ok l'
  end.

(* re.compile(b"^urn:nfc:[x]?sn:[a-zA-Z][a-zA-Z0-9-_:\\.]*$").match(name) *)
Definition name_valid (n : name) : bool :=
  match strip_prefix urn_nfc n with
  | None => false
  | Some r =>
    let r' := match r with 120 :: t => t | _ => r end in
    match strip_prefix sn_colon r' with
    | None => false
    | Some (c :: t) => is_alpha c && tail_ok t
    | Some [] => false
    end
  end.

(* wks_map *)
Definition wks (n : name) : option Z :=
  if name_eqb n name_sdp then Some 1 else if name_eqb n name_snep then Some 4 else None.

(* ---------------------------------------------------------------- PDUs *)
Inductive pdu :=
| PUI (d s : Z) (data : list Z)
| PConnect (d s : Z) (sn : option name)
| PCC (d s : Z)
| PDisc (d s : Z)
| PDM (d s r : Z)
| PFrmr (d s flags ptype : Z)
| PSnl (sdreq : list (Z * name)) (sdres : list (Z * Z)).

Definition pdu_dsap (p : pdu) : Z :=
  match p with PUI d _ _ | PConnect d _ _ | PCC d _ | PDisc d _ | PDM d _ _ | PFrmr d _ _ _ => d | PSnl _ _ => 1 end.
Definition pdu_ssap (p : pdu) : Z :=
  match p with PUI _ s _ | PConnect _ s _ | PCC _ s | PDisc _ s | PDM _ s _ | PFrmr _ s _ _ => s | PSnl _ _ => 1 end.
Definition pdu_ptype (p : pdu) : Z :=
  match p with PUI _ _ _ => 3 | PConnect _ _ _ => 4 | PDisc _ _ => 5 | PCC _ _ => 6 | PDM _ _ _ => 7
             | PFrmr _ _ _ _ => 8 | PSnl _ _ => 9 end.
(* size of the information field: len(pdu) - header_size *)
Definition pdu_isize (p : pdu) : Z :=
  match p with
  | PUI _ _ data => len data
  | PConnect _ _ None => 0
  | PConnect _ _ (Some n) => 2 + len n
  | PCC _ _ | PDisc _ _ => 0
  | PDM _ _ _ => 1
  | PFrmr _ _ _ _ => 4
  | PSnl rq rs => 4 * len rs + fold_left (fun acc x => acc + 3 + len (snd x)) rq 0
  end.
(* tco.DataLinkConnection.DLC_PDU_NAMES (I/RR/RNR are not in the model) *)
Definition is_dlc_pdu (p : pdu) : bool :=
  match p with PConnect _ _ _ | PCC _ _ | PDisc _ _ | PDM _ _ _ | PFrmr _ _ _ _ => true | _ => false end.
Definition is_connect (p : pdu) : bool := match p with PConnect _ _ _ => true | _ => false end.
(* Connect.encode omits an empty service name: what the peer decodes *)
Definition norm_sn (n : name) : option name := match n with [] => None | _ => Some n end.

(* ---------------------------------------------------------------- sockets *)
Inductive stype := TRaw | TLdl | TDlc.
Inductive sstate := StShutdown | StClosed | StListen | StConnect | StEstablished | StDisconnect | StCloseWait.
Inductive pend := PdNone | PdConnect | PdClose.

Definition stype_eqb (a b : stype) : bool :=
  match a, b with TRaw, TRaw | TLdl, TLdl | TDlc, TDlc => true | _, _ => false end.
Definition sstate_eqb (a b : sstate) : bool :=
  match a, b with
  | StShutdown, StShutdown | StClosed, StClosed | StListen, StListen | StConnect, StConnect
  | StEstablished, StEstablished | StDisconnect, StDisconnect | StCloseWait, StCloseWait => true
  | _, _ => false end.

Record sock := mkSock {
  s_type : stype; s_state : sstate; s_addr : option Z; s_peer : option Z;
  s_rbuf : Z; s_recvq : list pdu; s_sendq : list pdu; s_pend : pend;
  s_bname : option name }.   (* history variable (not in the code): the service name this socket was bound under *)

Definition new_sock (t : stype) : sock :=
  mkSock t (match t with TDlc => StClosed | _ => StEstablished end) None None 1 [] [] PdNone None.

Definition set_state (s : sock) (st : sstate) : sock :=
  mkSock (s_type s) st (s_addr s) (s_peer s) (s_rbuf s) (s_recvq s) (s_sendq s) (s_pend s) (s_bname s).
Definition set_addr (s : sock) (a : option Z) : sock :=
  mkSock (s_type s) (s_state s) a (s_peer s) (s_rbuf s) (s_recvq s) (s_sendq s) (s_pend s) (s_bname s).
Definition set_peer (s : sock) (p : option Z) : sock :=
  mkSock (s_type s) (s_state s) (s_addr s) p (s_rbuf s) (s_recvq s) (s_sendq s) (s_pend s) (s_bname s).
Definition set_rbuf (s : sock) (v : Z) : sock :=
  mkSock (s_type s) (s_state s) (s_addr s) (s_peer s) v (s_recvq s) (s_sendq s) (s_pend s) (s_bname s).
Definition set_recvq (s : sock) (q : list pdu) : sock :=
  mkSock (s_type s) (s_state s) (s_addr s) (s_peer s) (s_rbuf s) q (s_sendq s) (s_pend s) (s_bname s).
Definition set_sendq (s : sock) (q : list pdu) : sock :=
  mkSock (s_type s) (s_state s) (s_addr s) (s_peer s) (s_rbuf s) (s_recvq s) q (s_pend s) (s_bname s).
Definition set_pend (s : sock) (p : pend) : sock :=
  mkSock (s_type s) (s_state s) (s_addr s) (s_peer s) (s_rbuf s) (s_recvq s) (s_sendq s) p (s_bname s).
Definition set_bname (s : sock) (n : option name) : sock :=
  mkSock (s_type s) (s_state s) (s_addr s) (s_peer s) (s_rbuf s) (s_recvq s) (s_sendq s) (s_pend s) n.

(* TransmissionControlObject.close: queues cleared, state SHUTDOWN *)
Definition base_close (s : sock) : sock := set_state (set_sendq (set_recvq s []) []) StShutdown.

(* ---------------------------------------------------------------- controller *)
Inductive sapent :=
| SapNone                                            (* self.sap[a] is None *)
| SapSD                                              (* ServiceDiscovery (address 1) *)
| Sap (socks : list nat) (sendl : list pdu).         (* ServiceAccessPoint: sock_list, send_list *)

Record ctl := mkCtl {
  c_sap : list sapent;                 (* 64 slots *)
  c_snl : list (name * Z);             (* llc.snl : service name -> address *)
  c_socks : list sock;                 (* every socket object created on this controller, by id *)
  sd_cache : list (name * Z);          (* ServiceDiscovery.snl : remote name cache *)
  sd_tids : list Z;
  sd_sent : list (Z * name);
  sd_sdreq : list (Z * name);
  sd_sdres : list (Z * Z);
  sd_dmpdu : list pdu;
  sd_wait : list name;                 (* resolve() calls blocked in resp.wait(), oldest first *)
  c_enq_blocks : bool }.               (* which code this is (constant of a history, told by the harness from the source):
                                          true  = DataLinkConnection.enqueue calls close() for a non connection-mode PDU in
                                                  every state (in state ESTABLISHED the link thread then waits for a DM)
                                          false = as repaired by fixes/c07-7: in state ESTABLISHED only the FRMR is queued *)

Definition set_sap (c : ctl) (t : list sapent) : ctl :=
  mkCtl t (c_snl c) (c_socks c) (sd_cache c) (sd_tids c) (sd_sent c) (sd_sdreq c) (sd_sdres c) (sd_dmpdu c) (sd_wait c) (c_enq_blocks c).
Definition set_snl (c : ctl) (n : list (name * Z)) : ctl :=
  mkCtl (c_sap c) n (c_socks c) (sd_cache c) (sd_tids c) (sd_sent c) (sd_sdreq c) (sd_sdres c) (sd_dmpdu c) (sd_wait c) (c_enq_blocks c).
Definition set_socks (c : ctl) (l : list sock) : ctl :=
  mkCtl (c_sap c) (c_snl c) l (sd_cache c) (sd_tids c) (sd_sent c) (sd_sdreq c) (sd_sdres c) (sd_dmpdu c) (sd_wait c) (c_enq_blocks c).
Definition set_dmpdu (c : ctl) (l : list pdu) : ctl :=
  mkCtl (c_sap c) (c_snl c) (c_socks c) (sd_cache c) (sd_tids c) (sd_sent c) (sd_sdreq c) (sd_sdres c) l (sd_wait c) (c_enq_blocks c).

Definition init_sap : list sapent := Sap [] [] :: SapSD :: repeat SapNone 62.
Definition init_ctl (blocks : bool) : ctl :=
  mkCtl init_sap [(name_sdp, 1)] [] [] (zrange 0 256) [] [] [] [] [] blocks.

Fixpoint lookup {V} (l : list (name * V)) (n : name) : option V :=
  match l with [] => None | (k, v) :: t => if name_eqb k n then Some v else lookup t n end.
Fixpoint zlookup {V} (l : list (Z * V)) (k : Z) : option V :=
  match l with [] => None | (k', v) :: t => if k' =? k then Some v else zlookup t k end.
(* dict assignment d[k] = v *)
Fixpoint assign {V} (l : list (name * V)) (n : name) (v : V) : list (name * V) :=
  match l with
  | [] => [(n, v)]
  | (k, w) :: t => if name_eqb k n then (k, v) :: t else (k, w) :: assign t n v
  end.
Fixpoint zassign {V} (l : list (Z * V)) (k : Z) (v : V) : list (Z * V) :=
  match l with
  | [] => [(k, v)]
  | (k', w) :: t => if k' =? k then (k', v) :: t else (k', w) :: zassign t k v
  end.

Fixpoint upd_nth {A} (l : list A) (i : nat) (x : A) : list A :=
  match l, i with
  | [], _ => []
  | _ :: t, O => x :: t
  | h :: t, S i' => h :: upd_nth t i' x
  end.

Definition in_range (a : Z) : bool := (0 <=? a) && (a <? 64).
Definition sap_get (c : ctl) (a : Z) : sapent :=
  if in_range a then nth (Z.to_nat a) (c_sap c) SapNone else SapNone.
Definition sap_set (c : ctl) (a : Z) (e : sapent) : ctl :=
  if in_range a then set_sap c (upd_nth (c_sap c) (Z.to_nat a) e) else c.
Definition is_free (c : ctl) (a : Z) : bool := match sap_get c a with SapNone => true | _ => false end.

Definition get_sock (c : ctl) (i : nat) : option sock := nth_error (c_socks c) i.
Definition put_sock (c : ctl) (i : nat) (s : sock) : ctl := set_socks c (upd_nth (c_socks c) i s).

(* self.sap[lo:hi].index(None) *)
Fixpoint first_free (c : ctl) (l : list Z) : option Z :=
  match l with [] => None | a :: t => if is_free c a then Some a else first_free c t end.

(* ---------------------------------------------------------------- results of API calls *)
Inductive event :=
| EvEnq (i : nat) (p : pdu)                    (* p appended to the receive queue of socket i *)
| EvConnDone (i : nat) (r : option Z)          (* pending connect() returned (None) / raised errno *)
| EvCloseDone (i : nat)                        (* pending close() returned *)
| EvResolved (n : name) (v : Z).               (* pending resolve(n) returned v *)

Inductive out :=
| OUnit
| OSock (i : nat)                              (* new socket id *)
| OBool (b : bool)
| OVal (v : Z)
| ODgram (data : list Z) (ssap : Z)            (* recvfrom on a logical data link *)
| ORaw (p : pdu)                               (* recvfrom on a raw access point: (pdu, None) *)
| ONoneFrom (peer : option Z)                  (* recvfrom on a connection that was disconnected *)
| OPending                                     (* the call reached wait(); it completes in a later dispatch *)
| OBlock                                       (* the call would wait and nothing could wake it: not issued *)
| OBusy                                        (* socket's thread is inside a pending call: not issued *)
| OUnmodelled                                  (* outside the model: never issued by the harness *)
| OXfer (p : option pdu) (evs : list event).

Definition R := (ctl * res out)%type.
Definition ok (c : ctl) (o : out) : R := (c, Ok o).
Definition llerr (c : ctl) (e : Z) : R := (c, Err (LlcpError e)).
Definition crash (c : ctl) (k : Base.Result.crash) : R := (c, Crash k).

(* ---------------------------------------------------------------- bind *)
Inductive bindarg := BNone | BAddr (a : Z) | BName (n : name) | BBad.

(* socket.bind(addr); self.sap[addr] = ServiceAccessPoint(addr, self); self.sap[addr].insert_socket(socket) *)
Definition place (c : ctl) (i : nat) (s : sock) (a : Z) : ctl :=
  sap_set (put_sock c i (set_addr s (Some a))) a (Sap [i] []).

Definition bind_none (c : ctl) (i : nat) (s : sock) : ctl * option Z :=
  match first_free c (zrange 32 64) with
  | None => (c, None)
  | Some a => (place c i s a, Some a)
  end.

Definition bind_addr (c : ctl) (i : nat) (s : sock) (a : Z) : R :=
  if (a <? 0) || (63 <? a) then llerr c EFAULT else
  if ((32 <=? a) && (a <=? 63)) || stype_eqb (s_type s) TRaw then
    if is_free c a then ok (place c i s a) OUnit else llerr c EADDRINUSE
  else llerr c EACCES.

Definition bind_name (c : ctl) (i : nat) (s : sock) (n : name) : R :=
  if negb (name_valid n) then llerr c EFAULT else
  match lookup (c_snl c) n with
  | Some _ => llerr c EADDRINUSE
  | None =>
    match wks n with
    | Some a =>
      if is_free c a then ok (set_snl (place c i (set_bname s (Some n)) a) (c_snl c ++ [(n, a)])) OUnit
      else llerr c EADDRINUSE                                   (* fixes/c17-wks-bind-occupied.diff *)
    | None =>
      match first_free c (zrange 16 32) with
      | None => llerr c EADDRNOTAVAIL
      | Some a => ok (set_snl (place c i (set_bname s (Some n)) a) (c_snl c ++ [(n, a)])) OUnit
      end
    end
  end.

Definition do_bind (c : ctl) (i : nat) (arg : bindarg) : R :=
  match get_sock c i with
  | None => llerr c ENOTSOCK
  | Some s =>
    match s_addr s with
    | Some _ => llerr c EINVAL
    | None =>
      match arg with
      | BNone => match bind_none c i s with (c', Some _) => ok c' OUnit | (c', None) => llerr c' EAGAIN end
      | BAddr a => bind_addr c i s a
      | BName n => bind_name c i s n
      | BBad => llerr c EFAULT
      end
    end
  end.

(* "if not socket.is_bound: self.bind(socket)" in connect/listen/sendto; result: new state, socket, or EAGAIN *)
Definition autobind (c : ctl) (i : nat) (s : sock) : ctl * option sock :=
  match s_addr s with
  | Some _ => (c, Some s)
  | None => match bind_none c i s with
            | (c', Some a) => (c', Some (set_addr s (Some a)))
            | (c', None) => (c', None)
            end
  end.

(* ---------------------------------------------------------------- close *)
(* DataLinkConnection.close / TransmissionControlObject.close on the socket object.
   None: the call waits for the DM answer (state DISCONNECT, DISC queued). *)
Definition sock_close (s : sock) : option sock :=
  match s_type s with
  | TDlc =>
    if sstate_eqb (s_state s) StEstablished && (match s_addr s with Some _ => true | None => false end) then
      let s1 := set_sendq (set_state s StDisconnect)
                  (s_sendq s ++ [PDisc (match s_peer s with Some p => p | None => 0 end)
                                       (match s_addr s with Some a => a | None => 0 end)]) in
      match s_recvq s1 with
      | [] => None
      | _ :: _ => Some (base_close s1)
      end
    else Some (base_close s)
  | _ => Some (base_close s)
  end.
(* state of the socket while its close() waits *)
Definition sock_close_wait (s : sock) : sock :=
  set_pend (set_sendq (set_state s StDisconnect)
     (s_sendq s ++ [PDisc (match s_peer s with Some p => p | None => 0 end)
                          (match s_addr s with Some a => a | None => 0 end)])) PdClose.

Fixpoint remove_id (l : list nat) (i : nat) : list nat :=
  match l with [] => [] | x :: t => if Nat.eqb x i then t else x :: remove_id t i end.

(* tail of ServiceAccessPoint.remove_socket: sock_list.remove(socket); empty -> sap[addr] = None
   and (fixes/c17-name-survives-socket.diff) the names bound to addr are dropped *)
Definition sap_remove (c : ctl) (a : Z) (i : nat) : ctl :=
  match sap_get c a with
  | Sap l sl =>
    match remove_id l i with
    | [] => set_snl (sap_set c a SapNone) (filter (fun kv => negb (snd kv =? a)) (c_snl c))
    | l' => sap_set c a (Sap l' sl)
    end
  | _ => c
  end.

Definition do_close (c : ctl) (i : nat) : R :=
  match get_sock c i with
  | None => llerr c ENOTSOCK
  | Some s =>
    match s_pend s with
    | PdNone =>
      match s_addr s with
      | None => match sock_close s with
                | Some s' => ok (put_sock c i s') OUnit
                | None => (c, Hang)            (* unreachable: an unbound socket never waits in close *)
                end
      | Some a =>
        match sap_get c a with
        | Sap _ _ =>
          match sock_close s with
          | Some s' => ok (sap_remove (put_sock c i s') a i) OUnit
          | None => ok (put_sock c i (sock_close_wait s)) OPending
          end
        | _ =>
          (* the service access point is already gone (the socket was closed before): plain socket.close() *)
          match sock_close s with
          | Some s' => ok (put_sock c i s') OUnit
          | None => ok (put_sock c i (sock_close_wait s)) OPending   (* unreachable: an open bound socket is in its SAP *)
          end
        end
      end
    | _ => ok c OBusy
    end
  end.

(* ---------------------------------------------------------------- socket / listen / accept / connect *)
Definition do_socket (c : ctl) (t : stype) : R :=
  ok (set_socks c (c_socks c ++ [new_sock t])) (OSock (length (c_socks c))).

Definition do_listen (c : ctl) (i : nat) (backlog : Z) : R :=
  match get_sock c i with
  | None => llerr c ENOTSOCK
  | Some s =>
    match s_pend s with
    | PdNone =>
      match s_type s with
      | TDlc =>
        if backlog <? 0 then (c, Err ValueError) else
        match autobind c i s with
        | (c', None) => llerr c' EAGAIN
        | (c', Some s') =>
          match s_state s' with
          | StShutdown => llerr c' ESHUTDOWN
          | StClosed => ok (put_sock c' i (set_rbuf (set_state s' StListen) (Z.min backlog 16))) OUnit
          | _ => llerr c' EOPNOTSUPP       (* errno.ENOTSUP == EOPNOTSUPP on Linux *)
          end
        end
      | _ => llerr c EOPNOTSUPP
      end
    | _ => ok c OBusy
    end
  end.

(* ServiceAccessPoint.insert_socket of a new socket id j of type t *)
Definition sap_insert (c : ctl) (a : Z) (j : nat) (t : stype) : option ctl :=
  match sap_get c a with
  | Sap l sl =>
    let insertable := match l with
                      | [] => true
                      | h :: _ => match get_sock c h with Some sh => stype_eqb (s_type sh) t | None => false end
                      end in
    Some (if insertable then sap_set c a (Sap (j :: l) sl) else c)
  | _ => None
  end.

Definition do_accept (c : ctl) (i : nat) : R :=
  match get_sock c i with
  | None => llerr c ENOTSOCK
  | Some s =>
    match s_pend s with
    | PdNone =>
      match s_type s with
      | TDlc =>
        match s_state s with
        | StShutdown => llerr c ESHUTDOWN
        | StListen =>
          match s_recvq s with
          | [] => ok c OBlock
          | PConnect _ ssap _ :: q =>
            let j := length (c_socks c) in
            let client := mkSock TDlc StEstablished (s_addr s) (Some ssap) 1 [] [] PdNone None in
            let cc := PCC ssap (match s_addr s with Some a => a | None => 0 end) in
            let c1 := put_sock c i (set_sendq (set_recvq s q) (s_sendq s ++ [cc])) in
            let c2 := set_socks c1 (c_socks c1 ++ [client]) in
            (* "sap = None if client.addr is None else self.sap[client.addr]"; no SAP: the new socket is
               closed and dropped, EPIPE (unreachable: a listening socket is in its SAP) *)
            match s_addr s with
            | None => llerr c1 EPIPE
            | Some a => match sap_insert c2 a j TDlc with
                        | Some c3 => ok c3 (OSock j)
                        | None => llerr c1 EPIPE
                        end
            end
          | _ :: q => (put_sock c i (set_recvq s q), Err RuntimeErr)
          end
        | _ => llerr c EINVAL
        end
      | _ => llerr c EOPNOTSUPP
      end
    | _ => ok c OBusy
    end
  end.

Inductive dest := DAddr (a : Z) | DName (n : name).

Definition do_connect (c : ctl) (i : nat) (d : dest) : R :=
  match get_sock c i with
  | None => llerr c ENOTSOCK
  | Some s =>
    match s_pend s with
    | PdNone =>
      match autobind c i s with
      | (c', None) => llerr c' EAGAIN
      | (c', Some s') =>
        match s_type s' with
        | TRaw => crash c' AttributeErr               (* RawAccessPoint has no connect() *)
        | TLdl =>
          match s_state s' with
          | StShutdown => llerr c' ESHUTDOWN
          | _ => match d with
                 | DAddr a => ok (put_sock c' i (set_peer s' (Some a))) OUnit
                 | DName _ => crash c' TypeErr         (* self.peer > 0 with a bytes peer *)
                 end
          end
        | TDlc =>
          match s_state s' with
          | StClosed =>
            let a := match s_addr s' with Some a => a | None => 0 end in
            let p := match d with DAddr dd => PConnect dd a None | DName n => PConnect 1 a (norm_sn n) end in
            let s2 := set_sendq (set_state s' StConnect) (s_sendq s' ++ [p]) in
            match s_recvq s2 with
            | [] => ok (put_sock c' i (set_pend s2 PdConnect)) OPending
            | _ :: _ => ok (put_sock c' i s2) OUnmodelled   (* unreachable: a CLOSED connection has no queued PDU *)
            end
          | StEstablished => llerr c' EISCONN
          | StConnect => llerr c' EALREADY
          | _ => llerr c' EPIPE
          end
        end
      end
    | _ => ok c OBusy
    end
  end.

(* ---------------------------------------------------------------- sendto / recvfrom / setsockopt *)
Definition do_sendto (c : ctl) (i : nat) (msg : list Z) (d : Z) : R :=
  match get_sock c i with
  | None => llerr c ENOTSOCK
  | Some s =>
    match s_pend s with
    | PdNone =>
      match s_type s with
      | TRaw => crash c TypeErr
      | TLdl =>
        match autobind c i s with
        | (c', None) => llerr c' EAGAIN
        | (c', Some s') =>
          match s_state s' with
          | StShutdown => llerr c' ESHUTDOWN
          | _ =>
            let peer_bad := match s_peer s' with Some p => negb (p =? 0) && negb (d =? p) | None => false end in
            if peer_bad then llerr c' EDESTADDRREQ else
            if link_miu <? len msg then llerr c' EMSGSIZE else
            let a := match s_addr s' with Some a => a | None => 0 end in
            ok (put_sock c' i (set_sendq s' (s_sendq s' ++ [PUI d a msg]))) (OBool true)
          end
        end
      | TDlc =>
        match s_state s with
        | StEstablished => ok c OUnmodelled              (* I PDU transfer: C05 *)
        | StCloseWait => llerr c EPIPE
        | _ => llerr c ENOTCONN
        end
      end
    | _ => ok c OBusy
    end
  end.

Definition do_rawsend (c : ctl) (i : nat) (p : pdu) : R :=
  match get_sock c i with
  | None => llerr c ENOTSOCK
  | Some s =>
    match s_type s with
    | TRaw =>
      match autobind c i s with
      | (c', None) => llerr c' EAGAIN
      | (c', Some s') =>
        match s_state s' with
        | StShutdown => llerr c' ESHUTDOWN
        | _ => ok (put_sock c' i (set_sendq s' (s_sendq s' ++ [p]))) (OBool true)
        end
      end
    | _ => crash c TypeErr
    end
  end.

Definition do_recvfrom (c : ctl) (i : nat) : R :=
  match get_sock c i with
  | None => llerr c ENOTSOCK
  | Some s =>
    match s_pend s with
    | PdNone =>
      let bound := match s_addr s with
                   | Some a => negb (a =? 0) && negb (is_free c a)
                   | None => false end in
      if negb bound then llerr c EBADF else
      match s_type s with
      | TRaw =>
        match s_state s with
        | StShutdown => llerr c ESHUTDOWN
        | _ => match s_recvq s with
               | [] => ok c OBlock
               | p :: q => ok (put_sock c i (set_recvq s q)) (ORaw p)
               end
        end
      | TLdl =>
        match s_state s with
        | StShutdown => llerr c ESHUTDOWN
        | _ => match s_recvq s with
               | [] => ok c OBlock
               | PUI _ ssap data :: q => ok (put_sock c i (set_recvq s q)) (ODgram data ssap)
               | _ :: q => crash (put_sock c i (set_recvq s q)) AttributeErr    (* unreachable: only UI is enqueued *)
               end
        end
      | TDlc =>
        match s_state s with
        | StEstablished | StCloseWait =>
          match s_recvq s with
          | [] => ok c OBlock
          | PDisc _ _ :: q =>
            (* self.close(): CLOSE_WAIT -> plain close; ESTABLISHED would start a disconnect *)
            match sock_close (set_recvq s q) with
            | Some s' => ok (put_sock c i s') (ONoneFrom (s_peer s))
            | None => (c, Hang)
            end
          | _ :: q => (put_sock c i (set_recvq s q), Err RuntimeErr)
          end
        | _ => llerr c ENOTCONN
        end
      end
    | _ => ok c OBusy
    end
  end.

(* setsockopt(SO_RCVBUF, v) on raw access points and logical data links *)
Definition do_rcvbuf (c : ctl) (i : nat) (v : Z) : R :=
  match get_sock c i with
  | None => llerr c ENOTSOCK
  | Some s =>
    match s_type s with
    | TDlc => ok c OUnmodelled
    | _ => match s_state s with
           | StShutdown => llerr c ESHUTDOWN
           | _ => ok (put_sock c i (set_rbuf s v)) (OVal v)
           end
    end
  end.

(* ---------------------------------------------------------------- service discovery: resolve *)
Fixpoint remove_z (l : list Z) (x : Z) : list Z :=
  match l with [] => [] | y :: t => if y =? x then t else y :: remove_z t x end.

Definition set_sd (c : ctl) cache tids sent sdreq sdres wait : ctl :=
  mkCtl (c_sap c) (c_snl c) (c_socks c) cache tids sent sdreq sdres (sd_dmpdu c) wait (c_enq_blocks c).

(* k: the value random.choice picks is tids[k mod len(tids)] *)
Definition do_resolve (c : ctl) (n : name) (k : Z) : R :=
  match lookup (sd_cache c) n with
  | Some v => ok c (OVal v)
  | None =>
    match sd_tids c with
    | [] => crash c IndexErr
    | t0 :: _ =>
      let tid := nth (Z.to_nat (k mod len (sd_tids c))) (sd_tids c) t0 in
      ok (set_sd c (sd_cache c) (remove_z (sd_tids c) tid) (sd_sent c) (sd_sdreq c ++ [(tid, n)])
                 (sd_sdres c) (sd_wait c ++ [n])) OPending
    end
  end.

(* ---------------------------------------------------------------- collect: one PDU from one SAP *)
(* TransmissionControlObject.dequeue with miu_size (None for raw access points) *)
Definition base_dequeue (s : sock) (miu : option Z) : option (pdu * sock) :=
  match s_sendq s with
  | [] => None
  | p :: q =>
    match miu with
    | Some m => if m <? pdu_isize p then None else Some (p, set_sendq s q)
    | None => Some (p, set_sendq s q)
    end
  end.

Definition sock_dequeue (s : sock) (miu : Z) : option (pdu * sock) :=
  match s_type s with
  | TRaw => base_dequeue s None
  | TLdl => base_dequeue s (Some miu)
  | TDlc =>
    match base_dequeue s (Some miu) with
    | None => None
    | Some (p, s1) =>
      match p with
      | PFrmr _ _ _ _ => Some (p, base_close s1)        (* state SHUTDOWN; close() *)
      | PDM _ _ _ =>
        if sstate_eqb (s_state s1) StCloseWait then
          Some (p, set_recvq s1 (s_recvq s1 ++ [PDisc (match s_peer s1 with Some x => x | None => 0 end)
                                                      (match s_addr s1 with Some x => x | None => 0 end)]))
        else Some (p, s1)
      | _ => Some (p, s1)
      end
    end
  end.

(* ServiceAccessPoint.dequeue: first socket of sock_list that yields a PDU, else send_list *)
Fixpoint socks_dequeue (c : ctl) (l : list nat) (miu : Z) : option (pdu * ctl) :=
  match l with
  | [] => None
  | i :: t =>
    match get_sock c i with
    | None => socks_dequeue c t miu
    | Some s => match sock_dequeue s miu with
                | Some (p, s') => Some (p, put_sock c i s')
                | None => socks_dequeue c t miu
                end
    end
  end.

(* "while miu_size >= 4: sdres.popleft(); miu_size -= 4" *)
Fixpoint take_sdres (l : list (Z * Z)) (miu : Z) (acc : list (Z * Z)) : list (Z * Z) * list (Z * Z) * Z :=
  match l with
  | [] => (acc, [], miu)
  | x :: t => if 4 <=? miu then take_sdres t (miu - 4) (acc ++ [x]) else (acc, l, miu)
  end.
(* "for i in range(len(sdreq)): fits -> take, else rotate(-1)" *)
Fixpoint take_sdreq (n : nat) (q : list (Z * name)) (miu : Z) (acc : list (Z * name)) : list (Z * name) * list (Z * name) :=
  match n with
  | O => (acc, q)
  | S n' =>
    match q with
    | [] => (acc, q)
    | (tid, nm) :: t =>
      if miu <? 3 + len nm then take_sdreq n' (t ++ [(tid, nm)]) miu acc
      else take_sdreq n' t (miu - (3 + len nm)) (acc ++ [(tid, nm)])
    end
  end.
Fixpoint record_sent (sent : list (Z * name)) (l : list (Z * name)) : list (Z * name) :=
  match l with [] => sent | (tid, nm) :: t => record_sent (zassign sent tid nm) t end.

Definition sd_dequeue (c : ctl) (miu : Z) : option (pdu * ctl) :=
  match sd_sdres c, sd_sdreq c with
  | [], [] =>
    match sd_dmpdu c with
    | p :: t => if 0 <? miu then Some (p, set_dmpdu c t) else None
    | [] => None
    end
  | _, _ =>
    let '(rs, rest_rs, miu1) := take_sdres (sd_sdres c) miu [] in
    let '(rq, rest_rq) := take_sdreq (length (sd_sdreq c)) (sd_sdreq c) miu1 [] in
    Some (PSnl rq rs, set_sd c (sd_cache c) (sd_tids c) (record_sent (sd_sent c) rq) rest_rq rest_rs (sd_wait c))
  end.

Definition collect1 (c : ctl) (a : Z) (miu : Z) : option (pdu * ctl) :=
  match sap_get c a with
  | SapNone => None
  | SapSD => sd_dequeue c miu
  | Sap l sl =>
    match socks_dequeue c l miu with
    | Some r => Some r
    | None => match sl with
              | [] => None
              | p :: t => Some (p, sap_set c a (Sap l t))
              end
    end
  end.

(* ---------------------------------------------------------------- dispatch *)
Definition DR := (ctl * res (list event))%type.

(* the part of connect() after the wait *)
Definition finish_connect (c : ctl) (i : nat) (s : sock) : ctl * list event :=
  match s_recvq s with
  | PDM _ _ _ :: q => (put_sock c i (set_pend (set_state (set_recvq s q) StClosed) PdNone), [EvConnDone i (Some ECONNREFUSED)])
  | PCC _ ssap :: q =>
    (put_sock c i (set_pend (set_rbuf (set_state (set_peer (set_recvq s q) (Some ssap)) StEstablished) 1) PdNone),
     [EvConnDone i None])
  | _ => (c, [])      (* unreachable: only CC/DM are enqueued in state CONNECT *)
  end.
(* the part of close() after the wait, then the tail of remove_socket *)
Definition finish_close (c : ctl) (i : nat) (s : sock) : ctl * list event :=
  match s_recvq s with
  | _ :: q =>
    let s' := set_pend (base_close (set_recvq s q)) PdNone in
    let c1 := put_sock c i s' in
    (match s_addr s with Some a => sap_remove c1 a i | None => c1 end, [EvCloseDone i])
  | [] => (c, [])
  end.

(* <type>.enqueue(rcvd_pdu) on socket i *)
Definition sock_enqueue (c : ctl) (i : nat) (s : sock) (p : pdu) : DR :=
  let base (s0 : sock) : option sock :=
    if len (s_recvq s0) <? s_rbuf s0 then Some (set_recvq s0 (s_recvq s0 ++ [p])) else None in
  match s_type s with
  | TRaw => match base s with Some s' => (put_sock c i s', Ok [EvEnq i p]) | None => (c, Ok []) end
  | TLdl =>
    match p with
    | PUI _ _ data =>
      if link_miu <? len data then (c, Ok []) else
      match base s with Some s' => (put_sock c i s', Ok [EvEnq i p]) | None => (c, Ok []) end
    | _ => (c, Ok [])
    end
  | TDlc =>
    if negb (is_dlc_pdu p) then
      let frmr := PFrmr (pdu_ssap p) (pdu_dsap p) 8 (pdu_ptype p) in
      if negb (c_enq_blocks c) && sstate_eqb (s_state s) StEstablished then
        (put_sock c i (set_sendq s [frmr]), Ok [])     (* send_queue.clear(); append(frmr): shut down when the FRMR is dequeued *)
      else
      match sock_close s with
      | None => (c, Hang)                                   (* close() waits inside the run thread *)
      | Some s' =>
        (* close() notifies: a call pending on this socket wakes up and finds the queue empty *)
        let s'' := set_pend (set_sendq s' [frmr]) PdNone in
        match s_pend s with
        | PdNone => (put_sock c i s'', Ok [])
        | PdConnect => (put_sock c i s'', Ok [EvConnDone i (Some EPIPE)])
        | PdClose => let c1 := put_sock c i s'' in
                     (match s_addr s with Some a => sap_remove c1 a i | None => c1 end, Ok [EvCloseDone i])
        end
      end
    else
    match s_state s with
    | StClosed => (put_sock c i (set_sendq s (s_sendq s ++ [PDM (pdu_ssap p) (pdu_dsap p) 1])), Ok [])
    | StListen =>
      if is_connect p then
        match base s with
        | Some s' => (put_sock c i s', Ok [EvEnq i p])
        | None => (put_sock c i (set_sendq s (s_sendq s ++ [PDM (pdu_ssap p) (pdu_dsap p) 32])), Ok [])
        end
      else (c, Ok [])
    | StConnect =>
      match p with
      | PCC _ _ | PDM _ _ _ =>
        let s' := set_recvq s (s_recvq s ++ [p]) in
        match s_pend s with
        | PdConnect => let '(c', evs) := finish_connect c i s' in (c', Ok (EvEnq i p :: evs))
        | _ => (put_sock c i s', Ok [EvEnq i p])
        end
      | _ => (c, Ok [])
      end
    | StDisconnect =>
      match p with
      | PDM _ _ _ =>
        let s' := set_recvq s (s_recvq s ++ [p]) in
        match s_pend s with
        | PdClose => let '(c', evs) := finish_close c i s' in (c', Ok (EvEnq i p :: evs))
        | _ => (put_sock c i s', Ok [EvEnq i p])
        end
      | _ => (c, Ok [])
      end
    | StEstablished =>
      match p with
      | PFrmr _ _ _ _ => (put_sock c i (base_close s), Ok [])
      | PDisc _ _ =>
        (put_sock c i (set_sendq (set_state s StCloseWait)
           [PDM (match s_peer s with Some x => x | None => 0 end) (match s_addr s with Some x => x | None => 0 end) 0]), Ok [])
      | _ => (c, Ok [])
      end
    | _ => (c, Ok [])
    end
  end.

(* ServiceAccessPoint.enqueue: which socket of sock_list gets the PDU *)
Fixpoint pick_sock (c : ctl) (l : list nat) (f : sock -> bool) : option (nat * sock) :=
  match l with
  | [] => None
  | i :: t => match get_sock c i with
              | Some s => if f s then Some (i, s) else pick_sock c t f
              | None => pick_sock c t f
              end
  end.

Definition sap_enqueue (c : ctl) (a : Z) (l : list nat) (sl : list pdu) (p : pdu) : DR :=
  if is_connect p then
    match pick_sock c l (fun s => sstate_eqb (s_state s) StListen) with
    | Some (i, s) => sock_enqueue c i s p
    | None => (sap_set c a (Sap l (sl ++ [PDM (pdu_ssap p) (pdu_dsap p) 2])), Ok [])
    end
  else
    match pick_sock c l (fun s => match s_peer s with None => true | Some x => x =? pdu_ssap p end) with
    | Some (i, s) => sock_enqueue c i s p
    | None => if is_dlc_pdu p
              then (sap_set c a (Sap l (sl ++ [PDM (pdu_ssap p) (pdu_dsap p) 1])), Ok [])
              else (c, Ok [])
    end.

(* ServiceDiscovery.enqueue *)
Fixpoint sd_take_res (cache : list (name * Z)) (tids : list Z) (sent : list (Z * name)) (l : list (Z * Z))
  : list (name * Z) * list Z :=
  match l with
  | [] => (cache, tids)
  | (tid, sap) :: t =>
    match zlookup sent tid with
    | None => sd_take_res cache tids sent t
    | Some nm =>
      let v := if Z.odd (sap / 64) then 1 else sap mod 64 in
      sd_take_res (assign cache nm v) (tids ++ [tid]) sent t
    end
  end.
Definition sd_answers (snl : list (name * Z)) (l : list (Z * name)) : list (Z * Z) :=
  map (fun x => (fst x, match lookup snl (snd x) with Some a => a | None => 0 end)) l.
(* resolve() calls that wake up: the name is now in the cache *)
Fixpoint wake (cache : list (name * Z)) (w : list name) : list event * list name :=
  match w with
  | [] => ([], [])
  | n :: t => let '(evs, rest) := wake cache t in
              match lookup cache n with
              | Some v => (EvResolved n v :: evs, rest)
              | None => (evs, n :: rest)
              end
  end.

Definition sd_enqueue (c : ctl) (p : pdu) : DR :=
  match p with
  | PSnl rq rs =>
    let '(cache, tids) := sd_take_res (sd_cache c) (sd_tids c) (sd_sent c) rs in
    let '(evs, w) := wake cache (sd_wait c) in
    (set_sd c cache tids (sd_sent c) (sd_sdreq c) (sd_sdres c ++ sd_answers (c_snl c) rq) w, Ok evs)
  | _ => (c, Ok [])
  end.

Definition dispatch (c : ctl) (p0 : pdu) : DR :=
  let route (p : pdu) : DR :=
    match sap_get c (pdu_dsap p) with
    | SapNone => (c, Ok [])
    | SapSD => sd_enqueue c p
    | Sap l sl => sap_enqueue c (pdu_dsap p) l sl p
    end in
  match p0 with
  | PConnect 1 ssap sn =>
    let addr := match sn with Some n => lookup (c_snl c) n | None => None end in
    let found := match addr with Some a => negb (a =? 0) && negb (is_free c a) | None => false end in
    if found then route (PConnect (match addr with Some a => a | None => 0 end) ssap None)
    else (set_dmpdu c (sd_dmpdu c ++ [PDM ssap 1 (match sn with None => 16 | Some _ => 2 end)]), Ok [])
  | _ => route p0
  end.

(* ---------------------------------------------------------------- two controllers *)
Inductive side := SA | SB.
Inductive lop :=
| LSocket (t : stype)
| LBind (i : nat) (arg : bindarg)
| LListen (i : nat) (backlog : Z)
| LAccept (i : nat)
| LConnect (i : nat) (d : dest)
| LSendto (i : nat) (msg : list Z) (d : Z)
| LRawsend (i : nat) (p : pdu)
| LRecvfrom (i : nat)
| LRcvbuf (i : nat) (v : Z)
| LResolve (n : name) (k : Z)
| LClose (i : nat)
| LGetsockname (i : nat).

Definition lstep (c : ctl) (o : lop) : R :=
  match o with
  | LSocket t => do_socket c t
  | LBind i arg => do_bind c i arg
  | LListen i b => do_listen c i b
  | LAccept i => do_accept c i
  | LConnect i d => do_connect c i d
  | LSendto i m d => do_sendto c i m d
  | LRawsend i p => do_rawsend c i p
  | LRecvfrom i => do_recvfrom c i
  | LRcvbuf i v => do_rcvbuf c i v
  | LResolve n k => do_resolve c n k
  | LClose i => do_close c i
  | LGetsockname i => match get_sock c i with
                      | None => llerr c ENOTSOCK
                      | Some s => ok c (match s_addr s with Some a => OVal a | None => OUnit end)
                      end
  end.

Inductive op :=
| XLoc (sd : side) (o : lop)
| XXfer (from : side) (a : Z) (miu : Z).     (* collect one PDU at SAP a of [from], dispatch it at the peer *)

Definition sys := (ctl * ctl)%type.
Definition init_sys (blocks : bool) : sys := (init_ctl blocks, init_ctl blocks).
Definition get_side (st : sys) (sd : side) : ctl := match sd with SA => fst st | SB => snd st end.
Definition set_side (st : sys) (sd : side) (c : ctl) : sys :=
  match sd with SA => (c, snd st) | SB => (fst st, c) end.
Definition other (sd : side) : side := match sd with SA => SB | SB => SA end.

Definition step (st : sys) (o : op) : sys * res out :=
  match o with
  | XLoc sd lo => let '(c', r) := lstep (get_side st sd) lo in (set_side st sd c', r)
  | XXfer from a miu =>
    match collect1 (get_side st from) a miu with
    | None => (st, Ok (OXfer None []))
    | Some (p, c1) =>
      let st1 := set_side st from c1 in
      let '(c2, r) := dispatch (get_side st1 (other from)) p in
      (set_side st1 (other from) c2,
       match r with Ok evs => Ok (OXfer (Some p) evs) | Err e => Err e | Crash k => Crash k | Hang => Hang end)
    end
  end.

(* a history: runs until the first crash/hang (the Python thread is gone then); errors are results *)
Fixpoint run (st : sys) (ops : list op) : sys * list (res out) :=
  match ops with
  | [] => (st, [])
  | o :: t =>
    let '(st', r) := step st o in
    match r with
    | Crash _ | Hang => (st', [r])
    | _ => let '(st'', rs) := run st' t in (st'', r :: rs)
    end
  end.
Definition final (blocks : bool) (ops : list op) : sys := fst (run (init_sys blocks) ops).
