(* DES and two-key triple-DES in CBC mode, written from FIPS PUB 46-3 (tables IP, IP^-1, E, P,
   S1..S8, PC-1, PC-2, shift schedule) and FIPS 81 (CBC).  Blocks are lists of 64 booleans,
   most significant bit first (FIPS bit 1 = head of the list); byte strings are lists of Z.
   Definitions only.  Validated inside Coq against known-answer vectors (Proofs/DesKat.v) and
   against pyDes - the implementation nfcpy calls - in the harness. *)
From Coq Require Import ZArith List Bool.
Import ListNotations.
Open Scope Z_scope.

(* ---- bits <-> bytes ---------------------------------------------------------------- *)
Definition byte_bits (b : Z) : list bool :=
  [Z.testbit b 7; Z.testbit b 6; Z.testbit b 5; Z.testbit b 4;
   Z.testbit b 3; Z.testbit b 2; Z.testbit b 1; Z.testbit b 0].
Definition bits_of_bytes (l : list Z) : list bool := flat_map byte_bits l.

Definition bit_val (b : bool) : Z := if b then 1 else 0.
Definition bits_val (l : list bool) : Z := fold_left (fun a b => 2 * a + bit_val b) l 0.
Fixpoint bytes_of_bits (l : list bool) : list Z :=
  match l with
  | a :: b :: c :: d :: e :: f :: g :: h :: r => bits_val [a; b; c; d; e; f; g; h] :: bytes_of_bits r
  | _ => []
  end.

Fixpoint xor_bits (a b : list bool) : list bool :=
  match a, b with
  | x :: a', y :: b' => xorb x y :: xor_bits a' b'
  | _, _ => []
  end.

(* FIPS tables are 1-based *)
Definition permute (tbl : list nat) (bits : list bool) : list bool :=
  map (fun i => nth (pred i) bits false) tbl.

(* ---- tables (FIPS 46-3) --------------------------------------------------------------- *)
Definition IP : list nat :=
  [58;50;42;34;26;18;10;2; 60;52;44;36;28;20;12;4; 62;54;46;38;30;22;14;6; 64;56;48;40;32;24;16;8;
   57;49;41;33;25;17;9;1; 59;51;43;35;27;19;11;3; 61;53;45;37;29;21;13;5; 63;55;47;39;31;23;15;7]%nat.
Definition FP : list nat :=
  [40;8;48;16;56;24;64;32; 39;7;47;15;55;23;63;31; 38;6;46;14;54;22;62;30; 37;5;45;13;53;21;61;29;
   36;4;44;12;52;20;60;28; 35;3;43;11;51;19;59;27; 34;2;42;10;50;18;58;26; 33;1;41;9;49;17;57;25]%nat.
Definition E : list nat :=
  [32;1;2;3;4;5; 4;5;6;7;8;9; 8;9;10;11;12;13; 12;13;14;15;16;17;
   16;17;18;19;20;21; 20;21;22;23;24;25; 24;25;26;27;28;29; 28;29;30;31;32;1]%nat.
Definition P : list nat :=
  [16;7;20;21;29;12;28;17; 1;15;23;26;5;18;31;10; 2;8;24;14;32;27;3;9; 19;13;30;6;22;11;4;25]%nat.
Definition PC1 : list nat :=
  [57;49;41;33;25;17;9; 1;58;50;42;34;26;18; 10;2;59;51;43;35;27; 19;11;3;60;52;44;36;
   63;55;47;39;31;23;15; 7;62;54;46;38;30;22; 14;6;61;53;45;37;29; 21;13;5;28;20;12;4]%nat.
Definition PC2 : list nat :=
  [14;17;11;24;1;5; 3;28;15;6;21;10; 23;19;12;4;26;8; 16;7;27;20;13;2;
   41;52;31;37;47;55; 30;40;51;45;33;48; 44;49;39;56;34;53; 46;42;50;36;29;32]%nat.
Definition SHIFTS : list nat := [1;1;2;2;2;2;2;2;1;2;2;2;2;2;2;1]%nat.

Definition S1 : list nat :=
  [14;4;13;1;2;15;11;8;3;10;6;12;5;9;0;7;  0;15;7;4;14;2;13;1;10;6;12;11;9;5;3;8;
   4;1;14;8;13;6;2;11;15;12;9;7;3;10;5;0;  15;12;8;2;4;9;1;7;5;11;3;14;10;0;6;13]%nat.
Definition S2 : list nat :=
  [15;1;8;14;6;11;3;4;9;7;2;13;12;0;5;10;  3;13;4;7;15;2;8;14;12;0;1;10;6;9;11;5;
   0;14;7;11;10;4;13;1;5;8;12;6;9;3;2;15;  13;8;10;1;3;15;4;2;11;6;7;12;0;5;14;9]%nat.
Definition S3 : list nat :=
  [10;0;9;14;6;3;15;5;1;13;12;7;11;4;2;8;  13;7;0;9;3;4;6;10;2;8;5;14;12;11;15;1;
   13;6;4;9;8;15;3;0;11;1;2;12;5;10;14;7;  1;10;13;0;6;9;8;7;4;15;14;3;11;5;2;12]%nat.
Definition S4 : list nat :=
  [7;13;14;3;0;6;9;10;1;2;8;5;11;12;4;15;  13;8;11;5;6;15;0;3;4;7;2;12;1;10;14;9;
   10;6;9;0;12;11;7;13;15;1;3;14;5;2;8;4;  3;15;0;6;10;1;13;8;9;4;5;11;12;7;2;14]%nat.
Definition S5 : list nat :=
  [2;12;4;1;7;10;11;6;8;5;3;15;13;0;14;9;  14;11;2;12;4;7;13;1;5;0;15;10;3;9;8;6;
   4;2;1;11;10;13;7;8;15;9;12;5;6;3;0;14;  11;8;12;7;1;14;2;13;6;15;0;9;10;4;5;3]%nat.
Definition S6 : list nat :=
  [12;1;10;15;9;2;6;8;0;13;3;4;14;7;5;11;  10;15;4;2;7;12;9;5;6;1;13;14;0;11;3;8;
   9;14;15;5;2;8;12;3;7;0;4;10;1;13;11;6;  4;3;2;12;9;5;15;10;11;14;1;7;6;0;8;13]%nat.
Definition S7 : list nat :=
  [4;11;2;14;15;0;8;13;3;12;9;7;5;10;6;1;  13;0;11;7;4;9;1;10;14;3;5;12;2;15;8;6;
   1;4;11;13;12;3;7;14;10;15;6;8;0;5;9;2;  6;11;13;8;1;4;10;7;9;5;0;15;14;2;3;12]%nat.
Definition S8 : list nat :=
  [13;2;8;4;6;15;11;1;10;9;3;14;5;0;12;7;  1;15;13;8;10;3;7;4;12;5;6;11;0;14;9;2;
   7;11;4;1;9;12;14;2;0;6;10;13;15;3;5;8;  2;1;14;7;4;10;8;13;15;12;9;0;3;5;6;11]%nat.
Definition SBOXES : list (list nat) := [S1; S2; S3; S4; S5; S6; S7; S8].

(* ---- key schedule -------------------------------------------------------------------- *)
Definition rotl {A} (n : nat) (l : list A) : list A := skipn n l ++ firstn n l.

Fixpoint schedule (shifts : list nat) (c d : list bool) : list (list bool) :=
  match shifts with
  | [] => []
  | s :: r => let c' := rotl s c in let d' := rotl s d in
              permute PC2 (c' ++ d') :: schedule r c' d'
  end.

(* 16 round keys of 48 bits from a 64-bit key (parity bits 8,16,..,64 are not selected by PC-1) *)
Definition key_schedule (key : list bool) : list (list bool) :=
  let cd := permute PC1 key in schedule SHIFTS (firstn 28 cd) (skipn 28 cd).

(* ---- round function -------------------------------------------------------------------- *)
Definition nat_bits4 (v : nat) : list bool :=
  [Nat.testbit v 3; Nat.testbit v 2; Nat.testbit v 1; Nat.testbit v 0].
Definition b2n (b : bool) (w : nat) : nat := if b then w else O.

(* row = b1 b6, column = b2 b3 b4 b5 *)
Definition sbox (tbl : list nat) (b1 b2 b3 b4 b5 b6 : bool) : list bool :=
  nat_bits4 (nth (b2n b1 32 + b2n b6 16 + b2n b2 8 + b2n b3 4 + b2n b4 2 + b2n b5 1)%nat tbl O).

Fixpoint sboxes (tbls : list (list nat)) (bits : list bool) : list bool :=
  match tbls, bits with
  | t :: tr, b1 :: b2 :: b3 :: b4 :: b5 :: b6 :: r => sbox t b1 b2 b3 b4 b5 b6 ++ sboxes tr r
  | _, _ => []
  end.

Definition feistel (r k : list bool) : list bool :=
  permute P (sboxes SBOXES (xor_bits (permute E r) k)).

Fixpoint rounds (ks : list (list bool)) (l r : list bool) : list bool * list bool :=
  match ks with
  | [] => (l, r)
  | k :: ks' => rounds ks' r (xor_bits l (feistel r k))
  end.

(* the DES computation for a given list of round keys (encipher: K1..K16, decipher: K16..K1) *)
Definition des_core (ks : list (list bool)) (block : list bool) : list bool :=
  let b := permute IP block in
  let '(l, r) := rounds ks (firstn 32 b) (skipn 32 b) in
  permute FP (r ++ l).

Definition des_encrypt_bits (key block : list bool) : list bool := des_core (key_schedule key) block.
Definition des_decrypt_bits (key block : list bool) : list bool := des_core (rev (key_schedule key)) block.

(* byte-string interface: 8-byte key, 8-byte block *)
Definition des_encrypt (key block : list Z) : list Z :=
  bytes_of_bits (des_encrypt_bits (bits_of_bytes key) (bits_of_bytes block)).
Definition des_decrypt (key block : list Z) : list Z :=
  bytes_of_bits (des_decrypt_bits (bits_of_bytes key) (bits_of_bytes block)).

(* ---- two-key triple DES (EDE, K3 = K1), CBC ------------------------------------------ *)
Definition tdes_block (ks1 ks2 : list (list bool)) (b : list bool) : list bool :=
  des_core ks1 (des_core (rev ks2) (des_core ks1 b)).

Fixpoint cbc_blocks (ks1 ks2 : list (list bool)) (iv : list bool) (blocks : list (list Z)) : list Z :=
  match blocks with
  | [] => []
  | b :: r => let c := tdes_block ks1 ks2 (xor_bits (bits_of_bytes b) iv) in
              bytes_of_bits c ++ cbc_blocks ks1 ks2 c r
  end.

(* groups of 8; an incomplete tail is dropped (like Python zip over eight references to one iterator) *)
Fixpoint chunks8 (l : list Z) : list (list Z) :=
  match l with
  | a :: b :: c :: d :: e :: f :: g :: h :: r => [a; b; c; d; e; f; g; h] :: chunks8 r
  | _ => []
  end.

(* triple_des(key, CBC, iv).encrypt(data) for a 16-byte key, 8-byte iv, len data a multiple of 8 *)
Definition tdes_cbc_encrypt (key iv data : list Z) : list Z :=
  let ks1 := key_schedule (bits_of_bytes (firstn 8 key)) in
  let ks2 := key_schedule (bits_of_bytes (firstn 8 (skipn 8 key))) in
  cbc_blocks ks1 ks2 (bits_of_bytes iv) (chunks8 data).
