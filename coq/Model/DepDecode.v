(* C07: crash-explicit model of the NFC-DEP frame decoders of src/nfc/dep.py:
     Initiator.decode_frame / Target.decode_frame and ATR_REQ/ATR_RES/PSL_REQ/PSL_RES/DEP_REQ/DEP_RES/
     DSL_REQ/DSL_RES/RLS_REQ/RLS_RES .decode, for ARBITRARY frame bytes, both roles, 106A (F0 start
     byte) and 212F/424F.  Definitions only.

   The model is of the REPAIRED code:
     fixes/c07-1-dep-decode-frame-empty.diff  decode_frame tests len(frame) before each frame.pop(0)
     fixes/c07-2-dep-atr-short.diff           ATR_REQ/ATR_RES.decode raise ProtocolError below 16/17 bytes
   The unrepaired behaviour is kept next to it (decode_frame_orig) so that the defects are theorems too.

   Independent of Model/Dep.v (C04, written concurrently, models the same decoders inside the exchange
   state machine); this file is only about "what leaves decode_frame for which bytes".

   Python evaluation order that matters:  `len(frame) != frame.pop(0)` evaluates len(frame) BEFORE the pop,
   so the length byte counts itself;  `frame[0] != code or frame[1] not in (...)` reads two bytes that
   exist because of the preceding `len(frame) < 2` test (the model still uses checked indexing). *)
From Coq Require Import ZArith List Bool.
From NV Require Import Base.Result Base.Bytes.
Import ListNotations.
Open Scope Z_scope.

Inductive role := Ini | Tgt.          (* Initiator decodes responses (D5), Target decodes requests (D4) *)

(* decoded PDU objects: exactly the attributes the constructors store *)
Inductive dpdu :=
| AtrReq (nfcid3 : list Z) (did bs br pp : Z) (gb : list Z)
| AtrRes (nfcid3 : list Z) (did bs br to pp : Z) (gb : list Z)
| PslReq (did brs fsl : Z)
| PslRes (did : Z)
| DepPdu (req : bool) (fmt : Z) (nadf didf : bool) (pni : Z) (did nad : option Z) (data : list Z)
| DslPdu (req : bool) (did : option Z)
| RlsPdu (req : bool) (did : option Z).

Definition starts2 (d : list Z) (a b : Z) : bool :=
  match d with x :: y :: _ => (x =? a) && (y =? b) | _ => false end.

Definition bit (v k : Z) : bool := Z.testbit v k.

(* ATR_REQ.decode (repaired).  `X.decode` returns None when the data does not start with the PDU code. *)
Definition dec_atr_req (d : list Z) : res (option dpdu) :=
  if negb (starts2 d 212 0) then Ok None else
  if len d <? 16 then Err ProtocolError else
  match slice d 12 16 with
  | [did; bs; br; pp] => Ok (Some (AtrReq (slice d 2 12) did bs br pp (if bit pp 1 then drop 16 d else [])))
  | _ => Crash ValueErr                       (* nfcid3, (did, bs, br, pp) = data[2:12], data[12:16] *)
  end.
Definition dec_atr_res (d : list Z) : res (option dpdu) :=
  if negb (starts2 d 213 1) then Ok None else
  if len d <? 17 then Err ProtocolError else
  match slice d 12 17 with
  | [did; bs; br; to; pp] => Ok (Some (AtrRes (slice d 2 12) did bs br to pp (if bit pp 1 then drop 17 d else [])))
  | _ => Crash ValueErr
  end.
(* the code as it was: no length test *)
Definition dec_atr_req_orig (d : list Z) : res (option dpdu) :=
  if negb (starts2 d 212 0) then Ok None else
  match slice d 12 16 with
  | [did; bs; br; pp] => Ok (Some (AtrReq (slice d 2 12) did bs br pp (if bit pp 1 then drop 16 d else [])))
  | _ => Crash ValueErr
  end.
Definition dec_atr_res_orig (d : list Z) : res (option dpdu) :=
  if negb (starts2 d 213 1) then Ok None else
  match slice d 12 17 with
  | [did; bs; br; to; pp] => Ok (Some (AtrRes (slice d 2 12) did bs br to pp (if bit pp 1 then drop 17 d else [])))
  | _ => Crash ValueErr
  end.

(* PSL_REQ_RES.decode: cls( *data[2:] ) ; TypeError (wrong number of arguments) -> ProtocolError *)
Definition dec_psl_req (d : list Z) : res (option dpdu) :=
  if negb (starts2 d 212 4) then Ok None else
  match drop 2 d with
  | [did; brs; fsl] => Ok (Some (PslReq did brs fsl))       (* self.did = did if did else 0 : same value *)
  | _ => Err ProtocolError
  end.
Definition dec_psl_res (d : list Z) : res (option dpdu) :=
  if negb (starts2 d 213 5) then Ok None else
  match drop 2 d with [did] => Ok (Some (PslRes did)) | _ => Err ProtocolError end.

(* DEP_REQ_RES.decode: del data[0:2]; pfb = data.pop(0); did/nad popped when flagged; IndexError -> ProtocolError *)
Definition dec_dep (req : bool) (d : list Z) : res (option dpdu) :=
  if negb (if req then starts2 d 212 6 else starts2 d 213 7) then Ok None else
  match drop 2 d with
  | [] => Err ProtocolError
  | p :: r =>
      let didf := bit p 2 in let nadf := bit p 3 in
      do x1 <- (if didf then match r with [] => Err ProtocolError | x :: r' => Ok (Some x, r') end else Ok (None, r));
      do x2 <- (if nadf then match snd x1 with [] => Err ProtocolError | x :: r' => Ok (Some x, r') end
                else Ok (None, snd x1));
      Ok (Some (DepPdu req (Z.shiftr p 4) nadf didf (Z.land p 3) (fst x1) (fst x2) (snd x2)))
  end.

(* DSL_REQ_RES.decode (also RLS): more than three bytes -> ProtocolError *)
Definition dec_dsl (rls req : bool) (d : list Z) : res (option dpdu) :=
  let c := if rls then (if req then 10 else 11) else (if req then 8 else 9) in
  if negb (starts2 d (if req then 212 else 213) c) then Ok None else
  if 3 <? len d then Err ProtocolError else
  do did <- (if len d =? 3 then (do x <- idx d 2; Ok (Some x)) else Ok None);
  Ok (Some (if rls then RlsPdu req did else DslPdu req did)).

(* the part after the start/length byte handling: `frame` is what is left after the pops *)
Definition decode_body (orig : bool) (r : role) (f : list Z) : res (option dpdu) :=
  if len f <? 2 then Err TransmissionError else
  do c0 <- idx f 0; do c1 <- idx f 1;
  match r with
  | Ini =>
      if negb (c0 =? 213) || negb ((c1 =? 1) || (c1 =? 5) || (c1 =? 7) || (c1 =? 9) || (c1 =? 11))
      then Err ProtocolError
      else if c1 =? 1 then (if orig then dec_atr_res_orig f else dec_atr_res f)
      else if c1 =? 5 then dec_psl_res f
      else if c1 =? 7 then dec_dep false f
      else if c1 =? 9 then dec_dsl false false f
      else dec_dsl true false f
  | Tgt =>
      if negb (c0 =? 212) || negb ((c1 =? 0) || (c1 =? 4) || (c1 =? 6) || (c1 =? 8) || (c1 =? 10))
      then Err ProtocolError
      else if c1 =? 0 then (if orig then dec_atr_req_orig f else dec_atr_req f)
      else if c1 =? 4 then dec_psl_req f
      else if c1 =? 6 then dec_dep true f
      else if c1 =? 8 then dec_dsl false true f
      else dec_dsl true true f
  end.

(* decode_frame (repaired): b106 = (self.target.brty == '106A') *)
Definition decode_frame (r : role) (b106 : bool) (frame : list Z) : res (option dpdu) :=
  do f1 <- (if b106 then
              match frame with
              | [] => Err ProtocolError                      (* len(frame) == 0 *)
              | x :: t => if negb (x =? 240) then Err ProtocolError else Ok t
              end
            else Ok frame);
  match f1 with
  | [] => Err ProtocolError                                  (* len(frame) == 0 *)
  | l :: t => if negb (len f1 =? l) then Err ProtocolError else decode_body false r t
  end.

(* decode_frame as it was: frame.pop(0) on an empty bytearray raises IndexError *)
Definition decode_frame_orig (r : role) (b106 : bool) (frame : list Z) : res (option dpdu) :=
  do f1 <- (if b106 then
              match frame with
              | [] => Crash IndexErr
              | x :: t => if negb (x =? 240) then Err ProtocolError else Ok t
              end
            else Ok frame);
  match f1 with
  | [] => Crash IndexErr
  | l :: t => if negb (len f1 =? l) then Err ProtocolError else decode_body true r t
  end.

(* what Initiator.exchange / request helpers do with the value byte of a timeout extension PDU
   (fixes/c07-3-dep-rtox-no-value.diff): RTOX(res.data, ...) *)
Definition rtox_value (data : list Z) : res Z :=
  match data with
  | [] => Err ProtocolError                                   (* was: res.data[0] -> IndexError *)
  | v :: _ => if (0 <? v) && (v <? 60) then Ok v else Err ProtocolError
  end.
Definition rtox_value_orig (data : list Z) : res Z :=
  do v <- idx data 0; if (0 <? v) && (v <? 60) then Ok v else Err ProtocolError.
