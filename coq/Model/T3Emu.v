(* C07: crash-explicit model of nfc.tag.tt3.Type3TagEmulation.process_command for ARBITRARY command
   bytes (src/nfc/tag/tt3.py:785-923).  Definitions only.

   The model is of the REPAIRED code (fixes/c07-5-tt3-emulation-short-command.diff):
     process_command tests len(cmd) == 0 first and turns an IndexError of the command parsers
     (_process_command) into "no response" (None).
   process_command_orig is the code as it was (IndexError escapes).

   Parameters (local configuration, not peer data): idm/pmm/sys from the SENSF_RES of the local target,
   the set of service codes registered with add_service, and the application's block read / write
   functions:  rdf sc bn rb re = read_func(bn, rb, re) of service sc (None = no such block),
               wrf sc bn data wb we = bool(write_func(bn, data, wb, we)).
   bytearray([v, ...]) with v outside 0..255 is Crash ValueErr (cannot happen when the read function
   returns 16-byte blocks; that is a hypothesis of the totality theorem, not built into the model). *)
From Coq Require Import ZArith List Bool.
From NV Require Import Base.Result Base.Bytes Base.PyPrims.
Import ListNotations.
Open Scope Z_scope.

Inductive early (A : Type) := Rsp (r : list Z) | Go (a : A).
Arguments Rsp {A} r. Arguments Go {A} a.

Definition memz (x : Z) (l : list Z) : bool := existsb (Z.eqb x) l.

(* bytearray([a, b]) + rest *)
Definition ba2 (a b : Z) (rest : list Z) : res (list Z) :=
  if (0 <=? a) && (a <? 256) then Ok (a :: b :: rest) else Crash ValueErr.

(* dict(service_list): the last pair for a key wins; an update changes the value of the key *)
Definition dget (d : list (Z * Z)) (k : Z) : res Z :=
  match fold_left (fun acc e => if fst e =? k then Some (snd e) else acc) d None with
  | Some v => Ok v | None => Crash KeyErr end.
Definition dset (d : list (Z * Z)) (k v : Z) : list (Z * Z) :=
  map (fun e => if fst e =? k then (k, v) else e) d.

Fixpoint set_nth {A} (n : nat) (x : A) (l : list A) : list A :=
  match l, n with
  | [], _ => []
  | _ :: t, O => x :: t
  | h :: t, S n' => h :: set_nth n' x t
  end.

Section Emu.
Variables (idm pmm sys svcs : list Z).
Variable rdf : Z -> Z -> bool -> bool -> option (list Z).
Variable wrf : Z -> Z -> list Z -> bool -> bool -> bool.

(* for i in range(len(service_list)): service_code = cmd_data[1] << 8 | cmd_data[0]; ... del cmd_data[0:2] *)
Fixpoint parse_services (n : nat) (err : list Z) (cd : list Z) (acc : list (Z * Z))
  : res (early (list (Z * Z) * list Z)) :=
  match n with
  | O => Ok (Go (acc, cd))
  | S n' =>
      do b1 <- idx cd 1; do b0 <- idx cd 0;
      let code := Z.lor (Z.shiftl b1 8) b0 in
      if negb (memz code svcs) then Ok (Rsp err)
      else parse_services n' err (drop 2 cd) (acc ++ [(code, 0)])
  end.

(* for i in range(len(service_block_list)): try: item = service_list[cmd_data[0] & 0x0F]; item[1] += 1
   except IndexError: return [1 << (i % 8), 0xA3]; then the 2- or 3-byte block list element *)
Fixpoint parse_blocks (m : nat) (i : Z) (cd : list Z) (sl : list (Z * Z)) (acc : list (Z * Z))
  : res (early (list (Z * Z) * list (Z * Z) * list Z)) :=
  match m with
  | O => Ok (Go (sl, acc, cd))
  | S m' =>
      match nth_error cd 0 with
      | None => Ok (Rsp [Z.shiftl 1 (i mod 8); 163])
      | Some b0 =>
          let k := Z.to_nat (Z.land b0 15) in
          match nth_error sl k with
          | None => Ok (Rsp [Z.shiftl 1 (i mod 8); 163])
          | Some (code, cnt) =>
              let sl' := set_nth k (code, cnt + 1) sl in
              if b0 >=? 128 then
                do bn <- idx cd 1;
                parse_blocks m' (i + 1) (drop 2 cd) sl' (acc ++ [(code, bn)])
              else
                do b2 <- idx cd 2; do b1 <- idx cd 1;
                parse_blocks m' (i + 1) (drop 3 cd) sl' (acc ++ [(code, Z.lor (Z.shiftl b2 8) b1)])
          end
      end
  end.

(* for item in service_block_list: item[2] = service_block_count[item[0]] *)
Fixpoint annotate (d : list (Z * Z)) (bl : list (Z * Z)) : res (list (Z * Z * Z)) :=
  match bl with
  | [] => Ok []
  | (sc, bn) :: r => do c <- dget d sc; do r' <- annotate d r; Ok ((sc, bn, c) :: r')
  end.

Definition services_get (sc : Z) : res unit := if memz sc svcs then Ok tt else Crash KeyErr.

Fixpoint read_loop (bl : list (Z * Z * Z)) (i : Z) (d : list (Z * Z)) (acc : list Z) : res (early (list Z)) :=
  match bl with
  | [] => Ok (Go acc)
  | (sc, bn, bc) :: r =>
      do c <- dget d sc;
      let rb := bc =? c in
      let d' := dset d sc (c - 1) in
      let re := c - 1 =? 0 in
      do _ <- services_get sc;
      match rdf sc bn rb re with
      | None => Ok (Rsp [Z.shiftl 1 (i mod 8); 162])
      | Some one => read_loop r (i + 1) d' (acc ++ one)
      end
  end.

Fixpoint write_loop (bl : list (Z * Z * Z)) (i : Z) (d : list (Z * Z)) (bd : list Z) : res (list Z) :=
  match bl with
  | [] => Ok [0; 0]
  | (sc, bn, bc) :: r =>
      do c <- dget d sc;
      let wb := bc =? c in
      let d' := dset d sc (c - 1) in
      let we := c - 1 =? 0 in
      do _ <- services_get sc;
      if negb (wrf sc bn (slice bd (i * 16) ((i + 1) * 16)) wb we) then Ok [Z.shiftl 1 (i mod 8); 162]
      else write_loop r (i + 1) d' bd
  end.

Definition pop0 (cd : list Z) : res (Z * list Z) :=
  match cd with [] => Crash IndexErr | x :: r => Ok (x, r) end.

Definition read_without_encryption (cd : list Z) : res (list Z) :=
  do (n, cd1) <- pop0 cd;
  do e1 <- parse_services (Z.to_nat n) [255; 161] cd1 [];
  match e1 with
  | Rsp r => Ok r
  | Go (sl, cd2) =>
      do (m, cd3) <- pop0 cd2;
      if m >? 15 then Ok [255; 162] else
      do e2 <- parse_blocks (Z.to_nat m) 0 cd3 sl [];
      match e2 with
      | Rsp r => Ok r
      | Go (sl', bl, _) =>
          do bl' <- annotate sl' bl;
          do e3 <- read_loop bl' 0 sl' [];
          match e3 with
          | Rsp r => Ok r
          | Go data => ba2 0 0 ((len data / 16) :: data)
          end
      end
  end.

Definition write_without_encryption (cd : list Z) : res (list Z) :=
  do (n, cd1) <- pop0 cd;
  do e1 <- parse_services (Z.to_nat n) [255; 161] cd1 [];
  match e1 with
  | Rsp r => Ok r
  | Go (sl, cd2) =>
      do (m, cd3) <- pop0 cd2;
      do e2 <- parse_blocks (Z.to_nat m) 0 cd3 sl [];
      match e2 with
      | Rsp r => Ok r
      | Go (sl', bl, cd4) =>
          do bl' <- annotate sl' bl;
          if negb (len cd4 mod 16 =? 0) then Ok [255; 162]
          else write_loop bl' 0 sl' cd4
      end
  end.

(* polling(cmd[2:]): cmd_data[2] == 1 *)
Definition polling (cd : list Z) : res (list Z) :=
  do rc <- idx cd 2; Ok (if rc =? 1 then idm ++ pmm ++ sys else idm ++ pmm).

Definition is_polling (cmd : list Z) : bool :=
  list_eqb (slice cmd 0 4) [6; 0; 255; 255] || list_eqb (slice cmd 0 4) ([6; 0] ++ sys).

(* _process_command: None when no branch matches *)
Definition process_inner (cmd : list Z) : res (option (list Z)) :=
  if is_polling cmd then
    do rsp <- polling (drop 2 cmd); do out <- ba2 (2 + len rsp) 1 rsp; Ok (Some out)
  else if list_eqb (slice cmd 2 10) idm then
    do c1 <- idx cmd 1;
    if c1 =? 4 then (do out <- ba2 (10 + 1) 5 (idm ++ [0]); Ok (Some out))
    else if c1 =? 6 then
      (do rsp <- read_without_encryption (drop 10 cmd); do out <- ba2 (10 + len rsp) 7 (idm ++ rsp); Ok (Some out))
    else if c1 =? 8 then
      (do rsp <- write_without_encryption (drop 10 cmd); do out <- ba2 (10 + len rsp) 9 (idm ++ rsp); Ok (Some out))
    else if c1 =? 12 then
      (let rsp := 1 :: sys in do out <- ba2 (10 + len rsp) 13 (idm ++ rsp); Ok (Some out))
    else Ok None
  else Ok None.

(* repaired process_command *)
Definition process_command (cmd : list Z) : res (option (list Z)) :=
  match cmd with
  | [] => Ok None
  | c0 :: _ =>
      if negb (len cmd =? c0) then Ok None else
      match process_inner cmd with
      | Crash IndexErr => Ok None             (* except IndexError: return None *)
      | r => r
      end
  end.

(* process_command as it was *)
Definition process_command_orig (cmd : list Z) : res (option (list Z)) :=
  do c0 <- idx cmd 0;
  if negb (len cmd =? c0) then Ok None else process_inner cmd.

End Emu.

(* ---- a concrete emulated tag for the correspondence run (same functions on the Python side):
   services 0x000B (read) and 0x0009 (write), nblocks blocks; the data of a block encodes the
   arguments the read function was called with, so that rb/re are compared too *)
Definition ex_rdf (nblocks : Z) (sc bn : Z) (rb re : bool) : option (list Z) :=
  if (sc =? 11) && (bn <? nblocks) then
    Some ([bn mod 256; bn / 256 mod 256; (if rb then 1 else 0); (if re then 1 else 0)] ++ repeat (bn mod 251) 12)
  else None.
Definition ex_wrf (nblocks : Z) (sc bn : Z) (data : list Z) (wb we : bool) : bool :=
  (sc =? 9) && (bn <? nblocks) && (len data =? 16) && negb (list_eqb (slice data 0 1) [238]).
Definition ex_process (idm pmm sys : list Z) (nblocks : Z) (orig : bool) (cmd : list Z) : res (option (list Z)) :=
  (if orig then process_command_orig else process_command) idm pmm sys [11; 9] (ex_rdf nblocks) (ex_wrf nblocks) cmd.
