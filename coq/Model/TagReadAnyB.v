(* Type 3 / Type 4 NDEF readers against an ARBITRARY responder (property C08).

   Model/T3T.v read_ndef and Model/T4T.v t4_read_ndef are the readers of the tree as it was when C01-C03
   were built, Type 3 over an abstract block device, Type 4 over an honest card.  This file models
   the readers after the repairs
     fixes/c08-07-tt3-short-response.diff          response frames shorter than their fixed part -> TagCommandError
     fixes/c08-08-tt3-nbr-zero.diff                Nbr = 0 -> no NDEF                (was: ValueError, range step 0)
     fixes/c08-09-tt3-ln-exceeds-nmaxb.diff        Ln > 16 * Nmaxb -> no NDEF         (was: length > capacity)
     fixes/c08-10-tt3-nbr-frame-limit.diff         at most 15 blocks per read command (was: ValueError building the frame)
     fixes/c08-04-tt4-read-binary-no-data.diff     READ BINARY answered without data -> no NDEF (was: endless loop)
     fixes/c08-05-tt4-read-binary-excess-data.diff READ BINARY answered with more than Le bytes -> protocol error
     fixes/c08-06-tt4-nlen-exceeds-capacity.diff   NLEN > capacity -> no NDEF
     fixes/c08-03-isodep-wtx-without-wtxm.diff     S(WTX) without WTXM byte -> protocol error (was: IndexError)
   against a scripted environment:
     Type 3: [air]  = the outcomes of the clf.exchange() calls in the order they are made (data, timeout,
                      transmission error, protocol error); past the end of the script the tag is silent
     Type 4: [chan] = the outcomes of the IsoDepInitiator.exchange() calls in the order they are made (a
                      response APDU or Type4TagCommandError errno); past the end: TIMEOUT_ERROR
   Any tag behaviour - arbitrary attribute blocks / files, arbitrary well-framed or malformed answers,
   silence after any command - is some script.  The state also records everything that was sent.
   Reused unchanged: T3T.attr_parse, read_attr, rd_loop, rd_frame; T4T.op, apdu_of_op, cc_parse;
   IsoDep.apdu_finish, pcd_absorb.  Definitions only. *)
From Coq Require Import ZArith List Bool.
From NV Require Import Base.Result Base.Bytes Base.PyPrims Proofs.Chunks Model.IsoDep Model.T3T Model.T4T Model.TagAct.
Import ListNotations.
Open Scope Z_scope.

(* ------------------------------------------------------------ Type 3: the air *)
(* a_blocks (ghost): the block numbers of all read commands built so far, latest first *)
Record air := mkAir { a_script : list aresult; a_sent : list (list Z); a_blocks : list Z }.
Definition air_xchg (s : air) (frame : list Z) : aresult * air :=
  (hd_x (a_script s), mkAir (tl (a_script s)) (frame :: a_sent s) (a_blocks s)).
Definition air_note (s : air) (bl : list Z) : air := mkAir (a_script s) (a_sent s) (rev bl ++ a_blocks s).
(* nfc.tag.TIMEOUT_ERROR, RECEIVE_ERROR, PROTOCOL_ERROR *)
Definition comm_errno (a : aresult) : Z := match a with ATimeout => 0 | ATxErr => -1 | _ => -2 end.
(* send_cmd_recv_rsp: for retry in range(3): try: rsp = clf.exchange(cmd, timeout); break *)
Definition t3_xchg3 (s : air) (frame : list Z) : res (list Z) * air :=
  match air_xchg s frame with
  | (ARx r, s1) => (Ok r, s1)
  | (_, s1) =>
    match air_xchg s1 frame with
    | (ARx r, s2) => (Ok r, s2)
    | (_, s2) =>
      match air_xchg s2 frame with
      | (ARx r, s3) => (Ok r, s3)
      | (a, s3) => (Err (TagCommandError (comm_errno a)), s3)
      end
    end
  end.

(* the response checks of send_cmd_recv_rsp (check_status=True) after the repair *)
Definition t3_rsp_any (code : Z) (send_idm : bool) (idm rsp : list Z) : res (list Z) :=
  if (len rsp <? 2) || negb (nth 0 rsp 0 =? len rsp) then Err (TagCommandError 1) else
  if negb (nth 1 rsp 0 =? code + 1) then Err (TagCommandError 2) else
  if send_idm && negb (beq_list (slice rsp 2 10) idm) then Err (TagCommandError 3) else
  if negb send_idm then Ok (drop 2 rsp) else
  if len rsp <? 12 then Err (TagCommandError 1) else
  if negb (nth 10 rsp 0 =? 0) then Err (TagCommandError (nth 10 rsp 0 * 256 + nth 11 rsp 0)) else
  Ok (drop 12 rsp).

(* read_from_ndef_service(blocks) = read_without_encryption([ServiceCode(0, 0x0B)], blocks) *)
Definition t3_dev_read (idm : list Z) (s : air) (bl : list Z) : res (list Z) * air :=
  match rd_frame idm bl with
  | Ok f =>
    match t3_xchg3 (air_note s bl) f with
    | (Ok rsp, s1) =>
      (do d <- t3_rsp_any 6 true idm rsp;
       if negb (len d =? 1 + 16 * len bl) then Err (TagCommandError 4) else Ok (drop 1 d), s1)
    | (Err e, s1) => (Err e, s1) | (Crash c, s1) => (Crash c, s1) | (Hang, s1) => (Hang, s1)
    end
  | Err e => (Err e, s) | Crash c => (Crash c, s) | Hang => (Hang, s)
  end.

(* polling(0x12FC): 06 00 12 FC 00 00 -> (IDm, PMm) *)
Definition poll_frame : list Z := [6; 0; 18; 252; 0; 0].
Definition t3_poll (s : air) : res (list Z * list Z) * air :=
  match t3_xchg3 s poll_frame with
  | (Ok rsp, s1) =>
    (do d <- t3_rsp_any 0 false [] rsp;
     if negb (len d =? 16) then Err (TagCommandError 4) else Ok (take 8 d, drop 8 d), s1)
  | (Err e, s1) => (Err e, s1) | (Crash c, s1) => (Crash c, s1) | (Hang, s1) => (Hang, s1)
  end.

(* Type3Tag.NDEF._read_ndef_data once the system code is 12FCh, with what Tag.ndef makes of it *)
Definition t3_read_with (idm : list Z) (s : air) : res fresh * air :=
  match read_attr air (t3_dev_read idm) s with
  | (Ok None, s1) => (Ok NoNdef, s1)
  | (Ok (Some a), s1) =>
    if negb (a_ver a / 16 =? 1) then (Ok NoNdef, s1) else
    if a_nbr a =? 0 then (Ok NoNdef, s1) else
    if a_ln a >? a_nmaxb a * 16 then (Ok NoNdef, s1) else
    let last := 1 + (a_ln a + 15) / 16 in
    match rd_loop air (t3_dev_read idm) (Z.to_nat last) s1 1 last (Z.min (a_nbr a) 15) [] with
    | (Ok None, s2) => (Ok NoNdef, s2)
    | (Ok (Some d), s2) =>
      (Ok (Ndef (attr_readable a) (attr_writeable a) (a_nmaxb a * 16) (take (a_ln a) d)), s2)
    | (Err e, s2) => (Err e, s2) | (Crash c, s2) => (Crash c, s2) | (Hang, s2) => (Hang, s2)
    end
  | (Err e, s1) => (Err e, s1) | (Crash c, s1) => (Crash c, s1) | (Hang, s1) => (Hang, s1)
  end.
(* the same for the code before the Type 3 repairs 08-10 (kept for the refutation witnesses): range(1, last, 0)
   raises ValueError, Ln is not compared with Nmaxb, Nbr blocks per command whatever Nbr is *)
Definition t3_read_with_legacy (idm : list Z) (s : air) : res fresh * air :=
  match read_attr air (t3_dev_read idm) s with
  | (Ok None, s1) => (Ok NoNdef, s1)
  | (Ok (Some a), s1) =>
    if negb (a_ver a / 16 =? 1) then (Ok NoNdef, s1) else
    if a_nbr a =? 0 then (Crash RangeStep0, s1) else
    let last := 1 + (a_ln a + 15) / 16 in
    match rd_loop air (t3_dev_read idm) (Z.to_nat last) s1 1 last (a_nbr a) [] with
    | (Ok None, s2) => (Ok NoNdef, s2)
    | (Ok (Some d), s2) =>
      (Ok (Ndef (attr_readable a) (attr_writeable a) (a_nmaxb a * 16) (take (a_ln a) d)), s2)
    | (Err e, s2) => (Err e, s2) | (Crash c, s2) => (Crash c, s2) | (Hang, s2) => (Hang, s2)
    end
  | (Err e, s1) => (Err e, s1) | (Crash c, s1) => (Crash c, s1) | (Hang, s1) => (Hang, s1)
  end.

(* _read_ndef_data of a tag object with IDm [idm] and system code [sys]; also returns IDm / system code afterwards *)
Definition t3_read_ndef (idm : list Z) (sys : Z) (s : air) : res fresh * air * (list Z * Z) :=
  if sys =? 4860 then (t3_read_with idm s, (idm, sys)) else
  match t3_poll s with
  | (Ok (idm', _), s1) => (t3_read_with idm' s1, (idm', 4860))
  | (Err _, s1) => (Ok NoNdef, s1, (idm, sys))
  | (Crash c, s1) => (Crash c, s1, (idm, sys)) | (Hang, s1) => (Hang, s1, (idm, sys))
  end.

Definition fresh_data (f : fresh) : option (list Z) := match f with NoNdef => None | Ndef _ _ _ d => Some d end.
(* tag.ndef, then (if that is an object) tag.ndef.has_changed: the first result, and the second read *)
Definition t3_session (idm : list Z) (sys : Z) (s : air) : res fresh * option (res fresh) * air :=
  match t3_read_ndef idm sys s with
  | (Ok (Ndef r w c d), s1, (idm1, sys1)) =>
    let '(r2, s2, _) := t3_read_ndef idm1 sys1 s1 in (Ok (Ndef r w c d), Some r2, s2)
  | (r1, s1, _) => (r1, None, s1)
  end.

(* ------------------------------------------------------------ Type 4: the APDU channel *)
Inductive ares := AOk (rsp : list Z) | AFail (errno : Z).
(* c_reads (ghost): offset and Le of all READ BINARY commands built so far, latest first *)
Record chan := mkChan { c_script : list ares; c_apdus : list (list Z); c_reads : list (Z * Z) }.
Definition hd_a (l : list ares) : ares := match l with x :: _ => x | [] => AFail 0 end.
Definition ares_res (a : ares) : res (list Z) := match a with AOk d => Ok d | AFail e => Err (TagCommandError e) end.

(* Type4Tag.send_apdu(0, ins, p1, p2, data, mrl) *)
Definition t4_send_any (s : chan) (o : op) : res (list Z) * chan :=
  match apdu_of_op o with
  | Ok a => (apdu_finish true (ares_res (hd_a (c_script s))),
             mkChan (tl (c_script s)) (a :: c_apdus s)
                    (match o with RdBin off m => (off, m) :: c_reads s | _ => c_reads s end))
  | Err e => (Err e, s) | Crash x => (Crash x, s) | Hang => (Hang, s)
  end.

Definition lift_c {X} (r : res (list Z) * chan) (k : list Z -> chan -> res X * chan) : res X * chan :=
  match r with
  | (Ok d, c1) => k d c1
  | (Err e, c1) => (Err e, c1) | (Crash x, c1) => (Crash x, c1) | (Hang, c1) => (Hang, c1)
  end.

Definition select_app_any (c : chan) : option Z * chan :=
  match t4_send_any c (SelAid true) with
  | (Ok _, c1) => (Some 12, c1)
  | (Err (TagCommandError e), c1) =>
    if e <=? 0 then (None, c1) else
    match t4_send_any c1 (SelAid false) with (Ok _, c2) => (Some 0, c2) | (_, c2) => (None, c2) end
  | (_, c1) => (None, c1)
  end.
Definition select_fid_any (c : chan) (p2 : Z) (fid : list Z) : res bool * chan :=
  match t4_send_any c (SelFid p2 fid) with
  | (Ok _, c1) => (Ok true, c1)
  | (Err _, c1) => (Ok false, c1)
  | (Crash x, c1) => (Crash x, c1) | (Hang, c1) => (Hang, c1)
  end.
(* _read_binary: max_data = min(max_le, size); more than max(max_data, 0) bytes -> PROTOCOL_ERROR *)
Definition read_binary_any (c : chan) (max_le off size : Z) : res (list Z) * chan :=
  let m := Z.min max_le size in
  lift_c (t4_send_any c (RdBin off m)) (fun d c1 =>
    if len d >? Z.max m 0 then (Err (TagCommandError E_PROTOCOL), c1) else (Ok d, c1)).

Definition discover_any (c : chan) : res (option ccinfo) * chan :=
  match select_app_any c with
  | (None, c1) => (Ok None, c1)
  | (Some p2, c1) =>
    match select_fid_any c1 p2 cc_fid with
    | (Ok false, c2) => (Ok None, c2)
    | (Ok true, c2) =>
      lift_c (read_binary_any c2 15 0 2) (fun cclen c3 =>
        if negb (len cclen =? 2) then (Ok None, c3) else
        lift_c (read_binary_any c3 15 2 (Z.min (be cclen - 2) 15)) (fun cap c4 =>
          if len cap <? 13 then (Ok None, c4) else
          if len cap >? 15 then (Crash StructErr, c4) else
          (Ok (cc_parse p2 cap), c4)))
    | (Err e, c2) => (Err e, c2) | (Crash x, c2) => (Crash x, c2) | (Hang, c2) => (Hang, c2)
    end
  end.

(* while len(data) < nlen: part = _read_binary(...); if len(part) == 0: return None; data += part *)
Fixpoint rd_file_any (fuel : nat) (c : chan) (i : ccinfo) (nlen : Z) (acc : list Z) : res (option (list Z)) * chan :=
  if len acc <? nlen then
    match fuel with
    | O => (Hang, c)
    | S f =>
      lift_c (read_binary_any c (i_mle i) (i_nlen i + len acc) (nlen - len acc)) (fun d c1 =>
        if len d =? 0 then (Ok None, c1) else rd_file_any f c1 i nlen (acc ++ d))
    end
  else (Ok (Some acc), c).

Definition read_with_any (c : chan) (i : ccinfo) : res fresh * chan :=
  match select_fid_any c (i_p2 i) (i_fid i) with
  | (Ok false, c1) => (Ok NoNdef, c1)
  | (Ok true, c1) =>
    match lift_c (read_binary_any c1 (i_mle i) 0 (i_nlen i)) (fun nl c2 =>
            if negb (len nl =? i_nlen i) then (Ok None, c2) else
            if be nl >? i_cap i then (Ok None, c2) else
            rd_file_any (Z.to_nat (be nl)) c2 i (be nl) []) with
    | (Ok (Some d), c4) => (Ok (Ndef (i_rd i) (i_wr i) (i_cap i) d), c4)
    | (Ok None, c4) => (Ok NoNdef, c4)
    | (Err _, c4) => (Ok NoNdef, c4)
    | (Crash x, c4) => (Crash x, c4) | (Hang, c4) => (Hang, c4)
    end
  | (Err _, c1) => (Ok NoNdef, c1) | (Crash x, c1) => (Crash x, c1) | (Hang, c1) => (Hang, c1)
  end.

(* the file read before the repairs 04-06 (kept for the refutation witnesses): a READ BINARY that yields nothing is
   repeated (the loop only ends when the fuel - more reads than the message has bytes - is used up: Hang), NLEN is
   not compared with the capacity, answers longer than Le are taken as they are *)
Fixpoint rd_file_legacy (fuel : nat) (c : chan) (i : ccinfo) (nlen : Z) (acc : list Z) : res (list Z) * chan :=
  if len acc <? nlen then
    match fuel with
    | O => (Hang, c)
    | S f => lift_c (t4_send_any c (RdBin (i_nlen i + len acc) (Z.min (i_mle i) (nlen - len acc)))) (fun d c1 =>
               rd_file_legacy f c1 i nlen (acc ++ d))
    end
  else (Ok acc, c).
Definition read_with_legacy (c : chan) (i : ccinfo) : res fresh * chan :=
  match select_fid_any c (i_p2 i) (i_fid i) with
  | (Ok true, c1) =>
    match lift_c (t4_send_any c1 (RdBin 0 (Z.min (i_mle i) (i_nlen i)))) (fun nl c2 =>
            if negb (len nl =? i_nlen i) then (Ok None, c2) else
            match rd_file_legacy (Z.to_nat (Z.min (be nl) 65536 + 1)) c2 i (be nl) [] with
            | (Ok d, c3) => (Ok (Some d), c3)
            | (Err e, c3) => (Err e, c3) | (Crash x, c3) => (Crash x, c3) | (Hang, c3) => (Hang, c3)
            end) with
    | (Ok (Some d), c4) => (Ok (Ndef (i_rd i) (i_wr i) (i_cap i) d), c4)
    | (Ok None, c4) => (Ok NoNdef, c4)
    | (Err _, c4) => (Ok NoNdef, c4)
    | (Crash x, c4) => (Crash x, c4) | (Hang, c4) => (Hang, c4)
    end
  | (Ok false, c1) => (Ok NoNdef, c1)
  | (Err _, c1) => (Ok NoNdef, c1) | (Crash x, c1) => (Crash x, c1) | (Hang, c1) => (Hang, c1)
  end.

(* _read_ndef_data of a new NDEF object *)
Definition t4_read_any (c : chan) : res (fresh * option ccinfo) * chan :=
  match discover_any c with
  | (Ok None, c1) => (Ok (NoNdef, None), c1)
  | (Ok (Some i), c1) =>
    match read_with_any c1 i with
    | (Ok f, c2) => (Ok (f, Some i), c2)
    | (Err e, c2) => (Err e, c2) | (Crash x, c2) => (Crash x, c2) | (Hang, c2) => (Hang, c2)
    end
  | (Err _, c1) => (Ok (NoNdef, None), c1)
  | (Crash x, c1) => (Crash x, c1) | (Hang, c1) => (Hang, c1)
  end.

(* tag.ndef, then tag.ndef.has_changed (the NDEF object keeps what it discovered) *)
Definition t4_session (c : chan) : res fresh * option (res fresh) * chan :=
  match t4_read_any c with
  | (Ok (Ndef r w cp d, Some i), c1) => let '(r2, c2) := read_with_any c1 i in (Ok (Ndef r w cp d), Some r2, c2)
  | (Ok (f, _), c1) => (Ok f, None, c1)
  | (Err e, c1) => (Err e, None, c1) | (Crash x, c1) => (Crash x, None, c1) | (Hang, c1) => (Hang, None, c1)
  end.

(* ------------------------------------------------------------ ISO-DEP reader with repair 03 *)
(* the block handed back by clf.exchange() is an S(WTX) without WTXM byte *)
Definition short_wtx (d : list Z) : bool :=
  match d with [b0] => is_wtx b0 | _ => false end.
Definition wtx_phase (p : pcd) : bool :=
  match ph p with PSend _ _ _ => true | PRecv _ _ _ => true | _ => false end.
(* pcd_absorb of Model/IsoDep.v (all repairs of C12 on) except that an S(WTX) block without WTXM raises
   nfc.clf.ProtocolError inside the try, i.e. Type4TagCommandError(PROTOCOL_ERROR) *)
Definition pcd_absorb_any (k : cfg) (cmd : list Z) (p : pcd) (a : aresult) : pcd :=
  match a with
  | ARx d => if short_wtx d && wtx_phase p then {| pni := pni p; ph := tagerr E_PROTOCOL |} else pcd_absorb k cmd p a
  | _ => pcd_absorb k cmd p a
  end.
Fixpoint run_stream_any (fuel : nat) (k : cfg) (cmd : list Z) (p : pcd) (s : nat -> aresult) (n : nat) : res (list Z) :=
  match ph p with
  | PDone r => r
  | _ => match fuel with
         | O => Hang
         | S f => run_stream_any f k cmd (pcd_absorb_any k cmd p (s n)) s (S n)
         end
  end.

(* ------------------------------------------------------------ ISO-DEP reader with repairs 03 and 19, scripted *)
(* fixes/c08-19-isodep-wtx-chaining-without-end.diff: within one exchange() at most [W_MAX] S(WTX) requests and chained
   response blocks are accepted, one more is a protocol error.  An answer is "wild" when it starts like an S(WTX) block
   or has the chaining bit set; every wild answer either ends the exchange or is one of the two counted events, so the
   budget turns the wild answers that come after it is used up into protocol errors. *)
Definition W_MAX : Z := 65538.
Definition wild_ans (a : aresult) : bool :=
  match a with ARx (b0 :: _) => is_wtx b0 || negb (Z.land b0 16 =? 0) | _ => false end.
Definition budgeted (w : Z) (a : aresult) : aresult := if wild_ans a && (w <=? 0) then AProto else a.
(* IsoDepInitiator.exchange(cmd) against a script of clf.exchange() outcomes (past its end: silence); [w] = budget left;
   result, number of clf.exchange() calls, block number afterwards *)
Fixpoint run_script_any (fuel : nat) (k : cfg) (cmd : list Z) (p : pcd) (script : list aresult) (w n : Z)
  : res (list Z) * Z * Z :=
  match ph p with
  | PDone r => (r, n, pni p)
  | _ =>
    match fuel with
    | O => (Hang, n, pni p)
    | S f =>
      let a := budgeted w (hd_x script) in
      run_script_any f k cmd (pcd_absorb_any k cmd p a) (tl script) (if wild_ans a then w - 1 else w) (n + 1)
    end
  end.
(* enough fuel for any script (Proofs/TagSafeDep.v): (C + 1) * (len cmd + 2 + W) + C rounds, C = budget + 2 *)
Definition dep_fuel (k : cfg) (cmd : list Z) : Z :=
  (Z.max (n_nak k) (n_ack k) + 3) * (len cmd + 2 + W_MAX) + Z.max (n_nak k) (n_ack k) + 2.
Definition dep_exchange (k : cfg) (cmd : list Z) (pn : Z) (script : list aresult) : res (list Z) * Z * Z :=
  run_script_any (Z.to_nat (dep_fuel k cmd)) k cmd (pcd_start k cmd pn) script W_MAX 0.
