(* Extraction of the executable C20 models (DES, FeliCa Lite/Lite-S MAC protocols, NTAG21x).
   ExtrOcamlBasic only; Z/positive/N/nat stay extracted inductives. No Extract Constant. *)
Require Extraction.
Require Import ExtrOcamlBasic.
From NV Require Import Base.Result Base.Bytes Base.PyPrims Model.Des Model.FelicaMac Model.Ntag Model.AuthRun.
Cd "../extract/ml".
Extraction "c20.ml"
  Model.Des.des_encrypt Model.Des.des_decrypt Model.Des.tdes_cbc_encrypt
  Model.FelicaMac.generate_mac Model.FelicaMac.session_key
  Model.AuthRun.felica_run Model.AuthRun.ftag_session
  Model.AuthRun.ntag_run Model.AuthRun.ntag_session.
Cd "../../coq".
