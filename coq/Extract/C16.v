(* Extraction of the executable C16 models: the retry loops of Model/Retry.v and the ExnCheck analysis
   applied to the regenerated tag skeletons.  ExtrOcamlBasic only. *)
Require Extraction.
Require Import ExtrOcamlBasic.
From NV Require Import Base.Result Model.Retry Skel.ExnSyntax Skel.ExnCheck Gen.TagSkel Bridge.C16Skel.
Cd "../extract/ml".
Extraction "c16.ml"
  Model.Retry.run_transceive Model.Retry.run_t4_is_present Model.Retry.deliveries Model.Retry.script_of Model.Retry.run_seq
  Skel.ExnCheck.escapes Skel.ExnCheck.solution Skel.ExnCheck.summary_okb Skel.ExnCheck.slookup
  Gen.TagSkel.tag_programs Gen.TagSkel.prog_activate Gen.TagSkel.entry_activate Gen.TagSkel.class_names
  Gen.TagSkel.exch_named Gen.TagSkel.exch_any Bridge.C16Skel.allowed.
Cd "../../coq".
