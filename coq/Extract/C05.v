(* Extraction of the executable data link connection model for the C05 correspondence check.
   ExtrOcamlBasic only; Z/positive/nat stay extracted inductives. No Extract Constant. *)
Require Extraction.
Require Import ExtrOcamlBasic.
From NV Require Import Base.Result Base.Bytes Model.Dlc.
Cd "../extract/ml".
Extraction "c05.ml"
  Model.Dlc.init Model.Dlc.step_full Model.Dlc.collect1 Model.Dlc.inject Model.Dlc.run
  Model.Dlc.send_window_slots Model.Dlc.recv_window_slots
  Model.Dlc.get_ep Model.Dlc.get_w Model.Dlc.get_g.
Cd "../../coq".
