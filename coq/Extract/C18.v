(* Extraction of the executable models of C18 (connect / sense / listen / exchange).
   ExtrOcamlBasic only; nat/Z/positive stay extracted inductives. No Extract Constant. *)
Require Extraction.
Require Import ExtrOcamlBasic.
From NV Require Import Model.Connect.
Cd "../extract/ml".
Extraction "c18.ml" Model.Connect.run_connect Model.Connect.run_history Model.Connect.h0 Model.Connect.sense.
Cd "../../coq".
