(* Extraction of the executable Type 1 / Type 2 tag models (correspondence run of C01-C03).
   ExtrOcamlBasic only; no Extract Constant. *)
Require Extraction.
Require Import ExtrOcamlBasic.
From NV Require Import Base.Result Base.Bytes Model.TlvMem Model.T2T Model.T1T Model.T2Sector.
Cd "../extract/ml".
Extraction "tags_tlv.ml"
  Model.T2T.t2_retry_obs Model.T2T.t2_rewrite_obs Model.T1T.t1_rewrite_obs Model.T2T.t2_write_obs Model.T2T.t2_cut_obs Model.T2T.t2_format_obs Model.T2T.t2_fresh Model.T2T.t2_capacity
  Model.T2T.wf_layoutb Model.T2T.t2_layout Model.T2T.t2_free_after_tag Model.TlvMem.room
  Model.T1T.t1_retry_obs Model.T1T.t1_write_obs Model.T1T.t1_format_obs Model.T1T.t1_cut_obs Model.T1T.t1_fresh Model.T1T.t1_capacity
  Model.T1T.t1_wf_layoutb Model.T1T.t1_layout Model.T1T.t1_free_after_tag
  Model.T2Sector.sector_select
  Model.TlvMem.lock_byte_range Model.TlvMem.rsvd_byte_range Model.TlvMem.get_capacity.
Cd "../../coq".
