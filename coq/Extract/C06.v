(* Extraction of the executable SNEP / handover models for the C06 correspondence.
   ExtrOcamlBasic only; Z/positive/N/nat stay extracted inductives. No Extract Constant. *)
Require Extraction.
Require Import ExtrOcamlBasic.
From NV Require Import Base.Result Base.Bytes Base.PyPrims Model.Snep.
Cd "../extract/ml".
Extraction "c06.ml"
  Model.Snep.chunks Model.Snep.client_start Model.Snep.client_script Model.Snep.start_ops
  Model.Snep.snep_server_script Model.Snep.ho_server_script
  Model.Snep.snep_exec Model.Snep.ho_exec Model.Snep.api_run.
Cd "../../coq".
