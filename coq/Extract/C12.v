(* Extraction of the ISO-DEP reader model, the ISO/IEC 14443-4 card and the air for the
   C12 correspondence.  ExtrOcamlBasic only; no Extract Constant. *)
Require Extraction.
Require Import ExtrOcamlBasic.
From NV Require Import Base.Result Base.Bytes Model.IsoDep.
Cd "../extract/ml".
Extraction "c12.ml"
  Model.IsoDep.blk_timeout Model.IsoDep.exchangex Model.IsoDep.send_apdux Model.IsoDep.run_streamx
  Model.IsoDep.exchange Model.IsoDep.send_apdu Model.IsoDep.session Model.IsoDep.picc_absorb
  Model.IsoDep.picc_init Model.IsoDep.set_plan Model.IsoDep.demo_app Model.IsoDep.run_stream
  Model.IsoDep.pcd_start Model.IsoDep.apdu_build Model.IsoDep.apdu_finish
  Model.IsoDep.t4a_params Model.IsoDep.t4b_params.
Cd "../../coq".
