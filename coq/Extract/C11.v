(* Extraction of the executable LLCP PDU model for the C11 correspondence checks.
   ExtrOcamlBasic only; Z/positive/N/nat stay extracted inductives. No Extract Constant. *)
Require Extraction.
Require Import ExtrOcamlBasic.
From NV Require Import Base.Result Base.Bytes Model.Pdu.
Cd "../extract/ml".
Extraction "c11.ml"
  Model.Pdu.decode Model.Pdu.encode Model.Pdu.pdu_len Model.Pdu.validb Model.Pdu.norm
  Model.Pdu.param_decode Model.Pdu.param_encode.
Cd "../../coq".
