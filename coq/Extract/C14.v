(* Extraction of the executable models for the correspondence checks.
   ExtrOcamlBasic only; Z/positive/N/nat stay extracted inductives. No Extract Constant. *)
Require Extraction.
Require Import ExtrOcamlBasic.
From NV Require Import Base.Result Base.Bytes Base.PyPrims Model.Crc Model.Frames Model.CrcPath.
Cd "../extract/ml".
Extraction "c14.ml"
  Model.Crc.calculate_crc Model.Crc.add_crc_a Model.Crc.add_crc_b Model.Crc.check_crc_a Model.Crc.check_crc_b
  Model.Crc.iso_crc_a Model.Crc.iso_crc_b
  Model.Frames.pn53x_build Model.Frames.pn53x_parse Model.Frames.host_frame_ok Model.Frames.pn53x_response
  Model.Frames.acr122_build Model.Frames.acr122_parse Model.Frames.acr122_cmd_ok Model.Frames.acr122_rsp_ok
  Model.Frames.rcs380_build Model.Frames.rcs380_frame_ok
  Model.CrcPath.type_a_rsp.
Cd "../../coq".
