(* Extraction of the activation / parameter negotiation model for the C19 correspondence run.
   ExtrOcamlBasic only; no Extract Constant. *)
Require Extraction.
Require Import ExtrOcamlBasic.
From NV Require Import Base.Result Base.Bytes Model.Dep Model.Negotiate.
Cd "../extract/ml".
Extraction "c19.ml"
  Model.Negotiate.negotiate Model.Negotiate.negotiate_dep Model.Negotiate.general_bytes Model.Negotiate.llc_takeover
  Model.Negotiate.mkiopt Model.Negotiate.mktopt Model.Negotiate.mklopt
  Model.Negotiate.atr_lr Model.Negotiate.psl_lr Model.Negotiate.psl_dsi Model.Negotiate.psl_dri Model.Negotiate.l_send_lto.
Cd "../../coq".
