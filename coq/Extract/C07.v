(* Extraction of the executable C07 models for the correspondence checks.
   ExtrOcamlBasic only; Z/positive/N/nat stay extracted inductives. No Extract Constant. *)
Require Extraction.
Require Import ExtrOcamlBasic.
From NV Require Import Base.Result Base.Bytes Base.PyPrims Model.Pdu Model.DepDecode Model.T3Emu Model.Pax Model.Dispatch Model.SnepHdr Model.DepAny.
Cd "../extract/ml".
Extraction "c07.ml"
  Model.DepDecode.decode_frame Model.DepDecode.decode_frame_orig Model.DepDecode.rtox_value Model.DepDecode.rtox_value_orig
  Model.T3Emu.ex_process
  Model.Pax.activate_gb Model.Pax.activate_gb_orig
  Model.Dispatch.receive Model.Dispatch.dispatch
  Model.SnepHdr.snep_serve Model.SnepHdr.client_step Model.SnepHdr.ho_serve Model.SnepHdr.hc_step
  Model.DepAny.i_exchange Model.DepAny.t_exchange Model.DepAny.t_deactivate
  Model.Pdu.decode Model.Pdu.encode Model.Pdu.pdu_len.
Cd "../../coq".
