(* Extraction of the executable models for the C08 correspondence checks.
   ExtrOcamlBasic only; Z/positive/N/nat stay extracted inductives. No Extract Constant. *)
Require Extraction.
Require Import ExtrOcamlBasic.
From NV Require Import Base.Result Base.Bytes Model.TlvMem Model.T2T Model.T1T Model.IsoDep Model.T3T Model.T4T
  Model.TagAct Model.TagReadAny Model.TagReadAnyB Model.TagLoad.
Cd "../extract/ml".
Extraction "c08.ml"
  Model.TagAct.tag_dispatch_a Model.TagAct.ats_fsci_fwi Model.TagAct.ats_build Model.TagAct.rats_cmd
  Model.TagAct.t4a_activate Model.TagAct.t4a_activate_legacy Model.TagAct.t4b_activate Model.TagAct.t4b_activate_legacy
  Model.TagAct.t1_activate Model.TagAct.t2_activate Model.TagAct.t3_activate Model.TagAct.t3_activate_legacy
  Model.TagReadAny.t2_read_d Model.TagReadAny.t1_read_d Model.TagReadAny.t2_read_any Model.TagReadAny.t1_read_any
  Model.TagReadAny.t2_cmds_max Model.TagReadAny.t1_cmds_max Model.TagReadAny.t2_demand_bound
  Model.T2T.t2_read Model.T1T.t1_read
  Model.TagReadAnyB.t3_session Model.TagReadAnyB.t4_session Model.TagReadAnyB.t3_rsp_any
  Model.TagReadAnyB.run_stream_any Model.TagReadAnyB.dep_exchange Model.TagReadAnyB.run_script_any Model.IsoDep.pcd_start Model.IsoDep.run_stream
  Model.TagLoad.t2_read_responses Model.TagLoad.t1_read_responses Model.TagLoad.t2_wire_max Model.TagLoad.t1_wire_max.
Cd "../../coq".
