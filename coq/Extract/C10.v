(* Extraction of the executable collector/receiver model for the C10 correspondence checks.
   ExtrOcamlBasic only; Z/positive/N/nat stay extracted inductives. No Extract Constant. *)
Require Extraction.
Require Import ExtrOcamlBasic.
From NV Require Import Base.Result Base.Bytes Model.Collect.
Cd "../extract/ml".
Extraction "c10.ml"
  Model.Collect.collect_v Model.Collect.orig Model.Collect.fixed Model.Collect.collect
  Model.Collect.frame_info Model.Collect.frame_pdus Model.Collect.enc_frame Model.Collect.receive
  Model.Collect.ldl_sendto Model.Collect.dlc_send Model.Collect.llc_clamp_miu
  Model.Collect.plen Model.Collect.hsize Model.Collect.learn_miu Model.Collect.learn_conn_miu.
Cd "../../coq".
