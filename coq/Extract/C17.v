(* Extraction of the executable LLCP address-table model for the C17 correspondence check.
   ExtrOcamlBasic only; Z/positive/nat stay extracted inductives. No Extract Constant. *)
Require Extraction.
Require Import ExtrOcamlBasic.
From NV Require Import Base.Result Base.Bytes Base.PyPrims Model.Addr.
Cd "../extract/ml".
Extraction "c17.ml"
  Model.Addr.step Model.Addr.init_sys Model.Addr.name_valid Model.Addr.wks
  Model.Addr.get_side Model.Addr.sap_get Model.Addr.pdu_isize.
Cd "../../coq".
