(* Extraction of the LlcLife segment function / transition system for the correspondence run.
   ExtrOcamlBasic only. No Extract Constant. *)
Require Extraction.
Require Import ExtrOcamlBasic.
From NV Require Import Base.Result Model.LlcLife.
Cd "../extract/ml".
Extraction "c09.ml"
  Model.LlcLife.seg Model.LlcLife.tco_close Model.LlcLife.close_conds Model.LlcLife.set_popped
  Model.LlcLife.step Model.LlcLife.run Model.LlcLife.init Model.LlcLife.waiting Model.LlcLife.good
  Model.LlcLife.needs_llc_lock.
Cd "../../coq".
