(* Extraction of the executable Type 3 / Type 4 tag models for the C01-C03 correspondence checks.
   ExtrOcamlBasic only; Z/positive/nat stay extracted inductives. No Extract Constant. *)
Require Extraction.
Require Import ExtrOcamlBasic.
From NV Require Import Base.Result Base.Bytes Base.PyPrims Proofs.Chunks Model.T3T Model.T4T.
Cd "../extract/ml".
Extraction "tags_blk.ml"
  Model.T3T.attr_parse Model.T3T.attr_build Model.T3T.rd_frame Model.T3T.wr_frame Model.T3T.t3_rsp
  Model.T3T.mkPtag Model.T3T.p_idm Model.T3T.pt_read_ndef Model.T3T.pt_write_ndef Model.T3T.pt_set_octets Model.T3T.pt_fresh
  Model.T3T.t3_plan
  Model.T3T.mkEmu Model.T3T.e_idm Model.T3T.emu_process Model.T3T.em_read_ndef Model.T3T.em_set_octets Model.T3T.em_fresh
  Model.T4T.apdu_of_op Model.T4T.mkCard Model.T4T.new_session Model.T4T.t4_read_ndef Model.T4T.t4_set_octets
  Model.T4T.t4_format Model.T4T.t4_fresh Model.T4T.cc_parse.
Cd "../../coq".
