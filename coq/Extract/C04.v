(* Extraction of the NFC-DEP model for the C04 correspondence run.
   ExtrOcamlBasic only; no Extract Constant. *)
Require Extraction.
Require Import ExtrOcamlBasic.
From NV Require Import Base.Result Base.Bytes Model.Dep.
Cd "../extract/ml".
Extraction "c04.ml"
  Model.Dep.conversation Model.Dep.mk_icfg Model.Dep.mk_tcfg Model.Dep.mkicfg Model.Dep.mktcfg
  Model.Dep.decode_frame_ini Model.Dep.decode_frame_tgt Model.Dep.encode_frame Model.Dep.enc_pdu.
Cd "../../coq".
