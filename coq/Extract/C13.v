(* Extraction of the executable C13 models: DrvMap (status -> exception maps) and the ExnCheck
   analysis applied to the regenerated driver skeletons.  ExtrOcamlBasic only. *)
Require Extraction.
Require Import ExtrOcamlBasic.
From NV Require Import Skel.ExnSyntax Skel.ExnCheck Gen.DriverSkel Model.DrvMap.
Cd "../extract/ml".
Extraction "c13.ml"
  Model.DrvMap.pn53x_status_outcome Model.DrvMap.pn53x_errframe_outcome Model.DrvMap.pn53x_ioerror_map
  Model.DrvMap.rcs380_status_outcome Model.DrvMap.rcs380_bytes_outcome Model.DrvMap.rcs380_setup_outcome
  Model.DrvMap.pn53x_readreg_outcome Model.DrvMap.rcs380_payload_outcome
  Model.DrvMap.tt3_poll Model.DrvMap.tt1_fifo_outcome
  Model.DrvMap.udp_outcome Model.DrvMap.allowed
  Skel.ExnCheck.escapes Skel.ExnCheck.closedb Skel.ExnCheck.summary_okb Skel.ExnCheck.solution
  Gen.DriverSkel.driver_programs Gen.DriverSkel.class_names Gen.DriverSkel.documented_classes.
Cd "../../coq".
