(* Lifting a computed finite sweep to a bounded universal statement. *)
From Coq Require Import ZArith List Bool Lia.
Ltac Zify.zify_post_hook ::= Z.to_euclidean_division_equations.
Import ListNotations.
Open Scope Z_scope.

Definition zseq (a : Z) (n : nat) : list Z := map (fun i => a + Z.of_nat i) (seq 0 n).
Lemma in_zseq a n x : a <= x < a + Z.of_nat n -> In x (zseq a n).
Proof. intro H. unfold zseq. apply in_map_iff. exists (Z.to_nat (x - a)). split; [lia|].
  apply in_seq. lia. Qed.
Lemma sweep_lift (P : Z -> bool) a n :
  forallb P (zseq a n) = true -> forall x, a <= x < a + Z.of_nat n -> P x = true.
Proof. intros H x Hx. rewrite forallb_forall in H. apply H, in_zseq, Hx. Qed.

(* two-level sweep over 0 <= x < 65536 without any large nat *)
Definition sweep16 (P : Z -> bool) : bool :=
  forallb (fun h => forallb (fun l => P (256 * h + l)) (zseq 0 256)) (zseq 0 256).
Lemma sweep16_lift (P : Z -> bool) : sweep16 P = true -> forall x, 0 <= x < 65536 -> P x = true.
Proof.
  intros H x Hx. unfold sweep16 in H.
  assert (Hh : 0 <= x / 256 < 0 + Z.of_nat 256) by (cbn; lia).
  assert (Hl : 0 <= x mod 256 < 0 + Z.of_nat 256) by (cbn; lia).
  pose proof (sweep_lift _ 0 256 H (x / 256) Hh) as H1. cbv beta in H1.
  pose proof (sweep_lift _ 0 256 H1 (x mod 256) Hl) as H2. cbv beta in H2.
  replace (256 * (x / 256) + x mod 256) with x in H2 by lia. exact H2.
Qed.
