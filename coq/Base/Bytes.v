(* Byte strings are lists of Z with a side predicate; checked accessors only. *)
From Coq Require Import ZArith List Bool Lia.
From NV Require Import Base.Result.
Import ListNotations.
Open Scope Z_scope.

Definition byte_ok (b : Z) : Prop := 0 <= b < 256.
Definition bytes_ok (l : list Z) : Prop := Forall byte_ok l.
Definition byte_okb (b : Z) : bool := (0 <=? b) && (b <? 256).
Definition bytes_okb (l : list Z) : bool := forallb byte_okb l.

Lemma byte_okb_spec b : byte_okb b = true <-> byte_ok b.
Proof. unfold byte_okb, byte_ok. rewrite andb_true_iff, Z.leb_le, Z.ltb_lt. tauto. Qed.
Lemma bytes_okb_spec l : bytes_okb l = true <-> bytes_ok l.
Proof. unfold bytes_okb, bytes_ok. rewrite forallb_forall, Forall_forall.
  split; intros H x Hx; apply byte_okb_spec, H, Hx. Qed.

Definition len {A} (l : list A) : Z := Z.of_nat (length l).
Lemma len_nonneg {A} (l : list A) : 0 <= len l. Proof. unfold len; lia. Qed.
Lemma len_app {A} (a b : list A) : len (a ++ b) = len a + len b.
Proof. unfold len. rewrite app_length. lia. Qed.
Lemma len_cons {A} (x : A) l : len (x :: l) = 1 + len l.
Proof. unfold len. cbn [length]. lia. Qed.
Lemma len_nil {A} : len (@nil A) = 0. Proof. reflexivity. Qed.

(* Python l[i] for i >= 0 (negative indices are modelled where used) *)
Definition idx (l : list Z) (i : Z) : res Z :=
  if i <? 0 then Crash IndexErr else
  match nth_error l (Z.to_nat i) with Some x => Ok x | None => Crash IndexErr end.

(* Python slice l[a:b] for 0 <= a, clipped like Python *)
Definition slice {A} (l : list A) (a b : Z) : list A :=
  firstn (Z.to_nat (Z.max 0 (b - Z.max 0 a))) (skipn (Z.to_nat (Z.max 0 a)) l).
Definition drop {A} (n : Z) (l : list A) : list A := skipn (Z.to_nat n) l.
Definition take {A} (n : Z) (l : list A) : list A := firstn (Z.to_nat n) l.

Definition sum (l : list Z) : Z := fold_left Z.add l 0.
Lemma fold_add_acc l : forall a, fold_left Z.add l a = a + fold_left Z.add l 0.
Proof. induction l as [|x l IH]; intro a; cbn; [lia|]. rewrite IH, (IH x). lia. Qed.
Lemma sum_cons x l : sum (x :: l) = x + sum l.
Proof. unfold sum. cbn. rewrite fold_add_acc. lia. Qed.
Lemma sum_app a b : sum (a ++ b) = sum a + sum b.
Proof. induction a as [|x a IH]; [reflexivity|]. rewrite <- app_comm_cons, !sum_cons, IH. lia. Qed.
Lemma sum_nil : sum [] = 0. Proof. reflexivity. Qed.

Lemma bytes_ok_app a b : bytes_ok (a ++ b) <-> bytes_ok a /\ bytes_ok b.
Proof. apply Forall_app. Qed.
Lemma bytes_ok_cons x l : bytes_ok (x :: l) <-> byte_ok x /\ bytes_ok l.
Proof. unfold bytes_ok. split; [intro H; inversion H; auto | intros [? ?]; constructor; auto]. Qed.

Lemma take_len_app {A} (a b : list A) : take (len a) (a ++ b) = a.
Proof. unfold take, len. rewrite Nat2Z.id, firstn_app, Nat.sub_diag, firstn_all. cbn. apply app_nil_r. Qed.
Lemma drop_len_app {A} (a b : list A) : drop (len a) (a ++ b) = b.
Proof. unfold drop, len. rewrite Nat2Z.id, skipn_app, Nat.sub_diag, skipn_all. reflexivity. Qed.
