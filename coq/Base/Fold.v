From Coq Require Import List.
(* relating two folds with different state shapes (generated code carries dead variables) *)
Lemma fold_left_rel {A B X} (R : A -> B -> Prop) (f : A -> X -> A) (g : B -> X -> B) l :
  (forall a b x, R a b -> R (f a x) (g b x)) -> forall a b, R a b -> R (fold_left f l a) (fold_left g l b).
Proof. intro H. induction l as [|x l IH]; intros a b Hab; cbn; [exact Hab|]. apply IH, H, Hab. Qed.
Lemma fold_left_rel_in {A B X} (R : A -> B -> Prop) (f : A -> X -> A) (g : B -> X -> B) l :
  (forall a b x, In x l -> R a b -> R (f a x) (g b x)) -> forall a b, R a b -> R (fold_left f l a) (fold_left g l b).
Proof. induction l as [|x l IH]; intros H a b Hab; cbn; [exact Hab|].
  apply IH; [intros; apply H; [right|]; assumption | apply H; [left; reflexivity | exact Hab]]. Qed.
