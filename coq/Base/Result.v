(* Crash-explicit results: what Python does at a partial primitive is a value. *)
From Coq Require Import ZArith List.
Import ListNotations.

(* documented exception classes (Err) *)
Inductive err :=
| DecodeError | ProtocolError | TransmissionError | TimeoutError | BrokenLinkError
| IOErr | TagCommandError (errno : Z) | LlcpError (errno : Z) | ValueError
| CommunicationError | ChipsetError (errno : Z) | UnsupportedTarget | RuntimeErr.

(* what CPython raises from an unintended partial operation (Crash) *)
Inductive crash :=
| IndexErr | UnpackErr | NoneSubscript | NoneAttr | Unbound | RangeStep0
| RecursionErr | AssertErr | TypeErr | ValueErr | StructErr | AttributeErr | KeyErr.

Inductive res (A : Type) :=
| Ok (a : A) | Err (e : err) | Crash (c : crash) | Hang.
Arguments Ok {A} a. Arguments Err {A} e. Arguments Crash {A} c. Arguments Hang {A}.

Definition bind {A B} (r : res A) (f : A -> res B) : res B :=
  match r with Ok a => f a | Err e => Err e | Crash c => Crash c | Hang => Hang end.
Notation "'do' x <- r ; k" := (bind r (fun x => k)) (at level 200, x pattern, r at level 100, k at level 200).

Definition is_crash {A} (r : res A) : bool := match r with Crash _ | Hang => true | _ => false end.
Definition is_ok {A} (r : res A) : bool := match r with Ok _ => true | _ => false end.
