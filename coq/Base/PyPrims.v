(* Total versions of the Python primitives the kernel translator emits. *)
From Coq Require Import ZArith List Bool Lia ZifyBool.
From NV Require Import Base.Bytes.
Import ListNotations.
Open Scope Z_scope.

Definition zrange (a b : Z) : list Z := map (fun i => a + Z.of_nat i) (seq 0 (Z.to_nat (b - a))).
Lemma zrange_nil a b : b <= a -> zrange a b = [].
Proof. intro. unfold zrange. replace (Z.to_nat (b-a)) with 0%nat by lia. reflexivity. Qed.
Lemma zrange_cons a b : a < b -> zrange a b = a :: zrange (a+1) b.
Proof. intro. unfold zrange. replace (Z.to_nat (b-a)) with (S (Z.to_nat (b-(a+1)))) by lia.
  cbn [seq map]. f_equal; [lia|]. rewrite <- seq_shift, map_map. apply map_ext. intro; lia. Qed.
Lemma zrange_snoc a b : a <= b -> zrange a (b+1) = zrange a b ++ [b].
Proof. intro. unfold zrange. replace (Z.to_nat (b+1-a)) with (Z.to_nat (b-a) + 1)%nat by lia.
  rewrite seq_app, map_app. cbn. f_equal. f_equal. lia. Qed.
Lemma zrange_len a b : Z.of_nat (length (zrange a b)) = Z.max 0 (b - a).
Proof. unfold zrange. rewrite map_length, seq_length. lia. Qed.
Lemma in_zrange a b x : In x (zrange a b) <-> a <= x < b.
Proof. unfold zrange. rewrite in_map_iff. split.
  - intros (i & <- & Hi). apply in_seq in Hi. lia.
  - intro H. exists (Z.to_nat (x - a)). split; [lia|]. apply in_seq. lia. Qed.

(* Python slice index normalisation *)
Definition norm_idx (n i : Z) : Z := if i <? 0 then Z.max 0 (i + n) else Z.min i n.
Definition pyslice {A} (l : list A) (a b : Z) : list A :=
  let n := len l in let a' := norm_idx n a in let b' := norm_idx n b in
  firstn (Z.to_nat (b' - a')) (skipn (Z.to_nat a') l).
(* total indexing (kernels translated with pyidx must be shown in-range by the
   bridge lemma or be used only where the model has a checked accessor) *)
Definition pyidx (l : list Z) (i : Z) : Z :=
  let j := if i <? 0 then i + len l else i in
  if j <? 0 then 0 else nth (Z.to_nat j) l 0.

Fixpoint list_eqb (a b : list Z) : bool :=
  match a, b with
  | [], [] => true
  | x :: a', y :: b' => (x =? y) && list_eqb a' b'
  | _, _ => false
  end.
Lemma list_eqb_eq a : forall b, list_eqb a b = true <-> a = b.
Proof. induction a as [|x a IH]; destruct b as [|y b]; cbn; try (split; congruence).
  rewrite andb_true_iff, Z.eqb_eq, IH. split; [intros [-> ->]; reflexivity | intro H; inversion H; auto]. Qed.

Lemma pyslice_0 {A} (l : list A) (b : Z) : 0 <= b -> pyslice l 0 b = slice l 0 b.
Proof.
  intro Hb. unfold pyslice, slice, norm_idx. pose proof (len_nonneg l) as Hn.
  change (0 <? 0) with false. cbv iota.
  replace (b <? 0) with false by lia.
  rewrite (Z.min_l 0) by lia. cbn [Z.to_nat skipn]. rewrite (Z.max_r 0 0) by lia.
  rewrite !Z.sub_0_r, (Z.max_r 0 b) by lia. cbn [Z.to_nat skipn].
  destruct (Z.le_gt_cases b (len l)).
  - rewrite Z.min_l by lia. reflexivity.
  - rewrite Z.min_r by lia. unfold len in *.
    rewrite !firstn_all2; try reflexivity; lia.
Qed.

(* struct.pack fields (total; Python raises struct.error outside the field's range) *)
Definition pack_u8 (n : Z) : list Z := [n].
Definition pack_be16 (n : Z) : list Z := [n / 256; n mod 256].
Definition pack_le16 (n : Z) : list Z := [n mod 256; n / 256].
Definition pack_le32 (n : Z) : list Z := [n mod 256; (n / 256) mod 256; (n / 65536) mod 256; (n / 16777216) mod 256].
Definition pack_be32 (n : Z) : list Z := [(n / 16777216) mod 256; (n / 65536) mod 256; (n / 256) mod 256; n mod 256].

(* bytes.startswith and struct.unpack(">H", x)[0] (total: Python raises struct.error unless len x = 2) *)
Definition py_startswith (l p : list Z) : bool := list_eqb (firstn (length p) l) p.
Definition unpack_be16 (l : list Z) : Z := pyidx l 0 * 256 + pyidx l 1.
Definition unpack_le32 (l : list Z) : Z := pyidx l 0 + 256 * pyidx l 1 + 65536 * pyidx l 2 + 16777216 * pyidx l 3.
