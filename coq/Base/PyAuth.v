(* Total versions of the Python constructs used around the crypto calls of the tag classes that the
   C20 kernel generator (translate/kspec_c20.py) emits: slices with step -1, the
   grouping idiom "zip over k references to one iterator".  Facts about them that do not depend on any model. *)
From Coq Require Import ZArith List Bool Lia.
From NV Require Import Base.Bytes Base.PyPrims.
Import ListNotations.
Open Scope Z_scope.

(* index normalisation of s[lo:hi:-1]: into [-1, n-1] *)
Definition norm_neg (n i : Z) : Z :=
  let j := if i <? 0 then i + n else i in
  if j <? 0 then -1 else if n <=? j then n - 1 else j.

(* s[lo:hi:-1] (None = bound omitted): the elements start, start-1, .., stop+1 *)
Definition pyslice_neg {A} (l : list A) (lo hi : option Z) : list A :=
  let n := len l in
  let start := match lo with None => n - 1 | Some i => norm_neg n i end in
  let stop := match hi with None => -1 | Some i => norm_neg n i end in
  rev (slice l (stop + 1) (start + 1)).

(* zip over k references to iter(s): consecutive groups of k, an incomplete tail is dropped *)
Fixpoint pychunks_fuel {A} (fuel k : nat) (l : list A) : list (list A) :=
  match fuel with
  | O => []
  | S f => if (length l <? k)%nat then [] else firstn k l :: pychunks_fuel f k (skipn k l)
  end.
Definition pychunks {A} (k : Z) (l : list A) : list (list A) := pychunks_fuel (length l) (Z.to_nat k) l.

(* s[:-9:-1] is the last eight elements in reverse order, for every length *)
Lemma pyslice_neg_tail8 {A} (l : list A) : pyslice_neg l None (Some (-9)) = firstn 8 (rev l).
Proof.
  unfold pyslice_neg, norm_neg, slice. change (-9 <? 0) with true. cbv iota.
  pose proof (len_nonneg l) as Hn. rewrite firstn_rev.
  destruct (-9 + len l <? 0) eqn:E.
  - apply Z.ltb_lt in E. replace (len l <=? -9 + len l) with false by (symmetry; apply Z.leb_gt; lia).
    change (-1 + 1) with 0. cbn [Z.max Z.to_nat skipn].
    replace (length l - 8)%nat with 0%nat by (unfold len in *; lia). cbn [skipn].
    f_equal. apply firstn_all2. unfold len in *. lia.
  - apply Z.ltb_ge in E. replace (len l <=? -9 + len l) with false by (symmetry; apply Z.leb_gt; lia).
    f_equal. rewrite !Z.max_r by lia.
    replace (Z.to_nat (-9 + len l + 1)) with (length l - 8)%nat by (unfold len in *; lia).
    apply firstn_all2. rewrite skipn_length. unfold len in *. lia.
Qed.

(* struct.unpack("<H", x)[0] / (">H") for a 2-byte x (total: missing bytes read as 0) *)
Definition unpack_le16 (l : list Z) : Z := pyidx l 0 + 256 * pyidx l 1.
Definition unpack_be16 (l : list Z) : Z := 256 * pyidx l 0 + pyidx l 1.
