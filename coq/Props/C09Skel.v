(* C09 (translation tie) - the WaitCheck analysis of DESIGN.md 6.2 on the skeleton regenerated from
   src/nfc/llcp/tco.py and src/nfc/llcp/llc.py on every run (translate/skel_c09.py -> Gen/TcoSkel.v).
   Only statements; proofs in Skel/WaitCheck.v, Skel/WaitSys.v, Bridge/C09Skel.v. *)
From Coq Require Import List String Bool.
From NV Require Import Model.LlcLife Skel.WaitSyntax Skel.WaitCheck Skel.WaitSys Gen.TcoSkel Bridge.C09Skel.
Import ListNotations.

(* soundness of the syntactic check, proved once for all skeletons: in every execution (any
   interference of other threads whenever the lock is not held, every abrupt exit) each lock hold
   (i) ends in wait(c) only if the object is open at that moment and c is one of its conditions,
   (ii) notifies all conditions of the object if it has written the closed state *)
Theorem C09_waitcheck_sound : forall all s,
  waitcheck all s = true ->
  forall b hs o c', exec s (mkC 0 b b false []) hs o c' -> Forall (hold_ok all) hs.
Proof. exact waitcheck_sound. Qed.
Print Assumptions C09_waitcheck_sound.

(* its instance on the regenerated skeleton: all methods of RawAccessPoint, LogicalDataLink,
   DataLinkConnection (inherited code inlined) and ServiceDiscovery *)
Theorem C09_tco_skeleton_checked : forall name cs s, In (name, cs, s) tco_skel ->
  forall b hs o c', exec s (mkC 0 b b false []) hs o c' -> Forall (hold_ok cs) hs /\ Forall hold_coh hs.
Proof. exact tco_skel_holds_ok. Qed.
Print Assumptions C09_tco_skeleton_checked.
Theorem C09_tco_skeleton_complete :
  forallb (fun n => existsb (fun e => String.eqb n (fst (fst e))) tco_skel) required = true.
Proof. exact tco_skel_complete. Qed.
Print Assumptions C09_tco_skeleton_complete.

(* any number of threads whose steps are such holds, all schedules: a thread blocked on condition c
   of object o without a pending notification => o is not closed *)
Theorem C09_wait_sys_invariant : forall conds s0 s,
  (forall t, tblk s0 t = None) -> sreach conds s0 s ->
  forall t o c, tblk s t = Some (o, c, false) -> oshut s o = false.
Proof. exact wait_sys_invariant. Qed.
Print Assumptions C09_wait_sys_invariant.

(* the run loops of the link thread (regenerated facts): each of KeyboardInterrupt, IOError and the three
   sec errors is caught by a handler whose first action that can raise is self.terminate(<constant>) *)
Theorem C09_run_loops_terminate :
  map fst run_loop_handled = ["run_as_initiator"; "run_as_target"]%string /\
  forallb (fun e => forallb (fun c => existsb (String.eqb c) (snd e)) required_handled) run_loop_handled = true.
Proof. exact run_loops_terminate. Qed.
Print Assumptions C09_run_loops_terminate.

(* terminate() shuts down all access points inside ONE critical section of llc.lock (regenerated fact; this is
   what makes the LlcLife steps LTermBegin .. LTermEnd exclude every bind / accept-insert in between) *)
Theorem C09_terminate_one_critical_section :
  terminate_nesting = ["with self.lock"; "for i in range(63,-1,-1)"; "self.sap[i].shutdown()"; "self.sap[i] = None";
                       "self.link.SHUTDOWN = True"]%string.
Proof. exact terminate_one_critical_section. Qed.
Print Assumptions C09_terminate_one_critical_section.

(* non-vacuity: the skeleton of the repaired RawAccessPoint.recv passes; the one of the unrepaired
   method (state test before the lock is taken) is rejected *)
Definition unrepaired_raw_recv : stmt :=
  Seq (If GShut Exit Skip)
      (Try (Seq (Seq (Try (With (Seq (Try (Seq May Exit) (Wait RecvReady)) (Seq May Exit))) Skip) May) Exit) Exit).
Example C09Skel_nonvacuous :
  waitcheck conds_RawAccessPoint RawAccessPoint_recv = true /\
  waitcheck conds_RawAccessPoint unrepaired_raw_recv = false /\
  waitcheck conds_DataLinkConnection DataLinkConnection_close = true.
Proof. vm_compute. repeat split. Qed.
