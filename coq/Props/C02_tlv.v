(* C02 - An interrupted NDEF write never leaves a corrupt message: Type 1 / Type 2 tags.
   Only statements here; proofs are in Proofs/TlvLib.v, Proofs/T2T*.v, Proofs/T1T*.v.
   Power cut after the k-th state-changing command = the tag has executed the first k WRITE commands of the
   write (firstn k) and nothing else; the observer is a fresh reader of that memory. *)
From Coq Require Import ZArith List Bool.
From NV Require Import Base.Result Base.Bytes Model.TlvMem Model.T2T Proofs.TlvLib Proofs.T2TCut.
Import ListNotations.
Open Scope Z_scope.

(* every well-formed layout, every message that fits, every cut point k (k beyond the last command = complete
   write): the fresh reader sees the previous message, an empty message, or the complete new message *)
Theorem C02_t2_cut_safe : forall m d cap, wf_layout m -> t2_capacity m = Some cap -> len d <= cap -> forall k,
  let mk := apply_ws m (firstn k (snd (t2_write m d))) in
  t2_fresh mk = t2_fresh m \/ t2_fresh mk = Msg [] \/ t2_fresh mk = Msg d.
Proof. exact t2_cut_safe. Qed.
Print Assumptions C02_t2_cut_safe.

(* the same for the list of observations (cut after 0, 1, .., n commands) compared in the correspondence run *)
Theorem C02_t2_cut_obs_safe : forall m d cap, wf_layout m -> t2_capacity m = Some cap -> len d <= cap ->
  Forall (fun f => f = t2_fresh m \/ f = Msg [] \/ f = Msg d) (t2_cut_obs m d).
Proof. exact t2_cut_obs_safe. Qed.
Print Assumptions C02_t2_cut_obs_safe.

(* The length commit as it was before the repair (FF of the 3-byte length field written together with, and in
   page order before, the two length bytes) violates the property: NDEF TLV at byte 17, old message 40 bytes,
   new message 300 bytes, cut after 78 of 79 WRITE commands - the fresh reader sees 257 bytes of mixed content. *)
Definition ex_cut_mem : list Z :=
  [1;2;3;136; 5;6;7;8; 12;72;0;0; 225;16;64;0; 0; 3;40] ++ map Z.of_nat (seq 0 40) ++ [254] ++ repeat 0 468.
Definition ex_cut_new : list Z := map (fun i => Z.of_nat i mod 251 + 1) (seq 0 300).
Theorem C02_t2_cut_unrepaired_refuted :
  wf_layout ex_cut_mem /\ t2_capacity ex_cut_mem = Some 507 /\ len ex_cut_new <= 507 /\
  exists x, t2_fresh (apply_ws ex_cut_mem (firstn 78 (snd (t2_write_unrepaired ex_cut_mem ex_cut_new)))) = Msg x /\
            len x = 257 /\ x <> [] /\ Msg x <> t2_fresh ex_cut_mem /\ x <> ex_cut_new.
Proof.
  split; [vm_compute; reflexivity|]. split; [vm_compute; reflexivity|]. split; [vm_compute; discriminate|].
  eexists. split; [vm_compute; reflexivity|]. split; [vm_compute; reflexivity|].
  split; [discriminate|]. split; [vm_compute; discriminate | vm_compute; discriminate].
Qed.
Print Assumptions C02_t2_cut_unrepaired_refuted.

Example C02_t2_nonvacuous :
  wf_layout ex_cut_mem /\ t2_capacity ex_cut_mem = Some 507 /\ len ex_cut_new <= 507 /\
  length (snd (t2_write ex_cut_mem ex_cut_new)) = 80%nat /\
  t2_fresh (apply_ws ex_cut_mem (firstn 79 (snd (t2_write ex_cut_mem ex_cut_new)))) = Msg [].
Proof. repeat split; vm_compute; try reflexivity; discriminate. Qed.
