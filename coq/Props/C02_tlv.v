(* C02 - An interrupted NDEF write never leaves a corrupt message: Type 1 / Type 2 tags.
   Only statements here; proofs are in Proofs/TlvLib.v, Proofs/T2T*.v, Proofs/T1T*.v.
   Power cut after the k-th state-changing command = the tag has executed the first k WRITE commands of the
   write (firstn k) and nothing else; the observer is a fresh reader of that memory. *)
From Coq Require Import ZArith List Bool.
From NV Require Import Base.Result Base.Bytes Model.TlvMem Model.T2T Model.T1T Proofs.TlvLib Proofs.TlvPhases Proofs.T2TPhases Proofs.T2TCut Proofs.T2TRetry Proofs.T1T Proofs.T1TRetry.
Import ListNotations.
Open Scope Z_scope.

(* every well-formed layout, every message that fits, every cut point k (k beyond the last command = complete
   write): the fresh reader sees the previous message, an empty message, or the complete new message *)
Theorem C02_t2_cut_safe : forall m d cap, wf_layout m -> t2_capacity m = Some cap -> len d <= cap -> forall k,
  let mk := apply_ws m (firstn k (snd (t2_write m d))) in
  t2_fresh mk = t2_fresh m \/ t2_fresh mk = Msg [] \/ t2_fresh mk = Msg d.
Proof. exact t2_cut_safe. Qed.
Print Assumptions C02_t2_cut_safe.

(* the same for the list of observations (cut after 0, 1, .., n commands) compared in the correspondence run *)
Theorem C02_t2_cut_obs_safe : forall m d cap, wf_layout m -> t2_capacity m = Some cap -> len d <= cap ->
  Forall (fun f => f = t2_fresh m \/ f = Msg [] \/ f = Msg d) (t2_cut_obs m d).
Proof. exact t2_cut_obs_safe. Qed.
Print Assumptions C02_t2_cut_obs_safe.

(* The length commit as it was before the repair (FF of the 3-byte length field written together with, and in
   page order before, the two length bytes) violates the property: NDEF TLV at byte 17, old message 40 bytes,
   new message 300 bytes, cut after 78 of 79 WRITE commands - the fresh reader sees 257 bytes of mixed content. *)
Definition ex_cut_mem : list Z :=
  [1;2;3;136; 5;6;7;8; 12;72;0;0; 225;16;64;0; 0; 3;40] ++ map Z.of_nat (seq 0 40) ++ [254] ++ repeat 0 468.
Definition ex_cut_new : list Z := map (fun i => Z.of_nat i mod 251 + 1) (seq 0 300).
Theorem C02_t2_cut_unrepaired_refuted :
  wf_layout ex_cut_mem /\ t2_capacity ex_cut_mem = Some 507 /\ len ex_cut_new <= 507 /\
  exists x, t2_fresh (apply_ws ex_cut_mem (firstn 78 (snd (t2_write_unrepaired ex_cut_mem ex_cut_new)))) = Msg x /\
            len x = 257 /\ x <> [] /\ Msg x <> t2_fresh ex_cut_mem /\ x <> ex_cut_new.
Proof.
  split; [vm_compute; reflexivity|]. split; [vm_compute; reflexivity|]. split; [vm_compute; discriminate|].
  eexists. split; [vm_compute; reflexivity|]. split; [vm_compute; reflexivity|].
  split; [discriminate|]. split; [vm_compute; discriminate | vm_compute; discriminate].
Qed.
Print Assumptions C02_t2_cut_unrepaired_refuted.

Example C02_t2_nonvacuous :
  wf_layout ex_cut_mem /\ t2_capacity ex_cut_mem = Some 507 /\ len ex_cut_new <= 507 /\
  length (snd (t2_write ex_cut_mem ex_cut_new)) = 80%nat /\
  t2_fresh (apply_ws ex_cut_mem (firstn 79 (snd (t2_write ex_cut_mem ex_cut_new)))) = Msg [].
Proof. repeat split; vm_compute; try reflexivity; discriminate. Qed.

(* ---------------------------------------------------------------- Type 1.
   tt1.py commits the 3-byte length field in one synchronize, in ascending block order, so FF becomes visible before
   the two length bytes when they lie in the next block.  The repair used for tt2.py cannot be applied without
   changing tests/test_tag_tt1.py (test_write_to_dynamic_memory pins exactly that command order), therefore the model
   is the code as it is: refutation witness + the theorem under the guard that excludes that input class
   (three length bytes that do not share one write unit with each other). *)
Definition ex_t1_cut_mem : list Z :=
  [1;2;3;4;5;6;7;0; 225;16;63;0] ++ repeat 0 10 ++ [3;40] ++ map Z.of_nat (seq 0 40) ++ [254] ++ repeat 0 447.
Definition ex_t1_cut_new : list Z := map (fun i => Z.of_nat i mod 251 + 1) (seq 0 300).
Theorem C02_t1_cut_refuted :
  t1_wf_layout 18 ex_t1_cut_mem /\ t1_capacity 18 ex_t1_cut_mem = Some 462 /\ len ex_t1_cut_new <= 462 /\
  exists x, t1_fresh 18 (apply_ws ex_t1_cut_mem (firstn 40 (snd (t1_write 18 ex_t1_cut_mem ex_t1_cut_new)))) = Msg x /\
            len x = 1 /\ Msg x <> t1_fresh 18 ex_t1_cut_mem /\ x <> ex_t1_cut_new.
Proof.
  split; [vm_compute; reflexivity|]. split; [vm_compute; reflexivity|]. split; [vm_compute; discriminate|].
  eexists. split; [vm_compute; reflexivity|]. split; [vm_compute; reflexivity|].
  split; [vm_compute; discriminate | vm_compute; discriminate].
Qed.
Print Assumptions C02_t1_cut_refuted.

(* one_unit u off: the bytes off+1 .. off+3 lie in the same write unit (u = 8 for dynamic memory, 1 for static memory) *)
Theorem C02_t1_cut_safe_guarded : forall hr0 m d cap L, t1_wf_layout hr0 m -> t1_capacity hr0 m = Some cap -> len d <= cap ->
  t1_layout hr0 m = Some L -> (len d < 255 \/ one_unit (t1_unit hr0) (l_off L)) -> forall k,
  let mk := apply_ws m (firstn k (snd (t1_write hr0 m d))) in
  t1_fresh hr0 mk = t1_fresh hr0 m \/ t1_fresh hr0 mk = Msg [] \/ t1_fresh hr0 mk = Msg d.
Proof. exact t1_cut_safe. Qed.
Print Assumptions C02_t1_cut_safe_guarded.

Example C02_t1_nonvacuous :
  t1_wf_layout 18 ex_t1_cut_mem /\ (exists L, t1_layout 18 ex_t1_cut_mem = Some L /\ l_off L = 22) /\
  length (snd (t1_write 18 ex_t1_cut_mem [1;2;3])) = 3%nat /\
  t1_fresh 18 (apply_ws ex_t1_cut_mem (firstn 2 (snd (t1_write 18 ex_t1_cut_mem [1;2;3])))) = Msg [].
Proof. split; [vm_compute; reflexivity|]. split; [eexists; split; vm_compute; reflexivity|]. split; vm_compute; reflexivity. Qed.

(* ---------------------------------------------------------------- several attempts on one tag object (Type 2).
   t2_reader_ok m d (m1, F, c): tag memory m1, data_from_tag F, data_in_cache c are a state the reader of a tag object
   activated on memory m can be in while d is being assigned (Proofs/TlvRetry.v INV: every write unit of the tag holds
   what the reader believes or what the cache holds - or the new message is already complete; the length byte on the
   tag is the old one with nothing else written, or 0, or the message is complete).
   It holds initially and is preserved by EVERY attempt, whatever command fails (kf) and however (f: lost, or executed
   with the response lost), hence after any number of failed attempts; all tag memories on the way are safe. *)
Theorem C02_t2_reader_ok_init : forall m d cap, wf_layout m -> t2_capacity m = Some cap -> len d <= cap ->
  t2_reader_ok m d (m, view m, view m).
Proof. exact t2_reader_ok_init. Qed.
Print Assumptions C02_t2_reader_ok_init.

Theorem C02_t2_reader_ok_preserved : forall m d L m1 F c kf f, wfL m L -> t2_reader_ok m d (m1, F, c) ->
  let '(r, st', ex) := t2_attempt m1 L F c d kf f in
  t2_reader_ok m d st' /\ fst (fst st') = apply_ws m1 ex /\
  (forall i, safe_class m d (apply_ws m1 (firstn i ex))) /\
  (r = Ok tt -> t2_fresh (fst (fst st')) = Msg d /\ t2_capacity (fst (fst st')) = Some (l_cap L)) /\ (kf = None -> r = Ok tt).
Proof. exact t2_attempt_reader_ok. Qed.
Print Assumptions C02_t2_reader_ok_preserved.

(* after any list of failed attempts, the next attempt - cut after k2 commands, or failing again at command kf with fate f -
   leaves the previous message, an empty message or the new message for a fresh reader (safe_class), at every point *)
Theorem C02_t2_retry_cut_safe : forall m d cap faults kf f, wf_layout m -> t2_capacity m = Some cap -> len d <= cap ->
  exists L m1 F c, t2_after m d faults = Some (L, (m1, F, c)) /\ safe_class m d m1 /\
    forall k2, safe_class m d (apply_ws m1 (firstn k2 (snd (t2_attempt m1 L F c d kf f)))).
Proof. exact t2_retry_cut_safe. Qed.
Print Assumptions C02_t2_retry_cut_safe.

(* non-vacuity: 300 bytes onto the layout with the NDEF TLV at byte 17; first attempt: the commit command (80th) is executed
   but not answered, second attempt: its first command is lost; the reader has forgotten its cache, the next attempt writes again *)
Example C02_t2_retry_nonvacuous :
  exists L m1 F c, t2_after ex_cut_mem ex_cut_new [(80%nat, Unanswered); (1%nat, Lost)] = Some (L, (m1, F, c)) /\
    t2_fresh m1 = Msg ex_cut_new /\ F = view m1 /\ c = view m1 /\
    snd (t2_attempt m1 L F c ex_cut_new None Lost) <> [].
Proof. eexists. eexists. eexists. eexists. split; [vm_compute; reflexivity|]. split; [vm_compute; reflexivity|].
  split; [vm_compute; reflexivity|]. split; [vm_compute; reflexivity | vm_compute; discriminate]. Qed.

(* Type 1: invariant and retry safety under the same guard as C02_t1_cut_safe_guarded *)
Theorem C02_t1_reader_ok_preserved : forall hr0 m d L m1 F c kf f, wfL1 hr0 m L -> t1_reader_ok hr0 m d (m1, F, c) ->
  let '(r, st', ex) := t1_attempt hr0 m1 L F c d kf f in
  t1_reader_ok hr0 m d st' /\ fst (fst st') = apply_ws m1 ex /\
  (forall i, t1_safe_class hr0 m d (apply_ws m1 (firstn i ex))) /\
  (r = Ok tt -> t1_fresh hr0 (fst (fst st')) = Msg d /\ t1_capacity hr0 (fst (fst st')) = Some (l_cap L)) /\ (kf = None -> r = Ok tt).
Proof. exact t1_attempt_reader_ok. Qed.
Print Assumptions C02_t1_reader_ok_preserved.

Theorem C02_t1_retry_cut_safe_guarded : forall hr0 m d cap L faults kf f, t1_wf_layout hr0 m -> t1_capacity hr0 m = Some cap -> len d <= cap ->
  t1_layout hr0 m = Some L -> t1_guard hr0 L d ->
  exists m1 F c, t1_after hr0 m d faults = Some (L, (m1, F, c)) /\ t1_safe_class hr0 m d m1 /\
    forall k2, t1_safe_class hr0 m d (apply_ws m1 (firstn k2 (snd (t1_attempt hr0 m1 L F c d kf f)))).
Proof. exact t1_retry_cut_safe. Qed.
Print Assumptions C02_t1_retry_cut_safe_guarded.

(* ---------------------------------------------------------------- a different assignment after failed attempts.
   After the repair c02-tlv-reader-reset-after-failed-write the memory reader forgets its cache when a synchronize fails, so every
   reader_ok state is a fresh reader's state on a well-formed memory.  Hence: after any faulted attempts with data d1, an assignment
   of ANY data d2 - itself cut after k2 commands or failing at command kf with fate f - leaves for a fresh reader what the tag held
   before this assignment (m1), an empty message or d2; undisturbed (kf = None) it succeeds and reads back d2.
   (Before the repair: an assignment whose commit command was executed but not answered, followed by an assignment of other data,
   wrote the new data under the still valid length - found by the check, findings/C02.json.) *)
Theorem C02_t2_rewrite_safe : forall m d1 cap faults d2 kf f, wf_layout m -> t2_capacity m = Some cap -> len d1 <= cap -> len d2 <= cap ->
  exists L m1 F c, t2_after m d1 faults = Some (L, (m1, F, c)) /\ safe_class m d1 m1 /\
    let '(r, st', ex) := t2_attempt m1 L F c d2 kf f in
    (forall k2, safe_class m1 d2 (apply_ws m1 (firstn k2 ex))) /\
    (kf = None -> r = Ok tt /\ t2_fresh (apply_ws m1 ex) = Msg d2 /\ t2_capacity (apply_ws m1 ex) = Some cap).
Proof. exact t2_rewrite_safe. Qed.
Print Assumptions C02_t2_rewrite_safe.

Theorem C02_t1_rewrite_safe_guarded : forall hr0 m d1 cap L faults d2 kf f, t1_wf_layout hr0 m -> t1_capacity hr0 m = Some cap ->
  len d1 <= cap -> len d2 <= cap -> t1_layout hr0 m = Some L -> t1_guard hr0 L d1 -> t1_guard hr0 L d2 ->
  exists m1 F c, t1_after hr0 m d1 faults = Some (L, (m1, F, c)) /\ t1_safe_class hr0 m d1 m1 /\
    let '(r, st', ex) := t1_attempt hr0 m1 L F c d2 kf f in
    (forall k2, t1_safe_class hr0 m1 d2 (apply_ws m1 (firstn k2 ex))) /\
    (kf = None -> r = Ok tt /\ t1_fresh hr0 (apply_ws m1 ex) = Msg d2 /\ t1_capacity hr0 (apply_ws m1 ex) = Some cap).
Proof. exact t1_rewrite_safe. Qed.
Print Assumptions C02_t1_rewrite_safe_guarded.
