(* C18 - connect() and sense() honour their documented contract.
   Only statements here; proofs are in Proofs/ConnectSense.v, Proofs/Connect.v, Proofs/ConnectTrace.v,
   Proofs/ConnectFuel.v.  The model (Model/Connect.v) is a function of the option dictionaries and of
   an environment oracle (streams of terminate() results, callback return values, driver / activation /
   presence / run-loop / command-loop outcomes); every theorem quantifies over ALL of them.
   [r <> Hang] excludes only runs cut by the explicit fuel (C18_connect_no_hang: enough fuel never hangs).

   Vocabulary (defined in Proofs/Connect.v):
     cbs l            the callback invocations of trace l in order (default callbacks included)
     held_after h cs  automaton over callbacks: an on-connect that returns a true value must be
                      followed by the on-release of the same block before any other callback; an
                      on-release is only accepted in that position.  Some None = accepted, nothing pending
     spec_result l    documented reading of the result: the FIRST of  exception raised (IOError /
                      UnsupportedTargetError / KeyboardInterrupt -> False, others propagate),
                      on-connect returned a false value (-> the tag/llc/emulation object),
                      on-release called (-> True); none of them -> None
     quiet e          e starts no discovery / activation step (mute, sense_*, listen_*, activate, emulate)
     seg b l fin      l contains only events of block b and its callbacks are one of
                      [] | discover | discover connect | discover connect(true) release |
                      (llcp: connect | connect(true) release); all but the first two only with
                      fin = the segment ends connect(); "connect" without release as last callback:
                      it returned a false value (object returned) or an exception ended the hold phase
     rounds           terminate() poll, then the rdwr, llcp, card segments in this order, repeated *)
From Coq Require Import ZArith List Bool.
From NV Require Import Model.Connect Proofs.ConnectSense Proofs.Connect Proofs.ConnectTrace Proofs.ConnectFuel
  Skel.ConnectSyntax Skel.ConnectRun Gen.ConnectSkel Bridge.Connect.
Import ListNotations.

(* --- callback order: on-startup (llcp, rdwr, card) first, then per round rdwr, llcp, card with
       discover, connect, release in this order inside a block --- *)
Theorem C18_connect_trace_shape : forall o fuel inner s r l s',
  connect true o fuel inner s = (r, l, s') -> r <> Hang ->
  exists pre body, l = pre ++ body /\ startup_shape pre /\
    (body = [EvRaise XTypeError] \/ body = [] \/ rounds (o_term o) body).
Proof. exact connect_trace_shape_proof. Qed.
Print Assumptions C18_connect_trace_shape.

(* --- on-release exactly once for every on-connect that returned a true value, after it and before
       any other callback, and never otherwise.  The one documented way out: an exception (IOError,
       KeyboardInterrupt) that ends the hold phase terminates connect() with False; on-release is then
       not called for that last on-connect (the documentation of on-release names only "communication
       has become impossible" and "terminate returned true").
       release_ok r x :=  x = Some None  \/  ((exists b, x = Some (Some b)) /\ r = Ret RFalse)

       The literal reading without this exception clause,
         forall ..., connect true o fuel inner s = (r, l, s') -> r <> Hang -> held_after None (cbs l) = Some None,
       is false of the code as it is: witness C18_release_skipped_by_exception below (IOError out of the
       presence check).  Decision recorded in the C18 report: not a defect, the documentation does not
       promise on-release in that case. --- *)
Theorem C18_release_iff_connect_true : forall o fuel inner s r l s',
  connect true o fuel inner s = (r, l, s') -> r <> Hang -> release_ok r (held_after None (cbs l)).
Proof. exact release_iff_connect_true_proof. Qed.
Print Assumptions C18_release_iff_connect_true.
Theorem C18_release_count : forall o fuel inner s r l s',
  connect true o fuel inner s = (r, l, s') -> r <> Hang ->
  n_release (cbs l) = n_connect_true (cbs l) \/ (r = Ret RFalse /\ S (n_release (cbs l)) = n_connect_true (cbs l)).
Proof. exact release_count_proof. Qed.
Print Assumptions C18_release_count.

(* --- None / False / True / object exactly by the documented cases --- *)
Theorem C18_connect_result : forall o fuel inner s r l s',
  connect true o fuel inner s = (r, l, s') -> r <> Hang -> r = spec_result l.
Proof. exact connect_result_proof. Qed.
Print Assumptions C18_connect_result.
Theorem C18_connect_nodev : forall o fuel inner s,
  connect false o fuel inner s = (Raise XIOError, [EvRaise XIOError], s).
Proof. exact connect_nodev. Qed.
Print Assumptions C18_connect_nodev.

(* --- once terminate() has returned true nothing is started any more --- *)
Theorem C18_connect_stops : forall o fuel inner s r l s',
  connect true o fuel inner s = (r, l, s') -> r <> Hang ->
  forall before after, l = before ++ EvTerm true :: after -> forallb quiet after = true.
Proof. exact connect_stops_proof. Qed.
Print Assumptions C18_connect_stops.

(* --- the explicit fuel is no restriction: a terminate() stream that ends in true needs at most
       one main-loop pass and one inner-loop pass per answer --- *)
Theorem C18_connect_no_hang : forall o fuel inner s r l s',
  o_term o = true -> s_termd s = true -> length (s_term s) < fuel -> length (s_term s) < inner ->
  connect true o fuel inner s = (r, l, s') -> r <> Hang.
Proof. exact connect_no_hang_proof. Qed.
Print Assumptions C18_connect_no_hang.

(* --- sense() --- *)
Theorem C18_sense_no_unsupported_multi : forall dev call ts iters tb stored,
  length ts <> 1 -> fst (fst (sense dev call ts iters tb stored)) <> Raise XUnsupported.
Proof. exact sense_no_unsupported_multi_proof. Qed.
Print Assumptions C18_sense_no_unsupported_multi.

(* the target returned is the first acceptable driver answer in the order iteration by iteration,
   argument by argument; it is what is stored for exchange() *)
Theorem C18_sense_first_in_order : forall call ts iters tb stored t l s',
  sense true call ts iters tb stored = (Ret (Some t), l, s') ->
  exists i j tj d p,
    t = RemoteT call i j p /\ i < niter iters /\ nth_error ts j = Some tj /\ dispatch_of tj = DCall d /\
    accepted d (lookup tb i j) = Some p /\
    (forall i' j', i' < i \/ (i' = i /\ j' < j) -> no_answer tb ts i' j') /\
    s' = Some t.
Proof. exact sense_first_in_order_proof. Qed.
Print Assumptions C18_sense_first_in_order.
Theorem C18_sense_none_complete : forall call ts iters tb stored l s',
  sense true call ts iters tb stored = (Ret None, l, s') ->
  (forall i j, i < niter iters -> no_answer tb ts i j) /\ s' = None.
Proof. exact sense_none_complete_proof. Qed.
Print Assumptions C18_sense_none_complete.

(* the field is off when nothing was found: the last driver call is mute() *)
Theorem C18_sense_field_off_when_none : forall call ts iters tb stored l s',
  sense true call ts iters tb stored = (Ret None, l, s') -> exists l', l = l' ++ [EvMute].
Proof. exact sense_field_off_when_none_proof. Qed.
Print Assumptions C18_sense_field_off_when_none.

(* --- exchange() uses exactly what the latest sense()/listen() that reached the device left behind
       (its result, or nothing when it found nothing or raised), for every history --- *)
Theorem C18_target_fresh : forall ops pre r l s post,
  run_history true h0 ops = pre ++ ResData r l s :: post ->
  exchange_uses (latest_from None pre) r l.
Proof. exact target_fresh_proof. Qed.
Print Assumptions C18_target_fresh.

(* --- translation tie: the model functions ARE the interpreter Skel/ConnectRun.v applied to the control
       skeleton that translate/kspec_c18.py cut out of src/nfc/clf/__init__.py on this run (Gen/ConnectSkel.v):
       order of the observable actions on every path, the except clauses and their return values, the
       decision expressions, the option preparation, the sense / listen / exchange tables --- *)
Theorem C18_bridge_rdwr_connect : forall fuel has rr s,
  rdwr_connect fuel has rr s = run_body (cx_rdwr fuel has rr) fuel gen_rdwr_connect s.
Proof. exact bridge_rdwr_connect. Qed.
Print Assumptions C18_bridge_rdwr_connect.
Theorem C18_bridge_llcp_connect : forall has o s,
  llcp_connect has o s = run_body (cx_llcp has o) O gen_llcp_connect s.
Proof. exact bridge_llcp_connect. Qed.
Print Assumptions C18_bridge_llcp_connect.
Theorem C18_bridge_card_connect : forall fuel has cr s,
  card_connect fuel has cr s = run_body (cx_card fuel has cr) fuel gen_card_connect s.
Proof. exact bridge_card_connect. Qed.
Print Assumptions C18_bridge_card_connect.
Theorem C18_bridge_main_loop : forall fuel inner has a s,
  main_loop fuel inner has a s = run_main (cx_main inner has a) fuel gen_main_loop s.
Proof. exact bridge_main_loop. Qed.
Print Assumptions C18_bridge_main_loop.
(* connect() as a whole: device test, option preparation in the extracted order with the extracted keep tests, main loop *)
Theorem C18_bridge_connect : forall dev o fuel inner s,
  connect dev o fuel inner s = connect_i gen_startup gen_default_targets gen_main_loop dev o fuel inner s.
Proof. exact bridge_connect. Qed.
Print Assumptions C18_bridge_connect.
Theorem C18_bridge_defaults :
  default_targets = gen_default_targets /\ gen_default_iterations = 5%Z /\ gen_default_beep = true /\
  (forall a b, gen_on_discover a b = negb (a || b)) /\
  forallb (fun e => forallb snd (se_cb_defaults e)) gen_startup = true.
Proof. exact bridge_defaults. Qed.
Print Assumptions C18_bridge_defaults.
Theorem C18_bridge_sense : forall dev call ts iters tb stored,
  sense dev call ts iters tb stored =
  sense_i gen_sense_skel (fun z => Z.to_nat (gen_sense_niter z)) dev call ts iters tb stored.
Proof. exact bridge_sense. Qed.
Print Assumptions C18_bridge_sense.
Theorem C18_bridge_listen : forall dev n t o stored, listen dev n t o stored = listen_i gen_listen_skel dev n t o stored.
Proof. exact bridge_listen. Qed.
Print Assumptions C18_bridge_listen.
Theorem C18_bridge_exchange : forall dev stored, exchange dev stored = exchange_i gen_exchange_skel dev stored.
Proof. exact bridge_exchange. Qed.
Print Assumptions C18_bridge_exchange.

(* --- non-vacuity: a run with all three blocks; a tag is found in the second round, on-connect
       returns 'x' (true), the tag leaves, on-release returns None: result True --- *)
Definition ex_opts : options :=
  {| o_rdwr := Some {| r_targets := Some [TsX; TsA]; r_startup := RsSame; r_discover := true; r_connect := true;
                       r_release := true; r_iters := Some 2%Z; r_beep := None |};
     o_llcp := Some {| l_startup := LstMissing; l_connect := false; l_release := false; l_role := RoleInitiator |};
     o_card := Some {| c_startup := CstTarget LsF; c_discover := false; c_connect := true; c_release := true |};
     o_term := true |}.
Definition ex_st : st :=
  {| s_term := [false; false; false; false]; s_termd := true; s_cbs := [VObj; VStr; VNone];
     s_sense := [[[SNone; SUnsupported]; [SNone; SCommErr]]; [[SNone; SNone]; [SNone; SFound]]]; s_ncall := 0;
     s_listen := [LNone]; s_nlisten := 0; s_tagact := [ATag]; s_present := [PYes; PNo];
     s_llcact := [LAFalse]; s_llcrun := []; s_emulate := []; s_card := [] |}.
Example C18_nonvacuous :
  let '(r, l) := run_connect true ex_opts 10 10 ex_st in
  r = Ret RTrue /\ r <> Hang /\
  cbs l = [CStartup Llcp; CStartup Rdwr; CStartup Card; CDiscover Rdwr VObj; CConnect Rdwr VStr; CRelease Rdwr VNone] /\
  spec_result l = Ret RTrue /\ n_release (cbs l) = 1.
Proof. vm_compute. repeat split; discriminate. Qed.

(* boundary of C18_release_iff_connect_true: on-release is NOT called when an exception ends the hold phase: tag found and activated, default on-connect (True), the presence
   check raises IOError -> connect() returns False and on-release was never called *)
Definition ex_opts2 : options :=
  {| o_rdwr := Some {| r_targets := Some [TsA]; r_startup := RsMissing; r_discover := false; r_connect := false;
                       r_release := true; r_iters := Some 1%Z; r_beep := None |};
     o_llcp := None; o_card := None; o_term := true |}.
Definition ex_st2 : st :=
  {| s_term := [false; false]; s_termd := true; s_cbs := []; s_sense := [[[SFound]]]; s_ncall := 0;
     s_listen := []; s_nlisten := 0; s_tagact := [ATag]; s_present := [PIOErr];
     s_llcact := []; s_llcrun := []; s_emulate := []; s_card := [] |}.
Theorem C18_release_skipped_by_exception :
  exists o fuel inner s r l s', connect true o fuel inner s = (r, l, s') /\ r <> Hang /\
    held_after None (cbs l) <> Some None /\ r = Ret RFalse.
Proof.
  exists ex_opts2, 5, 5, ex_st2. eexists. eexists. eexists. split; [vm_compute; reflexivity|].
  repeat split; vm_compute; discriminate.
Qed.
Print Assumptions C18_release_skipped_by_exception.
