(* C14 - Host-link frames and ISO 14443 CRCs are built and checked correctly.
   Only statements here; proofs are in Proofs/Crc*.v, Proofs/Frames*.v, Bridge/Crc.v. *)
From Coq Require Import ZArith List Bool.
From NV Require Import Base.Result Base.Bytes Base.PyPrims Model.Crc Model.Frames Gen.Crc
  Proofs.Crc Proofs.CrcCheck Proofs.Frames Proofs.Frames2 Bridge.Crc Gen.FramesK Bridge.FramesK Bridge.FramesP Bridge.FramesA Model.CrcPath Proofs.CrcPath Gen.CrcPathK Bridge.CrcPathK.
Import ListNotations.
Open Scope Z_scope.

(* --- CRC_A / CRC_B equal the ISO/IEC 14443-3 Annex B definition, for every message --- *)
Theorem C14_crc_equals_iso : forall data r, 0 <= r < 65536 -> bytes_ok data ->
  crc16 r data = iso_crc r data /\ 0 <= crc16 r data < 65536.
Proof. intros; apply crc16_agree; assumption. Qed.
Print Assumptions C14_crc_equals_iso.

Theorem C14_add_crc_a : forall d, bytes_ok d -> add_crc_a d = d ++ iso_crc_a d.
Proof. exact add_crc_a_iso. Qed.
Print Assumptions C14_add_crc_a.
Theorem C14_add_crc_b : forall d, bytes_ok d -> add_crc_b d = d ++ iso_crc_b d.
Proof. exact add_crc_b_iso. Qed.
Print Assumptions C14_add_crc_b.

(* a frame is accepted exactly when it carries the right CRC: a wrong CRC is never accepted *)
Theorem C14_check_crc_a_iff : forall d x y, bytes_ok d ->
  check_crc_a (d ++ [x; y]) = Ok true <-> [x; y] = iso_crc_a d.
Proof. exact check_crc_a_iff. Qed.
Print Assumptions C14_check_crc_a_iff.
Theorem C14_check_crc_b_iff : forall d x y, bytes_ok d ->
  check_crc_b (d ++ [x; y]) = Ok true <-> [x; y] = iso_crc_b d.
Proof. exact check_crc_b_iff. Qed.
Print Assumptions C14_check_crc_b_iff.

(* --- tie: the kernels regenerated from device.py on this run are the model functions --- *)
Theorem C14_bridge_calculate_crc : forall data size reg, gen_calculate_crc data size reg = calculate_crc data size reg.
Proof. exact bridge_calculate_crc. Qed.
Print Assumptions C14_bridge_calculate_crc.
Theorem C14_bridge_add_crc_a : forall d, gen_add_crc_a d = add_crc_a d.
Proof. exact bridge_add_crc_a. Qed.
Print Assumptions C14_bridge_add_crc_a.
Theorem C14_bridge_add_crc_b : forall d, gen_add_crc_b d = add_crc_b d.
Proof. exact bridge_add_crc_b. Qed.
Print Assumptions C14_bridge_add_crc_b.
Theorem C14_bridge_check_crc_a : forall d, 2 <= len d -> Ok (gen_check_crc_a d) = check_crc_a d.
Proof. exact bridge_check_crc_a. Qed.
Print Assumptions C14_bridge_check_crc_a.
Theorem C14_bridge_check_crc_b : forall d, 2 <= len d -> Ok (gen_check_crc_b d) = check_crc_b d.
Proof. exact bridge_check_crc_b. Qed.
Print Assumptions C14_bridge_check_crc_b.

(* --- tie: the frame construction statements cut out of the three drivers on this run are the model functions --- *)
Theorem C14_bridge_pn53x_build : forall cmd data, gen_pn53x_build cmd data = pn53x_build cmd data.
Proof. exact bridge_pn53x_build. Qed.
Print Assumptions C14_bridge_pn53x_build.
Theorem C14_bridge_acr122_build : forall cmd data f, acr122_build cmd data = Ok f -> gen_acr122_build cmd data = f.
Proof. exact bridge_acr122_build. Qed.
Print Assumptions C14_bridge_acr122_build.
Theorem C14_bridge_rcs380_build : forall data, gen_rcs380_build data = rcs380_build data.
Proof. exact bridge_rcs380_build. Qed.
Print Assumptions C14_bridge_rcs380_build.

(* the response validation of Chipset.command, translated statement by statement on this run, is the model
   function all the parse theorems below are about *)
Theorem C14_bridge_pn53x_parse : forall cmd frame, bytes_ok frame -> gen_pn53x_parse cmd frame = pn53x_parse cmd frame.
Proof. exact bridge_pn53x_parse. Qed.
Print Assumptions C14_bridge_pn53x_parse.

(* the same for the ACR122: ccid_xfr_block's validation of the RDR_to_PC_DataBlock (after transport.read) followed by
   command's validation of the pseudo-APDU response (after ccid_xfr_block), both translated on this run *)
Theorem C14_bridge_acr122_parse : forall cmd rsp,
  bind (gen_ccid_parse rsp) (gen_acr122_rsp_parse cmd) = acr122_parse cmd rsp.
Proof. exact bridge_acr122_parse. Qed.
Print Assumptions C14_bridge_acr122_parse.

(* --- PN53x command frames are well formed for every payload length (normal and extended) --- *)
Theorem C14_pn53x_build_ok : forall cmd data, len data <= 65533 ->
  host_frame_ok (pn53x_build cmd data) = Some ([212; cmd] ++ data).
Proof. exact pn53x_build_ok. Qed.
Print Assumptions C14_pn53x_build_ok.
Theorem C14_pn53x_build_format : forall cmd data,
  (len data < 254 -> exists rest, pn53x_build cmd data = [0; 0; 255; len data + 2; 254 - len data] ++ rest) /\
  (254 <= len data -> exists rest, pn53x_build cmd data = [0; 0; 255; 255; 255] ++ rest).
Proof. exact pn53x_build_format. Qed.
Print Assumptions C14_pn53x_build_format.

(* --- a PN53x response is accepted only if framing, checksums, TFI and response code are valid --- *)
Theorem C14_pn53x_parse_sound : forall cmd f d, bytes_ok f -> 0 <= cmd < 256 -> cmd <> 42 ->
  pn53x_parse cmd f = Ok d -> host_frame_ok f = Some ([213; cmd + 1] ++ d).
Proof. exact pn53x_parse_sound. Qed.
Print Assumptions C14_pn53x_parse_sound.
(* ... anything else raises IOError (or Chipset.Error 7Fh for the syntax-error frame), never an internal error *)
Theorem C14_pn53x_parse_total : forall cmd f, bytes_ok f ->
  match pn53x_parse cmd f with Ok _ | Err IOErr | Err (ChipsetError 127) => True | _ => False end.
Proof. exact pn53x_parse_total. Qed.
Print Assumptions C14_pn53x_parse_total.
Theorem C14_pn53x_parse_complete : forall cmd d, len d <= 65533 -> pn53x_parse cmd (pn53x_response cmd d) = Ok d.
Proof. exact pn53x_parse_complete. Qed.
Print Assumptions C14_pn53x_parse_complete.

(* --- ACR122 CCID / pseudo-APDU envelope --- *)
Theorem C14_acr122_build_ok : forall cmd data f,
  acr122_build cmd data = Ok f -> acr122_cmd_ok f = Some ([212; cmd] ++ data) /\ len data <= 253.
Proof. exact acr122_build_ok. Qed.
Print Assumptions C14_acr122_build_ok.
Theorem C14_acr122_parse_sound : forall cmd rsp d,
  acr122_parse cmd rsp = Ok d -> acr122_rsp_ok rsp = Some (([213; cmd + 1] ++ d) ++ [144; 0]).
Proof. exact acr122_parse_sound. Qed.
Print Assumptions C14_acr122_parse_sound.

(* --- RC-S380 command frames --- *)
Theorem C14_rcs380_build_ok : forall data, bytes_ok data -> len data <= 65535 ->
  rcs380_frame_ok (rcs380_build data) = Some data.
Proof. exact rcs380_build_ok. Qed.
Print Assumptions C14_rcs380_build_ok.

(* non-vacuity: concrete frames meeting the hypotheses *)
Example C14_nonvacuous :
  pn53x_parse 2 [0; 0; 255; 6; 250; 213; 3; 50; 1; 6; 7; 232; 0] = Ok [50; 1; 6; 7] /\
  host_frame_ok (pn53x_build 2 []) = Some [212; 2] /\
  check_crc_a [0x00; 0x00; 0xA0; 0x1E] = Ok true.
Proof. vm_compute. repeat split. Qed.

(* --- who verifies CRC_A on a Type A target (PN53x family): sense_tta switches the chip's check off for SEL_RES values
   that may answer with a 4-bit ACK/NAK, send_cmd_recv_rsp then takes the software path; for EVERY SEL_RES value,
   register content with RxCRCEn set and response frame, data is returned only after CRC_A was verified by one of
   the two, and exactly the CRC is removed --- *)
Theorem C14_type_a_rsp_sound : forall sel_res rxmode0 d x y out,
  bytes_ok d -> 1 <= len d -> Z.testbit rxmode0 7 = true ->
  type_a_rsp sel_res rxmode0 (d ++ [x; y]) = Ok out -> [x; y] = iso_crc_a d /\ out = d.
Proof. exact type_a_rsp_sound. Qed.
Print Assumptions C14_type_a_rsp_sound.
Theorem C14_type_a_rsp_complete : forall sel_res rxmode0 d,
  bytes_ok d -> 1 <= len d -> Z.testbit rxmode0 7 = true -> type_a_rsp sel_res rxmode0 (d ++ iso_crc_a d) = Ok d.
Proof. exact type_a_rsp_complete. Qed.
Print Assumptions C14_type_a_rsp_complete.
Example C14_type_a_rsp_nonvacuous :
  type_a_rsp [8] 136 ([1; 2; 3] ++ iso_crc_a [1; 2; 3]) = Ok [1; 2; 3] /\
  type_a_rsp [32] 136 ([1; 2; 3] ++ iso_crc_a [1; 2; 3]) = Ok [1; 2; 3] /\
  type_a_rsp [8] 136 ([1; 2; 3] ++ [0; 0]) = Err TransmissionError /\ Z.testbit 136 7 = true.
Proof. vm_compute. repeat split; reflexivity. Qed.
(* the two conditions and the software check, cut out of pn53x.py on this run *)
Theorem C14_bridge_chip_crc_off : forall s, gen_chip_crc_off s = chip_crc_off s.
Proof. exact bridge_chip_crc_off. Qed.
Print Assumptions C14_bridge_chip_crc_off.
Theorem C14_bridge_rxmode_off : forall r, gen_rxmode_off r = rxmode_off r.
Proof. exact bridge_rxmode_off. Qed.
Print Assumptions C14_bridge_rxmode_off.
Theorem C14_bridge_sw_crc_path : forall s, gen_sw_crc_path s = sw_crc_path s.
Proof. exact bridge_sw_crc_path. Qed.
Print Assumptions C14_bridge_sw_crc_path.
Theorem C14_bridge_tt2_rsp : forall data, gen_tt2_rsp data = tt2_rsp data.
Proof. exact bridge_tt2_rsp. Qed.
Print Assumptions C14_bridge_tt2_rsp.
