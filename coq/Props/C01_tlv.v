(* C01 - NDEF write then read round-trips: Type 1 / Type 2 tags (TLV structured memory).
   Only statements here; proofs are in Proofs/TlvLib.v, Proofs/T2T*.v, Proofs/T1T*.v.
   Models: Model/TlvMem.v, Model/T2T.v, Model/T1T.v (the code after the repairs listed in findings/C01.json).

   m : tag memory (list of bytes), d : NDEF message octets.
   t2_write m d     = (result of "tag.ndef.octets = d", WRITE commands executed by the tag)
   apply_ws m ws    = tag memory after the commands ws
   t2_fresh m       = what a new tag object activated on memory m reports (NoNdef | NotReadable | Msg octets)
   t2_capacity m    = ndef.capacity reported by such a reader
   wf_layout m      = well-formed layout (DESIGN.md appendix D): valid CC, data area inside the memory, the TLV chain
                      leads to an NDEF TLV whose tag/length bytes lie in the data area and are not reserved (3-byte
                      length field included when the capacity allows >= 255 bytes); reserved ranges anywhere else. *)
From Coq Require Import ZArith List Bool.
From NV Require Import Base.Result Base.Bytes Base.PyPrims Model.TlvMem Model.T2T Model.T1T Gen.TlvK
  Proofs.TlvLib Proofs.T2TWrite Proofs.TlvPhases Proofs.T2TRetry Proofs.T1T Proofs.T1TRetry Bridge.TlvK.
Import ListNotations.
Open Scope Z_scope.

(* every well-formed layout, every message of 0 .. capacity bytes: the write succeeds and a fresh reader
   reads back exactly those octets (and reports the same capacity) *)
Theorem C01_t2_write_read : forall m d cap, wf_layout m -> bytes_ok d -> t2_capacity m = Some cap -> len d <= cap ->
  let m' := apply_ws m (snd (t2_write m d)) in
  fst (t2_write m d) = Ok tt /\ t2_fresh m' = Msg d /\ t2_capacity m' = Some cap /\ len m' = len m.
Proof. exact t2_write_read. Qed.
Print Assumptions C01_t2_write_read.

(* the reported capacity never exceeds what the layout can hold: [room f] is the longest message that fits
   into f free bytes behind the tag byte (n+1 bytes for n <= 254, n+3 bytes otherwise) *)
Theorem C01_t2_capacity_sound : forall m L, wf_layout m -> t2_layout m = Some L ->
  l_cap L <= room (t2_free_after_tag L).
Proof. exact t2_capacity_sound. Qed.
Print Assumptions C01_t2_capacity_sound.

(* longer data is rejected with ValueError and no command is sent *)
Theorem C01_t2_oversize_rejected : forall m d cap, t2_capacity m = Some cap -> cap < len d ->
  (exists L, t2_layout m = Some L /\ l_wr L = true) -> t2_write m d = (Err ValueError, []).
Proof. exact t2_oversize_rejected. Qed.
Print Assumptions C01_t2_oversize_rejected.

(* non-vacuity: a 64 byte tag, lock control TLV reserving byte 23, empty NDEF TLV at byte 21 *)
Definition ex_t2 : list Z :=
  [1;2;3;136; 5;6;7;8; 12;72;0;0; 225;16;6;0;  1;3;23;8;20; 3;0; 90;254] ++ repeat 0 39.
Example C01_t2_nonvacuous :
  wf_layout ex_t2 /\ t2_capacity ex_t2 = Some 40 /\ bytes_ok [209;1;0] /\
  t2_fresh (apply_ws ex_t2 (snd (t2_write ex_t2 [209;1;0]))) = Msg [209;1;0] /\
  t2_write ex_t2 [] = (Ok tt, []).
Proof. split; [vm_compute; reflexivity|]. split; [vm_compute; reflexivity|].
  split; [apply bytes_okb_spec; vm_compute; reflexivity|]. split; vm_compute; reflexivity. Qed.

(* ---------------------------------------------------------------- Type 1 (hr0 = header ROM byte 0: 11h static
   memory written byte-wise, 12h dynamic memory written in 8 byte blocks) *)
Theorem C01_t1_write_read : forall hr0 m d cap, t1_wf_layout hr0 m -> bytes_ok d -> t1_capacity hr0 m = Some cap -> len d <= cap ->
  let m' := apply_ws m (snd (t1_write hr0 m d)) in
  fst (t1_write hr0 m d) = Ok tt /\ t1_fresh hr0 m' = Msg d /\ t1_capacity hr0 m' = Some cap /\ len m' = len m.
Proof. exact t1_write_read. Qed.
Print Assumptions C01_t1_write_read.

Theorem C01_t1_capacity_sound : forall hr0 m L, t1_wf_layout hr0 m -> t1_layout hr0 m = Some L ->
  l_cap L <= room (t1_free_after_tag L).
Proof. exact t1_capacity_sound. Qed.
Print Assumptions C01_t1_capacity_sound.

Theorem C01_t1_oversize_rejected : forall hr0 m d cap, t1_capacity hr0 m = Some cap -> cap < len d ->
  (exists L, t1_layout hr0 m = Some L /\ l_wr L = true) -> t1_write hr0 m d = (Err ValueError, []).
Proof. exact t1_oversize_rejected. Qed.
Print Assumptions C01_t1_oversize_rejected.

(* non-vacuity: a static tag (120 bytes) with a NULL TLV in front of the NDEF TLV, and a dynamic tag (512 bytes) with
   the lock-control / memory-control TLVs Topaz-512 is formatted with *)
Definition ex_t1s : list Z := [1;2;3;4;5;6;7;0; 225;16;14;0; 0; 3;0] ++ repeat 0 105.
Definition ex_t1d : list Z := [1;2;3;4;5;6;7;0; 225;16;63;0; 1;3;242;48;51; 2;3;240;2;3; 3;0] ++ repeat 0 488.
Example C01_t1_nonvacuous :
  t1_wf_layout 17 ex_t1s /\ t1_capacity 17 ex_t1s = Some 89 /\
  t1_fresh 17 (apply_ws ex_t1s (snd (t1_write 17 ex_t1s [209;1;0]))) = Msg [209;1;0] /\
  t1_wf_layout 18 ex_t1d /\ t1_capacity 18 ex_t1d = Some 462 /\
  t1_fresh 18 (apply_ws ex_t1d (snd (t1_write 18 ex_t1d (repeat 7 300)))) = Msg (repeat 7 300).
Proof. repeat split; vm_compute; reflexivity. Qed.

(* ---------------------------------------------------------------- tie: the kernels regenerated from tt1.py / tt2.py on
   this run (get_lock_byte_range, get_rsvd_byte_range, the range end and the adjustment of get_capacity) are the
   functions the models use *)
Theorem C01_bridge_lock_range : forall d0 d1 d2 rest,
  (gen_t2_lock_from (d0 :: d1 :: d2 :: rest), gen_t2_lock_to (d0 :: d1 :: d2 :: rest)) = lock_byte_range d0 d1 d2 /\
  (gen_t1_lock_from (d0 :: d1 :: d2 :: rest), gen_t1_lock_to (d0 :: d1 :: d2 :: rest)) = lock_byte_range d0 d1 d2.
Proof. intros. split; [apply bridge_t2_lock | apply bridge_t1_lock]. Qed.
Print Assumptions C01_bridge_lock_range.
Theorem C01_bridge_rsvd_range : forall d0 d1 d2 rest,
  (gen_t2_rsvd_from (d0 :: d1 :: d2 :: rest), gen_t2_rsvd_to (d0 :: d1 :: d2 :: rest)) = rsvd_byte_range d0 d1 d2 /\
  (gen_t1_rsvd_from (d0 :: d1 :: d2 :: rest), gen_t1_rsvd_to (d0 :: d1 :: d2 :: rest)) = rsvd_byte_range d0 d1 d2.
Proof. intros. split; [apply bridge_t2_rsvd | apply bridge_t1_rsvd]. Qed.
Print Assumptions C01_bridge_rsvd_range.
Theorem C01_bridge_capacity : forall size off skip,
  get_capacity (gen_t2_cap_end size) off skip = gen_t2_cap_adjust (count_free skip off (Z.to_nat (gen_t2_cap_end size - off))) /\
  get_capacity (gen_t1_cap_end size) off skip = gen_t1_cap_adjust (count_free skip off (Z.to_nat (gen_t1_cap_end size - off))) /\
  gen_t2_cap_end (size * 8) = size * 8 + 16 /\ gen_t1_cap_end size = size.
Proof. intros. split; [apply bridge_t2_capacity|]. split; [apply bridge_t1_capacity|]. split; reflexivity. Qed.
Print Assumptions C01_bridge_capacity.

(* ---------------------------------------------------------------- several attempts on one tag object (Type 2).
   The tag object keeps its memory reader (data_from_tag, data_in_cache) across assignments.  [faults] is any list of
   attempts of "tag.ndef.octets = d" that failed: the i-th one at its k-th WRITE command, which was either lost on the
   way to the tag or executed with only the response lost (an attempt with fewer commands completes).  The next,
   undisturbed attempt (t2_retry) succeeds and a fresh reader returns exactly d, with the same capacity. *)
Theorem C01_t2_retry_write_read : forall m d cap faults, wf_layout m -> bytes_ok d -> t2_capacity m = Some cap -> len d <= cap ->
  exists r m1 ws, t2_retry m d faults = Some (r, m1, ws) /\ r = Ok tt /\
    t2_fresh (apply_ws m1 ws) = Msg d /\ t2_capacity (apply_ws m1 ws) = Some cap.
Proof. exact t2_retry_write_read. Qed.
Print Assumptions C01_t2_retry_write_read.

Example C01_t2_retry_nonvacuous :
  exists m1 ws, t2_retry ex_t2 [209;1;0;7;7;7;7;7;7] [(1%nat, Lost); (2%nat, Unanswered); (3%nat, Lost)] = Some (Ok tt, m1, ws) /\
    m1 <> ex_t2 /\ ws <> [] /\ t2_fresh (apply_ws m1 ws) = Msg [209;1;0;7;7;7;7;7;7].
Proof. eexists. eexists. split; [vm_compute; reflexivity|]. split; [vm_compute; discriminate|]. split; [discriminate | vm_compute; reflexivity]. Qed.

(* Type 1: the same, under the guard of the open C02 finding when the length field has three bytes (t1_guard: one length byte,
   or the three length bytes lie in one write unit) *)
Theorem C01_t1_retry_write_read_guarded : forall hr0 m d cap L faults, t1_wf_layout hr0 m -> bytes_ok d -> t1_capacity hr0 m = Some cap ->
  len d <= cap -> t1_layout hr0 m = Some L -> t1_guard hr0 L d ->
  exists r m1 ws, t1_retry hr0 m d faults = Some (r, m1, ws) /\ r = Ok tt /\
    t1_fresh hr0 (apply_ws m1 ws) = Msg d /\ t1_capacity hr0 (apply_ws m1 ws) = Some cap.
Proof. exact t1_retry_write_read. Qed.
Print Assumptions C01_t1_retry_write_read_guarded.

Example C01_t1_retry_nonvacuous :
  exists m1 ws, t1_retry 17 ex_t1s [209;1;0;7;7] [(1%nat, Lost); (4%nat, Unanswered)] = Some (Ok tt, m1, ws) /\
    m1 <> ex_t1s /\ ws <> [] /\ t1_fresh 17 (apply_ws m1 ws) = Msg [209;1;0;7;7].
Proof. eexists. eexists. split; [vm_compute; reflexivity|]. split; [vm_compute; discriminate|]. split; [discriminate | vm_compute; reflexivity]. Qed.
