(* C05 - tie by translation (statements only; proofs in Bridge/Dlc.v).  Gen/DlcK.v is regenerated from
   src/nfc/llcp/tco.py on every run by translate/kspec_c05.py.  Kept apart from Props/C05.v so that a
   change of the source breaks exactly these obligations. *)
From Coq Require Import ZArith List Bool.
From NV Require Import Base.Result Base.Bytes Model.Dlc Gen.DlcK Bridge.Dlc.
Import ListNotations.
Open Scope Z_scope.

(* tie by translation: the kernels regenerated from tco.py on this run are the model functions *)
Theorem dlc_bridge_send_window_slots : forall x, gen_send_window_slots (rwr x) (vs x) (vsa x) = send_window_slots x.
Proof. exact bridge_send_window_slots. Qed.
Print Assumptions dlc_bridge_send_window_slots.
Theorem dlc_bridge_recv_window_slots : forall x, gen_recv_window_slots (rwl x) (vr x) (vra x) = recv_window_slots x.
Proof. exact bridge_recv_window_slots. Qed.
Print Assumptions dlc_bridge_recv_window_slots.

(* every endpoint function of the model is the same function with its sequence arithmetic and tests
   replaced by the expressions regenerated from tco.py on this run (k_* in Bridge/Dlc.v) *)
Theorem dlc_bridge_ep_send : forall x m, ep_send x m = k_ep_send x m.
Proof. exact bridge_ep_send. Qed.
Print Assumptions dlc_bridge_ep_send.
Theorem dlc_bridge_ep_recv : forall x, ep_recv x = k_ep_recv x.
Proof. exact bridge_ep_recv. Qed.
Print Assumptions dlc_bridge_ep_recv.
Theorem dlc_bridge_process_nr : forall x nr, process_nr x nr = k_process_nr x nr.
Proof. exact bridge_process_nr. Qed.
Print Assumptions dlc_bridge_process_nr.
Theorem dlc_bridge_ep_enqueue : forall x p, ep_enqueue x p = k_ep_enqueue x p.
Proof. exact bridge_ep_enqueue. Qed.
Print Assumptions dlc_bridge_ep_enqueue.
Theorem dlc_bridge_ep_sendack : forall x, ep_sendack x = k_ep_sendack x.
Proof. exact bridge_ep_sendack. Qed.
Print Assumptions dlc_bridge_ep_sendack.
Theorem dlc_bridge_necessary_ack : forall x, necessary_ack x = k_necessary_ack x.
Proof. exact bridge_necessary_ack. Qed.
Print Assumptions dlc_bridge_necessary_ack.
Theorem dlc_bridge_ep_dequeue : forall x miu icv, ep_dequeue x miu icv = k_ep_dequeue x miu icv.
Proof. exact bridge_ep_dequeue. Qed.
Print Assumptions dlc_bridge_ep_dequeue.

