(* C12 - ISO-DEP exchanges each APDU exactly once or reports a tag error.
   Only statements here; proofs are in Proofs/IsoDep.v, Proofs/IsoDepSync.v, Proofs/IsoDepLegacy.v.

   Reader  = IsoDepInitiator.exchange of tt4.py with fixes/c12-wtx-*.diff applied ([repaired k];
             the R(ACK) budget fix_rack is not assumed: the theorems hold with and without it).
   Card    = [picc_absorb]: ISO/IEC 14443-4 block rules, ANY application [app], ANY S(WTX) plan.
   Air     = ANY script of (request fate, response fate) in {deliver, lose, corrupt}.
   [in_step pn c]: reader and card block numbers in step - after activation and after every
   successful exchange ([C12_isodep_result_sound] re-establishes it), so the theorems apply to every
   exchange of a session up to and including the first one that fails.  What happens after a failed
   exchange is the known finding witnessed by [C12_after_failed_exchange_refuted]. *)
From Coq Require Import ZArith List Bool.
From NV Require Import Base.Result Base.Bytes Model.IsoDep Proofs.IsoDep Proofs.IsoDepSync Proofs.IsoDepLegacy Proofs.IsoDepApdu Proofs.IsoDepStream.
Import ListNotations.
Open Scope Z_scope.

(* no block the reader puts on the air exceeds the frame size: PCB + INF + 2 EDC bytes <= miu + 3 = FSC,
   for every command length, fault script, WTX plan and fuel *)
Theorem C12_isodep_block_bound : forall app k kc cmd pn c, repaired k -> params_ok k kc -> in_step pn c -> 0 < len cmd ->
  forall fuel sc, Forall (fun b => len b + 2 <= miu k + 3) (o_blocks (exchange app fuel k kc cmd pn c sc)).
Proof. exact exchange_block_bound. Qed.
Print Assumptions C12_isodep_block_bound.

(* ... and FSC as derived at activation never exceeds the card's frame size or what the device can send *)
Theorem C12_isodep_activation_fsc : forall fsci fwti max_send max_recv,
  let p := t4_params fsci fwti max_send max_recv in
  a_fsc p <= fsc_of (if fsci >? 8 then 8 else fsci) /\ a_fsc p <= Z.max max_send (a_fsc p) /\
  (a_fsc p <= max_send \/ a_fsc p = fsc_of (if fsci >? 8 then 8 else fsci)) /\ a_miu p = a_fsc p - 3.
Proof. exact t4_params_fsc. Qed.
Print Assumptions C12_isodep_activation_fsc.

(* without faults: every command size and response size (chaining both ways), S(WTX) at any and every
   opportunity - the APDU is executed exactly once and its complete response is returned *)
Theorem C12_isodep_nofault_exact : forall app k kc cmd pn c, repaired k -> params_ok k kc -> in_step pn c -> 0 < len cmd ->
  forall fuel sc, nofault sc -> enough_fuel app k cmd c fuel ->
  let o := exchange app fuel k kc cmd pn c sc in
  o_res o = Ok (response app c cmd) /\ execs (o_card o) = execs c ++ [cmd] /\ in_step (o_pni o) (o_card o).
Proof. exact exchange_nofault_exact. Qed.
Print Assumptions C12_isodep_nofault_exact.

(* for EVERY fault script (and fuel): the card executes the APDU at most once, and nothing else *)
Theorem C12_isodep_at_most_once : forall app k kc cmd pn c, repaired k -> params_ok k kc -> in_step pn c -> 0 < len cmd ->
  forall fuel sc, let o := exchange app fuel k kc cmd pn c sc in
  execs (o_card o) = execs c \/ execs (o_card o) = execs c ++ [cmd].
Proof. exact exchange_at_most_once. Qed.
Print Assumptions C12_isodep_at_most_once.

(* for EVERY fault script: a returned value is the complete response of the single execution of this APDU
   (never truncated, duplicated or stale) and leaves reader and card in step; anything else is
   Type4TagCommandError - no raw clf error, no crash; Hang only if the fuel was below the bound *)
Theorem C12_isodep_result_sound : forall app k kc cmd pn c, repaired k -> params_ok k kc -> in_step pn c -> 0 < len cmd ->
  forall fuel sc, let o := exchange app fuel k kc cmd pn c sc in
  match o_res o with
  | Ok r => r = response app c cmd /\ execs (o_card o) = execs c ++ [cmd] /\ in_step (o_pni o) (o_card o)
  | Err (TagCommandError _) => True
  | Hang => Z.of_nat fuel < fuel_bound app k cmd (execs c) c
  | _ => False
  end.
Proof. exact exchange_result_sound. Qed.
Print Assumptions C12_isodep_result_sound.

(* for EVERY fault script the exchange ends within fuel_bound = O((|cmd| + |response|) * budget + #WTX) rounds:
   the reader never hangs against the conformant card *)
Theorem C12_isodep_terminates : forall app k kc cmd pn c, repaired k -> params_ok k kc -> in_step pn c -> 0 < len cmd ->
  forall fuel sc, enough_fuel app k cmd c fuel ->
  let o := exchange app fuel k kc cmd pn c sc in
  o_res o = Ok (response app c cmd) \/ exists e, o_res o = Err (TagCommandError e).
Proof. exact exchange_terminates. Qed.
Print Assumptions C12_isodep_terminates.

(* "any pattern of lost or corrupted blocks the recovery rules can absorb": EVERY script with at most F faulty
   rounds (any kind, anywhere in the exchange, chaining and WTX included) is absorbed and yields the exact result
   when 2F-1 <= retry budget (budget 1: one fault, 3: two, 5: three); F = 0 is the fault-free case.
   (The code counts R(ACK)-triggered retransmissions against the same budget, hence 2F-1; patterns beyond this
   bound that the monitor classifies as absorbable are checked by the harness only.) *)
Theorem C12_isodep_absorbs : forall app k kc cmd pn c, repaired k -> params_ok k kc -> in_step pn c -> 0 < len cmd ->
  forall fuel sc F, faults sc <= F -> 2 * F - 1 <= n_nak k -> 2 * F - 1 <= n_ack k -> enough_fuel app k cmd c fuel ->
  let o := exchange app fuel k kc cmd pn c sc in
  o_res o = Ok (response app c cmd) /\ execs (o_card o) = execs c ++ [cmd] /\ in_step (o_pni o) (o_card o).
Proof. exact exchange_absorbs. Qed.
Print Assumptions C12_isodep_absorbs.

(* Type4Tag.send_apdu on top: a returned value is the response of the single execution of the encoded APDU with
   status word 9000 stripped (check_status) or included; anything else is Type4TagCommandError (status word or
   transmission failure) or the documented ValueError before anything is sent *)
Theorem C12_send_apdu_sound : forall app k kc cla ins p1 p2 data mrl check pn c,
  repaired k -> params_ok k kc -> in_step pn c ->
  forall fuel sc, let o := send_apdu app fuel k kc cla ins p1 p2 data mrl check pn c sc in
  match apdu_build cla ins p1 p2 data mrl with
  | Ok a =>
      (execs (o_card o) = execs c \/ execs (o_card o) = execs c ++ [a]) /\
      match o_res o with
      | Ok r => execs (o_card o) = execs c ++ [a] /\ in_step (o_pni o) (o_card o) /\
                (if check then response app c a = r ++ [144; 0] else response app c a = r)
      | Err (TagCommandError _) => True
      | Hang => Z.of_nat fuel < fuel_bound app k a (execs c) c
      | _ => False
      end
  | _ => o_res o = Err ValueError /\ o_card o = c /\ o_blocks o = []
  end.
Proof. exact send_apdu_sound. Qed.
Print Assumptions C12_send_apdu_sound.

(* ---- the reader as pinned (fix flags off) violates the property: concrete runs ---- *)
(* S(WTX) answered outside the try: one lost block, within the budget, escapes as raw nfc.clf.TimeoutError *)
Theorem C12_legacy_wtx_raw_timeout_refuted :
  o_res (exchange demo_app 50 k_legacy kc16 [255; 0; 0; 5] 0 (picc_init [[1]]) [(FD, FD); (FD, FL)]) = Err TimeoutError.
Proof. exact legacy_wtx_raw_timeout. Qed.
Print Assumptions C12_legacy_wtx_raw_timeout_refuted.
(* S(WTX) while the card chains its response: the exchange fails without any fault *)
Theorem C12_legacy_wtx_chaining_refuted :
  exists e, o_res (exchange demo_app 50 k_legacy kc16 [255; 0; 0; 30] 0 (picc_init [[]; [3]]) []) = Err (TagCommandError e).
Proof. exact legacy_wtx_chaining_fails. Qed.
Print Assumptions C12_legacy_wtx_chaining_refuted.
(* outside C12 (non-conformant responder, recorded for C08): without fixes/c12-rack-retransmit-budget.diff
   a responder that keeps answering R(ACK) with the other block number makes the reader send for ever *)
Theorem C12_rack_loop_unbudgeted_refuted : forall k cmd, fix_rack k = false -> 0 < miu k -> 0 < len cmd ->
  forall fuel, run_stream fuel k cmd (pcd_start k cmd 0) (fun _ => ARx [163]) 0 = Hang.
Proof. exact rack_loop_unbudgeted. Qed.
Print Assumptions C12_rack_loop_unbudgeted_refuted.

(* outside C12, for C08 ("a tag can never make the reader loop"): with all three repairs the reader stops against
   ANY responder [s] (the n-th clf.exchange yields [s n], whatever was sent) that uses at most W of the two means
   the standard gives a card to keep the reader waiting (S(WTX), chained response blocks) *)
Theorem C12_isodep_terminates_any_responder : forall k cmd,
  fix_wtx_try k = true -> fix_wtx_chain k = true -> fix_rack k = true -> 0 < miu k -> 0 <= n_nak k -> 0 <= n_ack k ->
  forall pn s W fuel, 0 < len cmd -> (forall N, wild s N <= W) ->
  (CC k + 1) * (len cmd + 2 + W) + CC k <= Z.of_nat fuel ->
  run_stream fuel k cmd (pcd_start k cmd pn) s 0 <> Hang.
Proof. exact stream_terminates. Qed.
Print Assumptions C12_isodep_terminates_any_responder.
(* ... but an S(WTX) block without WTXM byte still raises IndexError (data[1]) in the pinned code and with the
   c12 repairs alone; repaired by fixes/c08-03 (Type4TagCommandError), which Model/TagReadAnyB.v models - this
   lemma is about [pcd_absorb] without that repair; a conformant card never sends such a block *)
Theorem C12_short_wtx_crash_refuted :
  run_stream 5 k_repaired [0; 164; 0; 0] (pcd_start k_repaired [0; 164; 0; 0] 0) (fun _ => ARx [242]) 0 = Crash IndexErr /\
  run_stream 5 k_legacy [0; 164; 0; 0] (pcd_start k_legacy [0; 164; 0; 0] 0) (fun _ => ARx [242]) 0 = Crash IndexErr.
Proof. exact short_wtx_crash. Qed.
Print Assumptions C12_short_wtx_crash_refuted.

(* ---- known finding, not cured by the repairs: an exchange that follows a FAILED one ---- *)
(* reader and card may be out of step ([in_step] fails); one lost block then makes the card execute the
   APDU twice, or the caller gets the previous command's response *)
Theorem C12_after_failed_exchange_refuted :
  (map o_res after_failure_session = [Err (TagCommandError E_TIMEOUT); Ok (demo_app 2 [255; 2; 0; 5])] /\
   map (fun o => execs (o_card o)) after_failure_session = [[[255; 1; 0; 5]]; [[255; 1; 0; 5]; [255; 2; 0; 5]; [255; 2; 0; 5]]]) /\
  (map o_res after_failure_stale = [Err (TagCommandError E_TIMEOUT); Ok (demo_app 0 [255; 1; 0; 5])] /\
   map (fun o => execs (o_card o)) after_failure_stale = [[[255; 1; 0; 5]]; [[255; 1; 0; 5]]]).
Proof. exact (conj after_failed_exchange_duplicate after_failed_exchange_stale). Qed.
Print Assumptions C12_after_failed_exchange_refuted.

(* non-vacuity: a 20-byte command and 20-byte response over FSC 16 (chaining both ways), two S(WTX),
   four faulty rounds, budget 3 - meets every hypothesis above and completes *)
Example C12_nonvacuous :
  (repaired k_nv /\ params_ok k_nv kc16 /\ in_step 0 nv_card /\ 0 < len nv_cmd /\ enough_fuel demo_app k_nv nv_cmd nv_card 900) /\
  (let o := exchange demo_app 900 k_nv kc16 nv_cmd 0 nv_card nv_script in
   o_res o = Ok (demo_app 0 nv_cmd) /\ execs (o_card o) = [nv_cmd] /\ length (o_blocks o) = 10%nat).
Proof. exact (conj nv_hyps nv_run). Qed.
