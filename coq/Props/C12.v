From Coq Require Import ZArith List Bool.
From NV Require Import Base.Result Base.Bytes Model.IsoDep.
Theorem C12_placeholder : True. Proof. exact I. Qed.
Print Assumptions C12_placeholder.
