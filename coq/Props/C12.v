(* C12 - ISO-DEP exchanges each APDU exactly once or reports a tag error.
   Only statements here; proofs are in Proofs/IsoDep.v, Proofs/IsoDepSync.v, Proofs/IsoDepLegacy.v.

   Reader  = IsoDepInitiator.exchange of tt4.py at HEAD b65ae89: fixes/c12-wtx-*.diff applied ([repaired k]; the R(ACK)
             budget fix_rack is not assumed), S(WTX) without WTXM -> PROTOCOL_ERROR (c08-03), and the shared budget
             [mx = Some max_extra_blocks] (65538) for S(WTX) requests + chained response blocks per exchange (c08-19):
             [exchangex] returns the outcome and the final value of the counter n_extra.  Safety theorems hold for
             EVERY budget (mx arbitrary, None = no budget); exactness theorems need the budget to cover what the card
             announces, [need_extra] = its S(WTX) requests + the chained blocks of its response, plus one per faulty
             round; beyond the budget the result is the documented error ([C12_isodep_over_budget]).
   Card    = [picc_absorb]: ISO/IEC 14443-4 block rules, ANY application [app], ANY S(WTX) plan.
   Air     = ANY script of (request fate, response fate) in {deliver, lose, corrupt}.
   [in_step pn c]: reader and card block numbers in step - after activation and after every
   successful exchange ([C12_isodep_result_sound] re-establishes it), so the theorems apply to every
   exchange of a session up to and including the first one that fails.  What happens after a failed
   exchange is the known finding witnessed by [C12_after_failed_exchange_refuted]. *)
From Coq Require Import ZArith QArith List Bool.
From NV Require Import Base.Result Base.Bytes Model.IsoDep Model.TagAct Gen.IsoDepK Proofs.IsoDep Proofs.IsoDepSync Proofs.IsoDepLegacy
  Proofs.IsoDepBudget Proofs.IsoDepApdu Proofs.IsoDepStream Proofs.IsoDepSession Bridge.IsoDep.
Import ListNotations.
Open Scope Z_scope.

(* no block the reader puts on the air exceeds the frame size: PCB + INF + 2 EDC bytes <= miu + 3 = FSC,
   for every command length, fault script, WTX plan, budget and fuel *)
Theorem C12_isodep_block_bound : forall app k kc cmd pn c, repaired k -> params_ok k kc -> in_step pn c -> 0 < len cmd ->
  forall mx fuel sc, Forall (fun b => len b + 2 <= miu k + 3) (o_blocks (fst (exchangex app fuel k mx kc cmd pn c sc))).
Proof. exact exchangex_block_bound. Qed.
Print Assumptions C12_isodep_block_bound.

(* ... and FSC as derived at activation never exceeds the card's frame size or what the device can send *)
Theorem C12_isodep_activation_fsc : forall fsci fwti max_send max_recv,
  let p := t4_params fsci fwti max_send max_recv in
  a_fsc p <= fsc_of (if fsci >? 8 then 8 else fsci) /\ a_fsc p <= Z.max max_send (a_fsc p) /\
  (a_fsc p <= max_send \/ a_fsc p = fsc_of (if fsci >? 8 then 8 else fsci)) /\ a_miu p = a_fsc p - 3.
Proof. exact t4_params_fsc. Qed.
Print Assumptions C12_isodep_activation_fsc.

(* without faults: every command size and response size (chaining both ways), S(WTX) at any and every opportunity -
   the APDU is executed exactly once and its complete response is returned, for every card that needs at most
   m = max_extra_blocks (65538 at HEAD) S(WTX) requests + chained response blocks in this exchange *)
Theorem C12_isodep_nofault_exact : forall app k kc cmd pn c, repaired k -> params_ok k kc -> in_step pn c -> 0 < len cmd ->
  forall m fuel sc, nofault sc -> need_extra app kc cmd c <= m -> enough_fuel app k cmd c fuel ->
  let o := fst (exchangex app fuel k (Some m) kc cmd pn c sc) in
  o_res o = Ok (response app c cmd) /\ execs (o_card o) = execs c ++ [cmd] /\ in_step (o_pni o) (o_card o).
Proof. exact exchangex_nofault_exact. Qed.
Print Assumptions C12_isodep_nofault_exact.

(* for EVERY fault script, budget and fuel: the card executes the APDU at most once, and nothing else *)
Theorem C12_isodep_at_most_once : forall app k kc cmd pn c, repaired k -> params_ok k kc -> in_step pn c -> 0 < len cmd ->
  forall mx fuel sc, let o := fst (exchangex app fuel k mx kc cmd pn c sc) in
  execs (o_card o) = execs c \/ execs (o_card o) = execs c ++ [cmd].
Proof. exact exchangex_at_most_once. Qed.
Print Assumptions C12_isodep_at_most_once.

(* for EVERY fault script and budget: a returned value is the complete response of the single execution of this APDU
   (never truncated, duplicated or stale) and leaves reader and card in step; anything else is
   Type4TagCommandError - no raw clf error, no crash; Hang only if the fuel was below the bound *)
Theorem C12_isodep_result_sound : forall app k kc cmd pn c, repaired k -> params_ok k kc -> in_step pn c -> 0 < len cmd ->
  forall mx fuel sc, let o := fst (exchangex app fuel k mx kc cmd pn c sc) in
  match o_res o with
  | Ok r => r = response app c cmd /\ execs (o_card o) = execs c ++ [cmd] /\ in_step (o_pni o) (o_card o)
  | Err (TagCommandError _) => True
  | Hang => Z.of_nat fuel < fuel_bound app k cmd (execs c) c
  | _ => False
  end.
Proof. exact exchangex_result_sound. Qed.
Print Assumptions C12_isodep_result_sound.

(* for EVERY fault script and budget the exchange ends within fuel_bound = O((|cmd| + |response|) * budget + #WTX)
   rounds: the reader never hangs against the conformant card *)
Theorem C12_isodep_terminates : forall app k kc cmd pn c, repaired k -> params_ok k kc -> in_step pn c -> 0 < len cmd ->
  forall mx fuel sc, enough_fuel app k cmd c fuel ->
  let o := fst (exchangex app fuel k mx kc cmd pn c sc) in
  o_res o = Ok (response app c cmd) \/ exists e, o_res o = Err (TagCommandError e).
Proof. exact exchangex_terminates. Qed.
Print Assumptions C12_isodep_terminates.

(* "any pattern of lost or corrupted blocks the recovery rules can absorb": EVERY script with at most F faulty
   rounds (any kind, anywhere in the exchange, chaining and WTX included) is absorbed and yields the exact result
   when 2F-1 <= retry budget (budget 1: one fault, 3: two, 5: three) and the card's needs plus F (a repeated S(WTX)
   per faulty round) are within max_extra_blocks; F = 0 is the fault-free case.
   (The code counts R(ACK)-triggered retransmissions against the same retry budget, hence 2F-1; patterns beyond
   this bound that the monitor classifies as absorbable are checked by the harness only.) *)
Theorem C12_isodep_absorbs : forall app k kc cmd pn c, repaired k -> params_ok k kc -> in_step pn c -> 0 < len cmd ->
  forall m fuel sc F, faults sc <= F -> 2 * F - 1 <= n_nak k -> 2 * F - 1 <= n_ack k ->
  need_extra app kc cmd c + F <= m -> enough_fuel app k cmd c fuel ->
  let o := fst (exchangex app fuel k (Some m) kc cmd pn c sc) in
  o_res o = Ok (response app c cmd) /\ execs (o_card o) = execs c ++ [cmd] /\ in_step (o_pni o) (o_card o).
Proof. exact exchangex_absorbs. Qed.
Print Assumptions C12_isodep_absorbs.

(* the budget made explicit.  Counted without budget (mx = None) n_extra never exceeds what the card announces plus
   one per faulty round; while that is within m the exchange at HEAD IS the exchange of the reader without budget;
   once the reader without budget would count more than m, the result at HEAD is Type4TagCommandError(PROTOCOL_ERROR)
   - and by C12_isodep_at_most_once the APDU has still been executed at most once *)
Theorem C12_isodep_extra_count : forall app k kc cmd pn c, repaired k -> params_ok k kc -> in_step pn c -> 0 < len cmd ->
  forall fuel sc, snd (exchangex app fuel k None kc cmd pn c sc) <= need_extra app kc cmd c + faults sc.
Proof. exact exchangex_count. Qed.
Print Assumptions C12_isodep_extra_count.
Theorem C12_isodep_budget_transparent : forall app k kc cmd pn c, repaired k -> params_ok k kc -> in_step pn c -> 0 < len cmd ->
  forall m fuel sc, need_extra app kc cmd c + faults sc <= m ->
  fst (exchangex app fuel k (Some m) kc cmd pn c sc) = exchange app fuel k kc cmd pn c sc.
Proof. exact exchangex_transparent. Qed.
Print Assumptions C12_isodep_budget_transparent.
Theorem C12_isodep_over_budget : forall app k kc cmd pn c m fuel sc, 0 <= m ->
  m < snd (exchangex app fuel k None kc cmd pn c sc) ->
  o_res (fst (exchangex app fuel k (Some m) kc cmd pn c sc)) = Err (TagCommandError E_PROTOCOL).
Proof. intros app k kc cmd pn c. exact (exchangex_over_budget app k kc cmd pn c). Qed.
Print Assumptions C12_isodep_over_budget.

(* Type4Tag.send_apdu on top: a returned value is the response of the single execution of the encoded APDU with
   status word 9000 stripped (check_status) or included; anything else is Type4TagCommandError (status word or
   transmission failure) or the documented ValueError before anything is sent *)
Theorem C12_send_apdu_sound : forall app k mx kc cla ins p1 p2 data mrl check pn c,
  repaired k -> params_ok k kc -> in_step pn c ->
  forall fuel sc, let o := send_apdux app fuel k mx kc cla ins p1 p2 data mrl check pn c sc in
  match apdu_build cla ins p1 p2 data mrl with
  | Ok a =>
      (execs (o_card o) = execs c \/ execs (o_card o) = execs c ++ [a]) /\
      match o_res o with
      | Ok r => execs (o_card o) = execs c ++ [a] /\ in_step (o_pni o) (o_card o) /\
                (if check then response app c a = r ++ [144; 0] else response app c a = r)
      | Err (TagCommandError _) => True
      | Hang => Z.of_nat fuel < fuel_bound app k a (execs c) c
      | _ => False
      end
  | _ => o_res o = Err ValueError /\ o_card o = c /\ o_blocks o = []
  end.
Proof. exact send_apdu_sound. Qed.
Print Assumptions C12_send_apdu_sound.

(* ---- sessions: APDUs exchanged one after the other on the same tag object and card; all rounds draw their fates
   from ONE script ([session1]: each exchange continues where the previous one stopped) ----
   [sess_spec app e cmds outs], for the card log e before the session, says for the i-th exchange, as long as all
   earlier ones returned a value:  Ok r ->  (b) r is the response to its own command, (a) the log grew by exactly that
   command, (c) reader and card are in step again, and the rest of the session satisfies the spec;
   Type4TagCommandError (or fuel exhausted) -> the log grew by at most that one command, and NOTHING is claimed
   about later exchanges; raw clf errors and crashes do not occur. *)
Theorem C12_session_sound : forall app k mx kc, repaired k -> params_ok k kc ->
  forall cmds fuel sc pn c, in_step pn c -> Forall (fun x => 0 < len (fst x)) cmds ->
  sess_spec app (execs c) cmds (session1 app fuel k mx kc pn c cmds sc).
Proof. exact session_sound. Qed.
Print Assumptions C12_session_sound.
(* hence: if every exchange returned a value, the values are the responses to their own commands, in order, and the
   card's log is exactly the list of commands, each executed once, in order - for every script and every WTX plan *)
Theorem C12_session_all_ok : forall app k mx kc, repaired k -> params_ok k kc ->
  forall cmds fuel sc pn c, in_step pn c -> Forall (fun x => 0 < len (fst x)) cmds ->
  let outs := session1 app fuel k mx kc pn c cmds sc in
  Forall (fun o => is_ok (o_res o) = true) outs ->
  map o_res outs = expected app (execs c) cmds /\ final_log (execs c) outs = execs c ++ map fst cmds.
Proof. exact session_all_ok. Qed.
Print Assumptions C12_session_all_ok.
(* the boundary made explicit: the known finding is the exchange AFTER the first failed one.  Budget 1, one script
   DL DL DL: exchange 1 fails with TIMEOUT_ERROR (the session theorem holds and claims nothing beyond it);
   exchange 2 - a single lost block - executes its APDU twice and returns the second execution's response *)
Theorem C12_session_boundary_refuted :
  sess_spec demo_app [] boundary_cmds boundary_session /\
  map o_res boundary_session = [Err (TagCommandError E_TIMEOUT); Ok (demo_app 2 [255; 2; 0; 5])] /\
  map (fun o => execs (o_card o)) boundary_session = [[[255; 1; 0; 5]]; [[255; 1; 0; 5]; [255; 2; 0; 5]; [255; 2; 0; 5]]].
Proof. exact session_boundary. Qed.
Print Assumptions C12_session_boundary_refuted.

(* ---- the reader as pinned (fix flags off) violates the property: concrete runs ---- *)
(* S(WTX) answered outside the try: one lost block, within the budget, escapes as raw nfc.clf.TimeoutError *)
Theorem C12_legacy_wtx_raw_timeout_refuted :
  o_res (exchange demo_app 50 k_legacy kc16 [255; 0; 0; 5] 0 (picc_init [[1]]) [(FD, FD); (FD, FL)]) = Err TimeoutError.
Proof. exact legacy_wtx_raw_timeout. Qed.
Print Assumptions C12_legacy_wtx_raw_timeout_refuted.
(* S(WTX) while the card chains its response: the exchange fails without any fault *)
Theorem C12_legacy_wtx_chaining_refuted :
  exists e, o_res (exchange demo_app 50 k_legacy kc16 [255; 0; 0; 30] 0 (picc_init [[]; [3]]) []) = Err (TagCommandError e).
Proof. exact legacy_wtx_chaining_fails. Qed.
Print Assumptions C12_legacy_wtx_chaining_refuted.
(* outside C12 (non-conformant responder, recorded for C08): without fixes/c12-rack-retransmit-budget.diff
   a responder that keeps answering R(ACK) with the other block number makes the reader send for ever *)
Theorem C12_rack_loop_unbudgeted_refuted : forall k cmd, fix_rack k = false -> 0 < miu k -> 0 < len cmd ->
  forall fuel, run_stream fuel k cmd (pcd_start k cmd 0) (fun _ => ARx [163]) 0 = Hang.
Proof. exact rack_loop_unbudgeted. Qed.
Print Assumptions C12_rack_loop_unbudgeted_refuted.

(* outside C12, for C08 ("a tag can never make the reader loop"): with all three repairs the reader stops against
   ANY responder [s] (the n-th clf.exchange yields [s n], whatever was sent) that uses at most W of the two means
   the standard gives a card to keep the reader waiting (S(WTX), chained response blocks) *)
Theorem C12_isodep_terminates_any_responder : forall k cmd,
  fix_wtx_try k = true -> fix_wtx_chain k = true -> fix_rack k = true -> 0 < miu k -> 0 <= n_nak k -> 0 <= n_ack k ->
  forall pn s W fuel, 0 < len cmd -> (forall N, wild s N <= W) ->
  (CC k + 1) * (len cmd + 2 + W) + CC k <= Z.of_nat fuel ->
  run_stream fuel k cmd (pcd_start k cmd pn) s 0 <> Hang.
Proof. exact stream_terminates. Qed.
Print Assumptions C12_isodep_terminates_any_responder.
(* ... an S(WTX) block without WTXM byte raised IndexError (data[1]) in the pinned reader; at HEAD
   (fixes/c08-03, flags on) it is Type4TagCommandError(PROTOCOL_ERROR); for C08 *)
Theorem C12_short_wtx_crash_refuted :
  run_stream 5 k_legacy [0; 164; 0; 0] (pcd_start k_legacy [0; 164; 0; 0] 0) (fun _ => ARx [242]) 0 = Crash IndexErr /\
  run_stream 5 k_repaired [0; 164; 0; 0] (pcd_start k_repaired [0; 164; 0; 0] 0) (fun _ => ARx [242]) 0
    = Err (TagCommandError E_PROTOCOL).
Proof. exact short_wtx_crash. Qed.
Print Assumptions C12_short_wtx_crash_refuted.

(* ---- known finding, not cured by the repairs: an exchange that follows a FAILED one ---- *)
(* reader and card may be out of step ([in_step] fails); one lost block then makes the card execute the
   APDU twice, or the caller gets the previous command's response *)
Theorem C12_after_failed_exchange_refuted :
  (map o_res after_failure_session = [Err (TagCommandError E_TIMEOUT); Ok (demo_app 2 [255; 2; 0; 5])] /\
   map (fun o => execs (o_card o)) after_failure_session = [[[255; 1; 0; 5]]; [[255; 1; 0; 5]; [255; 2; 0; 5]; [255; 2; 0; 5]]]) /\
  (map o_res after_failure_stale = [Err (TagCommandError E_TIMEOUT); Ok (demo_app 0 [255; 1; 0; 5])] /\
   map (fun o => execs (o_card o)) after_failure_stale = [[[255; 1; 0; 5]]; [[255; 1; 0; 5]]]).
Proof. exact (conj after_failed_exchange_duplicate after_failed_exchange_stale). Qed.
Print Assumptions C12_after_failed_exchange_refuted.

(* ---- tie: the kernels regenerated from src/nfc/tag/tt4.py on this run (Gen/IsoDepK.v) are the model ---- *)
(* Type4ATag.__init__, whole body, for EVERY answer to select: ProtocolError or (RATS command, fsc, fwt) *)
Theorem C12_bridge_t4a_init : forall ms mr ats,
  gen_t4a_init ms mr ats =
  match ats_fsci_fwi ats with
  | Ok (fsci, fwi) => let p := t4_params fsci fwi ms mr in Some (rats_cmd mr, a_fsc p, fwt_q (a_fwti p))
  | _ => None
  end.
Proof. exact bridge_t4a_init. Qed.
Print Assumptions C12_bridge_t4a_init.
Theorem C12_bridge_t4a_params_wellformed : forall ms mr tl t0 ta tb rest p,
  Z.land t0 32 <> 0 -> Z.land t0 16 <> 0 -> t4a_params (tl :: t0 :: ta :: tb :: rest) ms mr = Ok p ->
  gen_t4a_init ms mr (tl :: t0 :: ta :: tb :: rest) = Some (rats_cmd mr, a_fsc p, fwt_q (a_fwti p)).
Proof. exact bridge_t4a_params_wellformed. Qed.
Print Assumptions C12_bridge_t4a_params_wellformed.
(* Type4BTag.__init__, whole body *)
Theorem C12_bridge_t4b_init : forall ms mr sensb attrib,
  gen_t4b_init ms mr sensb attrib =
  if len sensb <? 12 then None
  else let p := t4_params (Z.shiftr (nth 10 sensb 0) 4) (Z.shiftr (nth 11 sensb 0) 4) ms mr in
       Some (attrib_cmd sensb mr, a_fsc p, fwt_q (a_fwti p)).
Proof. exact bridge_t4b_init. Qed.
Print Assumptions C12_bridge_t4b_init.
(* IsoDepInitiator.__init__: miu = fsc - 3 and min(int(1/fwt), 5) (exact rationals) are the model's a_miu / a_retry *)
Theorem C12_bridge_t4_dep : forall fsci fwi ms mr,
  let p := t4_params fsci fwi ms mr in
  gen_dep_miu (a_fsc p) = a_miu p /\ gen_n_retry_ack (fwt_q (a_fwti p)) = a_retry p /\
  gen_n_retry_nak (gen_n_retry_ack (fwt_q (a_fwti p))) = a_retry p.
Proof. exact bridge_t4_dep. Qed.
Print Assumptions C12_bridge_t4_dep.
Theorem C12_bridge_errno :
  gen_TIMEOUT_ERROR = E_TIMEOUT /\ gen_RECEIVE_ERROR = E_RECEIVE /\ gen_PROTOCOL_ERROR = E_PROTOCOL /\
  gen_send_errno_timeout = E_TIMEOUT /\ gen_send_errno_txerr = E_RECEIVE /\ gen_send_errno_proto = E_PROTOCOL /\
  gen_recv_errno_timeout = E_TIMEOUT /\ gen_recv_errno_txerr = E_RECEIVE /\ gen_recv_errno_proto = E_PROTOCOL.
Proof. exact bridge_errno. Qed.
Print Assumptions C12_bridge_errno.
(* the PCB constructions and bit tests of exchange() are the model's predicates *)
Theorem C12_bridge_blocks : forall k cmd pn off,
  gen_more cmd off (miu k) = more_at k cmd off /\ gen_pfb (gen_more cmd off (miu k)) pn = [pfb_at k cmd pn off] /\
  gen_send_data (gen_pfb (gen_more cmd off (miu k)) pn) cmd off (miu k) = iblock k cmd pn off /\
  gen_retransmit_data (gen_pfb (gen_more cmd off (miu k)) pn) cmd off (miu k) = iblock k cmd pn off /\
  gen_presence_nak pn = [Z.lor 178 pn] /\ gen_send_rnak_txerr pn = [Z.lor 178 pn] /\ gen_send_rnak_timeout pn = [Z.lor 178 pn] /\
  gen_rack pn = [Z.lor 162 pn] /\ gen_recv_rack_txerr pn = [Z.lor 162 pn] /\ gen_recv_rack_timeout pn = [Z.lor 162 pn] /\
  gen_toggle_ack pn = toggle pn /\ gen_toggle_inf pn = toggle pn /\ gen_toggle_recv pn = toggle pn.
Proof.
  intros. split; [apply bridge_more|]. split; [apply bridge_pfb|].
  split; [apply bridge_iblock|]. split; [apply bridge_iblock|].
  pose proof (bridge_rblocks pn). pose proof (bridge_toggle pn). tauto.
Qed.
Print Assumptions C12_bridge_blocks.
Theorem C12_bridge_tests : forall b0 inf pn i n,
  gen_send_is_wtx (b0 :: inf) = is_wtx b0 /\ gen_recv_is_wtx (b0 :: inf) = is_wtx b0 /\
  gen_retransmit (b0 :: inf) pn i n = (is_rack_other pn b0 && (i <=? n + 1)) /\
  gen_send_bad_bn (b0 :: inf) pn = negb (Z.land b0 1 =? pn) /\ gen_recv_bad_bn (b0 :: inf) pn = negb (Z.land b0 1 =? pn) /\
  gen_is_ack (b0 :: inf) = (Z.land b0 254 =? 162) /\ gen_is_inf (b0 :: inf) = (Z.land b0 238 =? 2) /\
  gen_chaining (b0 :: inf) = negb (Z.land b0 16 =? 0) /\
  gen_send_empty (b0 :: inf) = false /\ gen_recv_empty (b0 :: inf) = false /\
  gen_send_empty [] = true /\ gen_recv_empty [] = true.
Proof. exact bridge_tests. Qed.
Print Assumptions C12_bridge_tests.
(* ... and, composed along the control skeleton the generator matched statement by statement, they ARE the
   model's transition function (all three repairs in, S(WTX) without WTXM -> PROTOCOL_ERROR as at HEAD) *)
Theorem C12_bridge_pcd_start : forall k cmd pn, 0 < miu k -> 0 < len cmd ->
  pcd_start k cmd pn = mkp pn (PSend 0 1 (gen_send_data (gen_pfb (gen_more cmd 0 (miu k)) pn) cmd 0 (miu k))).
Proof. exact bridge_pcd_start. Qed.
Print Assumptions C12_bridge_pcd_start.
Theorem C12_bridge_absorb_send : forall k cmd, fix_wtx_try k = true -> fix_rack k = true ->
  forall pn off i d0 a, pcd_absorb k cmd (mkp pn (PSend off i d0)) a = k_absorb_send k cmd pn off i a.
Proof. exact bridge_absorb_send. Qed.
Print Assumptions C12_bridge_absorb_send.
Theorem C12_bridge_absorb_recv : forall k cmd, fix_wtx_chain k = true ->
  forall pn i d0 rsp a, pcd_absorb k cmd (mkp pn (PRecv i d0 rsp)) a = k_absorb_recv k pn i rsp a.
Proof. exact bridge_absorb_recv. Qed.
Print Assumptions C12_bridge_absorb_recv.

(* granted timeouts: with the echo of an S(WTX) request goes (data[1] & 0x3F) * fwt = blk_timeout x fwt, with every
   other block the caller's timeout (default fwt + 49152/fc); the harness compares what reaches the device with this *)
Theorem C12_bridge_timeouts : forall b0 b1 inf fwt pn k cmd off, is_wtx b0 = true -> bit pn ->
  gen_send_wtx_timeout (b0 :: b1 :: inf) fwt = Qmult (inject_Z (blk_timeout (b0 :: b1 :: inf))) fwt /\
  gen_recv_wtx_timeout (b0 :: b1 :: inf) fwt = Qmult (inject_Z (blk_timeout (b0 :: b1 :: inf))) fwt /\
  gen_default_timeout fwt gen_delta_fwt = Qplus fwt (Qdiv (inject_Z 49152) (inject_Z 13560000)) /\
  blk_timeout (iblock k cmd pn off) = 0 /\ blk_timeout [Z.lor 178 pn] = 0 /\ blk_timeout [Z.lor 162 pn] = 0.
Proof. exact bridge_timeouts. Qed.
Print Assumptions C12_bridge_timeouts.

(* the shared budget (b65ae89): constant, counter and tests, and the model's budgeted transition function *)
Theorem C12_bridge_extra : forall n m,
  gen_max_extra_blocks = MAX_EXTRA_BLOCKS /\ gen_extra_init = 0 /\
  gen_send_extra_incr n = n + 1 /\ gen_recv_extra_incr n = n + 1 /\ gen_chain_extra_incr n = n + 1 /\
  gen_send_extra_over n m = over (Some m) n /\ gen_recv_extra_over n m = over (Some m) n /\
  gen_chain_extra_over n m = over (Some m) n /\ gen_chain_errno_over = E_PROTOCOL.
Proof. exact bridge_extra. Qed.
Print Assumptions C12_bridge_extra.
Theorem C12_bridge_absorb_send_x : forall k cmd, fix_wtx_try k = true -> fix_rack k = true ->
  forall pn off i d0 n m a,
  pcd_absorb_x k (Some m) cmd {| xp := mkp pn (PSend off i d0); nx := n |} a = k_absorb_send_x k cmd pn off i n m a.
Proof. exact bridge_absorb_send_x. Qed.
Print Assumptions C12_bridge_absorb_send_x.
Theorem C12_bridge_absorb_recv_x : forall k cmd, fix_wtx_chain k = true ->
  forall pn i d0 rsp n m a,
  pcd_absorb_x k (Some m) cmd {| xp := mkp pn (PRecv i d0 rsp); nx := n |} a = k_absorb_recv_x k pn i rsp n m a.
Proof. exact bridge_absorb_recv_x. Qed.
Print Assumptions C12_bridge_absorb_recv_x.

(* non-vacuity: a 20-byte command and 20-byte response over FSC 16 (chaining both ways), two S(WTX),
   four faulty rounds, budget 3 - meets every hypothesis above and completes *)
Example C12_nonvacuous :
  (repaired k_nv /\ params_ok k_nv kc16 /\ in_step 0 nv_card /\ 0 < len nv_cmd /\ enough_fuel demo_app k_nv nv_cmd nv_card 900) /\
  (let o := exchange demo_app 900 k_nv kc16 nv_cmd 0 nv_card nv_script in
   o_res o = Ok (demo_app 0 nv_cmd) /\ execs (o_card o) = [nv_cmd] /\ length (o_blocks o) = 10%nat).
Proof. exact (conj nv_hyps nv_run). Qed.

(* non-vacuity (sessions): three exchanges from the activated state - a 20-byte command / 20-byte response chained both
   ways with one lost block (absorbed), a short one, a 30-byte response with an S(WTX) - all return their own responses *)
Example C12_session_nonvacuous :
  map o_res nvs_session = [Ok (demo_app 0 nv_cmd); Ok (demo_app 1 [255; 9; 0; 3]); Ok (demo_app 2 [255; 3; 0; 30])] /\
  final_log [] nvs_session = [nv_cmd; [255; 9; 0; 3]; [255; 3; 0; 30]] /\
  map (fun o => length (o_blocks o)) nvs_session = [5%nat; 1%nat; 4%nat].
Proof. exact nvs_run. Qed.

(* non-vacuity at HEAD: the exchange of C12_nonvacuous under max_extra_blocks = 65538 (it needs 3 of the budget, the
   script has 4 faulty rounds), and the same exchange under a budget of 2: PROTOCOL_ERROR, executed once *)
Example C12_budget_nonvacuous :
  need_extra demo_app kc16 nv_cmd nv_card = 3 /\ faults nv_script = 4 /\
  (let o := exchangex demo_app 900 k_nv (Some MAX_EXTRA_BLOCKS) kc16 nv_cmd 0 nv_card nv_script in
   o_res (fst o) = Ok (demo_app 0 nv_cmd) /\ execs (o_card (fst o)) = [nv_cmd] /\ snd o = 3) /\
  (let o := exchangex demo_app 900 k_nv (Some 2) kc16 nv_cmd 0 nv_card nv_script in
   o_res (fst o) = Err (TagCommandError E_PROTOCOL) /\ execs (o_card (fst o)) = [nv_cmd]).
Proof. exact nvx_run. Qed.
