(* C03 (block tags part) - NDEF writes touch nothing outside the NDEF area: Type 3 Tag, Type 4 Tag.
   Only statements here; proofs are in Proofs/T3T.v, Proofs/T4T.v. *)
From Coq Require Import ZArith List Bool.
From NV Require Import Base.Result Base.Bytes Base.PyPrims Proofs.Chunks Model.T3T Model.T4T Proofs.T3T Proofs.T3TEmu Proofs.T4T.
Import ListNotations.
Open Scope Z_scope.

(* --- Type 3: hi = 1 + ceil(len/16) <= 1 + Nmaxb.  Every command of the write addresses only block 0 and blocks
   1 .. hi-1; whatever the cut point, the effect on the memory is that of a prefix of that plan, the memory keeps its
   size and every byte from block hi on keeps its value. *)
Theorem C03_t3_write_frame : forall t a d old, pt_wf t a -> len d <= a_nmaxb a * 16 ->
  let hi := 1 + nblk (len d) in
  hi <= 1 + a_nmaxb a /\
  Forall (fun c => Forall (fun b => 0 <= b < hi) (fst c)) (t3_plan a d) /\
  exists r t', pt_set_octets (Ndef true true (a_nmaxb a * 16) old) t d = (r, t') /\
    (exists j, p_mem t' = apply_cmds (p_mem t) (firstn j (t3_plan a d))) /\
    len (p_mem t') = len (p_mem t) /\ drop (16 * hi) (p_mem t') = drop (16 * hi) (p_mem t).
Proof. exact t3_write_frame_pt. Qed.
Print Assumptions C03_t3_write_frame.

(* the same for the application memory behind the library's Type 3 Tag emulation *)
Theorem C03_t3emu_write_frame : forall s a d old, em_wf s a -> len d <= a_nmaxb a * 16 ->
  let hi := 1 + nblk (len d) in
  hi <= 1 + a_nmaxb a /\
  Forall (fun c => Forall (fun b => 0 <= b < hi) (fst c)) (t3_plan a d) /\
  exists r s', em_set_octets (Ndef true true (a_nmaxb a * 16) old) s d = (r, s') /\
    (exists j, e_mem s' = apply_cmds (e_mem s) (firstn j (t3_plan a d))) /\
    len (e_mem s') = len (e_mem s) /\ drop (16 * hi) (e_mem s') = drop (16 * hi) (e_mem s).
Proof. exact t3emu_write_frame. Qed.
Print Assumptions C03_t3emu_write_frame.

(* --- Type 4: every UPDATE BINARY of the write lies in [0, nlen_size + len) of the NDEF file, which is inside
   [0, nlen_size + capacity) <= the file; the capability container is untouched; the file keeps its size and
   every byte from nlen_size + len on keeps its value; whatever the cut point. *)
Theorem C03_t4_write_frame : forall c i cw d old, t4_wf c i -> writer_sess c cw -> len d <= i_cap i ->
  exists nl r c', nlen_bytes (i_nlen i) (len d) = Ok nl /\
    t4_set_octets (Ndef true true (i_cap i) old) (Some i) cw d = (r, c') /\
    Forall (in_range (i_nlen i + len d)) (t4_plan i d nl) /\ i_nlen i + len d <= i_nlen i + i_cap i <= len (c_file c) /\
    (exists j, c_log c' = rev (firstn j (t4_plan i d nl)) ++ c_log cw) /\
    c_cc c' = c_cc c /\ len (c_file c') = len (c_file c) /\
    drop (i_nlen i + len d) (c_file c') = drop (i_nlen i + len d) (c_file c).
Proof. exact t4_write_frame_gen. Qed.
Print Assumptions C03_t4_write_frame.

(* --- Type 4 format: without wipe nothing is sent; with wipe only offsets < nlen_size + capacity of the NDEF file *)
Theorem C03_t4_format_frame : forall c i cw w r0 old, t4_wf c i -> writer_sess c cw ->
  Forall (in_range (i_nlen i + i_cap i)) (t4_wipe_plan i w) /\
  t4_format (Ndef r0 true (i_cap i) old) (Some i) cw None = (Ok true, cw) /\
  exists r c', t4_format (Ndef r0 true (i_cap i) old) (Some i) cw (Some w) = (r, c') /\
    (exists j, c_log c' = rev (firstn j (t4_wipe_plan i w)) ++ c_log cw) /\
    c_cc c' = c_cc c /\ len (c_file c') = len (c_file c) /\
    drop (i_nlen i + i_cap i) (c_file c') = drop (i_nlen i + i_cap i) (c_file c).
Proof. exact t4_format_frame. Qed.
Print Assumptions C03_t4_format_frame.

(* non-vacuity: a write that leaves the bytes behind the message alone, computed *)
Example C03_blk_nonvacuous :
  (let d := repeat 7 20 in
   let t := mkPtag (attr_build (mkAttrs 16 4 1 5 0 1 0) ++ repeat 238 80) 4 13 true (-1) [] in
   drop 48 (p_mem (snd (pt_set_octets (Ndef true true 80 []) t d))) = repeat 238 48) /\
  (let i := mkInfo 59 5 62 true true 2 [225; 4] 12 in
   let cw := mkCard (cc2 32 0 59 0 5 225 4 0 64 0 0) [225; 4] ([0; 0] ++ repeat 238 62) true false true 2 (-1) [] in
   drop 12 (c_file (snd (t4_set_octets (Ndef true true 62 []) (Some i) cw (repeat 7 10)))) = repeat 238 52).
Proof. split; vm_compute; reflexivity. Qed.
