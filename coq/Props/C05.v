(* C05 - LLCP connections deliver in order, exactly once, within the window.
   Only statements here; the model is Model/Dlc.v, the proofs are in Proofs/DlcBase.v (one
   direction), Proofs/Dlc.v (system invariant, induction over op lists), Proofs/DlcCor.v.
   All theorems quantify over ALL op lists (every interleaving of send / recv / setsockopt busy /
   poll acks / dequeue / sendack / deliver on both sides), all windows 0..15 on each side, all MIUs,
   all message contents, all dequeue miu/icv arguments. *)
From Coq Require Import ZArith List Bool Lia.
From NV Require Import Base.Result Base.Bytes Model.Dlc Proofs.DlcBase Proofs.Dlc Proofs.DlcCor Proofs.DlcLive.
Import ListNotations.
Open Scope Z_scope.

(* the sliding-window invariant of DESIGN.md A.2, for both directions, in every reachable state *)
Theorem dlc_inv_reachable : forall c ops, cfg_ok c -> Inv (run c ops).
Proof. exact inv_reachable. Qed.
Print Assumptions dlc_inv_reachable.

(* messages accepted by sd.send = messages returned by the peer's recv ++ peer's receive queue ++
   I PDUs on the wire ++ I PDUs in the send queue, all in order, each exactly once; both directions *)
Theorem dlc_in_order_exactly_once : forall c ops sd, cfg_ok c ->
  let s := run c ops in let h := outs (init c) ops in
  accepted sd h = returned (other sd) h ++ rq (get_ep s (other sd)) ++ map snd (Is (get_w s sd)) ++ map snd (Is (sq (get_ep s sd))).
Proof. exact in_order_exactly_once. Qed.
Print Assumptions dlc_in_order_exactly_once.

Theorem dlc_returned_prefix_of_accepted : forall c ops sd, cfg_ok c ->
  let h := outs (init c) ops in exists rest, accepted sd h = returned (other sd) h ++ rest.
Proof. exact returned_prefix_of_accepted. Qed.
Print Assumptions dlc_returned_prefix_of_accepted.

(* sequence numbers: the I PDUs in flight are numbered consecutively modulo 16 from the number of
   I PDUs the receiver has taken so far, which is what V(R) holds modulo 16 *)
Theorem dlc_sequence_numbers : forall c ops sd, cfg_ok c ->
  let s := run c ops in
  let fl := Is (get_w s sd) ++ Is (sq (get_ep s sd)) in
  fl = number (gR (get_g s sd)) (map snd fl) /\
  vr (get_ep s (other sd)) = gR (get_g s sd) mod 16 /\
  len (returned (other sd) (outs (init c) ops)) + len (rq (get_ep s (other sd))) = gR (get_g s sd).
Proof. exact sequence_numbers. Qed.
Print Assumptions dlc_sequence_numbers.

(* unacknowledged I PDUs <= RW announced by the peer, in every reachable state, across wrap-around *)
Theorem dlc_window_respected : forall c ops sd, cfg_ok c ->
  let s := run c ops in let x := get_ep s sd in let y := get_ep s (other sd) in
  let S := len (accepted sd (outs (init c) ops)) in let SA := gSA (get_g s sd) in
  0 <= S - SA <= rwl y /\ rwr x = rwl y /\ rwl y <= 15 /\
  vs x = S mod 16 /\ vsa x = SA mod 16 /\ (vs x - vsa x) mod 16 = S - SA /\
  len (Is (sq x)) + len (Is (get_w s sd)) + len (rq y) + confs y <= rwl y.
Proof. exact window_respected. Qed.
Print Assumptions dlc_window_respected.

(* an accepted I PDU always finds room: nothing discarded, no FRMR, recv never raises, both ends
   stay ESTABLISHED, no FRMR PDU anywhere *)
Theorem dlc_no_overflow : forall c ops, cfg_ok c ->
  forallb (fun e => negb (bad1 e)) (outs (init c) ops) = true /\
  let s := run c ops in
  est (epa s) = true /\ est (epb s) = true /\ flagged s = false /\
  forallb notF (wab s ++ wba s ++ sq (epa s) ++ sq (epb s)) = true.
Proof. exact no_overflow. Qed.
Print Assumptions dlc_no_overflow.

(* messages larger than the connection MIU are refused with EMSGSIZE and change nothing *)
Theorem dlc_emsgsize : forall c ops sd m, cfg_ok c ->
  let s := run c ops in
  smiu (get_ep s sd) = rmiu (get_ep s (other sd)) /\
  (smiu (get_ep s sd) < len m -> step_full s (Send sd m) = (s, OSend (Err (LlcpError EMSGSIZE)))) /\
  (len m <= smiu (get_ep s sd) ->
     snd (step_full s (Send sd m)) = OSend (Ok true) \/
     (step_full s (Send sd m) = (s, OSend (Err (LlcpError EWOULDBLOCK))) /\
      len (accepted sd (outs (init c) ops)) - gSA (get_g s sd) = rwl (get_ep s (other sd)))).
Proof. exact emsgsize. Qed.
Print Assumptions dlc_emsgsize.

(* send_window_slots / recv_window_slots compute the true number of free window slots *)
Theorem dlc_window_slots_true : forall c ops sd, cfg_ok c ->
  let s := run c ops in let x := get_ep s sd in let y := get_ep s (other sd) in let g := get_g s sd in
  send_window_slots x = rwl y - (len (sent g) - gSA g) /\
  recv_window_slots y = rwl y - (gR g - gRA g) /\
  0 <= len (sent g) - gSA g <= rwl y /\ 0 <= gR g - gRA g <= rwl y.
Proof. exact window_slots_true. Qed.
Print Assumptions dlc_window_slots_true.

(* progress: from every reachable state a finite continuation consisting only of dequeue / deliver /
   recv steps (no further send) returns every accepted message to the peer application, both
   directions - so with the prefix theorem: exactly once, in order, nothing left behind *)
Theorem dlc_progress : forall c ops, cfg_ok c -> exists ops', Forall no_send ops' /\
  let h := outs (init c) (ops ++ ops') in
  returned B h = accepted A h /\ returned A h = accepted B h.
Proof. exact progress. Qed.
Print Assumptions dlc_progress.

(* llc.collect() without aggregation (dequeue, then sendack if nothing) is a sequence of ops of the
   alphabet, hence covered by all theorems above *)
Theorem dlc_collect_is_ops : forall s sd miu, exists ops, fst (collect1 s sd miu) = fold_left step ops s.
Proof. exact collect1_ops. Qed.
Print Assumptions dlc_collect_is_ops.

(* the ghost history used by the invariant is the observable history (no invariant needed) *)
Theorem dlc_ghost_is_observable : forall ops s sd,
  sent (get_g (fold_left step ops s) sd) = sent (get_g s sd) ++ accepted sd (outs s ops) /\
  dlv (get_g (fold_left step ops s) (other sd)) = dlv (get_g s (other sd)) ++ returned sd (outs s ops).
Proof. intros; split; [apply sent_run | apply dlv_run]. Qed.
Print Assumptions dlc_ghost_is_observable.

(* non-vacuity: 40 messages in each direction through windows 3 / 2 (two and a half wrap-arounds of
   the sequence numbers), piggy-backed and explicit acknowledgements, busy toggling: everything
   accepted is returned, in order, and the state variables have wrapped *)
Definition round (i : Z) : list op :=
  [Send A [i; 1]; Send B [i; 2]; SetBusy B (Z.even i); Deq A 128 0; Deliver B; Recv B; Deq B 128 0; Deliver A; Recv A;
   Deq B 128 0; Deliver A; Ack A; Deliver B; Ack B; Deliver A; Deq A 128 0; Deliver B].
Definition demo_cfg := {| rw_a := 3; miu_a := 128; rw_b := 2; miu_b := 128 |}.
Definition demo_ops := flat_map round (map Z.of_nat (seq 0 40)) ++ [Deq B 128 0; Deliver A; Recv A; Deq B 128 0; Deliver A; Recv A].
Example dlc_nonvacuous :
  cfg_ok demo_cfg /\
  let h := outs (init demo_cfg) demo_ops in let s := run demo_cfg demo_ops in
  len (accepted A h) = 40 /\ returned B h = accepted A h /\
  len (accepted B h) = 40 /\ returned A h = accepted B h /\
  vs (epa s) = 40 mod 16 /\ vr (epb s) = 40 mod 16 /\
  snd (step_full s (Send A (repeat 0 129))) = OSend (Err (LlcpError EMSGSIZE)).
Proof. split; [unfold cfg_ok, demo_cfg; cbn; lia|]. vm_compute. repeat split. Qed.
