(* C16 - Tag commands retry transient errors and fail only as TagCommandError.
   Nothing but the property theorems; proofs are in Proofs/Retry.v and Bridge/C16Skel.v.
   ISO-DEP (Type 4) retry budgets: Props/C12.v (exactly-once / budget theorems), cited, not redone. *)
From Coq Require Import ZArith List Bool.
From NV Require Bridge.C16Reader Gen.DriverSkel.
From NV Require Import Base.Result Model.Retry Proofs.Retry Skel.ExnSyntax Skel.ExnCheck Gen.TagSkel Bridge.C16Skel.
Import ListNotations.

(* ---------------------------------------------------------------- the retry loops (Type 1 / 2 / 3)
   for every tag type, repaired or not, every budget n, every fault script s, every position:
   attempts <= budget; result = first answer within the budget; else the else-clause applied to the
   LAST error after exactly n attempts; no attempt is made after an answer *)
Theorem retry_spec : forall ty fixed3 n s pos, retry_spec_stmt ty fixed3 n s pos.
Proof. exact retry_spec_lemma. Qed.
Print Assumptions retry_spec.

(* persistent timeout / transmission / protocol errors end with TIMEOUT_ERROR / RECEIVE_ERROR /
   PROTOCOL_ERROR (the code of the last error), after exactly the budget of attempts *)
Theorem retry_errno : forall ty fixed3 n s pos f,
  (forall j, (j < S n)%nat -> is_fault (s (pos + j)%nat)) ->
  fault_of (s (pos + n)%nat) = Some f -> named f ->
  exists e, errno_of f = Some e /\ transceive_n ty fixed3 (S n) true s pos = (Err (TagCommandError e), S n).
Proof. exact retry_errno_lemma. Qed.
Print Assumptions retry_errno.

(* a persistent CommunicationError of another class: RuntimeError("unexpected ...") in Type 1, Type 2
   and the repaired Type 3; UnboundLocalError (`rsp`) in the unrepaired Type 3 *)
Theorem retry_other_class : forall ty fixed3 n s pos,
  (forall j, (j < S n)%nat -> is_fault (s (pos + j)%nat)) ->
  fault_of (s (pos + n)%nat) = Some FOther ->
  transceive_n ty fixed3 (S n) true s pos = (after_tests ty fixed3, S n).
Proof. exact retry_other_lemma. Qed.
Print Assumptions retry_other_class.

Theorem tt3_unrepaired_unbound_local :
  transceive TT3 false 2 true (fun _ => Fault FOther false) 0 = (Crash Unbound, 3%nat) /\
  transceive TT3 true 2 true (fun _ => Fault FOther false) 0 = (Err RuntimeErr, 3%nat).
Proof. split; reflexivity. Qed.
Print Assumptions tt3_unrepaired_unbound_local.

(* with the three error classes the property quantifies over and at least one attempt, a command ends
   with an answer or TagCommandError(0 / -1 / -2): never a crash, never RuntimeError *)
Theorem retry_closed : forall ty fixed3 n present s pos,
  named_script s -> closed_result (fst (transceive_n ty fixed3 (S n) present s pos)).
Proof. exact transceive_closed_lemma. Qed.
Print Assumptions retry_closed.

(* Type 2 after a failed re-sense (self.target is None): TIMEOUT_ERROR without any exchange *)
Theorem tt2_without_target : forall fixed3 retries s pos,
  transceive TT2 fixed3 retries false s pos = (Err (TagCommandError TIMEOUT_ERROR), 0%nat).
Proof. reflexivity. Qed.
Print Assumptions tt2_without_target.

(* ---------------------------------------------------------------- Type 4 presence check (open finding)
   the faithful model: one attempt, True exactly when that attempt is answered *)
Theorem t4_is_present_guarded : forall s pos,
  t4_is_present s pos = (true, 1%nat) <-> exists d, s pos = Answer d.
Proof.
  intros s pos. unfold t4_is_present. destruct (s pos) as [d|f b]; split; intro H.
  - exists d. reflexivity.
  - reflexivity.
  - discriminate.
  - destruct H as [d H]. discriminate.
Qed.
Print Assumptions t4_is_present_guarded.

(* refuted: "the presence check survives a transient error by repeating the command" - one lost block,
   the tag would answer the next attempt (as it answers a Type 2 READ retried by transceive), reported absent *)
Theorem C16_t4_is_present_refuted : exists s : script,
  (exists d, s 1%nat = Answer d) /\ fst (t4_is_present s 0) = false /\
  exists d, fst (transceive TT2 true 2 true s 0) = Ok d.
Proof.
  exists (script_of [Fault FTimeout false; Answer [163%Z]]). split; [eexists; reflexivity|].
  split; [reflexivity|]. eexists. vm_compute. reflexivity.
Qed.
Print Assumptions C16_t4_is_present_refuted.

(* ---------------------------------------------------------------- no_double_apply
   what the tag receives during one command: only the LAST delivery can be an answered one (a command
   that was answered is not sent again); an Ok result means the command was executed, the executions
   before it were all unanswered; for an idempotent command the tag ends in the state of ONE execution *)
Theorem no_double_apply : forall ty fixed3 n s pos r k,
  transceive_n ty fixed3 n true s pos = (r, k) ->
  (forall l1 b l2, deliveries k s pos = l1 ++ b :: l2 -> l2 <> [] -> b = false) /\
  (forall d, r = Ok d -> exists l, deliveries k s pos = l ++ [true] /\ Forall (fun b => b = false) l) /\
  (forall (St : Type) (apply : St -> St) x, (forall y, apply (apply y) = apply y) ->
     tag_after St apply k s pos x = match deliveries k s pos with [] => x | _ => apply x end).
Proof.
  intros ty fixed3 n s pos r k H. split; [|split].
  - apply deliveries_spec. pose proof (retry_spec_lemma ty fixed3 n s pos) as R.
    unfold retry_spec_stmt in R. rewrite H in R. apply R.
  - intros d E. subst r. eapply answered_delivered. exact H.
  - intros St apply x Hidem. apply tag_after_idem. exact Hidem.
Qed.
Print Assumptions no_double_apply.

(* an operation as a sequence of commands with error propagation: on the wire the command index never
   decreases and an ANSWERED exchange is followed only by exchanges of later commands *)
Theorem op_answered_not_resent : forall ty fixed3 budgets s pos idx,
  let '(_, w) := run_seq ty fixed3 budgets s pos idx in wire_ok w /\ idx_ge idx w.
Proof. exact run_seq_wire_lemma. Qed.
Print Assumptions op_answered_not_resent.

Theorem op_closed : forall ty fixed3 budgets s pos idx,
  named_script s -> Forall (fun n => n <> O) budgets ->
  let r := fst (run_seq ty fixed3 budgets s pos idx) in
  r = Ok tt \/ r = Err (TagCommandError TIMEOUT_ERROR) \/ r = Err (TagCommandError RECEIVE_ERROR) \/
  r = Err (TagCommandError PROTOCOL_ERROR).
Proof. exact run_seq_closed_lemma. Qed.
Print Assumptions op_closed.

(* ---------------------------------------------------------------- tag_ops_closed (skeletons, this run)
   every public method / property of every tag class: escapes are a subset of the per-type
   TagCommandError subclass and the documented argument / state checks (Bridge/C16Skel.v `allowed`) *)
Theorem tag_ops_closed : tag_ops_closed_stmt exch_named tag_programs.
Proof. exact tag_ops_closed_lemma. Qed.
Print Assumptions tag_ops_closed.

(* the same for ANY CommunicationError subclass, Type 1 / 2 / 3 classes *)
Theorem tag_ops_closed_any_commerror : tag_ops_closed_stmt exch_any (filter not_tt4 tag_programs).
Proof. exact tag_ops_closed_any_lemma. Qed.
Print Assumptions tag_ops_closed_any_commerror.

Theorem never_raw_commerror : forall nm fam pr ents, In (nm, fam, pr, ents) tag_programs ->
  forall e k, In (e, k) ents -> forall c, In c comm_classes -> ~ can_escape (pr exch_named) k c.
Proof. exact never_raw_commerror_lemma. Qed.
Print Assumptions never_raw_commerror.

(* nfc.tag.activate(): no exception at all, for any CommunicationError subclass *)
Theorem activate_closed : forall c, ~ can_escape (prog_activate exch_any) entry_activate c.
Proof. exact activate_closed_lemma. Qed.
Print Assumptions activate_closed.

(* ---------------------------------------------------------------- drivers vs. tag layer (skeletons of C13, this run)
   the reader side of every hardware driver (Device.send_cmd_recv_rsp as resolved for that driver) raises no
   CommunicationError class other than the three the tag layer handles (plus IOError without a device and the
   visible PN531 Type 1 stub): in particular no BrokenLinkError reaches a tag command *)
Theorem reader_side_errors_handled : C16Reader.reader_side_stmt C16Reader.hardware_readers C16Reader.reader_allowed.
Proof. exact C16Reader.reader_side_lemma. Qed.
Print Assumptions reader_side_errors_handled.

(* the UDP test driver is the exception (open finding): its reader side can also raise BrokenLinkError *)
Theorem udp_reader_side_errors :
  C16Reader.reader_side_stmt C16Reader.udp_readers (C16Reader.reader_allowed ++ [DriverSkel.C_BrokenLinkError]).
Proof. exact C16Reader.udp_reader_side_lemma. Qed.
Print Assumptions udp_reader_side_errors.

(* ---------------------------------------------------------------- non-vacuity *)
Example C16_nonvacuous :
  (* two lost responses then an answer within a budget of three: answer, three attempts, the tag
     executed the command three times, only the last one answered *)
  let s := script_of [Fault FTimeout true; Fault FTransmission true; Answer [10%Z]] in
  transceive TT2 true 2 true s 0 = (Ok [10%Z], 3%nat) /\ deliveries 3 s 0 = [false; false; true] /\
  (* the same burst against retries=1: RECEIVE_ERROR, the code of the LAST error *)
  transceive TT2 true 1 true s 0 = (Err (TagCommandError RECEIVE_ERROR), 2%nat) /\
  (* the table of skeletons is populated *)
  Nat.leb 30 n_classes && Nat.leb 800 n_entries = true.
Proof. vm_compute. repeat split. Qed.
