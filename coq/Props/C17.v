(* C17 - LLCP addressing: binding, discovery and delivery reach the right socket.
   Only statements here; proofs are in Proofs/Addr.v, AddrInv.v, AddrStep.v, AddrThm.v, AddrMain.v.

   [reach blk ops sd] is the state of controller [sd] after ANY sequence [ops] of
   socket/bind/listen/accept/connect/sendto/rawsend/recvfrom/setsockopt/resolve/close calls on the two
   controllers and PDU transfers between them (Model/Addr.v: exec = fold_left step; histories that
   continue after a crashed call are included), for either version [blk] of DataLinkConnection.enqueue
   (c_enq_blocks: before / after fixes/c07-7; the harness tells the model which one the source is).  Abstract table: [bound_set c a] (sockets bound at a),
   [name_addr c n] (address a service name is bound to). *)
From Coq Require Import ZArith List Bool Permutation.
From NV Require Import Base.Result Base.Bytes Base.PyPrims Model.Addr Proofs.Addr Proofs.AddrInv Proofs.AddrStep
  Proofs.AddrThm Proofs.AddrMain Proofs.AddrDgram Gen.AddrK Bridge.Addr.
Import ListNotations.
Open Scope Z_scope.

(* --- bind_unique: a socket is bound to at most one SAP, once; the table and getsockname agree; an open
       bound socket is in the table; two names never share an address; a named address is in use --- *)
Theorem C17_bind_unique : forall blk ops sd,
  let c := get_side (exec blk ops) sd in
  (forall a b i, In i (bound_set c a) -> In i (bound_set c b) -> a = b) /\
  (forall a, NoDup (bound_set c a)) /\
  (forall a i, In i (bound_set c a) -> exists s, get_sock c i = Some s /\ s_addr s = Some a) /\
  (forall i s a, get_sock c i = Some s -> s_addr s = Some a -> s_state s <> StShutdown -> In i (bound_set c a)) /\
  (forall n1 n2 a, 2 <= a -> name_addr c n1 = Some a -> name_addr c n2 = Some a -> n1 = n2) /\
  (forall n a, name_addr c n = Some a -> 2 <= a -> bound_set c a <> []).
Proof. exact bind_unique_state. Qed.
Print Assumptions C17_bind_unique.

(* ... in every step of every history an existing socket keeps its address, or gets one that no socket was bound to *)
Theorem C17_bind_unique_step : forall blk ops o sd,
  let c := get_side (exec blk ops) sd in
  let c' := get_side (exec blk (ops ++ [o])) sd in
  forall j sj, get_sock c j = Some sj -> exists sj', get_sock c' j = Some sj' /\
    (s_addr sj' = s_addr sj \/
     (s_addr sj = None /\ exists a, s_addr sj' = Some a /\ 2 <= a < 64 /\ bound_set c a = [])).
Proof. exact bind_unique_step. Qed.
Print Assumptions C17_bind_unique_step.

Theorem C17_bind_twice : forall blk ops sd i s a arg, get_sock (reach blk ops sd) i = Some s -> s_addr s = Some a ->
  do_bind (reach blk ops sd) i arg = (reach blk ops sd, Err (LlcpError EINVAL)).
Proof. exact bind_twice_all. Qed.
Print Assumptions C17_bind_twice.

(* --- bind_ranges: outcome of bind() on an unbound socket in any reachable state (AddrMain.bind_outcome):
       anonymous -> least free address of 32..63 or EAGAIN; integer -> EFAULT out of 0..63, the address if free
       (32..63, or any for a raw access point) else EADDRINUSE, EACCES for 0..31 on ordinary sockets;
       name -> EFAULT if malformed, EADDRINUSE if the name is bound, well-known name -> its fixed address 4 if
       free else EADDRINUSE, other names -> least free address of 16..31 (else EADDRNOTAVAIL, see below) --- *)
Theorem C17_bind_ranges : forall blk ops sd i s arg c' r,
  get_sock (reach blk ops sd) i = Some s -> s_addr s = None -> do_bind (reach blk ops sd) i arg = (c', r) ->
  bind_outcome (reach blk ops sd) i s arg c' r.
Proof. exact bind_ranges_all. Qed.
Print Assumptions C17_bind_ranges.

(* the full statement "a failing bind has errno EADDRINUSE, EACCES, EFAULT or EAGAIN" is false of the code:
   exhaustion of the 16 named addresses raises EADDRNOTAVAIL (tests/test_llcp_llc.py pins that value) *)
Theorem C17_bind_errno_refuted :
  exists blk ops sd i s n, get_sock (reach blk ops sd) i = Some s /\ s_addr s = None /\ name_valid n = true /\
    snd (do_bind (reach blk ops sd) i (BName n)) = Err (LlcpError EADDRNOTAVAIL) /\ ~ documented EADDRNOTAVAIL.
Proof. exact bind_errno_undocumented. Qed.
Print Assumptions C17_bind_errno_refuted.
(* strongest true statement: documented errno for every failing bind except exactly that input class *)
Theorem C17_bind_errno_partial : forall blk ops sd i s arg c' e,
  get_sock (reach blk ops sd) i = Some s -> s_addr s = None -> do_bind (reach blk ops sd) i arg = (c', Err e) ->
  (exists x, e = LlcpError x /\ documented x) \/
  (exists n, arg = BName n /\ name_valid n = true /\ name_addr (reach blk ops sd) n = None /\ wks n = None /\
             none_free (reach blk ops sd) 16 32 /\ e = LlcpError EADDRNOTAVAIL).
Proof. exact bind_errno_all. Qed.
Print Assumptions C17_bind_errno_partial.

(* --- close_frees: closing the last socket frees the address and its name, nothing else changes;
       closing another socket keeps both; same when a waiting close() completes; the name can be bound again --- *)
Theorem C17_close_frees : forall blk ops sd i s a c' r,
  get_sock (reach blk ops sd) i = Some s -> s_addr s = Some a -> s_pend s = PdNone ->
  bound_set (reach blk ops sd) a = [i] -> sock_close s <> None -> do_close (reach blk ops sd) i = (c', r) ->
  r = Ok OUnit /\ bound_set c' a = [] /\ is_free c' a = true /\ (forall n, name_addr c' n <> Some a) /\
  (forall b, b <> a -> sap_get c' b = sap_get (reach blk ops sd) b) /\
  (forall n b, b <> a -> (name_addr c' n = Some b <-> name_addr (reach blk ops sd) n = Some b)).
Proof. exact close_frees_all. Qed.
Print Assumptions C17_close_frees.
Theorem C17_close_not_last : forall blk ops sd i s a c' r l,
  get_sock (reach blk ops sd) i = Some s -> s_addr s = Some a -> s_pend s = PdNone ->
  bound_set (reach blk ops sd) a = l -> (exists j, j <> i /\ In j l) -> sock_close s <> None ->
  do_close (reach blk ops sd) i = (c', r) ->
  r = Ok OUnit /\ bound_set c' a = remove_id l i /\ bound_set c' a <> [] /\ c_snl c' = c_snl (reach blk ops sd).
Proof. exact close_not_last_all. Qed.
Print Assumptions C17_close_not_last.
Theorem C17_close_pending_frees : forall blk ops sd i s' a,
  (exists s, get_sock (reach blk ops sd) i = Some s /\ evolves s s') -> s_addr s' = Some a -> s_recvq s' <> [] ->
  bound_set (reach blk ops sd) a = [i] ->
  let c' := fst (finish_close (reach blk ops sd) i s') in
  bound_set c' a = [] /\ is_free c' a = true /\ (forall n, name_addr c' n <> Some a) /\
  (forall n b, b <> a -> (name_addr c' n = Some b <-> name_addr (reach blk ops sd) n = Some b)).
Proof. exact close_pending_all. Qed.
Print Assumptions C17_close_pending_frees.
Theorem C17_rebind_after_close : forall blk ops sd j s n,
  get_sock (reach blk ops sd) j = Some s -> s_addr s = None -> name_valid n = true -> wks n = None ->
  name_addr (reach blk ops sd) n = None -> (exists a, 16 <= a < 32 /\ bound_set (reach blk ops sd) a = []) ->
  exists a, least_free (reach blk ops sd) 16 32 a /\ snd (do_bind (reach blk ops sd) j (BName n)) = Ok OUnit /\
            name_addr (fst (do_bind (reach blk ops sd) j (BName n))) n = Some a.
Proof. exact rebind_all. Qed.
Print Assumptions C17_rebind_after_close.

(* --- resolve_exact: a name in the table means exactly: sockets are bound at that address, each either bound
       under this name or accepted from it; absent name: no socket in the table is bound under it.  Service
       discovery answers that address (0 = absent).  CONNECT by name reaches the listening socket bound under the
       name and no other, or a DM reports absence (AddrMain.connect_by_name_outcome) --- *)
Theorem C17_name_meaning : forall blk ops sd n,
  match name_addr (reach blk ops sd) n with
  | Some a => (n = name_sdp /\ a = 1) \/
              (2 <= a < 64 /\ bound_set (reach blk ops sd) a <> [] /\
               forall i, In i (bound_set (reach blk ops sd) a) -> exists s, get_sock (reach blk ops sd) i = Some s /\ s_addr s = Some a /\
                 (s_bname s = Some n \/ (s_bname s = None /\ nolisten (s_state s))))
  | None => forall a i s, In i (bound_set (reach blk ops sd) a) -> get_sock (reach blk ops sd) i = Some s -> s_bname s <> Some n
  end.
Proof. exact name_meaning_all. Qed.
Print Assumptions C17_name_meaning.
Theorem C17_resolve_answer : forall blk ops sd rq rs c' r, dispatch (reach blk ops sd) (PSnl rq rs) = (c', r) ->
  sd_sdres c' = sd_sdres (reach blk ops sd) ++
                map (fun x => (fst x, match name_addr (reach blk ops sd) (snd x) with Some a => a | None => 0 end)) rq /\
  c_sap c' = c_sap (reach blk ops sd) /\ c_snl c' = c_snl (reach blk ops sd) /\ c_socks c' = c_socks (reach blk ops sd).
Proof. exact sdreq_answer_all. Qed.
Print Assumptions C17_resolve_answer.
Theorem C17_connect_by_name : forall blk ops sd ssap n c' r, dispatch (reach blk ops sd) (PConnect 1 ssap (Some n)) = (c', r) ->
  connect_by_name_outcome (reach blk ops sd) ssap n c' r.
Proof. exact connect_by_name_all. Qed.
Print Assumptions C17_connect_by_name.

(* --- datagram_exact.
   End to end (C17_datagram_exact_guarded, Proofs/AddrDgram.v): sender = datagram socket i of controller X, receiver =
   datagram socket r of the peer controller.  Ghost history computed along the history by AddrDgram.gupd:
     g_sent  PUI a s msg for every sendto(msg, a) accepted on i;   g_rcvd  PUI a s data for every (data, s) that
     recvfrom on r returned;   g_drop  datagrams discarded by exactly these rules: (1) close() of i discards what is
     still in its send queue, (2) close() of r discards what is still in its receive queue, (3) a datagram from s for a
     that is transferred and does not enter the receive queue of r is discarded.  When a transferred datagram enters
     the queue is C17_datagram_arrival_rule: it is appended, unchanged, iff a socket is bound at its DSAP whose peer
     filter admits the source, the payload is not longer than the link MIU and the queue holds fewer than SO_RCVBUF
     entries; the NEWLY ARRIVING datagram is the one that is dropped on overflow, the queue is left as it is.
   Guard AddrDgram.compat, required of the state at the END of the history (it then held all along, because sockets keep
   type and address): i and r are datagram sockets, unbound or bound at s resp. a; NO OTHER socket of X is bound at s
   and no other socket of the peer at a (the two addresses are not re-used by other sockets); controller X has NO RAW
   ACCESS POINT socket (a raw access point can put UI PDUs with any source address on the link).
   The statement without the address re-use guard (per address instead of per socket) is not proved.
   Conclusion: g_rcvd ++ (datagrams from s waiting in r's receive queue) ++ (datagrams for a waiting in i's send queue)
   is an order-preserving sub-list of g_sent, and g_sent is a permutation of that list plus g_drop: what recvfrom
   returned is, in order, what sendto accepted minus what is still queued and minus what rules 1-3 discarded; nothing
   else is lost, duplicated, altered or delivered elsewhere.
   Per step: a dispatched UI PDU is appended unchanged to the receive queue of one socket bound at its DSAP, or to none;
   sendto queues exactly (dest, own address, message) at the tail; collect takes the head of a queue of a socket bound at
   that SAP; the peer dispatches exactly the collected PDU; recvfrom returns the head.  In every reachable state a
   datagram waiting in a receive queue is addressed to that socket's address and one waiting in a send queue carries
   that socket's address as source (C17_datagram_queues). --- *)
Theorem C17_datagram_exact_guarded : forall X i r s a blk ops,
  compat X i r s a (exec blk ops) ->
  let g := snd (grun X i r s a blk ops) in
  let st := exec blk ops in
  let kept := g_rcvd g ++ inq X r s st ++ outq X i a st in
  sub kept (g_sent g) /\ Permutation (g_sent g) (kept ++ g_drop g).
Proof. exact datagram_end_to_end. Qed.
Print Assumptions C17_datagram_exact_guarded.
Theorem C17_datagram_received_in_order : forall X i r s a blk ops,
  compat X i r s a (exec blk ops) -> sub (g_rcvd (snd (grun X i r s a blk ops))) (g_sent (snd (grun X i r s a blk ops))).
Proof. exact datagram_received_in_order. Qed.
Print Assumptions C17_datagram_received_in_order.
Theorem C17_datagram_all_received : forall X i r s a blk ops,
  compat X i r s a (exec blk ops) ->
  let g := snd (grun X i r s a blk ops) in
  g_drop g = [] -> inq X r s (exec blk ops) = [] -> outq X i a (exec blk ops) = [] -> g_rcvd g = g_sent g.
Proof. exact datagram_all_received. Qed.
Print Assumptions C17_datagram_all_received.
(* without raw access points a UI PDU leaves a controller only from the send queue of the datagram socket bound at its source *)
Theorem C17_ui_origin : forall c a' miu d ss data c', wf c -> (forall j sj, get_sock c j = Some sj -> s_type sj <> TRaw) ->
  collect1 c a' miu = Some (PUI d ss data, c') ->
  exists k sk rest, get_sock c k = Some sk /\ s_type sk = TLdl /\ s_addr sk = Some ss /\
                    s_sendq sk = PUI d ss data :: rest /\ get_sock c' k = Some (set_sendq sk rest).
Proof. exact collect_ui_origin. Qed.
Print Assumptions C17_ui_origin.
Theorem C17_datagram_queues : forall blk ops sd i s p, get_sock (reach blk ops sd) i = Some s -> s_type s = TLdl ->
  (In p (s_recvq s) -> exists d sa data, p = PUI d sa data /\ s_addr s = Some d) /\
  (In p (s_sendq s) -> exists d data a, p = PUI d a data /\ s_addr s = Some a).
Proof. exact datagram_queues_all. Qed.
Print Assumptions C17_datagram_queues.
Theorem C17_datagram_arrival_rule : forall blk ops sd d sa data c' r, dispatch (reach blk ops sd) (PUI d sa data) = (c', r) ->
  datagram_outcome (reach blk ops sd) d sa data c' r.
Proof. exact datagram_dispatch_all. Qed.
Print Assumptions C17_datagram_arrival_rule.
Theorem C17_datagram_sendto : forall blk ops sd i s msg d c', get_sock (reach blk ops sd) i = Some s -> s_type s = TLdl ->
  do_sendto (reach blk ops sd) i msg d = (c', Ok (OBool true)) ->
  exists s' a, get_sock c' i = Some s' /\ s_addr s' = Some a /\ (s_addr s = None \/ s_addr s = Some a) /\
               s_sendq s' = s_sendq s ++ [PUI d a msg] /\ s_recvq s' = s_recvq s /\
               (s_peer s = None \/ s_peer s = Some 0 \/ s_peer s = Some d) /\ len msg <= link_miu.
Proof. exact datagram_sendto_all. Qed.
Print Assumptions C17_datagram_sendto.
Theorem C17_collect_head : forall blk ops sd a miu p c', collect1 (reach blk ops sd) a miu = Some (p, c') ->
  (exists i s s', In i (bound_set (reach blk ops sd) a) /\ get_sock (reach blk ops sd) i = Some s /\ s_addr s = Some a /\
                  get_sock c' i = Some s' /\
                  (exists rest, s_sendq s = p :: rest /\ (s_sendq s' = rest \/ s_sendq s' = [])) /\
                  forall k, k <> i -> get_sock c' k = get_sock (reach blk ops sd) k) \/
  (exists l sl, sap_get (reach blk ops sd) a = Sap l (p :: sl) /\ sap_get c' a = Sap l sl /\ c_socks c' = c_socks (reach blk ops sd)) \/
  (a = 1 /\ c_socks c' = c_socks (reach blk ops sd)).
Proof. exact collect_head_all. Qed.
Print Assumptions C17_collect_head.
Theorem C17_link_same_pdu : forall st from a miu st' p evs, step st (XXfer from a miu) = (st', Ok (OXfer (Some p) evs)) ->
  exists c1, collect1 (get_side st from) a miu = Some (p, c1) /\
             dispatch (get_side (set_side st from c1) (other from)) p = (get_side st' (other from), Ok evs).
Proof. exact xfer_same_pdu. Qed.
Print Assumptions C17_link_same_pdu.
Theorem C17_datagram_recvfrom : forall c i s c' data ssap, get_sock c i = Some s -> s_type s = TLdl ->
  do_recvfrom c i = (c', Ok (ODgram data ssap)) ->
  exists d q, s_recvq s = PUI d ssap data :: q /\ get_sock c' i = Some (set_recvq s q).
Proof. exact datagram_recvfrom. Qed.
Print Assumptions C17_datagram_recvfrom.

(* --- tie: the allocation logic regenerated from src/nfc/llcp/llc.py on this run (Gen/AddrK.v, functions of the
       occupancy list occ = [x is None for x in self.sap]) is what the model computes.  Every reachable controller has
       64 slots (C17_bridge_table_len), which is the only premise. --- *)
Theorem C17_bridge_table_len : forall blk ops sd, length (c_sap (reach blk ops sd)) = 64%nat.
Proof. exact (fun blk ops sd => wf_len _ (reach_wf blk ops sd)). Qed.
Print Assumptions C17_bridge_table_len.
Theorem C17_bridge_wks : forall n, gen_c17_wks n = wks n.
Proof. exact bridge_wks. Qed.
Print Assumptions C17_bridge_wks.
Theorem C17_bridge_sap_is_none : forall c a, length (c_sap c) = 64%nat -> 0 <= a < 64 -> occ_free (occ_of c) a = is_free c a.
Proof. exact bridge_occ_free. Qed.
Print Assumptions C17_bridge_sap_is_none.
Theorem C17_bridge_scan : forall c lo hi, length (c_sap c) = 64%nat -> 0 <= lo -> lo <= hi -> hi <= 64 ->
  option_map (fun k => lo + k) (sap_index_none (occ_of c) lo hi) = first_free c (zrange lo hi).
Proof. exact bridge_scan. Qed.
Print Assumptions C17_bridge_scan.
Theorem C17_bridge_bind_by_none : forall c i s, length (c_sap c) = 64%nat ->
  match bind_none c i s with (c', Some _) => ok c' OUnit | (c', None) => llerr c' EAGAIN end =
  match gen_c17_bind_by_none (occ_of c) with
  | inl (a, _) => ok (place c i s a) OUnit
  | inr e => llerr c e
  end.
Proof. exact bridge_bind_by_none. Qed.
Print Assumptions C17_bridge_bind_by_none.
Theorem C17_bridge_bind_by_addr : forall c i s a, length (c_sap c) = 64%nat ->
  bind_addr c i s a =
  match gen_c17_bind_by_addr (occ_of c) (stype_eqb (s_type s) TRaw) a with
  | inl (a', _) => ok (place c i s a') OUnit
  | inr e => llerr c e
  end.
Proof. exact bridge_bind_by_addr. Qed.
Print Assumptions C17_bridge_bind_by_addr.
Theorem C17_bridge_bind_by_name : forall c i s n, length (c_sap c) = 64%nat ->
  bind_name c i s n =
  match gen_c17_bind_by_name (occ_of c) (name_valid n)
                             (match lookup (c_snl c) n with Some _ => true | None => false end) n with
  | inl (a, true) => ok (set_snl (place c i (set_bname s (Some n)) a) (c_snl c ++ [(n, a)])) OUnit
  | inl (a, false) => ok (place c i s a) OUnit
  | inr e => llerr c e
  end.
Proof. exact bridge_bind_by_name. Qed.
Print Assumptions C17_bridge_bind_by_name.
Theorem C17_bridge_do_bind : forall c i s arg, get_sock c i = Some s ->
  do_bind c i arg =
  match s_addr s with
  | Some _ => llerr c gen_c17_bind_twice
  | None => match arg with
            | BNone => match bind_none c i s with (c', Some _) => ok c' OUnit | (c', None) => llerr c' EAGAIN end
            | BAddr a => bind_addr c i s a
            | BName n => bind_name c i s n
            | BBad => llerr c gen_c17_bind_badtype
            end
  end.
Proof. exact bridge_do_bind. Qed.
Print Assumptions C17_bridge_do_bind.
Theorem C17_bridge_remove_socket : forall c a i,
  sap_remove c a i =
  match sap_get c a with
  | Sap l sl =>
      if gen_c17_remove_frees (len (remove_id l i))
      then set_snl (sap_set c a SapNone) (filter (fun kv => negb (gen_c17_name_dropped (snd kv) a)) (c_snl c))
      else sap_set c a (Sap (remove_id l i) sl)
  | _ => c
  end.
Proof. exact bridge_remove. Qed.
Print Assumptions C17_bridge_remove_socket.
Theorem C17_bridge_sap_enqueue : forall c a l sl p,
  sap_enqueue c a l sl p =
  if is_connect p then
    match pick_sock c l (fun s => sstate_eqb (s_state s) StListen) with
    | Some (i, s) => sock_enqueue c i s p
    | None => (sap_set c a (Sap l (sl ++ [PDM (pdu_ssap p) (pdu_dsap p) gen_c17_dm_unbound])), Ok [])
    end
  else
    match pick_sock c l (fun s => gen_c17_peer_match (pdu_ssap p) (s_peer s)) with
    | Some (i, s) => sock_enqueue c i s p
    | None => if is_dlc_pdu p
              then (sap_set c a (Sap l (sl ++ [PDM (pdu_ssap p) (pdu_dsap p) gen_c17_dm_inactive])), Ok [])
              else (c, Ok [])
    end.
Proof. exact bridge_sap_enqueue. Qed.
Print Assumptions C17_bridge_sap_enqueue.
Theorem C17_bridge_connect_by_name : forall c ssap sn,
  dispatch c (PConnect 1 ssap sn) =
  let addr := match sn with Some n => lookup (c_snl c) n | None => None end in
  if gen_c17_cbn_absent addr (match addr with Some a => is_free c a | None => false end)
  then (set_dmpdu c (sd_dmpdu c ++ [PDM ssap 1 (gen_c17_cbn_reason (match sn with None => true | Some _ => false end))]), Ok [])
  else let a := match addr with Some a => a | None => 0 end in
       let p := PConnect a ssap None in
       match sap_get c (pdu_dsap p) with
       | SapNone => (c, Ok [])
       | SapSD => sd_enqueue c p
       | Sap l sl => sap_enqueue c (pdu_dsap p) l sl p
       end.
Proof. exact bridge_connect_by_name. Qed.
Print Assumptions C17_bridge_connect_by_name.

(* nfc.llcp.socket.Socket hands its arguments to the controller unchanged (0, '', b'', None are not reinterpreted) *)
Theorem C17_bridge_socket_bind : forall c i arg, gen_c17_Socket_bind (do_bind c) i arg = do_bind c i arg.
Proof. exact bridge_socket_bind. Qed.
Print Assumptions C17_bridge_socket_bind.
Theorem C17_bridge_socket_connect : forall c i d, gen_c17_Socket_connect (do_connect c) i d = do_connect c i d.
Proof. exact bridge_socket_connect. Qed.
Print Assumptions C17_bridge_socket_connect.
Theorem C17_bridge_socket_sendto : forall c i msg d (flags : unit),
  gen_c17_Socket_sendto (fun i msg d (_ : unit) => do_sendto c i msg d) i msg d flags = do_sendto c i msg d.
Proof. exact bridge_socket_sendto. Qed.
Print Assumptions C17_bridge_socket_sendto.
Theorem C17_bridge_socket_others : forall c i b n k,
  gen_c17_Socket_listen (do_listen c) i b = do_listen c i b /\
  gen_c17_Socket_accept (do_accept c) i = do_accept c i /\
  gen_c17_Socket_recvfrom (do_recvfrom c) i = do_recvfrom c i /\
  gen_c17_Socket_close (do_close c) i = do_close c i /\
  gen_c17_Socket_getsockname (fun i => lstep c (LGetsockname i)) i = lstep c (LGetsockname i) /\
  gen_c17_Socket_setsockopt (fun i (_ : unit) v => do_rcvbuf c i v) i tt b = do_rcvbuf c i b /\
  gen_c17_Socket_resolve (fun n => do_resolve c n k) n = do_resolve c n k.
Proof. exact bridge_socket_others. Qed.
Print Assumptions C17_bridge_socket_others.

(* non-vacuity of the end-to-end theorem: sender B1 (bound at 33), receiver A0 (bound at 40, SO_RCVBUF 1): three datagrams
   are accepted, the second arrives while the first is still queued and is dropped (rule 3), the third stays in the send
   queue; the guard holds for this history *)
Definition dg_demo : list op :=
  [XLoc SA (LSocket TLdl); XLoc SA (LBind 0 (BAddr 40)); XLoc SB (LSocket TDlc); XLoc SB (LSocket TLdl);
   XLoc SB (LSendto 1 [1] 40); XLoc SB (LSendto 1 [2] 40); XLoc SB (LSendto 1 [3] 40);
   XXfer SB 32 248; XXfer SB 32 248; XLoc SA (LRecvfrom 0)].
Example C17_datagram_exact_nonvacuous :
  snd (grun SB 1 0 32 40 true dg_demo) = mkG [PUI 40 32 [1]; PUI 40 32 [2]; PUI 40 32 [3]] [PUI 40 32 [1]] [PUI 40 32 [2]] /\
  inq SB 0 32 (exec true dg_demo) = [] /\ outq SB 1 40 (exec true dg_demo) = [PUI 40 32 [3]] /\
  compat SB 1 0 32 40 (exec true dg_demo).
Proof.
  split; [vm_compute; reflexivity|]. split; [vm_compute; reflexivity|]. split; [vm_compute; reflexivity|].
  unfold compat. split; [|split; [|split; [|split]]].
  - intros si H. vm_compute in H. inversion H. split; [reflexivity | right; reflexivity].
  - intros sr H. vm_compute in H. inversion H. split; [reflexivity | right; reflexivity].
  - intros j sj H A. destruct j as [|[|[|j]]]; vm_compute in H; inversion H; subst; try reflexivity; vm_compute in A; discriminate.
  - intros j sj H A. destruct j as [|[|j]]; vm_compute in H; inversion H; subst; try reflexivity; vm_compute in A; discriminate.
  - intros j sj H. destruct j as [|[|[|j]]]; vm_compute in H; inversion H; subst; discriminate.
Qed.

(* non-vacuity: a concrete history - bind by name, listen, connect by name from the peer, transfer, accept;
   a datagram sent and received; close frees address 16 and the name *)
Definition nm_a : name := nm 0.
Definition demo : list op :=
  [XLoc SA (LSocket TDlc); XLoc SA (LBind 0 (BName nm_a)); XLoc SA (LListen 0 1);
   XLoc SB (LSocket TDlc); XLoc SB (LConnect 0 (DName nm_a)); XXfer SB 32 248; XLoc SA (LAccept 0);
   XLoc SB (LSocket TLdl); XLoc SA (LSocket TLdl); XLoc SA (LBind 2 (BAddr 40));
   XLoc SB (LSendto 1 [1; 2; 3] 40); XXfer SB 33 248; XLoc SA (LRecvfrom 2)].
Example C17_nonvacuous :
  snd (run (init_sys true) demo) =
    [Ok (OSock 0); Ok OUnit; Ok OUnit; Ok (OSock 0); Ok OPending;
     Ok (OXfer (Some (PConnect 1 32 (Some nm_a))) [EvEnq 0 (PConnect 16 32 None)]); Ok (OSock 1);
     Ok (OSock 1); Ok (OSock 2); Ok OUnit; Ok (OBool true);
     Ok (OXfer (Some (PUI 40 33 [1; 2; 3])) [EvEnq 2 (PUI 40 33 [1; 2; 3])]); Ok (ODgram [1; 2; 3] 33)] /\
  bound_set (fst (exec true demo)) 16 = [1%nat; 0%nat] /\ name_addr (fst (exec true demo)) nm_a = Some 16 /\
  name_valid nm_a = true /\
  (let c := fst (exec false [XLoc SA (LSocket TLdl); XLoc SA (LBind 0 (BName nm_a))]) in
   bound_set c 16 = [0%nat] /\ name_addr (fst (do_close c 0)) nm_a = None /\ is_free (fst (do_close c 0)) 16 = true).
Proof. vm_compute. repeat split. Qed.
