(* C20 - Tag authentication and MAC-protected reads cannot be fooled.
   Only statements here; proofs are in Proofs/AuthMac.v, AuthTag.v, AuthLiteS.v, AuthNtag.v, AuthDefects.v, DesKat.v.
   Models: Model/Des.v (FIPS 46-3 DES, 2-key 3DES-CBC), Model/FelicaMac.v (reader over an abstract
   channel `xchg`, card model `ftag`, `honest` = the undisturbed channel), Model/Ntag.v. *)
From Coq Require Import ZArith List Bool.
From NV Require Import Base.Result Base.Bytes Base.PyPrims Model.Des Model.FelicaMac Model.Ntag Model.AuthRun
  Proofs.DesKat Proofs.AuthMac Proofs.AuthTag Proofs.AuthLiteS Proofs.AuthNtag Proofs.AuthDefects
  Base.PyAuth Gen.AuthK Bridge.Auth.
Import ListNotations.
Open Scope Z_scope.

(* --- the DES model reproduces the published known answers (NBS SP 500-20, FIPS 81) --- *)
Theorem C20_des_known_answers :
  des_encrypt [0x13;0x34;0x57;0x79;0x9B;0xBC;0xDF;0xF1] [0x01;0x23;0x45;0x67;0x89;0xAB;0xCD;0xEF] = [0x85;0xE8;0x13;0x54;0x0F;0x0A;0xB4;0x05] /\
  des_encrypt [1;1;1;1;1;1;1;1] [0x80;0;0;0;0;0;0;0] = [0x95;0xF8;0xA5;0xE5;0xDD;0x31;0xD9;0x00] /\
  des_encrypt [0x80;1;1;1;1;1;1;1] [0;0;0;0;0;0;0;0] = [0x95;0xA8;0xD7;0x28;0x13;0xDA;0xA9;0x4D] /\
  des_encrypt [0x10;0x46;0x91;0x34;0x89;0x98;0x01;0x31] [0;0;0;0;0;0;0;0] = [0x88;0xD5;0x5E;0x54;0xF5;0x4C;0x97;0xB4] /\
  des_encrypt [0x7C;0xA1;0x10;0x45;0x4A;0x1A;0x6E;0x57] [0x01;0xA1;0xD6;0xD0;0x39;0x77;0x67;0x42] = [0x69;0x0F;0x5B;0x0D;0x9A;0x26;0x93;0x9B] /\
  des_decrypt [0x01;0x23;0x45;0x67;0x89;0xAB;0xCD;0xEF] [0x3F;0xA4;0x0E;0x8A;0x98;0x4D;0x48;0x15] = [0x4E;0x6F;0x77;0x20;0x69;0x73;0x20;0x74].
Proof. exact (conj des_kat_classic (conj des_kat_varplain (conj des_kat_varkey (conj des_kat_perm (conj des_kat_subst des_kat_decrypt))))). Qed.
Print Assumptions C20_des_known_answers.

(* --- DES cannot distinguish keys that differ only in parity bits: this is the sense in which
       "the tag holds the key derived from the password" is read for FeliCa --- *)
Theorem C20_des_key_parity : forall k1 k2 iv d, (16 <= length k1)%nat -> key_equiv k1 k2 ->
  tdes_cbc_encrypt k1 iv d = tdes_cbc_encrypt k2 iv d.
Proof. exact tdes_cbc_key_equiv. Qed.
Print Assumptions C20_des_key_parity.

(* --- mac_read_sound: for EVERY channel behaviour (any modification of any response), read_with_mac
       returns data d only if what was received is d ++ mac ++ tail with MAC(sk, iv, d) = mac --- *)
Theorem C20_mac_read_sound : forall (T : Type) (xchg : T -> list Z -> T * xres) idm blocks (s s' : T * rstate) d,
  read_with_mac xchg idm blocks s = (s', Ok (Some d)) ->
  exists sk iv mac tail,
    r_sk (snd s) = Some sk /\ r_iv (snd s) = Some iv /\
    read_blocks xchg idm (blocks ++ [129]) s = (s', Ok (d ++ mac ++ tail)) /\
    len mac = 8 /\ len tail = 8 /\ len d = 16 * len blocks /\
    generate_mac d sk iv false = Ok mac.
Proof. exact @read_with_mac_sound. Qed.
Print Assumptions C20_mac_read_sound.

(* ... any modification of data or MAC that breaks the MAC equation is detected (no data returned) *)
Theorem C20_mac_read_detects : forall (T : Type) (xchg : T -> list Z -> T * xres) idm blocks (s s' : T * rstate) sk iv d mac tail,
  r_sk (snd s) = Some sk -> r_iv (snd s) = Some iv ->
  read_blocks xchg idm (blocks ++ [129]) s = (s', Ok (d ++ mac ++ tail)) -> len mac = 8 -> len tail = 8 ->
  generate_mac d sk iv false <> Ok mac ->
  exists r, read_with_mac xchg idm blocks s = (s', r) /\ forall d', r <> Ok (Some d').
Proof. exact @read_with_mac_detects. Qed.
Print Assumptions C20_mac_read_detects.

(* ... and genuine data is returned *)
Theorem C20_mac_read_complete : forall (T : Type) (xchg : T -> list Z -> T * xres) idm blocks (s s' : T * rstate) sk iv d mac tail,
  r_sk (snd s) = Some sk -> r_iv (snd s) = Some iv ->
  read_blocks xchg idm (blocks ++ [129]) s = (s', Ok (d ++ mac ++ tail)) -> len mac = 8 -> len tail = 8 ->
  generate_mac d sk iv false = Ok mac ->
  read_with_mac xchg idm blocks s = (s', Ok (Some d)).
Proof. exact @read_with_mac_complete. Qed.
Print Assumptions C20_mac_read_complete.

(* --- FelicaLite.authenticate over EVERY channel: the result is the comparison of the received MAC
       with the MAC under the session key derived from the password and the challenge --- *)
Theorem C20_auth_any_channel : forall (T : Type) (xchg : T -> list Z -> T * xres) idm pw rc key (s s1 s2 : T * rstate) idb mac tail m,
  felica_key pw = Ok key ->
  write_without_mac xchg idm (rev_halves rc) 128 (fst s, mkR (r_sk (snd s)) (r_iv (snd s)) false) = (s1, Ok tt) ->
  read_without_mac xchg idm [130; 129] s1 = (s2, Ok (idb ++ mac ++ tail)) -> len mac = 8 -> len tail = 8 ->
  generate_mac idb (session_key key rc) (firstn 8 rc) false = Ok m ->
  lite_authenticate xchg idm pw rc s =
    ((fst s2, if list_eqb mac m then mkR (Some (session_key key rc)) (Some (firstn 8 rc)) true
              else mkR (r_sk (snd s)) (r_iv (snd s)) false), Ok (list_eqb mac m)).
Proof. exact @lite_authenticate_generic. Qed.
Print Assumptions C20_auth_any_channel.

(* --- auth_iff_mac: against the card (undisturbed channel), authenticate(pw) is True exactly when the
       MAC under the key derived from pw equals the MAC the card computed under its own key --- *)
Theorem C20_auth_iff_mac : forall tg st pw rc key,
  ft_wf tg -> length rc = 16%nat -> felica_key pw = Ok key ->
  exists b, snd (lite_authenticate honest (ft_idm tg) pw rc (tg, st)) = Ok b /\
    (b = true <->
     generate_mac (ft_mem tg 130) (session_key key rc) (firstn 8 rc) false =
     generate_mac (ft_mem tg 130) (session_key (ft_ck tg) rc) (firstn 8 rc) false).
Proof. exact lite_auth_iff_mac. Qed.
Print Assumptions C20_auth_iff_mac.

(* --- auth_same_key: the card holds the key derived from pw (modulo parity bits) -> True, and the
       reader then holds the session key --- *)
Theorem C20_auth_same_key : forall tg st pw rc key,
  ft_wf tg -> length rc = 16%nat -> felica_key pw = Ok key -> key_equiv key (ft_ck tg) ->
  snd (lite_authenticate honest (ft_idm tg) pw rc (tg, st)) = Ok true /\
  snd (fst (lite_authenticate honest (ft_idm tg) pw rc (tg, st))) = mkR (Some (session_key key rc)) (Some (firstn 8 rc)) true.
Proof. exact lite_auth_same_key. Qed.
Print Assumptions C20_auth_same_key.

(* --- auth_other_key: under the ideal-MAC premise (the MAC over this ID block under this challenge
       determines the card key up to parity) a card holding another key is rejected.  The premise is
       the first hypothesis of the theorem; cryptographic strength itself is not proved. --- *)
Theorem C20_auth_other_key : forall idb rc,
  (forall k1 k2,
     generate_mac idb (session_key k1 rc) (firstn 8 rc) false = generate_mac idb (session_key k2 rc) (firstn 8 rc) false ->
     key_equiv k1 k2) ->
  forall tg st pw key,
  ft_wf tg -> length rc = 16%nat -> ft_mem tg 130 = idb -> felica_key pw = Ok key -> ~ key_equiv key (ft_ck tg) ->
  snd (lite_authenticate honest (ft_idm tg) pw rc (tg, st)) = Ok false.
Proof. exact lite_auth_other_key_sec. Qed.
Print Assumptions C20_auth_other_key.

(* --- protect_then_auth, FeliCa Lite: protect(pw) on a card whose system blocks are writable returns
       True and a following authenticate(pw) returns True (any challenge, any protect_from) --- *)
Theorem C20_protect_then_auth_lite : forall tg st pw pf rc,
  ft_wf tg -> nth 2 (ft_mem tg 136) 0 = 255 -> pw_len_bad (Some pw) = false -> 0 <= pf -> length rc = 16%nat ->
  exists s1, lite_protect honest (ft_idm tg) (Some pw) false pf (tg, st) = (s1, Ok PTrue) /\
             snd (lite_authenticate honest (ft_idm tg) pw rc s1) = Ok true.
Proof. exact lite_protect_then_auth. Qed.
Print Assumptions C20_protect_then_auth_lite.

(* --- FeliCa Lite-S: mutual authentication (internal authentication, MAC_A-protected write of the
       STATE block, MAC read back) with a card holding the key (modulo parity) succeeds; the reader
       ends authenticated with the session key and the card with EXT_AUTH set and WCNT incremented --- *)
Theorem C20_auth_same_key_lites : forall tg st rep pw rc key,
  ft_wf tg -> ft_lites tg = true -> length rc = 16%nat -> felica_key pw = Ok key -> key_equiv key (ft_ck tg) ->
  lites_authenticate honest (ft_idm tg) rep pw rc (tg, st) =
    ((after_mac_write (with_rc tg rc) 146 (1 :: zeros 15),
      mkR (Some (session_key key rc)) (Some (firstn 8 rc)) true), Ok true).
Proof. exact lites_auth_same_key. Qed.
Print Assumptions C20_auth_same_key_lites.

(* --- protect_then_auth, FeliCa Lite-S (repaired code; byte-string password): protect(pw) on a card
       whose system blocks are writable returns True and a following authenticate(pw) returns True --- *)
Theorem C20_protect_then_auth_lites : forall tg st pw rp pf rc rc',
  ft_wf tg -> ft_lites tg = true -> nth 2 (ft_mem tg 136) 0 = 255 -> pw_len_bad (Some pw) = false -> 0 <= pf ->
  length rc = 16%nat -> length rc' = 16%nat ->
  exists s1, lites_protect honest (ft_idm tg) true (Some pw) rp pf rc (tg, st) = (s1, Ok PTrue) /\
             snd (lites_authenticate honest (ft_idm tg) true pw rc' s1) = Ok true.
Proof. exact lites_protect_then_auth. Qed.
Print Assumptions C20_protect_then_auth_lites.
(* For a card holding ANOTHER key the first phase of FelicaLiteS.authenticate is FelicaLite.authenticate,
   so C20_auth_iff_mac / C20_auth_other_key apply unchanged (lites_authenticate returns False as soon as
   lite_authenticate does). *)
Theorem C20_lites_auth_first_phase : forall (T : Type) (xchg : T -> list Z -> T * xres) idm rep pw rc (s s' : T * rstate),
  lite_authenticate xchg idm pw rc s = (s', Ok false) -> lites_authenticate xchg idm rep pw rc s = (s', Ok false).
Proof. exact @lites_auth_first_phase. Qed.
Print Assumptions C20_lites_auth_first_phase.

(* --- NTAG21x: PWD_AUTH is an exact comparison of all 48 bits --- *)
Theorem C20_ntag_auth_exact : forall tg st pw key,
  n_target st = true -> ntag_key pw = Ok key ->
  exists b tg', ntag_authenticate nhonest pw (tg, st) = ((tg', mkN true b), Ok b) /\
    nt_cfg tg' = nt_cfg tg /\ nt_mem tg' = nt_mem tg /\ nt_eff tg' = nt_eff tg /\
    (b = true <-> (firstn 4 key = nt_pwd tg /\ nt_pack tg = skipn 4 key)).
Proof. exact ntag_auth_exact. Qed.
Print Assumptions C20_ntag_auth_exact.

(* --- protect_then_auth, NTAG21x: after protect(pw) authenticate(pw) is True and authenticate(pw') is
       False for every pw' whose key bytes (first 6, or the factory default) differ --- *)
Theorem C20_protect_then_auth_ntag : forall tg st pw rp pf key,
  nt_open tg -> n_target st = true -> ntag_key pw = Ok key ->
  exists s1, ntag_protect nhonest nsense_present (nt_cfg tg) pw rp pf (tg, st) = (s1, Ok true) /\
    snd (ntag_authenticate nhonest pw s1) = Ok true /\
    forall pw' key', ntag_key pw' = Ok key' -> key' <> key -> snd (ntag_authenticate nhonest pw' s1) = Ok false.
Proof. exact ntag_protect_then_auth. Qed.
Print Assumptions C20_protect_then_auth_ntag.
Theorem C20_ntag_products_open : forall cfg, In cfg [16; 37; 41; 131; 227] -> nt_open (ntag_blank cfg).
Proof. exact ntag_blank_open. Qed.
Print Assumptions C20_ntag_products_open.

(* --- tie: the byte manipulation around the crypto calls, regenerated from tt3_sony.py / tt3.py /
       tt2_nxp.py on this run (Gen/AuthK.v, pyDes uninterpreted = Section variable des3_cbc), is what the
       models compute, with des3_cbc := the DES model --- *)
Theorem C20_bridge_generate_mac : forall data key iv flip,
  generate_mac data key iv flip =
    if gen_mac_assert data key iv then Ok (gen_generate_mac tdes_cbc_encrypt data key iv flip) else Crash AssertErr.
Proof. exact bridge_generate_mac. Qed.
Print Assumptions C20_bridge_generate_mac.
Theorem C20_bridge_felica_key : forall pw,
  felica_key pw = if gen_auth_pw_bad pw then Err ValueError else Ok (gen_auth_key pw).
Proof. exact bridge_felica_key. Qed.
Print Assumptions C20_bridge_felica_key.
Theorem C20_bridge_auth_rc_block : forall rc, length rc = 16%nat ->
  gen_auth_rc_block rc = rev_halves rc /\ gen_auth_rc_blockno = 128 /\ gen_auth_read_blocks = [130; 129].
Proof. exact bridge_auth_rc_block. Qed.
Print Assumptions C20_bridge_auth_rc_block.
Theorem C20_bridge_session_key : forall key rc,
  gen_auth_sk tdes_cbc_encrypt key rc = session_key key rc /\ gen_auth_iv rc = firstn 8 rc.
Proof. exact bridge_session_key. Qed.
Print Assumptions C20_bridge_session_key.
Theorem C20_bridge_auth_mac_ok : forall data sk rc m,
  generate_mac (pyslice data 0 (-16)) sk (firstn 8 rc) false = Ok m ->
  gen_auth_mac_ok tdes_cbc_encrypt data sk rc = list_eqb (pyslice data (-16) (-8)) m.
Proof. exact bridge_auth_mac_ok. Qed.
Print Assumptions C20_bridge_auth_mac_ok.
(* read_with_mac of the model is: split the response, compare, return - as generated from the method *)
Theorem C20_bridge_read_with_mac : forall (T : Type) (xchg : T -> list Z -> T * xres) idm blocks (s s' : T * rstate) sk iv rsp,
  r_sk (snd s) = Some sk -> r_iv (snd s) = Some iv ->
  read_blocks xchg idm (blocks ++ [gen_rmac_mac_block]) s = (s', Ok rsp) ->
  gen_mac_assert (gen_rmac_data rsp sk iv) sk iv = true ->
  read_with_mac xchg idm blocks s =
    (s', Ok (if gen_rmac_reject tdes_cbc_encrypt rsp sk iv then None else Some (gen_rmac_data rsp sk iv))).
Proof. exact @bridge_read_with_mac. Qed.
Print Assumptions C20_bridge_read_with_mac.
Theorem C20_bridge_wmac_pieces : forall w wcnt block data sk,
  gen_wmac_wcnt w = slice w 0 3 /\ gen_wmac_wcnt_block = 144 /\ gen_wmac_maca_block = 145 /\
  gen_wmac_plain wcnt block data = wcnt ++ [0; block; 0; 145; 0] ++ data /\
  (length sk = 16%nat -> gen_wmac_flip sk = skipn 8 sk ++ firstn 8 sk).
Proof. exact bridge_wmac_pieces. Qed.
Print Assumptions C20_bridge_wmac_pieces.
Theorem C20_bridge_wmac_payload : forall wcnt block data sk iv m, length sk = 16%nat ->
  let d := wcnt ++ [0; block; 0; 145; 0] ++ data in
  generate_mac d (skipn 8 sk ++ firstn 8 sk) iv false = Ok m ->
  gen_wmac_payload (gen_wmac_plain wcnt block data) (gen_wmac_maca tdes_cbc_encrypt (gen_wmac_plain wcnt block data) sk iv wcnt)
  = slice d 8 24 ++ m ++ wcnt ++ zeros 5.
Proof. exact bridge_wmac_payload. Qed.
Print Assumptions C20_bridge_wmac_payload.
Theorem C20_bridge_protect_key : forall pw key, length key = 16%nat ->
  gen_protect_key pw = pw_key pw /\ gen_lites_protect_key pw = pw_key pw /\
  gen_protect_ck_block key = rev_halves key /\ gen_lites_protect_ck_block key = rev_halves key /\
  gen_protect_ck_blockno = 135 /\ gen_lites_protect_ck_blockno = 135.
Proof. exact bridge_protect_key. Qed.
Print Assumptions C20_bridge_protect_key.
Theorem C20_bridge_lites_ckv : forall blk, length blk = 16%nat -> bytes_ok blk ->
  gen_lites_ckv_block blk = lites_ckv_block blk /\ gen_lites_ckv_blockno = 134.
Proof. exact bridge_lites_ckv. Qed.
Print Assumptions C20_bridge_lites_ckv.
Theorem C20_bridge_block_code : forall n, 0 <= n < 65536 -> block_code n = Ok (gen_blockcode_pack n 0 0).
Proof. exact bridge_block_code. Qed.
Print Assumptions C20_bridge_block_code.
Theorem C20_bridge_service_codes :
  gen_sc_read = [11; 0] /\ gen_sc_read_mac = [11; 0] /\ gen_sc_write = [9; 0] /\ gen_sc_write_mac = [9; 0].
Proof. exact bridge_service_codes. Qed.
Print Assumptions C20_bridge_service_codes.
Theorem C20_bridge_ntag_key : forall pw,
  ntag_key pw = (if gen_ntag_pw_bad pw then Err ValueError else Ok (gen_ntag_key pw)) /\
  gen_ntag_protect_pw_bad pw = gen_ntag_pw_bad pw /\ gen_ntag_protect_key pw = gen_ntag_key pw.
Proof. exact bridge_ntag_key. Qed.
Print Assumptions C20_bridge_ntag_key.
Theorem C20_bridge_ntag_auth : forall key rsp,
  gen_ntag_auth_cmd key = 27 :: firstn 4 key /\ gen_ntag_auth_ok rsp key = list_eqb rsp (slice key 4 6).
Proof. exact bridge_ntag_auth. Qed.
Print Assumptions C20_bridge_ntag_auth.
Theorem C20_bridge_ntag_cfg_edit : forall cfg key rp pf, length cfg = 16%nat -> length key = 6%nat ->
  gen_ntag_cfg_edit cfg key rp pf = ntag_cfg_edit cfg key rp pf.
Proof. exact bridge_ntag_cfg_edit. Qed.
Print Assumptions C20_bridge_ntag_cfg_edit.
Theorem C20_bridge_ntag_cfg_writes : forall cfgpage cfg,
  map (fun i => (gen_ntag_cfg_page cfgpage i, gen_ntag_cfg_slice cfg i)) (zrange 0 gen_ntag_cfg_count) =
  [(cfgpage, slice cfg 0 4); (cfgpage + 1, slice cfg 4 8); (cfgpage + 2, slice cfg 8 12); (cfgpage + 3, slice cfg 12 16)].
Proof. exact bridge_ntag_cfg_writes. Qed.
Print Assumptions C20_bridge_ntag_cfg_writes.
Theorem C20_bridge_ntag_cc : forall cc rp pf, length cc = 4%nat ->
  gen_ntag_cc_cond pf = (pf <=? 3) /\ gen_ntag_cc_test cc = ntag_cc_test cc /\ gen_ntag_cc_edit cc rp = ntag_cc_edit cc rp.
Proof. exact bridge_ntag_cc. Qed.
Print Assumptions C20_bridge_ntag_cc.

(* --- defects of the code as found (model with repaired = false), and the repaired behaviour --- *)
Theorem C20_lites_authenticate_found_TypeError :
  first_obs (felica_run true false w_idm w_rsps [OpAuth w_key w_rc]) = [ObBool (Crash TypeErr)] /\
  first_obs (felica_run true true w_idm w_rsps [OpAuth w_key w_rc]) = [ObBool (Ok false)].
Proof. exact (conj lites_authenticate_found_TypeError lites_authenticate_repaired_False). Qed.
Print Assumptions C20_lites_authenticate_found_TypeError.
Theorem C20_lites_protect_found_AttributeError :
  first_obs (felica_run true false w_idm w_mc_rsp [OpProtect (Some w_key) false 1 w_rc]) = [ObProt (Crash AttributeErr)].
Proof. exact lites_protect_found_AttributeError. Qed.
Print Assumptions C20_lites_protect_found_AttributeError.

(* non-vacuity: a concrete card, password (the card key with parity bits changed) and challenge meet
   the hypotheses of auth_same_key / protect_then_auth, and the runs give the stated results *)
Example C20_nonvacuous :
  let tg := mkFT false w_idm (mem_set (blank_mem false w_rc) 135 (rev_halves w_key)) false in
  let pw := map (fun b => Z.lxor b 1) w_key in
  felica_key pw = Ok pw /\ key_equivb pw (ft_ck tg) = true /\ list_eqb pw (ft_ck tg) = false /\
  snd (lite_authenticate honest w_idm pw w_rc (tg, rstate0)) = Ok true /\
  nth 2 (ft_mem (blank_tag false w_idm w_rc) 136) 0 = 255 /\
  snd (lite_protect honest w_idm (Some w_key) false 0 (blank_tag false w_idm w_rc, rstate0)) = Ok PTrue /\
  snd (lites_protect honest w_idm true (Some w_key) true 0 w_rc (blank_tag true w_idm w_rc, rstate0)) = Ok PTrue /\
  snd (ntag_protect nhonest nsense_present 41 [1; 2; 3; 4; 5; 6] true 4 (ntag_blank 41, nstate0)) = Ok true.
Proof. vm_compute. repeat split. Qed.
