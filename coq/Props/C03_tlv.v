(* C03 - NDEF writes touch nothing outside the NDEF message area: Type 1 / Type 2 tags.
   Only statements here; proofs are in Proofs/TlvLib.v, Proofs/T2T*.v, Proofs/T1T*.v.
   ndef_area L a = address a lies in the data area from the NDEF TLV on and is not reserved by a lock-control /
   memory-control TLV.  Everything else - UID, static and dynamic lock bytes, OTP/CC, the TLVs in front of the
   NDEF TLV, reserved ranges, the memory behind the data area - is outside. *)
From Coq Require Import ZArith List Bool.
From NV Require Import Base.Result Base.Bytes Base.PyPrims Model.TlvMem Model.T2T Model.T1T Gen.TlvFmtK Model.T2Sector Proofs.TlvLib Proofs.T2TFrame Proofs.T2Sector Proofs.T1T Bridge.TlvFmtK.
Import ListNotations.
Open Scope Z_scope.

(* an NDEF write (any data, accepted or rejected) leaves every byte outside the NDEF area unchanged *)
Theorem C03_t2_write_frame : forall m d L, wf_layout m -> t2_layout m = Some L ->
  let m' := apply_ws m (snd (t2_write m d)) in
  len m' = len m /\ forall a, 0 <= a < len m -> ndef_area L a = false -> get m' a = get m a.
Proof. exact t2_write_frame. Qed.
Print Assumptions C03_t2_write_frame.

(* every WRITE command addresses one page (4 bytes, aligned, behind the CC page, inside the memory) that holds
   at least one byte of the NDEF area *)
Theorem C03_t2_write_units : forall m d L, wf_layout m -> t2_layout m = Some L ->
  forall w, In w (snd (t2_write m d)) ->
    len (snd w) = 4 /\ fst w mod 4 = 0 /\ 16 <= fst w /\ fst w + 4 <= len m /\
    exists x, fst w <= x < fst w + 4 /\ ndef_area L x = true.
Proof. exact t2_write_units. Qed.
Print Assumptions C03_t2_write_units.

(* format() with or without wipe: succeeds, same frame property, same unit property *)
Theorem C03_t2_format_frame : forall m wipe L, wf_layout m -> t2_layout m = Some L ->
  let m' := apply_ws m (snd (t2_format m wipe)) in
  fst (t2_format m wipe) = Ok true /\ len m' = len m /\
  (forall a, 0 <= a < len m -> ndef_area L a = false -> get m' a = get m a) /\
  (forall w, In w (snd (t2_format m wipe)) -> len (snd w) = 4 /\ fst w mod 4 = 0 /\
     exists x, fst w <= x < fst w + 4 /\ ndef_area L x = true).
Proof. exact t2_format_frame. Qed.
Print Assumptions C03_t2_format_frame.

(* non-vacuity: lock byte at 23 directly behind the empty NDEF TLV at 21; format with wipe keeps it *)
Definition ex_t2 : list Z :=
  [1;2;3;136; 5;6;7;8; 12;72;0;0; 225;16;6;0;  1;3;23;8;20; 3;0; 90;254] ++ repeat 0 39.
Example C03_t2_nonvacuous :
  wf_layout ex_t2 /\ (exists L, t2_layout ex_t2 = Some L /\ ndef_area L 23 = false /\ ndef_area L 24 = true) /\
  snd (t2_format ex_t2 (Some 255)) <> [] /\
  get (apply_ws ex_t2 (snd (t2_format ex_t2 (Some 255)))) 23 = 90 /\
  get (apply_ws ex_t2 (snd (t2_format ex_t2 (Some 255)))) 25 = 255.
Proof. split; [vm_compute; reflexivity|]. split; [eexists; split; [vm_compute; reflexivity|]; split; vm_compute; reflexivity|].
  split; [vm_compute; discriminate|]. split; vm_compute; reflexivity. Qed.

(* ---------------------------------------------------------------- Type 1 (write unit: one byte for static memory,
   an 8 byte block for dynamic memory) *)
Theorem C03_t1_write_frame : forall hr0 m d L, t1_wf_layout hr0 m -> t1_layout hr0 m = Some L ->
  let m' := apply_ws m (snd (t1_write hr0 m d)) in
  len m' = len m /\ forall a, 0 <= a < len m -> ndef_area L a = false -> get m' a = get m a.
Proof. exact t1_write_frame. Qed.
Print Assumptions C03_t1_write_frame.

Theorem C03_t1_write_units : forall hr0 m d L, t1_wf_layout hr0 m -> t1_layout hr0 m = Some L ->
  forall w, In w (snd (t1_write hr0 m d)) ->
    len (snd w) = Z.of_nat (t1_unit hr0) /\ fst w mod Z.of_nat (t1_unit hr0) = 0 /\
    0 <= fst w /\ fst w + Z.of_nat (t1_unit hr0) <= len m /\
    exists x, fst w <= x < fst w + Z.of_nat (t1_unit hr0) /\ ndef_area L x = true.
Proof. exact t1_write_units. Qed.
Print Assumptions C03_t1_write_units.

Definition ex_t1d : list Z := [1;2;3;4;5;6;7;0; 225;16;63;0; 1;3;242;48;51; 2;3;240;2;3; 3;0] ++ repeat 0 488.
Example C03_t1_nonvacuous :
  t1_wf_layout 18 ex_t1d /\ (exists L, t1_layout 18 ex_t1d = Some L /\ ndef_area L 104 = false /\ ndef_area L 127 = false /\ ndef_area L 128 = true) /\
  length (snd (t1_write 18 ex_t1d (repeat 7 300))) = 40%nat.
Proof. split; [vm_compute; reflexivity|]. split; [eexists; split; [vm_compute; reflexivity|]; repeat split; vm_compute; reflexivity|].
  vm_compute; reflexivity. Qed.

(* ---------------------------------------------------------------- Topaz / Topaz-512 product classes (tt1_broadcom.py):
   format() re-creates the factory management bytes and wipes fixed ranges.  On a well-formed tag laid out differently
   this damages bytes outside the NDEF area (open finding, no small repair): Topaz-512 with an additional memory
   control TLV reserving bytes 200..207, NDEF TLV at byte 27, format(wipe=0). *)
Definition ex_t1_fmt : list Z :=
  [1;2;3;4;5;6;7;0; 225;16;63;0; 1;3;242;48;51; 2;3;240;2;3; 2;3;200;8;4; 3;0] ++ repeat 165 483.
Theorem C03_t1_vendor_format_refuted :
  t1_wf_layout 18 ex_t1_fmt /\
  exists L, t1_layout 18 ex_t1_fmt = Some L /\ fst (t1_format_vendor 18 76 ex_t1_fmt (Some 0)) = Ok (Some true) /\
    ndef_area L 200 = false /\ ndef_area L 24 = false /\
    get ex_t1_fmt 200 = 165 /\ get (apply_ws ex_t1_fmt (snd (t1_format_vendor 18 76 ex_t1_fmt (Some 0)))) 200 = 0 /\
    get ex_t1_fmt 24 = 200 /\ get (apply_ws ex_t1_fmt (snd (t1_format_vendor 18 76 ex_t1_fmt (Some 0)))) 24 = 0.
Proof. split; [vm_compute; reflexivity|]. eexists. split; [vm_compute; reflexivity|]. repeat split; vm_compute; reflexivity. Qed.
Print Assumptions C03_t1_vendor_format_refuted.

(* ---------------------------------------------------------------- tie: Type2Tag._format as it is in tt2.py on this run.
   The translator (translate/kspec_tags_tlv.py) checks the method's control skeleton - length byte := 0, step over reserved
   bytes, terminator only if the position is inside the data area, wipe loop bounded by the data area end and the skip set,
   one synchronize - and regenerates its arithmetic expressions; the model's format phase is that skeleton over them. *)
Theorem C03_bridge_format : forall L wipe c, ph_format L wipe c =
  (do c1 <- upd c (gen_t2_fmt_len_addr (l_off L)) 0;
   let a := gen_t2_fmt_term_from (l_off L) in
   match term_pos (l_skip L) a (Z.to_nat (l_dend L - a)) with
   | Some t =>
     do c2 <- upd c1 t 254;
     match wipe with
     | Some w => wipe_loop (l_skip L) (gen_t2_fmt_wipe_from t) (Z.to_nat (l_dend L - gen_t2_fmt_wipe_from t)) (gen_t2_fmt_wipe_value w) c2
     | None => Ok c2
     end
   | None => Ok c1
   end).
Proof. exact bridge_ph_format. Qed.
Print Assumptions C03_bridge_format.
Theorem C03_bridge_format_guard : forall L t b14,
  gen_t2_fmt_size b14 = b14 * 8 + 16 /\
  (term_pos (l_skip L) (gen_t2_fmt_term_from (l_off L)) (Z.to_nat (l_dend L - gen_t2_fmt_term_from (l_off L))) = Some t ->
   gen_t2_fmt_term_guard t (l_dend L) = true /\ in_skip (l_skip L) t = false /\ gen_t2_fmt_term_from (l_off L) <= t).
Proof. intros. split; [apply bridge_fmt_size | apply bridge_fmt_term_guard]. Qed.
Print Assumptions C03_bridge_format_guard.

(* non-vacuity: capacity 0, the empty NDEF TLV ends the data area, lock bytes directly behind: format leaves them alone *)
Definition ex_t2_end : list Z :=
  [1;2;3;136; 5;6;7;8; 12;72;0;0; 225;16;6;0; 253;44] ++ repeat 90 44 ++ [3;0; 17;34;51;68] ++ repeat 0 12.
Example C03_t2_end_nonvacuous :
  wf_layout ex_t2_end /\ t2_capacity ex_t2_end = Some 0 /\ fst (t2_format ex_t2_end (Some 255)) = Ok true /\
  snd (t2_format ex_t2_end (Some 255)) = [] /\ get (apply_ws ex_t2_end (snd (t2_format ex_t2_end None))) 64 = 17.
Proof. repeat split; vm_compute; reflexivity. Qed.

(* ---------------------------------------------------------------- Type 2 tags with more than one 1K sector.
   The memory models address the tag by absolute byte address.  That is what the code does as long as the library's
   _current_sector equals the sector the tag is in whenever a READ / WRITE is sent: sector_select keeps them equal whatever
   happens to a SECTOR SELECT sequence (packet 1 NAK / lost for all tries, packet 2 answered or garbled: the tag stays, the
   library keeps its value; passively acknowledged: both change), over any sequence of memory accesses; and after a
   successful select for address a, page (a >> 2) mod 256 of the tag's sector is the page that holds a. *)
Theorem C03_t2_sector_sync : forall ops lib tag, lib = tag -> fst (ss_run lib tag ops) = snd (ss_run lib tag ops).
Proof. exact ss_run_sync. Qed.
Print Assumptions C03_t2_sector_sync.
Theorem C03_t2_sector_step : forall lib tag target o r lib' tag', lib = tag ->
  sector_select lib tag target o = (r, lib', tag') -> lib' = tag' /\ (forall s, r = Ok s -> s = target /\ tag' = target).
Proof. exact sector_select_sync. Qed.
Print Assumptions C03_t2_sector_step.
Theorem C03_t2_access_addr : forall lib tag a o s lib' tag', lib = tag -> 0 <= a ->
  sector_select lib tag (Z.shiftr a 10) o = (Ok s, lib', tag') -> abs_addr tag' (Z.shiftr a 2 mod 256) = 4 * (a / 4).
Proof. exact access_addr. Qed.
Print Assumptions C03_t2_access_addr.
