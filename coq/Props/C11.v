(* C11 - LLCP PDU encoding and decoding are mutually consistent (src/nfc/llcp/pdu.py, with repairs c11-1..4).
   Only statements here; proofs are in Proofs/Pdu*.v.  Model: Model/Pdu.v (decode, encode, pdu_len, valid, norm).
   All theorems are about decode with offset >= 0 on byte strings (bytes_ok). *)
From Coq Require Import ZArith List Bool.
From NV Require Import Base.Result Base.Bytes Model.Pdu
  Model.PduSpec Gen.PduLen Bridge.Pdu Proofs.PduBase Proofs.PduWin Proofs.PduLen Proofs.PduRt Proofs.PduTotal Proofs.PduAgf Proofs.PduSound.
Import ListNotations.
Open Scope Z_scope.

(* --- the reported length is the length of the encoding: for every PDU that encodes at all (valid or not) --- *)
Theorem C11_len_encode : forall p b, encode p = EOk b -> pdu_len p = len b.
Proof. exact len_encode. Qed.
Print Assumptions C11_len_encode.

(* --- round trip: every PDU with valid field values (all 15 classes; SAP 0..63, N(S)/N(R) 0..15, MIU 128..2175,
       RW 0..15 including 0, LTO, WKS, OPT, names 1..255 bytes, any payload; aggregates of non-aggregates whose
       encodings fit the 16-bit length field) encodes, and its encoding decodes to the same PDU, field by field --- *)
Theorem C11_decode_encode : forall p, valid p -> exists b, encode p = EOk b /\ decode b 0 (len b) = Ok p.
Proof. exact decode_encode. Qed.
Print Assumptions C11_decode_encode.
(* ... also when the encoding sits anywhere inside a larger buffer *)
Theorem C11_decode_encode_at : forall p pre post, valid p ->
  exists b, encode p = EOk b /\ decode (pre ++ b ++ post) (len pre) (len b) = Ok p.
Proof. exact decode_encode_at. Qed.
Print Assumptions C11_decode_encode_at.

(* --- decode is total: for every byte string, offset >= 0 and size it returns a PDU or DecodeError;
       never another exception (Crash), never a hang --- *)
Theorem C11_decode_total : forall data off size, 0 <= off -> bytes_ok data ->
  (exists p, decode data off size = Ok p) \/ decode data off size = Err DecodeError.
Proof. exact decode_total. Qed.
Print Assumptions C11_decode_total.

(* --- what decode returns has valid field values (after identifying an empty name/key/nonce with an absent one) --- *)
Theorem C11_decode_valid : forall data off size p, 0 <= off -> bytes_ok data ->
  decode data off size = Ok p -> valid (norm p).
Proof. exact decode_valid. Qed.
Print Assumptions C11_decode_valid.

(* --- a decoded PDU re-encodes; the encoding has the reported length and decodes to an equal PDU.
       Field-wise equal up to norm (an empty service name / ECPK / RN is not encoded, `if self.sn:`, and reads back as
       absent; norm p = p for every other PDU) ... --- *)
Theorem C11_decode_reencode : forall data off size p, 0 <= off -> bytes_ok data -> decode data off size = Ok p ->
  exists b', encode p = EOk b' /\ pdu_len p = len b' /\ decode b' 0 (len b') = Ok (norm p).
Proof. exact decode_reencode. Qed.
Print Assumptions C11_decode_reencode.
(* ... and equal in the sense of the PDU classes' own __eq__ (equality of encodings) without any identification *)
Theorem C11_decode_reencode_eq : forall data off size p, 0 <= off -> bytes_ok data -> decode data off size = Ok p ->
  exists b' p', encode p = EOk b' /\ decode b' 0 (len b') = Ok p' /\ encode p' = encode p.
Proof. exact decode_reencode_eq. Qed.
Print Assumptions C11_decode_reencode_eq.
Theorem C11_encode_norm : forall p, encode (norm p) = encode p.
Proof. exact encode_norm. Qed.
Print Assumptions C11_encode_norm.

(* --- a PDU is decoded from its own bytes only: the result for the window (offset, size) does not depend on
       what precedes or follows the window --- *)
Theorem C11_decode_local : forall pre w post, bytes_ok w ->
  decode (pre ++ w ++ post) (len pre) (len w) = decode w 0 (len w).
Proof. exact decode_local. Qed.
Print Assumptions C11_decode_local.
(* --- ... and the members of a decoded aggregate are exactly the results of decode on the members' own
       length-prefixed bytes, which together make up the aggregate's information field --- *)
Theorem C11_agf_local : forall data off size d s ps, 0 <= off -> bytes_ok data ->
  decode data off size = Ok (Agf d s ps) ->
  exists hdr subs, slice data off (off + size) = hdr ++ concat (map frame subs) /\ len hdr = 2 /\
                   Forall2 (fun e p => bytes_ok e /\ decode e 0 (len e) = Ok p) subs ps.
Proof. exact agf_local. Qed.
Print Assumptions C11_agf_local.

(* --- tie: the __len__ methods regenerated from src/nfc/llcp/pdu.py on this run are pdu_len --- *)
Theorem C11_bridge_len_symm : forall d s, gen_len_Symmetry = pdu_len (Symm d s).
Proof. exact bridge_len_symm. Qed.
Print Assumptions C11_bridge_len_symm.
Theorem C11_bridge_len_pax : forall d s v m w l o, gen_len_ParameterExchange v m w l o = pdu_len (Pax d s v m w l o).
Proof. exact bridge_len_pax. Qed.
Print Assumptions C11_bridge_len_pax.
Theorem C11_bridge_len_agf : forall d s ps, gen_len_AggregatedFrame (map pdu_len ps) = pdu_len (Agf d s ps).
Proof. exact bridge_len_agf. Qed.
Print Assumptions C11_bridge_len_agf.
Theorem C11_bridge_len_ui : forall d s data, gen_len_UnnumberedInformation data = pdu_len (UI d s data).
Proof. exact bridge_len_ui. Qed.
Print Assumptions C11_bridge_len_ui.
Theorem C11_bridge_len_connect : forall d s miu rw sn, gen_len_Connect miu rw sn = pdu_len (Connect d s miu rw sn).
Proof. exact bridge_len_connect. Qed.
Print Assumptions C11_bridge_len_connect.
Theorem C11_bridge_len_disc : forall d s, gen_len_Disconnect = pdu_len (Disc d s).
Proof. exact bridge_len_disc. Qed.
Print Assumptions C11_bridge_len_disc.
Theorem C11_bridge_len_cc : forall d s miu rw, gen_len_ConnectionComplete miu rw = pdu_len (CC d s miu rw).
Proof. exact bridge_len_cc. Qed.
Print Assumptions C11_bridge_len_cc.
Theorem C11_bridge_len_dm : forall d s r, gen_len_DisconnectedMode = pdu_len (DM d s r).
Proof. exact bridge_len_dm. Qed.
Print Assumptions C11_bridge_len_dm.
Theorem C11_bridge_len_frmr : forall d s a b c e f g h i, gen_len_FrameReject = pdu_len (Frmr d s a b c e f g h i).
Proof. exact bridge_len_frmr. Qed.
Print Assumptions C11_bridge_len_frmr.
Theorem C11_bridge_len_snl : forall d s rq rs, gen_len_ServiceNameLookup rq rs = pdu_len (Snl d s rq rs).
Proof. exact bridge_len_snl. Qed.
Print Assumptions C11_bridge_len_snl.
Theorem C11_bridge_len_dps : forall d s e r, gen_len_DataProtectionSetup e r = pdu_len (Dps d s e r).
Proof. exact bridge_len_dps. Qed.
Print Assumptions C11_bridge_len_dps.
Theorem C11_bridge_len_info : forall d s ns nr data, gen_len_Information data = pdu_len (Info d s ns nr data).
Proof. exact bridge_len_info. Qed.
Print Assumptions C11_bridge_len_info.
Theorem C11_bridge_len_rr : forall d s nr, gen_len_NumberedProtocolDataUnit = pdu_len (RR d s nr).
Proof. exact bridge_len_rr. Qed.
Print Assumptions C11_bridge_len_rr.
Theorem C11_bridge_len_rnr : forall d s nr, gen_len_NumberedProtocolDataUnit = pdu_len (RNR d s nr).
Proof. exact bridge_len_rnr. Qed.
Print Assumptions C11_bridge_len_rnr.
Theorem C11_bridge_len_unknown : forall pt d s payload, gen_len_UnknownProtocolDataUnit payload = pdu_len (Unknown pt d s payload).
Proof. exact bridge_len_unknown. Qed.
Print Assumptions C11_bridge_len_unknown.

(* non-vacuity: concrete PDUs / byte strings meeting the hypotheses, including RW = 0 and the former over-reads *)
Example C11_nonvacuous :
  valid (Connect 4 32 128 0 None) /\ encode (Connect 4 32 128 0 None) = EOk [17; 32; 5; 1; 0] /\
  decode [17; 32; 5; 1; 0] 0 5 = Ok (Connect 4 32 128 0 None) /\ pdu_len (Connect 4 32 128 0 None) = 5 /\
  valid (Agf 0 0 [CC 4 32 2175 0; UI 1 2 [65; 66]; Snl 1 1 [(3, [65])] [(1, 16)]]) /\
  decode [0; 128; 0; 4; 17; 32; 6; 5; 0; 5; 12; 193; 65; 66; 67] 0 15 = Err DecodeError /\   (* TLV reaching into the next member *)
  decode [17; 32; 6; 5; 65; 66; 67; 68; 69] 0 4 = Err DecodeError /\                          (* TLV reaching beyond size *)
  decode [0; 128; 0; 5; 12; 193; 88; 89; 90] 0 6 = Err DecodeError /\                         (* member longer than the AGF *)
  decode [0; 128; 0; 4; 0; 128; 0; 0] 0 8 = Err DecodeError /\                                (* AGF inside AGF *)
  decode [0; 128; 0; 2; 0; 0; 0; 3; 12; 193; 65] 0 11 = Ok (Agf 0 0 [Symm 0 0; UI 3 1 [65]]).
Proof. vm_compute. repeat split. Qed.

(* --- soundness against the independent reading of the LLCP frame formats (Model/PduSpec.v: header fields by
       division, information field as a sequence of T-L-V parameters, every field = value of the LAST parameter of
       its type with reserved bits ignored, defaults MIU 128 / RW 1, aggregate = length-prefixed non-aggregates):
       whatever decode returns is what that reading assigns to the PDU's own bytes --- *)
Theorem C11_decode_sound : forall data off size p, 0 <= off -> bytes_ok data ->
  decode data off size = Ok p -> Model.PduSpec.denotes (slice data off (off + size)) p.
Proof. exact Proofs.PduSound.decode_sound. Qed.
Print Assumptions C11_decode_sound.
