(* C11 - LLCP PDU encoding and decoding are mutually consistent (src/nfc/llcp/pdu.py, with repairs c11-1..4).
   Only statements here; proofs are in Proofs/Pdu*.v.  Model: Model/Pdu.v (decode, encode, pdu_len, valid, norm).
   All theorems are about decode with offset >= 0 on byte strings (bytes_ok). *)
From Coq Require Import ZArith List Bool.
From NV Require Import Base.Result Base.Bytes Model.Pdu
  Base.PyPrims Model.PduSpec Gen.PduLen Gen.PduK Gen.CollectK Gen.PduF Bridge.Pdu Bridge.PduF Proofs.PduBase Proofs.PduWin Proofs.PduLen Proofs.PduRt Proofs.PduTotal Proofs.PduAgf Proofs.PduSound.
Import ListNotations.
Open Scope Z_scope.

(* --- the reported length is the length of the encoding: for every PDU that encodes at all (valid or not) --- *)
Theorem C11_len_encode : forall p b, encode p = EOk b -> pdu_len p = len b.
Proof. exact len_encode. Qed.
Print Assumptions C11_len_encode.

(* --- round trip: every PDU with valid field values (all 15 classes; SAP 0..63, N(S)/N(R) 0..15, MIU 128..2175,
       RW 0..15 including 0, LTO, WKS, OPT, names 1..255 bytes, any payload; aggregates of non-aggregates whose
       encodings fit the 16-bit length field) encodes, and its encoding decodes to the same PDU, field by field --- *)
Theorem C11_decode_encode : forall p, valid p -> exists b, encode p = EOk b /\ decode b 0 (len b) = Ok p.
Proof. exact decode_encode. Qed.
Print Assumptions C11_decode_encode.
(* ... also when the encoding sits anywhere inside a larger buffer *)
Theorem C11_decode_encode_at : forall p pre post, valid p ->
  exists b, encode p = EOk b /\ decode (pre ++ b ++ post) (len pre) (len b) = Ok p.
Proof. exact decode_encode_at. Qed.
Print Assumptions C11_decode_encode_at.

(* --- decode is total: for every byte string, offset >= 0 and size it returns a PDU or DecodeError;
       never another exception (Crash), never a hang --- *)
Theorem C11_decode_total : forall data off size, 0 <= off -> bytes_ok data ->
  (exists p, decode data off size = Ok p) \/ decode data off size = Err DecodeError.
Proof. exact decode_total. Qed.
Print Assumptions C11_decode_total.

(* --- what decode returns has valid field values (after identifying an empty name/key/nonce with an absent one) --- *)
Theorem C11_decode_valid : forall data off size p, 0 <= off -> bytes_ok data ->
  decode data off size = Ok p -> valid (norm p).
Proof. exact decode_valid. Qed.
Print Assumptions C11_decode_valid.

(* --- a decoded PDU re-encodes; the encoding has the reported length and decodes to an equal PDU.
       Field-wise equal up to norm (an empty service name / ECPK / RN is not encoded, `if self.sn:`, and reads back as
       absent; norm p = p for every other PDU) ... --- *)
Theorem C11_decode_reencode : forall data off size p, 0 <= off -> bytes_ok data -> decode data off size = Ok p ->
  exists b', encode p = EOk b' /\ pdu_len p = len b' /\ decode b' 0 (len b') = Ok (norm p).
Proof. exact decode_reencode. Qed.
Print Assumptions C11_decode_reencode.
(* ... and equal in the sense of the PDU classes' own __eq__ (equality of encodings) without any identification *)
Theorem C11_decode_reencode_eq : forall data off size p, 0 <= off -> bytes_ok data -> decode data off size = Ok p ->
  exists b' p', encode p = EOk b' /\ decode b' 0 (len b') = Ok p' /\ encode p' = encode p.
Proof. exact decode_reencode_eq. Qed.
Print Assumptions C11_decode_reencode_eq.
Theorem C11_encode_norm : forall p, encode (norm p) = encode p.
Proof. exact encode_norm. Qed.
Print Assumptions C11_encode_norm.

(* --- a PDU is decoded from its own bytes only: the result for the window (offset, size) does not depend on
       what precedes or follows the window --- *)
Theorem C11_decode_local : forall pre w post, bytes_ok w ->
  decode (pre ++ w ++ post) (len pre) (len w) = decode w 0 (len w).
Proof. exact decode_local. Qed.
Print Assumptions C11_decode_local.
(* --- ... and the members of a decoded aggregate are exactly the results of decode on the members' own
       length-prefixed bytes, which together make up the aggregate's information field --- *)
Theorem C11_agf_local : forall data off size d s ps, 0 <= off -> bytes_ok data ->
  decode data off size = Ok (Agf d s ps) ->
  exists hdr subs, slice data off (off + size) = hdr ++ concat (map frame subs) /\ len hdr = 2 /\
                   Forall2 (fun e p => bytes_ok e /\ decode e 0 (len e) = Ok p) subs ps.
Proof. exact agf_local. Qed.
Print Assumptions C11_agf_local.

(* --- tie: the __len__ methods regenerated from src/nfc/llcp/pdu.py on this run are pdu_len --- *)
Theorem C11_bridge_len_symm : forall d s, gen_len_Symmetry = pdu_len (Symm d s).
Proof. exact bridge_len_symm. Qed.
Print Assumptions C11_bridge_len_symm.
Theorem C11_bridge_len_pax : forall d s v m w l o, gen_len_ParameterExchange v m w l o = pdu_len (Pax d s v m w l o).
Proof. exact bridge_len_pax. Qed.
Print Assumptions C11_bridge_len_pax.
Theorem C11_bridge_len_agf : forall d s ps, gen_len_AggregatedFrame (map pdu_len ps) = pdu_len (Agf d s ps).
Proof. exact bridge_len_agf. Qed.
Print Assumptions C11_bridge_len_agf.
Theorem C11_bridge_len_ui : forall d s data, gen_len_UnnumberedInformation data = pdu_len (UI d s data).
Proof. exact bridge_len_ui. Qed.
Print Assumptions C11_bridge_len_ui.
Theorem C11_bridge_len_connect : forall d s miu rw sn, gen_len_Connect miu rw sn = pdu_len (Connect d s miu rw sn).
Proof. exact bridge_len_connect. Qed.
Print Assumptions C11_bridge_len_connect.
Theorem C11_bridge_len_disc : forall d s, gen_len_Disconnect = pdu_len (Disc d s).
Proof. exact bridge_len_disc. Qed.
Print Assumptions C11_bridge_len_disc.
Theorem C11_bridge_len_cc : forall d s miu rw, gen_len_ConnectionComplete miu rw = pdu_len (CC d s miu rw).
Proof. exact bridge_len_cc. Qed.
Print Assumptions C11_bridge_len_cc.
Theorem C11_bridge_len_dm : forall d s r, gen_len_DisconnectedMode = pdu_len (DM d s r).
Proof. exact bridge_len_dm. Qed.
Print Assumptions C11_bridge_len_dm.
Theorem C11_bridge_len_frmr : forall d s a b c e f g h i, gen_len_FrameReject = pdu_len (Frmr d s a b c e f g h i).
Proof. exact bridge_len_frmr. Qed.
Print Assumptions C11_bridge_len_frmr.
Theorem C11_bridge_len_snl : forall d s rq rs, gen_len_ServiceNameLookup rq rs = pdu_len (Snl d s rq rs).
Proof. exact bridge_len_snl. Qed.
Print Assumptions C11_bridge_len_snl.
Theorem C11_bridge_len_dps : forall d s e r, gen_len_DataProtectionSetup e r = pdu_len (Dps d s e r).
Proof. exact bridge_len_dps. Qed.
Print Assumptions C11_bridge_len_dps.
Theorem C11_bridge_len_info : forall d s ns nr data, gen_len_Information data = pdu_len (Info d s ns nr data).
Proof. exact bridge_len_info. Qed.
Print Assumptions C11_bridge_len_info.
Theorem C11_bridge_len_rr : forall d s nr, gen_len_NumberedProtocolDataUnit = pdu_len (RR d s nr).
Proof. exact bridge_len_rr. Qed.
Print Assumptions C11_bridge_len_rr.
Theorem C11_bridge_len_rnr : forall d s nr, gen_len_NumberedProtocolDataUnit = pdu_len (RNR d s nr).
Proof. exact bridge_len_rnr. Qed.
Print Assumptions C11_bridge_len_rnr.
Theorem C11_bridge_len_unknown : forall pt d s payload, gen_len_UnknownProtocolDataUnit payload = pdu_len (Unknown pt d s payload).
Proof. exact bridge_len_unknown. Qed.
Print Assumptions C11_bridge_len_unknown.


(* --- tie, round 2: the codec kernels regenerated from pdu.py on this run (Gen/PduK.v: header bit packing, the
       parameter codec with its length limits and reserved-bit masks, the size tests of decode() and of
       AggregatedFrame.decode incl. the nested-AGF guard, the Connect/CC encode tests and defaults, FRMR packing)
       are the expressions / functions of Model/Pdu.v.  MIUX test and mask: C10's kernels in Gen/CollectK.v --- *)
Theorem C11_bridge_encode_header pt d s :
  encode_header pt d s =
  if gen_pdu_hdr_neg d s then EEncodeError else if gen_pdu_hdr_big d s then EEncodeError
  else if in_range 0 65535 (gen_pdu_hdr_value d pt s) then EOk (gen_pdu_hdr_bytes d pt s) else ECrash StructErr.
Proof. exact (bridge_encode_header pt d s). Qed.
Print Assumptions C11_bridge_encode_header.
Theorem C11_bridge_encode_nheader pt d s ns nr :
  encode_nheader pt d s ns nr =
  edo h <- encode_header pt d s;
  if gen_pdu_seq_neg ns nr then EEncodeError else if gen_pdu_seq_big ns nr then EEncodeError
  else EOk (h ++ gen_pdu_seq_bytes ns nr).
Proof. exact (bridge_encode_nheader pt d s ns nr). Qed.
Print Assumptions C11_bridge_encode_nheader.
Theorem C11_bridge_decode_header data off size a b :
 rd data off = Some a -> rd data (off + 1) = Some b ->
  decode_header data off size =
  if gen_pdu_hdr_short size gen_pdu_hdr_size then Err DecodeError
  else Ok (gen_pdu_hdr_field0 data off, gen_pdu_hdr_field1 data off).
Proof. exact (bridge_decode_header data off size a b). Qed.
Print Assumptions C11_bridge_decode_header.
Theorem C11_bridge_decode_nheader data off size a b q :
  rd data off = Some a -> rd data (off + 1) = Some b -> rd data (off + 2) = Some q ->
  decode_nheader data off size =
  if gen_pdu_nhdr_short size gen_pdu_nhdr_size then Err DecodeError
  else Ok (gen_pdu_nhdr_field0 data off, gen_pdu_nhdr_field1 data off, gen_pdu_nhdr_field2 data off, gen_pdu_nhdr_field3 data off).
Proof. exact (bridge_decode_nheader data off size a b q). Qed.
Print Assumptions C11_bridge_decode_nheader.
Theorem C11_bridge_penc_types :
  gen_pdu_penc_u8_types = [gen_pdu_T_VERSION; gen_pdu_T_LTO; gen_pdu_T_RW; gen_pdu_T_OPT] /\
  gen_pdu_penc_u16_types = [gen_pdu_T_MIUX; gen_pdu_T_WKS] /\
  gen_pdu_penc_bytes_types = [gen_pdu_T_SN; gen_pdu_T_ECPK; gen_pdu_T_RN] /\
  [gen_pdu_T_VERSION; gen_pdu_T_MIUX; gen_pdu_T_WKS; gen_pdu_T_LTO; gen_pdu_T_RW; gen_pdu_T_SN; gen_pdu_T_OPT;
   gen_pdu_T_SDREQ; gen_pdu_T_SDRES; gen_pdu_T_ECPK; gen_pdu_T_RN] = [1; 2; 3; 4; 5; 6; 7; 8; 9; 10; 11].
Proof. exact (bridge_penc_types). Qed.
Print Assumptions C11_bridge_penc_types.
Theorem C11_bridge_param_encode t :
  param_encode t =
  match t with
  | TVersion v => if in_range 0 255 v then EOk (gen_pdu_penc_u8 gen_pdu_T_VERSION v) else EEncodeError
  | TMiux v => if in_range 0 65535 v then EOk (gen_pdu_penc_u16 gen_pdu_T_MIUX v) else EEncodeError
  | TWks v => if in_range 0 65535 v then EOk (gen_pdu_penc_u16 gen_pdu_T_WKS v) else EEncodeError
  | TLto v => if in_range 0 255 v then EOk (gen_pdu_penc_u8 gen_pdu_T_LTO v) else EEncodeError
  | TRw v => if in_range 0 255 v then EOk (gen_pdu_penc_u8 gen_pdu_T_RW v) else EEncodeError
  | TSn b => if gen_pdu_penc_bytes_long b then EEncodeError else EOk (gen_pdu_penc_bytes gen_pdu_T_SN b)
  | TOpt v => if in_range 0 255 v then EOk (gen_pdu_penc_u8 gen_pdu_T_OPT v) else EEncodeError
  | TSdreq tid sn => if gen_pdu_penc_sdreq_long sn then EEncodeError
                     else if in_range 0 255 tid then EOk (gen_pdu_penc_sdreq gen_pdu_T_SDREQ tid sn) else EEncodeError
  | TSdres tid sap => if in_range 0 255 tid && in_range 0 255 sap
                      then EOk (gen_pdu_penc_sdres gen_pdu_T_SDRES tid sap) else EEncodeError
  | TEcpk b => if gen_pdu_penc_bytes_long b then EEncodeError else EOk (gen_pdu_penc_bytes gen_pdu_T_ECPK b)
  | TRn b => if gen_pdu_penc_bytes_long b then EEncodeError else EOk (gen_pdu_penc_bytes gen_pdu_T_RN b)
  | TOther _ _ => EEncodeError
  end.
Proof. exact (bridge_param_encode t). Qed.
Print Assumptions C11_bridge_param_encode.
Theorem C11_bridge_param_decode data off size T L :
 rd data off = Some T -> rd data (off + 1) = Some L ->
  param_decode data off size =
  if off + 2 + L >? len data then Err DecodeError
  else if gen_pdu_pdec_exceeds L size then Err DecodeError
  else do t <- tlv_interp T L (slice data (off + 2) (off + 2 + L)); Ok (L, t).
Proof. exact (bridge_param_decode data off size T L). Qed.
Print Assumptions C11_bridge_param_decode.
Theorem C11_bridge_pdec_version L v :
  tlv_interp gen_pdu_T_VERSION L [v] =
  if gen_pdu_pdec_VERSION_badlen L then Err DecodeError else Ok (TVersion (gen_pdu_pdec_VERSION_raw [v])).
Proof. exact (bridge_pdec_version L v). Qed.
Print Assumptions C11_bridge_pdec_version.
Theorem C11_bridge_pdec_lto L v :
  tlv_interp gen_pdu_T_LTO L [v] =
  if gen_pdu_pdec_LTO_badlen L then Err DecodeError else Ok (TLto (gen_pdu_pdec_LTO_raw [v])).
Proof. exact (bridge_pdec_lto L v). Qed.
Print Assumptions C11_bridge_pdec_lto.
Theorem C11_bridge_pdec_wks L a b :
  tlv_interp gen_pdu_T_WKS L [a; b] =
  if gen_pdu_pdec_WKS_badlen L then Err DecodeError else Ok (TWks (gen_pdu_pdec_WKS_raw [a; b])).
Proof. exact (bridge_pdec_wks L a b). Qed.
Print Assumptions C11_bridge_pdec_wks.
Theorem C11_bridge_pdec_miux L a b :
 0 <= a < 256 -> 0 <= b < 256 ->
  tlv_interp gen_pdu_T_MIUX L [a; b] =
  if gen_pdu_pdec_MIUX_badlen L then Err DecodeError
  else Ok (TMiux (let V := gen_pdu_pdec_MIUX_raw [a; b] in
                  if negb (gen_c10_miux_reserved V =? 0) then gen_c10_miux_masked V else V)).
Proof. exact (bridge_pdec_miux L a b). Qed.
Print Assumptions C11_bridge_pdec_miux.
Theorem C11_bridge_pdec_rw L v :
 0 <= v < 256 ->
  tlv_interp gen_pdu_T_RW L [v] =
  if gen_pdu_pdec_RW_badlen L then Err DecodeError
  else Ok (TRw (let V := gen_pdu_pdec_RW_raw [v] in
                if negb (gen_pdu_pdec_RW_reserved V =? 0) then gen_pdu_pdec_RW_masked V else V)).
Proof. exact (bridge_pdec_rw L v). Qed.
Print Assumptions C11_bridge_pdec_rw.
Theorem C11_bridge_pdec_opt L v :
 0 <= v < 256 ->
  tlv_interp gen_pdu_T_OPT L [v] =
  if gen_pdu_pdec_OPT_badlen L then Err DecodeError
  else Ok (TOpt (let V := gen_pdu_pdec_OPT_raw [v] in
                 if negb (gen_pdu_pdec_OPT_reserved V =? 0) then gen_pdu_pdec_OPT_masked V else V)).
Proof. exact (bridge_pdec_opt L v). Qed.
Print Assumptions C11_bridge_pdec_opt.
Theorem C11_bridge_pdec_sdreq L tid sn :
  tlv_interp gen_pdu_T_SDREQ L (tid :: sn) = if gen_pdu_pdec_SDREQ_badlen L then Err DecodeError else Ok (TSdreq tid sn).
Proof. exact (bridge_pdec_sdreq L tid sn). Qed.
Print Assumptions C11_bridge_pdec_sdreq.
Theorem C11_bridge_pdec_sdres L a b :
  tlv_interp gen_pdu_T_SDRES L [a; b] = if gen_pdu_pdec_SDRES_badlen L then Err DecodeError else Ok (TSdres a b).
Proof. exact (bridge_pdec_sdres L a b). Qed.
Print Assumptions C11_bridge_pdec_sdres.
Theorem C11_bridge_pdec_bytes L V :
  tlv_interp gen_pdu_T_SN L V = Ok (TSn V) /\ tlv_interp gen_pdu_T_ECPK L V = Ok (TEcpk V) /\
  tlv_interp gen_pdu_T_RN L V = Ok (TRn V).
Proof. exact (bridge_pdec_bytes L V). Qed.
Print Assumptions C11_bridge_pdec_bytes.
Theorem C11_bridge_tlv_loop_step f step data off size st :
  tlv_loop (S f) step data off size st =
  if negb (gen_pdu_tlv_more size) then Ok st else
  do (L, t) <- param_decode data off size;
  tlv_loop f step data (gen_pdu_tlv_next_offset off L) (gen_pdu_tlv_next_size size L) (step st t).
Proof. exact (bridge_tlv_loop_step f step data off size st). Qed.
Print Assumptions C11_bridge_tlv_loop_step.
Theorem C11_bridge_decode_guard agf data off size :
  decode_gen agf data off size =
  if gen_pdu_dec_exceeds data off size then Err DecodeError
  else if gen_pdu_dec_short size then Err DecodeError else decode_gen agf data off size.
Proof. exact (bridge_decode_guard agf data off size). Qed.
Print Assumptions C11_bridge_decode_guard.
Theorem C11_bridge_decode_ptype data off a b :
 rd data off = Some a -> rd data (off + 1) = Some b ->
  gen_pdu_dec_ptype data off = Z.land (Z.shiftr (a * 256 + b) 6) 15.
Proof. exact (bridge_decode_ptype data off a b). Qed.
Print Assumptions C11_bridge_decode_ptype.
Theorem C11_bridge_type_map :
  gen_pdu_type_map =
  [(gen_pdu_ptype_Symmetry, 0); (gen_pdu_ptype_ParameterExchange, 1); (gen_pdu_ptype_AggregatedFrame, 2);
   (gen_pdu_ptype_UnnumberedInformation, 3); (gen_pdu_ptype_Connect, 4); (gen_pdu_ptype_Disconnect, 5);
   (gen_pdu_ptype_ConnectionComplete, 6); (gen_pdu_ptype_DisconnectedMode, 7); (gen_pdu_ptype_FrameReject, 8);
   (gen_pdu_ptype_ServiceNameLookup, 9); (gen_pdu_ptype_DataProtectionSetup, 10); (gen_pdu_ptype_Information, 11);
   (gen_pdu_ptype_ReceiveReady, 12); (gen_pdu_ptype_ReceiveNotReady, 13)] /\
  map fst gen_pdu_type_map = [0; 1; 2; 3; 4; 5; 6; 7; 8; 9; 10; 12; 13; 14].
Proof. exact (bridge_type_map). Qed.
Print Assumptions C11_bridge_type_map.
Theorem C11_bridge_unknown_ptype data off a b :
 rd data off = Some a -> rd data (off + 1) = Some b ->
  gen_pdu_unknown_ptype data off = Z.land (Z.lor (Z.shiftl a 2) (Z.shiftr b 6)) 15.
Proof. exact (bridge_unknown_ptype data off a b). Qed.
Print Assumptions C11_bridge_unknown_ptype.
Theorem C11_bridge_payloads data off size :
 0 <= off -> 0 <= off + size ->
  gen_pdu_ui_payload data off size = slice data (off + 2) (off + size) /\
  gen_pdu_info_payload data off size = slice data (off + 3) (off + size) /\
  gen_pdu_unknown_payload data off size = slice data (off + 2) (off + size).
Proof. exact (bridge_payloads data off size). Qed.
Print Assumptions C11_bridge_payloads.
Theorem C11_bridge_agf_step f data off size acc :
  agf_loop (S f) data off size acc =
  if negb (gen_pdu_agf_more size) then Ok acc else
  if gen_pdu_agf_lenshort size then Err DecodeError else
  match rd data off, rd data (off + 1) with
  | Some _, Some _ =>
      let n := gen_pdu_agf_len data off in
      if gen_pdu_agf_exceeds n size then Err DecodeError else
      do p <- decode_sub data (off + 2) n;
      agf_loop f data (gen_pdu_agf_next_offset off n) (gen_pdu_agf_next_size size n) (acc ++ [p])
  | _, _ => Err DecodeError
  end.
Proof. exact (bridge_agf_step f data off size acc). Qed.
Print Assumptions C11_bridge_agf_step.
Theorem C11_bridge_agf_member data moff n :
 0 <= moff ->
  decode_sub data moff n =
  if gen_pdu_agf_guard n && gen_pdu_agf_is_agf data moff then Err DecodeError else decode data moff n.
Proof. exact (bridge_agf_member data moff n). Qed.
Print Assumptions C11_bridge_agf_member.
Theorem C11_bridge_agf_tests n size off :
  gen_pdu_agf_exceeds n size = (n >? size - 2) /\ gen_pdu_agf_next_offset off n = off + 2 + n /\
  gen_pdu_agf_next_size size n = size - 2 - n /\ (forall d s, gen_pdu_agf_nonzero d s = negb (d =? 0) || negb (s =? 0)).
Proof. exact (bridge_agf_tests n size off). Qed.
Print Assumptions C11_bridge_agf_tests.
Theorem C11_bridge_agf_frame e :
 0 <= len e <= 65535 -> agf_body [e] = EOk (gen_pdu_agf_frame e).
Proof. exact (bridge_agf_frame e). Qed.
Print Assumptions C11_bridge_agf_frame.
Theorem C11_bridge_class_tests d s size :
  gen_pdu_symm_badsap d s = negb (d =? 0) || negb (s =? 0) /\ gen_pdu_symm_payload size = (size >=? 3) /\
  gen_pdu_pax_badsap d s = negb (d =? 0) || negb (s =? 0) /\ gen_pdu_snl_badsap d s = negb (d =? 1) || negb (s =? 1) /\
  gen_pdu_dps_badsap d s = negb (d =? 0) || negb (s =? 0) /\
  gen_pdu_symm_enc_badsap d s = negb (d =? 0) || negb (s =? 0) /\ gen_pdu_pax_enc_badsap d s = negb (d =? 0) || negb (s =? 0) /\
  gen_pdu_dps_enc_badsap d s = negb (d =? 0) || negb (s =? 0) /\ gen_pdu_agf_enc_nonzero d s = negb (d =? 0) || negb (s =? 0) /\
  gen_pdu_dm_badsize size = negb (size =? 3) /\ gen_pdu_frmr_badsize size = negb (size =? 6).
Proof. exact (bridge_class_tests d s size). Qed.
Print Assumptions C11_bridge_class_tests.
Theorem C11_bridge_symm data off size :
  dec_symm data off size =
  do (dsap, ssap) <- decode_header data off size;
  if gen_pdu_symm_badsap dsap ssap then Err DecodeError else
  if gen_pdu_symm_payload size then Err DecodeError else Ok (Symm dsap ssap).
Proof. exact (bridge_symm data off size). Qed.
Print Assumptions C11_bridge_symm.
Theorem C11_bridge_connect_encode d s miu rw sn :
  encode (Connect d s miu rw sn) =
  edo h <- encode_header gen_pdu_ptype_Connect d s;
  edo a <- (if gen_pdu_connect_enc_miux miu then param_encode (TMiux (gen_pdu_connect_enc_miux_arg miu)) else EOk []);
  edo b <- (if gen_pdu_connect_enc_rw rw then param_encode (TRw rw) else EOk []);
  edo c <- (if gen_pdu_connect_enc_sn sn then param_encode (TSn (match sn with Some x => x | None => [] end)) else EOk []);
  EOk (h ++ a ++ b ++ c).
Proof. exact (bridge_connect_encode d s miu rw sn). Qed.
Print Assumptions C11_bridge_connect_encode.
Theorem C11_bridge_cc_encode d s miu rw :
  encode (CC d s miu rw) =
  edo h <- encode_header gen_pdu_ptype_ConnectionComplete d s;
  edo a <- (if gen_pdu_cc_enc_miux miu then param_encode (TMiux (gen_pdu_cc_enc_miux_arg miu)) else EOk []);
  edo b <- (if gen_pdu_cc_enc_rw rw then param_encode (TRw rw) else EOk []);
  EOk (h ++ a ++ b).
Proof. exact (bridge_cc_encode d s miu rw). Qed.
Print Assumptions C11_bridge_cc_encode.
Theorem C11_bridge_connect_decode data off size d s miu rw sn x :
  dec_connect data off size =
    (do (dsap, ssap) <- decode_header data off size;
     tlv_loop (Z.to_nat (size - 2)) connect_step data (off + 2) (size - 2)
       (Connect dsap ssap gen_pdu_connect_default_miu gen_pdu_connect_default_rw None)) /\
  dec_cc data off size =
    (do (dsap, ssap) <- decode_header data off size;
     tlv_loop (Z.to_nat (size - 2)) cc_step data (off + 2) (size - 2)
       (CC dsap ssap gen_pdu_cc_default_miu gen_pdu_cc_default_rw)) /\
  connect_step (Connect d s miu rw sn) (TMiux x) = Connect d s (gen_pdu_connect_dec_miu x) rw sn /\
  cc_step (CC d s miu rw) (TMiux x) = CC d s (gen_pdu_cc_dec_miu x) rw.
Proof. exact (bridge_connect_decode data off size d s miu rw sn x). Qed.
Print Assumptions C11_bridge_connect_decode.
Theorem C11_bridge_frmr_encode d s fl pt ns nr vs vr vsa vra :
  encode (Frmr d s fl pt ns nr vs vr vsa vra) =
  edo h <- encode_header gen_pdu_ptype_FrameReject d s;
  if forallb (in_range 0 255) (gen_pdu_frmr_bytes fl pt ns nr vs vr vsa vra)
  then EOk (h ++ gen_pdu_frmr_bytes fl pt ns nr vs vr vsa vra) else ECrash StructErr.
Proof. exact (bridge_frmr_encode d s fl pt ns nr vs vr vsa vra). Qed.
Print Assumptions C11_bridge_frmr_encode.
Theorem C11_bridge_frmr_nibbles b :
 gen_pdu_frmr_hi b = Z.shiftr b 4 /\ gen_pdu_frmr_lo b = Z.land b 15.
Proof. exact (bridge_frmr_nibbles b). Qed.
Print Assumptions C11_bridge_frmr_nibbles.


(* --- tie, round 3: WHOLE functions.  Every decode classmethod, every encode method, decode_header / encode_header,
       Parameter.decode / Parameter.encode and the module-level decode() of pdu.py, translated statement by statement on
       this run (Gen/PduF.v), are the functions of Model/Pdu.v: the theorems above are about the translated source text.
       Hypotheses: offset >= 0, byte strings; offset + size >= 0 where a payload slice is taken; for the AGF classmethod
       called on its own, offset + size <= len data (decode() checks that before it dispatches) --- *)
Theorem C11_bridge_decode_header_f data off size :
  gen_decode_header data off size = decode_header data off size.
Proof. exact (Bridge.PduF.bridge_decode_header_f data off size). Qed.
Print Assumptions C11_bridge_decode_header_f.
Theorem C11_bridge_decode_nheader_f data off size :
  gen_decode_nheader data off size = decode_nheader data off size.
Proof. exact (Bridge.PduF.bridge_decode_nheader_f data off size). Qed.
Print Assumptions C11_bridge_decode_nheader_f.
Theorem C11_bridge_encode_header_f pt d s :
  gen_encode_header pt d s = encode_header pt d s.
Proof. exact (Bridge.PduF.bridge_encode_header_f pt d s). Qed.
Print Assumptions C11_bridge_encode_header_f.
Theorem C11_bridge_encode_nheader_f pt d s ns nr :
  gen_encode_nheader pt d s ns nr = encode_nheader pt d s ns nr.
Proof. exact (Bridge.PduF.bridge_encode_nheader_f pt d s ns nr). Qed.
Print Assumptions C11_bridge_encode_nheader_f.
Theorem C11_bridge_param_encode_f t :
  gen_param_encode t = param_encode t.
Proof. exact (Bridge.PduF.bridge_param_encode_f t). Qed.
Print Assumptions C11_bridge_param_encode_f.
Theorem C11_bridge_param_decode_f data off size :
  bytes_ok data ->
  gen_param_decode data off size = do (L, t) <- param_decode data off size; Ok (rd0 data off, L, t).
Proof. exact (Bridge.PduF.bridge_param_decode_f data off size). Qed.
Print Assumptions C11_bridge_param_decode_f.
Theorem C11_bridge_decode_Symmetry data off size :
  gen_decode_Symmetry data off size = dec_symm data off size.
Proof. exact (Bridge.PduF.bridge_decode_Symmetry data off size). Qed.
Print Assumptions C11_bridge_decode_Symmetry.
Theorem C11_bridge_decode_ParameterExchange data off size :
  bytes_ok data ->
  gen_decode_ParameterExchange data off size = dec_pax data off size.
Proof. exact (Bridge.PduF.bridge_decode_ParameterExchange data off size). Qed.
Print Assumptions C11_bridge_decode_ParameterExchange.
Theorem C11_bridge_decode_Connect data off size :
  bytes_ok data -> gen_decode_Connect data off size = dec_connect data off size.
Proof. exact (Bridge.PduF.bridge_decode_Connect data off size). Qed.
Print Assumptions C11_bridge_decode_Connect.
Theorem C11_bridge_decode_ConnectionComplete data off size :
  bytes_ok data ->
  gen_decode_ConnectionComplete data off size = dec_cc data off size.
Proof. exact (Bridge.PduF.bridge_decode_ConnectionComplete data off size). Qed.
Print Assumptions C11_bridge_decode_ConnectionComplete.
Theorem C11_bridge_decode_ServiceNameLookup data off size :
  bytes_ok data ->
  gen_decode_ServiceNameLookup data off size = dec_snl data off size.
Proof. exact (Bridge.PduF.bridge_decode_ServiceNameLookup data off size). Qed.
Print Assumptions C11_bridge_decode_ServiceNameLookup.
Theorem C11_bridge_decode_DataProtectionSetup data off size :
  bytes_ok data ->
  gen_decode_DataProtectionSetup data off size = dec_dps data off size.
Proof. exact (Bridge.PduF.bridge_decode_DataProtectionSetup data off size). Qed.
Print Assumptions C11_bridge_decode_DataProtectionSetup.
Theorem C11_bridge_decode_UnnumberedInformation data off size :
  0 <= off -> 0 <= off + size ->
  gen_decode_UnnumberedInformation data off size = dec_ui data off size.
Proof. exact (Bridge.PduF.bridge_decode_UnnumberedInformation data off size). Qed.
Print Assumptions C11_bridge_decode_UnnumberedInformation.
Theorem C11_bridge_decode_Disconnect data off size :
  gen_decode_Disconnect data off size = dec_disc data off size.
Proof. exact (Bridge.PduF.bridge_decode_Disconnect data off size). Qed.
Print Assumptions C11_bridge_decode_Disconnect.
Theorem C11_bridge_decode_DisconnectedMode data off size :
  gen_decode_DisconnectedMode data off size = dec_dm data off size.
Proof. exact (Bridge.PduF.bridge_decode_DisconnectedMode data off size). Qed.
Print Assumptions C11_bridge_decode_DisconnectedMode.
Theorem C11_bridge_decode_FrameReject data off size :
  gen_decode_FrameReject data off size = dec_frmr data off size.
Proof. exact (Bridge.PduF.bridge_decode_FrameReject data off size). Qed.
Print Assumptions C11_bridge_decode_FrameReject.
Theorem C11_bridge_decode_Information data off size :
  0 <= off -> 0 <= off + size ->
  gen_decode_Information data off size = dec_info data off size.
Proof. exact (Bridge.PduF.bridge_decode_Information data off size). Qed.
Print Assumptions C11_bridge_decode_Information.
Theorem C11_bridge_decode_ReceiveReady data off size :
  gen_decode_ReceiveReady data off size = dec_rr data off size.
Proof. exact (Bridge.PduF.bridge_decode_ReceiveReady data off size). Qed.
Print Assumptions C11_bridge_decode_ReceiveReady.
Theorem C11_bridge_decode_ReceiveNotReady data off size :
  gen_decode_ReceiveNotReady data off size = dec_rnr data off size.
Proof. exact (Bridge.PduF.bridge_decode_ReceiveNotReady data off size). Qed.
Print Assumptions C11_bridge_decode_ReceiveNotReady.
Theorem C11_bridge_decode_UnknownProtocolDataUnit data off size :
  0 <= off -> 0 <= off + size ->
  gen_decode_UnknownProtocolDataUnit data off size = dec_unknown data off size.
Proof. exact (Bridge.PduF.bridge_decode_UnknownProtocolDataUnit data off size). Qed.
Print Assumptions C11_bridge_decode_UnknownProtocolDataUnit.
Theorem C11_bridge_decode_AggregatedFrame_with dec data off size :
  0 <= off -> bytes_ok data -> off + size <= len data ->
  member_dec_ok dec data -> gen_decode_AggregatedFrame_with dec data off size = dec_agf data off size.
Proof. exact (Bridge.PduF.bridge_decode_AggregatedFrame_with dec data off size). Qed.
Print Assumptions C11_bridge_decode_AggregatedFrame_with.
Theorem C11_bridge_decode_fuel d data off size :
  0 <= off -> bytes_ok data ->
  gen_decode_fuel (S (S d)) data off size = decode data off size.
Proof. exact (Bridge.PduF.bridge_decode_fuel d data off size). Qed.
Print Assumptions C11_bridge_decode_fuel.
Theorem C11_bridge_decode data off size :
  0 <= off -> bytes_ok data -> gen_decode data off size = decode data off size.
Proof. exact (Bridge.PduF.bridge_decode data off size). Qed.
Print Assumptions C11_bridge_decode.
Theorem C11_bridge_decode_AggregatedFrame data off size :
  0 <= off -> bytes_ok data -> off + size <= len data ->
  gen_decode_AggregatedFrame data off size = dec_agf data off size.
Proof. exact (Bridge.PduF.bridge_decode_AggregatedFrame data off size). Qed.
Print Assumptions C11_bridge_decode_AggregatedFrame.
Theorem C11_bridge_encode : forall p, Gen.PduF.gen_encode p = encode p.
Proof. exact Bridge.PduF.bridge_encode. Qed.
Print Assumptions C11_bridge_encode.
Theorem C11_bridge_encode_Symmetry d s :
  gen_encode (Symm d s) = encode (Symm d s).
Proof. exact (Bridge.PduF.bridge_encode_Symmetry d s). Qed.
Print Assumptions C11_bridge_encode_Symmetry.
Theorem C11_bridge_encode_ParameterExchange d s v m w l o :
  gen_encode (Pax d s v m w l o) = encode (Pax d s v m w l o).
Proof. exact (Bridge.PduF.bridge_encode_ParameterExchange d s v m w l o). Qed.
Print Assumptions C11_bridge_encode_ParameterExchange.
Theorem C11_bridge_encode_AggregatedFrame d s ps :
  gen_encode (Agf d s ps) = encode (Agf d s ps).
Proof. exact (Bridge.PduF.bridge_encode_AggregatedFrame d s ps). Qed.
Print Assumptions C11_bridge_encode_AggregatedFrame.
Theorem C11_bridge_encode_UnnumberedInformation d s b :
  gen_encode (UI d s b) = encode (UI d s b).
Proof. exact (Bridge.PduF.bridge_encode_UnnumberedInformation d s b). Qed.
Print Assumptions C11_bridge_encode_UnnumberedInformation.
Theorem C11_bridge_encode_Connect d s miu rw sn :
  gen_encode (Connect d s miu rw sn) = encode (Connect d s miu rw sn).
Proof. exact (Bridge.PduF.bridge_encode_Connect d s miu rw sn). Qed.
Print Assumptions C11_bridge_encode_Connect.
Theorem C11_bridge_encode_Disconnect d s :
  gen_encode (Disc d s) = encode (Disc d s).
Proof. exact (Bridge.PduF.bridge_encode_Disconnect d s). Qed.
Print Assumptions C11_bridge_encode_Disconnect.
Theorem C11_bridge_encode_ConnectionComplete d s miu rw :
  gen_encode (CC d s miu rw) = encode (CC d s miu rw).
Proof. exact (Bridge.PduF.bridge_encode_ConnectionComplete d s miu rw). Qed.
Print Assumptions C11_bridge_encode_ConnectionComplete.
Theorem C11_bridge_encode_DisconnectedMode d s r :
  gen_encode (DM d s r) = encode (DM d s r).
Proof. exact (Bridge.PduF.bridge_encode_DisconnectedMode d s r). Qed.
Print Assumptions C11_bridge_encode_DisconnectedMode.
Theorem C11_bridge_encode_FrameReject d s a b c e f g h i :
  gen_encode (Frmr d s a b c e f g h i) = encode (Frmr d s a b c e f g h i).
Proof. exact (Bridge.PduF.bridge_encode_FrameReject d s a b c e f g h i). Qed.
Print Assumptions C11_bridge_encode_FrameReject.
Theorem C11_bridge_encode_ServiceNameLookup d s rq rs :
  gen_encode (Snl d s rq rs) = encode (Snl d s rq rs).
Proof. exact (Bridge.PduF.bridge_encode_ServiceNameLookup d s rq rs). Qed.
Print Assumptions C11_bridge_encode_ServiceNameLookup.
Theorem C11_bridge_encode_DataProtectionSetup d s e r :
  gen_encode (Dps d s e r) = encode (Dps d s e r).
Proof. exact (Bridge.PduF.bridge_encode_DataProtectionSetup d s e r). Qed.
Print Assumptions C11_bridge_encode_DataProtectionSetup.
Theorem C11_bridge_encode_Information d s ns nr b :
  gen_encode (Info d s ns nr b) = encode (Info d s ns nr b).
Proof. exact (Bridge.PduF.bridge_encode_Information d s ns nr b). Qed.
Print Assumptions C11_bridge_encode_Information.
Theorem C11_bridge_encode_ReceiveReady d s nr :
  gen_encode (RR d s nr) = encode (RR d s nr).
Proof. exact (Bridge.PduF.bridge_encode_ReceiveReady d s nr). Qed.
Print Assumptions C11_bridge_encode_ReceiveReady.
Theorem C11_bridge_encode_ReceiveNotReady d s nr :
  gen_encode (RNR d s nr) = encode (RNR d s nr).
Proof. exact (Bridge.PduF.bridge_encode_ReceiveNotReady d s nr). Qed.
Print Assumptions C11_bridge_encode_ReceiveNotReady.
Theorem C11_bridge_encode_UnknownProtocolDataUnit pt d s b :
  gen_encode (Unknown pt d s b) = encode (Unknown pt d s b).
Proof. exact (Bridge.PduF.bridge_encode_UnknownProtocolDataUnit pt d s b). Qed.
Print Assumptions C11_bridge_encode_UnknownProtocolDataUnit.

(* non-vacuity: concrete PDUs / byte strings meeting the hypotheses, including RW = 0 and the former over-reads *)
Example C11_nonvacuous :
  valid (Connect 4 32 128 0 None) /\ encode (Connect 4 32 128 0 None) = EOk [17; 32; 5; 1; 0] /\
  decode [17; 32; 5; 1; 0] 0 5 = Ok (Connect 4 32 128 0 None) /\ pdu_len (Connect 4 32 128 0 None) = 5 /\
  valid (Agf 0 0 [CC 4 32 2175 0; UI 1 2 [65; 66]; Snl 1 1 [(3, [65])] [(1, 16)]]) /\
  decode [0; 128; 0; 4; 17; 32; 6; 5; 0; 5; 12; 193; 65; 66; 67] 0 15 = Err DecodeError /\   (* TLV reaching into the next member *)
  decode [17; 32; 6; 5; 65; 66; 67; 68; 69] 0 4 = Err DecodeError /\                          (* TLV reaching beyond size *)
  decode [0; 128; 0; 5; 12; 193; 88; 89; 90] 0 6 = Err DecodeError /\                         (* member longer than the AGF *)
  decode [0; 128; 0; 4; 0; 128; 0; 0] 0 8 = Err DecodeError /\                                (* AGF inside AGF *)
  decode [0; 128; 0; 2; 0; 0; 0; 3; 12; 193; 65] 0 11 = Ok (Agf 0 0 [Symm 0 0; UI 3 1 [65]]).
Proof. vm_compute. repeat split. Qed.

(* --- soundness against the independent reading of the LLCP frame formats (Model/PduSpec.v: header fields by
       division, information field as a sequence of T-L-V parameters, every field = value of the LAST parameter of
       its type with reserved bits ignored, defaults MIU 128 / RW 1, aggregate = length-prefixed non-aggregates):
       whatever decode returns is what that reading assigns to the PDU's own bytes --- *)
Theorem C11_decode_sound : forall data off size p, 0 <= off -> bytes_ok data ->
  decode data off size = Ok p -> Model.PduSpec.denotes (slice data off (off + size)) p.
Proof. exact Proofs.PduSound.decode_sound. Qed.
Print Assumptions C11_decode_sound.
