(* C09 - When the LLCP link ends no application thread is left waiting.
   Only statements here; the model is Model/LlcLife.v (multi-thread transition system: any number of
   application threads, the link thread, schedules = lists of labels), proofs in Proofs/LlcLifeSeg.v
   (one lock-hold segment) and Proofs/LlcLife.v (inductive invariant, all schedules).
   Variant Fixed = nfcpy after fixes/c09-1..8; variant Orig = the unrepaired code where it differs.

   Liveness is stated as safety: "blocked => not shut down, or a notification is pending" is an
   inductive invariant, so after the shutdown transition every thread is runnable and each of its
   own steps ends the call within a fixed bound.  That the runnable threads are actually scheduled
   (CPython's scheduler is fair, Condition.wait() has no lost wake-ups of its own) is assumed. *)
From Coq Require Import ZArith List Bool Arith.
From NV Require Import Base.Result Model.LlcLife Proofs.LlcLifeSeg Proofs.LlcLife Proofs.LlcLifeOwn.
Import ListNotations.

(* --- one lock-hold segment of the repaired code (the semantic WaitCheck conditions) --------------- *)
(* (i) a wait() is only reached when the guard evaluated in the same hold found the socket open *)
Theorem C09_wait_guard_in_hold : forall p s tm orc c q,
  o_act (seg Fixed p s tm orc) = AWait c q -> st (o_sock (seg Fixed p s tm orc)) <> SHUTDOWN.
Proof. exact seg_wait_open. Qed.
Print Assumptions C09_wait_guard_in_hold.
(* (ii) a segment that moves the object to SHUTDOWN notifies all conditions of the object *)
Theorem C09_shutdown_notifies_all : forall p s tm orc,
  st s <> SHUTDOWN -> st (o_sock (seg Fixed p s tm orc)) = SHUTDOWN ->
  o_nall (seg Fixed p s tm orc) = close_conds (kd s).
Proof. exact seg_shut_notifies. Qed.
Print Assumptions C09_shutdown_notifies_all.

(* --- all schedules, any number of threads ------------------------------------------------------------- *)
(* a thread blocked on condition c of object o => o is not shut down (un-notified waiters only:
   Blocked _ _ _ true is a pending notification) *)
Theorem C09_blocked_implies_open : forall sched t o c p,
  let g := run (init Fixed) sched in
  ts (thr g t) = Blocked o c p false -> st (sk g o) <> SHUTDOWN.
Proof. exact blocked_implies_open. Qed.
Print Assumptions C09_blocked_implies_open.

(* after terminate() has completed (s1) no thread waits, and none newly blocks whatever follows (s2) *)
Theorem C09_no_thread_left_waiting : forall s1 s2 t,
  lpc (run (init Fixed) s1) = LDone -> waiting (run (init Fixed) (s1 ++ s2)) t = false.
Proof. exact no_thread_left_waiting. Qed.
Print Assumptions C09_no_thread_left_waiting.

(* every call that was blocked when the link ended has been notified and, within 4 steps of its own
   thread, returns a value or raises nfc.llcp.Error *)
Theorem C09_blocked_calls_return : forall s1 t o c p b,
  let g := run (init Fixed) s1 in
  lpc g = LDone -> ts (thr g t) = Blocked o c p b ->
  b = true /\ forall orcs, 4 <= length orcs ->
    exists r, ts (thr (run g (map (TRun t) orcs)) t) = Done r /\ good r = true.
Proof. exact blocked_calls_return. Qed.
Print Assumptions C09_blocked_calls_return.

(* every socket API call made after termination: no step enters a wait, every result is a value
   (None / False / ...) or Err (LlcpError e) *)
Theorem C09_after_shutdown_total : forall s1 s2 l t,
  lpc (run (init Fixed) s1) = LDone ->
  let g := run (init Fixed) (s1 ++ s2) in
  match ts (thr (step g l) t) with
  | Blocked _ _ _ false => False
  | Done r => ts (thr g t) = Done r \/ good r = true
  | _ => True
  end.
Proof. exact after_shutdown_total. Qed.
Print Assumptions C09_after_shutdown_total.

(* ... and it completes within rank p <= 4 steps of its thread *)
Theorem C09_calls_complete : forall n g t o p,
  Inv g -> lpc g = LDone ->
  (ts (thr g t) = At o p \/ exists c, ts (thr g t) = Blocked o c p true) ->
  rank p <= n -> forall orcs, n <= length orcs ->
  exists r, ts (thr (run g (map (TRun t) orcs)) t) = Done r /\ good r = true.
Proof. exact calls_complete. Qed.
Print Assumptions C09_calls_complete.
Theorem C09_inv_reachable : forall sched, Inv (run (init Fixed) sched).
Proof. exact reach_inv. Qed.
Print Assumptions C09_inv_reachable.

(* SNEP / handover servers: the calls of the accept and serve loops raise nfc.llcp.Error after
   termination (the loops are left through their handler), and every server thread has exited
   after at most 16 of its own steps *)
Theorem C09_server_calls_raise : forall n g t o p,
  Inv g -> lpc g = LDone ->
  (ts (thr g t) = At o p \/ exists c, ts (thr g t) = Blocked o c p true) ->
  srv_class p = true -> rank p <= n -> forall orcs, n <= length orcs ->
  exists r, ts (thr (run g (map (TRun t) orcs)) t) = Done r /\ is_llcp r = true.
Proof. exact server_calls_raise. Qed.
Print Assumptions C09_server_calls_raise.
Theorem C09_servers_exit : forall n g t w,
  Inv g -> lpc g = LDone -> is_server (mode (thr g t)) = true -> active (ts (thr g t)) ->
  mu (thr g t) <= n -> forall orcs, n <= length orcs ->
  exists k how, k <= n /\ mode (thr (srv_run t w (firstn k orcs) g) t) = MExit how.
Proof. exact servers_exit. Qed.
Print Assumptions C09_servers_exit.
Theorem C09_server_measure_bound : forall th, mu th <= 16.
Proof. exact mu_bound. Qed.
Print Assumptions C09_server_measure_bound.

(* single consumer: a socket accepted by a server's accept loop is referred to by one thread only (the
   loop, then the serve thread it starts) - for all schedules *)
Theorem C09_served_socket_single_consumer : forall sched t1 t2 o,
  let g := run (init Fixed) sched in
  srv (sk g o) = true -> In o (tref (thr g t1)) -> In o (tref (thr g t2)) -> t1 = t2.
Proof. exact served_socket_single_consumer. Qed.
Print Assumptions C09_served_socket_single_consumer.
(* hence the recv() a serve loop issues after poll('recv') returned True never waits and never returns
   None (no `bytearray(None)` / `request += None` TypeError at the end of the link): in that phase the
   thread is about to call / inside recv(), or holds its result: data or nfc.llcp.Error *)
Theorem C09_serve_recv_never_none : forall sched t c,
  let g := run (init Fixed) sched in
  mode (thr g t) = MServe c 1 ->
  ts (thr g t) = At c PRecv0 \/ ts (thr g t) = At c PRecv1
  \/ exists r, ts (thr g t) = Done r /\ (r = Ok VData \/ is_llcp r = true).
Proof. exact serve_recv_never_none. Qed.
Print Assumptions C09_serve_recv_never_none.

(* --- the unrepaired code violates the property: concrete schedules (also replayed on the real code
       by the scheduler harness) ------------------------------------------------------------------------ *)
Theorem C09_unrepaired_lost_wakeup :
  let g := lost_wakeup Orig in
  lpc g = LDone /\ ts (thr g 5) = Blocked 1 RecvReady PRecv2 false /\ st (sk g 1) = SHUTDOWN.
Proof. exact orig_lost_wakeup. Qed.
Print Assumptions C09_unrepaired_lost_wakeup.
Theorem C09_unrepaired_connect_after_termination_hangs :
  let g := late_connect Orig in lpc g = LDone /\ ts (thr g 7) = Blocked 2 RecvReady PConn2 false.
Proof. exact orig_late_connect_hangs. Qed.
Print Assumptions C09_unrepaired_connect_after_termination_hangs.
Theorem C09_unrepaired_resolve_after_termination_crashes :
  ts (thr (late_resolve Orig) 7) = Done (Crash AttributeErr).
Proof. exact orig_late_resolve_crashes. Qed.
Print Assumptions C09_unrepaired_resolve_after_termination_crashes.

(* the unrepaired link-thread enqueue (state test outside the lock) could queue a CC to a closed socket;
   connect() then revives it.  With the queue empty (invariant of the repaired code) it raises EPIPE *)
Theorem C09_unrepaired_enqueue_revives_closed_socket :
  let closed_with_cc := mkSock DLC SHUTDOWN true true true [ICC] 0 1 1 0 0 false in
  st (o_sock (seg Fixed PConn2 closed_with_cc false true)) = ESTABLISHED /\
  o_act (seg Fixed PConn2 (set_rq closed_with_cc []) false true) = ARet (Err (LlcpError EPIPE)).
Proof. exact revive_needs_empty_queue. Qed.
Print Assumptions C09_unrepaired_enqueue_revives_closed_socket.

(* non-vacuity: four threads blocked in recv (raw), accept, connect and resolve; the link terminates;
   all four are notified and return / raise; a call issued afterwards returns at once *)
Definition demo : gstate :=
  run (init Fixed)
    [TIssue 1 (ONew RAW); TNext 1 0; TIssue 1 (ONew DLC); TNext 1 0; TIssue 1 (ONew DLC); TNext 1 0;
     TIssue 1 (OBind 1); TRun 1 true; TRun 1 true; TNext 1 0;
     TIssue 1 (OListen 2); TRun 1 true; TRun 1 true; TRun 1 true; TNext 1 0;
     TIssue 10 (ORecv 1); TRun 10 true; TRun 10 true;
     TIssue 11 (OAccept 2); TRun 11 true;
     TIssue 12 (OConnect 3); TRun 12 true; TRun 12 true; TRun 12 true;
     TIssue 13 OResolve; TRun 13 false; TRun 13 false].
Definition demo_end : gstate := run demo [LTermBegin; LTermPop 1; LTermClose; LTermPop 2; LTermClose; LTermPop 3; LTermClose; LTermSd; LTermEnd].
Definition demo_after : gstate :=
  run demo_end [TRun 10 true; TRun 11 true; TRun 12 true; TRun 13 true; TIssue 14 (ORecv 1); TRun 14 true].
Example C09_nonvacuous :
  (waiting demo 10 && waiting demo 11 && waiting demo 12 && waiting demo 13 = true) /\
  lpc demo_end = LDone /\
  (waiting demo_end 10 || waiting demo_end 11 || waiting demo_end 12 || waiting demo_end 13 = false) /\
  ts (thr demo_after 10) = Done (Err (LlcpError EPIPE)) /\
  ts (thr demo_after 11) = Done (Err (LlcpError EPIPE)) /\
  ts (thr demo_after 12) = Done (Err (LlcpError EPIPE)) /\
  ts (thr demo_after 13) = Done (Ok VNone) /\
  ts (thr demo_after 14) = Done (Err (LlcpError EBADF)).
Proof. vm_compute. repeat split. Qed.
