(* C08 - Activating and reading arbitrary tags terminates safely.
   Only statements here; proofs are in Proofs/TagSafeAct.v, TagSafeTlv.v, TagSafeCmd.v, TagSafeIface.v (the facts about the
   shared models of T3T.v / T4T.v / IsoDep.v that TagSafeBlk.v uses), TagSafeBlk.v, TagSafeDep.v.
   Models: Model/TagAct.v (activation), Model/TagReadAny.v (Type 1/2 readers = Model/T2T.v, T1T.v after the repairs
   fixes/c08-12..16), Model/TagReadAnyB.v (Type 3/4 readers after the repairs fixes/c08-03..10 over a scripted
   responder, re-using the parts of Model/T3T.v, T4T.v, IsoDep.v that did not change).

   em            everything the Type 1/2 memory reader can load (a tag that stops answering = a shorter em)
   air / chan    the outcomes of the clf.exchange() / IsoDepInitiator.exchange() calls in the order they are made
   tlv_sound     tag, length field and value of the reported NDEF TLV lie inside the data area, the value was read from
                 non-reserved addresses, length <= capacity
   t3_sound / ... length <= capacity, only blocks / file offsets of the data area were read *)
From Coq Require Import ZArith List Bool.
From NV Require Import Base.Result Base.Bytes Model.TlvMem Model.T2T Model.T1T Model.IsoDep Model.T3T Model.T4T
  Model.TagAct Model.TagReadAny Model.TagReadAnyB
  Model.TagLoad
  Proofs.IsoDepStream Proofs.TagSafeAct Proofs.TagSafeTlv Proofs.TagSafeCmd Proofs.TagSafeLoad Proofs.TagSafeIface Proofs.TagSafeBlk Proofs.TagSafeDep.
Import ListNotations.
Open Scope Z_scope.

(* ================================================================ readers *)
(* ---- Type 2: any readable memory - no NDEF, or a sound NDEF state; never Crash / Hang (the result is Ok) *)
Theorem C08_t2_read_safe : forall em, bytes_ok em ->
  t2_read_any em = Ok None \/
  exists L, t2_read_any em = Ok (Some L) /\ tlv_sound em 16 L /\ l_dend L <= 2056.
Proof. exact t2_read_safe. Qed.
Print Assumptions C08_t2_read_safe.
(* ... every octet is the content of a non-reserved address of the data area *)
Theorem C08_tlv_sound_octets : forall em first L, 0 <= first -> tlv_sound em first L ->
  forall i, (i < length (l_val L))%nat ->
  exists p, first + 2 <= p < l_dend L /\ in_skip (l_skip L) p = false /\ nth_error (l_val L) i = nth_error em (Z.to_nat p).
Proof. exact tlv_sound_octets. Qed.
Print Assumptions C08_tlv_sound_octets.
(* the instrumented reader computes the same result; its demand never exceeds the readable memory by more than the one
   failing read (command bound in terms of what the tag delivers; bound in terms of the data area: see C08_t2_read_cmds) *)
Theorem C08_t2_read_d_same : forall em, fst (t2_read_d em) = t2_read_any em.
Proof. exact t2_read_d_fst. Qed.
Print Assumptions C08_t2_read_d_same.
Theorem C08_t2_demand_le : forall em, bytes_ok em -> snd (t2_read_d em) <= Z.max (len em + 1) 14.
Proof. exact t2_demand_le. Qed.
Print Assumptions C08_t2_demand_le.
(* command bound in terms of the data area (b14 = size byte of the capability container, data area = 8 * b14 bytes):
   the demand is at most t2_demand_bound, i.e. one READ per 16 bytes of it, two SECTOR SELECT packets per KiB and three
   tries for the command that is not answered - at most 11108 commands for the largest data area (when every answered
   command is answered at once; with retries see C08_t2_read_any_responses); when the tag does
   not even deliver byte 14, C08_t2_demand_le gives a demand of at most 15 bytes (one READ, tried three times) *)
Theorem C08_t2_read_cmds : forall em b14, bytes_ok em -> rd em 14 = Ok b14 ->
  snd (t2_read_d em) <= t2_demand_bound (b14 * 8 + 16) /\
  t2_cmds_max (snd (t2_read_d em)) <= t2_cmds_max (t2_demand_bound (b14 * 8 + 16)) /\
  t2_cmds_max (t2_demand_bound (b14 * 8 + 16)) <= 11108.
Proof. intros em b14 Hb E. split; [apply t2_read_demand_bound; assumption | apply t2_read_cmds; assumption]. Qed.
Print Assumptions C08_t2_read_cmds.
(* the repair is conservative: where the NDEF TLV fits, the reader of C01-C03 (Model/T2T.v) is unchanged *)
Theorem C08_t2_conservative : forall em L, t2_read em = Ok (Some L) -> tlv_fits em L = true -> t2_read_any em = t2_read em.
Proof. exact t2_read_any_conservative. Qed.
Print Assumptions C08_t2_conservative.
(* before the repair: 48 byte data area on a 96 byte tag, NDEF TLV of 60 bytes -> length 60 > capacity 46 *)
Theorem C08_t2_unrepaired_refuted :
  (exists L, t2_read ex_t2_overrun = Ok (Some L) /\ len (l_val L) = 60 /\ l_cap L = 46 /\ l_dend L = 64) /\
  t2_read_any ex_t2_overrun = Ok None.
Proof. exact t2_read_overrun_refuted. Qed.
Print Assumptions C08_t2_unrepaired_refuted.

(* ---- Type 1 (hr0 = header ROM byte 0) *)
Theorem C08_t1_read_safe : forall hr0 em, bytes_ok em ->
  t1_read_any hr0 em = Ok None \/
  exists L, t1_read_any hr0 em = Ok (Some L) /\ tlv_sound (firstn 2048 em) 12 L /\ l_dend L <= 2048.
Proof. exact t1_read_safe. Qed.
Print Assumptions C08_t1_read_safe.
(* at most RALL, READ8 and RSEG 1..15, the command that is not answered sent three times: 20 commands *)
Theorem C08_t1_read_cmds : forall hr0 em, bytes_ok em ->
  snd (t1_read_d hr0 em) <= 2049 /\ t1_cmds_max (snd (t1_read_d hr0 em)) <= 20.
Proof. intros hr0 em H. split; [apply t1_demand_le, H | apply t1_read_cmds, H]. Qed.
Print Assumptions C08_t1_read_cmds.
(* before the repairs (Model/T1T.v): IndexError on a lock control TLV without value, Type1TagCommandError leaving
   tag.ndef when the value runs past the memory, length 256 > capacity 218 *)
Theorem C08_t1_unrepaired_refuted :
  t1_read 17 ex_t1_short_lock = Crash IndexErr /\ (exists L, t1_read_any 17 ex_t1_short_lock = Ok (Some L) /\ l_val L = []) /\
  t1_read 17 ex_t1_beyond = Err (TagCommandError 0) /\ t1_read_any 17 ex_t1_beyond = Ok None /\
  (exists L, t1_read 18 ex_t1_overrun = Ok (Some L) /\ len (l_val L) = 256 /\ l_cap L = 218) /\
  t1_read_any 18 ex_t1_overrun = Ok None.
Proof. exact t1_read_legacy_refuted. Qed.
Print Assumptions C08_t1_unrepaired_refuted.

(* ================================================================ readers over response scripts *)
(* The command layer (Model/TagLoad.v): a script gives the outcome of EVERY clf.exchange() call - any byte string of any
   length, no answer, transmission / protocol error.  tag.ndef of a new tag object: the result is Ok - no NDEF, or an NDEF
   state that is sound on the image the memory reader built out of the answers - and the number of frames sent is bounded:
   3 per 16 bytes of demand + 4 per sector change (+4), at most 32983 for the largest Type 2 data area; 54 for Type 1. *)
Theorem C08_t2_read_any_responses : forall script, Forall rx_ok script ->
  let '(r, frames) := t2_read_responses script in
  (r = Ok None \/ exists L, r = Ok (Some L) /\ tlv_sound (t2_image script) 16 L /\ l_dend L <= 2056) /\
  len frames <= t2_wire_max (snd (t2_read_d (t2_image script))) /\
  t2_wire_max (snd (t2_read_d (t2_image script))) <= 32983.
Proof. exact t2_read_any_responses. Qed.
Print Assumptions C08_t2_read_any_responses.
Theorem C08_t1_read_any_responses : forall uid script, Forall rx_ok script ->
  let '(r, frames) := t1_read_responses uid script in
  (r = Ok None \/ exists L, r = Ok (Some L) /\ tlv_sound (t1_image uid script) 12 L /\ l_dend L <= 2048) /\
  len frames <= t1_wire_max.
Proof. exact t1_read_any_responses. Qed.
Print Assumptions C08_t1_read_any_responses.
(* the loaders themselves: for every script they stop with an image of bytes (no Crash, no Hang) within the frame bound *)
Theorem C08_t2_load_total : forall fuel w cur acc stop, wire_ok w -> bytes_ok acc -> stop <= T2_MAX ->
  0 <= cur <= len acc / 1024 -> (stop - len acc + 15) / 16 <= Z.of_nat fuel ->
  let '(st, em, c', w') := t2_load fuel w cur acc stop in
  (st = LDone \/ st = LFail) /\ bytes_ok em /\ (st = LDone -> stop <= len em) /\
  cur <= c' /\ c' <= Z.max cur ((stop - 1) / 1024) /\
  nsent w' <= nsent w + 3 * Z.max 0 ((stop - len acc + 15) / 16) + 4 * (c' - cur) + 4.
Proof. exact t2_load_spec. Qed.
Print Assumptions C08_t2_load_total.
Theorem C08_t1_load_total : forall script uid stop, Forall rx_ok script ->
  let '(st, hdr, em, w) := t1_load script uid stop in
  (st = LDone \/ st = LFail) /\ (hdr = [] \/ exists h0 h1, hdr = [h0; h1]) /\ bytes_ok em /\ nsent w <= t1_wire_max.
Proof. exact t1_load_spec. Qed.
Print Assumptions C08_t1_load_total.

(* ---- Type 3: any responder script - the result is Ok, no NDEF or a sound NDEF state; at most 3 frames for
        polling, the attribute block and each block of the data area (Nmaxb <= 65535) *)
Theorem C08_t3_read_safe : forall idm sys s, air_ok s -> len idm = 8 ->
  exists f s' idm' sys' nb nmaxb, t3_read_ndef idm sys s = (Ok f, s', (idm', sys')) /\ air_ok s' /\ len idm' = 8 /\
    a_blocks s' = nb ++ a_blocks s /\ t3_sound f nb /\
    0 <= nmaxb <= 65535 /\ sent s' <= sent s + 3 * (2 + nmaxb) /\ (forall r w cap d, f = Ndef r w cap d -> cap = 16 * nmaxb).
Proof. exact t3_read_safe. Qed.
Print Assumptions C08_t3_read_safe.
Theorem C08_t3_unrepaired_refuted :
  fst (t3_read_with_legacy ex_idm (mkAir [ex_rsp (ex_attr 0 4 10)] [] [])) = Crash RangeStep0 /\
  fst (t3_read_with ex_idm (mkAir [ex_rsp (ex_attr 0 4 10)] [] [])) = Ok NoNdef /\
  (exists d, fst (t3_read_with_legacy ex_idm (mkAir [ex_rsp (ex_attr 4 1 64); ex_rsp (repeat 7 64)] [] [])) = Ok (Ndef true true 16 d) /\ len d = 64) /\
  fst (t3_read_with ex_idm (mkAir [ex_rsp (ex_attr 4 1 64); ex_rsp (repeat 7 64)] [] [])) = Ok NoNdef.
Proof. exact t3_read_legacy_refuted. Qed.
Print Assumptions C08_t3_unrepaired_refuted.

(* ---- Type 4 (above the ISO-DEP layer): any card behaviour - the result is Ok, no NDEF or length <= capacity with
        capacity inside the 16 bit offset range; at most 7 + capacity APDUs *)
Theorem C08_t4_read_safe : forall c, chan_ok c -> c_reads c = [] ->
  exists f oi c', t4_read_any c = (Ok (f, oi), c') /\ chan_ok c' /\
    match f, oi with
    | NoNdef, _ => True
    | Ndef _ _ cap d, Some i => info_ok i /\ cap = i_cap i /\ len d <= cap /\ bytes_ok d
    | Ndef _ _ _ _, None => False
    end /\
    napdu c' <= napdu c + 7 + Z.max 0 (match oi with Some i => i_cap i | None => 0 end).
Proof. exact t4_read_safe. Qed.
Print Assumptions C08_t4_read_safe.
(* reading the NDEF file (also what has_changed does): every READ BINARY lies inside [0, nlen_size + capacity) *)
Theorem C08_t4_read_file_safe : forall c i, chan_ok c -> info_ok i ->
  exists f c' rs, read_with_any c i = (Ok f, c') /\ chan_ok c' /\ c_reads c' = rs ++ c_reads c /\ t4_sound f i rs /\
    napdu c' <= napdu c + 2 + Z.max 0 (i_cap i).
Proof. exact read_with_any_safe. Qed.
Print Assumptions C08_t4_read_file_safe.
Theorem C08_t4_unrepaired_refuted :
  fst (read_with_legacy (mkChan ([AOk [144; 0]; AOk [16; 0; 144; 0]] ++ repeat (AOk [144; 0]) 4200) [] []) (ex_info 256)) = Hang /\
  fst (read_with_any (mkChan ([AOk [144; 0]; AOk [16; 0; 144; 0]] ++ repeat (AOk [144; 0]) 4200) [] []) (ex_info 256)) = Ok NoNdef /\
  (exists d, fst (read_with_legacy (mkChan [AOk [144; 0]; AOk [0; 64; 144; 0]; AOk (repeat 7 59 ++ [144; 0]); AOk (repeat 7 5 ++ [144; 0])] [] [])
                                   (ex_info 16)) = Ok (Ndef true true 14 d) /\ len d = 64) /\
  fst (read_with_any (mkChan [AOk [144; 0]; AOk [0; 64; 144; 0]; AOk (repeat 7 59 ++ [144; 0]); AOk (repeat 7 5 ++ [144; 0])] [] [])
                     (ex_info 16)) = Ok NoNdef.
Proof. exact t4_read_legacy_refuted. Qed.
Print Assumptions C08_t4_unrepaired_refuted.
(* ---- the ISO-DEP layer with the WTX repair against ANY responder that uses at most W waiting time extensions /
        chained response blocks: a response or Type4TagCommandError, within the round bound of C12 *)
Theorem C08_isodep_any_safe : forall k cmd, fix_wtx_try k = true -> fix_wtx_chain k = true -> fix_rack k = true ->
  0 < miu k -> 0 <= n_nak k -> 0 <= n_ack k -> 0 < len cmd ->
  forall pn s W fuel, (forall N, wild s N <= W) -> (CC k + 1) * (len cmd + 2 + W) + CC k <= Z.of_nat fuel ->
  goodr (run_stream_any fuel k cmd (pcd_start k cmd pn) s 0).
Proof. exact isodep_any_safe. Qed.
Print Assumptions C08_isodep_any_safe.

(* ... and with the budget of fixes/c08-19 (at most 65538 S(WTX) requests + chained response blocks per exchange) against
   EVERY script of answers, unconditionally: S(WTX) for ever, chaining for ever, R(ACK) with either block number for ever,
   R(NAK), empty or one byte frames - the exchange stops with a response or Type4TagCommandError *)
Theorem C08_isodep_script_safe : forall k cmd, fix_wtx_try k = true -> fix_wtx_chain k = true -> fix_rack k = true ->
  0 < miu k -> 0 <= n_nak k -> 0 <= n_ack k -> 0 < len cmd ->
  forall pn script, goodr (fst (fst (dep_exchange k cmd pn script))).
Proof. exact isodep_script_safe. Qed.
Print Assumptions C08_isodep_script_safe.

(* ================================================================ activation *)
Theorem C08_dispatch_total : forall sens sel, len sens = 2 -> len sel = 1 -> exists k, tag_dispatch_a sens sel = Ok k.
Proof. exact dispatch_total. Qed.
Print Assumptions C08_dispatch_total.
(* answer to select: parameters or ProtocolError (which nfc.tag.activate turns into None) *)
Theorem C08_ats_total : forall ats,
  (exists fsci fwi, ats_fsci_fwi ats = Ok (fsci, fwi) /\ (bytes_ok ats -> 0 <= fsci <= 15 /\ 0 <= fwi <= 15))
  \/ ats_fsci_fwi ats = Err ProtocolError.
Proof. exact ats_total. Qed.
Print Assumptions C08_ats_total.
(* every standard-conformant answer to select (any subset of TA(1) TB(1) TC(1), any historical bytes) is read as
   ISO/IEC 14443-4 defines it *)
Theorem C08_ats_build_parse : forall fsci ta tb tc hist, 0 <= fsci <= 15 ->
  ats_fsci_fwi (ats_build fsci ta tb tc hist) = Ok (fsci, match tb with Some b => Z.shiftr b 4 | None => 4 end).
Proof. exact ats_build_parse. Qed.
Print Assumptions C08_ats_build_parse.
Theorem C08_t4a_activate_sane : forall rats max_send max_recv p, t4a_activate rats max_send max_recv = Some p ->
  (forall d, rats = ARx d -> bytes_ok d) ->
  a_fsc p <= max_send /\ a_miu p = a_fsc p - 3 /\ 0 <= a_fwti p <= 14 /\ 0 <= a_retry p <= 5.
Proof. exact t4a_activate_sane. Qed.
Print Assumptions C08_t4a_activate_sane.
Theorem C08_ats_unrepaired_refuted :
  t4a_activate_legacy (ARx [2; 0]) 256 256 = Crash IndexErr /\
  t4a_activate_legacy (ARx [3; 32; 129]) 256 256 = Crash IndexErr /\
  t4a_activate_legacy (ARx [1]) 256 256 = Crash IndexErr /\
  (exists p, t4a_activate_legacy (ARx [4; 96; 161; 2]) 256 256 = Ok (Some p) /\ a_fwti p = 0) /\
  (exists p, t4a_activate (ARx [4; 96; 161; 2]) 256 256 = Some p /\ a_fwti p = 10).
Proof. exact ats_legacy_crash. Qed.
Print Assumptions C08_ats_unrepaired_refuted.
Theorem C08_sensb_total : forall sensb attrib max_send max_recv,
  (len sensb < 12 /\ t4b_activate sensb attrib max_send max_recv = None) \/
  (12 <= len sensb /\ exists po, t4b_activate sensb attrib max_send max_recv = Some (attrib_cmd sensb max_recv, po) /\
     len (attrib_cmd sensb max_recv) = 9 /\
     ((exists d, attrib = ARx d) <-> po <> None) /\
     (forall p, po = Some p -> bytes_ok sensb ->
        a_fsc p <= max_send /\ a_miu p = a_fsc p - 3 /\ 0 <= a_fwti p <= 14 /\ 0 <= a_retry p <= 5)).
Proof. exact sensb_total. Qed.
Print Assumptions C08_sensb_total.
Theorem C08_rid_total : forall rid,
  let '(c, uid) := t1_activate rid in
  uid = slice rid 2 6 /\ len uid <= 4 /\
  (c = Topaz <-> slice rid 0 2 = [17; 72]) /\ (c = Topaz512 <-> slice rid 0 2 = [18; 76]).
Proof. exact rid_total. Qed.
Print Assumptions C08_rid_total.
Theorem C08_sensf_total : forall sensf, 17 <= len sensf ->
  t3_activate sensf = Ok None \/
  exists t, t3_activate sensf = Ok (Some t) /\ len (t3_idm t) = 8 /\ len (t3_pmm t) = 8 /\
            (len sensf < 19 -> t3_sys t = 65535) /\ (bytes_ok sensf -> 0 <= t3_sys t <= 65535).
Proof. exact sensf_total. Qed.
Print Assumptions C08_sensf_total.
(* GET_VERSION / Ultralight-C probing: a class or None after at most two commands and three sense() calls,
   whatever the tag answers and whenever it leaves *)
Theorem C08_version_total : forall sdd0 xs ss, let '(_, xs', ss') := t2_activate sdd0 xs ss in
  (length xs - length xs' <= 2 /\ length ss - length ss' <= 3)%nat.
Proof. exact version_total. Qed.
Print Assumptions C08_version_total.
Theorem C08_version_known : forall v c a, version_lookup version_map v = Some c -> (forall r, a <> ARx (175 :: r)) ->
  a <> ATxErr -> a <> AProto -> fst (fst (t2_activate 4 [a; ARx v] [true])) = Some c.
Proof. exact version_known. Qed.
Print Assumptions C08_version_known.

(* non-vacuity: concrete inputs meeting the hypotheses, with an NDEF result *)
Definition ex_t2_ok : list Z := [4; 1; 2; 143; 4; 5; 6; 7; 0; 72; 0; 0; 225; 16; 6; 0; 1; 3; 160; 16; 68; 3; 3; 208; 0; 0; 254] ++ repeat 0 37.
Example C08_nonvacuous :
  bytes_ok ex_t2_ok /\ (exists L, t2_read_any ex_t2_ok = Ok (Some L) /\ l_val L = [208; 0; 0] /\ l_cap L = 41) /\
  (exists L, t1_read_any 17 ([1; 2; 3; 4; 5; 6; 7; 0; 225; 16; 14; 0; 3; 3; 208; 0; 0; 254] ++ repeat 0 102) = Ok (Some L) /\ l_val L = [208; 0; 0]) /\
  air_ok (mkAir [ex_rsp (ex_attr 4 1 10); ex_rsp (repeat 7 16)] [] []) /\
  fst (t3_read_with ex_idm (mkAir [ex_rsp (ex_attr 4 1 10); ex_rsp (repeat 7 16)] [] [])) = Ok (Ndef true true 16 (repeat 7 10)) /\
  fst (t4_read_any (mkChan [AOk [144; 0]; AOk [144; 0]; AOk [0; 15; 144; 0]; AOk [32; 0; 59; 0; 52; 4; 6; 225; 4; 1; 0; 0; 0; 144; 0]; AOk [144; 0];
                            AOk [0; 3; 144; 0]; AOk [208; 0; 0; 144; 0]] [] [])) =
    Ok (Ndef true true 254 [208; 0; 0], Some (mkInfo 59 52 254 true true 2 [225; 4] 12)) /\
  t4a_activate (ARx [2; 0]) 256 256 = Some (t4_params 0 4 256 256).
Proof.
  split; [apply bytes_okb_spec; vm_compute; reflexivity|].
  split; [eexists; split; [vm_compute; reflexivity | split; reflexivity]|].
  split; [eexists; split; [vm_compute; reflexivity | reflexivity]|].
  split; [unfold air_ok, ex_rsp; cbn [a_script]; constructor; [apply bytes_okb_spec; vm_compute; reflexivity | constructor; [apply bytes_okb_spec; vm_compute; reflexivity | constructor]]|].
  split; [vm_compute; reflexivity|]. split; vm_compute; reflexivity.
Qed.
