(* C08 - placeholder, being written *)
From Coq Require Import ZArith List Bool.
From NV Require Import Base.Result Base.Bytes Model.TagAct.
Import ListNotations.
Open Scope Z_scope.
Example C08_nonvacuous : ats_fsci_fwi [2; 0] = Ok (0, 4). Proof. reflexivity. Qed.
