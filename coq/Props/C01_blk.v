(* C01 (block tags part) - NDEF write then read round-trips: Type 3 Tag, Type 4 Tag.
   Only statements here; proofs are in Proofs/T3T.v, Proofs/T4T.v (and Proofs/Chunks.v). *)
From Coq Require Import ZArith List Bool.
From NV Require Import Base.Result Base.Bytes Base.PyPrims Proofs.Chunks Model.T3T Model.T4T Proofs.T3T Proofs.T3TEmu Proofs.T4T.
Import ListNotations.
Open Scope Z_scope.

(* --- Type 3: for every well-formed tag (pt_wf = t3_wf: valid attribute block with version 1.x, Nbr >= 1 served by the
   tag, Nbw >= 1 with min(Nbw, 13) accepted by the tag, the Nmaxb declared blocks exist, WriteF = 00h, RWFlag <> 0,
   write service present), every message length 0 .. 16*Nmaxb and every content: the tag is read as NDEF tag with
   capacity 16*Nmaxb, the assignment succeeds, and a fresh reader of the resulting memory returns exactly the data
   (same capacity). *)
Theorem C01_t3_write_read : forall t a d, pt_wf t a -> p_budget t < 0 -> len d <= a_nmaxb a * 16 ->
  exists old t',
    pt_read_ndef t = (Ok (Ndef true true (a_nmaxb a * 16) old), t) /\
    pt_set_octets (Ndef true true (a_nmaxb a * 16) old) t d = (Ok tt, t') /\
    pt_fresh (p_mem t') (p_maxr t) (p_maxw t) true = Ok (Ndef true true (a_nmaxb a * 16) d).
Proof. exact t3_write_read_pt. Qed.
Print Assumptions C01_t3_write_read.

(* --- the library's own emulated Type 3 Tag: the same statement for a Type3Tag reader whose command frames are
   answered by Type3TagEmulation.process_command over an application memory array (em_wf = t3_wf with the
   emulation's limits: 15 blocks per read, 13 per write) *)
Theorem C01_t3emu_write_read : forall s a d, em_wf s a -> e_budget s < 0 -> len d <= a_nmaxb a * 16 ->
  exists old s',
    em_read_ndef s = (Ok (Ndef true true (a_nmaxb a * 16) old), s) /\
    em_set_octets (Ndef true true (a_nmaxb a * 16) old) s d = (Ok tt, s') /\
    em_fresh (e_mem s') = Ok (Ndef true true (a_nmaxb a * 16) d).
Proof. exact t3emu_write_read. Qed.
Print Assumptions C01_t3emu_write_read.

(* the attribute values of a tag whose memory consists of bytes are in range (the wf_aok premise is not a restriction) *)
Theorem C01_t3_attrs_in_range : forall d a, bytes_ok d -> attr_parse d = Some a -> attrs_ok a.
Proof. exact attr_parse_ok. Qed.
Print Assumptions C01_t3_attrs_in_range.

Theorem C01_t3_capacity_sound : forall t a, pt_wf t a -> 16 + a_nmaxb a * 16 <= len (p_mem t).
Proof. exact t3_capacity_sound_pt. Qed.
Print Assumptions C01_t3_capacity_sound.

(* data longer than the capacity: ValueError, the tag state (memory, command log) is untouched *)
Theorem C01_t3_oversize_rejected : forall t r cap old d, len d > cap ->
  pt_set_octets (Ndef r true cap old) t d = (Err ValueError, t).
Proof. exact t3_oversize_rejected_pt. Qed.
Print Assumptions C01_t3_oversize_rejected.

(* --- Type 4: for every well-formed card (t4_wf), stored NLEN within the capacity, every length 0 .. capacity *)
Theorem C01_t4_write_read : forall c i d, t4_wf c i -> nlen_ok c i -> len d <= i_cap i ->
  exists old cw c', t4_read_ndef (new_session c) = (Ok (Ndef true true (i_cap i) old, Some i), cw) /\
    t4_set_octets (Ndef true true (i_cap i) old) (Some i) cw d = (Ok tt, c') /\ same_cc c c' /\
    t4_fresh c' = Ok (Ndef true true (i_cap i) d).
Proof. exact t4_write_read_sess. Qed.
Print Assumptions C01_t4_write_read.

(* t4_wf holds for every capability container of mapping version 2 (NDEF File Control TLV, 2-byte NLEN) with
   application 2.0 or 1.0 and of mapping version 3 (extended TLV, 4-byte NLEN): all MLe >= NLEN size, all MLc >= 1,
   all file sizes (the usable part being limited to the 16 bit offset range) *)
Theorem C01_t4_wf_mapping2 : forall ver e1 e0 l1 l0 f1 f2 s1 s0 file v1 app sel b lg,
  ver = 16 \/ ver = 32 \/ ver = 48 -> list_eqb [f1; f2] cc_fid = false ->
  let mle := e1 * 256 + e0 in let mlc := l1 * 256 + l0 in let mfs := be [s1; s0] in
  2 <= mle -> 1 <= mlc -> 2 <= mfs -> Z.min mfs 65536 <= len file ->
  t4_wf (mkCard (cc2 ver e1 e0 l1 l0 f1 f2 s1 s0 0 0) [f1; f2] file true v1 app sel b lg)
        (mkInfo (Z.min mle 256) (Z.min mlc 255) (Z.min mfs 65536 - 2) true true 2 [f1; f2] 12).
Proof. exact t4_wf_cc2. Qed.
Print Assumptions C01_t4_wf_mapping2.
Theorem C01_t4_wf_mapping2_app1 : forall ver e1 e0 l1 l0 f1 f2 s1 s0 file app sel b lg,
  ver = 16 \/ ver = 32 \/ ver = 48 -> list_eqb [f1; f2] cc_fid = false ->
  let mle := e1 * 256 + e0 in let mlc := l1 * 256 + l0 in let mfs := be [s1; s0] in
  2 <= mle -> 1 <= mlc -> 2 <= mfs -> Z.min mfs 65536 <= len file ->
  t4_wf (mkCard (cc2 ver e1 e0 l1 l0 f1 f2 s1 s0 0 0) [f1; f2] file false true app sel b lg)
        (mkInfo (Z.min mle 256) (Z.min mlc 255) (Z.min mfs 65536 - 2) true true 2 [f1; f2] 0).
Proof. exact t4_wf_cc2_v1. Qed.
Print Assumptions C01_t4_wf_mapping2_app1.
Theorem C01_t4_wf_mapping3 : forall ver e1 e0 l1 l0 f1 f2 s3 s2 s1 s0 file v1 app sel b lg,
  ver = 16 \/ ver = 32 \/ ver = 48 -> list_eqb [f1; f2] cc_fid = false ->
  let mle := e1 * 256 + e0 in let mlc := l1 * 256 + l0 in let mfs := be [s3; s2; s1; s0] in
  4 <= mle -> 1 <= mlc -> 4 <= mfs -> Z.min mfs 65536 <= len file ->
  t4_wf (mkCard (cc3 ver e1 e0 l1 l0 f1 f2 s3 s2 s1 s0 0 0) [f1; f2] file true v1 app sel b lg)
        (mkInfo (Z.min mle 256) (Z.min mlc 255) (Z.min mfs 65536 - 4) true true 4 [f1; f2] 12).
Proof. exact t4_wf_cc3. Qed.
Print Assumptions C01_t4_wf_mapping3.

Theorem C01_t4_capacity_sound : forall c i, t4_wf c i -> i_nlen i + i_cap i <= len (c_file c).
Proof. exact t4_capacity_sound. Qed.
Print Assumptions C01_t4_capacity_sound.

Theorem C01_t4_oversize_rejected : forall r cap old oi c d, len d > cap ->
  t4_set_octets (Ndef r true cap old) (Some oi) c d = (Err ValueError, c).
Proof. exact t4_oversize_rejected. Qed.
Print Assumptions C01_t4_oversize_rejected.

(* non-vacuity: a concrete Type 3 tag (Nbr 4, Nbw 3, Nmaxb 5) and a concrete Type 4 card (mapping 2, MLe 59, MLc 5,
   file 64 bytes) meet the hypotheses, and the round trip computes *)
Definition ex_t3 : ptag :=
  mkPtag (attr_build (mkAttrs 16 4 3 5 0 1 0) ++ repeat 238 80) 4 13 true (-1) [].
Definition ex_t4 : card :=
  mkCard (cc2 32 0 59 0 5 225 4 0 64 0 0) [225; 4] ([0; 0] ++ repeat 238 62) true false false 0 (-1) [].
Example C01_blk_nonvacuous :
  pt_wf ex_t3 (mkAttrs 16 4 3 5 0 1 0) /\
  em_wf (mkEmu (p_mem ex_t3) (-1) []) (mkAttrs 16 4 3 5 0 1 0) /\
  (let d := [209; 1; 1; 85; 0] ++ repeat 7 60 in
   pt_fresh (p_mem (snd (pt_set_octets (Ndef true true 80 []) ex_t3 d))) 4 13 true = Ok (Ndef true true 80 d)) /\
  t4_wf ex_t4 (mkInfo 59 5 62 true true 2 [225; 4] 12) /\ nlen_ok ex_t4 (mkInfo 59 5 62 true true 2 [225; 4] 12) /\
  (let d := [209; 1; 1; 85; 0] ++ repeat 7 40 in
   t4_fresh (snd (t4_set_octets (Ndef true true 62 []) (Some (mkInfo 59 5 62 true true 2 [225; 4] 12))
                                (file_sess ex_t4 (c_file ex_t4)) d)) = Ok (Ndef true true 62 d)).
Proof.
  split; [constructor; vm_compute; try reflexivity; try (split; congruence); try (intuition congruence)|].
  split; [constructor; vm_compute; try reflexivity; try (split; congruence); try (intuition congruence)|].
  split; [vm_compute; reflexivity|].
  split; [apply (t4_wf_cc2 32 0 59 0 5 225 4 0 64); vm_compute; try reflexivity; try congruence; auto|].
  split; [vm_compute; split; congruence|]. vm_compute. reflexivity.
Qed.
