(* C19 - Peer-to-peer activation negotiates limits both sides then obey.
   Only statements here; proofs are in Proofs/Negotiate.v and Bridge/Negotiate.v.  The model
   (Model/Negotiate.v) is of the repaired code (fixes/c04-target-miu-did.diff,
   fixes/c19-lto-held-as-announced.diff, fixes/c19-lsc-announced-after-reactivation.diff).  `lopt` are the LLC options of one device
   (miu, lto, lsc, sec, bound well-known service access points), `general_bytes` what
   LogicalLinkController.activate announces, `llc_takeover` what it stores from the peer's
   general bytes, `negotiate_dep` both NFC-DEP activations against each other through the frame codec,
   `negotiate` the two stacks together. *)
From Coq Require Import ZArith List Bool.
From NV Require Import Base.Result Base.Bytes Model.Dep Model.Negotiate Gen.Negotiate Proofs.Negotiate Bridge.Negotiate.
Import ListNotations.
Open Scope Z_scope.

(* --- the LLCP send MIU equals the peer's receive MIU: for ALL configured values 128..2175;
       below 128 the peer assumes 128, above 2175 (MIUX is 11 bits) something smaller than configured --- *)
Theorem C19_miu_agree : forall b sec gb c, general_bytes b = Ok gb -> llc_takeover sec gb = Ok c ->
  c_ok c = true /\
  (128 <= lo_miu b <= 2175 -> c_send_miu c = lo_miu b) /\
  (lo_miu b < 128 -> c_send_miu c = 128) /\
  (2175 < lo_miu b -> 128 <= c_send_miu c <= 2175 /\ c_send_miu c < lo_miu b).
Proof. exact miu_agree_thm. Qed.
Print Assumptions C19_miu_agree.

(* --- the link timeout one side holds for the peer is the one the peer holds for itself: all values >= 0 --- *)
Theorem C19_lto_agree : forall b sec gb c, general_bytes b = Ok gb -> llc_takeover sec gb = Ok c ->
  0 <= lo_lto b -> c_recv_lto c = l_send_lto b.
Proof. exact lto_agree_thm. Qed.
Print Assumptions C19_lto_agree.

(* --- the service list is the peer's --- *)
Theorem C19_wks_agree : forall b sec gb c, general_bytes b = Ok gb -> llc_takeover sec gb = Ok c ->
  wks_of (lo_saps b) < 65536 -> c_send_wks c = wks_of (lo_saps b).
Proof. exact wks_agree_thm. Qed.
Print Assumptions C19_wks_agree.

Theorem C19_lsc_agree : forall b sec gb c, general_bytes b = Ok gb -> llc_takeover sec gb = Ok c ->
  0 <= lo_lsc b <= 3 -> c_send_lsc c = lo_lsc b.
Proof. exact lsc_agree_thm. Qed.
Print Assumptions C19_lsc_agree.

(* --- the NFC-DEP payload limit follows the peer's length reduction value, DID / NAD overhead counted:
       for ALL option values (they are clamped), any DID / NAD, any general bytes --- *)
Theorem C19_dep_miu_agree : forall brty0 io tto id3 id3t o, 0 <= brty0 <= 2 -> length id3 = 10%nat -> length id3t = 10%nat ->
  negotiate_dep brty0 io tto id3 id3t = Ok o ->
  di_miu (do_i o) + 3 + b2z (is_some (di_did (do_i o))) + b2z (is_some (di_nad (do_i o))) = lr_of (t_lrt tto) /\
  dt_miu (do_t o) + 3 + b2z (is_some (dt_did (do_t o))) = lr_of (i_lri io) /\
  1 <= di_miu (do_i o) /\ 1 <= dt_miu (do_t o).
Proof. exact dep_miu_agree_thm. Qed.
Print Assumptions C19_dep_miu_agree.

(* --- the bit rate is the selected one, on both sides --- *)
Theorem C19_brty_agree : forall brty0 io tto id3 id3t o, 0 <= brty0 <= 2 -> length id3 = 10%nat -> length id3t = 10%nat ->
  negotiate_dep brty0 io tto id3 id3t = Ok o ->
  di_brty (do_i o) = dt_brty (do_t o) /\ di_brty (do_i o) = Z.max brty0 (i_brs io).
Proof. exact brty_agree_thm. Qed.
Print Assumptions C19_brty_agree.

(* --- the response waiting time is the one the target announced --- *)
Theorem C19_rwt_agree : forall brty0 io tto id3 id3t o, 0 <= brty0 <= 2 -> length id3 = 10%nat -> length id3t = 10%nat ->
  negotiate_dep brty0 io tto id3 id3t = Ok o ->
  di_wt (do_i o) = dt_wt (do_t o) /\ di_wt (do_i o) = clamp 0 14 (to_rwt tto).
Proof. exact rwt_agree_thm. Qed.
Print Assumptions C19_rwt_agree.

(* --- general bytes and DID arrive: the two configurations are the ones C04 is proved for
       (Model.Dep.mk_icfg / mk_tcfg), which gives "all later traffic stays within those limits" with
       C04_dep_frame_bound --- *)
Theorem C19_gb_did_agree : forall brty0 io tto id3 id3t o, 0 <= brty0 <= 2 -> length id3 = 10%nat -> length id3t = 10%nat ->
  negotiate_dep brty0 io tto id3 id3t = Ok o ->
  di_gb (do_i o) = take 47 (to_gbt tto) /\ dt_gb (do_t o) = take 48 (io_gbi io) /\
  dt_did (do_t o) = tdid_of (io_did io) /\ di_did (do_i o) = io_did io.
Proof. exact gb_did_agree_thm. Qed.
Print Assumptions C19_gb_did_agree.

Theorem C19_traffic_cfg : forall brty0 io tto id3 id3t o, 0 <= brty0 <= 2 -> length id3 = 10%nat -> length id3t = 10%nat ->
  negotiate_dep brty0 io tto id3 id3t = Ok o ->
  di_miu (do_i o) = ic_miu (mk_icfg (di_brty (do_i o) =? 0) (t_lrt tto) (io_did io) (io_nad io)) /\
  dt_miu (do_t o) = tc_miu (mk_tcfg (dt_brty (do_t o) =? 0) (i_lri io) (io_did io)) /\
  dt_did (do_t o) = tc_did (mk_tcfg (dt_brty (do_t o) =? 0) (i_lri io) (io_did io)).
Proof.
  intros brty0 io tto id3 id3t o Hb H3 H3t H.
  destruct (dep_miu_agree_thm _ _ _ _ _ _ Hb H3 H3t H) as (A & B & _).
  destruct (gb_did_agree_thm _ _ _ _ _ _ Hb H3 H3t H) as (_ & _ & C & D).
  cbn [ic_miu tc_miu tc_did mk_icfg mk_tcfg]. rewrite C in B. rewrite D in A.
  split; [|split; [|exact C]].
  - assert (E : di_nad (do_i o) = io_nad io).
    { destruct (negotiate_dep_closed brty0 io tto id3 id3t Hb H3 H3t) as (fr & E). rewrite E in H. injection H as <-. reflexivity. }
    rewrite E in A. revert A. generalize (di_miu (do_i o)) (lr_of (t_lrt tto)) (b2z (is_some (io_did io))) (b2z (is_some (io_nad io))).
    intros; apply Z.add_cancel_r with (p := 3 + z1 + z2). rewrite <- A. ring.
  - revert B. generalize (dt_miu (do_t o)) (lr_of (i_lri io)) (b2z (is_some (tdid_of (io_did io)))).
    intros; apply Z.add_cancel_r with (p := 3 + z1). rewrite <- B. ring.
Qed.
Print Assumptions C19_traffic_cfg.

(* --- both layers together: two stacks activated against each other --- *)
Theorem C19_p2p_agree : forall brty0 ia tb la lb id3 id3t o,
  0 <= brty0 <= 2 -> length id3 = 10%nat -> length id3t = 10%nat -> (forall x, io_did ia = Some x -> 0 < x) ->
  negotiate brty0 ia tb la lb id3 id3t = Ok o ->
  holds_of (po_a o) lb /\ holds_of (po_b o) la /\
  di_miu (do_i (po_dep o)) + 3 + b2z (is_some (io_did ia)) + b2z (is_some (io_nad ia)) = lr_of (clamp 0 3 (to_lrt tb)) /\
  dt_miu (do_t (po_dep o)) + 3 + b2z (is_some (tdid_of (io_did ia))) = lr_of (clamp 0 3 (io_lri ia)) /\
  di_brty (do_i (po_dep o)) = dt_brty (do_t (po_dep o)) /\
  di_brty (do_i (po_dep o)) = Z.max brty0 (clamp 0 2 (io_brs ia)) /\
  di_wt (do_i (po_dep o)) = dt_wt (do_t (po_dep o)) /\ di_wt (do_i (po_dep o)) = clamp 0 14 (to_rwt tb).
Proof. exact p2p_agree_thm. Qed.
Print Assumptions C19_p2p_agree.

(* activation of the NFC-DEP layer never fails for option reasons (all options are clamped) *)
Theorem C19_negotiate_dep_total : forall brty0 io tto id3 id3t, 0 <= brty0 <= 2 -> length id3 = 10%nat -> length id3t = 10%nat ->
  exists o, negotiate_dep brty0 io tto id3 id3t = Ok o.
Proof. exact negotiate_dep_total. Qed.
Print Assumptions C19_negotiate_dep_total.

(* --- tie: the kernels regenerated from dep.py / llc.py on this run are the model's definitions --- *)
Theorem C19_bridge_lr : forall pp, 0 <= pp -> gen_atr_lr pp = atr_lr pp.
Proof. exact bridge_atr_lr. Qed.
Print Assumptions C19_bridge_lr.
Theorem C19_bridge_psl : forall brs fsl, gen_psl_lr fsl = psl_lr fsl /\ gen_psl_dsi brs = psl_dsi brs /\ gen_psl_dri brs = psl_dri brs.
Proof. intros. split; [apply bridge_psl_lr | split; [apply bridge_psl_dsi | apply bridge_psl_dri]]. Qed.
Print Assumptions C19_bridge_psl.
Theorem C19_bridge_clamps : forall io tto lo, gen_i_brs (io_brs io) = i_brs io /\ gen_i_lri (io_lri io) = i_lri io /\
  gen_t_lrt (to_lrt tto) = t_lrt tto /\ gen_t_rwt (to_rwt tto) = t_rwt tto /\ gen_send_lto (lo_lto lo) = l_send_lto lo.
Proof. intros. repeat split. Qed.
Print Assumptions C19_bridge_clamps.
Theorem C19_bridge_pp : forall io tto, gen_i_ppi (i_lri io) (i_gbi io) (io_nad io) = i_ppi io /\ gen_t_pp (t_lrt tto) (t_gbt tto) None = t_pp tto.
Proof. intros. split; [apply bridge_i_ppi | apply bridge_t_pp]. Qed.
Print Assumptions C19_bridge_pp.
Theorem C19_bridge_miu : forall lr did nad, gen_i_miu lr did nad = lr - 3 - b2z (is_some did) - b2z (is_some nad) /\
  gen_t_miu lr did None = lr - 3 - b2z (is_some did).
Proof. intros. split; [apply bridge_i_miu | apply bridge_t_miu]. Qed.
Print Assumptions C19_bridge_miu.
Theorem C19_bridge_ini_eval : forall o brty0 id did bs br to pp gb d, 0 <= pp -> 0 <= to ->
  ini_eval o brty0 (PAtrRes id did bs br to pp gb) = Ok d ->
  di_miu d = gen_i_miu (gen_atr_lr pp) (io_did o) (io_nad o) /\
  di_wt d = (if gen_atr_wt to <? 15 then gen_atr_wt to else 14) /\
  di_brty d = (if brty0 <? gen_i_brs (io_brs o) then gen_i_brs (io_brs o) else brty0).
Proof. exact bridge_ini_eval. Qed.
Print Assumptions C19_bridge_ini_eval.
Theorem C19_bridge_tgt_eval : forall o brty id did bs br pp gb d, 0 <= pp ->
  tgt_eval o brty (PAtrReq id did bs br pp gb) = Ok d ->
  dt_miu d = gen_t_miu (gen_atr_lr pp) (dt_did d) None /\ dt_wt d = gen_t_rwt (to_rwt o).
Proof. exact bridge_tgt_eval. Qed.
Print Assumptions C19_bridge_tgt_eval.

(* --- several activations of the SAME LogicalLinkController object (options o) against different peers: what it announces
       never depends on the history, and what it holds after the n-th activation is taken from the n-th peer only
       (Linv o: the states reachable from llc_new o; llc_history runs the activations one after the other) --- *)
Theorem C19_activate_depends_on_peer_only : forall o s g gb s', Linv o s -> llc_activate s g = Ok (gb, s') ->
  general_bytes o = Ok gb /\ Linv o s' /\
  (forall c, llc_takeover (lo_sec o) g = Ok c -> c_ok c = true -> ls_held s' = c /\ ls_send_lsc s' = c_send_lsc c).
Proof. exact activate_depends_on_peer_only. Qed.
Print Assumptions C19_activate_depends_on_peer_only.
Theorem C19_history_nth_peer_only : forall o peers gbs s', llc_history (llc_new o) peers = Ok (gbs, s') ->
  Forall (fun gb => general_bytes o = Ok gb) gbs /\
  (forall g c, last peers [] = g -> peers <> [] -> llc_takeover (lo_sec o) g = Ok c -> c_ok c = true -> ls_held s' = c).
Proof. intros o peers gbs s' H. destruct (history_nth_peer_only o peers (llc_new o) gbs s' (Linv_new o) H) as (A & _ & C). auto. Qed.
Print Assumptions C19_history_nth_peer_only.
(* what is taken over is an assignment of the received PAX values *)
Theorem C19_takeover_assign : forall sec gb c, llc_takeover sec gb = Ok c -> c_ok c = true ->
  exists p, pax_decode (drop 3 gb) = Ok p /\ c = cfg_assign sec (pax_miu p) (pax_lto p) (pax_wks p) (pax_lsc p) (pax_dpc p) (pax_ver p).
Proof. exact takeover_assign. Qed.
Print Assumptions C19_takeover_assign.
Theorem C19_bridge_announce : forall local send_lsc, gen_announce_lsc local send_lsc = announce_lsc local send_lsc /\ gen_announce_guards = (128, 100, 0).
Proof. exact bridge_announce. Qed.
Print Assumptions C19_bridge_announce.
Theorem C19_bridge_cfg_assign : forall sec miu lto wks lsc dpc ver,
  let c := cfg_assign sec miu lto wks lsc dpc ver in
  gen_cfg_assign sec miu lto wks lsc dpc ver = (c_ok c, c_send_miu c, c_recv_lto c, c_send_wks c, c_send_lsc c, c_dpc c, c_ver c).
Proof. exact bridge_cfg_assign. Qed.
Print Assumptions C19_bridge_cfg_assign.

(* a history: peer 1 announces MIU 2175 / LTO 2550 / LSC 3, peer 2 omits all optional fields -> 128 / 100 / 0 are held, and
   the LLC announces its own LSC 1 both times *)
Example C19_history_nonvacuous :
  match general_bytes (mklopt 2175 2550 3 false [1; 4]), general_bytes (mklopt 128 100 0 false [1]) with
  | Ok g1, Ok g2 =>
      match llc_history (llc_new (mklopt 248 500 1 false [1])) [g1; g2] with
      | Ok (gbs, s) => c_send_miu (ls_held s) = 128 /\ c_recv_lto (ls_held s) = 100 /\ c_send_lsc (ls_held s) = 0 /\
                       nth 0 gbs [] = nth 1 gbs [] /\ Ok (nth 1 gbs []) = general_bytes (mklopt 248 500 1 false [1])
      | _ => False
      end
  | _, _ => False
  end.
Proof. vm_compute. repeat split. Qed.

(* non-vacuity: a concrete activation (106A, PSL to 424F, DID 5, LRi = 64, LRt = 192, MIU 2175 / 128, LTO 2550 / 105 ms) *)
Example C19_nonvacuous :
  match negotiate 0 (mkiopt 2 0 (Some 5) None []) (mktopt 2 9 [])
          (mklopt 2175 2550 3 true [1; 4]) (mklopt 128 105 1 false [1])
          [1; 2; 3; 4; 5; 6; 7; 8; 9; 10] [1; 254; 3; 4; 5; 6; 7; 8; 83; 84] with
  | Ok o => c_send_miu (po_b o) = 2175 /\ c_recv_lto (po_b o) = 2550 /\ c_send_wks (po_b o) = 19 /\ c_send_lsc (po_b o) = 3 /\
            c_send_miu (po_a o) = 128 /\ c_recv_lto (po_a o) = 100 /\ c_send_lsc (po_a o) = 1 /\
            di_miu (do_i (po_dep o)) = 188 /\ dt_miu (do_t (po_dep o)) = 60 /\ di_brty (do_i (po_dep o)) = 2 /\
            dt_brty (do_t (po_dep o)) = 2 /\ di_wt (do_i (po_dep o)) = 9
  | _ => False
  end.
Proof. vm_compute. repeat split. Qed.
