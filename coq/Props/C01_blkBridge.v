(* C01-C03 (block tags part) - translation tie: the kernels regenerated from src/nfc/tag/tt3.py and tt4.py on
   this run (Gen/BlkK.v, translate/kspec_tags_blk.py) are the expressions the models Model/T3T.v / Model/T4T.v
   compute with.  Only statements here; proofs are in Bridge/Blk.v. *)
From Coq Require Import ZArith List Bool.
From NV Require Import Base.Result Base.Bytes Base.PyPrims Proofs.Chunks Model.T3T Model.T4T Gen.BlkK Bridge.Blk.
Import ListNotations.
Open Scope Z_scope.

Theorem Cblk_bridge_t3_attr_parse : forall d0 d1 d2 d3 d4 d5 d6 d7 d8 d9 d10 d11 d12 d13 d14 d15,
  let d := [d0; d1; d2; d3; d4; d5; d6; d7; d8; d9; d10; d11; d12; d13; d14; d15] in
  attr_parse d =
  if gen_t3_attr_cksum_bad d then None
  else Some (mkAttrs (gen_t3_attr_ver d) (gen_t3_attr_nbr d) (gen_t3_attr_nbw d) (gen_t3_attr_nmaxb d)
                     (gen_t3_attr_writef d) (gen_t3_attr_rwflag d) (gen_t3_attr_ln d)).
Proof. exact bridge_t3_attr_parse. Qed.
Print Assumptions Cblk_bridge_t3_attr_parse.

Theorem Cblk_bridge_t3_attr_flags : forall a,
  a_nmaxb a * 16 = gen_t3_capacity (a_nmaxb a) /\
  attr_readable a = gen_t3_readable (a_writef a) (a_nbr a) /\
  attr_writeable a = gen_t3_writeable (a_rwflag a) (a_nbw a).
Proof. exact bridge_t3_attr_flags. Qed.
Print Assumptions Cblk_bridge_t3_attr_flags.

Theorem Cblk_bridge_t3_attr_build : forall ver nbr nbw nmaxb writef rwflag ln,
  attr_build (mkAttrs ver nbr nbw nmaxb writef rwflag ln) = gen_t3_attr_pack ver nbr nbw nmaxb writef rwflag ln.
Proof. exact bridge_t3_attr_build. Qed.
Print Assumptions Cblk_bridge_t3_attr_build.

Theorem Cblk_bridge_t3_read_ndef : forall (S : Type) (rd : S -> list Z -> res (list Z) * S) s,
  read_ndef S rd s =
  match read_attr S rd s with
  | (Ok None, s1) => (Ok NoNdef, s1)
  | (Ok (Some a), s1) =>
    if gen_t3_rd_ver_bad (a_ver a) then (Ok NoNdef, s1) else
    if gen_t3_rd_nbr_zero (a_nbr a) then (Ok NoNdef, s1) else
    if gen_t3_rd_ln_over (a_ln a) (a_nmaxb a) then (Ok NoNdef, s1) else
    let last := gen_t3_rd_last_block (a_ln a) in
    match rd_loop S rd (Z.to_nat last) s1 1 last (gen_t3_rd_nbr (a_nbr a)) [] with
    | (Ok None, s2) => (Ok NoNdef, s2)
    | (Ok (Some d), s2) =>
      (Ok (Ndef (gen_t3_readable (a_writef a) (a_nbr a)) (gen_t3_writeable (a_rwflag a) (a_nbw a))
                (gen_t3_capacity (a_nmaxb a)) (take (a_ln a) d)), s2)
    | (Err e, s2) => (Err e, s2) | (Crash c, s2) => (Crash c, s2) | (Hang, s2) => (Hang, s2)
    end
  | (Err e, s1) => (Err e, s1) | (Crash c, s1) => (Crash c, s1) | (Hang, s1) => (Hang, s1)
  end.
Proof. exact bridge_t3_read_ndef. Qed.
Print Assumptions Cblk_bridge_t3_read_ndef.

Theorem Cblk_bridge_t3_rd_trim : forall d ln,
  0 <= ln -> take ln d = gen_t3_rd_trim d ln.
Proof. exact bridge_t3_rd_trim. Qed.
Print Assumptions Cblk_bridge_t3_rd_trim.

Theorem Cblk_bridge_t3_rd_loop : forall (S : Type) (rd : S -> list Z -> res (list Z) * S) f s i last nbr acc,
  rd_loop S rd (Datatypes.S f) s i last nbr acc =
  if i <? last then
    match rd s (zrange i (gen_t3_rd_batch_end i nbr last)) with
    | (Ok d, s1) => rd_loop S rd f s1 (i + nbr) last nbr (acc ++ d)
    | (Err _, s1) => (Ok None, s1)
    | (Crash c, s1) => (Crash c, s1)
    | (Hang, s1) => (Hang, s1)
    end
  else (Ok (Some acc), s).
Proof. exact bridge_t3_rd_loop. Qed.
Print Assumptions Cblk_bridge_t3_rd_loop.

Theorem Cblk_bridge_t3_write_plan : forall a data,
  wr_batch a (len data) = gen_t3_wr_nbw (a_nbw a) (gen_t3_wr_last_block data) /\
  pad16 data = gen_t3_wr_pad data /\
  plan_head a = ([0], gen_t3_attr_pack (a_ver a) (a_nbr a) (a_nbw a) (a_nmaxb a) gen_t3_writef_busy (a_rwflag a) (a_ln a)) /\
  plan_tail a data = ([0], gen_t3_attr_pack (a_ver a) (a_nbr a) (a_nbw a) (a_nmaxb a) gen_t3_writef_done (a_rwflag a) (gen_t3_wr_ln data)).
Proof. exact bridge_t3_write_plan. Qed.
Print Assumptions Cblk_bridge_t3_write_plan.

Theorem Cblk_bridge_t3_batches : forall f data i nbw,
  1 <= i -> 1 <= nbw -> len data mod 16 = 0 -> 16 * (i - 1) < len data ->
  let last := 1 + len data / 16 in
  let lb := gen_t3_wr_batch_end i nbw last in
  batches (Datatypes.S f) i nbw (drop (16 * (i - 1)) data) =
  (zrange i lb, gen_t3_wr_batch_data data i lb) :: batches f (i + nbw) nbw (drop (16 * (i + nbw - 1)) data).
Proof. exact bridge_t3_batches. Qed.
Print Assumptions Cblk_bridge_t3_batches.

Theorem Cblk_bridge_emu_read : forall mem nb es,
  emu_read mem ([1; 11; 0; nb] ++ es) =
  if gen_emu_rd_too_many nb then Ok (gen_emu_rd_status_too_many 0) else
  do pb <- parse_blks (Z.to_nat nb) 0 [11] es [];
  match pb with inr i => Ok (gen_emu_rd_status_bad_index i) | inl (bl, _) => Ok (emu_rd_blocks mem 0 bl []) end.
Proof. exact bridge_emu_read. Qed.
Print Assumptions Cblk_bridge_emu_read.

Theorem Cblk_bridge_emu_svc_unknown : forall mem nb c0 c1 es,
  svc_known (c1 * 256 + c0) = false ->
  emu_read mem ([1; c0; c1; nb] ++ es) = Ok (gen_emu_rd_status_svc_unknown 0) /\
  emu_write mem ([1; c0; c1; nb] ++ es) = (Ok (gen_emu_wr_status_svc_unknown 0), mem).
Proof. exact bridge_emu_svc_unknown. Qed.
Print Assumptions Cblk_bridge_emu_svc_unknown.

Theorem Cblk_bridge_emu_rd_blocks : forall mem i sc bn r acc,
  emu_rd_blocks mem i [] acc = gen_emu_rd_ok acc /\
  emu_rd_blocks mem i ((sc, bn) :: r) acc =
  match app_read mem bn with None => gen_emu_rd_status_no_block i | Some d => emu_rd_blocks mem (i + 1) r (acc ++ d) end.
Proof. exact bridge_emu_rd_blocks. Qed.
Print Assumptions Cblk_bridge_emu_rd_blocks.

Theorem Cblk_bridge_emu_parse_blks : forall n i svcs c0 rest acc,
  parse_blks (Datatypes.S n) i svcs (c0 :: rest) acc =
  match nth_error svcs (Z.to_nat (gen_emu_rd_service_index c0)) with
  | None => Ok (inr i)
  | Some sc =>
    if gen_emu_rd_elem2 c0 then do bn <- idx (c0 :: rest) 1; parse_blks n (i + 1) svcs (drop 2 (c0 :: rest)) ((sc, gen_emu_rd_bn2 bn) :: acc)
    else do c2 <- idx (c0 :: rest) 2; do c1 <- idx (c0 :: rest) 1;
         parse_blks n (i + 1) svcs (drop 3 (c0 :: rest)) ((sc, c2 * 256 + c1) :: acc)
  end /\
  gen_emu_wr_service_index c0 = gen_emu_rd_service_index c0 /\ gen_emu_wr_elem2 c0 = gen_emu_rd_elem2 c0 /\
  (forall c1, gen_emu_wr_bn2 c1 = gen_emu_rd_bn2 c1).
Proof. exact bridge_emu_parse_blks. Qed.
Print Assumptions Cblk_bridge_emu_parse_blks.

Theorem Cblk_bridge_emu_codes : forall c0 c1 c2,
  0 <= c0 < 256 -> 0 <= c1 < 256 -> 0 <= c2 ->
  c1 * 256 + c0 = gen_emu_rd_service_code c0 c1 /\ c1 * 256 + c0 = gen_emu_wr_service_code c0 c1 /\
  c2 * 256 + c1 = gen_emu_rd_bn3 c1 c2 /\ c2 * 256 + c1 = gen_emu_wr_bn3 c1 c2.
Proof. exact bridge_emu_codes. Qed.
Print Assumptions Cblk_bridge_emu_codes.

Theorem Cblk_bridge_emu_write : forall mem nb rest,
  emu_write mem ([1; 9; 0; nb] ++ rest) =
  match (do pb <- parse_blks (Z.to_nat nb) 0 [9] rest [];
         match pb with
         | inr i => Ok (inl (gen_emu_wr_status_bad_index i))
         | inl (bl, rest') => if gen_emu_wr_bad_size (len rest') then Ok (inl (gen_emu_wr_status_bad_size 0)) else Ok (inr (bl, rest'))
         end) with
  | Ok (inl st) => (Ok st, mem)
  | Ok (inr (bl, rest')) => emu_wr_blocks mem 0 bl rest'
  | Err e => (Err e, mem) | Crash c => (Crash c, mem) | Hang => (Hang, mem)
  end.
Proof. exact bridge_emu_write. Qed.
Print Assumptions Cblk_bridge_emu_write.

Theorem Cblk_bridge_emu_wr_blocks : forall mem i bn r data,
  0 <= i ->
  emu_wr_blocks mem i [] data = (Ok gen_emu_wr_ok, mem) /\
  emu_wr_blocks mem i ((9, bn) :: r) data =
  match app_write mem bn (gen_emu_wr_block_data data i) with
  | None => (Ok (gen_emu_wr_status_no_block i), mem)
  | Some mem1 => emu_wr_blocks mem1 (i + 1) r data
  end.
Proof. exact bridge_emu_wr_blocks. Qed.
Print Assumptions Cblk_bridge_emu_wr_blocks.

Theorem Cblk_bridge_t4_apdu_offsets : forall off mrl d,
  apdu_of_op (RdBin off mrl) =
    (if (off <? 0) || (off >? 65535) then Crash StructErr
     else let p := gen_t4_rd_offset off in short_apdu 0 176 (pyidx p 0) (pyidx p 1) [] mrl) /\
  apdu_of_op (UpBin off d) =
    (if (off <? 0) || (off >? 65535) then Crash StructErr
     else let p := gen_t4_up_offset off in short_apdu 0 214 (pyidx p 0) (pyidx p 1) d 0).
Proof. exact bridge_t4_apdu_offsets. Qed.
Print Assumptions Cblk_bridge_t4_apdu_offsets.

Theorem Cblk_bridge_t4_read_binary : forall c max_le off size,
  read_binary c max_le off size =
  match t4_send c (RdBin off (gen_t4_rd_size max_le size)) with
  | (Ok d, c1) => if gen_t4_rd_excess (len d) (gen_t4_rd_size max_le size) then (Err (TagCommandError (-2)), c1) else (Ok d, c1)
  | r => r
  end.
Proof. exact bridge_t4_read_binary. Qed.
Print Assumptions Cblk_bridge_t4_read_binary.

Theorem Cblk_bridge_t4_chunks : forall mlc (l : list Z),
  l <> [] -> 1 <= mlc ->
  let n := gen_t4_up_size mlc l in
  chunks mlc l = gen_t4_up_chunk l n :: chunks mlc (gen_t4_up_rest l n) /\ len (gen_t4_up_chunk l n) = n.
Proof. exact bridge_t4_chunks. Qed.
Print Assumptions Cblk_bridge_t4_chunks.

Theorem Cblk_bridge_t4_cc_pad : forall cap,
  cc_pad cap = gen_t4_cc_pad cap.
Proof. exact bridge_t4_cc_pad. Qed.
Print Assumptions Cblk_bridge_t4_cc_pad.

Theorem Cblk_bridge_t4_cc_read : forall a b (cap : list Z),
  Z.min (be [a; b] - 2) 15 = gen_t4_cc_read_size (gen_t4_cclen [a; b]) /\ (len cap <? 13) = gen_t4_cc_short (len cap).
Proof. exact bridge_t4_cc_read. Qed.
Print Assumptions Cblk_bridge_t4_cc_read.

Theorem Cblk_bridge_t4_cc_fields : forall p2 c0 c1 c2 c3 c4 c5 c6 c7 c8 c9 c10 c11 c12 c13 c14,
  0 <= c6 ->
  let c := [c0; c1; c2; c3; c4; c5; c6; c7; c8; c9; c10; c11; c12; c13; c14] in
  cc_fields p2 c =
  if gen_t4_cc_ver_bad (gen_t4_cc_ver c) then None else
  let tag := gen_t4_cc_tag c in
  let val := gen_t4_cc_val c in
  if gen_t4_cc_tlv_bad tag val then None else
  Some (mkInfo (gen_t4_mle_clamp (gen_t4_cc_mle c)) (gen_t4_mlc_clamp (gen_t4_cc_mlc c))
               (gen_t4_capacity (gen_t4_tlv_mfs tag val) tag)
               (gen_t4_readable (gen_t4_tlv_rf tag val)) (gen_t4_writeable (gen_t4_tlv_wf tag val))
               (gen_t4_nlen_size tag) (gen_t4_tlv_fid tag val) p2).
Proof. exact bridge_t4_cc_fields. Qed.
Print Assumptions Cblk_bridge_t4_cc_fields.

Theorem Cblk_bridge_t4_nlen_read : forall a b c d cap,
  (be [a; b] >? cap) = gen_t4_nlen_over (gen_t4_nlen_unpack 2 [a; b]) cap /\
  (be [a; b; c; d] >? cap) = gen_t4_nlen_over (gen_t4_nlen_unpack 4 [a; b; c; d]) cap /\
  (forall n ns, negb (n =? ns) = gen_t4_nlen_short n ns).
Proof. exact bridge_t4_nlen_read. Qed.
Print Assumptions Cblk_bridge_t4_nlen_read.

Theorem Cblk_bridge_t4_rd_file : forall f c i nlen acc,
  rd_file (S f) c i nlen acc =
  if gen_t4_rd_more (len acc) nlen then
    lift (read_binary c (i_mle i) (gen_t4_rd_next_offset (i_nlen i) (len acc)) (gen_t4_rd_next_size nlen (len acc))) (fun d c1 =>
      if gen_t4_rd_empty (len d) then (Err (TagCommandError 0), c1) else rd_file f c1 i nlen (acc ++ d))
  else (Ok acc, c).
Proof. exact bridge_t4_rd_file. Qed.
Print Assumptions Cblk_bridge_t4_rd_file.

Theorem Cblk_bridge_t4_nlen_bytes : forall ns n,
  ns = 2 \/ ns = 4 -> 0 <= n < 256 ^ ns -> nlen_bytes ns n = Ok (gen_t4_nlen_pack ns n).
Proof. exact bridge_t4_nlen_bytes. Qed.
Print Assumptions Cblk_bridge_t4_nlen_bytes.

Theorem Cblk_bridge_t4_plan : forall i data nl,
  len nl = i_nlen i -> 0 <= i_nlen i ->
  t4_plan i data nl =
  if gen_t4_single (len nl) (len data) (i_mlc i) then ups (i_mlc i) 0 (gen_t4_payload_single nl data)
  else ups (i_mlc i) 0 (gen_t4_payload_zeroed nl data) ++ ups (i_mlc i) 0 nl.
Proof. exact bridge_t4_plan. Qed.
Print Assumptions Cblk_bridge_t4_plan.
