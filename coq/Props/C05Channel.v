(* C05 -> C06: the data link connection pair refines the reliable FIFO channel (Model/Snep.v:
   chan_ops / list_chan, laws chan_ok) that the SNEP / handover theorems of C06 are stated over.
   Statements only; proofs in Proofs/DlcChannel.v.  abs_dir sd s = receive queue of the receiver ++
   I-data on the wire ++ I-data in the sender's send queue.  list_chan, too_big, input, qput, qget,
   qnew, qlist and list_chan_ok are C06's own definitions, imported unchanged. *)
From Coq Require Import ZArith List Bool.
From NV Require Import Base.Result Base.Bytes Model.Snep Proofs.SnepSched.
From NV Require Import Model.Dlc Proofs.DlcBase Proofs.Dlc Proofs.DlcCor Proofs.DlcLive Proofs.DlcChannel.
Import ListNotations.
Open Scope Z_scope.

(* (1) an accepted send appends to its direction (and the message is within the MIU); a refused one
   changes nothing; the other direction is untouched *)
Theorem dlc_refine_send : forall s sd m, Inv s ->
  match snd (step_full s (Send sd m)) with
  | OSend (Ok _) => abs_dir sd (step s (Send sd m)) = abs_dir sd s ++ [m] /\ len m <= smiu (get_ep s sd)
  | _ => step s (Send sd m) = s
  end /\ abs_dir (other sd) (step s (Send sd m)) = abs_dir (other sd) s.
Proof. exact refine_send. Qed.
Print Assumptions dlc_refine_send.

(* (2) a recv that returns d removes d from the head of the incoming direction; any other outcome
   (nothing receivable yet) changes nothing; the outgoing direction is untouched *)
Theorem dlc_refine_recv : forall s sd, Inv s ->
  match snd (step_full s (Recv sd)) with
  | ORecv (Ok (Some d)) => abs_dir (other sd) s = d :: abs_dir (other sd) (step s (Recv sd))
  | _ => step s (Recv sd) = s
  end /\ abs_dir sd (step s (Recv sd)) = abs_dir sd s.
Proof. exact refine_recv. Qed.
Print Assumptions dlc_refine_recv.

(* (3) SetBusy, PollAcks, Deq, Ack, Deliver are invisible at the channel *)
Theorem dlc_refine_internal : forall s o sd, Inv s -> internal o -> abs_dir sd (step s o) = abs_dir sd s.
Proof. exact refine_internal. Qed.
Print Assumptions dlc_refine_internal.

(* (4) every history of the pair, read as put (accepted send) / get (returned recv) events, is a
   history of C06's list_chan, one queue per direction, starting empty, with the MIU announced by
   the receiver as the maximum message size (too_big = false for every put), and ends in the
   abstraction of the reached state *)
Theorem dlc_refine_fifo : forall c ops, cfg_ok c ->
  chan_hist (cfg_miu c) (outs (init c) ops) (qnew list_chan, qnew list_chan) (absq (run c ops)).
Proof. exact refine_fifo. Qed.
Print Assumptions dlc_refine_fifo.

(* ... where the abstraction is the qlist of C06's channel laws *)
Theorem dlc_abs_is_qlist : forall s sd, qlist list_chan list_chan_ok (getq (absq s) sd) = map IMsg (abs_dir sd s).
Proof. exact absq_qlist. Qed.
Print Assumptions dlc_abs_is_qlist.

(* (5) live under a fair link: from every reachable state, if a direction is not empty there is a
   continuation of internal ops (dequeue / deliver), invisible at the channel, after which recv
   returns the oldest message in transit *)
Theorem dlc_channel_live : forall c ops sd m rest, cfg_ok c -> abs_dir sd (run c ops) = m :: rest ->
  exists ops', Forall internal ops' /\
    let s' := fold_left step ops' (run c ops) in
    abs_dir sd s' = m :: rest /\ abs_dir (other sd) s' = abs_dir (other sd) (run c ops) /\
    snd (step_full s' (Recv (other sd))) = ORecv (Ok (Some m)).
Proof. exact channel_live. Qed.
Print Assumptions dlc_channel_live.

(* non-vacuity: three messages A->B and one B->A in transit / received through the channel view *)
Example dlc_channel_nonvacuous :
  let c := {| rw_a := 2; miu_a := 128; rw_b := 3; miu_b := 128 |} in
  let ops := [Send A [1]; Send A [2]; Send B [9]; Deq A 128 0; Deliver B; Recv B; Send A [3]] in
  abs_dir A (run c ops) = [[2]; [3]] /\ abs_dir B (run c ops) = [[9]] /\
  returned B (outs (init c) ops) = [[1]].
Proof. vm_compute. repeat split. Qed.
