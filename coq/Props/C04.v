(* C04 - NFC-DEP delivers each payload exactly once, intact, or reports failure.
   Only statements here; proofs are in Proofs/DepCodec.v, DepTarget.v, DepBound.v, DepSrr.v,
   DepExact.v, DepSafety.v.  The model (Model/Dep.v) is of the repaired code (/repo HEAD: b836295, 7efe465, 0d645cb, 2786f8b, d00e425 and the C07 repairs
   6c4ecdb, 8087fdd, 46c0c37).

   conversation n fuel ic tc script payloads app timeout release
     runs a real-code-shaped Initiator (exchange over send_dep_req_recv_dep_res with ATN / NAK
     recovery and the deadline) against the Target machine over an air that assigns a fate
     (deliver / lose / corrupt) to every request and every response frame by `script`. *)
From Coq Require Import ZArith List Bool.
From NV Require Import Base.Result Base.Bytes Model.Dep Gen.DepK
  Proofs.DepCodec Proofs.DepTarget Proofs.DepBound Proofs.DepSrr Proofs.DepExact Proofs.DepSafety Bridge.Dep.
Import ListNotations.
Open Scope Z_scope.

(* --- no frame exceeds the payload size (LR) announced by its receiver: for EVERY fault script,
       payload list, application behaviour (RTOX included), DID / NAD setting, time-out and fuel --- *)
Theorem C04_dep_frame_bound : forall n fuel b106 lri lrt did nad script payloads app timeout release e,
  In e (o_frames (conversation n fuel (mk_icfg b106 lrt did nad) (mk_tcfg b106 lri did) script payloads app timeout release)) ->
  tlen b106 (l_data e) <= (if l_ini e then lr_of lrt else lr_of lri).
Proof. exact dep_frame_bound_all. Qed.
Print Assumptions C04_dep_frame_bound.

(* --- fault free: every payload and every response arrives exactly once, complete, in order, for all payload
       sizes (chaining both ways), any number of exchanges (packet numbers wrap modulo 4), all LR / DID / NAD --- *)
Theorem C04_dep_nofault_exact : forall b106 lri lrt did nad n fuel P R timeout release,
  did_valid did -> Z.max 0 timeout < Z.of_nat fuel -> 1 <= timeout ->
  nonempty_all P -> nonempty_all R -> fits n P -> fits n R -> (length P <= length R)%nat ->
  let o := conversation n fuel (mk_icfg b106 lrt did nad) (mk_tcfg b106 lri did) [] P (app_of R) timeout release in
  o_ini o = map IOk (firstn (length P) R) /\
  exists ttail, o_tgt o = map TOk P ++ ttail /\ tail_ok ttail.
Proof. intros. apply dep_nofault_exact_thm; try assumption. apply valid_mk; assumption. Qed.
Print Assumptions C04_dep_nofault_exact.

(* --- safety under EVERY fault script: what the initiator application gets is a prefix of the responses the
       target application passed to exchange() followed by at most one CommunicationError; what the target
       application gets is a prefix of the payloads the initiator passed to exchange() followed by at most one
       None (released) / TimeoutError (link gone); the target is never more than one payload ahead.
       No truncation, duplication, reordering or foreign data; no other exception. --- *)
Theorem C04_dep_safety : forall b106 lri lrt did nad n fuel script P R timeout release,
  did_valid did -> Z.max 0 timeout < Z.of_nat fuel ->
  nonempty_all P -> nonempty_all R -> fits n P -> fits n R -> (length P <= length R)%nat ->
  let o := conversation n fuel (mk_icfg b106 lrt did nad) (mk_tcfg b106 lri did) script P (app_of R) timeout release in
  exists j k itail ttail,
    o_ini o = map IOk (firstn j R) ++ itail /\
    (itail = [] /\ j = length P \/ exists e, itail = [IErr e] /\ comm e /\ (j < length P)%nat) /\
    o_tgt o = map TOk (firstn k P) ++ ttail /\ tail_ok ttail /\
    (j <= k <= j + 1)%nat /\ (k <= length P)%nat.
Proof. intros. apply dep_safety_thm; try assumption. apply valid_mk; assumption. Qed.
Print Assumptions C04_dep_safety.

(* --- any single lost or corrupted frame per protocol step is recovered transparently: for EVERY script in which each
       faulty round (request or response lost or corrupted) is followed by two fault free rounds, all payload sizes
       and conversation lengths, the result is exact (exchange time-out at least two response waiting times).
       No guard on the kind of frame: since d00e425 a corrupted ACK response during
       initiator chaining is recovered like any other frame. --- *)
Theorem C04_dep_single_fault_recovered : forall b106 lri lrt did nad n fuel script P R timeout release,
  did_valid did -> Z.max 0 timeout < Z.of_nat fuel -> 2 <= timeout -> Sparse script ->
  nonempty_all P -> nonempty_all R -> fits n P -> fits n R -> (length P <= length R)%nat ->
  let o := conversation n fuel (mk_icfg b106 lrt did nad) (mk_tcfg b106 lri did) script P (app_of R) timeout release in
  o_ini o = map IOk (firstn (length P) R) /\
  exists ttail, o_tgt o = map TOk P ++ ttail /\ tail_ok ttail.
Proof. intros. apply dep_single_fault_recovered_thm; try assumption. apply valid_mk; assumption. Qed.
Print Assumptions C04_dep_single_fault_recovered.

(* the input that was not recovered before the repair (62 byte payload at LR 64, the ACK to the first, chained DEP_REQ
   corrupted) is recovered; an ACK answered to the NAK for a LAST information PDU is still a ProtocolError (the
   behaviour pinned by tests/test_dep.py::test_exchange_retransmission_invalid_response) *)
Example C04_corrupted_ack_recovered :
  o_ini (conversation 200 20 (mk_icfg false 0 None None) (mk_tcfg false 0 None) [(FD, FC)] [repeat 1 62] (app_of [[2]]) 8 (Some true))
    = [IOk [2]] /\
  (forall w, fst (req_nak 1 (mk_icfg false 0 None None) (mk_tcfg false 0 None) 0 false 1 5
                    (mkw (mktgt (Some 0) (TRecv [1]) (Some (mkdep F_ACK 0 None None [])) [] [] [] true) [] 0 w)) = Err ProtocolError) /\
  (forall w, fst (req_nak 1 (mk_icfg false 0 None None) (mk_tcfg false 0 None) 0 true 1 5
                    (mkw (mktgt (Some 0) (TRecv [1]) (Some (mkdep F_ACK 0 None None [])) [] [] [] true) [] 0 w)) = Ok (PDepRes (mkdep F_ACK 0 None None []))).
Proof. split; [vm_compute; reflexivity|]. split; intro w; reflexivity. Qed.

(* ======== with time-out extension: before each response the target application may call send_timeout_extension up to three
   times (values 1..59): `ap` gives, per received payload, the RTOX values and the response; `resps ap` are the responses.
   The three theorems above are the instances ap = app_of R (no extension) of the following two. ======== *)

(* --- safety for EVERY fault script with RTOX rounds interleaved: prefixes, at most one CommunicationError / None, target at
       most one payload ahead.  In particular the RTOX value octet is never delivered to the target application as a payload
       and never to the initiator as a response ("never ... foreign data"; the defect repaired by 0d645cb, seeded C04-b2) --- *)
Theorem C04_dep_safety_rtox : forall b106 lri lrt did nad n fuel script P ap timeout release,
  did_valid did -> Z.max 0 timeout < Z.of_nat fuel -> rtox_ok ap ->
  nonempty_all P -> nonempty_all (resps ap) -> fits n P -> fits n (resps ap) -> (length P <= length ap)%nat ->
  let o := conversation n fuel (mk_icfg b106 lrt did nad) (mk_tcfg b106 lri did) script P ap timeout release in
  exists j k itail ttail,
    o_ini o = map IOk (firstn j (resps ap)) ++ itail /\
    (itail = [] /\ j = length P \/ exists e, itail = [IErr e] /\ comm e /\ (j < length P)%nat) /\
    o_tgt o = map TOk (firstn k P) ++ ttail /\ tail_ok ttail /\
    (j <= k <= j + 1)%nat /\ (k <= length P)%nat.
Proof. intros. apply dep_safety_rtox_thm; try assumption. apply valid_mk; assumption. Qed.
Print Assumptions C04_dep_safety_rtox.

(* --- exactness with RTOX rounds: (a) fault free; (b) every faulty round followed by two fault free rounds, no response
       corrupted, exchange time-out >= 60 RWT (one more than the largest RTOX value, which scales the response waiting time):
       a lost / corrupted RTOX request, a lost RTOX response, a lost information PDU right after the handshake (seeded
       C04-b2) and every lost / corrupted request or lost response elsewhere are recovered; (c) without extension: every
       isolated fault.  Exception, by design of NFC-DEP: a CORRUPTED response while extensions are in use is outside (b):
       the target answers the NAK with its RTOX again and "RTOX response to NACK or ATN" is a ProtocolError - see
       C04_rtox_corrupted_response_refuted --- *)
Theorem C04_dep_exact_rtox : forall b106 lri lrt did nad n fuel script P ap timeout release,
  did_valid did -> Z.max 0 timeout < Z.of_nat fuel -> rtox_ok ap ->
  ((script = [] /\ 1 <= timeout) \/ (Sparse script /\ NC script /\ 60 <= timeout) \/ (Sparse script /\ 2 <= timeout /\ no_rtox ap)) ->
  nonempty_all P -> nonempty_all (resps ap) -> fits n P -> fits n (resps ap) -> (length P <= length ap)%nat ->
  let o := conversation n fuel (mk_icfg b106 lrt did nad) (mk_tcfg b106 lri did) script P ap timeout release in
  o_ini o = map IOk (firstn (length P) (resps ap)) /\
  exists ttail, o_tgt o = map TOk P ++ ttail /\ tail_ok ttail.
Proof. intros. apply dep_exact_rtox_thm; try assumption. apply valid_mk; assumption. Qed.
Print Assumptions C04_dep_exact_rtox.

(* the exception is genuine (and by design): RTOX response to the last information PDU corrupted -> NAK -> the target
   retransmits its RTOX -> request_retransmission raises ProtocolError; nothing foreign is delivered.
   And the fourth extension in a row ends the exchange with TimeoutError ("timeout extension"), the target keeps waiting. *)
Theorem C04_rtox_corrupted_response_refuted :
  exists script P ap,
    Sparse script /\ rtox_ok ap /\ nonempty_all P /\ nonempty_all (resps ap) /\ did_valid None /\
    o_ini (conversation 50 200 (mk_icfg false 0 None None) (mk_tcfg false 0 None) script P ap 100 (Some true)) = [IErr ProtocolError].
Proof.
  exists [(FD, FC); (FD, FD); (FD, FD)], [[1]], [([5], [2])]. vm_compute. repeat split; repeat constructor; try discriminate; auto.
Qed.
Print Assumptions C04_rtox_corrupted_response_refuted.

Example C04_rtox_nonvacuous :
  (* three extensions before the first response, one before the third, lost RTOX request, lost RTOX response, lost information
     PDU right after the handshake: exact *)
  let P := [repeat 1 70; [2]; [3; 3]] in
  let ap := [([5; 1; 59], repeat 17 125); ([], [18]); ([2], [19])] in
  let o := conversation 200 200 (mk_icfg true 0 (Some 5) None) (mk_tcfg true 0 (Some 5))
             [(FD, FD); (FD, FD); (FL, FD); (FD, FD); (FD, FD); (FD, FL); (FD, FD); (FD, FD); (FD, FD); (FD, FD); (FD, FD); (FD, FL)]
             P ap 100 (Some true) in
  o_ini o = map IOk (resps ap) /\ o_tgt o = map TOk P ++ [TNone] /\ rtox_ok ap /\
  Sparse [(FD, FD); (FD, FD); (FL, FD); (FD, FD); (FD, FD); (FD, FL); (FD, FD); (FD, FD); (FD, FD); (FD, FD); (FD, FD); (FD, FL); (FD, FD); (FD, FD)] /\
  (* a fourth extension in a row: TimeoutError, and the payload was delivered exactly once *)
  (let o4 := conversation 200 200 (mk_icfg false 0 None None) (mk_tcfg false 0 None) [] [[1]] [([1; 1; 1; 1], [2])] 100 (Some true) in
   o_ini o4 = [IErr TimeoutError] /\ o_tgt o4 = [TOk [1]]).
Proof. vm_compute. repeat split; repeat constructor; try discriminate; auto. Qed.

(* --- one protocol step (send_dep_req_recv_dep_res) under every script: it fails, or it returns exactly the
       response the target produced when it accepted the request; the target accepts the request at most once --- *)
Theorem C04_step_safe : forall ic tc, valid_cfg ic tc ->
  forall t0 t1 d r, req_ok ic d -> (fmt d = F_INF \/ fmt d = F_MORE \/ fmt d = F_ACK) ->
  Tinv tc t0 -> t_pos t0 <> TStop -> t_pni t0 <> Some (pni d) -> (t_pos t0 = TListen \/ t_pos t0 = TFirst -> pni d = 0) ->
  t_accept tc t0 d = (t1, Some (PDepRes r)) ->
  forall fuel p rwt timeout w out w', InS t0 t1 (w_t w) -> 0 <= p <= 3 -> 1 <= rwt ->
  srr fuel ic tc p d rwt timeout w = (out, w') ->
  InS t0 t1 (w_t w') /\
  ((out = Ok r /\ w_t w' = t1) \/ (exists e, out = Err e /\ comm e) \/ (out = Hang /\ Z.of_nat fuel <= Z.max 0 timeout)).
Proof. intros ic tc (H1 & H2 & H3 & H4). intros. eapply srr_safe; eassumption. Qed.
Print Assumptions C04_step_safe.

(* --- the frame codec: decode_frame (encode_frame pdu) = pdu --- *)
Theorem C04_codec_req : forall b d f, dep_wf d ->
  encode_frame b (enc_pdu (PDepReq d)) = Ok f -> decode_frame_tgt b f = Ok (PDepReq d).
Proof. exact decode_tgt_dep. Qed.
Print Assumptions C04_codec_req.
Theorem C04_codec_res : forall b d f, dep_wf d ->
  encode_frame b (enc_pdu (PDepRes d)) = Ok f -> decode_frame_ini b f = Ok (PDepRes d).
Proof. exact decode_ini_dep. Qed.
Print Assumptions C04_codec_res.

(* --- activating the same Initiator / Target objects again (a fresh link after any earlier conversation): the
       conversation is the one fresh objects would have, so all theorems above hold for every activation of a history --- *)
Theorem C04_reactivation_fresh : forall p_old t_old n fuel ic tc script payloads app timeout release,
  conversation_after p_old t_old n fuel ic tc script payloads app timeout release =
  conversation n fuel ic tc script payloads app timeout release.
Proof. exact reactivation_fresh. Qed.
Print Assumptions C04_reactivation_fresh.
Theorem C04_activate_state : forall p_old t_old app, ini_activate p_old = 0 /\ tgt_activate t_old app = tgt_init app.
Proof. exact activate_state. Qed.
Print Assumptions C04_activate_state.

(* --- tie: the kernels regenerated from src/nfc/dep.py on this run (Gen/DepK.v) are what Model/Dep.v is built from --- *)
Theorem C04_bridge_fmt_consts : gen_LastInformation = F_INF /\ gen_MoreInformation = F_MORE /\ gen_PositiveAck = F_ACK /\
  gen_NegativeAck = F_NAK /\ gen_Attention = F_ATN /\ gen_TimeoutExtension = F_RTOX.
Proof. exact bridge_fmt_consts. Qed.
Print Assumptions C04_bridge_fmt_consts.
(* PFB octet: (fmt << 4) | (nad << 3) | (did << 2) | pni is the model's pfb_byte, the four decoded fields are dec_dep's *)
Theorem C04_bridge_pfb_encode : forall d, dep_wf d ->
  gen_pfb_encode (fmt d) (is_some (nad d)) (is_some (did d)) (pni d) = pfb_byte d.
Proof. exact bridge_pfb_encode. Qed.
Print Assumptions C04_bridge_pfb_encode.
Theorem C04_bridge_dec_dep : forall p r, 0 <= p < 256 ->
  dec_dep (p :: r) =
  (do x1 <- (if gen_pfb_did p then match r with [] => Err ProtocolError | x :: r' => Ok (Some x, r') end else Ok (None, r));
   do x2 <- (if gen_pfb_nad p then match snd x1 with [] => Err ProtocolError | x :: r' => Ok (Some x, r') end else Ok (None, snd x1));
   Ok (mkdep (gen_pfb_fmt p) (gen_pfb_pni p) (fst x1) (fst x2) (snd x2))).
Proof. exact bridge_dec_dep. Qed.
Print Assumptions C04_bridge_dec_dep.
(* the packet number step at all four sites is (pni + 1) mod 4 *)
Theorem C04_bridge_pni_next : forall p,
  gen_i_pni_next_1 p = (p + 1) mod 4 /\ gen_i_pni_next_2 p = (p + 1) mod 4 /\
  gen_t_pni_next_1 p = (p + 1) mod 4 /\ gen_t_pni_next_2 p = (p + 1) mod 4.
Proof. exact bridge_pni_next. Qed.
Print Assumptions C04_bridge_pni_next.
(* payload slicing by self.miu *)
Theorem C04_bridge_chunks : forall sd miu, 0 <= miu ->
  gen_i_chunk sd miu = take miu sd /\ gen_i_rest sd miu = drop miu sd /\ gen_i_more (gen_i_rest sd miu) = nonempty (drop miu sd) /\
  gen_t_chunk sd miu = take miu sd /\ gen_t_rest sd miu = drop miu sd /\ gen_t_more sd miu = (miu <? len sd).
Proof. exact bridge_chunks. Qed.
Print Assumptions C04_bridge_chunks.
(* one iteration of the initiator's send loop and the target's first chunk, written with the regenerated kernels *)
Theorem C04_bridge_send_loop : forall n fuel ic tc p b sd last timeout w, 0 <= ic_miu ic ->
  send_loop (S n) fuel ic tc p (b :: sd) last timeout w =
  let sd0 := b :: sd in
  let req := i_dep ic (if gen_i_more (gen_i_rest sd0 (ic_miu ic)) then gen_MoreInformation else gen_LastInformation) p
                   (gen_i_chunk sd0 (ic_miu ic)) in
  match srr fuel ic tc p req 1 timeout w with
  | (Ok r0, w1) =>
      match after_rtox fuel ic tc p r0 timeout w1 with
      | (Ok r, w2) =>
          if (fmt r =? gen_PositiveAck) && negb (gen_i_more (gen_i_rest sd0 (ic_miu ic))) then (Err ProtocolError, w2)
          else if negb (pni r =? p) then (Err ProtocolError, w2)
          else send_loop n fuel ic tc (gen_i_pni_next_1 p) (gen_i_rest sd0 (ic_miu ic)) (Some r) timeout w2
      | (Err e, w2) => (Err e, w2) | (Crash c, w2) => (Crash c, w2) | (Hang, w2) => (Hang, w2)
      end
  | (Err e, w1) => (Err e, w1) | (Crash c, w1) => (Crash c, w1) | (Hang, w1) => (Hang, w1)
  end.
Proof. exact bridge_send_loop. Qed.
Print Assumptions C04_bridge_send_loop.
Theorem C04_bridge_start_send : forall c t x resp p, 0 <= tc_miu c -> t_pni t = Some p ->
  t_start_send c t (x :: resp) =
  t_emit t (TSend (x :: resp)) (mkdep (if gen_t_more (x :: resp) (tc_miu c) then gen_MoreInformation else gen_LastInformation) p
                                      (tc_did c) (tc_nad c) (gen_t_chunk (x :: resp) (tc_miu c))).
Proof. exact bridge_start_send. Qed.
Print Assumptions C04_bridge_start_send.
Theorem C04_bridge_t_accept_recv : forall c t d acc p, t_pos t = TRecv acc -> t_pni t = Some p ->
  t_accept c t d =
  let t1 := t_set_pni t (gen_t_pni_next_2 p) in
  if negb (pni d =? gen_t_pni_next_2 p) then t_stop t1 (TErr ProtocolError) else t_recv_chain c t1 d acc.
Proof. exact bridge_t_accept_recv. Qed.
Print Assumptions C04_bridge_t_accept_recv.
(* RTOX value range test, RTOX mask, number of RTOX rounds *)
Theorem C04_bridge_rtox : forall x, gen_rtox_bad x = negb ((0 <? x) && (x <? 60)) /\ gen_rtox_mask x = Z.land x 63.
Proof. exact bridge_rtox. Qed.
Print Assumptions C04_bridge_rtox.
Theorem C04_bridge_after_rtox : forall fuel ic tc p r timeout w,
  after_rtox fuel ic tc p r timeout w = if fmt r =? gen_TimeoutExtension then rtox_loop gen_n_rtox fuel ic tc p r timeout w else (Ok r, w).
Proof. exact bridge_after_rtox. Qed.
Print Assumptions C04_bridge_after_rtox.
(* retry counts of request_attention / request_retransmission and the chained flag *)
Theorem C04_bridge_srr_loop : forall f ic tc p d rwt deadline w,
  srr_loop (S f) ic tc p (PDepReq d) rwt deadline w =
  let timeout := Z.min rwt (deadline - w_now w) in
  if timeout <=? 0 then (Err TimeoutError, w) else
  match srr1 ic tc (PDepReq d) timeout w with
  | (Ok r, w1) => (Ok r, w1)
  | (Err TimeoutError, w1) =>
      match req_atn gen_n_retry_atn ic tc rwt deadline w1 with
      | (Ok _, w2) => srr_loop f ic tc p (PDepReq d) rwt deadline w2
      | (Err e, w2) => (Err e, w2) | (Crash x, w2) => (Crash x, w2) | (Hang, w2) => (Hang, w2)
      end
  | (Err TransmissionError, w1) => req_nak gen_n_retry_nak ic tc p (gen_is_chained (fmt d)) rwt deadline w1
  | (Err e, w1) => (Err e, w1) | (Crash x, w1) => (Crash x, w1) | (Hang, w1) => (Hang, w1)
  end.
Proof. exact bridge_srr_loop. Qed.
Print Assumptions C04_bridge_srr_loop.
Theorem C04_bridge_nak_expected : forall ch f,
  existsb (fun k => f =? k) (gen_nak_expected ch) = (f =? F_INF) || (f =? F_MORE) || (ch && (f =? F_ACK)).
Proof. exact bridge_nak_expected. Qed.
Print Assumptions C04_bridge_nak_expected.
(* frame length octet / 106A start byte: construction and checks, with their exception classes *)
Theorem C04_bridge_encode_frame : forall b body, gen_i_encode_frame b body = encode_frame b body /\ gen_t_encode_frame b body = encode_frame b body.
Proof. exact bridge_encode_frame. Qed.
Print Assumptions C04_bridge_encode_frame.
Theorem C04_bridge_strip_frame : forall b f, gen_i_strip_frame b f = strip_frame b f /\ gen_t_strip_frame b f = strip_frame b f.
Proof. exact bridge_strip_frame. Qed.
Print Assumptions C04_bridge_strip_frame.
Theorem C04_bridge_code : forall b f c0 c1 r, strip_frame b f = Ok (c0 :: c1 :: r) ->
  (gen_i_code_bad c0 c1 = true -> decode_frame_ini b f = Err ProtocolError) /\
  (gen_t_code_bad c0 c1 = true -> decode_frame_tgt b f = Err ProtocolError).
Proof. intros. split; [eapply bridge_code_i | eapply bridge_code_t]; eassumption. Qed.
Print Assumptions C04_bridge_code.

Theorem C04_bridge_activate : forall p_old t_old app,
  ini_activate p_old = gen_i_activate_pni /\ t_pni (tgt_activate t_old app) = gen_t_activate_pni.
Proof. exact bridge_activate. Qed.
Print Assumptions C04_bridge_activate.

(* non-vacuity: a conversation of five exchanges (beyond the PNI wrap) with chaining in both directions,
   DID and NAD, a lost request, a corrupted information response and a lost response is completed exactly;
   a script that exhausts the attention budget ends in a ProtocolError with nothing delivered *)
Example C04_nonvacuous :
  let P := [repeat 1 130; [2]; [3; 3]; [4]; repeat 5 61] in
  let R := [repeat 17 125; [18]; [19]; repeat 20 62; [21]] in
  let o := conversation 200 20 (mk_icfg true 0 (Some 5) (Some 7)) (mk_tcfg true 0 (Some 5))
             [(FL, FD); (FD, FD); (FD, FD); (FD, FD); (FD, FC); (FD, FD); (FD, FD); (FD, FL); (FD, FD); (FD, FD)]
             P (app_of R) 8 (Some true) in
  o_ini o = map IOk R /\ o_tgt o = map TOk P ++ [TNone] /\
  did_valid (Some 5) /\ nonempty_all P /\ fits 200 R /\
  Sparse [(FL, FD); (FD, FD); (FD, FD); (FD, FD); (FD, FC); (FD, FD); (FD, FD); (FD, FL); (FD, FD); (FD, FD)] /\
  o_ini (conversation 200 20 (mk_icfg false 3 None None) (mk_tcfg false 3 None)
           [(FL, FD); (FL, FD); (FL, FD)] [[1]] (app_of [[2]]) 8 None) = [IErr ProtocolError].
Proof. vm_compute. repeat split; repeat constructor; try discriminate; auto. Qed.
