(* C04 - NFC-DEP delivers each payload exactly once, intact, or reports failure.
   Only statements here; proofs are in Proofs/DepCodec.v, DepTarget.v, DepBound.v, DepSrr.v,
   DepExact.v, DepSafety.v.  The model (Model/Dep.v) is of the repaired code (committed repairs b836295, 7efe465, 0d645cb, 2786f8b and
   fixes/c04-nak-ack-retransmit-chained.diff).

   conversation n fuel ic tc script payloads app timeout release
     runs a real-code-shaped Initiator (exchange over send_dep_req_recv_dep_res with ATN / NAK
     recovery and the deadline) against the Target machine over an air that assigns a fate
     (deliver / lose / corrupt) to every request and every response frame by `script`. *)
From Coq Require Import ZArith List Bool.
From NV Require Import Base.Result Base.Bytes Model.Dep
  Proofs.DepCodec Proofs.DepTarget Proofs.DepBound Proofs.DepSrr Proofs.DepExact Proofs.DepSafety.
Import ListNotations.
Open Scope Z_scope.

(* --- no frame exceeds the payload size (LR) announced by its receiver: for EVERY fault script,
       payload list, application behaviour (RTOX included), DID / NAD setting, time-out and fuel --- *)
Theorem C04_dep_frame_bound : forall n fuel b106 lri lrt did nad script payloads app timeout release e,
  In e (o_frames (conversation n fuel (mk_icfg b106 lrt did nad) (mk_tcfg b106 lri did) script payloads app timeout release)) ->
  tlen b106 (l_data e) <= (if l_ini e then lr_of lrt else lr_of lri).
Proof. exact dep_frame_bound_all. Qed.
Print Assumptions C04_dep_frame_bound.

(* --- fault free: every payload and every response arrives exactly once, complete, in order, for all payload
       sizes (chaining both ways), any number of exchanges (packet numbers wrap modulo 4), all LR / DID / NAD --- *)
Theorem C04_dep_nofault_exact : forall b106 lri lrt did nad n fuel P R timeout release,
  did_valid did -> Z.max 0 timeout < Z.of_nat fuel -> 1 <= timeout ->
  nonempty_all P -> nonempty_all R -> fits n P -> fits n R -> (length P <= length R)%nat ->
  let o := conversation n fuel (mk_icfg b106 lrt did nad) (mk_tcfg b106 lri did) [] P (app_of R) timeout release in
  o_ini o = map IOk (firstn (length P) R) /\
  exists ttail, o_tgt o = map TOk P ++ ttail /\ tail_ok ttail.
Proof. intros. apply dep_nofault_exact_thm; try assumption. apply valid_mk; assumption. Qed.
Print Assumptions C04_dep_nofault_exact.

(* --- safety under EVERY fault script: what the initiator application gets is a prefix of the responses the
       target application passed to exchange() followed by at most one CommunicationError; what the target
       application gets is a prefix of the payloads the initiator passed to exchange() followed by at most one
       None (released) / TimeoutError (link gone); the target is never more than one payload ahead.
       No truncation, duplication, reordering or foreign data; no other exception. --- *)
Theorem C04_dep_safety : forall b106 lri lrt did nad n fuel script P R timeout release,
  did_valid did -> Z.max 0 timeout < Z.of_nat fuel ->
  nonempty_all P -> nonempty_all R -> fits n P -> fits n R -> (length P <= length R)%nat ->
  let o := conversation n fuel (mk_icfg b106 lrt did nad) (mk_tcfg b106 lri did) script P (app_of R) timeout release in
  exists j k itail ttail,
    o_ini o = map IOk (firstn j R) ++ itail /\
    (itail = [] /\ j = length P \/ exists e, itail = [IErr e] /\ comm e /\ (j < length P)%nat) /\
    o_tgt o = map TOk (firstn k P) ++ ttail /\ tail_ok ttail /\
    (j <= k <= j + 1)%nat /\ (k <= length P)%nat.
Proof. intros. apply dep_safety_thm; try assumption. apply valid_mk; assumption. Qed.
Print Assumptions C04_dep_safety.

(* --- any single lost or corrupted frame per protocol step is recovered transparently: for EVERY script in which each
       faulty round (request or response lost or corrupted) is followed by two fault free rounds, all payload sizes
       and conversation lengths, the result is exact (exchange time-out at least two response waiting times).
       No guard on the kind of frame: with fixes/c04-nak-ack-retransmit-chained.diff a corrupted ACK response during
       initiator chaining is recovered like any other frame. --- *)
Theorem C04_dep_single_fault_recovered : forall b106 lri lrt did nad n fuel script P R timeout release,
  did_valid did -> Z.max 0 timeout < Z.of_nat fuel -> 2 <= timeout -> Sparse script ->
  nonempty_all P -> nonempty_all R -> fits n P -> fits n R -> (length P <= length R)%nat ->
  let o := conversation n fuel (mk_icfg b106 lrt did nad) (mk_tcfg b106 lri did) script P (app_of R) timeout release in
  o_ini o = map IOk (firstn (length P) R) /\
  exists ttail, o_tgt o = map TOk P ++ ttail /\ tail_ok ttail.
Proof. intros. apply dep_single_fault_recovered_thm; try assumption. apply valid_mk; assumption. Qed.
Print Assumptions C04_dep_single_fault_recovered.

(* the input that was not recovered before the repair (62 byte payload at LR 64, the ACK to the first, chained DEP_REQ
   corrupted) is recovered; an ACK answered to the NAK for a LAST information PDU is still a ProtocolError (the
   behaviour pinned by tests/test_dep.py::test_exchange_retransmission_invalid_response) *)
Example C04_corrupted_ack_recovered :
  o_ini (conversation 200 20 (mk_icfg false 0 None None) (mk_tcfg false 0 None) [(FD, FC)] [repeat 1 62] (app_of [[2]]) 8 (Some true))
    = [IOk [2]] /\
  (forall w, fst (req_nak 1 (mk_icfg false 0 None None) (mk_tcfg false 0 None) 0 false 1 5
                    (mkw (mktgt (Some 0) (TRecv [1]) (Some (mkdep F_ACK 0 None None [])) [] [] [] true) [] 0 w)) = Err ProtocolError) /\
  (forall w, fst (req_nak 1 (mk_icfg false 0 None None) (mk_tcfg false 0 None) 0 true 1 5
                    (mkw (mktgt (Some 0) (TRecv [1]) (Some (mkdep F_ACK 0 None None [])) [] [] [] true) [] 0 w)) = Ok (PDepRes (mkdep F_ACK 0 None None []))).
Proof. split; [vm_compute; reflexivity|]. split; intro w; reflexivity. Qed.

(* --- one protocol step (send_dep_req_recv_dep_res) under every script: it fails, or it returns exactly the
       response the target produced when it accepted the request; the target accepts the request at most once --- *)
Theorem C04_step_safe : forall ic tc, valid_cfg ic tc ->
  forall t0 t1 d r, req_ok ic d -> (fmt d = F_INF \/ fmt d = F_MORE \/ fmt d = F_ACK) ->
  Tinv tc t0 -> t_pos t0 <> TStop -> t_pni t0 <> Some (pni d) -> (t_pos t0 = TListen \/ t_pos t0 = TFirst -> pni d = 0) ->
  t_accept tc t0 d = (t1, Some (PDepRes r)) ->
  forall fuel p rwt timeout w out w', InS t0 t1 (w_t w) -> 0 <= p <= 3 -> 1 <= rwt ->
  srr fuel ic tc p d rwt timeout w = (out, w') ->
  InS t0 t1 (w_t w') /\
  ((out = Ok r /\ w_t w' = t1) \/ (exists e, out = Err e /\ comm e) \/ (out = Hang /\ Z.of_nat fuel <= Z.max 0 timeout)).
Proof. intros ic tc (H1 & H2 & H3 & H4). intros. eapply srr_safe; eassumption. Qed.
Print Assumptions C04_step_safe.

(* --- the frame codec: decode_frame (encode_frame pdu) = pdu --- *)
Theorem C04_codec_req : forall b d f, dep_wf d ->
  encode_frame b (enc_pdu (PDepReq d)) = Ok f -> decode_frame_tgt b f = Ok (PDepReq d).
Proof. exact decode_tgt_dep. Qed.
Print Assumptions C04_codec_req.
Theorem C04_codec_res : forall b d f, dep_wf d ->
  encode_frame b (enc_pdu (PDepRes d)) = Ok f -> decode_frame_ini b f = Ok (PDepRes d).
Proof. exact decode_ini_dep. Qed.
Print Assumptions C04_codec_res.

(* non-vacuity: a conversation of five exchanges (beyond the PNI wrap) with chaining in both directions,
   DID and NAD, a lost request, a corrupted information response and a lost response is completed exactly;
   a script that exhausts the attention budget ends in a ProtocolError with nothing delivered *)
Example C04_nonvacuous :
  let P := [repeat 1 130; [2]; [3; 3]; [4]; repeat 5 61] in
  let R := [repeat 17 125; [18]; [19]; repeat 20 62; [21]] in
  let o := conversation 200 20 (mk_icfg true 0 (Some 5) (Some 7)) (mk_tcfg true 0 (Some 5))
             [(FL, FD); (FD, FD); (FD, FD); (FD, FD); (FD, FC); (FD, FD); (FD, FD); (FD, FL); (FD, FD); (FD, FD)]
             P (app_of R) 8 (Some true) in
  o_ini o = map IOk R /\ o_tgt o = map TOk P ++ [TNone] /\
  did_valid (Some 5) /\ nonempty_all P /\ fits 200 R /\
  Sparse [(FL, FD); (FD, FD); (FD, FD); (FD, FD); (FD, FC); (FD, FD); (FD, FD); (FD, FL); (FD, FD); (FD, FD)] /\
  o_ini (conversation 200 20 (mk_icfg false 3 None None) (mk_tcfg false 3 None)
           [(FL, FD); (FL, FD); (FL, FD)] [[1]] (app_of [[2]]) 8 None) = [IErr ProtocolError].
Proof. vm_compute. repeat split; repeat constructor; try discriminate; auto. Qed.
