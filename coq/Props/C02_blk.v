(* C02 (block tags part) - an interrupted NDEF write never leaves a corrupt message: Type 3 Tag, Type 4 Tag.
   The power cut is the budget of state-changing commands of the session: the k-th command is executed, every
   later command fails.  Only statements here; proofs are in Proofs/T3T.v, Proofs/T4T.v. *)
From Coq Require Import ZArith List Bool.
From NV Require Import Base.Result Base.Bytes Base.PyPrims Proofs.Chunks Model.T3T Model.T4T Proofs.T3T Proofs.T3TEmu Proofs.T4T.
Import ListNotations.
Open Scope Z_scope.

(* --- Type 3: n = number of commands of the write (attribute block with WriteF=0Fh, data batches, attribute block
   with Ln and WriteF=00h).  Cut before the first command: memory unchanged (the previous message).  Cut strictly
   inside: a fresh reader reports the NDEF area as not readable.  k >= n: exactly the new message. *)
Theorem C02_t3_cut_safe : forall t a d old, pt_wf t a -> len d <= a_nmaxb a * 16 -> 0 <= p_budget t ->
  let k := p_budget t in
  let n := Z.of_nat (length (t3_plan a d)) in
  exists r t', pt_set_octets (Ndef true true (a_nmaxb a * 16) old) t d = (r, t') /\ pt_inv (p_maxr t) (p_maxw t) t' /\
    (k = 0 -> p_mem t' = p_mem t) /\
    (0 < k < n -> exists w c x, pt_fresh (p_mem t') (p_maxr t) (p_maxw t) true = Ok (Ndef false w c x)) /\
    (n <= k -> pt_fresh (p_mem t') (p_maxr t) (p_maxw t) true = Ok (Ndef true true (a_nmaxb a * 16) d)).
Proof. exact t3_cut_safe_pt. Qed.
Print Assumptions C02_t3_cut_safe.

(* the same for a reader writing to the library's Type 3 Tag emulation *)
Theorem C02_t3emu_cut_safe : forall s a d old, em_wf s a -> len d <= a_nmaxb a * 16 -> 0 <= e_budget s ->
  let k := e_budget s in
  let n := Z.of_nat (length (t3_plan a d)) in
  exists r s', em_set_octets (Ndef true true (a_nmaxb a * 16) old) s d = (r, s') /\ em_inv s' /\
    (k = 0 -> e_mem s' = e_mem s) /\
    (0 < k < n -> exists w c x, em_fresh (e_mem s') = Ok (Ndef false w c x)) /\
    (n <= k -> em_fresh (e_mem s') = Ok (Ndef true true (a_nmaxb a * 16) d)).
Proof. exact t3emu_cut_safe. Qed.
Print Assumptions C02_t3emu_cut_safe.

(* --- Type 4, for cards that take the NLEN field in one UPDATE BINARY (MLc >= 2 resp. 4): cut before the first
   command: file unchanged; strictly inside: a fresh reader sees an empty message (NLEN = 0); k >= n: the new
   message.  (When NLEN + data fit one UPDATE BINARY, n = 1 and nothing is strictly inside.) *)
Theorem C02_t4_cut_safe : forall c i cw d old, t4_wf c i -> writer_sess c cw -> len d <= i_cap i ->
  i_nlen i <= i_mlc i -> 0 <= c_budget cw ->
  exists nl r c', nlen_bytes (i_nlen i) (len d) = Ok nl /\
    t4_set_octets (Ndef true true (i_cap i) old) (Some i) cw d = (r, c') /\ same_cc c c' /\
    let k := c_budget cw in let n := Z.of_nat (length (t4_plan i d nl)) in
    (k = 0 -> c_file c' = c_file c) /\
    (0 < k < n -> t4_fresh c' = Ok (Ndef true true (i_cap i) [])) /\
    (n <= k -> t4_fresh c' = Ok (Ndef true true (i_cap i) d)).
Proof. exact t4_cut_safe_gen. Qed.
Print Assumptions C02_t4_cut_safe.

(* the writer session of the theorem above is the one left by the writer's own read of tag.ndef *)
Theorem C02_t4_writer_session : forall c i, t4_wf c i -> nlen_ok c i ->
  exists old, t4_read_ndef (new_session c) = (Ok (Ndef true true (i_cap i) old, Some i), file_sess c (c_file c)) /\
              writer_sess c (file_sess c (c_file c)).
Proof. exact t4_initial_read. Qed.
Print Assumptions C02_t4_writer_session.

(* non-vacuity: cut points strictly inside exist and compute (Type 3: 5 commands, cut after 2; Type 4: MLc 5, cut after 3) *)
Example C02_blk_nonvacuous :
  (let d := repeat 7 40 in
   length (t3_plan (mkAttrs 16 4 1 5 0 1 0) d) = 5%nat /\
   exists w c x, pt_fresh (p_mem (snd (pt_set_octets (Ndef true true 80 [])
      (mkPtag (attr_build (mkAttrs 16 4 1 5 0 1 0) ++ repeat 238 80) 4 13 true 2 []) d))) 4 13 true = Ok (Ndef false w c x)) /\
  (let d := repeat 7 10 in let i := mkInfo 59 5 62 true true 2 [225; 4] 12 in
   let cw := mkCard (cc2 32 0 59 0 5 225 4 0 64 0 0) [225; 4] ([0; 3; 1; 2; 3] ++ repeat 238 59) true false true 2 3 [] in
   t4_fresh (snd (t4_set_octets (Ndef true true 62 [1; 2; 3]) (Some i) cw d)) = Ok (Ndef true true 62 [])).
Proof. split; [split; [reflexivity | vm_compute; eauto] | vm_compute; reflexivity]. Qed.
