(* C15 - The frontend never lets two threads drive the device at once.
   Only statements here; proofs are in Skel/LockCheck.v and Bridge/C15Skel.v.

   Reading guide.  A schedule g is a list of (thread, event); events are Acq/Rel of the frontend
   lock, DevBegin m/DevEnd m (a call of driver method m starts/returns), ConnectCall
   (device.connect), EvSet b (self.device written, b = "not None"), EvTest b (self.device tested),
   ExtCall x (code outside the frontend starts: callback, terminate(), nfc.tag.*, tag.*, llc.* -
   it may call any frontend method).  The environment assumptions are what CPython gives:
   mutex_ok (threading.Lock: acquire only succeeds when free, release by the holder) and dev_ok (a
   test of the attribute sees the last value written).  thread_trace E entry t: t is the event
   trace of a thread that calls frontend methods any number of times (complete, aborted by an
   exception at any point, or still in progress - so every prefix of every run is covered). *)
From Coq Require Import List String Bool.
From NV Require Import Skel.LockSyntax Skel.LockCheck Gen.FrontendSkel Bridge.C15Skel
  Skel.DriverPolicy Gen.DriverScan Bridge.C15Drivers.
Import ListNotations.
Local Open Scope list_scope.

(* --- the analysis is sound: an accepted statement only has monitored executions --- *)
Theorem C15_lockcheck_sound : forall E entry n0 r0, chk E n0 false false entry = Some r0 ->
  forall s t o, exec E entry s t o ->
  forall n h k r st, chk E n h k s = Some r -> able h k st = true ->
  exists st', run st t = Some st' /\ post_ok h r o st'.
Proof. exact chk_sound. Qed.
Print Assumptions C15_lockcheck_sound.

(* --- any number of threads, any interleaving a non-re-entrant mutex allows --- *)
Theorem C15_threads_exclusive : forall g o bz kn d,
  mutex_ok o g = true -> dev_ok d g = true ->
  (kn = true -> d = true) -> (bz = true -> kn = true /\ o <> None) ->
  (forall t, run (lst_of o bz kn t) (proj t g) <> None) ->
  excl o bz d g = true.
Proof. exact threads_safe. Qed.
Print Assumptions C15_threads_exclusive.

(* --- the skeleton regenerated from src/nfc/clf/__init__.py on this run is accepted --- *)
Theorem C15_frontend_locked :
  chk (lookup frontend_prog) frontend_fuel false false (any_call frontend_entry_names) = Some frontend_res.
Proof. exact frontend_locked. Qed.
Print Assumptions C15_frontend_locked.

Theorem C15_frontend_init_locked :
  exists r, chk (lookup frontend_prog) frontend_fuel false false (Call frontend_init) = Some r.
Proof. exact frontend_init_locked. Qed.
Print Assumptions C15_frontend_init_locked.

(* --- hence, for the frontend: driver calls never overlap ... --- *)
Theorem C15_driver_calls_never_overlap : forall g,
  mutex_ok None g = true -> dev_ok false g = true ->
  (forall t, thread_trace frontend_env frontend_entry (proj t g)) ->
  forall g1 t m g2 t' e g3, g = g1 ++ (t, DevBegin m) :: g2 ++ (t', e) :: g3 ->
  exclusive_ev e = true ->          (* e: another driver call, device.connect, or a write of self.device *)
  exists m', In (t, DevEnd m') g2.
Proof. exact frontend_no_overlap. Qed.
Print Assumptions C15_driver_calls_never_overlap.

(* --- ... are made by the thread holding the lock, and never on a closed device --- *)
Theorem C15_driver_calls_locked_on_open_device : forall g,
  mutex_ok None g = true -> dev_ok false g = true ->
  (forall t, thread_trace frontend_env frontend_entry (proj t g)) ->
  forall g1 t m g3, g = g1 ++ (t, DevBegin m) :: g3 ->
  owner_after None g1 = Some t /\ dev_after false g1 = true.
Proof. exact frontend_calls_by_owner_on_open_device. Qed.
Print Assumptions C15_driver_calls_locked_on_open_device.

(* --- the full safety predicate (also: connect and device writes only by the owner, never while a
       driver call is in progress; no acquire/release while a driver call is in progress) --- *)
Theorem C15_frontend_safe : forall g,
  mutex_ok None g = true -> dev_ok false g = true ->
  (forall t, thread_trace frontend_env frontend_entry (proj t g)) ->
  excl None false false g = true.
Proof. exact frontend_threads_safe. Qed.
Print Assumptions C15_frontend_safe.

(* --- the reading of `Dev m` as "the driver works in the calling thread between DevBegin and DevEnd"
       is justified for the driver modules regenerated facts: whitelisted imports only, no thread /
       timer / executor / event-loop / signal / exit-hook / finaliser construct anywhere under
       src/nfc/clf/ (policy: Skel/DriverPolicy.v) --- *)
Theorem C15_drivers_synchronous : drivers_ok driver_modules driver_imports driver_flags = true.
Proof. exact drivers_synchronous. Qed.
Print Assumptions C15_drivers_synchronous.

(* --- non-vacuity: two threads calling close() on the fresh frontend, interleaved as the mutex
       allows, satisfy all hypotheses; and the checker does reject an unlocked driver call --- *)
Example C15_nonvacuous :
  let g := [(0, Acq); (1, EvTest false); (0, EvTest false); (0, Rel); (1, Acq); (1, EvTest false); (1, Rel)] in
  mutex_ok None g = true /\ dev_ok false g = true /\
  (forall t, thread_trace frontend_env frontend_entry (proj t g)) /\
  chk (fun _ => None) 10 false false (Seq (IfDev Skip Ret) (Dev "mute")) = None /\
  chk (fun _ => None) 10 false false (WithLock (Dev "mute")) = None /\
  chk (fun _ => None) 10 false false (WithLock (Seq (IfDev Skip Ret) (Seq (Ext "callback") (Dev "mute")))) = None /\
  (exists r, chk (fun _ => None) 10 false false (WithLock (Seq (IfDev Skip Ret) (Dev "mute"))) = Some r) /\
  drivers_ok expected_modules [("acr122.py", "threading")] [] = false /\
  drivers_ok expected_modules [] [("acr122.py", "136", "attribute threading.Timer")] = false /\
  drivers_ok ["acr122.py"] [] [] = false.
Proof.
  cbv zeta. split; [vm_compute; reflexivity|]. split; [vm_compute; reflexivity|]. split.
  - intro t. destruct t as [|[|t]].
    + exact close_trace.
    + (* thread 1 first looks at the device without the lock (as connect() and __str__ do), then closes *)
      exists Norm. change (proj 1 _) with ([EvTest false] ++ [Acq; EvTest false; Rel]).
      apply (XLoopS _ _ _ [EvTest false] _ Abr Norm); [|discriminate|].
      * unfold frontend_entry. cbn [any_call frontend_entry_names].
        do 13 apply XChR. apply XChL. eapply XCall; [vm_compute; reflexivity|].
        apply XIfF. apply XAbr.
      * destruct close_trace as (o & Hx).
        apply (XLoopS _ _ _ [Acq; EvTest false; Rel] [] Norm Norm); [|discriminate|apply XLoop0].
        unfold frontend_entry. cbn [any_call frontend_entry_names].
        apply XChR, XChL. eapply XCall; [vm_compute; reflexivity|].
        apply (XWith _ _ _ [EvTest false] Norm); [|discriminate]. apply XIfF. apply XSkip.
    + exists Norm. apply XLoop0.
  - repeat split; try (vm_compute; reflexivity). eexists. vm_compute. reflexivity.
Qed.
