(* C06 - SNEP and handover carry NDEF messages intact through fragmentation.
   Only statements here; proofs are in Proofs/SnepChunks.v, Proofs/SnepSched.v, Proofs/Snep.v,
   Proofs/SnepHo.v.  The model (Model/Snep.v) is the two-peer system: the client functions
   (send_request / recv_response / put_octets / get_octets, send_octets / recv_octets) and the
   server loops (SnepServer._serve + process_snep_request, HandoverServer.serve) as automata,
   coupled by a reliable ordered channel with a maximum message size per direction.  The
   channel is abstract: any implementation C of the queue operations with the FIFO laws
   chan_ok C.  An interleaving is a list of choices "deliver the oldest message in transit
   to the client / to the server"; the theorems hold for every interleaving.
   ndeflib is an oracle: decodable / complete / is_hr are arbitrary predicates.
   This is the fragmentation / reassembly part of C06 over an ideal channel; the claim down to
   radio frames is its composition with the theorems of C04 / C05 / C10. *)
From Coq Require Import ZArith List Bool.
From NV Require Import Base.Result Base.Bytes Base.PyPrims Model.Snep
  Proofs.SnepChunks Proofs.SnepSched Proofs.Snep Proofs.SnepHo Proofs.SnepApi Gen.SnepK Bridge.Snep.
Import ListNotations.
Open Scope Z_scope.

(* what "ends in" says: whatever deliveries have happened so far (sch), the run can be
   completed (sch'), every complete run has the same number n of deliveries, and at its end
   nothing is in transit, no send exceeded the MIU, the client has finished with exactly the
   given results, and the server loop has ended (after the client's disconnect) with exactly
   the given callback log and application state *)
Theorem C06_ends_in_meaning :
  forall A app_put app_get decodable complete miu_cs miu_sc max_acc
         (C : chan_ops) (Cok : chan_ok C) a ops results a' log,
  snep_ends_in A app_put app_get decodable complete miu_cs miu_sc max_acc C Cok a ops results a' log <->
  exists n, forall sch g,
    snep_run A app_put app_get decodable complete C miu_cs miu_sc max_acc sch
      (snep_init A C miu_cs a ops) = Some g ->
    exists sch' g', (length sch + length sch' = n)%nat /\
      snep_run A app_put app_get decodable complete C miu_cs miu_sc max_acc sch' g = Some g' /\
      g_c g' = {| c_cur := CIdle; c_pending := []; c_results := results |} /\
      g_s g' = {| sv_st := SClosed; sv_app := a'; sv_log := log |} /\
      qlist C Cok (g_cs g') = [] /\ qlist C Cok (g_sc g') = [] /\ g_err g' = false.
Proof. intros. reflexivity. Qed.
Print Assumptions C06_ends_in_meaning.

(* --- put: the server application receives exactly the message, exactly once; the client gets
   Success; for every message size and all MIUs (the proof needs only MIU >= 6; LLCP gives >= 128) *)
Theorem C06_snep_put_exact :
  forall A app_put app_get decodable complete miu_cs miu_sc max_acc,
  6 <= miu_cs -> 6 <= miu_sc ->
  forall (C : chan_ops) (Cok : chan_ok C) a msg,
  len msg <= 4294967295 -> len msg <= max_acc -> decodable msg = true -> snd (app_put a msg) = 129 ->
  snep_ends_in A app_put app_get decodable complete miu_cs miu_sc max_acc C Cok
    a [OpPut msg] [RBool true] (fst (app_put a msg)) [CallPut msg].
Proof. exact snep_put_exact. Qed.
Print Assumptions C06_snep_put_exact.

(* --- get: request and response both fragmented arbitrarily *)
Theorem C06_snep_get_exact :
  forall A app_put app_get decodable complete miu_cs miu_sc max_acc,
  6 <= miu_cs -> 6 <= miu_sc ->
  forall (C : chan_ops) (Cok : chan_ok C) a octets acc rsp,
  0 <= acc <= 4294967295 -> 4 + len octets <= 4294967295 -> 4 + len octets <= max_acc ->
  decodable octets = true -> snd (app_get a octets) = GMsg rsp -> len rsp <= acc ->
  snep_ends_in A app_put app_get decodable complete miu_cs miu_sc max_acc C Cok
    a [OpGet octets acc] [ROctets rsp] (fst (app_get a octets)) [CallGet octets].
Proof. exact snep_get_exact. Qed.
Print Assumptions C06_snep_get_exact.

(* --- a message longer than the server's acceptable length is refused with Reject (the client
   raises SnepError(0xFF), or - when it was waiting for Continue - returns False / None), the
   callback is never invoked, the application state is untouched *)
Theorem C06_snep_excess_refused :
  forall A app_put app_get decodable complete miu_cs miu_sc max_acc,
  6 <= miu_cs -> 6 <= miu_sc ->
  forall (C : chan_ops) (Cok : chan_ok C) a msg,
  len msg <= 4294967295 -> max_acc < len msg ->
  snep_ends_in A app_put app_get decodable complete miu_cs miu_sc max_acc C Cok
    a [OpPut msg] [if 6 + len msg <=? miu_cs then RSnepError 255 else RBool false] a [].
Proof. exact snep_excess_refused_put. Qed.
Print Assumptions C06_snep_excess_refused.

Theorem C06_snep_excess_refused_get :
  forall A app_put app_get decodable complete miu_cs miu_sc max_acc,
  6 <= miu_cs -> 6 <= miu_sc ->
  forall (C : chan_ops) (Cok : chan_ok C) a octets acc,
  0 <= acc <= 4294967295 -> 4 + len octets <= 4294967295 -> max_acc < 4 + len octets ->
  snep_ends_in A app_put app_get decodable complete miu_cs miu_sc max_acc C Cok
    a [OpGet octets acc] [if 10 + len octets <=? miu_cs then RSnepError 255 else RNone] a [].
Proof. exact snep_excess_refused_get. Qed.
Print Assumptions C06_snep_excess_refused_get.

(* --- a response longer than the client's acceptable length: ExcessData, nothing of it returned *)
Theorem C06_snep_excess_response_refused :
  forall A app_put app_get decodable complete miu_cs miu_sc max_acc,
  6 <= miu_cs -> 6 <= miu_sc ->
  forall (C : chan_ops) (Cok : chan_ok C) a octets acc rsp,
  0 <= acc <= 4294967295 -> 4 + len octets <= 4294967295 -> 4 + len octets <= max_acc ->
  decodable octets = true -> snd (app_get a octets) = GMsg rsp -> acc < len rsp ->
  snep_ends_in A app_put app_get decodable complete miu_cs miu_sc max_acc C Cok
    a [OpGet octets acc] [RSnepError 193] (fst (app_get a octets)) [CallGet octets].
Proof. exact snep_excess_refused_response. Qed.
Print Assumptions C06_snep_excess_response_refused.

(* --- any number of put / get operations on one connection (accepted ones delivered exactly once
   and in order, refused ones not at all); session_ok / session_results / session_log are the
   recursive reading of the above over the list of operations *)
Theorem C06_snep_session_exact :
  forall A app_put app_get decodable complete miu_cs miu_sc max_acc,
  6 <= miu_cs -> 6 <= miu_sc ->
  forall (C : chan_ops) (Cok : chan_ok C) a ops,
  session_ok A app_put app_get decodable max_acc a ops ->
  snep_ends_in A app_put app_get decodable complete miu_cs miu_sc max_acc C Cok a ops
    (session_results A app_put app_get miu_cs max_acc a ops) (session_app A app_put app_get max_acc a ops)
    (session_log A app_put app_get max_acc a ops).
Proof. exact snep_session_exact. Qed.
Print Assumptions C06_snep_session_exact.

(* --- the connection breaks while a put request is being reassembled: no callback for the part *)
Theorem C06_snep_broken_transfer_no_callback :
  forall A app_put app_get decodable miu_sc max_acc a log L part, decodable part = false ->
  let r := snep_sys_react A app_put app_get decodable miu_sc max_acc
             {| sv_st := SMore ([16; 2; L / 16777216 mod 256; L / 65536 mod 256; L / 256 mod 256; L mod 256] ++ part) L;
                sv_app := a; sv_log := log |} IClosed in
  sv_log (fst r) = log /\ sv_app (fst r) = a /\ snd r = [].
Proof. exact snep_broken_transfer_no_callback. Qed.
Print Assumptions C06_snep_broken_transfer_no_callback.

(* --- handover: request to the server application exactly once, select message back to the client,
   both octet for octet, for all sizes and MIUs >= 1; premise on the decoder: no non-empty proper
   prefix of a complete message is complete (prefix_free) *)
Theorem C06_handover_exact :
  forall A app_ho complete is_hr miu_cs miu_sc, 1 <= miu_cs -> 1 <= miu_sc ->
  forall (C : chan_ops) (Cok : chan_ok C) a req,
  req <> [] -> prefix_free complete req -> complete req = true -> is_hr req = true ->
  snd (app_ho a req) <> [] -> prefix_free complete (snd (app_ho a req)) ->
  complete (snd (app_ho a req)) = true ->
  ho_ends_in A app_ho complete is_hr miu_cs miu_sc C Cok a
    [OpHo req] [ROctets (snd (app_ho a req))] (fst (app_ho a req)) [CallHo req].
Proof. exact handover_exact. Qed.
Print Assumptions C06_handover_exact.

Theorem C06_handover_session_exact :
  forall A app_ho complete is_hr miu_cs miu_sc, 1 <= miu_cs -> 1 <= miu_sc ->
  forall (C : chan_ops) (Cok : chan_ok C) a ops,
  ho_session_ok A app_ho complete is_hr a ops ->
  ho_ends_in A app_ho complete is_hr miu_cs miu_sc C Cok a ops
    (ho_results A app_ho a ops) (ho_app A app_ho a ops) (ho_log A app_ho a ops).
Proof. exact handover_session_exact. Qed.
Print Assumptions C06_handover_session_exact.

(* --- one SnepClient object: an explicit session connect(s); requests; close() puts exactly these
   requests on one connection to s - after ANY earlier history of the object (any value of its
   release_connection flag, with or without a connection still open); a request without a
   connection gets its own connection to the default server *)
Theorem C06_client_session_routed : forall c s ops,
  snd (api_run c (ApiConnect s :: map ApiRequest ops ++ [ApiClose])) =
  snd (api_close c) ++ ActConnect s :: map ActRequest ops ++ [ActClose] /\
  o_sock (fst (api_run c (ApiConnect s :: map ApiRequest ops ++ [ApiClose]))) = None.
Proof. exact api_session_routed. Qed.
Print Assumptions C06_client_session_routed.
Theorem C06_client_oneshot_routed : forall rel op,
  api_step {| o_sock := None; o_release := rel |} (ApiRequest op) =
  ({| o_sock := None; o_release := true |}, [ActConnect DEFAULT_SERVICE; ActRequest op; ActClose]).
Proof. exact api_oneshot_routed. Qed.
Print Assumptions C06_client_oneshot_routed.

(* the code before the repair fixes/c06-handover-server-request-reset.diff (reset = false) does
   not have this property: the second request on a connection is not delivered intact *)
Theorem C06_handover_unrepaired_refuted :
  let g := run_cp csess (hsrv nat) (cl_react w_complete 128)
             (ho_sys_react nat w_app w_complete (fun _ => true) 128 false) list_chan 128 128 20
             (ho_init nat list_chan 128 O [OpHo [1; 2; 3]; OpHo [4; 5; 6]]) in
  hv_log (g_s g) = [CallHo [1; 2; 3]; CallHo [1; 2; 3; 4; 5; 6]] /\
  hv_log (g_s g) <> [CallHo [1; 2; 3]; CallHo [4; 5; 6]].
Proof. exact handover_unrepaired_refuted. Qed.
Print Assumptions C06_handover_unrepaired_refuted.

(* --- the list channel is a channel; the executable client-first schedule is one interleaving *)
Theorem C06_list_channel_ok : exists Cok : chan_ok list_chan, forall q, qlist list_chan Cok q = q.
Proof. exact list_chan_ok_ex. Qed.
Print Assumptions C06_list_channel_ok.

Theorem C06_snep_executable_run_ends :
  forall A app_put app_get decodable complete miu_cs miu_sc max_acc,
  6 <= miu_cs -> 6 <= miu_sc -> forall a ops, session_ok A app_put app_get decodable max_acc a ops ->
  exists n, forall k, (n <= k)%nat ->
    run_cp csess (srv A) (cl_react complete miu_cs)
      (snep_sys_react A app_put app_get decodable miu_sc max_acc) list_chan miu_cs miu_sc k
      (snep_init A list_chan miu_cs a ops) =
    final A (session_results A app_put app_get miu_cs max_acc a ops) (session_app A app_put app_get max_acc a ops)
      (session_log A app_put app_get max_acc a ops).
Proof. exact snep_run_cp_ends. Qed.
Print Assumptions C06_snep_executable_run_ends.


(* ======================================================================================
   Translation tie: Gen/SnepK.v is regenerated on every run from src/nfc/snep/{client,server}.py
   and src/nfc/handover/{client,server}.py (translate/kspec_c06.py cuts the header pack/unpack,
   the size tests, the slices and range() bounds of the fragment loops, the protocol constants
   and the socket option out of the functions' syntax trees).  The theorems below state that
   the model computes with exactly these expressions: each rewrites a model function with the
   generated kernels gen_c06_* in the place of the model's own arithmetic.
   pyrange a b s is Python's range(a, b, s) for a positive step. *)
Theorem C06_bridge_constants :
  gen_c06_rsp_continue = RSP_CONTINUE /\ gen_c06_srv_rsp_continue = RSP_CONTINUE /\
  gen_c06_req_continue = REQ_CONTINUE /\ gen_c06_srv_req_continue = REQ_CONTINUE /\
  gen_c06_rsp_reject = RSP_REJECT /\ gen_c06_rsp_unsupver = RSP_UNSUPVER.
Proof. exact bridge_constants. Qed.
Print Assumptions C06_bridge_constants.

(* every sender reads its fragment size with getsockopt(nfc.llcp.SO_SNDMIU) *)
Theorem C06_bridge_socket_options :
  gen_c06_SO_SNDMIU = SO_SNDMIU /\ gen_c06_SO_RCVMIU = SO_RCVMIU /\
  gen_c06_opt_snep_client = fragment_size_option /\ gen_c06_opt_snep_server = fragment_size_option /\
  gen_c06_opt_ho_client = fragment_size_option /\ gen_c06_opt_ho_server = fragment_size_option /\
  forall send_miu recv_miu, getsockopt send_miu recv_miu gen_c06_opt_ho_client = send_miu.
Proof. exact bridge_socket_options. Qed.
Print Assumptions C06_bridge_socket_options.

(* put_octets / get_octets: struct.pack('>BBL', 0x10, 0x02, len) + octets, '>BBLL' ... *)
Theorem C06_bridge_put_request : forall o, len o <= 4294967295 -> snep_request (OpPut o) = Ok (gen_c06_put_request o).
Proof. exact bridge_put_request. Qed.
Print Assumptions C06_bridge_put_request.
Theorem C06_bridge_get_request : forall o acc, 4 + len o <= 4294967295 -> 0 <= acc <= 4294967295 ->
  snep_request (OpGet o acc) = Ok (gen_c06_get_request o acc).
Proof. exact bridge_get_request. Qed.
Print Assumptions C06_bridge_get_request.
Theorem C06_bridge_put_acceptable : forall miu o req, snep_request (OpPut o) = Ok req ->
  client_start miu (OpPut o) = send_request miu KPut gen_c06_put_acceptable req.
Proof. exact bridge_put_acceptable. Qed.
Print Assumptions C06_bridge_put_acceptable.

(* send_request: len(req) <= send_miu / req[0:send_miu] / range(send_miu, len(req), send_miu) / req[offset:offset+send_miu] *)
Theorem C06_bridge_send_request : forall miu k acc req, 1 <= miu ->
  send_request miu k acc req =
  if gen_c06_req_whole req miu then (CAwaitResp k acc, [req])
  else (CAwaitCont k acc (map (fun offset => gen_c06_req_fragment req offset miu)
                              (pyrange (gen_c06_req_range_start req miu) (gen_c06_req_range_stop req miu)
                                       (gen_c06_req_range_step req miu))),
        [gen_c06_req_first req miu]).
Proof. exact bridge_send_request. Qed.
Print Assumptions C06_bridge_send_request.
Theorem C06_bridge_continue_test : forall complete k acc rest m,
  client_react complete (CAwaitCont k acc rest) (IMsg m) =
  if negb (list_eqb m gen_c06_rsp_continue) then (CDone (send_failed k), []) else (CAwaitResp k acc, rest).
Proof. exact bridge_continue_test. Qed.
Print Assumptions C06_bridge_continue_test.

(* recv_response: len < 6 / unpack('>BBL') length / length > acceptable_length / len - 6 < length *)
Theorem C06_bridge_recv_first : forall k acc m,
  recv_first k acc m =
  if gen_c06_rsp_short m then (CDone (resp_none k), [])
  else let length := gen_c06_rsp_length m in
       if gen_c06_rsp_excess length acc then (CDone (resp_none k), [])
       else if gen_c06_rsp_more m length then (CMoreResp k m length, [gen_c06_req_continue])
       else (CDone (finish k m), []).
Proof. exact bridge_recv_first. Qed.
Print Assumptions C06_bridge_recv_first.
Theorem C06_bridge_more_response : forall complete k data length m,
  client_react complete (CMoreResp k data length) (IMsg m) =
  if gen_c06_rsp_more (data ++ m) length then (CMoreResp k (data ++ m) length, [])
  else (CDone (finish k (data ++ m)), []).
Proof. exact bridge_more_response. Qed.
Print Assumptions C06_bridge_more_response.
Theorem C06_bridge_finish : forall k x code r,
  finish k (x :: code :: r) =
  if gen_c06_status_fail (x :: code :: r) then RSnepError code
  else match k with KPut => RBool true | KGet => ROctets (gen_c06_get_result (x :: code :: r)) end.
Proof. exact bridge_finish. Qed.
Print Assumptions C06_bridge_finish.

(* SnepServer._serve: the same tests on the request ... *)
Theorem C06_bridge_serve_first : forall A app_put app_get decodable max_acc miu (s : srv A) m, sv_st s = SPoll ->
  snep_react A app_put app_get decodable max_acc miu s (IMsg m) =
  if gen_c06_srv_short m then (set_st A s SClosed, [])
  else let version := gen_c06_srv_version m in
       let length := gen_c06_srv_length m in
       if gen_c06_srv_badver version then (s, [gen_c06_rsp_unsupver])
       else if gen_c06_srv_excess length max_acc then (s, [gen_c06_rsp_reject])
       else if gen_c06_srv_more m length then (set_st A s (SMore m length), [gen_c06_srv_rsp_continue])
       else respond A app_put app_get decodable miu s m.
Proof. exact bridge_serve_first. Qed.
Print Assumptions C06_bridge_serve_first.
Theorem C06_bridge_serve_more : forall A app_put app_get decodable max_acc miu (s : srv A) data length m,
  sv_st s = SMore data length ->
  snep_react A app_put app_get decodable max_acc miu s (IMsg m) =
  if gen_c06_srv_more (data ++ m) length then (set_st A s (SMore (data ++ m) length), [])
  else respond A app_put app_get decodable miu s (data ++ m).
Proof. exact bridge_serve_more. Qed.
Print Assumptions C06_bridge_serve_more.
Theorem C06_bridge_serve_continue : forall A app_put app_get decodable max_acc miu (s : srv A) rest m,
  sv_st s = SAwaitCont rest ->
  snep_react A app_put app_get decodable max_acc miu s (IMsg m) =
  if list_eqb m gen_c06_srv_req_continue then (set_st A s SPoll, rest) else (set_st A s SPoll, []).
Proof. exact bridge_serve_continue. Qed.
Print Assumptions C06_bridge_serve_continue.
(* ... and the response: whole iff len(data) <= send_miu, else data[0:send_miu], then the range() slices *)
Theorem C06_bridge_respond : forall A app_put app_get decodable miu (s : srv A) data a log resp, 1 <= miu ->
  process_snep_request A app_put app_get decodable (sv_app s) (sv_log s) data = (a, log, Ok resp) ->
  respond A app_put app_get decodable miu s data =
  if gen_c06_srv_rsp_whole resp miu then ({| sv_st := SPoll; sv_app := a; sv_log := log |}, [resp])
  else ({| sv_st := SAwaitCont (map (fun offset => gen_c06_srv_fragment resp offset miu)
                                    (pyrange (gen_c06_srv_range_start resp miu) (gen_c06_srv_range_stop resp miu)
                                             (gen_c06_srv_range_step resp miu)));
           sv_app := a; sv_log := log |},
        [gen_c06_srv_rsp_first resp miu]).
Proof. exact bridge_respond. Qed.
Print Assumptions C06_bridge_respond.
Theorem C06_bridge_response : forall code data, 0 <= code < 256 -> len data <= 4294967295 ->
  mk_response code data = Ok (gen_c06_response code data).
Proof. exact bridge_response. Qed.
Print Assumptions C06_bridge_response.

(* process_snep_request: request_data[1] == 1 and len(request_data) >= 10, unpack('>L', request_data[6:10]),
   request_data[10:], request_data[1] == 2, request_data[6:], len(response_data) > acceptable_length *)
Theorem C06_bridge_process : forall A app_put app_get decodable a log data, 6 <= len data ->
  process_snep_request A app_put app_get decodable a log data =
  if gen_c06_is_get data then
    let acceptable := gen_c06_get_acceptable data in
    let octets := gen_c06_get_octets data in
    if decodable octets then
      let ar := app_get a octets in
      let cd := match snd ar with
                | GCode c => (c, [])
                | GMsg o => if gen_c06_rsp_data_excess o acceptable then (193, []) else (129, o)
                | GEncodeError => (192, [])
                end in
      (fst ar, log ++ [CallGet octets], mk_response (fst cd) (snd cd))
    else (a, log, mk_response 194 [])
  else if gen_c06_is_put data then
    let octets := gen_c06_put_octets data in
    if decodable octets then
      let ar := app_put a octets in (fst ar, log ++ [CallPut octets], mk_response (snd ar) [])
    else (a, log, mk_response 194 [])
  else (a, log, mk_response 194 []).
Proof. exact bridge_process. Qed.
Print Assumptions C06_bridge_process.

(* handover: send_octets loop (len(octets) > 0, octets[0:miu], octets[miu:]) and the server's
   range(0, len(response), send_miu) slices; len(request) == 0 *)
Theorem C06_bridge_ho_client : forall miu o, 0 <= miu ->
  client_start miu (OpHo o) = (CHoRecv [], ho_send_loop (length o) miu o) /\ gen_c06_ho_sent_all [] = true.
Proof. exact bridge_ho_client. Qed.
Print Assumptions C06_bridge_ho_client.
Theorem C06_bridge_ho_server_fragments : forall miu response, 1 <= miu ->
  chunks miu response =
  map (fun offset => gen_c06_ho_fragment response offset miu)
      (pyrange (gen_c06_ho_range_start response miu) (gen_c06_ho_range_stop response miu)
               (gen_c06_ho_range_step response miu)).
Proof. exact bridge_ho_server_fragments. Qed.
Print Assumptions C06_bridge_ho_server_fragments.
Theorem C06_bridge_ho_serve : forall A app_ho complete is_hr miu reset (s : hsrv A) request m, hv_st s = HAccum request ->
  ho_react A app_ho complete is_hr miu reset s (IMsg m) =
  let request' := request ++ m in
  if gen_c06_ho_empty request' then (s, [])
  else if complete request' then
    match ho_process A app_ho is_hr (hv_app s) (hv_log s) request' with
    | (a, log, response) =>
        ({| hv_st := HAccum (if reset then [] else request'); hv_app := a; hv_log := log |}, chunks miu response)
    end
  else ({| hv_st := HAccum request'; hv_app := hv_app s; hv_log := hv_log s |}, []).
Proof. exact bridge_ho_serve. Qed.
Print Assumptions C06_bridge_ho_serve.


(* non-vacuity: a 300 octet message through MIU 128 (three request fragments), acceptable
   length 300; a 300 octet handover request with a decoder that accepts exactly that message *)
Example C06_nonvacuous :
  let msg := repeat 7 300 in
  let put := fun (a : nat) (_ : list Z) => (S a, 129) in
  let get := fun (a : nat) (_ : list Z) => (a, GCode 224) in
  (6 <= 128 /\ len msg <= 4294967295 /\ len msg <= 300 /\ snd (put O msg) = 129) /\
  (let g := run_cp csess (srv nat) (cl_react (fun _ => false) 128)
              (snep_sys_react nat put get (fun _ => true) 128 300) list_chan 128 128 10
              (snep_init nat list_chan 128 O [OpPut msg]) in
   c_results (g_c g) = [RBool true] /\ sv_log (g_s g) = [CallPut msg] /\ sv_app (g_s g) = 1%nat /\
   sv_st (g_s g) = SClosed /\ g_cs g = [] /\ g_sc g = [] /\ g_err g = false) /\
  prefix_free (fun l => list_eqb l msg) msg.
Proof.
  split; [|split].
  - vm_compute. repeat split; discriminate.
  - vm_compute. repeat split.
  - apply prefix_free_exact.
Qed.
