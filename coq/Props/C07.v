(* C07 - Bytes from the remote peer cannot crash or hang the stack.
   Only statements here; proofs are in Proofs/Robust*.v (and Proofs/PduTotal.v of C11 for pdu.decode).
   Results are `res`: Ok value | Err <documented exception class> | Crash <any other exception> | Hang (the thread
   would wait for ever).  Every theorem says: for ALL bytes the result is Ok or a documented Err - never Crash, never Hang.
   The models are of the repaired code (fixes/c07-1..8); the `C07_orig_*` lemmas are the defects of the code as it was,
   as concrete witnesses. *)
From Coq Require Import ZArith List Bool.
From NV Require Import Base.Result Base.Bytes Model.Pdu Model.DepDecode Model.T3Emu Model.Pax Model.Dispatch Model.SnepHdr
  Proofs.PduTotal Proofs.RobustDep Proofs.RobustPax Proofs.RobustT3 Proofs.RobustDispatch Proofs.RobustSnep.
Import ListNotations.
Open Scope Z_scope.

(* --- NFC-DEP: decode_frame of Initiator and Target, 106A (F0 start byte) and 212F/424F, every byte string:
       a PDU object, ProtocolError or TransmissionError --- *)
Theorem C07_dep_decode_total : forall (r : role) (b106 : bool) (frame : list Z),
  (exists p, decode_frame r b106 frame = Ok (Some p)) \/
  decode_frame r b106 frame = Err ProtocolError \/ decode_frame r b106 frame = Err TransmissionError.
Proof. exact dep_decode_total. Qed.
Print Assumptions C07_dep_decode_total.
(* the start byte, length byte and minimum length rules *)
Theorem C07_dep_start_byte : forall r frame x, x <> 240 -> decode_frame r true (x :: frame) = Err ProtocolError.
Proof. exact dep_start_byte. Qed.
Print Assumptions C07_dep_start_byte.
Theorem C07_dep_length_byte : forall r l body, l <> 1 + len body -> decode_frame r false (l :: body) = Err ProtocolError.
Proof. exact dep_length_byte. Qed.
Print Assumptions C07_dep_length_byte.
Theorem C07_dep_short_frame : forall r l body, l = 1 + len body -> len body < 2 ->
  decode_frame r false (l :: body) = Err TransmissionError.
Proof. exact dep_short_frame. Qed.
Print Assumptions C07_dep_short_frame.
(* the value byte of a timeout extension response: a value in 1..59 or ProtocolError *)
Theorem C07_dep_rtox_total : forall d, (exists v, rtox_value d = Ok v /\ 0 < v < 60) \/ rtox_value d = Err ProtocolError.
Proof. exact rtox_total. Qed.
Print Assumptions C07_dep_rtox_total.

(* --- LLCP: pdu.decode returns a PDU or DecodeError for every byte string (C11's theorem restated; in particular no
       RecursionError for any nesting of aggregated frames) --- *)
Theorem C07_pdu_decode_total : forall data, bytes_ok data ->
  (exists p, decode data 0 (len data) = Ok p) \/ decode data 0 (len data) = Err DecodeError.
Proof. intros data H. apply decode_total; [discriminate | exact H]. Qed.
Print Assumptions C07_pdu_decode_total.

(* --- activation with arbitrary general bytes returns a bool --- *)
Theorem C07_pax_total : forall sec gb, (forall g, gb = Some g -> bytes_ok g) ->
  activate_gb sec gb = Ok (false, None) \/ exists cfg, activate_gb sec gb = Ok (true, Some cfg).
Proof. exact pax_total. Qed.
Print Assumptions C07_pax_total.
Theorem C07_pax_cfg_ranges : forall sec gb cfg, activate_gb sec gb = Ok (true, Some cfg) ->
  0 <= send_lsc cfg < 4 /\ 0 <= llcp_dpc cfg < 2.
Proof. exact pax_cfg_ranges. Qed.
Print Assumptions C07_pax_cfg_ranges.

(* --- dispatch of every PDU the decoder can produce, in every well-formed controller state: a new well-formed state;
       no exception, and no blocking call in the link thread --- *)
Theorem C07_dispatch_total : forall st p, wf st -> pdu_ok p -> exists st', dispatch false st p = Ok st' /\ wf st'.
Proof. exact dispatch_total. Qed.
Print Assumptions C07_dispatch_total.
Theorem C07_decoded_pdu_ok : forall data p, bytes_ok data -> decode data 0 (len data) = Ok p -> pdu_ok p.
Proof. intros data p Hb Hd. apply valid_pdu_ok. eapply decode_valid; [|exact Hb|exact Hd]. discriminate. Qed.
Print Assumptions C07_decoded_pdu_ok.
(* ... from the bytes: one round of the run loop either dispatches or ends the link in an orderly way *)
Theorem C07_receive_total : forall st data, wf st -> bytes_ok data ->
  receive false st data = Ok LinkDisrupted \/ exists st', receive false st data = Ok (Dispatched st') /\ wf st'.
Proof. exact receive_total. Qed.
Print Assumptions C07_receive_total.

(* --- emulated Type 3 Tag: process_command returns None or a response for every command.  The hypotheses concern the
       local configuration only (8-byte IDm/PMm, 2-byte system code, block read function returns at most 16 bytes) --- *)
Theorem C07_tt3emu_total : forall idm pmm sys svcs rdf wrf, len idm = 8 -> len pmm = 8 -> len sys = 2 ->
  (forall sc bn rb re d, rdf sc bn rb re = Some d -> len d <= 16) ->
  forall cmd, process_command idm pmm sys svcs rdf wrf cmd = Ok None \/
              exists rsp, process_command idm pmm sys svcs rdf wrf cmd = Ok (Some rsp).
Proof. exact tt3emu_total. Qed.
Print Assumptions C07_tt3emu_total.
Theorem C07_tt3emu_length_rule : forall idm pmm sys svcs rdf wrf c0 t, c0 <> 1 + len t ->
  process_command idm pmm sys svcs rdf wrf (c0 :: t) = Ok None.
Proof. exact tt3emu_length_rule. Qed.
Print Assumptions C07_tt3emu_length_rule.

(* --- SNEP / handover: whatever the fragments are and whatever ndeflib makes of the octets (records, DecodeError, or the
       ValueError it raises for a malformed TYPE field - `nd` is an arbitrary function), a serving thread sends 6-byte
       response headers and goes on, returns, or waits for the peer; no exception escapes it --- *)
Theorem C07_snep_header_total : forall nd max_len script st, snep_inv st ->
  exists sends o, snep_serve nd false max_len st script = Ok (sends, o).
Proof. exact snep_header_total. Qed.
Print Assumptions C07_snep_header_total.
Theorem C07_snep_step_total : forall nd max_len st a, snep_inv st ->
  exists sends nx, snep_step nd false max_len st a = Ok (sends, nx) /\
                   match nx with Continue st' => snep_inv st' | Return => True end.
Proof. exact snep_step_total. Qed.
Print Assumptions C07_snep_step_total.
Theorem C07_snep_sends_headers : forall nd max_len st a sends nx, snep_inv st ->
  snep_step nd false max_len st a = Ok (sends, nx) -> Forall (fun m => len m = 6) sends.
Proof. exact snep_sends_headers. Qed.
Print Assumptions C07_snep_sends_headers.
Theorem C07_snep_client_total : forall acceptable st a, exists sends nx r, client_step acceptable st a = Ok (sends, nx, r).
Proof. exact snep_client_total. Qed.
Print Assumptions C07_snep_client_total.
Theorem C07_handover_serve_total : forall nd hs send_miu reset script request,
  exists sends o, ho_serve nd false hs send_miu reset request script = Ok (sends, o).
Proof. exact handover_serve_total. Qed.
Print Assumptions C07_handover_serve_total.
Theorem C07_handover_client_total : forall nd octets a, exists nx r, hc_step nd false octets a = Ok (nx, r).
Proof. exact handover_client_total. Qed.
Print Assumptions C07_handover_client_total.

(* --- the code as it was (each of these inputs was found by the check on the unrepaired tree) --- *)
Theorem C07_orig_dep_empty_frame : decode_frame_orig Ini false [] = Crash IndexErr /\ decode_frame_orig Tgt true [240] = Crash IndexErr.
Proof. split; [apply orig_empty_frame | apply orig_start_byte_only]. Qed.
Print Assumptions C07_orig_dep_empty_frame.
Theorem C07_orig_dep_short_atr : decode_frame_orig Ini true [240; 3; 213; 1] = Crash ValueErr /\
                                 decode_frame_orig Tgt false [3; 212; 0] = Crash ValueErr.
Proof. split; [exact orig_short_atr_res | exact orig_short_atr_req]. Qed.
Print Assumptions C07_orig_dep_short_atr.
Theorem C07_orig_rtox_no_value : rtox_value_orig [] = Crash IndexErr.
Proof. exact orig_rtox_no_value. Qed.
Print Assumptions C07_orig_rtox_no_value.
Theorem C07_orig_general_bytes : activate_gb_orig false (Some [70; 102; 109; 1; 1; 19; 2; 2]) = Err DecodeError.
Proof. exact orig_truncated_miux. Qed.
Print Assumptions C07_orig_general_bytes.
Theorem C07_orig_tt3_short_read :
  ex_process [2;254;1;2;3;4;5;6] [255;255;255;255;255;255;255;255] [18;252] 12 true [10;6;2;254;1;2;3;4;5;6] = Crash IndexErr.
Proof. exact orig_short_read. Qed.
Print Assumptions C07_orig_tt3_short_read.
Theorem C07_orig_ui_to_dlc_hangs : wf ex_llc /\ pdu_ok (UI 32 16 [1]) /\ dispatch true ex_llc (UI 32 16 [1]) = Hang.
Proof. split; [exact ex_llc_wf|]. split; [cbn; split; [discriminate | reflexivity] | exact orig_ui_to_dlc_hangs]. Qed.
Print Assumptions C07_orig_ui_to_dlc_hangs.

Theorem C07_orig_snep_put_bad_type :
  snep_serve nd_value_error true 1048576 Idle [Frag [16; 2; 0; 0; 0; 4; 210; 1; 0; 128]; Closed] = Crash ValueErr /\
  ho_serve nd_value_error true [209;2;1;72;115;18] 128 false [] [Frag [210; 1; 0; 128]; Closed] = Crash ValueErr.
Proof. split; [exact orig_snep_put_bad_type | exact orig_handover_bad_type]. Qed.
Print Assumptions C07_orig_snep_put_bad_type.

(* --- non-vacuity: the hypotheses are met by concrete values and the decoders do accept well-formed input --- *)
Example C07_nonvacuous :
  wf ex_llc /\
  (exists p, decode_frame Ini true [240; 6; 213; 7; 0; 1; 2] = Ok (Some p)) /\
  (exists cfg, activate_gb false (Some [70; 102; 109; 1; 1; 19; 2; 2; 0; 120]) = Ok (true, Some cfg)) /\
  (exists rsp, ex_process [2;254;1;2;3;4;5;6] [255;255;255;255;255;255;255;255] [18;252] 12 false
                 [16;6;2;254;1;2;3;4;5;6;1;11;0;1;128;0] = Ok (Some rsp)) /\
  (exists st', receive false ex_llc [129; 132; 0] = Ok (Dispatched st')).
Proof.
  split; [exact ex_llc_wf|]. split; [eexists; vm_compute; reflexivity|]. split; [eexists; vm_compute; reflexivity|].
  split; eexists; vm_compute; reflexivity.
Qed.
