(* C07 - Bytes from the remote peer cannot crash or hang the stack.
   Only statements here; proofs are in Proofs/Robust*.v (and Proofs/PduTotal.v of C11 for pdu.decode).
   Results are `res`: Ok value | Err <documented exception class> | Crash <any other exception> | Hang (the thread
   would wait for ever).  Every theorem says: for ALL bytes the result is Ok or a documented Err - never Crash, never Hang.
   The models are of the repaired code (fixes/c07-1..8); the `C07_orig_*` lemmas are the defects of the code as it was,
   as concrete witnesses. *)
From Coq Require Import ZArith List Bool.
From NV Require Import Base.Result Base.Bytes Model.Pdu Model.DepDecode Model.T3Emu Model.Pax Model.Dispatch Model.SnepHdr
  Proofs.PduTotal Proofs.RobustDep Proofs.RobustPax Proofs.RobustT3 Proofs.RobustDispatch Proofs.RobustSnep Model.DepAny Proofs.RobustDepX
  Base.PyPrims Gen.RobustK Gen.SnepK Gen.DepK Bridge.Robust.
Import ListNotations.
Open Scope Z_scope.

(* --- NFC-DEP: decode_frame of Initiator and Target, 106A (F0 start byte) and 212F/424F, every byte string:
       a PDU object, ProtocolError or TransmissionError --- *)
Theorem C07_dep_decode_total : forall (r : role) (b106 : bool) (frame : list Z),
  (exists p, decode_frame r b106 frame = Ok (Some p)) \/
  decode_frame r b106 frame = Err ProtocolError \/ decode_frame r b106 frame = Err TransmissionError.
Proof. exact dep_decode_total. Qed.
Print Assumptions C07_dep_decode_total.
(* the start byte, length byte and minimum length rules *)
Theorem C07_dep_start_byte : forall r frame x, x <> 240 -> decode_frame r true (x :: frame) = Err ProtocolError.
Proof. exact dep_start_byte. Qed.
Print Assumptions C07_dep_start_byte.
Theorem C07_dep_length_byte : forall r l body, l <> 1 + len body -> decode_frame r false (l :: body) = Err ProtocolError.
Proof. exact dep_length_byte. Qed.
Print Assumptions C07_dep_length_byte.
Theorem C07_dep_short_frame : forall r l body, l = 1 + len body -> len body < 2 ->
  decode_frame r false (l :: body) = Err TransmissionError.
Proof. exact dep_short_frame. Qed.
Print Assumptions C07_dep_short_frame.
(* the value byte of a timeout extension response: a value in 1..59 or ProtocolError *)
Theorem C07_dep_rtox_total : forall d, (exists v, rtox_value d = Ok v /\ 0 < v < 60) \/ rtox_value d = Err ProtocolError.
Proof. exact rtox_total. Qed.
Print Assumptions C07_dep_rtox_total.

(* --- NFC-DEP exchange layer against an ARBITRARY peer (Model/DepAny.v): the peer's answers are any finite stream of
       time-outs, corrupted frames and arbitrary byte strings (silence afterwards); configurations are any DID / NAD / RWT /
       clock tick / deadline with 0 < MIU <= 251 - [DID] - [NAD] (what an ATR can negotiate; needed for the frame length octet).
       Initiator.exchange returns the received data or raises TimeoutError / TransmissionError / ProtocolError - never another
       exception, never a hang (the loops' fuel, one more than the answers left, is never used up) - and hands at most
       (answers left + 3) frames to the frontend: every frame sent consumes an answer, and once the peer is silent the retry
       budgets (2 ATN, 2 NAK, 3 RTOX rounds) end the exchange after at most 3 more.  (A bound from the budgets alone does not
       exist: a peer that keeps chaining, or keeps answering ATN, is served until the deadline.) --- *)
Theorem C07_dep_initiator_exchange_total : forall fuel c s pni payload timeout,
  cfg_ok c -> corig c = false -> payload <> [] -> (length (ans s) < fuel)%nat ->
  let r := fst (i_exchange fuel c s pni payload timeout) in
  let s' := snd (i_exchange fuel c s pni payload timeout) in
  ((exists data pni', r = Ok (data, pni')) \/ r = Err TimeoutError \/ r = Err TransmissionError \/ r = Err ProtocolError) /\
  (length (sent s') <= length (sent s) + length (ans s) + 3)%nat /\ (length (ans s') <= length (ans s))%nat.
Proof. exact dep_initiator_exchange_total. Qed.
Print Assumptions C07_dep_initiator_exchange_total.
(* Target.exchange: the data, None (released / nothing received) or a documented error; at most (answers left + 1) calls of
   the frontend.  `first` is the command injected by activate (first call), otherwise payload <> [] and self.pni is set. *)
Theorem C07_dep_target_exchange_total : forall fuel c s spni first payload timeout,
  cfg_ok c -> (first <> None \/ (payload <> [] /\ spni <> None)) -> (length (ans s) + 1 < fuel)%nat ->
  let r := fst (t_exchange fuel c s spni first payload timeout) in
  let s' := snd (t_exchange fuel c s spni first payload timeout) in
  ((exists data pni', r = Ok (Some (data, pni'))) \/ r = Ok None \/
   r = Err TimeoutError \/ r = Err TransmissionError \/ r = Err ProtocolError) /\
  (length (sent s') <= length (sent s) + length (ans s) + 1)%nat /\ (length (ans s') <= length (ans s))%nat.
Proof. exact dep_target_exchange_total. Qed.
Print Assumptions C07_dep_target_exchange_total.
(* the listen loop of the Target holds its deadline: against an ARBITRARILY LONG script of corrupted frames (each needing at
   least eps > 0 time units to arrive) send_res_recv_req makes at most (time left / eps) + 1 calls of the frontend - a number
   that does not depend on the length of the script - and returns no later than the deadline plus two clock ticks; if the
   peer sends nothing but corrupted frames the result is TimeoutError.  (The time-out granted to each successive call is
   what is left until the deadline; the seeded regression C07-c2 grants the full time-out again and is a different machine.) *)
Theorem C07_listen_deadline : forall fuel c s frame dl eps,
  0 < eps -> 0 <= ctick c -> Forall (slow eps) (ans s) -> (budget eps (dl - now s) < fuel)%nat ->
  let r := fst (t_listen fuel c s frame dl) in
  let s' := snd (t_listen fuel c s frame dl) in
  good r /\ now s' <= Z.max (now s) dl + 2 * ctick c /\ (Sn s' <= Sn s + budget eps (dl - now s) + 1)%nat /\
  (Forall (jam eps) (ans s) -> r = Err TimeoutError).
Proof. exact t_listen_deadline. Qed.
Print Assumptions C07_listen_deadline.
Theorem C07_dep_target_jammed : forall fuel c s pni payload timeout eps,
  cfg_ok c -> 0 < eps -> 0 <= ctick c -> payload <> [] -> Forall (jam eps) (ans s) -> (budget eps timeout < fuel)%nat ->
  let r := fst (t_exchange fuel c s (Some pni) None payload timeout) in
  let s' := snd (t_exchange fuel c s (Some pni) None payload timeout) in
  r = Err TimeoutError /\ now s' <= now s + Z.max 0 timeout + 2 * ctick c /\ (Sn s' <= Sn s + budget eps timeout + 1)%nat.
Proof. exact dep_target_jammed. Qed.
Print Assumptions C07_dep_target_jammed.
(* the release phase of the target (Target._deactivate, the target side of llc.terminate): against ANY script of requests of ANY
   length - well-formed ATN / INF / NAK / ACK requests with the right DID included - and corrupted frames (each needing eps > 0
   time units) it returns, no later than the grace period plus four clock ticks after it began, having sent at most
   (grace / tick) + 2 responses; the loops' fuel depends on grace / tick and grace / eps only.  (One deadline for the whole
   phase; the seeded regression C07-d1 renews it with every answered request.) *)
Theorem C07_dep_target_deactivate_deadline : forall fuel c s data grace eps,
  cfg_ok c -> len data <= cmiu c -> 0 < eps -> 0 < ctick c -> 0 <= now s -> Forall (slow eps) (ans s) ->
  (budget (ctick c) grace < fuel)%nat -> (budget eps grace < fuel)%nat ->
  let r := fst (t_deactivate fuel c s data grace) in
  let s' := snd (t_deactivate fuel c s data grace) in
  r = Ok tt /\ now s' <= now s + Z.max 0 grace + 4 * ctick c /\ (nresp s' <= nresp s + budget (ctick c) grace + 2)%nat.
Proof. exact dep_target_deactivate_deadline. Qed.
Print Assumptions C07_dep_target_deactivate_deadline.
(* the code as it was (c07-3) / the seeded regression C07-2: a timeout extension PDU without value in reply to the ACK of a
   chained response raises IndexError out of Initiator.exchange; the repaired code answers with ProtocolError *)
Theorem C07_orig_rtox_in_chaining :
  cfg_ok (ex_cfg true) /\
  fst (i_exchange 8 (ex_cfg true) (mkst 0 ex_answers []) 0 [0; 0] 1024) = Crash IndexErr /\
  fst (i_exchange 8 (ex_cfg false) (mkst 0 ex_answers []) 0 [0; 0] 1024) = Err ProtocolError.
Proof. split; [apply ex_cfg_ok|]. split; [exact orig_rtox_in_chaining | exact fixed_rtox_in_chaining]. Qed.
Print Assumptions C07_orig_rtox_in_chaining.

(* --- LLCP: pdu.decode returns a PDU or DecodeError for every byte string (C11's theorem restated; in particular no
       RecursionError for any nesting of aggregated frames) --- *)
Theorem C07_pdu_decode_total : forall data, bytes_ok data ->
  (exists p, decode data 0 (len data) = Ok p) \/ decode data 0 (len data) = Err DecodeError.
Proof. intros data H. apply decode_total; [discriminate | exact H]. Qed.
Print Assumptions C07_pdu_decode_total.

(* --- activation with arbitrary general bytes returns a bool --- *)
Theorem C07_pax_total : forall sec gb, (forall g, gb = Some g -> bytes_ok g) ->
  activate_gb sec gb = Ok (false, None) \/ exists cfg, activate_gb sec gb = Ok (true, Some cfg).
Proof. exact pax_total. Qed.
Print Assumptions C07_pax_total.
Theorem C07_pax_cfg_ranges : forall sec gb cfg, activate_gb sec gb = Ok (true, Some cfg) ->
  0 <= send_lsc cfg < 4 /\ 0 <= llcp_dpc cfg < 2.
Proof. exact pax_cfg_ranges. Qed.
Print Assumptions C07_pax_cfg_ranges.

(* --- dispatch of every PDU the decoder can produce, in every well-formed controller state: a new well-formed state;
       no exception, and no blocking call in the link thread --- *)
Theorem C07_dispatch_total : forall st p, wf st -> pdu_ok p -> exists st', dispatch false st p = Ok st' /\ wf st'.
Proof. exact dispatch_total. Qed.
Print Assumptions C07_dispatch_total.
Theorem C07_decoded_pdu_ok : forall data p, bytes_ok data -> decode data 0 (len data) = Ok p -> pdu_ok p.
Proof. intros data p Hb Hd. apply valid_pdu_ok. eapply decode_valid; [|exact Hb|exact Hd]. discriminate. Qed.
Print Assumptions C07_decoded_pdu_ok.
(* ... from the bytes: one round of the run loop either dispatches or ends the link in an orderly way *)
Theorem C07_receive_total : forall st data, wf st -> bytes_ok data ->
  receive false st data = Ok LinkDisrupted \/ exists st', receive false st data = Ok (Dispatched st') /\ wf st'.
Proof. exact receive_total. Qed.
Print Assumptions C07_receive_total.

(* --- emulated Type 3 Tag: process_command returns None or a response for every command.  The hypotheses concern the
       local configuration only (8-byte IDm/PMm, 2-byte system code, block read function returns at most 16 bytes) --- *)
Theorem C07_tt3emu_total : forall idm pmm sys svcs rdf wrf, len idm = 8 -> len pmm = 8 -> len sys = 2 ->
  (forall sc bn rb re d, rdf sc bn rb re = Some d -> len d <= 16) ->
  forall cmd, process_command idm pmm sys svcs rdf wrf cmd = Ok None \/
              exists rsp, process_command idm pmm sys svcs rdf wrf cmd = Ok (Some rsp).
Proof. exact tt3emu_total. Qed.
Print Assumptions C07_tt3emu_total.
Theorem C07_tt3emu_length_rule : forall idm pmm sys svcs rdf wrf c0 t, c0 <> 1 + len t ->
  process_command idm pmm sys svcs rdf wrf (c0 :: t) = Ok None.
Proof. exact tt3emu_length_rule. Qed.
Print Assumptions C07_tt3emu_length_rule.

(* --- SNEP / handover: whatever the fragments are and whatever ndeflib makes of the octets (records, DecodeError, or the
       ValueError it raises for a malformed TYPE field - `nd` is an arbitrary function), a serving thread sends 6-byte
       response headers and goes on, returns, or waits for the peer; no exception escapes it --- *)
Theorem C07_snep_header_total : forall nd max_len script st, snep_inv st ->
  exists sends o, snep_serve nd false max_len st script = Ok (sends, o).
Proof. exact snep_header_total. Qed.
Print Assumptions C07_snep_header_total.
Theorem C07_snep_step_total : forall nd max_len st a, snep_inv st ->
  exists sends nx, snep_step nd false max_len st a = Ok (sends, nx) /\
                   match nx with Continue st' => snep_inv st' | Return => True end.
Proof. exact snep_step_total. Qed.
Print Assumptions C07_snep_step_total.
Theorem C07_snep_sends_headers : forall nd max_len st a sends nx, snep_inv st ->
  snep_step nd false max_len st a = Ok (sends, nx) -> Forall (fun m => len m = 6) sends.
Proof. exact snep_sends_headers. Qed.
Print Assumptions C07_snep_sends_headers.
Theorem C07_snep_client_total : forall acceptable st a, exists sends nx r, client_step acceptable st a = Ok (sends, nx, r).
Proof. exact snep_client_total. Qed.
Print Assumptions C07_snep_client_total.
Theorem C07_handover_serve_total : forall nd hs send_miu reset script request,
  exists sends o, ho_serve nd false hs send_miu reset request script = Ok (sends, o).
Proof. exact handover_serve_total. Qed.
Print Assumptions C07_handover_serve_total.
Theorem C07_handover_client_total : forall nd octets a, exists nx r, hc_step nd false octets a = Ok (nx, r).
Proof. exact handover_client_total. Qed.
Print Assumptions C07_handover_client_total.


(* --- translation tie: the kernels regenerated from the source on this run (Gen/RobustK.v by translate/kspec_c07.py; the SNEP
       header arithmetic of Gen/SnepK.v (C06) and the frame prefix of Gen/DepK.v (C04) are reused, not regenerated) are what the
       models compute with: every statement is a defining equation of a model function with the generated kernels plugged in --- *)
Theorem C07_bridge_atr_req d :
  gen_atr_req_nfields = 4%nat /\
  dec_atr_req d =
  (if negb (list_eqb (slice d 0 2) gen_code_ATR_REQ) then Ok None else
   if gen_atr_req_short d then Err ProtocolError else
   match gen_atr_req_fields d with
   | [did; bs; br; pp] => Ok (Some (AtrReq (gen_atr_req_nfcid3 d) did bs br pp (if gen_atr_req_has_gb pp then gen_atr_req_gb d else [])))
   | _ => Crash ValueErr
   end).
Proof. intros; apply bridge_atr_req; assumption. Qed.
Print Assumptions C07_bridge_atr_req.

Theorem C07_bridge_atr_res d :
  gen_atr_res_nfields = 5%nat /\
  dec_atr_res d =
  (if negb (list_eqb (slice d 0 2) gen_code_ATR_RES) then Ok None else
   if gen_atr_res_short d then Err ProtocolError else
   match gen_atr_res_fields d with
   | [did; bs; br; to; pp] => Ok (Some (AtrRes (gen_atr_res_nfcid3 d) did bs br to pp (if gen_atr_res_has_gb pp then gen_atr_res_gb d else [])))
   | _ => Crash ValueErr
   end).
Proof. intros; apply bridge_atr_res; assumption. Qed.
Print Assumptions C07_bridge_atr_res.

Theorem C07_bridge_psl d :
  dec_psl_req d = (if negb (list_eqb (slice d 0 2) gen_code_PSL_REQ) then Ok None else
                   if Nat.eqb (length (gen_psl_args d)) gen_arity_PSL_REQ
                   then match gen_psl_args d with [a; b; c] => Ok (Some (PslReq a b c)) | _ => Crash TypeErr end
                   else Err ProtocolError) /\
  dec_psl_res d = (if negb (list_eqb (slice d 0 2) gen_code_PSL_RES) then Ok None else
                   if Nat.eqb (length (gen_psl_args d)) gen_arity_PSL_RES
                   then match gen_psl_args d with [a] => Ok (Some (PslRes a)) | _ => Crash TypeErr end
                   else Err ProtocolError).
Proof. intros; apply bridge_psl; assumption. Qed.
Print Assumptions C07_bridge_psl.

Theorem C07_bridge_dsl rls req d :
  dec_dsl rls req d =
  (if negb (list_eqb (slice d 0 2) (dsl_code rls req)) then Ok None else
   if gen_dsl_long d then Err ProtocolError else
   do did <- (if gen_dsl_has_did d then (do x <- idx d gen_dsl_did_index; Ok (Some x)) else Ok None);
   Ok (Some (if rls then RlsPdu req did else DslPdu req did))).
Proof. intros; apply bridge_dsl; assumption. Qed.
Print Assumptions C07_bridge_dsl.

Theorem C07_bridge_dep_code (req :
 bool) (d : list Z) :
  (if req then starts2 d 212 6 else starts2 d 213 7) = list_eqb (slice d 0 2) (if req then gen_code_DEP_REQ else gen_code_DEP_RES).
Proof. intros; apply bridge_dep_code; assumption. Qed.
Print Assumptions C07_bridge_dep_code.

Theorem C07_bridge_i_dispatch c1 kind code t :
 In (c1, kind, code) gen_i_dispatch ->
  code = [213; c1] /\ decode_body false Ini (213 :: c1 :: t) = dec_by_kind Ini kind (213 :: c1 :: t).
Proof. intros; apply bridge_i_dispatch; assumption. Qed.
Print Assumptions C07_bridge_i_dispatch.

Theorem C07_bridge_t_dispatch c1 kind code t :
 In (c1, kind, code) gen_t_dispatch ->
  code = [212; c1] /\ decode_body false Tgt (212 :: c1 :: t) = dec_by_kind Tgt kind (212 :: c1 :: t).
Proof. intros; apply bridge_t_dispatch; assumption. Qed.
Print Assumptions C07_bridge_t_dispatch.

Theorem C07_bridge_code_bad c0 c1 t :
  (gen_i_code_bad c0 c1 = true -> decode_body false Ini (c0 :: c1 :: t) = Err ProtocolError) /\
  (gen_t_code_bad c0 c1 = true -> decode_body false Tgt (c0 :: c1 :: t) = Err ProtocolError) /\
  (gen_i_code_bad c0 c1 = false -> c0 = 213 /\ In c1 (map (fun e => fst (fst e)) gen_i_dispatch)) /\
  (gen_t_code_bad c0 c1 = false -> c0 = 212 /\ In c1 (map (fun e => fst (fst e)) gen_t_dispatch)).
Proof. intros; apply bridge_code_bad; assumption. Qed.
Print Assumptions C07_bridge_code_bad.

Theorem C07_bridge_strip_frame_dep r b frame :
  decode_frame r b frame = (do f <- gen_i_strip_frame b frame; decode_body false r f) /\
  gen_t_strip_frame b frame = gen_i_strip_frame b frame.
Proof. intros; apply bridge_strip_frame_dep; assumption. Qed.
Print Assumptions C07_bridge_strip_frame_dep.

Theorem C07_bridge_activate sec g :
  gen_lsc_text_size = len [0; 1; 2; 3] /\ gen_dpc_text_size = len [0; 1] /\
  activate_gb sec (Some g) =
  (if negb (gen_gb_accept g) then Ok (false, None) else
   match decode (gen_pax_bytes g) 0 (len (gen_pax_bytes g)) with
   | Ok p => use_pax sec p
   | Err DecodeError => Ok (gen_activate_decode_error_result, None)
   | Err e => Err e
   | Crash c => Crash c
   | Hang => Hang
   end).
Proof. intros; apply bridge_activate; assumption. Qed.
Print Assumptions C07_bridge_activate.

Theorem C07_bridge_pax_cfg sec d s v m w l o :
  use_pax sec (Pax d s v m w l o) =
  (do _ <- lsc_text o; do _ <- dpc_text o;
   Ok (true, Some (Pax.mkcfg (gen_cfg_rcvd_ver v) (gen_cfg_send_miu m) (gen_cfg_recv_lto l) (gen_cfg_send_wks w)
                         (gen_cfg_send_lsc o) (gen_cfg_llcp_dpc sec o)))).
Proof. intros; apply bridge_pax_cfg; assumption. Qed.
Print Assumptions C07_bridge_pax_cfg.

Theorem C07_bridge_t3_process (idm pmm sys svcs : list Z) (rdf : Z -> Z -> bool -> bool -> option (list Z)) (wrf : Z -> Z -> list Z -> bool -> bool -> bool) cmd :
  gen_t3_index_error_is_no_response = true /\
  process_command idm pmm sys svcs rdf wrf cmd =
  (if gen_t3_len_bad cmd then Ok None else
   match process_inner idm pmm sys svcs rdf wrf cmd with Crash IndexErr => Ok None | r => r end).
Proof. intros; apply bridge_t3_process; assumption. Qed.
Print Assumptions C07_bridge_t3_process.

Theorem C07_bridge_t3_inner (idm pmm sys svcs : list Z) (rdf : Z -> Z -> bool -> bool -> option (list Z)) (wrf : Z -> Z -> list Z -> bool -> bool -> bool) cmd :
  process_inner idm pmm sys svcs rdf wrf cmd =
  (if gen_t3_is_polling sys cmd then
     do rc <- idx (gen_t3_polling_arg cmd) gen_t3_polling_rc_index;
     do out <- ba (gen_t3_polling_rsp (gen_t3_polling idm pmm sys rc)); Ok (Some out)
   else if gen_t3_idm_match idm cmd then (do c1 <- idx cmd 1; t3_by_table idm sys svcs rdf wrf gen_t3_dispatch cmd c1)
   else Ok None).
Proof. intros; apply bridge_t3_inner; assumption. Qed.
Print Assumptions C07_bridge_t3_inner.

Theorem C07_bridge_t3_rd_wr_same (idm pmm sys svcs : list Z) (rdf : Z -> Z -> bool -> bool -> option (list Z)) (wrf : Z -> Z -> list Z -> bool -> bool -> bool) :
  gen_t3_wr_service_code = gen_t3_rd_service_code /\ gen_t3_wr_err_service = gen_t3_rd_err_service /\
  gen_t3_wr_service_step = gen_t3_rd_service_step /\ gen_t3_wr_list_index = gen_t3_rd_list_index /\
  gen_t3_wr_err_index = gen_t3_rd_err_index /\ gen_t3_wr_two_byte = gen_t3_rd_two_byte /\ gen_t3_wr_bn2 = gen_t3_rd_bn2 /\
  gen_t3_wr_bn2_step = gen_t3_rd_bn2_step /\ gen_t3_wr_bn3 = gen_t3_rd_bn3 /\ gen_t3_wr_bn3_step = gen_t3_rd_bn3_step /\
  gen_t3_wr_begin = gen_t3_rd_begin /\ gen_t3_wr_end = gen_t3_rd_end.
Proof. intros; apply bridge_t3_rd_wr_same; assumption. Qed.
Print Assumptions C07_bridge_t3_rd_wr_same.

Theorem C07_bridge_t3_parse_services (idm pmm sys svcs : list Z) (rdf : Z -> Z -> bool -> bool -> option (list Z)) (wrf : Z -> Z -> list Z -> bool -> bool -> bool) n err cd acc :
  parse_services svcs (S n) err cd acc =
  (do b1 <- idx cd 1; do b0 <- idx cd 0;
   let code := gen_t3_rd_service_code b0 b1 in
   if negb (memz code svcs) then Ok (Rsp err)
   else parse_services svcs n err (drop gen_t3_rd_service_step cd) (acc ++ [(code, 0)])).
Proof. intros; apply bridge_t3_parse_services; assumption. Qed.
Print Assumptions C07_bridge_t3_parse_services.

Theorem C07_bridge_t3_parse_blocks (idm pmm sys svcs : list Z) (rdf : Z -> Z -> bool -> bool -> option (list Z)) (wrf : Z -> Z -> list Z -> bool -> bool -> bool) m i cd sl acc :
  parse_blocks (S m) i cd sl acc =
  match nth_error cd 0 with
  | None => Ok (Rsp (gen_t3_rd_err_index i))
  | Some b0 =>
      let k := Z.to_nat (gen_t3_rd_list_index b0) in
      match nth_error sl k with
      | None => Ok (Rsp (gen_t3_rd_err_index i))
      | Some (code, cnt) =>
          let sl' := set_nth k (code, cnt + 1) sl in
          if gen_t3_rd_two_byte b0 then
            do b1 <- idx cd 1;
            parse_blocks m (i + 1) (drop gen_t3_rd_bn2_step cd) sl' (acc ++ [(code, gen_t3_rd_bn2 b1)])
          else
            do b2 <- idx cd 2; do b1 <- idx cd 1;
            parse_blocks m (i + 1) (drop gen_t3_rd_bn3_step cd) sl' (acc ++ [(code, gen_t3_rd_bn3 b1 b2)])
      end
  end.
Proof. intros; apply bridge_t3_parse_blocks; assumption. Qed.
Print Assumptions C07_bridge_t3_parse_blocks.

Theorem C07_bridge_t3_read (idm pmm sys svcs : list Z) (rdf : Z -> Z -> bool -> bool -> option (list Z)) (wrf : Z -> Z -> list Z -> bool -> bool -> bool) cd :
  read_without_encryption svcs rdf cd =
  (do (n, cd1) <- pop0 cd;
   do e1 <- parse_services svcs (Z.to_nat n) gen_t3_rd_err_service cd1 [];
   match e1 with
   | Rsp r => Ok r
   | Go (sl, cd2) =>
       do (m, cd3) <- pop0 cd2;
       if gen_t3_rd_too_many m then Ok gen_t3_rd_err_too_many else
       do e2 <- parse_blocks (Z.to_nat m) 0 cd3 sl [];
       match e2 with
       | Rsp r => Ok r
       | Go (sl', bl, _) =>
           do bl' <- annotate sl' bl;
           do e3 <- read_loop svcs rdf bl' 0 sl' [];
           match e3 with Rsp r => Ok r | Go data => ba (gen_t3_rd_ok data) end
       end
   end).
Proof. intros; apply bridge_t3_read; assumption. Qed.
Print Assumptions C07_bridge_t3_read.

Theorem C07_bridge_t3_read_loop (idm pmm sys svcs : list Z) (rdf : Z -> Z -> bool -> bool -> option (list Z)) (wrf : Z -> Z -> list Z -> bool -> bool -> bool) sc bn bc r i d acc :
  read_loop svcs rdf ((sc, bn, bc) :: r) i d acc =
  (do c <- dget d sc;
   do _ <- services_get svcs sc;
   match rdf sc bn (gen_t3_rd_begin bc c) (gen_t3_rd_end c) with
   | None => Ok (Rsp (gen_t3_rd_err_block i))
   | Some one => read_loop svcs rdf r (i + 1) (dset d sc (c - 1)) (acc ++ one)
   end).
Proof. intros; apply bridge_t3_read_loop; assumption. Qed.
Print Assumptions C07_bridge_t3_read_loop.

Theorem C07_bridge_t3_write (idm pmm sys svcs : list Z) (rdf : Z -> Z -> bool -> bool -> option (list Z)) (wrf : Z -> Z -> list Z -> bool -> bool -> bool) cd :
  write_without_encryption svcs wrf cd =
  (do (n, cd1) <- pop0 cd;
   do e1 <- parse_services svcs (Z.to_nat n) gen_t3_wr_err_service cd1 [];
   match e1 with
   | Rsp r => Ok r
   | Go (sl, cd2) =>
       do (m, cd3) <- pop0 cd2;
       do e2 <- parse_blocks (Z.to_nat m) 0 cd3 sl [];
       match e2 with
       | Rsp r => Ok r
       | Go (sl', bl, cd4) =>
           do bl' <- annotate sl' bl;
           if gen_t3_wr_misaligned cd4 then Ok gen_t3_wr_err_align else write_loop svcs wrf bl' 0 sl' cd4
       end
   end).
Proof. intros; apply bridge_t3_write; assumption. Qed.
Print Assumptions C07_bridge_t3_write.

Theorem C07_bridge_t3_write_loop (idm pmm sys svcs : list Z) (rdf : Z -> Z -> bool -> bool -> option (list Z)) (wrf : Z -> Z -> list Z -> bool -> bool -> bool) sc bn bc r i d bd :
  write_loop svcs wrf [] i d bd = Ok gen_t3_wr_ok /\
  write_loop svcs wrf ((sc, bn, bc) :: r) i d bd =
  (do c <- dget d sc;
   do _ <- services_get svcs sc;
   if negb (wrf sc bn (gen_t3_wr_block bd i) (gen_t3_wr_begin bc c) (gen_t3_wr_end c)) then Ok (gen_t3_wr_err_block i)
   else write_loop svcs wrf r (i + 1) (dset d sc (c - 1)) bd).
Proof. intros; apply bridge_t3_write_loop; assumption. Qed.
Print Assumptions C07_bridge_t3_write_loop.

Theorem C07_bridge_snep_process (nd : Z -> list Z -> ndef_out) d :
 6 <= len d ->
  process_snep_request nd false d =
  (let dec (o : ndef_out) (ok_code : Z) :=
     match o with
     | NdOk _ => Ok (gen_c06_response ok_code [])
     | NdDecodeError => rsp_of gen_snep_decode_error_code
     | NdValueError => rsp_of gen_snep_value_error_code
     end in
   if gen_c06_is_get d then dec (nd 0 (gen_c06_get_octets d)) gen_snep_default_get
   else if gen_c06_is_put d then dec (nd 0 (gen_c06_put_octets d)) gen_snep_default_put
   else Ok (gen_c06_response gen_snep_bad_request_code [])).
Proof. intros; apply bridge_snep_process; assumption. Qed.
Print Assumptions C07_bridge_snep_process.

Theorem C07_bridge_snep_first (nd : Z -> list Z -> ndef_out) max_len d :
  gen_snep_empty_fragment_ends = true /\
  snep_step nd false max_len Idle (Frag d) =
  (if len d =? 0 then Ok ([], Return)
   else if gen_c06_srv_short d then Ok ([], Return)
   else let v := gen_c06_srv_version d in
        let length := gen_c06_srv_length d in
        if gen_c06_srv_badver v then Ok ([gen_c06_rsp_unsupver], Continue Idle)
        else if gen_c06_srv_excess length max_len then Ok ([gen_c06_rsp_reject], Continue Idle)
        else if gen_c06_srv_more d length then Ok ([gen_c06_srv_rsp_continue], Continue (Collect d length))
        else (do r <- process_snep_request nd false d; Ok ([r], Continue Idle))).
Proof. intros; apply bridge_snep_first; assumption. Qed.
Print Assumptions C07_bridge_snep_first.

Theorem C07_bridge_snep_more (nd : Z -> list Z -> ndef_out) max_len data need f :
  snep_step nd false max_len (Collect data need) (Frag f) =
  (if gen_c06_srv_more (data ++ f) need then Ok ([], Continue (Collect (data ++ f) need))
   else (do r <- process_snep_request nd false (data ++ f); Ok ([r], Continue Idle))).
Proof. intros; apply bridge_snep_more; assumption. Qed.
Print Assumptions C07_bridge_snep_more.

Theorem C07_bridge_ho_step (nd : Z -> list Z -> ndef_out) (hs : list Z) (send_miu : Z) (reset : bool) request f :
  ho_step nd false hs send_miu reset request (Frag f) =
  (let r := request ++ f in
   if gen_c06_ho_empty r then Ok ([], Continue r) else
   match nd 1 r with
   | NdDecodeError => if gen_ho_serve_continues_on_decode_error then Ok ([], Continue r) else Crash ValueErr
   | NdValueError => if gen_ho_serve_continues_on_value_error then Ok ([], Continue r) else Crash ValueErr
   | NdOk _ => do rsp <- ho_process nd false hs r; Ok (chunks send_miu (length rsp) rsp, Continue (if reset then [] else r))
   end).
Proof. intros; apply bridge_ho_step; assumption. Qed.
Print Assumptions C07_bridge_ho_step.

Theorem C07_bridge_ho_process (nd : Z -> list Z -> ndef_out) (hs : list Z) (send_miu : Z) (reset : bool) request :
  ho_process nd false hs request =
  match nd 2 request with
  | NdOk hr => Ok (if hr then hs else [])
  | NdDecodeError => if gen_ho_process_empty_on_decode_error then Ok [] else Crash ValueErr
  | NdValueError => if gen_ho_process_empty_on_value_error then Ok [] else Crash ValueErr
  end.
Proof. intros; apply bridge_ho_process; assumption. Qed.
Print Assumptions C07_bridge_ho_process.

Theorem C07_bridge_ho_client (nd : Z -> list Z -> ndef_out) (hs : list Z) (send_miu : Z) (reset : bool) octets f :
  hc_step nd false octets (Frag f) =
  match nd 1 (octets ++ f) with
  | NdOk _ => Ok (Return, Some (octets ++ f))
  | NdDecodeError => if gen_ho_client_continues_on_decode_error then Ok (Continue (octets ++ f), None) else Crash ValueErr
  | NdValueError => if gen_ho_client_continues_on_value_error then Ok (Continue (octets ++ f), None) else Crash ValueErr
  end.
Proof. intros; apply bridge_ho_client; assumption. Qed.
Print Assumptions C07_bridge_ho_client.

(* the time-out granted to the frontend inside the retry loops of nfc.dep is the generated expression over the time left *)
Theorem C07_bridge_t_listen f c s frame dl :
  t_listen (S f) c s frame dl =
  (let t := gen_t_listen_timeout (now s) dl in
   let (r, s') := xchg c s frame t in
   match r with
   | Err TransmissionError => t_listen f c s' None dl
   | Ok rsp => t_decode c rsp s'
   | Err e => (Err e, s')
   | Crash x => (Crash x, s')
   | Hang => (Hang, s')
   end).
Proof. intros; apply bridge_t_listen; assumption. Qed.
Print Assumptions C07_bridge_t_listen.

Theorem C07_bridge_i_tmo s rwt dl :
 tmo s rwt dl = gen_i_tmo rwt (now s) dl.
Proof. intros; apply bridge_i_tmo; assumption. Qed.
Print Assumptions C07_bridge_i_tmo.

Theorem C07_bridge_i_loops f c s spni fmt pni data rwt dl n ch :
  i_sdr_loop (S f) c s spni fmt pni data rwt dl =
    (if gen_i_expired (gen_i_tmo rwt (now s) dl) then (Err TimeoutError, s) else
     let (r, s1) := i_srr c s fmt pni data (gen_i_tmo rwt (now s) dl) in
     match r with
     | Ok res => (Ok res, s1)
     | Err TimeoutError =>
         let (a, s2) := i_attention 2 c s1 rwt dl in
         match a with
         | Ok _ => i_sdr_loop f c s2 spni fmt pni data rwt dl
         | Err e => (Err e, s2) | Crash x => (Crash x, s2) | Hang => (Hang, s2)
         end
     | Err TransmissionError => i_retrans 2 c s1 spni rwt dl (fmt =? 1)
     | Err e => (Err e, s1) | Crash x => (Crash x, s1) | Hang => (Hang, s1)
     end) /\
  i_attention (S n) c s rwt dl =
    (if gen_i_expired (gen_i_tmo rwt (now s) dl) then (Err TimeoutError, s) else
     let (r, s') := i_srr c s 8 0 [] (gen_i_tmo rwt (now s) dl) in
     match r with
     | Ok res => if rfmt res =? 9 then (Err ProtocolError, s')
                 else if negb (rfmt res =? 8) then (Err ProtocolError, s') else (Ok tt, s')
     | Err _ => i_attention n c s' rwt dl
     | Crash x => (Crash x, s') | Hang => (Hang, s')
     end) /\
  i_retrans (S n) c s pni rwt dl ch =
    (if gen_i_expired (gen_i_tmo rwt (now s) dl) then (Err TimeoutError, s) else
     let (r, s') := i_srr c s 5 pni [] (gen_i_tmo rwt (now s) dl) in
     match r with
     | Ok res => if rfmt res =? 9 then (Err ProtocolError, s')
                 else if (rfmt res =? 0) || (rfmt res =? 1) || (ch && (rfmt res =? 4)) then (Ok res, s')
                 else (Err ProtocolError, s')
     | Err _ => i_retrans n c s' pni rwt dl ch
     | Crash x => (Crash x, s') | Hang => (Hang, s')
     end).
Proof. intros; apply bridge_i_loops; assumption. Qed.
Print Assumptions C07_bridge_i_loops.

Theorem C07_bridge_t_deactivate f fuel c s res data dl :
  gen_deact_grace_ms = 1000 /\
  t_deact_loop (S f) fuel c s res data dl =
  (if negb (gen_deact_running (now s) dl) then (Ok tt, s) else
   let (r, s') := t_send fuel c s None res dl in
   match r with
   | Err _ => (Ok tt, s')
   | Ok None => (Ok tt, s')
   | Ok (Some q) =>
       if oeqb (treq_did q) (cdid c) then
         match q with
         | TDsl _ | TRls _ =>
             let rls := match q with TRls _ => true | _ => false end in
             let (r2, s2) := t_listen fuel c s' (Some (enc_rel c rls)) 0 in
             match r2 with Crash x => (Crash x, s2) | Hang => (Hang, s2) | _ => (Ok tt, s2) end
         | TDep d =>
             if gen_deact_is_atn (rfmt d) then t_deact_loop f fuel c s' (Some (8, 0, [])) data dl
             else t_deact_loop f fuel c s' (Some (0, rpni d, data)) data dl
         | TOther _ => t_deact_loop f fuel c s' None data dl
         end
       else t_deact_loop f fuel c s' None data dl
   | Crash x => (Crash x, s')
   | Hang => (Hang, s')
   end) /\
  (forall grace, t_deactivate fuel c s data grace = t_deact_loop fuel fuel c s None data (now s + grace)).
Proof. intros; apply bridge_t_deactivate; assumption. Qed.
Print Assumptions C07_bridge_t_deactivate.

(* --- the code as it was (each of these inputs was found by the check on the unrepaired tree) --- *)
Theorem C07_orig_dep_empty_frame : decode_frame_orig Ini false [] = Crash IndexErr /\ decode_frame_orig Tgt true [240] = Crash IndexErr.
Proof. split; [apply orig_empty_frame | apply orig_start_byte_only]. Qed.
Print Assumptions C07_orig_dep_empty_frame.
Theorem C07_orig_dep_short_atr : decode_frame_orig Ini true [240; 3; 213; 1] = Crash ValueErr /\
                                 decode_frame_orig Tgt false [3; 212; 0] = Crash ValueErr.
Proof. split; [exact orig_short_atr_res | exact orig_short_atr_req]. Qed.
Print Assumptions C07_orig_dep_short_atr.
Theorem C07_orig_rtox_no_value : rtox_value_orig [] = Crash IndexErr.
Proof. exact orig_rtox_no_value. Qed.
Print Assumptions C07_orig_rtox_no_value.
Theorem C07_orig_general_bytes : activate_gb_orig false (Some [70; 102; 109; 1; 1; 19; 2; 2]) = Err DecodeError.
Proof. exact orig_truncated_miux. Qed.
Print Assumptions C07_orig_general_bytes.
Theorem C07_orig_tt3_short_read :
  ex_process [2;254;1;2;3;4;5;6] [255;255;255;255;255;255;255;255] [18;252] 12 true [10;6;2;254;1;2;3;4;5;6] = Crash IndexErr.
Proof. exact orig_short_read. Qed.
Print Assumptions C07_orig_tt3_short_read.
Theorem C07_orig_ui_to_dlc_hangs : wf ex_llc /\ pdu_ok (UI 32 16 [1]) /\ dispatch true ex_llc (UI 32 16 [1]) = Hang.
Proof. split; [exact ex_llc_wf|]. split; [cbn; split; [discriminate | reflexivity] | exact orig_ui_to_dlc_hangs]. Qed.
Print Assumptions C07_orig_ui_to_dlc_hangs.

Theorem C07_orig_snep_put_bad_type :
  snep_serve nd_value_error true 1048576 Idle [Frag [16; 2; 0; 0; 0; 4; 210; 1; 0; 128]; Closed] = Crash ValueErr /\
  ho_serve nd_value_error true [209;2;1;72;115;18] 128 false [] [Frag [210; 1; 0; 128]; Closed] = Crash ValueErr.
Proof. split; [exact orig_snep_put_bad_type | exact orig_handover_bad_type]. Qed.
Print Assumptions C07_orig_snep_put_bad_type.

(* --- non-vacuity: the hypotheses are met by concrete values and the decoders do accept well-formed input --- *)
Example C07_nonvacuous :
  wf ex_llc /\
  (exists p, decode_frame Ini true [240; 6; 213; 7; 0; 1; 2] = Ok (Some p)) /\
  (exists cfg, activate_gb false (Some [70; 102; 109; 1; 1; 19; 2; 2; 0; 120]) = Ok (true, Some cfg)) /\
  (exists rsp, ex_process [2;254;1;2;3;4;5;6] [255;255;255;255;255;255;255;255] [18;252] 12 false
                 [16;6;2;254;1;2;3;4;5;6;1;11;0;1;128;0] = Ok (Some rsp)) /\
  (exists st', receive false ex_llc [129; 132; 0] = Ok (Dispatched st')).
Proof.
  split; [exact ex_llc_wf|]. split; [eexists; vm_compute; reflexivity|]. split; [eexists; vm_compute; reflexivity|].
  split; eexists; vm_compute; reflexivity.
Qed.
