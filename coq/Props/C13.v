(* C13 - Drivers report RF and host-link failures only as documented errors.
   Only statements here; proofs are in Skel/ExnCheck.v, Bridge/C13Skel.v, Proofs/DrvMap.v. *)
From Coq Require Import ZArith List Bool String.
From NV Require Import Skel.ExnSyntax Skel.ExnCheck Gen.DriverSkel Bridge.C13Skel Model.DrvMap Proofs.DrvMap.
Import ListNotations.
Open Scope Z_scope.

(* --- the analysis is sound: every exception class that escapes in the semantics of the skeleton
       language (closed under abrupt exit) is in the computed set --- *)
Theorem C13_exncheck_sound : forall P f ok, closedb P f ok = true -> forall c, can_escape P f c -> In c ok.
Proof. exact exncheck_sound. Qed.
Print Assumptions C13_exncheck_sound.

(* --- its instances on the skeletons regenerated from the sources on this run: along explicit
       raise/handler flow only TimeoutError, BrokenLinkError, TransmissionError, ProtocolError,
       (CommunicationError) or IOError leave ContactlessFrontend.exchange --- *)
Theorem C13_pn53x_exchange_closed :
  exchange_documented prog_pn532 doc_classes /\ exchange_documented prog_pn533 doc_classes /\
  exchange_documented prog_rcs956 doc_classes /\ exchange_documented prog_acr122 doc_classes /\
  exchange_documented prog_arygon_b doc_classes.
Proof. exact pn53x_exchange_closed_lemma. Qed.
Print Assumptions C13_pn53x_exchange_closed.

(* PN531 / Arygon-A: the same, plus the visible NotImplementedError of the inherited Type 1 stub
   (selected only by a Type 1 target, which these drivers cannot activate) *)
Theorem C13_pn531_exchange_closed :
  exchange_documented prog_pn531 doc_classes_no_tt1 /\ exchange_documented prog_arygon_a doc_classes_no_tt1.
Proof. exact pn531_exchange_closed_lemma. Qed.
Print Assumptions C13_pn531_exchange_closed.

Theorem C13_rcs380_exchange_closed : exchange_documented prog_rcs380 doc_classes.
Proof. exact rcs380_exchange_closed_lemma. Qed.
Print Assumptions C13_rcs380_exchange_closed.

Theorem C13_udp_exchange_closed : exchange_documented prog_udp doc_classes.
Proof. exact udp_exchange_closed_lemma. Qed.
Print Assumptions C13_udp_exchange_closed.

(* --- status -> exception maps (hand model, tied by the injection correspondence) --- *)
(* all 256 chipset status codes, both directions, every status-bearing host command *)
Theorem C13_pn53x_map_total : forall d c code rest, 0 <= code < 256 ->
  DrvMap.allowed (pn53x_status_outcome d c (code :: rest)) = true.
Proof. exact pn53x_map_total_lemma. Qed.
Print Assumptions C13_pn53x_map_total.

(* in fact whatever the response payload is (any length, any values) *)
Theorem C13_pn53x_map_total_any : forall d c payload, DrvMap.allowed (pn53x_status_outcome d c payload) = true.
Proof. exact pn53x_map_total_any. Qed.
Print Assumptions C13_pn53x_map_total_any.

(* ReadRegister answers (register preparation, Type 1 / Type 3 register paths): any number of values *)
Theorem C13_pn53x_readreg_total : forall d with_status nregs payload,
  DrvMap.allowed (pn53x_readreg_outcome d with_status nregs payload) = true.
Proof. exact pn53x_readreg_total. Qed.
Print Assumptions C13_pn53x_readreg_total.

(* register VALUES on the register-programmed paths: any CommIRq / DivIRq / FIFOLevel / FIFOData values *)
Theorem C13_pn53x_tt3_poll_total : forall commirq divirq level (fifo : list Z), Z.of_nat (List.length fifo) = level ->
  poll_allowed (tt3_poll commirq divirq level fifo) = true.
Proof. exact tt3_poll_total. Qed.
Print Assumptions C13_pn53x_tt3_poll_total.
Theorem C13_pn53x_tt1_fifo_total : forall level crc_ok, 0 <= level < 256 ->
  DrvMap.allowed (tt1_fifo_outcome level crc_ok) = true.
Proof. exact tt1_fifo_total. Qed.
Print Assumptions C13_pn53x_tt1_fifo_total.
Theorem C13_pn53x_tt1_fifo_data : forall level crc_ok,
  tt1_fifo_outcome level crc_ok = OData -> 3 <= level <= 64 /\ crc_ok = true.
Proof. exact tt1_fifo_data. Qed.
Print Assumptions C13_pn53x_tt1_fifo_data.

Theorem C13_pn53x_errframe_total : forall d, DrvMap.allowed (pn53x_errframe_outcome d) = true.
Proof. exact pn53x_errframe_total. Qed.
Print Assumptions C13_pn53x_errframe_total.

(* timeout as TimeoutError, other RF errors as TransmissionError (initiator);
   field loss as BrokenLinkError (target) *)
Theorem C13_pn53x_initiator_classify : forall code rest, 0 <= code < 256 ->
  pn53x_status_outcome Initiator InCommunicateThru (code :: rest) =
    if code =? 0 then OData else if code =? 1 then ORaise XTimeout else ORaise XTransmission.
Proof. exact pn53x_initiator_classify. Qed.
Print Assumptions C13_pn53x_initiator_classify.
Theorem C13_pn53x_target_classify : forall code rest, 0 <= code < 256 ->
  pn53x_status_outcome Target TgGetInitiatorCommand (code :: rest) =
    if code =? 0 then OData
    else if (code =? 10) || (code =? 41) || (code =? 49) then ORaise XBrokenLink else ORaise XTransmission.
Proof. exact pn53x_target_classify. Qed.
Print Assumptions C13_pn53x_target_classify.

(* all 32-bit RC-S380 communication status words, by bit-mask reasoning *)
Theorem C13_rcs380_map_total : forall d w, 0 <= w < 2 ^ 32 -> DrvMap.allowed (rcs380_status_outcome d w) = true.
Proof. exact rcs380_map_total_lemma. Qed.
Print Assumptions C13_rcs380_map_total.
Theorem C13_rcs380_initiator_classify : forall w, w <> 0 ->
  rcs380_status_outcome Initiator w = ORaise (if Z.testbit w 7 then XTimeout else XTransmission).
Proof. exact rcs380_initiator_classify. Qed.
Print Assumptions C13_rcs380_initiator_classify.
Theorem C13_rcs380_target_classify : forall w, w <> 0 ->
  rcs380_status_outcome Target w =
    ORaise (if Z.testbit w 10 then XBrokenLink else if Z.testbit w 7 then XTimeout else XTransmission).
Proof. exact rcs380_target_classify. Qed.
Print Assumptions C13_rcs380_target_classify.
(* the four status bytes the driver looks at and the word of the model agree *)
Theorem C13_rcs380_bytes_word : forall d b0 b1 b2 b3,
  0 <= b0 < 256 -> 0 <= b1 < 256 -> 0 <= b2 < 256 -> 0 <= b3 < 256 ->
  rcs380_bytes_outcome d b0 b1 b2 b3 = rcs380_status_outcome d (le32 b0 b1 b2 b3).
Proof. exact rcs380_bytes_word. Qed.
Print Assumptions C13_rcs380_bytes_word.

(* InCommRF / TgCommRF answered with a payload of any length, also one too short for the status word *)
Theorem C13_rcs380_payload_total : forall d payload, DrvMap.allowed (rcs380_payload_outcome d payload) = true.
Proof. exact rcs380_payload_total. Qed.
Print Assumptions C13_rcs380_payload_total.

(* any UDP datagram is data, RFOFF (BrokenLinkError) or a TransmissionError *)
Theorem C13_udp_datagram_total : forall d, DrvMap.allowed (udp_outcome d) = true.
Proof. exact udp_total. Qed.
Print Assumptions C13_udp_datagram_total.

(* non-vacuity: the exchange skeleton has an escaping run; the maps produce every documented class *)
Example C13_nonvacuous :
  can_escape prog_pn532 entry C_IOError /\
  pn53x_status_outcome Initiator InCommunicateThru [1] = ORaise XTimeout /\
  pn53x_status_outcome Target TgGetInitiatorCommand [41] = ORaise XBrokenLink /\
  rcs380_status_outcome Target 1024 = ORaise XBrokenLink /\
  rcs380_status_outcome Initiator (128 + 4) = ORaise XTimeout /\
  udp_outcome [49; 48; 54; 65; 32; 122; 122] = ORaise XTransmission.
Proof. split; [exact exchange_can_raise_ioerror|]. vm_compute. repeat split. Qed.
