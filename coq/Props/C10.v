(* C10 - Nothing sent on an LLCP link exceeds the peer's announced MIU; aggregation is transparent.
   Only statements here; proofs are in Proofs/Collect.v and Proofs/CollectRx.v.  The model
   (Model/Collect.v, [collect] = variant [fixed]) is the collector of the repaired tree
   (fixes/c10-1-sdres-batch-budget.diff, fixes/c10-2-agf-negative-budget.diff); C10_pinned_code_refuted
   shows that the same statement is false of the code as pinned (variant [orig]).

   Hypotheses, all of them invariants of the controller:
   queued_ok M cm st  - every queued UI payload <= link MIU M, every queued I payload <= cm dsap ssap (the MIU
                        the peer announced for that connection) and every connection's send_miu <= cm; send_list /
                        dmpdu hold only 3-byte PDUs (DM); raw access point sockets have nothing queued (they are
                        excepted by the property).  C10_send_emsgsize*: established by send()/sendto().
   wire_ok st         - header fields of queued PDUs / socket addresses are in range (encode() would raise
                        otherwise), no SYMM/AGF queued, DM/FRMR/SNL/PAX/DPS meet their decode checks. *)
From Coq Require Import ZArith List Bool Lia.
From NV Require Import Base.Result Base.Bytes Model.Collect Proofs.Collect Proofs.CollectRx Proofs.CollectMiux Gen.CollectK Bridge.Collect.
Import ListNotations.
Open Scope Z_scope.

(* --- the frame produced by collect() never carries more than the remote Link MIU, for every queue state,
       every MIU 128..2175, aggregation on or off; collect() itself returns (no exception, no hang) and
       re-establishes the invariant --- *)
Theorem C10_collect_bound : forall c cm st, cipher_ok c -> 128 <= send_miu c <= 2175 -> queued_ok (send_miu c) cm st ->
  exists st' f, collect c st = Ok (st', f) /\ frame_info f <= frame_limit c f /\ queued_ok (send_miu c) cm st'.
Proof.
  intros c cm st Hc HM I. destruct (collect_v_total fixed c st) as (st' & f & E). exists st', f.
  destruct (collect_bound_ok c cm st st' f Hc ltac:(lia) I E) as (A & _ & B). auto.
Qed.
Print Assumptions C10_collect_bound.
(* frame_limit spelled out: the remote MIU - for every aggregate, for every frame without secure data transfer, and
   for every PDU that is not an encrypted UI / I; a single encrypted UI / I PDU may exceed it by the ICV only *)
Theorem C10_frame_limit : forall c f,
  (forall l, f = FAgf l -> frame_limit c f = send_miu c) /\ (sec c = None -> frame_limit c f = send_miu c) /\
  (forall p, f = FOne p -> frame_limit c f = send_miu c + (if is_ui_i p then cfg_icv c else 0)).
Proof.
  intros c f. unfold frame_limit, cfg_icv. repeat split.
  - intros l ->. lia.
  - intros ->. destruct f as [|p|l]; try destruct (is_ui_i p); lia.
  - intros p ->. reflexivity.
Qed.
Print Assumptions C10_frame_limit.

(* the bound needs only the structural part of queued_ok (oversized I/UI PDUs are held back by dequeue) *)
Theorem C10_collect_bound_struct : forall c st st' f, cipher_ok c -> 128 <= send_miu c <= 2175 -> struct_ok st ->
  collect c st = Ok (st', f) -> struct_ok st' /\ frame_info f <= frame_limit c f.
Proof. intros c st st' f Hc HM. apply collect_bound_struct; [exact Hc|lia]. Qed.
Print Assumptions C10_collect_bound_struct.

(* the bound is a bound on bytes: the encoded frame is its header (2, or 3 for I/RR/RNR) plus frame_info bytes *)
Theorem C10_wire_length : forall f, len (enc_frame f) = frame_hdr f + frame_info f.
Proof. exact enc_frame_len. Qed.
Print Assumptions C10_wire_length.

(* --- every UI payload respects the link MIU, every I payload the MIU of its connection - single or aggregated --- *)
Theorem C10_ui_i_payload_bound : forall c cm st st' f p, cipher_ok c -> 128 <= send_miu c <= 2175 ->
  queued_ok (send_miu c) cm st -> collect c st = Ok (st', f) -> In p (frame_pdus f) ->
  (pt p = PT_UI -> len (body p) <= send_miu c + cfg_icv c) /\ (pt p = PT_I -> len (body p) <= cm (da p) (sa p) + cfg_icv c).
Proof.
  intros c cm st st' f p Hc HM I E Hp. destruct (collect_bound_ok c cm st st' f Hc ltac:(lia) I E) as (_ & A & _).
  rewrite Forall_forall in A. exact (A p Hp).
Qed.
Print Assumptions C10_ui_i_payload_bound.

(* --- the limits are learnt correctly: the MIU taken over from general bytes / PAX / CONNECT / CC is 128 + the low 11
       bits of the 16-bit MIUX value (reserved bits 11..15 never enlarge it), and a connection's send MIU is that
       value clamped to the link MIU --- *)
Theorem C10_miux_learned_bound : forall V, 0 <= V < 65536 ->
  learn_miu (Some V) = 128 + V mod 2048 /\ 128 <= learn_miu (Some V) <= 2175.
Proof. exact miux_learned. Qed.
Print Assumptions C10_miux_learned_bound.
Theorem C10_conn_miu_learned : forall M V s, 0 <= V < 65536 ->
  smiu (learn_conn_miu M (Some V) s) = Z.min M (128 + V mod 2048) /\
  peer (learn_conn_miu M (Some V) s) = peer s /\ addr (learn_conn_miu M (Some V) s) = addr s.
Proof. exact conn_learned. Qed.
Print Assumptions C10_conn_miu_learned.
Theorem C10_bridge_miux : forall V,
  miux_decode V = (if negb (gen_c10_miux_reserved V =? 0) then gen_c10_miux_masked V else V) /\
  learn_miu (Some V) = gen_c10_connect_miu (miux_decode V) /\ learn_miu (Some V) = gen_c10_cc_miu (miux_decode V) /\
  learn_miu (Some V) = gen_c10_pax_miu (miux_decode V).
Proof. exact bridge_miux. Qed.
Print Assumptions C10_bridge_miux.

(* --- sendto()/send() refuse payloads above the link / connection send MIU (EMSGSIZE), so queued_ok is kept --- *)
Theorem C10_send_emsgsize_sendto : forall M s msg dest,
  (M < len msg -> forall s', ldl_sendto M s msg dest <> Ok s') /\
  (forall s', ldl_sendto M s msg dest = Ok s' -> len msg <= M /\ sq s' = sq s ++ [mkPdu PT_UI dest (addr s) 0 0 msg]).
Proof. intros. split; [apply ldl_sendto_emsgsize|]. intros s' E. destruct (ldl_sendto_spec _ _ _ _ _ E) as (A & B & _). auto. Qed.
Print Assumptions C10_send_emsgsize_sendto.
Theorem C10_send_emsgsize_send : forall s msg,
  (smiu s < len msg -> forall s', dlc_send s msg <> Ok s') /\
  (forall s', dlc_send s msg = Ok s' -> len msg <= smiu s /\ sq s' = sq s ++ [mkPdu PT_I (peer s) (addr s) (scnt s) 0 msg]).
Proof. intros. split; [apply dlc_send_emsgsize|]. intros s' E. destruct (dlc_send_spec _ _ _ E) as (A & B & _). auto. Qed.
Print Assumptions C10_send_emsgsize_send.
Theorem C10_sendto_keeps_queued_ok : forall M cm pre post l1 l2 sl s msg dest s',
  queued_ok M cm (pre ++ SapN (mkSap Ldl (l1 ++ s :: l2) sl) :: post) -> ldl_sendto M s msg dest = Ok s' ->
  queued_ok M cm (pre ++ SapN (mkSap Ldl (l1 ++ s' :: l2) sl) :: post).
Proof. exact sendto_keeps_queued_ok. Qed.
Print Assumptions C10_sendto_keeps_queued_ok.
Theorem C10_send_keeps_queued_ok : forall M cm pre post l1 l2 sl s msg s',
  queued_ok M cm (pre ++ SapN (mkSap Dlc (l1 ++ s :: l2) sl) :: post) -> dlc_send s msg = Ok s' ->
  queued_ok M cm (pre ++ SapN (mkSap Dlc (l1 ++ s' :: l2) sl) :: post).
Proof. exact send_keeps_queued_ok. Qed.
Print Assumptions C10_send_keeps_queued_ok.

(* --- aggregation is transparent: pdu.decode + dispatch at the receiver hand on exactly the collected PDUs, in order --- *)
Theorem C10_agf_transparent : forall c st st' f, cipher_ok c -> 128 <= send_miu c <= 2175 -> wire_ok st ->
  collect c st = Ok (st', f) -> f <> FNone -> receive (enc_frame f) = Ok (frame_pdus f).
Proof. intros c st st' f Hc HM. apply agf_transparent_wire; [exact Hc|lia]. Qed.
Print Assumptions C10_agf_transparent.

(* --- the explicit fuel of the aggregation loop is never exhausted; collect is total for every state, MIU, variant --- *)
Theorem C10_collect_terminates : forall v c st, exists st' f, collect_v v c st = Ok (st', f).
Proof. exact collect_v_total. Qed.
Print Assumptions C10_collect_terminates.

(* --- the code as pinned violates the bound (40 pending SDRES, MIU 130: information field 132) --- *)
Theorem C10_pinned_code_refuted : exists c cm st st' f, 128 <= send_miu c <= 2175 /\ queued_ok (send_miu c) cm st /\
  collect_v orig c st = Ok (st', f) /\ send_miu c < frame_info f.
Proof. exact orig_bound_refuted. Qed.
Print Assumptions C10_pinned_code_refuted.
Theorem C10_pinned_code_refuted_agf :
  info_of (collect_v orig (mkCfg 128 true None) ex_state2) = 135 /\ info_of (collect_v fixed (mkCfg 128 true None) ex_state2) = 126.
Proof. exact orig_refuted_agf. Qed.
Print Assumptions C10_pinned_code_refuted_agf.

(* --- tie: the budget expressions / size tests / __len__ / header_size regenerated from llc.py, tco.py, pdu.py
       on this run (Gen/CollectK.v) are the ones the model computes with (step equations of the model functions) --- *)
Theorem C10_bridge_tco_dequeue : forall m icv p q,
  tco_dequeue (Some m) icv (p :: q) =
  (let pdu_size := if is_ui_i p then gen_c10_size_ui_i (plen p) icv else gen_c10_size_other (plen p) in
   if gen_c10_requeue pdu_size (hsize p) m then (p :: q, None) else (q, Some p)).
Proof. exact bridge_tco_dequeue. Qed.
Print Assumptions C10_bridge_tco_dequeue.
Theorem C10_bridge_sd_dequeue : forall r rest miu k q qs taken thr dm,
  take_res (sd_thr fixed) (r :: rest) miu =
    (if gen_c10_sd_more miu
     then let '(t, rest', m) := take_res (sd_thr fixed) rest (miu - gen_c10_sd_res_cost) in (r :: t, rest', m)
     else ([], r :: rest, miu)) /\
  req_loop (S k) (q :: qs) taken miu =
    (if gen_c10_sd_req_over (snd q) miu then req_loop k (qs ++ [q]) taken miu
     else req_loop k qs (taken ++ [q]) (miu - gen_c10_sd_req_cost (snd q))) /\
  sd_dequeue thr miu (mkSd [] [] dm) =
    (if gen_c10_sd_dm (len dm) miu
     then match dm with p :: r => Ok (mkSd [] [] r, Some p) | [] => Ok (mkSd [] [] dm, None) end
     else Ok (mkSd [] [] dm, None)).
Proof. intros. split; [apply bridge_take_res|]. split; [apply bridge_req_loop|apply bridge_sd_dm]. Qed.
Print Assumptions C10_bridge_sd_dequeue.
Theorem C10_bridge_collect_budgets : forall c M p miu1 thr icv o r agf miu dn,
  (plen p - hsize p >=? M) = gen_c10_early_return (plen p) (hsize p) (gen_c10_miu_first M) /\
  M - agf_len [p] - 3 = gen_c10_budget1 M (agf_len [p]) /\ (miu1 >=? 0) = gen_c10_final_acks miu1 /\
  agg_for c thr M icv (o :: r) agf miu dn =
  (do x <- obj_dequeue thr miu (gen_c10_icv_agg icv) o;
   let '(o', y) := x in
   match y with
   | Some p =>
       let agf' := agf ++ [maybe_encrypt c p] in
       let miu' := gen_c10_budget2 M (agf_len agf') in
       if gen_c10_break_inner miu' then Ok (o' :: r, agf', miu', false)
       else do z <- agg_for c thr M icv r agf' miu' false; let '(r', a, m, d) := z in Ok (o' :: r', a, m, d)
   | None => do z <- agg_for c thr M icv r agf miu dn; let '(r', a, m, d) := z in Ok (o' :: r', a, m, d)
   end).
Proof. intros. destruct (bridge_collect_budget M p miu1) as [A B]. split; [apply bridge_early_return|]. split; [exact A|]. split; [exact B|apply bridge_agg_for]. Qed.
Print Assumptions C10_bridge_collect_budgets.
Theorem C10_bridge_collect_loops : forall f c M icv l agf miu o r,
  agg_loop (S f) c fixed M icv l agf miu =
  (if gen_c10_agf_enter miu then
     do x <- agg_for c (sd_thr fixed) M icv l agf miu true;
     let '(l', agf', miu', dn) := x in
     if gen_c10_break_outer miu' dn then Ok (l', agf', miu') else agg_loop f c fixed M icv l' agf' miu'
   else Ok (l, agf, miu)) /\
  ack_for M (o :: r) agf =
  (if skind_eqb (obj_mode o) Dlc then
     let '(o', y) := obj_sendack o in
     match y with
     | Some p =>
         let agf' := agf ++ [p] in
         if gen_c10_break_acks (gen_c10_budget3 M (agf_len agf')) then (o' :: r, agf')
         else let '(r', a) := ack_for M r agf' in (o' :: r', a)
     | None => let '(r', a) := ack_for M r agf in (o' :: r', a)
     end
   else let '(r', a) := ack_for M r agf in (o :: r', a)).
Proof. intros. split; [apply bridge_agg_loop|apply bridge_ack_for]. Qed.
Print Assumptions C10_bridge_collect_loops.
(* the ICV allowance: where icv_size comes from, when a PDU is encrypted, and what each dequeue call site passes on *)
Theorem C10_bridge_icv : forall c thr b miu icv o r a s l k p,
  cfg_icv c = gen_c10_icv_size (sec_on c) (sec_icv c) /\
  (maybe_encrypt c p =
   (if gen_c10_encrypt_cond1 (sec_on c) (is_ui_i p)
    then match sec c with Some k => mkPdu (pt p) (da p) (sa p) (ns p) (nr p) (encrypt k (enc_hdr p) (body p)) | None => p end
    else p) /\ gen_c10_encrypt_cond2 (sec_on c) (is_ui_i p) = gen_c10_encrypt_cond1 (sec_on c) (is_ui_i p)) /\
  first_pass c thr b miu (o :: r) =
    (if Bool.eqb (skind_eqb (obj_mode o) Raw) b then
       do x <- obj_dequeue thr miu (gen_c10_icv_first (cfg_icv c)) o;
       let '(o', y) := x in
       match y with
       | Some p => Ok (o' :: r, Some (maybe_encrypt c p))
       | None => do z <- first_pass c thr b miu r; let '(r', y') := z in Ok (o' :: r', y')
       end
     else do z <- first_pass c thr b miu r; let '(r', y') := z in Ok (o :: r', y')) /\
  sap_dequeue miu icv a = sap_dequeue miu (gen_c10_icv_sap icv) a /\
  socks_dequeue k miu icv l = socks_dequeue k miu (gen_c10_icv_sap icv) l /\
  sock_dequeue Ldl miu icv s = (let '(q', x) := tco_dequeue (Some miu) (gen_c10_icv_ldl icv) (sq s) in (with_sq s q', x)) /\
  sock_dequeue Raw miu icv s = (let '(q', x) := tco_dequeue None (gen_c10_icv_raw icv) (sq s) in (with_sq s q', x)) /\
  sock_dequeue Dlc miu icv s = dlc_dequeue miu (gen_c10_icv_dlc icv) s.
Proof. intros. split; [apply bridge_icv_size|]. split; [apply bridge_encrypt|apply bridge_icv_sites]. Qed.
Print Assumptions C10_bridge_icv.
Theorem C10_bridge_len : forall p d s n r data reason b0 b1 b2 b3 sk,
  hsize p = (if numbered (pt p) then gen_c10_hdr_numbered else gen_c10_hdr_plain) /\
  plen (mkPdu PT_UI d s n r data) = gen_c10_len_ui data /\
  plen (mkPdu PT_I d s n r data) = gen_c10_len_i data /\
  plen (ack sk) = gen_c10_len_rr_rnr /\
  plen (mkPdu PT_DM d s n r [reason]) = gen_c10_len_dm /\
  plen (mkPdu PT_FRMR d s n r [b0; b1; b2; b3]) = gen_c10_len_frmr /\
  plen (mkPdu PT_DISC d s n r []) = gen_c10_len_disc.
Proof. intros. split; [apply bridge_hsize|apply bridge_len]. Qed.
Print Assumptions C10_bridge_len.

(* non-vacuity: a controller with a DM on SAP 0, pending SDRES/SDREQ, two UI PDUs and an I PDU with a
   piggy-backed acknowledgement meets the hypotheses; MIU 128 aggregates DM+SNL+UI+I (96 bytes), holds the
   second UI back, and the receiver gets the same four PDUs *)
Definition nv_ldl := mkSock [mkPdu PT_UI 16 32 0 0 (repeat 7 60); mkPdu PT_UI 17 32 0 0 (repeat 8 40)]
                            ST_ESTABLISHED false false 0 0 0 0 0 0 0 128 0 32.
Definition nv_dlc := mkSock [mkPdu PT_I 20 40 0 0 (repeat 9 5)] ST_ESTABLISHED false false 1 1 0 2 1 0 2 128 20 40.
Definition nv_state := [SapN (mkSap Raw [] [mkPdu PT_DM 9 0 0 0 [2]]); SapD (mkSd [(1, 0); (2, 16)] [(7, [97; 98])] []);
   SapN (mkSap Ldl [nv_ldl] []); SapN (mkSap Dlc [nv_dlc] [])].
Definition nv_cipher := mkCipher 4 (fun _ d => d ++ [238; 238; 238; 238]).
Example C10_nonvacuous :
  queued_ok 128 (fun _ _ => 128) nv_state /\ wire_ok nv_state /\ cipher_ok (mkCfg 128 true (Some nv_cipher)) /\
  match collect (mkCfg 128 true None) nv_state with
  | Ok (_, f) => frame_info f = 96 /\ map pt (frame_pdus f) = [7; 9; 3; 12] /\ receive (enc_frame f) = Ok (frame_pdus f)
  | _ => False
  end /\
  (* with secure data transfer the UI and the I PDU grow by the ICV: 104 bytes *)
  match collect (mkCfg 128 true (Some nv_cipher)) nv_state with
  | Ok (_, f) => frame_info f = 104 /\ map pt (frame_pdus f) = [7; 9; 3; 12] /\ receive (enc_frame f) = Ok (frame_pdus f)
  | _ => False
  end.
Proof.
  split; [|split; [|split; [|split]]].
  1, 2: unfold queued_ok, wire_ok, nv_state; repeat (constructor; cbn); try lia; try discriminate;
        try (intros; discriminate); try (intros; lia);
        try (match goal with H : _ \/ _ |- _ => destruct H; discriminate end).
  - split; [cbn; lia|]. intros k [= <-] a d. cbn [encrypt icv_size nv_cipher]. rewrite len_app. reflexivity.
  - vm_compute. repeat split.
  - vm_compute. repeat split.
Qed.
