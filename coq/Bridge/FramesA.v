(* Bridge: the response validation of acr122.Chipset.ccid_xfr_block (after transport.read) and of
   acr122.Chipset.command (after ccid_xfr_block), translated statement by statement on this run, compose to the
   model function acr122_parse the C14 theorems are about. *)
From Coq Require Import ZArith List Bool Lia ZifyBool.
From NV Require Import Base.Result Base.Bytes Base.PyPrims Model.Frames Proofs.Frames Gen.FramesK Bridge.FramesP.
Import ListNotations.
Open Scope Z_scope.

Lemma bridge_ccid_parse frame : gen_ccid_parse frame = ccid_parse frame.
Proof.
  unfold gen_ccid_parse, ccid_parse. pose proof (len_nonneg frame) as Hn.
  destruct (len frame <? 10) eqn:E10.
  - rewrite orb_true_r. reflexivity.
  - replace (negb (negb (len frame =? 0))) with false by lia. cbn [orb].
    rewrite pyidx_nonneg by lia. change (nth (Z.to_nat 0) frame 0) with (byt frame 0).
    destruct (negb (byt frame 0 =? 128)); [reflexivity|].
    assert (Hu : unpack_le32 (pyslice frame 1 5) =
                 byt frame 1 + 256 * byt frame 2 + 65536 * byt frame 3 + 16777216 * byt frame 4).
    { rewrite pyslice_nonneg by lia. change (Z.to_nat (5 - 1)) with 4%nat. change (Z.to_nat 1) with 1%nat.
      destruct frame as [|a [|b [|c [|d [|e frame]]]]]; try (cbn in E10; lia).
      unfold unpack_le32. rewrite !pyidx_nonneg by lia. reflexivity. }
    rewrite Hu. change (Z.add 10 ?x) with (10 + x).
    destruct (negb (len frame =? _)); [reflexivity|].
    rewrite pyslice_to_end by lia. reflexivity.
Qed.

Lemma nth_last_default (l : list Z) : nth (length l - 1) l 0 = last l 0.
Proof.
  induction l as [|a l IH]; [reflexivity|].
  destruct l as [|b l]; [reflexivity|].
  change (last (a :: b :: l) 0) with (last (b :: l) 0). rewrite <- IH.
  cbn [length]. replace (S (S (length l)) - 1)%nat with (S (S (length l) - 1)) by lia.
  reflexivity.
Qed.

Lemma pyidx_last2 (l : list Z) : 2 <= len l ->
  pyidx l (-2) = fst (last2 l) /\ pyidx l (-1) = snd (last2 l).
Proof.
  intro H. destruct (split_last2 l H) as (B & x & y & ->).
  unfold last2. rewrite removelast_app2, !last_last.
  change (B ++ [x; y]) with (B ++ [x] ++ [y]). rewrite app_assoc, last_last. cbn [fst snd].
  unfold pyidx. change (-2 <? 0) with true. change (-1 <? 0) with true. cbv iota.
  unfold len in *. rewrite !app_length in *. cbn [length] in *.
  split.
  - replace (_ <? 0) with false by lia.
    replace (Z.to_nat (-2 + Z.of_nat (length B + 1 + 1))) with (length B) by lia.
    rewrite <- app_assoc. rewrite app_nth2, Nat.sub_diag by lia. reflexivity.
  - replace (_ <? 0) with false by lia.
    replace (Z.to_nat (-1 + Z.of_nat (length B + 1 + 1))) with (length (B ++ [x])) by (rewrite app_length; cbn [length]; lia).
    rewrite app_nth2, Nat.sub_diag by lia. reflexivity.
Qed.

Lemma bridge_acr122_rsp_parse cmd frame :
  gen_acr122_rsp_parse cmd frame =
  (if len frame <? 4 then Err IOErr else
   if negb ((byt frame 0 =? 213) && (byt frame 1 =? cmd + 1)) then Err IOErr else
   if negb ((fst (last2 frame) =? 144) && (snd (last2 frame) =? 0)) then Err IOErr else
   Ok (strip2 frame)).
Proof.
  unfold gen_acr122_rsp_parse. pose proof (len_nonneg frame) as Hn.
  change (Z.opp 2) with (-2). change (Z.opp 1) with (-1). change (Z.add cmd 1) with (cmd + 1).
  destruct (len frame <? 4) eqn:E4.
  - rewrite orb_true_r. reflexivity.
  - replace (negb (negb (len frame =? 0))) with false by lia. cbn [orb].
    rewrite !pyidx_nonneg by lia.
    change (nth (Z.to_nat 0) frame 0) with (byt frame 0). change (nth (Z.to_nat 1) frame 0) with (byt frame 1).
    destruct (pyidx_last2 frame) as [-> ->]; [lia|].
    rewrite pyslice_strip2. reflexivity.
Qed.

Theorem bridge_acr122_parse cmd rsp :
  bind (gen_ccid_parse rsp) (gen_acr122_rsp_parse cmd) = acr122_parse cmd rsp.
Proof.
  unfold acr122_parse. rewrite bridge_ccid_parse.
  destruct (ccid_parse rsp) as [f| | |]; cbn [bind]; try reflexivity.
  apply bridge_acr122_rsp_parse.
Qed.
