(* Bridge: the address-allocation logic regenerated from src/nfc/llcp/llc.py on every run (Gen/AddrK.v,
   translate/kspec_c17.py: wks_map, _bind_by_none, _bind_by_addr, _bind_by_name, the clean-up condition of
   ServiceAccessPoint.remove_socket, the matching predicate and DM reasons of ServiceAccessPoint.enqueue, the
   connect-by-name test of dispatch) is what Model/Addr.v computes.  The generated functions work on
   occ = [x is None for x in self.sap]; [occ_of c] is that list for a model controller.  If the source changes a
   bound, an errno, a test or the order of the tests, the corresponding lemma no longer checks. *)
From Coq Require Import ZArith List Bool Lia ZifyBool.
From NV Require Import Base.Result Base.Bytes Base.PyPrims Model.Addr Gen.AddrK.
Import ListNotations.
Open Scope Z_scope.

Definition is_none (e : sapent) : bool := match e with SapNone => true | _ => false end.
Definition occ_of (c : ctl) : list bool := map is_none (c_sap c).

Lemma occ_len c : length (c_sap c) = 64%nat -> len (occ_of c) = 64.
Proof. intro H. unfold occ_of, len. rewrite map_length, H. reflexivity. Qed.

Lemma occ_nth c k : (k < length (c_sap c))%nat -> nth k (occ_of c) false = is_none (nth k (c_sap c) SapNone).
Proof. intro H. unfold occ_of. rewrite (nth_indep _ false (is_none SapNone)) by (rewrite map_length; auto). apply map_nth. Qed.

(* `self.sap[addr] is None` *)
Lemma bridge_occ_free c a : length (c_sap c) = 64%nat -> 0 <= a < 64 -> occ_free (occ_of c) a = is_free c a.
Proof.
  intros L R. unfold occ_free, is_free, sap_get, in_range. rewrite (occ_len c L).
  replace ((0 <=? a) && (a <? 64)) with true by lia. rewrite occ_nth by lia.
  destruct (nth (Z.to_nat a) (c_sap c) SapNone); reflexivity.
Qed.

(* `K + self.sap[lo:hi].index(None)` is the model's first_free over zrange lo hi *)
Lemma firstn_skipn_S {A} (l : list A) k n d : (k < length l)%nat ->
  firstn (S n) (skipn k l) = nth k l d :: firstn n (skipn (S k) l).
Proof.
  revert k. induction l as [|x t IH]; intros k H; [cbn in H; lia|]. destruct k; cbn [skipn nth]; [reflexivity|].
  apply IH. cbn in H. lia.
Qed.

Lemma scan_shift c : length (c_sap c) = 64%nat -> forall n lo j, 0 <= lo -> lo + Z.of_nat n <= 64 ->
  index_true (firstn n (skipn (Z.to_nat lo) (occ_of c))) j =
  option_map (fun a => a - lo + j) (first_free c (zrange lo (lo + Z.of_nat n))).
Proof.
  intros L. induction n as [|n IH]; intros lo j H0 H1.
  - rewrite zrange_nil by lia. reflexivity.
  - rewrite (firstn_skipn_S _ _ _ false) by (unfold occ_of; rewrite map_length; lia).
    rewrite zrange_cons by lia. cbn [index_true first_free].
    assert (E : nth (Z.to_nat lo) (occ_of c) false = is_free c lo).
    { rewrite <- (bridge_occ_free c lo L) by lia. unfold occ_free. rewrite (occ_len c L).
      replace ((0 <=? lo) && (lo <? 64)) with true by lia. reflexivity. }
    rewrite E. destruct (is_free c lo).
    + cbn. f_equal. lia.
    + replace (S (Z.to_nat lo)) with (Z.to_nat (lo + 1)) by lia.
      replace (lo + Z.of_nat (S n)) with ((lo + 1) + Z.of_nat n) by lia.
      rewrite IH by lia. destruct (first_free c (zrange (lo + 1) (lo + 1 + Z.of_nat n))); cbn; [f_equal; lia | reflexivity].
Qed.

Lemma bridge_scan c lo hi : length (c_sap c) = 64%nat -> 0 <= lo -> lo <= hi -> hi <= 64 ->
  option_map (fun k => lo + k) (sap_index_none (occ_of c) lo hi) = first_free c (zrange lo hi).
Proof.
  intros L H0 H1 H2. unfold sap_index_none, pyslice, norm_idx. rewrite (occ_len c L).
  replace (lo <? 0) with false by lia. replace (hi <? 0) with false by lia.
  rewrite (Z.min_l lo 64), (Z.min_l hi 64) by lia.
  rewrite (scan_shift c L (Z.to_nat (hi - lo)) lo 0) by lia.
  replace (lo + Z.of_nat (Z.to_nat (hi - lo))) with hi by lia.
  destruct (first_free c (zrange lo hi)); cbn; [f_equal; lia | reflexivity].
Qed.

(* ---------------------------------------------------------------- wks_map *)
Lemma bridge_wks n : gen_c17_wks n = wks n.
Proof. reflexivity. Qed.

(* ---------------------------------------------------------------- bind *)
Lemma bridge_bind_by_none c i s : length (c_sap c) = 64%nat ->
  match bind_none c i s with (c', Some _) => ok c' OUnit | (c', None) => llerr c' EAGAIN end =
  match gen_c17_bind_by_none (occ_of c) with
  | inl (a, _) => ok (place c i s a) OUnit
  | inr e => llerr c e
  end.
Proof.
  intro L. unfold bind_none, gen_c17_bind_by_none.
  rewrite <- (bridge_scan c 32 64 L) by lia.
  destruct (sap_index_none (occ_of c) 32 64); reflexivity.
Qed.

Lemma bridge_bind_by_addr c i s a : length (c_sap c) = 64%nat ->
  bind_addr c i s a =
  match gen_c17_bind_by_addr (occ_of c) (stype_eqb (s_type s) TRaw) a with
  | inl (a', _) => ok (place c i s a') OUnit
  | inr e => llerr c e
  end.
Proof.
  intro L. unfold bind_addr, gen_c17_bind_by_addr.
  rewrite Z.gtb_ltb.
  destruct ((a <? 0) || (63 <? a)) eqn:R; [reflexivity|].
  replace (a <? 64) with (a <=? 63) by lia.
  destruct (((32 <=? a) && (a <=? 63)) || stype_eqb (s_type s) TRaw); [|reflexivity].
  rewrite (bridge_occ_free c a L) by lia. destruct (is_free c a); reflexivity.
Qed.

Lemma bridge_bind_by_name c i s n : length (c_sap c) = 64%nat ->
  bind_name c i s n =
  match gen_c17_bind_by_name (occ_of c) (name_valid n)
                             (match lookup (c_snl c) n with Some _ => true | None => false end) n with
  | inl (a, true) => ok (set_snl (place c i (set_bname s (Some n)) a) (c_snl c ++ [(n, a)])) OUnit
  | inl (a, false) => ok (place c i s a) OUnit
  | inr e => llerr c e
  end.
Proof.
  intro L. unfold bind_name, gen_c17_bind_by_name. change (gen_c17_wks n) with (wks n).
  destruct (negb (name_valid n)); [reflexivity|].
  destruct (lookup (c_snl c) n); [reflexivity|].
  destruct (wks n) as [a|] eqn:K.
  - assert (R : 0 <= a < 64).
    { unfold wks in K. destruct (name_eqb n name_sdp); [inversion K; lia|]. destruct (name_eqb n name_snep); inversion K; lia. }
    rewrite (bridge_occ_free c a L R). destruct (is_free c a); reflexivity.
  - rewrite <- (bridge_scan c 16 32 L) by lia. destruct (sap_index_none (occ_of c) 16 32); reflexivity.
Qed.

(* bind(): wrong argument type, already bound *)
Lemma bridge_bind_errnos : gen_c17_bind_badtype = EFAULT /\ gen_c17_bind_twice = EINVAL.
Proof. split; reflexivity. Qed.
Lemma bridge_do_bind c i s arg : get_sock c i = Some s ->
  do_bind c i arg =
  match s_addr s with
  | Some _ => llerr c gen_c17_bind_twice
  | None => match arg with
            | BNone => match bind_none c i s with (c', Some _) => ok c' OUnit | (c', None) => llerr c' EAGAIN end
            | BAddr a => bind_addr c i s a
            | BName n => bind_name c i s n
            | BBad => llerr c gen_c17_bind_badtype
            end
  end.
Proof. intro G. unfold do_bind. rewrite G. reflexivity. Qed.

(* ---------------------------------------------------------------- remove_socket *)
Lemma bridge_remove c a i :
  sap_remove c a i =
  match sap_get c a with
  | Sap l sl =>
      if gen_c17_remove_frees (len (remove_id l i))
      then set_snl (sap_set c a SapNone) (filter (fun kv => negb (gen_c17_name_dropped (snd kv) a)) (c_snl c))
      else sap_set c a (Sap (remove_id l i) sl)
  | _ => c
  end.
Proof.
  unfold sap_remove, gen_c17_remove_frees, gen_c17_name_dropped. destruct (sap_get c a); try reflexivity.
  destruct (remove_id socks i) as [|x t]; [reflexivity|].
  rewrite len_cons. pose proof (len_nonneg t). replace (1 + len t =? 0) with false by lia. reflexivity.
Qed.

(* ---------------------------------------------------------------- enqueue: which socket, which DM *)
Lemma pick_sock_ext c l f g : (forall s, f s = g s) -> pick_sock c l f = pick_sock c l g.
Proof. intro E. induction l as [|x t IH]; cbn; auto. destruct (get_sock c x); auto. rewrite E, IH. reflexivity. Qed.

Lemma bridge_peer_match ssap peer :
  gen_c17_peer_match ssap peer = match peer with None => true | Some x => x =? ssap end.
Proof. unfold gen_c17_peer_match. destruct peer as [x|]; cbn; [rewrite orb_false_r; apply Z.eqb_sym | reflexivity]. Qed.

Lemma bridge_sap_enqueue c a l sl p :
  sap_enqueue c a l sl p =
  if is_connect p then
    match pick_sock c l (fun s => sstate_eqb (s_state s) StListen) with
    | Some (i, s) => sock_enqueue c i s p
    | None => (sap_set c a (Sap l (sl ++ [PDM (pdu_ssap p) (pdu_dsap p) gen_c17_dm_unbound])), Ok [])
    end
  else
    match pick_sock c l (fun s => gen_c17_peer_match (pdu_ssap p) (s_peer s)) with
    | Some (i, s) => sock_enqueue c i s p
    | None => if is_dlc_pdu p
              then (sap_set c a (Sap l (sl ++ [PDM (pdu_ssap p) (pdu_dsap p) gen_c17_dm_inactive])), Ok [])
              else (c, Ok [])
    end.
Proof.
  unfold sap_enqueue. destruct (is_connect p); [reflexivity|].
  rewrite (pick_sock_ext c l _ (fun s => gen_c17_peer_match (pdu_ssap p) (s_peer s))); [reflexivity|].
  intro s. symmetry. apply bridge_peer_match.
Qed.

(* ---------------------------------------------------------------- dispatch: CONNECT by service name *)
Lemma bridge_connect_by_name c ssap sn :
  dispatch c (PConnect 1 ssap sn) =
  let addr := match sn with Some n => lookup (c_snl c) n | None => None end in
  if gen_c17_cbn_absent addr (match addr with Some a => is_free c a | None => false end)
  then (set_dmpdu c (sd_dmpdu c ++ [PDM ssap 1 (gen_c17_cbn_reason (match sn with None => true | Some _ => false end))]), Ok [])
  else let a := match addr with Some a => a | None => 0 end in
       let p := PConnect a ssap None in        (* the CONNECT rewritten to the resolved address, looked up by DSAP *)
       match sap_get c (pdu_dsap p) with
       | SapNone => (c, Ok [])
       | SapSD => sd_enqueue c p
       | Sap l sl => sap_enqueue c (pdu_dsap p) l sl p
       end.
Proof.
  unfold gen_c17_cbn_absent, gen_c17_cbn_reason, dispatch. cbn zeta.
  destruct (match sn with Some n => lookup (c_snl c) n | None => None end) as [a|].
  - destruct (a =? 0); cbn [negb andb orb]; [destruct sn; reflexivity|].
    destruct (is_free c a); cbn [negb]; [destruct sn; reflexivity | reflexivity].
  - destruct sn; reflexivity.
Qed.

(* ---------------------------------------------------------------- nfc.llcp.socket.Socket *)
(* The application's handle passes every argument through unchanged: an operation of the model on socket id i IS the
   wrapper's operation with the controller's operation plugged in (the generator accepts nothing but
   `return self.llc.M(self._tco, <parameters>)`; an argument test such as `if not address:` fails the translation). *)
Lemma bridge_socket_bind c i arg : gen_c17_Socket_bind (do_bind c) i arg = do_bind c i arg.
Proof. reflexivity. Qed.
Lemma bridge_socket_connect c i d : gen_c17_Socket_connect (do_connect c) i d = do_connect c i d.
Proof. reflexivity. Qed.
Lemma bridge_socket_sendto c i msg d (flags : unit) :
  gen_c17_Socket_sendto (fun i msg d (_ : unit) => do_sendto c i msg d) i msg d flags = do_sendto c i msg d.
Proof. reflexivity. Qed.
Lemma bridge_socket_others c i b n k :
  gen_c17_Socket_listen (do_listen c) i b = do_listen c i b /\
  gen_c17_Socket_accept (do_accept c) i = do_accept c i /\
  gen_c17_Socket_recvfrom (do_recvfrom c) i = do_recvfrom c i /\
  gen_c17_Socket_close (do_close c) i = do_close c i /\
  gen_c17_Socket_getsockname (fun i => lstep c (LGetsockname i)) i = lstep c (LGetsockname i) /\
  gen_c17_Socket_setsockopt (fun i (_ : unit) v => do_rcvbuf c i v) i tt b = do_rcvbuf c i b /\
  gen_c17_Socket_resolve (fun n => do_resolve c n k) n = do_resolve c n k.
Proof. repeat split; reflexivity. Qed.
