(* C18 - the model functions of Model/Connect.v are the interpreter Skel/ConnectRun.v applied to the
   control skeleton regenerated from src/nfc/clf/__init__.py (Gen/ConnectSkel.v). *)
From Coq Require Import ZArith List Bool Arith Lia.
From NV Require Import Model.Connect Skel.ConnectSyntax Skel.ConnectRun Gen.ConnectSkel Proofs.Connect.
Import ListNotations.

Definition out_of_hold (r : env) (h : hold) : outcome :=
  match h with HoldDone => ONormal r | HoldRaise e => ORaise (XE e) | HoldHang => OHang end.

(* ------------------------------------------------------------------ stepping through both sides *)
Ltac expose := unfold bind, ret, emit, raising.
Ltac simp := try (progress expose); cbn beta iota zeta; cbn [out_of_hold fst snd app vtruth upd var_eqb eres_of_out eres_of_bres bres_of out_of negb andb orb catches raise_of].
Ltac on_state tac := idtac.

Ltac prim loop_rw :=
  match goal with
  | |- context [wloop _ _ _ _ ?s] => is_var s; loop_rw
  | |- context [do_sense ?a ?b ?s] => is_var s; let x := fresh "x" in destruct (do_sense a b s) as [[x ?] ?]; destruct x as [[?|]| |]
  | |- context [do_listen ?a ?s] => is_var s; let x := fresh "x" in destruct (do_listen a s) as [[x ?] ?]; destruct x as [[?|]| |]
  | |- context [cb_value ?a ?b ?s] => is_var s; destruct (cb_value a b s) as [[? ?] ?]
  | |- context [pop_tagact ?s] => is_var s; let x := fresh "x" in destruct (pop_tagact s) as [[x ?] ?]; destruct x
  | |- context [pop_present ?s] => is_var s; let x := fresh "x" in destruct (pop_present s) as [[x ?] ?]; destruct x
  | |- context [pop_llcact ?s] => is_var s; let x := fresh "x" in destruct (pop_llcact s) as [[x ?] ?]; destruct x
  | |- context [pop_llcrun ?s] => is_var s; let x := fresh "x" in destruct (pop_llcrun s) as [[x ?] ?]; destruct x
  | |- context [pop_emulate ?s] => is_var s; let x := fresh "x" in destruct (pop_emulate s) as [[x ?] ?]; destruct x
  | |- context [pop_card ?s] => is_var s; let x := fresh "x" in destruct (pop_card s) as [[x ?] ?]; destruct x
  | |- context [poll_term ?a ?s] => is_var s; let x := fresh "x" in destruct (poll_term a s) as [[x ?] ?]; destruct x
  | |- context [run_polls ?a ?b ?s] => is_var s; let x := fresh "x" in destruct (run_polls a b s) as [[x ?] ?]; destruct x
  | |- context [presence_loop ?a ?b ?s] => is_var s; let x := fresh "x" in destruct (presence_loop a b s) as [[x ?] ?]; destruct x
  | |- context [card_loop ?a ?b ?s] => is_var s; let x := fresh "x" in destruct (card_loop a b s) as [[x ?] ?]; destruct x
  | |- context [run_block ?a ?s] => is_var s; let x := fresh "x" in destruct (run_block a s) as [[x ?] ?]
  | |- context [truthy ?v] => is_var v; destruct (truthy v) eqn:?
  | |- context [if ?c then _ else _] => destruct c eqn:?
  | |- context [match ?x with _ => _ end] => is_var x; destruct x
  end.
Ltac fin := simp; cbn [out_of_hold]; lnorm; reflexivity.
Ltac steps loop_rw := repeat (simp; try fin; prim loop_rw); simp; try fin.


(* while not terminate() and tag.is_present: time.sleep(0.1) *)
Lemma presence_wloop cx F (cond : env -> M eres) (body : env -> M outcome) :
  (forall r s, cond r s = eval cx (EAnd (ENot (EAct ATerminate)) (EAct AIsPresent)) r s) ->
  (forall r s, body r s = exec cx F (SExpr (EAct ASleep)) r s) ->
  forall fuel r s, wloop cond body fuel r s =
    (let '(h, l, s') := presence_loop fuel (cx_has_term cx) s in (out_of_hold r h, l, s')).
Proof.
  intros Hc Hb. induction fuel as [|f IH]; intros r s.
  - reflexivity.
  - cbn [wloop presence_loop]. unfold bind at 1. rewrite Hc. cbn [eval do_action]. expose.
    destruct (poll_term (cx_has_term cx) s) as [[t l1] s1]. destruct t; simp; [fin|].
    destruct (pop_present s1) as [[p l2] s2]. destruct p; simp; try fin.
    rewrite Hb. cbn [exec eval do_action]. expose. simp. rewrite IH.
    destruct (presence_loop f (cx_has_term cx) s2) as [[h l3] s3]. fin.
Qed.

Ltac unroll := cbn [exec eval do_action handle_exn floop cx_blk cx_has_term cx_inner cx_user cx_targets cx_iters cx_beep
                    cx_role cx_ltarget cx_active cx_rdwr cx_llcp cx_card cx_main rr_opts rr_targets cr_opts cr_target].

Theorem bridge_rdwr_connect : forall fuel has rr s,
  rdwr_connect fuel has rr s = run_body (cx_rdwr fuel has rr) fuel gen_rdwr_connect s.
Proof.
  intros. unfold rdwr_connect, run_body, gen_rdwr_connect. unroll.
  steps ltac:(erewrite (presence_wloop (cx_rdwr fuel has rr) fuel) by (intros; reflexivity); unroll).
Qed.

Theorem bridge_llcp_connect : forall has o s,
  llcp_connect has o s = run_body (cx_llcp has o) O gen_llcp_connect s.
Proof.
  intros has [st c r role] s. unfold llcp_connect, llcp_role, run_body, gen_llcp_connect.
  destruct role; cbn [role_enabled l_role negb]; unroll; cbn [l_role l_connect l_release]; steps fail.
Qed.

(* while not terminate(): try: cmd = send_response(rsp); rsp = process_command(cmd)
                          except BrokenLinkError: break   except CommunicationError: rsp = None *)
Definition card_body : stmt :=
  STry (SSeq (SAssign XCmd (EAct ASendResponse)) (SAssign XRsp (EAct AProcess)))
       (HCons EcBrokenLink SBreak (HCons EcCommError (SAssign XRsp ENone) HNil)).

Lemma card_wloop cx F (cond : env -> M eres) (body : env -> M outcome) :
  (forall r s, cond r s = eval cx (ENot (EAct ATerminate)) r s) ->
  (forall r s, body r s = exec cx F card_body r s) ->
  forall fuel r s, exists r',
    wloop cond body fuel r s =
    (let '(h, l, s') := card_loop fuel (cx_has_term cx) s in (out_of_hold r' h, l, s')).
Proof.
  intros Hc Hb. induction fuel as [|f IH]; intros r s.
  - exists r. reflexivity.
  - cbn [wloop card_loop]. unfold bind at 1. rewrite Hc. cbn [eval do_action]. expose.
    destruct (poll_term (cx_has_term cx) s) as [[t l1] s1]. destruct t; simp; [exists r; fin|].
    rewrite Hb. unfold card_body. cbn [exec eval do_action handle_exn]. expose. simp.
    destruct (pop_card s1) as [[p l2] s2]. destruct p; simp.
    + destruct (IH (upd (upd r XCmd UNone) XRsp UNone) s2) as [r' E]. exists r'. rewrite E.
      destruct (card_loop f (cx_has_term cx) s2) as [[h l3] s3]. fin.
    + exists r. fin.
    + destruct (IH (upd r XRsp UNone) s2) as [r' E]. exists r'. rewrite E.
      destruct (card_loop f (cx_has_term cx) s2) as [[h l3] s3]. fin.
    + exists r. fin.
    + exists r. fin.
Qed.

Theorem bridge_card_connect : forall fuel has cr s,
  card_connect fuel has cr s = run_body (cx_card fuel has cr) fuel gen_card_connect s.
Proof.
  intros. unfold card_connect, run_body, gen_card_connect. unroll.
  steps ltac:(idtac; match goal with |- context [wloop ?cc ?bb ?ff ?rr0 ?ss] =>
     let r' := fresh "r" in let E := fresh "E" in
     destruct (card_wloop (cx_card fuel has cr) fuel cc bb (fun _ _ => eq_refl) (fun _ _ => eq_refl) ff rr0 ss) as [r' E];
     rewrite E; clear E; unroll end).
Qed.

(* ------------------------------------------------------------------ the main loop of connect() *)
Definition bres_valid (r : bres) : Prop := match r with BRet RNone | BRet RFalse => False | _ => True end.
Lemma rdwr_valid fuel has rr s r l s' : rdwr_connect fuel has rr s = (r, l, s') -> bres_valid r.
Proof. unfold rdwr_connect. intro H. minv H; subst; exact I. Qed.
Lemma card_valid fuel has cr s r l s' : card_connect fuel has cr s = (r, l, s') -> bres_valid r.
Proof. unfold card_connect. intro H. minv H; subst; exact I. Qed.
Lemma llcp_role_valid has o m s x l s' : llcp_role has o m s = (x, l, s') ->
  match x with Some b => bres_valid b /\ b <> BNone | None => True end.
Proof. unfold llcp_role. intro H. minv H; subst; try exact I; split; try exact I; discriminate. Qed.
Lemma llcp_valid has o s r l s' : llcp_connect has o s = (r, l, s') -> bres_valid r.
Proof.
  unfold llcp_connect. intro H. minv_bind H x1 l1 s1 l2 H1 H2. apply llcp_role_valid in H1.
  destruct x1 as [b|].
  - apply ret_inv in H2. destruct H2 as (-> & _ & _). tauto.
  - minv_bind H2 x2 l3 s3 l4 H3 H4. apply llcp_role_valid in H3.
    destruct x2; apply ret_inv in H4; destruct H4 as (-> & _ & _); [tauto | exact I].
Qed.
Lemma run_block_valid (m : option (M bres)) s r l s' :
  (forall f, m = Some f -> forall s r l s', f s = (r, l, s') -> bres_valid r) ->
  run_block m s = (r, l, s') -> bres_valid r.
Proof. intros Hf H. destruct m; cbn in H; [eapply Hf; eauto|]. inversion H; exact I. Qed.

Definition round_body (b : blk) : stmt :=
  SIf (EBlockOn b) (SSeq (SAssign XResult (EAct (ASub b))) (SIf (EBoolIsTrue (EVar XResult)) (SReturn (EVar XResult)) SSkip)) SSkip.
Definition main_body : stmt := SSeq (round_body Rdwr) (SSeq (round_body Llcp) (round_body Card)).

(* result of connect() for an outcome of the loop, after the except clauses (all of them: return False) *)
Definition hpost (o : outcome) : out rv :=
  match o with
  | ORaise (XE e) => handle e
  | x => out_of x
  end.

Lemma main_wloop inner has a (cond : env -> M eres) (body : env -> M outcome) F :
  (forall r s, cond r s = eval (cx_main inner has a) (ENot (EAct ATerminate)) r s) ->
  (forall r s, body r s = exec (cx_main inner has a) F main_body r s) ->
  forall fuel r s,
    main_loop fuel inner has a s = (let '(o, l, s') := wloop cond body fuel r s in (hpost o, l, s')).
Proof.
  intros Hc Hb. induction fuel as [|f IH]; intros r s.
  - reflexivity.
  - cbn [wloop main_loop]. expose. rewrite Hc. cbn [eval do_action cx_has_term cx_main]. expose.
    destruct (poll_term has s) as [[t l1] s1]. destruct t; simp; [fin|].
    rewrite Hb. unfold main_body, round_body. unroll. cbn [block_on]. expose. simp.
    (* the three blocks in turn; a block result is None (go on), True / an object (return it) or an exception *)
    destruct (a_rdwr a) as [rr|] eqn:Er; cbn [option_map run_block]; simp.
    1: destruct (rdwr_connect inner has rr s1) as [[x1 l2] s2] eqn:E1; pose proof (rdwr_valid _ _ _ _ _ _ _ E1) as W1;
       destruct x1 as [|[| | |b1]|e1|]; try contradiction; simp; try fin; try (destruct e1; fin).
    all: destruct (a_llcp a) as [lo|] eqn:El; cbn [option_map run_block]; simp.
    1, 3: match goal with |- context [llcp_connect ?hh ?oo ?st] =>
            destruct (llcp_connect hh oo st) as [[x2 l3] s3] eqn:E2; pose proof (llcp_valid _ _ _ _ _ _ E2) as W2;
            destruct x2 as [|[| | |b2]|e2|]; try contradiction; simp; try fin; try (destruct e2; fin) end.
    all: destruct (a_card a) as [cr|] eqn:Ec; cbn [option_map run_block]; simp.
    1, 3, 5, 7: match goal with |- context [card_connect ?ii ?hh ?cc ?st] =>
            destruct (card_connect ii hh cc st) as [[x3 l4] s4] eqn:E3; pose proof (card_valid _ _ _ _ _ _ _ E3) as W3;
            destruct x3 as [|[| | |b3]|e3|]; try contradiction; simp; try fin; try (destruct e3; fin) end.
    all: match goal with IH0 : forall r s, _ = _ |- context [wloop ?cc ?bb ?ff ?rr0 ?st] =>
           rewrite (IH0 rr0 st); destruct (wloop cc bb ff rr0 st) as [[o l5] s5]; fin end.
Qed.

Theorem bridge_main_loop : forall fuel inner has a s,
  main_loop fuel inner has a s = run_main (cx_main inner has a) fuel gen_main_loop s.
Proof.
  intros. unfold run_main, gen_main_loop. cbn [exec]. expose.
  match goal with |- context [wloop ?cc ?bb ?ff ?rr ?st] =>
    rewrite (main_wloop inner has a cc bb fuel (fun _ _ => eq_refl) (fun _ _ => eq_refl) ff rr st);
    destruct (wloop cc bb ff rr st) as [[o l] s'] end.
  destruct o as [r|r|v|ex|]; cbn [handle_exn catches hpost out_of]; simp; try fin.
  destruct ex as [e| |]; [destruct e|..]; cbn [handle_exn catches hpost out_of handle exec eval]; simp; fin.
Qed.

(* ================================================================== sense / listen / exchange *)
Theorem bridge_exchange : forall dev stored, exchange dev stored = exchange_i gen_exchange_skel dev stored.
Proof. intros [|] [[c i j p|n]|]; reflexivity. Qed.

Theorem bridge_listen : forall dev n t o stored, listen dev n t o stored = listen_i gen_listen_skel dev n t o stored.
Proof. intros [|] n [] [] stored; reflexivity. Qed.

Theorem bridge_dispatch : forall t, is_remote t = true -> dispatch_of t = dispatch_i gen_sense_skel t.
Proof. intros [] H; try reflexivity; discriminate. Qed.
Theorem bridge_accepted : forall d o, accepted d o = accepted_i gen_sense_skel d o.
Proof. intros [] []; reflexivity. Qed.
Theorem bridge_niter : forall iters, niter iters = Z.to_nat (gen_sense_niter iters).
Proof. reflexivity. Qed.

Lemma bridge_scan single call i tb : forall ts j, forallb is_remote ts = true ->
  scan_i gen_sense_skel single call i tb ts j None =
  (let '(r, l) := scan single call i tb ts j in (r, l, match r with Found t => Some t | _ => None end)).
Proof.
  induction ts as [|t ts IH]; intros j H; [reflexivity|].
  cbn [forallb] in H. apply andb_true_iff in H. destruct H as [Ht Hts].
  cbn [scan_i scan]. rewrite <- (bridge_dispatch t Ht). destruct (dispatch_of t) as [d| |]; try reflexivity.
  - rewrite <- bridge_accepted. destruct (accepted d (lookup tb i j)) as [p|] eqn:Ea; [reflexivity|].
    destruct (lookup tb i j) eqn:El; try reflexivity; try discriminate;
      cbn [swallowed gen_sense_skel ss_except negb]; try (destruct single; cbn [negb]; try reflexivity);
      rewrite (IH (S j) Hts); destruct (scan _ call i tb ts (S j)) as [r l]; reflexivity.
  - cbn [swallowed gen_sense_skel ss_except negb]. destruct single; cbn [negb]; [reflexivity|]. apply IH, Hts.
Qed.

Lemma bridge_iterate single nonempty call tb ts : forallb is_remote ts = true -> forall n i,
  iterate_i gen_sense_skel single nonempty call tb ts n i None =
  (let '(r, l) := iterate single nonempty call tb ts n i in (r, l, match r with Ret (Some t) => Some t | _ => None end)).
Proof.
  intros H. induction n as [|n IH]; intro i; [reflexivity|].
  cbn [iterate_i iterate]. rewrite (bridge_scan single call i tb ts 0 H).
  destruct (scan single call i tb ts 0) as [r l]. destruct r as [|t|e]; try reflexivity.
  rewrite IH. destruct (iterate single nonempty call tb ts n (S i)) as [r' l']. reflexivity.
Qed.

Theorem bridge_sense : forall dev call ts iters tb stored,
  sense dev call ts iters tb stored =
  sense_i gen_sense_skel (fun z => Z.to_nat (gen_sense_niter z)) dev call ts iters tb stored.
Proof.
  intros. unfold sense, sense_i. cbn [gen_sense_skel ss_prologue run_prologue].
  destruct (forallb is_remote ts) eqn:Hr; cbn [negb]; [|reflexivity].
  destruct dev; cbn [negb]; [|reflexivity].
  rewrite (bridge_iterate _ _ _ _ _ Hr). change (Z.to_nat (gen_sense_niter iters)) with (niter iters).
  destruct (iterate (is_single ts) (is_nonempty ts) call tb ts (niter iters) 0) as [r l]. reflexivity.
Qed.

(* ================================================================== option preparation and connect() as a whole *)
Theorem bridge_defaults :
  default_targets = gen_default_targets /\ gen_default_iterations = 5%Z /\ gen_default_beep = true /\
  (forall a b, gen_on_discover a b = negb (a || b)) /\
  forallb (fun e => forallb snd (se_cb_defaults e)) gen_startup = true.
Proof. repeat split. intros [|] [|]; reflexivity. Qed.

Theorem bridge_connect : forall dev o fuel inner s,
  connect dev o fuel inner s = connect_i gen_startup gen_default_targets gen_main_loop dev o fuel inner s.
Proof.
  intros dev o fuel inner s. unfold connect, connect_i. destruct dev; cbn [negb]; [|reflexivity].
  unfold gen_startup, startup_run, startup_entry_run, startup_llcp, startup_rdwr, startup_card. cbn [se_blk se_keep se_default].
  destruct o as [orr ol oc ot]. cbn [o_rdwr o_llcp o_card o_term].
  destruct ol as [[ls lc lr lrole]|]; [destruct ls|];
  (destruct orr as [[rt rs rd rc rrel ri rb]|]; [destruct rs|]);
  (destruct oc as [[cs cd cc crel]|]; [destruct cs as [|ct|]; [|destruct ct|]|]);
  cbn [l_startup r_startup c_startup r_targets keep_llcp keep_rdwr keep_card user_startup_llcp user_startup_rdwr user_startup_card
       opt_default option_map no_active a_rdwr a_llcp a_card keep_targets];
  expose; cbn beta iota zeta; try reflexivity;
  unfold keep_targets, gen_default_targets, default_targets, no_active;
  repeat match goal with |- context [if ?c then Some ?x else None] => destruct c end;
  cbn [a_rdwr a_llcp a_card option_map no_options]; try reflexivity;
  try match goal with |- context [no_options ?a] => destruct (no_options a) end; cbn beta iota zeta; try reflexivity;
  try rewrite bridge_main_loop;
  try match goal with |- context [run_main ?c ?f ?m ?s0] => destruct (run_main c f m s0) as [[? ?] ?] end;
  cbn [app]; lnorm; reflexivity.
Qed.
