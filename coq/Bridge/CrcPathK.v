(* Bridge: the conditions and the software check cut out of pn53x.py on this run are the ones of Model/CrcPath.v *)
From Coq Require Import ZArith List Bool Lia ZifyBool.
From NV Require Import Base.Result Base.Bytes Base.PyPrims Model.Crc Model.CrcPath Gen.Crc Gen.CrcPathK Bridge.Crc.
Import ListNotations.
Open Scope Z_scope.

Theorem bridge_chip_crc_off s : gen_chip_crc_off s = chip_crc_off s.
Proof. reflexivity. Qed.
Theorem bridge_rxmode_off r : gen_rxmode_off r = rxmode_off r.
Proof. reflexivity. Qed.
Theorem bridge_sw_crc_path s : gen_sw_crc_path s = sw_crc_path s.
Proof. reflexivity. Qed.
Theorem bridge_tt2_rsp data : gen_tt2_rsp data = tt2_rsp data.
Proof.
  unfold gen_tt2_rsp, tt2_rsp. change (Z.opp 2) with (-2).
  destruct (len data >? 2) eqn:E; [|reflexivity].
  rewrite <- bridge_check_crc_a by lia. cbn [bind andb].
  destruct (gen_check_crc_a data); reflexivity.
Qed.
