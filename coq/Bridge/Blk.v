(* Bridge: the expressions, tests and packing statements regenerated from src/nfc/tag/tt3.py and tt4.py
   (Gen/BlkK.v, translate/kspec_tags_blk.py) are the ones Model/T3T.v and Model/T4T.v compute with.  Each
   lemma is a defining / step equation of a model function with the generated kernels in the place of the
   model's own arithmetic; if the source changes one of these expressions the lemma no longer checks. *)
From Coq Require Import ZArith List Bool Lia ZifyBool.
From NV Require Import Base.Result Base.Bytes Base.PyPrims Proofs.Chunks Model.T3T Model.T4T Gen.BlkK.
Import ListNotations.
Open Scope Z_scope.
Ltac Zify.zify_post_hook ::= Z.to_euclidean_division_equations.

(* ---------------------------------------------------------------- general facts about the Python primitives *)
Lemma pyslice_slice {A} (l : list A) a b : 0 <= a <= b -> pyslice l a b = slice l a b.
Proof.
  intros H. unfold pyslice, slice, norm_idx. pose proof (len_nonneg l) as Hn.
  replace (a <? 0) with false by lia. replace (b <? 0) with false by lia.
  rewrite (Z.max_r 0 a) by lia. rewrite (Z.max_r 0 (b - a)) by lia.
  destruct (Z.le_gt_cases b (len l)).
  - rewrite (Z.min_l a), (Z.min_l b) by lia. reflexivity.
  - destruct (Z.le_gt_cases a (len l)).
    + rewrite (Z.min_l a), (Z.min_r b) by lia. unfold len in *. rewrite !firstn_all2; try reflexivity; rewrite skipn_length; lia.
    + rewrite (Z.min_r a), (Z.min_r b) by lia. unfold len in *. rewrite (skipn_all2 (n := Z.to_nat a)) by lia.
      rewrite skipn_all2 by lia. now rewrite !firstn_nil.
Qed.
Lemma pyslice_take {A} (l : list A) b : 0 <= b -> pyslice l 0 b = take b l.
Proof. intro. rewrite pyslice_slice by lia. apply slice_0. Qed.
Lemma pyslice_drop {A} (l : list A) a : 0 <= a -> pyslice l a (len l) = drop a l.
Proof.
  intro H. pose proof (len_nonneg l). destruct (Z.le_gt_cases a (len l)).
  - rewrite pyslice_slice by lia. rewrite slice_take_drop by lia. apply take_all. rewrite len_drop; lia.
  - rewrite drop_all by lia. unfold pyslice, norm_idx. replace (a <? 0) with false by lia. replace (len l <? 0) with false by lia.
    rewrite (Z.min_r a) by lia. rewrite Z.min_id. replace (Z.to_nat (len l - len l)) with 0%nat by lia. reflexivity.
Qed.
Lemma shl8_or c0 c1 : 0 <= c0 < 256 -> 0 <= c1 -> Z.lor (Z.shiftl c1 8) c0 = c1 * 256 + c0.
Proof.
  intros H0 H1. rewrite Z.shiftl_mul_pow2 by lia. change (2 ^ 8) with 256.
  assert (HL : Z.land (c1 * 256) c0 = 0); [| now rewrite <- Z.lxor_lor, Z.add_nocarry_lxor by exact HL].
  apply Z.bits_inj'. intros n Hn. rewrite Z.land_spec, Z.bits_0.
  destruct (Z.lt_ge_cases n 8).
  - replace (c1 * 256) with (c1 * 2 ^ 8) by reflexivity. rewrite Z.mul_pow2_bits_low by lia. reflexivity.
  - assert (Z.testbit c0 n = false).
    { destruct (Z.eq_dec c0 0) as [->|]; [apply Z.bits_0|]. apply Z.bits_above_log2; [lia|].
      assert (Z.log2 c0 < 8) by (apply Z.log2_lt_pow2; lia). lia. }
    rewrite H2. apply andb_false_r.
Qed.

(* ================================================================ Type 3: attribute block *)
(* _read_attribute_data: checksum test and field extraction *)
Lemma bridge_t3_attr_parse d0 d1 d2 d3 d4 d5 d6 d7 d8 d9 d10 d11 d12 d13 d14 d15 :
  let d := [d0; d1; d2; d3; d4; d5; d6; d7; d8; d9; d10; d11; d12; d13; d14; d15] in
  attr_parse d =
  if gen_t3_attr_cksum_bad d then None
  else Some (mkAttrs (gen_t3_attr_ver d) (gen_t3_attr_nbr d) (gen_t3_attr_nbw d) (gen_t3_attr_nmaxb d)
                     (gen_t3_attr_writef d) (gen_t3_attr_rwflag d) (gen_t3_attr_ln d)).
Proof.
  intro d. subst d. unfold attr_parse, gen_t3_attr_cksum_bad.
  change (pyslice [d0; d1; d2; d3; d4; d5; d6; d7; d8; d9; d10; d11; d12; d13; d14; d15] 0 14)
    with (firstn 14 [d0; d1; d2; d3; d4; d5; d6; d7; d8; d9; d10; d11; d12; d13; d14; d15]).
  change (pyslice [d0; d1; d2; d3; d4; d5; d6; d7; d8; d9; d10; d11; d12; d13; d14; d15] 14 16) with [d14; d15].
  change (pyidx [d14; d15] 0) with d14. change (pyidx [d14; d15] 1) with d15.
  change (bt [d0; d1; d2; d3; d4; d5; d6; d7; d8; d9; d10; d11; d12; d13; d14; d15] 14) with d14.
  change (bt [d0; d1; d2; d3; d4; d5; d6; d7; d8; d9; d10; d11; d12; d13; d14; d15] 15) with d15.
  destruct (_ =? _); cbn [negb]; [|reflexivity].
  f_equal. unfold gen_t3_attr_ln. cbv [gen_t3_attr_ver gen_t3_attr_nbr gen_t3_attr_nbw gen_t3_attr_nmaxb gen_t3_attr_writef gen_t3_attr_rwflag].
  change (pyslice [d0; d1; d2; d3; d4; d5; d6; d7; d8; d9; d10; d11; d12; d13; d14; d15] 0 5) with [d0; d1; d2; d3; d4].
  change (pyslice [d0; d1; d2; d3; d4; d5; d6; d7; d8; d9; d10; d11; d12; d13; d14; d15] 9 11) with [d9; d10].
  change (pyslice [d0; d1; d2; d3; d4; d5; d6; d7; d8; d9; d10; d11; d12; d13; d14; d15] 11 14) with [d11; d12; d13].
  cbv [bt nth pyidx Z.ltb Z.compare len length app Z.of_nat Z.to_nat Pos.to_nat Pos.iter_op Nat.add].
  f_equal. lia.
Qed.

(* capacity, readable, writeable as set by _read_attribute_data *)
Lemma bridge_t3_attr_flags a :
  a_nmaxb a * 16 = gen_t3_capacity (a_nmaxb a) /\
  attr_readable a = gen_t3_readable (a_writef a) (a_nbr a) /\
  attr_writeable a = gen_t3_writeable (a_rwflag a) (a_nbw a).
Proof. unfold attr_readable, attr_writeable, gen_t3_readable, gen_t3_writeable. rewrite !Z.gtb_ltb. auto. Qed.

(* _write_attribute_data *)
Lemma bridge_t3_attr_build ver nbr nbw nmaxb writef rwflag ln :
  attr_build (mkAttrs ver nbr nbw nmaxb writef rwflag ln) = gen_t3_attr_pack ver nbr nbw nmaxb writef rwflag ln.
Proof. reflexivity. Qed.

(* ================================================================ Type 3: _read_ndef_data *)
(* the guards, last_block_number, nbr = min(Nbr, 15), the batch bounds and the final trim *)
Lemma bridge_t3_read_ndef (S : Type) (rd : S -> list Z -> res (list Z) * S) s :
  read_ndef S rd s =
  match read_attr S rd s with
  | (Ok None, s1) => (Ok NoNdef, s1)
  | (Ok (Some a), s1) =>
    if gen_t3_rd_ver_bad (a_ver a) then (Ok NoNdef, s1) else
    if gen_t3_rd_nbr_zero (a_nbr a) then (Ok NoNdef, s1) else
    if gen_t3_rd_ln_over (a_ln a) (a_nmaxb a) then (Ok NoNdef, s1) else
    let last := gen_t3_rd_last_block (a_ln a) in
    match rd_loop S rd (Z.to_nat last) s1 1 last (gen_t3_rd_nbr (a_nbr a)) [] with
    | (Ok None, s2) => (Ok NoNdef, s2)
    | (Ok (Some d), s2) =>
      (Ok (Ndef (gen_t3_readable (a_writef a) (a_nbr a)) (gen_t3_writeable (a_rwflag a) (a_nbw a))
                (gen_t3_capacity (a_nmaxb a)) (take (a_ln a) d)), s2)
    | (Err e, s2) => (Err e, s2) | (Crash c, s2) => (Crash c, s2) | (Hang, s2) => (Hang, s2)
    end
  | (Err e, s1) => (Err e, s1) | (Crash c, s1) => (Crash c, s1) | (Hang, s1) => (Hang, s1)
  end.
Proof.
  unfold read_ndef. destruct (read_attr S rd s) as [[[a|]| | |] s1]; try reflexivity.
  unfold gen_t3_rd_ver_bad. rewrite Z.shiftr_div_pow2 by lia. change (2 ^ 4) with 16.
  destruct (bridge_t3_attr_flags a) as (_ & <- & <-). reflexivity.
Qed.
Lemma bridge_t3_rd_trim d ln : 0 <= ln -> take ln d = gen_t3_rd_trim d ln.
Proof. intro. unfold gen_t3_rd_trim. now rewrite pyslice_take. Qed.
(* for i in range(1, last, nbr): last_block = min(i + nbr, last); read range(i, last_block) *)
Lemma bridge_t3_rd_loop (S : Type) (rd : S -> list Z -> res (list Z) * S) f s i last nbr acc :
  rd_loop S rd (Datatypes.S f) s i last nbr acc =
  if i <? last then
    match rd s (zrange i (gen_t3_rd_batch_end i nbr last)) with
    | (Ok d, s1) => rd_loop S rd f s1 (i + nbr) last nbr (acc ++ d)
    | (Err _, s1) => (Ok None, s1)
    | (Crash c, s1) => (Crash c, s1)
    | (Hang, s1) => (Hang, s1)
    end
  else (Ok (Some acc), s).
Proof. reflexivity. Qed.

(* ================================================================ Type 3: _write_ndef_data *)
Lemma bridge_t3_write_plan a data :
  wr_batch a (len data) = gen_t3_wr_nbw (a_nbw a) (gen_t3_wr_last_block data) /\
  pad16 data = gen_t3_wr_pad data /\
  plan_head a = ([0], gen_t3_attr_pack (a_ver a) (a_nbr a) (a_nbw a) (a_nmaxb a) gen_t3_writef_busy (a_rwflag a) (a_ln a)) /\
  plan_tail a data = ([0], gen_t3_attr_pack (a_ver a) (a_nbr a) (a_nbw a) (a_nmaxb a) gen_t3_writef_done (a_rwflag a) (gen_t3_wr_ln data)).
Proof. repeat split; reflexivity. Qed.

(* for i in range(1, last, nbw): last_block = min(i + nbw, last); data[(i-1)*16:(last_block-1)*16] to range(i, last_block) *)
Lemma bridge_t3_batches f data i nbw : 1 <= i -> 1 <= nbw -> len data mod 16 = 0 -> 16 * (i - 1) < len data ->
  let last := 1 + len data / 16 in
  let lb := gen_t3_wr_batch_end i nbw last in
  batches (Datatypes.S f) i nbw (drop (16 * (i - 1)) data) =
  (zrange i lb, gen_t3_wr_batch_data data i lb) :: batches f (i + nbw) nbw (drop (16 * (i + nbw - 1)) data).
Proof.
  intros Hi Hn Hm Hlt last lb. pose proof (len_nonneg data) as H0.
  assert (Hd : len (drop (16 * (i - 1)) data) = len data - 16 * (i - 1)) by (rewrite len_drop; lia).
  destruct (drop (16 * (i - 1)) data) as [|x r] eqn:E; [change (len (@nil Z)) with 0 in Hd; lia|]. rewrite <- E in *.
  assert (Hunf : batches (Datatypes.S f) i nbw (x :: r) =
                 (zrange i (i + len (take (16 * nbw) (x :: r)) / 16), take (16 * nbw) (x :: r)) :: batches f (i + nbw) nbw (drop (16 * nbw) (x :: r)))
    by reflexivity.
  rewrite <- E in Hunf. rewrite Hunf. clear Hunf.
  unfold gen_t3_wr_batch_data. subst lb last. unfold gen_t3_wr_batch_end.
  rewrite drop_drop by lia. replace (16 * (i - 1) + 16 * nbw) with (16 * (i + nbw - 1)) by lia.
  f_equal. destruct (Z.le_gt_cases (i + nbw) (1 + len data / 16)).
  - rewrite Z.min_l by lia. rewrite pyslice_slice by lia. rewrite slice_take_drop by lia.
    replace ((i + nbw - 1) * 16 - (i - 1) * 16) with (16 * nbw) by lia. replace ((i - 1) * 16) with (16 * (i - 1)) by lia.
    rewrite len_take by lia. f_equal. f_equal. lia.
  - rewrite Z.min_r by lia. rewrite pyslice_slice by lia. rewrite slice_take_drop by lia.
    replace ((i - 1) * 16) with (16 * (i - 1)) by lia.
    rewrite (take_all (16 * nbw)) by lia. rewrite take_all by lia. rewrite Hd. f_equal. f_equal. lia.
Qed.

(* ================================================================ Type 3 emulation *)
Lemma pow2_shl i : pow2 i = Z.shiftl 1 (i mod 8).
Proof. unfold pow2. rewrite Z.shiftl_1_l. reflexivity. Qed.

(* block count limit, status flags and the response of read_without_encryption *)
Lemma bridge_emu_read mem nb es :
  emu_read mem ([1; 11; 0; nb] ++ es) =
  if gen_emu_rd_too_many nb then Ok (gen_emu_rd_status_too_many 0) else
  do pb <- parse_blks (Z.to_nat nb) 0 [11] es [];
  match pb with inr i => Ok (gen_emu_rd_status_bad_index i) | inl (bl, _) => Ok (emu_rd_blocks mem 0 bl []) end.
Proof.
  assert (E : forall i, [pow2 i; 163] = gen_emu_rd_status_bad_index i) by (intro; unfold gen_emu_rd_status_bad_index; now rewrite pow2_shl).
  change (emu_read mem ([1; 11; 0; nb] ++ es)) with
    (if nb >? 15 then Ok [255; 162] else
     do pb <- parse_blks (Z.to_nat nb) 0 [11] es [];
     match pb with inr i => Ok [pow2 i; 163] | inl (bl, _) => Ok (emu_rd_blocks mem 0 bl []) end).
  unfold gen_emu_rd_too_many. destruct (nb >? 15); [reflexivity|].
  destruct (parse_blks (Z.to_nat nb) 0 [11] es []) as [[[bl r]|i]| | |]; cbn [bind]; try reflexivity. now rewrite E.
Qed.
Lemma bridge_emu_svc_unknown mem nb c0 c1 es : svc_known (c1 * 256 + c0) = false ->
  emu_read mem ([1; c0; c1; nb] ++ es) = Ok (gen_emu_rd_status_svc_unknown 0) /\
  emu_write mem ([1; c0; c1; nb] ++ es) = (Ok (gen_emu_wr_status_svc_unknown 0), mem).
Proof.
  intro H. unfold emu_read, emu_write.
  change (idx ([1; c0; c1; nb] ++ es) 0) with (Ok 1). cbn [bind]. change (Z.to_nat 1) with 1%nat. cbn [parse_svcs].
  change (drop 1 ([1; c0; c1; nb] ++ es)) with (c0 :: c1 :: nb :: es).
  change (idx (c0 :: c1 :: nb :: es) 1) with (Ok c1). change (idx (c0 :: c1 :: nb :: es) 0) with (Ok c0). cbn [bind].
  rewrite H. split; reflexivity.
Qed.
Lemma bridge_emu_rd_blocks mem i sc bn r acc :
  emu_rd_blocks mem i [] acc = gen_emu_rd_ok acc /\
  emu_rd_blocks mem i ((sc, bn) :: r) acc =
  match app_read mem bn with None => gen_emu_rd_status_no_block i | Some d => emu_rd_blocks mem (i + 1) r (acc ++ d) end.
Proof. split; [reflexivity|]. cbn [emu_rd_blocks]. unfold gen_emu_rd_status_no_block. now rewrite pow2_shl. Qed.

(* block list element decoding (both methods) *)
Lemma bridge_emu_parse_blks n i svcs c0 rest acc :
  parse_blks (Datatypes.S n) i svcs (c0 :: rest) acc =
  match nth_error svcs (Z.to_nat (gen_emu_rd_service_index c0)) with
  | None => Ok (inr i)
  | Some sc =>
    if gen_emu_rd_elem2 c0 then do bn <- idx (c0 :: rest) 1; parse_blks n (i + 1) svcs (drop 2 (c0 :: rest)) ((sc, gen_emu_rd_bn2 bn) :: acc)
    else do c2 <- idx (c0 :: rest) 2; do c1 <- idx (c0 :: rest) 1;
         parse_blks n (i + 1) svcs (drop 3 (c0 :: rest)) ((sc, c2 * 256 + c1) :: acc)
  end /\
  gen_emu_wr_service_index c0 = gen_emu_rd_service_index c0 /\ gen_emu_wr_elem2 c0 = gen_emu_rd_elem2 c0 /\
  (forall c1, gen_emu_wr_bn2 c1 = gen_emu_rd_bn2 c1).
Proof. repeat split; reflexivity. Qed.
Lemma bridge_emu_codes c0 c1 c2 : 0 <= c0 < 256 -> 0 <= c1 < 256 -> 0 <= c2 ->
  c1 * 256 + c0 = gen_emu_rd_service_code c0 c1 /\ c1 * 256 + c0 = gen_emu_wr_service_code c0 c1 /\
  c2 * 256 + c1 = gen_emu_rd_bn3 c1 c2 /\ c2 * 256 + c1 = gen_emu_wr_bn3 c1 c2.
Proof. intros. unfold gen_emu_rd_service_code, gen_emu_wr_service_code, gen_emu_rd_bn3, gen_emu_wr_bn3. rewrite !shl8_or by lia. auto. Qed.

(* write_without_encryption: data size test, per-block data, status flags *)
Lemma bridge_emu_write mem nb rest :
  emu_write mem ([1; 9; 0; nb] ++ rest) =
  match (do pb <- parse_blks (Z.to_nat nb) 0 [9] rest [];
         match pb with
         | inr i => Ok (inl (gen_emu_wr_status_bad_index i))
         | inl (bl, rest') => if gen_emu_wr_bad_size (len rest') then Ok (inl (gen_emu_wr_status_bad_size 0)) else Ok (inr (bl, rest'))
         end) with
  | Ok (inl st) => (Ok st, mem)
  | Ok (inr (bl, rest')) => emu_wr_blocks mem 0 bl rest'
  | Err e => (Err e, mem) | Crash c => (Crash c, mem) | Hang => (Hang, mem)
  end.
Proof.
  assert (E : forall i, [pow2 i; 163] = gen_emu_wr_status_bad_index i) by (intro; unfold gen_emu_wr_status_bad_index; now rewrite pow2_shl).
  change (emu_write mem ([1; 9; 0; nb] ++ rest)) with
  (match (do pb <- parse_blks (Z.to_nat nb) 0 [9] rest [];
         match pb with
         | inr i => Ok (inl [pow2 i; 163])
         | inl (bl, rest') => if negb (len rest' mod 16 =? 0) then Ok (inl [255; 162]) else Ok (inr (bl, rest'))
         end) with
  | Ok (inl st) => (Ok st, mem)
  | Ok (inr (bl, rest')) => emu_wr_blocks mem 0 bl rest'
  | Err e => (Err e, mem) | Crash c => (Crash c, mem) | Hang => (Hang, mem)
  end).
  destruct (parse_blks (Z.to_nat nb) 0 [9] rest []) as [[[bl r]|i]| | |]; cbn [bind]; try reflexivity. now rewrite E.
Qed.
Lemma bridge_emu_wr_blocks mem i bn r data : 0 <= i ->
  emu_wr_blocks mem i [] data = (Ok gen_emu_wr_ok, mem) /\
  emu_wr_blocks mem i ((9, bn) :: r) data =
  match app_write mem bn (gen_emu_wr_block_data data i) with
  | None => (Ok (gen_emu_wr_status_no_block i), mem)
  | Some mem1 => emu_wr_blocks mem1 (i + 1) r data
  end.
Proof.
  intro Hi. split; [reflexivity|]. cbn [emu_wr_blocks]. change (9 =? 9) with true. cbv iota.
  unfold gen_emu_wr_block_data, gen_emu_wr_status_no_block. rewrite pyslice_slice by lia. rewrite <- pow2_shl.
  replace (i * 16) with (16 * i) by lia. replace ((i + 1) * 16) with (16 * i + 16) by lia. reflexivity.
Qed.

(* ================================================================ Type 4: READ BINARY / UPDATE BINARY *)
(* (p1, p2) = pack(">H", offset) *)
Lemma bridge_t4_apdu_offsets off mrl d :
  apdu_of_op (RdBin off mrl) =
    (if (off <? 0) || (off >? 65535) then Crash StructErr
     else let p := gen_t4_rd_offset off in short_apdu 0 176 (pyidx p 0) (pyidx p 1) [] mrl) /\
  apdu_of_op (UpBin off d) =
    (if (off <? 0) || (off >? 65535) then Crash StructErr
     else let p := gen_t4_up_offset off in short_apdu 0 214 (pyidx p 0) (pyidx p 1) d 0).
Proof. split; reflexivity. Qed.

(* max_data = min(self._max_le, size) and the excess data test *)
Lemma bridge_t4_read_binary c max_le off size :
  read_binary c max_le off size =
  match t4_send c (RdBin off (gen_t4_rd_size max_le size)) with
  | (Ok d, c1) => if gen_t4_rd_excess (len d) (gen_t4_rd_size max_le size) then (Err (TagCommandError (-2)), c1) else (Ok d, c1)
  | r => r
  end.
Proof. reflexivity. Qed.

(* offset += _update_binary(offset, data[offset:]) with max_data = min(self._max_lc, len(data)), data[:max_data] *)
Lemma bridge_t4_chunks mlc (l : list Z) : l <> [] -> 1 <= mlc ->
  let n := gen_t4_up_size mlc l in
  chunks mlc l = gen_t4_up_chunk l n :: chunks mlc (gen_t4_up_rest l n) /\ len (gen_t4_up_chunk l n) = n.
Proof.
  intros Hl Hm n. pose proof (len_nonneg l). subst n. unfold gen_t4_up_size, gen_t4_up_chunk, gen_t4_up_rest.
  rewrite chunks_cons by assumption. rewrite pyslice_take by lia. rewrite pyslice_drop by lia.
  destruct (Z.le_gt_cases mlc (len l)).
  - rewrite Z.min_l by lia. split; [reflexivity | apply len_take; lia].
  - rewrite Z.min_r by lia. rewrite !take_all, !drop_all by lia. split; reflexivity.
Qed.

(* ================================================================ Type 4: capability container *)
Lemma bridge_t4_cc_pad cap : cc_pad cap = gen_t4_cc_pad cap.
Proof. unfold cc_pad, gen_t4_cc_pad, py_zeros. do 2 f_equal. unfold len. lia. Qed.

Lemma bridge_t4_cc_read a b (cap : list Z) :
  Z.min (be [a; b] - 2) 15 = gen_t4_cc_read_size (gen_t4_cclen [a; b]) /\ (len cap <? 13) = gen_t4_cc_short (len cap).
Proof. split; reflexivity. Qed.

(* field extraction (">BHHB9p", control TLV by tag), version / TLV tests, MLe / MLc clamps, capacity, flags, NLEN size *)
Lemma bridge_t4_cc_fields p2 c0 c1 c2 c3 c4 c5 c6 c7 c8 c9 c10 c11 c12 c13 c14 : 0 <= c6 ->
  let c := [c0; c1; c2; c3; c4; c5; c6; c7; c8; c9; c10; c11; c12; c13; c14] in
  cc_fields p2 c =
  if gen_t4_cc_ver_bad (gen_t4_cc_ver c) then None else
  let tag := gen_t4_cc_tag c in
  let val := gen_t4_cc_val c in
  if gen_t4_cc_tlv_bad tag val then None else
  Some (mkInfo (gen_t4_mle_clamp (gen_t4_cc_mle c)) (gen_t4_mlc_clamp (gen_t4_cc_mlc c))
               (gen_t4_capacity (gen_t4_tlv_mfs tag val) tag)
               (gen_t4_readable (gen_t4_tlv_rf tag val)) (gen_t4_writeable (gen_t4_tlv_wf tag val))
               (gen_t4_nlen_size tag) (gen_t4_tlv_fid tag val) p2).
Proof.
  intros H6 c. subst c. unfold cc_fields, gen_t4_cc_ver_bad. rewrite !Z.shiftr_div_pow2 by lia. change (2 ^ 4) with 16.
  change (gen_t4_cc_ver [c0; c1; c2; c3; c4; c5; c6; c7; c8; c9; c10; c11; c12; c13; c14]) with c0.
  change (bt [c0; c1; c2; c3; c4; c5; c6; c7; c8; c9; c10; c11; c12; c13; c14] 0) with c0.
  destruct (negb ((c0 / 16 =? 1) || (c0 / 16 =? 2) || (c0 / 16 =? 3))); [reflexivity|].
  change (gen_t4_cc_tag [c0; c1; c2; c3; c4; c5; c6; c7; c8; c9; c10; c11; c12; c13; c14]) with c5.
  change (bt [c0; c1; c2; c3; c4; c5; c6; c7; c8; c9; c10; c11; c12; c13; c14] 5) with c5.
  change (bt [c0; c1; c2; c3; c4; c5; c6; c7; c8; c9; c10; c11; c12; c13; c14] 6) with c6.
  unfold gen_t4_cc_val. change (pyidx [c0; c1; c2; c3; c4; c5; c6; c7; c8; c9; c10; c11; c12; c13; c14] 6) with c6.
  assert (Hv : pyslice [c0; c1; c2; c3; c4; c5; c6; c7; c8; c9; c10; c11; c12; c13; c14] 7 (7 + Z.min c6 8) =
               firstn (Z.to_nat (Z.min c6 8)) (skipn 7 [c0; c1; c2; c3; c4; c5; c6; c7; c8; c9; c10; c11; c12; c13; c14])).
  { rewrite pyslice_slice by lia. unfold slice. change (Z.to_nat (Z.max 0 7)) with 7%nat. f_equal. lia. }
  rewrite Hv. clear Hv.
  remember (firstn (Z.to_nat (Z.min c6 8)) (skipn 7 [c0; c1; c2; c3; c4; c5; c6; c7; c8; c9; c10; c11; c12; c13; c14])) as val eqn:Ev.
  clear Ev. cbv zeta. unfold gen_t4_cc_tlv_bad.
  change (bt [c0; c1; c2; c3; c4; c5; c6; c7; c8; c9; c10; c11; c12; c13; c14] 1) with c1.
  change (bt [c0; c1; c2; c3; c4; c5; c6; c7; c8; c9; c10; c11; c12; c13; c14] 2) with c2.
  change (bt [c0; c1; c2; c3; c4; c5; c6; c7; c8; c9; c10; c11; c12; c13; c14] 3) with c3.
  change (bt [c0; c1; c2; c3; c4; c5; c6; c7; c8; c9; c10; c11; c12; c13; c14] 4) with c4.
  change (gen_t4_cc_mle [c0; c1; c2; c3; c4; c5; c6; c7; c8; c9; c10; c11; c12; c13; c14]) with (c1 * 256 + c2).
  change (gen_t4_cc_mlc [c0; c1; c2; c3; c4; c5; c6; c7; c8; c9; c10; c11; c12; c13; c14]) with (c3 * 256 + c4).
  destruct (len val =? 6) eqn:L6.
  - assert (exists v0 v1 v2 v3 v4 v5, val = [v0; v1; v2; v3; v4; v5]) as (v0 & v1 & v2 & v3 & v4 & v5 & ->).
    { apply Z.eqb_eq in L6. unfold len in L6. do 6 (destruct val as [|? val]; [cbn in L6; lia|]). destruct val; [eauto 10 | cbn in L6; lia]. }
    destruct (c5 =? 4) eqn:E4; [apply Z.eqb_eq in E4; subst c5; cbn [andb orb negb]; f_equal; f_equal; unfold gen_t4_capacity, gen_t4_tlv_mfs; cbv [be fold_left firstn skipn pyidx Z.ltb Z.compare nth Z.to_nat Pos.to_nat Pos.iter_op Nat.add Z.eqb Pos.eqb]; lia|].
    destruct (c5 =? 6) eqn:E6; reflexivity.
  - destruct (len val =? 8) eqn:L8.
    + assert (exists v0 v1 v2 v3 v4 v5 v6 v7, val = [v0; v1; v2; v3; v4; v5; v6; v7]) as (v0 & v1 & v2 & v3 & v4 & v5 & v6 & v7 & ->).
      { apply Z.eqb_eq in L8. unfold len in L8. do 8 (destruct val as [|? val]; [cbn in L8; lia|]). destruct val; [eauto 12 | cbn in L8; lia]. }
      destruct (c5 =? 4) eqn:E4; [apply Z.eqb_eq in E4; subst c5; reflexivity|].
      destruct (c5 =? 6) eqn:E6; [apply Z.eqb_eq in E6; subst c5; cbn [andb orb negb]; f_equal; f_equal; unfold gen_t4_capacity, gen_t4_tlv_mfs; cbv [be fold_left firstn skipn pyidx Z.ltb Z.compare nth Z.to_nat Pos.to_nat Pos.iter_op Nat.add Z.eqb Pos.eqb]; lia | reflexivity].
    + rewrite !andb_false_r. reflexivity.
Qed.

(* ================================================================ Type 4: _read_ndef_data *)
Lemma bridge_t4_nlen_read a b c d cap :
  (be [a; b] >? cap) = gen_t4_nlen_over (gen_t4_nlen_unpack 2 [a; b]) cap /\
  (be [a; b; c; d] >? cap) = gen_t4_nlen_over (gen_t4_nlen_unpack 4 [a; b; c; d]) cap /\
  (forall n ns, negb (n =? ns) = gen_t4_nlen_short n ns).
Proof. repeat split; reflexivity. Qed.

(* while len(data) < nlen: part = _read_binary(nlen_size + len(data), nlen - len(data)); empty part -> None *)
Lemma bridge_t4_rd_file f c i nlen acc :
  rd_file (S f) c i nlen acc =
  if gen_t4_rd_more (len acc) nlen then
    lift (read_binary c (i_mle i) (gen_t4_rd_next_offset (i_nlen i) (len acc)) (gen_t4_rd_next_size nlen (len acc))) (fun d c1 =>
      if gen_t4_rd_empty (len d) then (Err (TagCommandError 0), c1) else rd_file f c1 i nlen (acc ++ d))
  else (Ok acc, c).
Proof. reflexivity. Qed.

(* ================================================================ Type 4: _write_ndef_data *)
(* nlen = pack(lfmt, len(data)) *)
Lemma bridge_t4_nlen_bytes ns n : ns = 2 \/ ns = 4 -> 0 <= n < 256 ^ ns -> nlen_bytes ns n = Ok (gen_t4_nlen_pack ns n).
Proof.
  intros [-> | ->] Hn; unfold nlen_bytes, gen_t4_nlen_pack.
  - replace ((n <? 0) || (n >=? 256 ^ 2)) with false by lia. reflexivity.
  - change (256 ^ 4) with 4294967296 in *. replace ((n <? 0) || (n >=? 4294967296)) with false by lia.
    change (4 =? 4) with true. cbv iota. unfold pack_be32. do 2 f_equal. lia.
Qed.
(* the single command decision and the two payloads *)
Lemma bridge_t4_plan i data nl : len nl = i_nlen i -> 0 <= i_nlen i ->
  t4_plan i data nl =
  if gen_t4_single (len nl) (len data) (i_mlc i) then ups (i_mlc i) 0 (gen_t4_payload_single nl data)
  else ups (i_mlc i) 0 (gen_t4_payload_zeroed nl data) ++ ups (i_mlc i) 0 nl.
Proof. intros Hl Hn. unfold t4_plan, gen_t4_single, gen_t4_payload_single, gen_t4_payload_zeroed, py_zeros, zeros. rewrite Hl. reflexivity. Qed.
