(* Bridge/C15Drivers.v - the driver policy of Skel/DriverPolicy.v decided on the facts that
   translate/skel_c15.py regenerated from src/nfc/clf/*.py on this run. *)
From Coq Require Import List String Bool.
From NV Require Import Skel.DriverPolicy Gen.DriverScan.
Import ListNotations.

(* diagnostics (all three are [] when the policy holds) *)
Definition drivers_missing := missing_modules driver_modules.
Definition drivers_bad_imports := bad_imports driver_imports.

(* no driver module creates threads, timers, executors, event loops, signal/exit hooks or
   finalisers that could drive the device outside the calling thread *)
Theorem drivers_synchronous : drivers_ok driver_modules driver_imports driver_flags = true.
Proof. vm_compute. reflexivity. Qed.
