(* Bridge: the response validation of pn53x.Chipset.command (everything after the ACK wait loop), translated
   statement by statement on this run, equals the model function pn53x_parse the C14 theorems are about. *)
From Coq Require Import ZArith List Bool Lia ZifyBool.
From NV Require Import Base.Result Base.Bytes Base.PyPrims Model.Frames Proofs.Frames Gen.FramesK.
Import ListNotations.
Open Scope Z_scope.

Lemma pyslice_nonneg {A} (l : list A) a b : 0 <= a -> a <= b ->
  pyslice l a b = firstn (Z.to_nat (b - a)) (skipn (Z.to_nat a) l).
Proof.
  intros Ha Hb. unfold pyslice, norm_idx. pose proof (len_nonneg l) as Hn.
  replace (a <? 0) with false by lia. replace (b <? 0) with false by lia.
  destruct (Z.le_gt_cases a (len l)) as [H1|H1].
  - rewrite (Z.min_l a) by lia. destruct (Z.le_gt_cases b (len l)) as [H2|H2].
    + rewrite Z.min_l by lia. reflexivity.
    + rewrite Z.min_r by lia. unfold len in *.
      rewrite !firstn_all2; try reflexivity; rewrite skipn_length; lia.
  - rewrite (Z.min_r a) by lia. rewrite (Z.min_r b) by lia. unfold len in *.
    rewrite Z.sub_diag. cbn [Z.to_nat firstn].
    rewrite (skipn_all2 l) by lia. rewrite firstn_nil. reflexivity.
Qed.

Lemma pyslice_to_end {A} (l : list A) n : 0 <= n -> pyslice l n (len l) = skipn (Z.to_nat n) l.
Proof.
  intro Hn. pose proof (len_nonneg l) as H0.
  destruct (Z.le_gt_cases n (len l)) as [H|H].
  - rewrite pyslice_nonneg by lia. apply firstn_all2. unfold len in *. rewrite skipn_length. lia.
  - unfold pyslice, norm_idx. replace (n <? 0) with false by lia. replace (len l <? 0) with false by lia.
    rewrite (Z.min_r n (len l)) by lia. rewrite Z.min_id. replace (Z.to_nat (len l - len l)) with 0%nat by lia.
    cbn [firstn]. unfold len in *. symmetry. apply skipn_all2. lia.
Qed.

Lemma pyidx_nonneg l k : 0 <= k -> pyidx l k = nth (Z.to_nat k) l 0.
Proof. intro H. unfold pyidx. replace (k <? 0) with false by lia. cbv iota. replace (k <? 0) with false by lia. reflexivity. Qed.


Lemma removelast_firstn {A} (l : list A) : removelast l = firstn (length l - 1) l.
Proof.
  induction l as [|a l IH]; [reflexivity|].
  destruct l as [|b l]; [reflexivity|].
  change (removelast (a :: b :: l)) with (a :: removelast (b :: l)). rewrite IH.
  cbn [length]. replace (S (S (length l)) - 1)%nat with (S (S (length l) - 1)) by lia.
  reflexivity.
Qed.

Lemma pyslice_but_last (l : list Z) : pyslice l 0 (-1) = but_last l.
Proof.
  unfold but_last. rewrite removelast_firstn.
  unfold pyslice, norm_idx. pose proof (len_nonneg l) as Hn.
  change (0 <? 0) with false. change (-1 <? 0) with true. cbv iota.
  rewrite Z.min_l by lia. cbn [Z.to_nat skipn]. f_equal. unfold len in *. lia.
Qed.

Lemma pyslice_strip2 (l : list Z) : pyslice l 2 (-2) = strip2 l.
Proof.
  unfold strip2. rewrite !removelast_firstn.
  unfold pyslice, norm_idx. pose proof (len_nonneg l) as Hn.
  change (2 <? 0) with false. change (-2 <? 0) with true. cbv iota.
  destruct l as [|a [|b l]].
  - reflexivity.
  - reflexivity.
  - cbn [tl]. rewrite Z.min_l by (unfold len; cbn [length]; lia).
    change (Z.to_nat 2) with 2%nat. cbn [skipn].
    rewrite firstn_firstn. f_equal. rewrite firstn_length. unfold len. cbn [length]. lia.
Qed.

Lemma starts_with_py l p : py_startswith l p = starts_with p l.
Proof. reflexivity. Qed.

Lemma idx_nth0 l k : 0 <= k < len l -> idx l k = Ok (nth (Z.to_nat k) l 0).
Proof.
  intros [H0 H1]. unfold idx. replace (k <? 0) with false by lia.
  destruct (nth_error l (Z.to_nat k)) eqn:E.
  - f_equal. symmetry. apply nth_error_nth with (d := 0) in E. exact E.
  - apply nth_error_None in E. unfold len in H1. lia.
Qed.

(* the common tail, in generated form *)
Definition gen_tail (cmd : Z) (frame : list Z) : res (list Z) :=
  if negb (Z.land (sum (pyslice frame 0 (-1))) 255 =? 0) then Err IOErr else
  if pyidx frame 0 =? 127 then Err (ChipsetError 127) else
  if negb (pyidx frame 0 =? 213) then Err IOErr else
  if negb (pyidx frame 1 =? cmd + 1) then Err IOErr else
  Ok (pyslice frame 2 (-2)).

Lemma gen_tail_eq cmd body : 2 <= len body -> gen_tail cmd body = tail_parse cmd body.
Proof.
  intro H. unfold gen_tail, tail_parse. rewrite pyslice_but_last, pyslice_strip2.
  rewrite (idx_nth0 body 0), (idx_nth0 body 1) by lia. rewrite !pyidx_nonneg by lia.
  cbn [bind Z.to_nat Pos.to_nat Pos.iter_op Nat.add]. reflexivity.
Qed.

Theorem bridge_pn53x_parse cmd frame : bytes_ok frame ->
  gen_pn53x_parse cmd frame = pn53x_parse cmd frame.
Proof.
  intro Hb. rewrite pn53x_parse_unfold. unfold gen_pn53x_parse.
  change (Z.opp 1) with (-1). change (Z.opp 2) with (-2). change (Z.add cmd 1) with (cmd + 1).
  destruct (len frame <? 7) eqn:E7; [reflexivity|].
  rewrite !starts_with_py. change ([0; 0; 255] ++ [255; 255]) with (SOF ++ [255; 255]). change [0; 0; 255] with SOF.
  pose proof (len_nonneg frame) as Hn.
  destruct (starts_with (SOF ++ [255; 255]) frame) eqn:Ex.
  - rewrite !pyslice_nonneg by lia. change (Z.to_nat (8 - 5)) with 3%nat. change (Z.to_nat 5) with 5%nat.
    destruct (negb (Z.land (sum (firstn 3 (skipn 5 frame))) 255 =? 0)); [reflexivity|].
    assert (Hu : unpack_be16 (firstn (Z.to_nat (7 - 5)) (skipn 5 frame)) = byt frame 5 * 256 + byt frame 6).
    { unfold unpack_be16, byt. rewrite !pyidx_nonneg by lia. change (Z.to_nat (7 - 5)) with 2%nat.
      apply starts_with_inv in Ex. destruct Ex as [r ->]. cbn [SOF app] in *.
      destruct r as [|x [|y r]]; try (rewrite !len_cons in E7; cbn in E7; lia). reflexivity. }
    rewrite Hu.
    destruct (negb (byt frame 5 * 256 + byt frame 6 =? len frame - 10)) eqn:E2; [reflexivity|].
    cbn [bind]. rewrite pyslice_to_end by lia. change (Z.to_nat 8) with 8%nat.
    change (if negb (Z.land (sum (pyslice (skipn 8 frame) 0 (-1))) 255 =? 0) then _ else _)
      with (gen_tail cmd (skipn 8 frame)).
    apply gen_tail_eq.
    (* len (skipn 8 frame) = len frame - 8 and len frame - 10 = value >= 0 *)
    apply starts_with_inv in Ex. destruct Ex as [r ->]. cbn [SOF app] in *.
    destruct r as [|x [|y r]]; try (rewrite !len_cons in E7; cbn in E7; lia).
    unfold byt in E2. cbn [nth] in E2.
    do 5 (apply bytes_ok_cons in Hb; destruct Hb as [_ Hb]).
    apply bytes_ok_cons in Hb. destruct Hb as [Hx Hb]. apply bytes_ok_cons in Hb. destruct Hb as [Hy Hb].
    unfold byte_ok in Hx, Hy. unfold len in *. rewrite skipn_length. cbn [length] in *. lia.
  - destruct (starts_with SOF frame) eqn:En; [|reflexivity].
    rewrite !pyslice_nonneg by lia. change (Z.to_nat (5 - 3)) with 2%nat. change (Z.to_nat 3) with 3%nat.
    destruct (negb (Z.land (sum (firstn 2 (skipn 3 frame))) 255 =? 0)); [reflexivity|].
    rewrite pyidx_nonneg by lia. change (nth (Z.to_nat 3) frame 0) with (byt frame 3).
    destruct (negb (byt frame 3 =? len frame - 7)) eqn:E2; [reflexivity|].
    cbn [bind]. rewrite pyslice_to_end by lia. change (Z.to_nat 5) with 5%nat.
    change (if negb (Z.land (sum (pyslice (skipn 5 frame) 0 (-1))) 255 =? 0) then _ else _)
      with (gen_tail cmd (skipn 5 frame)).
    apply gen_tail_eq. unfold len in *. rewrite skipn_length. lia.
Qed.
