(* C04 tie: the kernels regenerated from src/nfc/dep.py on this run (Gen/DepK.v) are the definitions
   Model/Dep.v is built from. *)
From Coq Require Import ZArith List Bool Lia ZifyBool.
From NV Require Import Base.Result Base.Bytes Base.PyPrims Base.Sweep Model.Dep Gen.DepK Proofs.DepCodec.
Import ListNotations.
Open Scope Z_scope.
Ltac Zify.zify_post_hook ::= Z.to_euclidean_division_equations.

(* ---- PDU type constants ---- *)
Lemma bridge_fmt_consts : gen_LastInformation = F_INF /\ gen_MoreInformation = F_MORE /\ gen_PositiveAck = F_ACK /\
  gen_NegativeAck = F_NAK /\ gen_Attention = F_ATN /\ gen_TimeoutExtension = F_RTOX.
Proof. repeat split. Qed.

(* ---- PFB octet ---- *)
Definition pfb_enc_chk (f : Z) : bool :=
  forallb (fun p => forallb (fun n => forallb (fun d =>
    gen_pfb_encode f n d p =? f * 16 + b2z n * 8 + b2z d * 4 + p) [true; false]) [true; false]) (zseq 0 4).
Lemma pfb_enc_sweep : forallb pfb_enc_chk (zseq 0 16) = true. Proof. vm_compute. reflexivity. Qed.

Lemma bridge_pfb_encode d : dep_wf d ->
  gen_pfb_encode (fmt d) (is_some (nad d)) (is_some (did d)) (pni d) = pfb_byte d.
Proof.
  intros [Hf Hp]. pose proof (sweep_lift _ 0 16 pfb_enc_sweep (fmt d) ltac:(cbn; lia)) as H1. unfold pfb_enc_chk in H1.
  pose proof (sweep_lift _ 0 4 H1 (pni d) ltac:(cbn; lia)) as H2. cbv beta in H2.
  unfold pfb_byte. destruct (is_some (nad d)), (is_some (did d)); cbn [forallb andb] in H2;
    repeat (apply andb_prop in H2; destruct H2 as [? H2]); lia.
Qed.

Definition pfb_dec_chk (p : Z) : bool :=
  (gen_pfb_fmt p =? p / 16) && Bool.eqb (gen_pfb_nad p) ((p / 8) mod 2 =? 1) &&
  Bool.eqb (gen_pfb_did p) ((p / 4) mod 2 =? 1) && (gen_pfb_pni p =? p mod 4).
Lemma pfb_dec_sweep : forallb pfb_dec_chk (zseq 0 256) = true. Proof. vm_compute. reflexivity. Qed.

Lemma bridge_pfb_decode p : 0 <= p < 256 ->
  gen_pfb_fmt p = p / 16 /\ gen_pfb_nad p = ((p / 8) mod 2 =? 1) /\ gen_pfb_did p = ((p / 4) mod 2 =? 1) /\ gen_pfb_pni p = p mod 4.
Proof.
  intro H. pose proof (sweep_lift _ 0 256 pfb_dec_sweep p ltac:(cbn; lia)) as C. unfold pfb_dec_chk in C.
  apply andb_prop in C. destruct C as [C C4]. apply andb_prop in C. destruct C as [C C3]. apply andb_prop in C. destruct C as [C1 C2].
  apply Bool.eqb_prop in C2. apply Bool.eqb_prop in C3. repeat split; try assumption; lia.
Qed.

(* DEP_REQ_RES.decode, written with the regenerated field extractors, is the model's dec_dep *)
Theorem bridge_dec_dep p r : 0 <= p < 256 ->
  dec_dep (p :: r) =
  (do x1 <- (if gen_pfb_did p then match r with [] => Err ProtocolError | x :: r' => Ok (Some x, r') end else Ok (None, r));
   do x2 <- (if gen_pfb_nad p then match snd x1 with [] => Err ProtocolError | x :: r' => Ok (Some x, r') end else Ok (None, snd x1));
   Ok (mkdep (gen_pfb_fmt p) (gen_pfb_pni p) (fst x1) (fst x2) (snd x2))).
Proof. intro H. destruct (bridge_pfb_decode p H) as (-> & -> & -> & ->). reflexivity. Qed.

(* ---- packet number steps (all four sites) ---- *)
Lemma land3' a : Z.land a 3 = a mod 4. Proof. change 3 with (Z.ones 2). rewrite Z.land_ones by lia. reflexivity. Qed.
Theorem bridge_pni_next p :
  gen_i_pni_next_1 p = (p + 1) mod 4 /\ gen_i_pni_next_2 p = (p + 1) mod 4 /\
  gen_t_pni_next_1 p = (p + 1) mod 4 /\ gen_t_pni_next_2 p = (p + 1) mod 4.
Proof. unfold gen_i_pni_next_1, gen_i_pni_next_2, gen_t_pni_next_1, gen_t_pni_next_2. rewrite land3'. auto. Qed.

(* ---- payload slicing by self.miu ---- *)
Lemma pyslice0_take (l : list Z) m : 0 <= m -> pyslice l 0 m = take m l.
Proof.
  intro H. rewrite pyslice_0 by lia. unfold slice, take. rewrite (Z.max_l 0 0) by lia. cbn [Z.to_nat skipn].
  rewrite Z.sub_0_r, Z.max_r by lia. reflexivity.
Qed.
Lemma skipn_len_firstn {A} n (l : list A) : skipn (length (firstn n l)) l = skipn n l.
Proof.
  rewrite firstn_length. destruct (Nat.le_ge_cases n (length l)).
  - rewrite Nat.min_l by assumption. reflexivity.
  - rewrite Nat.min_r by assumption. rewrite skipn_all. symmetry. apply skipn_all2. assumption.
Qed.
Theorem bridge_chunks sd miu : 0 <= miu ->
  gen_i_chunk sd miu = take miu sd /\ gen_i_rest sd miu = drop miu sd /\ gen_i_more (gen_i_rest sd miu) = nonempty (drop miu sd) /\
  gen_t_chunk sd miu = take miu sd /\ gen_t_rest sd miu = drop miu sd /\ gen_t_more sd miu = (miu <? len sd).
Proof.
  intro H. unfold gen_i_chunk, gen_i_rest, gen_t_chunk, gen_t_rest, gen_t_more, gen_i_more.
  rewrite !pyslice0_take by assumption. unfold take, drop. rewrite skipn_len_firstn.
  repeat split; try reflexivity; try apply Z.gtb_ltb.
Qed.

(* the loops of the model use exactly these: one iteration of the initiator's send loop, the target's first chunk *)
Theorem bridge_send_loop n fuel ic tc p b sd last timeout w : 0 <= ic_miu ic ->
  send_loop (S n) fuel ic tc p (b :: sd) last timeout w =
  let sd0 := b :: sd in
  let req := i_dep ic (if gen_i_more (gen_i_rest sd0 (ic_miu ic)) then gen_MoreInformation else gen_LastInformation) p
                   (gen_i_chunk sd0 (ic_miu ic)) in
  match srr fuel ic tc p req 1 timeout w with
  | (Ok r0, w1) =>
      match after_rtox fuel ic tc p r0 timeout w1 with
      | (Ok r, w2) =>
          if (fmt r =? gen_PositiveAck) && negb (gen_i_more (gen_i_rest sd0 (ic_miu ic))) then (Err ProtocolError, w2)
          else if negb (pni r =? p) then (Err ProtocolError, w2)
          else send_loop n fuel ic tc (gen_i_pni_next_1 p) (gen_i_rest sd0 (ic_miu ic)) (Some r) timeout w2
      | (Err e, w2) => (Err e, w2) | (Crash c, w2) => (Crash c, w2) | (Hang, w2) => (Hang, w2)
      end
  | (Err e, w1) => (Err e, w1) | (Crash c, w1) => (Crash c, w1) | (Hang, w1) => (Hang, w1)
  end.
Proof.
  intro H. cbv zeta. destruct (bridge_chunks (b :: sd) (ic_miu ic) H) as (-> & -> & -> & _).
  destruct (bridge_pni_next p) as (-> & _). reflexivity.
Qed.

Theorem bridge_start_send c t x resp p : 0 <= tc_miu c -> t_pni t = Some p ->
  t_start_send c t (x :: resp) =
  t_emit t (TSend (x :: resp)) (mkdep (if gen_t_more (x :: resp) (tc_miu c) then gen_MoreInformation else gen_LastInformation) p
                                      (tc_did c) (tc_nad c) (gen_t_chunk (x :: resp) (tc_miu c))).
Proof.
  intros H Hp. destruct (bridge_chunks (x :: resp) (tc_miu c) H) as (_ & _ & _ & -> & _ & ->).
  unfold t_start_send. rewrite Hp. reflexivity.
Qed.

(* ---- RTOX ---- *)
Theorem bridge_rtox x : gen_rtox_bad x = negb ((0 <? x) && (x <? 60)) /\ gen_rtox_mask x = Z.land x 63.
Proof. split; reflexivity. Qed.
Theorem bridge_rtox_loop n fuel ic tc p r timeout w :
  rtox_loop (S n) fuel ic tc p r timeout w =
  match data r with
  | [] => (Err ProtocolError, w)
  | x :: _ =>
      if gen_rtox_bad x then (Err ProtocolError, w) else
      match srr fuel ic tc p (i_dep ic gen_TimeoutExtension 0 [x]) (x * 1) timeout w with
      | (Ok r1, w1) => if fmt r1 =? gen_TimeoutExtension then rtox_loop n fuel ic tc p r1 timeout w1 else (Ok r1, w1)
      | (Err e, w1) => (Err e, w1) | (Crash c, w1) => (Crash c, w1) | (Hang, w1) => (Hang, w1)
      end
  end.
Proof. reflexivity. Qed.
Theorem bridge_after_rtox fuel ic tc p r timeout w :
  after_rtox fuel ic tc p r timeout w = if fmt r =? gen_TimeoutExtension then rtox_loop gen_n_rtox fuel ic tc p r timeout w else (Ok r, w).
Proof. reflexivity. Qed.

(* ---- retry counts and the chained flag of send_dep_req_recv_dep_res ---- *)
Theorem bridge_srr_loop f ic tc p d rwt deadline w :
  srr_loop (S f) ic tc p (PDepReq d) rwt deadline w =
  let timeout := Z.min rwt (deadline - w_now w) in
  if timeout <=? 0 then (Err TimeoutError, w) else
  match srr1 ic tc (PDepReq d) timeout w with
  | (Ok r, w1) => (Ok r, w1)
  | (Err TimeoutError, w1) =>
      match req_atn gen_n_retry_atn ic tc rwt deadline w1 with
      | (Ok _, w2) => srr_loop f ic tc p (PDepReq d) rwt deadline w2
      | (Err e, w2) => (Err e, w2) | (Crash x, w2) => (Crash x, w2) | (Hang, w2) => (Hang, w2)
      end
  | (Err TransmissionError, w1) => req_nak gen_n_retry_nak ic tc p (gen_is_chained (fmt d)) rwt deadline w1
  | (Err e, w1) => (Err e, w1) | (Crash x, w1) => (Crash x, w1) | (Hang, w1) => (Hang, w1)
  end.
Proof. reflexivity. Qed.
Theorem bridge_nak_expected ch f :
  existsb (fun k => f =? k) (gen_nak_expected ch) = (f =? F_INF) || (f =? F_MORE) || (ch && (f =? F_ACK)).
Proof. unfold F_INF, F_MORE, F_ACK. destruct ch; cbn; destruct (f =? 0), (f =? 1), (f =? 4); reflexivity. Qed.

(* ---- frame codec ---- *)
Theorem bridge_encode_frame b body : gen_i_encode_frame b body = encode_frame b body /\ gen_t_encode_frame b body = encode_frame b body.
Proof. split; reflexivity. Qed.

Theorem bridge_strip_frame b f : gen_i_strip_frame b f = strip_frame b f /\ gen_t_strip_frame b f = strip_frame b f.
Proof.
  unfold gen_i_strip_frame, gen_t_strip_frame, strip_frame.
  split; (destruct b; [destruct f as [|x r]; [reflexivity|]; destruct (x =? 240); cbn [negb bind]; [|reflexivity];
                         destruct r as [|l r']; [reflexivity|]; destruct (len (l :: r') =? l); reflexivity
                      | cbn [bind]; destruct f as [|l r']; [reflexivity|]; destruct (len (l :: r') =? l); reflexivity]).
Qed.

Theorem bridge_code_i b f c0 c1 r : strip_frame b f = Ok (c0 :: c1 :: r) -> gen_i_code_bad c0 c1 = true ->
  decode_frame_ini b f = Err ProtocolError.
Proof.
  intros Hs Hc. unfold decode_frame_ini. rewrite Hs. cbn [bind]. unfold gen_i_code_bad in Hc. cbn [existsb] in Hc.
  destruct (c0 =? 213); cbn [negb orb] in *; [|reflexivity].
  destruct (c1 =? 1), (c1 =? 5), (c1 =? 7), (c1 =? 9), (c1 =? 11); cbn in Hc; try discriminate. reflexivity.
Qed.
Theorem bridge_code_t b f c0 c1 r : strip_frame b f = Ok (c0 :: c1 :: r) -> gen_t_code_bad c0 c1 = true ->
  decode_frame_tgt b f = Err ProtocolError.
Proof.
  intros Hs Hc. unfold decode_frame_tgt. rewrite Hs. cbn [bind]. unfold gen_t_code_bad in Hc. cbn [existsb] in Hc.
  destruct (c0 =? 212); cbn [negb orb] in *; [|reflexivity].
  destruct (c1 =? 0), (c1 =? 4), (c1 =? 6), (c1 =? 8), (c1 =? 10); cbn in Hc; try discriminate. reflexivity.
Qed.

(* the target's packet number steps are the regenerated ones *)
Theorem bridge_t_accept_recv c t d acc p : t_pos t = TRecv acc -> t_pni t = Some p ->
  t_accept c t d =
  let t1 := t_set_pni t (gen_t_pni_next_2 p) in
  if negb (pni d =? gen_t_pni_next_2 p) then t_stop t1 (TErr ProtocolError) else t_recv_chain c t1 d acc.
Proof. intros Hp Hn. unfold t_accept. rewrite Hp, Hn. destruct (bridge_pni_next p) as (_ & _ & _ & ->). reflexivity. Qed.

(* ---- activate resets the packet number: a used object starts like a fresh one ---- *)
Theorem bridge_activate p_old t_old app :
  ini_activate p_old = gen_i_activate_pni /\ t_pni (tgt_activate t_old app) = gen_t_activate_pni.
Proof. split; reflexivity. Qed.
