(* C12 tie: the kernels regenerated from src/nfc/tag/tt4.py on this run (Gen/IsoDepK.v) are the
   definitions and predicates of Model/IsoDep.v (and the repaired ATS parse of Model/TagAct.v):
   - the constructors Type4ATag / Type4BTag (whole body) and IsoDepInitiator.__init__
   - every block-deciding / block-building expression of IsoDepInitiator.exchange, and, composed
     along the control skeleton the generator matched, the model's transition function [pcd_absorb]. *)
From Coq Require Import ZArith QArith Qround List Bool Lia ZifyBool.
From NV Require Import Base.Result Base.Bytes Base.Sweep Model.IsoDep Model.TagAct Gen.IsoDepK Proofs.IsoDep.
Import ListNotations.
Open Scope Z_scope.

(* ---------------------------------------------------------------- nfc.tag error numbers *)
Lemma bridge_errno :
  gen_TIMEOUT_ERROR = E_TIMEOUT /\ gen_RECEIVE_ERROR = E_RECEIVE /\ gen_PROTOCOL_ERROR = E_PROTOCOL /\
  gen_send_errno_timeout = E_TIMEOUT /\ gen_send_errno_txerr = E_RECEIVE /\ gen_send_errno_proto = E_PROTOCOL /\
  gen_recv_errno_timeout = E_TIMEOUT /\ gen_recv_errno_txerr = E_RECEIVE /\ gen_recv_errno_proto = E_PROTOCOL.
Proof. repeat split. Qed.

(* ---------------------------------------------------------------- activation arithmetic *)
(* FWT = 4096 / 13.56E6 * 2**FWI as an exact rational *)
Definition fwt_q (fwti : Z) : Q := Qmult (Qdiv (inject_Z 4096) (inject_Z 13560000)) (inject_Z (Z.pow 2 fwti)).

Lemma bridge_dep_miu fsc : gen_dep_miu fsc = fsc - 3.
Proof. reflexivity. Qed.

(* min(int(1/fwt), 5) computed by the code from the float FWT = the integer formula of the model *)
Lemma bridge_n_retry fwti : fwti <= 14 ->
  gen_n_retry_ack (fwt_q fwti) = n_retry_of fwti /\ gen_n_retry_nak (gen_n_retry_ack (fwt_q fwti)) = n_retry_of fwti.
Proof.
  intro H. unfold gen_n_retry_nak. cut (gen_n_retry_ack (fwt_q fwti) = n_retry_of fwti); [intro E; split; exact E|].
  destruct (Z.ltb_spec fwti 0) as [Hn | Hp].
  - unfold gen_n_retry_ack, fwt_q, n_retry_of. rewrite Z.pow_neg_r by lia. reflexivity.
  - assert (Hs : forallb (fun x => gen_n_retry_ack (fwt_q x) =? n_retry_of x) (zseq 0 15) = true) by (vm_compute; reflexivity).
    pose proof (sweep_lift _ 0 15 Hs fwti ltac:(cbn; lia)) as E. cbv beta in E. lia.
Qed.

Lemma fsc_table fsci : fsci <= 8 -> nth (Z.to_nat fsci) [16; 24; 32; 40; 48; 64; 96; 128; 256] 0 = fsc_of fsci.
Proof.
  intro H. unfold fsc_of. assert (Hn : (Z.to_nat fsci <= 8)%nat) by lia.
  destruct (Z.to_nat fsci) as [|[|[|[|[|[|[|[|[|n]]]]]]]]]; try reflexivity. lia.
Qed.

(* clamps, table, device limit: the part of both constructors after FSCI and FWI have been read *)
Lemma t4_tail_eq fsci fwi ms :
  let p := t4_params fsci fwi ms 0 in
  (let f := if fsci >? 8 then 8 else fsci in
   let w := if fwi >? 14 then 4 else fwi in
   let fsc := nth (Z.to_nat f) [16; 24; 32; 40; 48; 64; 96; 128; 256] 0 in
   (if fsc >? ms then ms else fsc, fwt_q w)) = (a_fsc p, fwt_q (a_fwti p)).
Proof.
  cbv zeta. unfold t4_params. cbn [a_fsc a_fwti].
  rewrite fsc_table by (destruct (fsci >? 8) eqn:E; lia). reflexivity.
Qed.

Lemma t4_params_recv fsci fwi ms mr : a_fsc (t4_params fsci fwi ms mr) = a_fsc (t4_params fsci fwi ms 0) /\
  a_fwti (t4_params fsci fwi ms mr) = a_fwti (t4_params fsci fwi ms 0).
Proof. split; reflexivity. Qed.

(* Type4ATag.__init__ (whole body): ProtocolError (None) or the RATS command and the arguments of
   IsoDepInitiator(clf, fsc, fwt), for EVERY answer to select *)
Theorem bridge_t4a_init ms mr ats :
  gen_t4a_init ms mr ats =
  match ats_fsci_fwi ats with
  | Ok (fsci, fwi) => let p := t4_params fsci fwi ms mr in Some (rats_cmd mr, a_fsc p, fwt_q (a_fwti p))
  | _ => None
  end.
Proof.
  unfold gen_t4a_init, ats_fsci_fwi, rats_cmd.
  assert (Htail : forall (cmd : list Z) fsci fwi,
    match (if fsci >? 8 then Some 8 else Some fsci) return option (list Z * Z * Q) with
    | None => None
    | Some v_fsci =>
      match (if fwi >? 14 then Some 4 else Some fwi) with
      | None => None
      | Some v_fwti =>
        match (if nth (Z.to_nat v_fsci) [16; 24; 32; 40; 48; 64; 96; 128; 256] 0 >? ms then Some ms
               else Some (nth (Z.to_nat v_fsci) [16; 24; 32; 40; 48; 64; 96; 128; 256] 0)) with
        | None => None
        | Some v_fsc => Some (cmd, v_fsc, Qmult (Qdiv (inject_Z 4096) (inject_Z 13560000)) (inject_Z (Z.pow 2 v_fwti)))
        end
      end
    end = Some (cmd, a_fsc (t4_params fsci fwi ms mr), fwt_q (a_fwti (t4_params fsci fwi ms mr)))).
  { intros cmd fsci fwi. unfold t4_params, fwt_q. cbn [a_fsc a_fwti].
    destruct (fsci >? 8) eqn:E8; destruct (fwi >? 14) eqn:E14; cbv iota; rewrite fsc_table by lia;
      match goal with |- context [if ?c then Some ms else _] => destruct c end; reflexivity. }
  assert (Hc : (if mr <? 256 then Some [224; 112] else Some [224; 128]) = Some [224; if mr <? 256 then 112 else 128])
    by (destruct (mr <? 256); reflexivity).
  cbv zeta. rewrite Hc.
  destruct ats as [|tl [|t0 rest]].
  - reflexivity.
  - change (len [tl] =? 0) with false. change (len [tl] >? 1) with false. cbv iota. apply Htail.
  - replace (len (tl :: t0 :: rest) =? 0) with false by (rewrite !len_cons; pose proof (len_nonneg rest); lia).
    replace (len (tl :: t0 :: rest) >? 1) with true by (rewrite !len_cons; pose proof (len_nonneg rest); lia).
    cbv iota. change (nth (Z.to_nat 1) (tl :: t0 :: rest) 0) with t0.
    destruct (Z.land t0 32 =? 0) eqn:E32; cbn [negb]; cbv iota.
    + apply Htail.
    + unfold nth_opt. destruct (Z.land t0 16 =? 0) eqn:E16; cbn [negb]; cbv iota.
      * change (2 <? 0) with false. cbv iota. change (Z.to_nat 2) with 2%nat.
        destruct rest as [|ta rest]; [reflexivity|].
        replace (len (tl :: t0 :: ta :: rest) <=? 2) with false by (rewrite !len_cons; pose proof (len_nonneg rest); lia).
        cbv iota. cbn [nth nth_error]. apply Htail.
      * change (3 <? 0) with false. cbv iota. change (Z.to_nat 3) with 3%nat.
        destruct rest as [|ta [|tb rest]]; [reflexivity | reflexivity |].
        replace (len (tl :: t0 :: ta :: tb :: rest) <=? 3) with false by (rewrite !len_cons; pose proof (len_nonneg rest); lia).
        cbv iota. cbn [nth nth_error]. apply Htail.
Qed.

(* ... and what IsoDepInitiator.__init__ makes of these arguments is the model's reader configuration *)
Theorem bridge_t4_dep fsci fwi ms mr :
  let p := t4_params fsci fwi ms mr in
  gen_dep_miu (a_fsc p) = a_miu p /\ gen_n_retry_ack (fwt_q (a_fwti p)) = a_retry p /\
  gen_n_retry_nak (gen_n_retry_ack (fwt_q (a_fwti p))) = a_retry p.
Proof.
  cbv zeta. unfold t4_params. cbn [a_fsc a_miu a_retry a_fwti].
  assert (H : (if fwi >? 14 then 4 else fwi) <= 14) by (destruct (fwi >? 14) eqn:E; lia).
  destruct (bridge_n_retry _ H) as [H1 H2]. repeat split; assumption.
Qed.

(* the model of the code as pinned (fixed indices 1 and 3) agrees on every answer that carries TA(1) and TB(1) *)
Theorem bridge_t4a_params_wellformed ms mr tl t0 ta tb rest p :
  Z.land t0 32 <> 0 -> Z.land t0 16 <> 0 ->
  t4a_params (tl :: t0 :: ta :: tb :: rest) ms mr = Ok p ->
  gen_t4a_init ms mr (tl :: t0 :: ta :: tb :: rest) = Some (rats_cmd mr, a_fsc p, fwt_q (a_fwti p)).
Proof.
  intros H32 H16 Hp. rewrite bridge_t4a_init. unfold ats_fsci_fwi, nth_opt.
  replace (Z.land t0 32 =? 0) with false by lia. replace (Z.land t0 16 =? 0) with false by lia.
  change (3 <? 0) with false. cbv iota. cbn [Z.to_nat Pos.to_nat Pos.iter_op Nat.add nth_error].
  unfold t4a_params in Hp. cbn in Hp. inversion Hp. reflexivity.
Qed.

(* Type4BTag.__init__ (whole body) *)
Theorem bridge_t4b_init ms mr sensb attrib :
  gen_t4b_init ms mr sensb attrib =
  if len sensb <? 12 then None
  else let p := t4_params (Z.shiftr (nth 10 sensb 0) 4) (Z.shiftr (nth 11 sensb 0) 4) ms mr in
       Some (attrib_cmd sensb mr, a_fsc p, fwt_q (a_fwti p)).
Proof.
  unfold gen_t4b_init, attrib_cmd. destruct (len sensb <? 12); [reflexivity|]. cbv iota zeta.
  change (Z.to_nat 10) with 10%nat. change (Z.to_nat 11) with 11%nat.
  set (fsci := Z.shiftr (nth 10 sensb 0) 4). set (fwi := Z.shiftr (nth 11 sensb 0) 4).
  unfold t4_params, fwt_q. cbn [a_fsc a_fwti].
  destruct (mr <? 256); cbv iota;
    destruct (fsci >? 8) eqn:E8; destruct (fwi >? 14) eqn:E14; cbv iota; rewrite fsc_table by lia;
    match goal with |- context [if ?c then Some ms else _] => destruct c end; cbn [app]; reflexivity.
Qed.
Theorem bridge_t4b_params ms mr sensb attrib p : t4b_params sensb ms mr = Ok p -> 12 <= len sensb ->
  exists cmd, gen_t4b_init ms mr sensb attrib = Some (cmd, a_fsc p, fwt_q (a_fwti p)).
Proof.
  intros Hp Hl. rewrite bridge_t4b_init. replace (len sensb <? 12) with false by lia.
  unfold t4b_params, bind, idx in Hp. cbn [Z.ltb] in Hp. change (10 <? 0) with false in Hp. change (11 <? 0) with false in Hp.
  change (Z.to_nat 10) with 10%nat in Hp. change (Z.to_nat 11) with 11%nat in Hp.
  destruct (nth_error sensb 10) as [b10|] eqn:E10; [|discriminate].
  destruct (nth_error sensb 11) as [b11|] eqn:E11; [|discriminate].
  inversion Hp. rewrite (nth_error_nth _ _ 0 E10), (nth_error_nth _ _ 0 E11). eexists. reflexivity.
Qed.

(* ---------------------------------------------------------------- IsoDepInitiator.exchange: the expressions *)
Lemma nth0 (b0 : Z) inf : nth (Z.to_nat 0) (b0 :: inf) 0 = b0.
Proof. reflexivity. Qed.

Lemma bridge_more k cmd off : gen_more cmd off (miu k) = more_at k cmd off.
Proof. reflexivity. Qed.
Lemma bridge_pfb k cmd pn off : gen_pfb (gen_more cmd off (miu k)) pn = [pfb_at k cmd pn off].
Proof. reflexivity. Qed.
Lemma bridge_iblock k cmd pn off :
  gen_send_data (gen_pfb (gen_more cmd off (miu k)) pn) cmd off (miu k) = iblock k cmd pn off /\
  gen_retransmit_data (gen_pfb (gen_more cmd off (miu k)) pn) cmd off (miu k) = iblock k cmd pn off.
Proof. split; reflexivity. Qed.
Lemma bridge_rblocks pn :
  gen_presence_nak pn = [Z.lor 178 pn] /\ gen_send_rnak_txerr pn = [Z.lor 178 pn] /\ gen_send_rnak_timeout pn = [Z.lor 178 pn] /\
  gen_rack pn = [Z.lor 162 pn] /\ gen_recv_rack_txerr pn = [Z.lor 162 pn] /\ gen_recv_rack_timeout pn = [Z.lor 162 pn].
Proof. repeat split. Qed.
Lemma bridge_tests b0 inf pn i n :
  gen_send_is_wtx (b0 :: inf) = is_wtx b0 /\ gen_recv_is_wtx (b0 :: inf) = is_wtx b0 /\
  gen_retransmit (b0 :: inf) pn i n = (is_rack_other pn b0 && (i <=? n + 1)) /\
  gen_send_bad_bn (b0 :: inf) pn = negb (Z.land b0 1 =? pn) /\ gen_recv_bad_bn (b0 :: inf) pn = negb (Z.land b0 1 =? pn) /\
  gen_is_ack (b0 :: inf) = (Z.land b0 254 =? 162) /\ gen_is_inf (b0 :: inf) = (Z.land b0 238 =? 2) /\
  gen_chaining (b0 :: inf) = negb (Z.land b0 16 =? 0) /\
  gen_send_empty (b0 :: inf) = false /\ gen_recv_empty (b0 :: inf) = false /\
  gen_send_empty [] = true /\ gen_recv_empty [] = true.
Proof.
  unfold gen_send_is_wtx, gen_recv_is_wtx, gen_retransmit, gen_send_bad_bn, gen_recv_bad_bn, gen_is_ack, gen_is_inf,
    gen_chaining, gen_send_empty, gen_recv_empty. rewrite !nth0.
  repeat split; try reflexivity; apply len_cons_eqb0.
Qed.
Lemma bridge_retry i n :
  gen_send_retry_txerr i n = (i <=? n) /\ gen_send_retry_timeout i n = (i <=? n) /\
  gen_recv_retry_txerr i n = (i <=? n) /\ gen_recv_retry_timeout i n = (i <=? n).
Proof. repeat split. Qed.
Lemma bridge_toggle pn : gen_toggle_ack pn = toggle pn /\ gen_toggle_inf pn = toggle pn /\ gen_toggle_recv pn = toggle pn.
Proof. repeat split. Qed.
Lemma bridge_response b0 inf rsp : gen_response_first (b0 :: inf) = inf /\ gen_response_more rsp (b0 :: inf) = rsp ++ inf.
Proof. split; reflexivity. Qed.
Lemma bridge_wtx_short b0 b1 inf : gen_send_wtx_short (b0 :: b1 :: inf) = false /\ gen_recv_wtx_short (b0 :: b1 :: inf) = false /\
  gen_send_wtx_short [b0] = true /\ gen_recv_wtx_short [b0] = true.
Proof.
  unfold gen_send_wtx_short, gen_recv_wtx_short. rewrite !len_cons. pose proof (len_nonneg inf).
  repeat split; try reflexivity; lia.
Qed.

(* the timeout granted with a block: wtx_timeout = (data[1] & 0x3F) * self.fwt goes with the echo of an S(WTX)
   request (the block the model's [pcd_emit] hands out in the echo states), and it is the model's [blk_timeout]
   multiple of fwt; every other block goes with the caller's timeout, by default fwt + delta_fwt (= fwt + 49152/fc) *)
Lemma bridge_wtx_timeout b0 b1 inf fwt : is_wtx b0 = true ->
  gen_send_wtx_timeout (b0 :: b1 :: inf) fwt = Qmult (inject_Z (blk_timeout (b0 :: b1 :: inf))) fwt /\
  gen_recv_wtx_timeout (b0 :: b1 :: inf) fwt = Qmult (inject_Z (blk_timeout (b0 :: b1 :: inf))) fwt.
Proof. intro H. unfold gen_send_wtx_timeout, gen_recv_wtx_timeout, blk_timeout. rewrite H. split; reflexivity. Qed.
Lemma bridge_default_timeout fwt :
  gen_default_timeout fwt gen_delta_fwt = Qplus fwt (Qdiv (inject_Z 49152) (inject_Z 13560000)).
Proof. reflexivity. Qed.
Lemma blk_timeout_plain pn k cmd off :
  bit pn -> blk_timeout (iblock k cmd pn off) = 0 /\ blk_timeout [Z.lor 178 pn] = 0 /\ blk_timeout [Z.lor 162 pn] = 0.
Proof.
  intros [-> | ->]; unfold iblock, pfb_at, blk_timeout; destruct (more_at k cmd off);
    destruct (slice cmd off (off + miu k)); repeat split; reflexivity.
Qed.

Lemma bridge_timeouts b0 b1 inf fwt pn k cmd off : is_wtx b0 = true -> bit pn ->
  gen_send_wtx_timeout (b0 :: b1 :: inf) fwt = Qmult (inject_Z (blk_timeout (b0 :: b1 :: inf))) fwt /\
  gen_recv_wtx_timeout (b0 :: b1 :: inf) fwt = Qmult (inject_Z (blk_timeout (b0 :: b1 :: inf))) fwt /\
  gen_default_timeout fwt gen_delta_fwt = Qplus fwt (Qdiv (inject_Z 49152) (inject_Z 13560000)) /\
  blk_timeout (iblock k cmd pn off) = 0 /\ blk_timeout [Z.lor 178 pn] = 0 /\ blk_timeout [Z.lor 162 pn] = 0.
Proof.
  intros H Hb. destruct (bridge_wtx_timeout b0 b1 inf fwt H) as [H1 H2].
  destruct (blk_timeout_plain pn k cmd off Hb) as (H3 & H4 & H5).
  split; [exact H1|]. split; [exact H2|]. split; [apply bridge_default_timeout|]. split; [exact H3|]. split; assumption.
Qed.

(* ---------------------------------------------------------------- ... composed along the matched skeleton *)
Section Skeleton.
Variable k : cfg.
Variable cmd : bytes.
Hypothesis Hf1 : fix_wtx_try k = true.
Hypothesis Hf2 : fix_wtx_chain k = true.
Hypothesis Hf3 : fix_rack k = true.

(* lines after the for-i loop of a command block: block number, R(ACK) / first response block, chaining *)
Definition k_after_send (pn off : Z) (d : bytes) : pcd :=
  if gen_send_bad_bn d pn then mkp pn (tagerr gen_send_errno_proto)
  else if gen_more cmd off (miu k) then
    if gen_is_ack d then
      let pn' := gen_toggle_ack pn in let off' := off + miu k in
      mkp pn' (PSend off' 1 (gen_send_data (gen_pfb (gen_more cmd off' (miu k)) pn') cmd off' (miu k)))
    else mkp pn (tagerr gen_send_errno_proto)
  else
    if gen_is_inf d then
      let pn' := gen_toggle_inf pn in
      mkp pn' (if gen_chaining d then PRecv 1 (gen_rack pn') (gen_response_first d) else PDone (Ok (gen_response_first d)))
    else mkp pn (tagerr gen_send_errno_proto).

Definition k_absorb_send (pn off i : Z) (a : aresult) : pcd :=
  match a with
  | ARx d =>
      if gen_send_empty d then
        mkp pn (if gen_send_retry_txerr i (n_nak k) then PSend off (i + 1) (gen_send_rnak_txerr pn) else tagerr gen_send_errno_txerr)
      else if gen_send_is_wtx d then
        mkp pn (if gen_send_wtx_short d then tagerr gen_send_errno_proto else PSend off i d)
      else if gen_retransmit d pn i (n_nak k) then
        mkp pn (PSend off (i + 1) (gen_retransmit_data (gen_pfb (gen_more cmd off (miu k)) pn) cmd off (miu k)))
      else k_after_send pn off d
  | ATxErr => mkp pn (if gen_send_retry_txerr i (n_nak k) then PSend off (i + 1) (gen_send_rnak_txerr pn) else tagerr gen_send_errno_txerr)
  | ATimeout => mkp pn (if gen_send_retry_timeout i (n_nak k) then PSend off (i + 1) (gen_send_rnak_timeout pn) else tagerr gen_send_errno_timeout)
  | AProto => mkp pn (tagerr gen_send_errno_proto)
  end.

Definition k_absorb_recv (pn i : Z) (rsp : bytes) (a : aresult) : pcd :=
  match a with
  | ARx d =>
      if gen_recv_empty d then
        mkp pn (if gen_recv_retry_txerr i (n_ack k) then PRecv (i + 1) (gen_recv_rack_txerr pn) rsp else tagerr gen_recv_errno_txerr)
      else if gen_recv_is_wtx d then
        mkp pn (if gen_recv_wtx_short d then tagerr gen_recv_errno_proto else PRecv i d rsp)
      else if gen_recv_bad_bn d pn then mkp pn (tagerr gen_recv_errno_proto)
      else let pn' := gen_toggle_recv pn in let r := gen_response_more rsp d in
           mkp pn' (if gen_chaining d then PRecv 1 (gen_rack pn') r else PDone (Ok r))
  | ATxErr => mkp pn (if gen_recv_retry_txerr i (n_ack k) then PRecv (i + 1) (gen_recv_rack_txerr pn) rsp else tagerr gen_recv_errno_txerr)
  | ATimeout => mkp pn (if gen_recv_retry_timeout i (n_ack k) then PRecv (i + 1) (gen_recv_rack_timeout pn) rsp else tagerr gen_recv_errno_timeout)
  | AProto => mkp pn (tagerr gen_recv_errno_proto)
  end.

Theorem bridge_pcd_start pn : 0 < miu k -> 0 < len cmd ->
  pcd_start k cmd pn = mkp pn (PSend 0 1 (gen_send_data (gen_pfb (gen_more cmd 0 (miu k)) pn) cmd 0 (miu k))).
Proof.
  intros Hm Hc. unfold pcd_start. replace (miu k =? 0) with false by lia.
  replace ((len cmd <=? 0) || (miu k <? 0)) with false by lia. reflexivity.
Qed.

Theorem bridge_absorb_send pn off i d0 a :
  pcd_absorb k cmd (mkp pn (PSend off i d0)) a = k_absorb_send pn off i a.
Proof.
  unfold pcd_absorb, k_absorb_send. cbn [ph pni mkp].
  destruct a as [d | | |]; try reflexivity.
  destruct d as [|b0 inf]; [reflexivity|].
  destruct (bridge_tests b0 inf pn i (n_nak k)) as (T1 & _ & T3 & T4 & _ & T6 & T7 & T8 & T9 & _).
  rewrite T9, T1, T3, len_cons_eqb0, idx0, Hf1, Hf3.
  destruct (is_wtx b0).
  - destruct inf as [|b1 inf]; [reflexivity|].
    destruct (bridge_wtx_short b0 b1 inf) as (W1 & _). rewrite W1. unfold gen_send_wtx_short in W1. rewrite W1. reflexivity.
  - destruct (is_rack_other pn b0 && (i <=? n_nak k + 1)); [reflexivity|].
    unfold after_wtx, k_after_send, recv_check. rewrite T4, T6, T7, T8.
    destruct (negb (Z.land b0 1 =? pn)); [reflexivity|].
    change (gen_more cmd off (miu k)) with (more_at k cmd off).
    destruct (more_at k cmd off); [destruct (Z.land b0 254 =? 162); reflexivity|].
    destruct (Z.land b0 238 =? 2); [|reflexivity].
    destruct (negb (Z.land b0 16 =? 0)); reflexivity.
Qed.

Theorem bridge_absorb_recv pn i d0 rsp a :
  pcd_absorb k cmd (mkp pn (PRecv i d0 rsp)) a = k_absorb_recv pn i rsp a.
Proof.
  unfold pcd_absorb, k_absorb_recv. cbn [ph pni mkp].
  destruct a as [d | | |]; try reflexivity.
  destruct d as [|b0 inf]; [reflexivity|].
  destruct (bridge_tests b0 inf pn i (n_ack k)) as (_ & T2 & _ & _ & T5 & _ & _ & T8 & _ & T10 & _).
  rewrite T10, T2, T5, T8, len_cons_eqb0, idx0, Hf2. cbn [andb].
  destruct (is_wtx b0).
  - destruct inf as [|b1 inf]; [reflexivity|].
    destruct (bridge_wtx_short b0 b1 inf) as (_ & W2 & _). rewrite W2. unfold gen_recv_wtx_short in W2. rewrite W2. reflexivity.
  - destruct (negb (Z.land b0 1 =? pn)); [reflexivity|].
    unfold recv_check. destruct (negb (Z.land b0 16 =? 0)); reflexivity.
Qed.

(* ---- HEAD b65ae89: the shared budget n_extra / max_extra_blocks ---- *)
Lemma bridge_extra n m :
  gen_max_extra_blocks = MAX_EXTRA_BLOCKS /\ gen_extra_init = 0 /\
  gen_send_extra_incr n = n + 1 /\ gen_recv_extra_incr n = n + 1 /\ gen_chain_extra_incr n = n + 1 /\
  gen_send_extra_over n m = over (Some m) n /\ gen_recv_extra_over n m = over (Some m) n /\
  gen_chain_extra_over n m = over (Some m) n /\ gen_chain_errno_over = E_PROTOCOL.
Proof. repeat split. Qed.

Definition k_after_send_x (pn off : Z) (d : bytes) (n m : Z) : xpcd :=
  if gen_send_bad_bn d pn then {| xp := mkp pn (tagerr gen_send_errno_proto); nx := n |}
  else if gen_more cmd off (miu k) then {| xp := k_after_send pn off d; nx := n |}
  else
    if gen_is_inf d then
      let pn' := gen_toggle_inf pn in
      if gen_chaining d then                      (* the chaining `while` is entered *)
        let n' := gen_chain_extra_incr n in
        {| xp := mkp pn' (if gen_chain_extra_over n' m then tagerr gen_chain_errno_over
                          else PRecv 1 (gen_rack pn') (gen_response_first d)); nx := n' |}
      else {| xp := mkp pn' (PDone (Ok (gen_response_first d))); nx := n |}
    else {| xp := mkp pn (tagerr gen_send_errno_proto); nx := n |}.

Definition k_absorb_send_x (pn off i n m : Z) (a : aresult) : xpcd :=
  match a with
  | ARx d =>
      if gen_send_empty d then {| xp := k_absorb_send pn off i a; nx := n |}
      else if gen_send_is_wtx d then
        if gen_send_wtx_short d then {| xp := mkp pn (tagerr gen_send_errno_proto); nx := n |}
        else let n' := gen_send_extra_incr n in
             {| xp := mkp pn (if gen_send_extra_over n' m then tagerr gen_send_errno_proto else PSend off i d); nx := n' |}
      else if gen_retransmit d pn i (n_nak k) then {| xp := k_absorb_send pn off i a; nx := n |}
      else k_after_send_x pn off d n m
  | _ => {| xp := k_absorb_send pn off i a; nx := n |}
  end.

Definition k_absorb_recv_x (pn i : Z) (rsp : bytes) (n m : Z) (a : aresult) : xpcd :=
  match a with
  | ARx d =>
      if gen_recv_empty d then {| xp := k_absorb_recv pn i rsp a; nx := n |}
      else if gen_recv_is_wtx d then
        if gen_recv_wtx_short d then {| xp := mkp pn (tagerr gen_recv_errno_proto); nx := n |}
        else let n' := gen_recv_extra_incr n in
             {| xp := mkp pn (if gen_recv_extra_over n' m then tagerr gen_recv_errno_proto else PRecv i d rsp); nx := n' |}
      else if gen_recv_bad_bn d pn then {| xp := mkp pn (tagerr gen_recv_errno_proto); nx := n |}
      else let pn' := gen_toggle_recv pn in let r := gen_response_more rsp d in
           if gen_chaining d then                  (* the chaining `while` is continued *)
             let n' := gen_chain_extra_incr n in
             {| xp := mkp pn' (if gen_chain_extra_over n' m then tagerr gen_chain_errno_over else PRecv 1 (gen_rack pn') r); nx := n' |}
           else {| xp := mkp pn' (PDone (Ok r)); nx := n |}
  | _ => {| xp := k_absorb_recv pn i rsp a; nx := n |}
  end.

Lemma toggle_neqb pn : (toggle pn =? pn) = false.
Proof. unfold toggle. apply Z.eqb_neq. intro H. pose proof (Z.mod_pos_bound (pn + 1) 2 ltac:(lia)). lia. Qed.

Theorem bridge_absorb_send_x pn off i d0 n m a :
  pcd_absorb_x k (Some m) cmd {| xp := mkp pn (PSend off i d0); nx := n |} a = k_absorb_send_x pn off i n m a.
Proof.
  unfold pcd_absorb_x. cbn [xp nx]. rewrite bridge_absorb_send.
  destruct a as [d | | |].
  2-4: unfold k_absorb_send_x, k_absorb_send;
       destruct (gen_send_retry_timeout i (n_nak k)), (gen_send_retry_txerr i (n_nak k)); reflexivity.
  destruct d as [|b0 inf].
  { unfold k_absorb_send_x, k_absorb_send, chain_event, is_recv, wtx_event. cbn [ph mkp pni andb].
    change (gen_send_empty []) with true. cbv iota.
    destruct (gen_send_retry_txerr i (n_nak k)); cbn [ph mkp pni tagerr andb]; reflexivity. }
  unfold k_absorb_send_x, k_absorb_send.
  destruct (bridge_tests b0 inf pn i (n_nak k)) as (T1 & _ & T3 & T4 & _ & T6 & T7 & T8 & T9 & _).
  rewrite T9, T1, T3. unfold wtx_event. cbn [ph mkp]. rewrite Hf1.
  destruct (is_wtx b0) eqn:Ew.
  - destruct inf as [|b1 inf]; [reflexivity|]. cbn [andb].
    destruct (bridge_wtx_short b0 b1 inf) as (W1 & _). rewrite W1. unfold gen_send_extra_over, gen_send_extra_incr, gen_recv_extra_over, gen_recv_extra_incr, gen_chain_extra_over, gen_chain_extra_incr, over; destruct (Z.add n 1 >? m); reflexivity.
  - assert (Hwe : match inf with [] => false | _ :: _ => false && true end = false) by (destruct inf; reflexivity).
    rewrite Hwe.
    destruct (is_rack_other pn b0 && (i <=? n_nak k + 1)); [reflexivity|].
    unfold k_after_send_x, k_after_send. rewrite T4, T6, T7, T8.
    destruct (negb (Z.land b0 1 =? pn)); [reflexivity|].
    change (gen_more cmd off (miu k)) with (more_at k cmd off).
    destruct (more_at k cmd off); [destruct (Z.land b0 254 =? 162); reflexivity|].
    destruct (Z.land b0 238 =? 2); [|reflexivity].
    destruct (negb (Z.land b0 16 =? 0)); [|reflexivity].
    unfold chain_event, is_recv. cbn [ph mkp pni andb]. change (gen_toggle_inf pn) with (toggle pn).
    rewrite toggle_neqb. unfold gen_send_extra_over, gen_send_extra_incr, gen_recv_extra_over, gen_recv_extra_incr, gen_chain_extra_over, gen_chain_extra_incr, over; destruct (Z.add n 1 >? m); reflexivity.
Qed.

Theorem bridge_absorb_recv_x pn i d0 rsp n m a :
  pcd_absorb_x k (Some m) cmd {| xp := mkp pn (PRecv i d0 rsp); nx := n |} a = k_absorb_recv_x pn i rsp n m a.
Proof.
  unfold pcd_absorb_x. cbn [xp nx]. rewrite bridge_absorb_recv.
  destruct a as [d | | |].
  2-4: unfold k_absorb_recv_x, k_absorb_recv, pcd_absorb_x, chain_event, is_recv, wtx_event;
       destruct (gen_recv_retry_timeout i (n_ack k)), (gen_recv_retry_txerr i (n_ack k)); cbn [ph mkp pni tagerr andb];
       rewrite ?Z.eqb_refl; reflexivity.
  destruct d as [|b0 inf].
  - unfold k_absorb_recv_x, k_absorb_recv, chain_event, is_recv, wtx_event. cbn [ph mkp pni andb].
    change (gen_recv_empty []) with true. cbv iota.
    destruct (gen_recv_retry_txerr i (n_ack k)); cbn [ph mkp pni tagerr andb]; rewrite ?Z.eqb_refl; reflexivity.
  - unfold k_absorb_recv_x, k_absorb_recv.
    destruct (bridge_tests b0 inf pn i (n_ack k)) as (_ & T2 & _ & _ & T5 & _ & _ & T8 & _ & T10 & _).
    rewrite T10, T2, T5, T8. unfold wtx_event. cbn [ph mkp]. rewrite Hf2.
    destruct (is_wtx b0) eqn:Ew.
    + destruct inf as [|b1 inf]; [reflexivity|]. cbn [andb].
      destruct (bridge_wtx_short b0 b1 inf) as (_ & W2 & _). rewrite W2.
      unfold gen_send_extra_over, gen_send_extra_incr, gen_recv_extra_over, gen_recv_extra_incr, gen_chain_extra_over, gen_chain_extra_incr, over; destruct (Z.add n 1 >? m); reflexivity.
    + assert (Hwe : match inf with [] => false | _ :: _ => false && true end = false) by (destruct inf; reflexivity).
      rewrite Hwe.
      destruct (negb (Z.land b0 1 =? pn)); [reflexivity|].
      destruct (negb (Z.land b0 16 =? 0)); [|reflexivity].
      unfold chain_event, is_recv. cbn [ph mkp pni andb]. change (gen_toggle_recv pn) with (toggle pn).
      rewrite toggle_neqb. unfold gen_send_extra_over, gen_send_extra_incr, gen_recv_extra_over, gen_recv_extra_incr, gen_chain_extra_over, gen_chain_extra_incr, over; destruct (Z.add n 1 >? m); reflexivity.
Qed.
End Skeleton.
