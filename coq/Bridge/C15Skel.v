(* Bridge/C15Skel.v - the verified analysis of Skel/LockCheck.v evaluated on the skeleton that
   translate/skel_c15.py regenerated from src/nfc/clf/__init__.py on this run, and the trace
   property of that concrete skeleton derived from the soundness theorems. *)
From Coq Require Import List String Bool.
From NV Require Import Skel.LockSyntax Skel.LockCheck Gen.FrontendSkel.
Import ListNotations.
Local Open Scope list_scope.

Definition frontend_env : env := lookup frontend_prog.
(* what an application thread can do: call any method of the class, any number of times *)
Definition frontend_entry : stmt := any_call frontend_entry_names.

Definition frontend_chk : option res := chk frontend_env frontend_fuel false false frontend_entry.
Definition frontend_res : res := match frontend_chk with Some r => r | None => (None, false) end.

(* methods that the checker rejects when called without the lock (diagnostics; [] when all is well) *)
Definition frontend_rejected : list string :=
  filter (fun f => match chk frontend_env frontend_fuel false false (Call f) with Some _ => false | None => true end)
         (frontend_init :: frontend_entry_names).

(* every method of ContactlessFrontend, entered without the lock, obeys the lock discipline *)
Theorem frontend_locked : frontend_chk = Some frontend_res.
Proof. vm_compute. reflexivity. Qed.

(* so does the constructor (self.device = None before the lock exists is the initial state) *)
Theorem frontend_init_locked :
  exists r, chk frontend_env frontend_fuel false false (Call frontend_init) = Some r.
Proof. vm_compute. eexists. reflexivity. Qed.

Theorem frontend_none_rejected : frontend_rejected = [].
Proof. vm_compute. reflexivity. Qed.

(* per-thread: every event trace of every thread that uses the frontend through its methods passes
   the monitor (device calls only under the lock and after a positive device test in the same hold,
   device writes under the lock, no outside code and no second acquire while holding) *)
Theorem frontend_thread_monitored t :
  thread_trace frontend_env frontend_entry t -> run Out t <> None.
Proof. exact (thread_monitored frontend_env frontend_entry frontend_fuel frontend_res frontend_locked t). Qed.

(* all threads, all schedules *)
Theorem frontend_threads_safe g :
  mutex_ok None g = true -> dev_ok false g = true ->
  (forall t, thread_trace frontend_env frontend_entry (proj t g)) ->
  excl None false false g = true.
Proof. exact (frontend_safe frontend_env frontend_entry frontend_fuel frontend_res frontend_locked g). Qed.

Theorem frontend_no_overlap g :
  mutex_ok None g = true -> dev_ok false g = true ->
  (forall t, thread_trace frontend_env frontend_entry (proj t g)) ->
  forall g1 t m g2 t' e g3, g = g1 ++ (t, DevBegin m) :: g2 ++ (t', e) :: g3 ->
  exclusive_ev e = true -> exists m', In (t, DevEnd m') g2.
Proof.
  intros Hm Hd Ht. exact (excl_no_overlap g None false false (frontend_threads_safe g Hm Hd Ht)).
Qed.

Theorem frontend_calls_by_owner_on_open_device g :
  mutex_ok None g = true -> dev_ok false g = true ->
  (forall t, thread_trace frontend_env frontend_entry (proj t g)) ->
  forall g1 t m g3, g = g1 ++ (t, DevBegin m) :: g3 ->
  owner_after None g1 = Some t /\ dev_after false g1 = true.
Proof.
  intros Hm Hd Ht g1 t m g3 ->.
  exact (excl_owner_open g1 None false false t m g3 (frontend_threads_safe _ Hm Hd Ht)).
Qed.

(* a concrete execution of the regenerated skeleton: close() on the fresh (closed) frontend *)
Lemma close_trace : thread_trace frontend_env frontend_entry [Acq; EvTest false; Rel].
Proof.
  exists Norm.
  apply (XLoopS _ _ _ [Acq; EvTest false; Rel] [] Norm Norm); [|discriminate|apply XLoop0].
  unfold frontend_entry. cbn [any_call frontend_entry_names].
  apply XChR, XChL. eapply XCall; [vm_compute; reflexivity|].
  apply (XWith _ _ _ [EvTest false] Norm); [|discriminate].
  apply XIfF. apply XSkip.
Qed.

