(* C05 - tie by translation.  Gen/DlcK.v is regenerated from src/nfc/llcp/tco.py on every run
   (translate/kspec_c05.py: the two window computations as whole functions, and the sequence
   arithmetic / tests of send, recv, _enqueue_state_established, the base class enqueue, dequeue and
   sendack as expressions pulled out of the methods' syntax trees).  For every endpoint function of
   Model/Dlc.v, k_<f> below is the same function with each arithmetic expression and test replaced
   by the generated kernel, and bridge_<f> proves f = k_<f>.  A change of any of these expressions
   in tco.py changes Gen/DlcK.v and breaks the corresponding lemma. *)
From Coq Require Import ZArith List Bool.
From NV Require Import Base.Result Base.Bytes Model.Dlc Gen.DlcK.
Import ListNotations.
Open Scope Z_scope.

Lemma bridge_send_window_slots x : gen_send_window_slots (rwr x) (vs x) (vsa x) = send_window_slots x.
Proof. reflexivity. Qed.
Lemma bridge_recv_window_slots x : gen_recv_window_slots (rwl x) (vr x) (vra x) = recv_window_slots x.
Proof. reflexivity. Qed.

(* send(): EMSGSIZE test, window test, N(S) := V(S), V(S) := V(S) + 1 mod 16 *)
Definition k_ep_send (x : ep) (m : msg) : ep * res bool :=
  if negb (est x) then (x, Err (LlcpError ENOTCONN))
  else if gen_dlc_send_emsgsize (len m) (smiu x) then (x, Err (LlcpError EMSGSIZE))
  else if gen_dlc_send_window_full (gen_send_window_slots (rwr x) (vs x) (vsa x)) then (x, Err (LlcpError EWOULDBLOCK))
  else (set_sq (set_vs x (gen_dlc_send_vs (vs x))) (sq x ++ [PI (gen_dlc_send_ns (vs x)) 0 m]), Ok true).
Lemma bridge_ep_send x m : ep_send x m = k_ep_send x m.
Proof. unfold ep_send, k_ep_send, gen_dlc_send_emsgsize. rewrite Z.gtb_ltb. reflexivity. Qed.

(* recv(): recv_confs += 1 and the overrun guard *)
Definition k_ep_recv (x : ep) : ep * res msg :=
  if negb (est x) then (x, Err (LlcpError ENOTCONN))
  else match rq x with
       | [] => (x, Hang)
       | d :: q =>
           let x' := set_confs (set_rq x q) (gen_dlc_recv_confs (confs x)) in
           if gen_dlc_recv_overrun (gen_dlc_recv_confs (confs x)) (rwl x) then (x', Err RuntimeErr) else (x', Ok d)
       end.
Lemma bridge_ep_recv x : ep_recv x = k_ep_recv x.
Proof. unfold ep_recv, k_ep_recv, gen_dlc_recv_overrun. rewrite Z.gtb_ltb. reflexivity. Qed.

(* enqueue(): acks = N(R) - V(SA) mod 16; if acks: acks_recvd += acks; V(SA) := N(R) *)
Definition k_process_nr (x : ep) (nr : Z) : ep :=
  let a := gen_dlc_enq_acks nr (vsa x) in
  if gen_dlc_enq_acks_any a then set_vsa (set_acks x (gen_dlc_enq_acks_recvd (acks x) a)) (gen_dlc_enq_vsa nr) else x.
Lemma bridge_process_nr x nr : process_nr x nr = k_process_nr x nr.
Proof. unfold process_nr, k_process_nr, gen_dlc_enq_acks_any, gen_dlc_enq_acks. cbv zeta.
  destruct ((nr - vsa x) mod 16 =? 0); reflexivity. Qed.

(* enqueue(): MIU test, N(S) == V(R) test, V(R) := V(R) + 1 mod 16, receive-queue room test *)
Definition k_ep_enqueue (x : ep) (p : pdu) : ep * enq_result :=
  if negb (est x) then (x, EnqIgnored)
  else match p with
       | PI ns nr d =>
           if gen_dlc_enq_oversize (len d) (rmiu x) then (set_sq x [frmr_for x 4 ns nr], EnqRejected)
           else if gen_dlc_enq_ns_bad ns (vr x) then (set_sq x [frmr_for x 1 ns nr], EnqRejected)
           else
             let x1 := k_process_nr x nr in
             let x2 := set_vr x1 (gen_dlc_enq_vr (vr x1)) in
             if gen_dlc_enq_room (len (rq x2)) (rbuf x2) then (set_rq x2 (rq x2 ++ [d]), EnqAccepted)
             else (x2, EnqDiscarded)
       | PRR nr => (set_send_busy (k_process_nr x nr) false, EnqAck)
       | PRNR nr => (set_send_busy (k_process_nr x nr) true, EnqAck)
       | PFRMR _ _ _ _ _ _ _ _ => (shutdown x, EnqShutdown)
       end.
Lemma bridge_ep_enqueue x p : ep_enqueue x p = k_ep_enqueue x p.
Proof. unfold ep_enqueue, k_ep_enqueue, gen_dlc_enq_oversize. destruct p; rewrite <- ?bridge_process_nr, ?Z.gtb_ltb; reflexivity. Qed.

(* V(RA) := V(RA) + recv_confs mod 16; recv_confs := 0; RR/RNR(V(RA)) *)
Definition k_ack (x : ep) (vra' confs' : Z) : ep * option pdu :=
  (set_confs (set_vra x vra') confs', Some (ack_pdu x vra')).

(* sendack(): voluntary acknowledgement *)
Definition k_ep_sendack (x : ep) : ep * option pdu :=
  if est x && gen_dlc_voluntary_cond (confs x) (vr x) (vra x)
  then k_ack x (gen_dlc_voluntary_vra (vra x) (confs x)) gen_dlc_voluntary_confs else (x, None).
Lemma bridge_ep_sendack x : ep_sendack x = k_ep_sendack x.
Proof. unfold ep_sendack, k_ep_sendack, gen_dlc_voluntary_cond. rewrite <- andb_assoc. reflexivity. Qed.

(* dequeue(): necessary acknowledgement (nothing dequeued, window exhausted) *)
Definition k_necessary_ack (x : ep) : ep * option pdu :=
  if gen_dlc_necessary_cond (est x) (confs x) (gen_recv_window_slots (rwl x) (vr x) (vra x))
  then k_ack x (gen_dlc_necessary_vra (vra x) (confs x)) gen_dlc_necessary_confs else (x, None).
Lemma bridge_necessary_ack x : necessary_ack x = k_necessary_ack x.
Proof. reflexivity. Qed.

(* dequeue(): piggy-backed acknowledgement and N(R) of the I PDU *)
Definition k_ep_dequeue (x : ep) (miu icv : Z) : ep * option pdu :=
  if est x && negb (Bool.eqb (busy_sent x) (busy x)) then
    (set_busy_sent x (busy x), Some (ack_pdu x (vra x)))
  else
    match sq x with
    | [] => k_necessary_ack x
    | p :: q =>
        if miu <? pdu_info_size p icv then k_necessary_ack x
        else match p with
             | PFRMR _ _ _ _ _ _ _ _ => (shutdown x, Some p)
             | PI ns nr d =>
                 if est x then
                   let x1 := set_sq x q in
                   let x2 := if gen_dlc_piggy_cond (confs x) (vr x) (vra x)
                             then set_confs (set_vra x1 (gen_dlc_piggy_vra (vra x) (confs x))) gen_dlc_piggy_confs
                             else x1 in
                   (x2, Some (PI ns (gen_dlc_piggy_nr (vra x2)) d))
                 else (set_sq x q, Some p)
             | _ => (set_sq x q, Some p)
             end
    end.
Lemma bridge_ep_dequeue x miu icv : ep_dequeue x miu icv = k_ep_dequeue x miu icv.
Proof. reflexivity. Qed.
