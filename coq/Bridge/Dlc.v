(* C05 - tie by translation: the window computations regenerated from tco.py on this run
   (Gen/DlcK.v) are the model's send_window_slots / recv_window_slots. *)
From Coq Require Import ZArith List Bool.
From NV Require Import Base.Result Base.Bytes Model.Dlc Gen.DlcK.
Open Scope Z_scope.

Lemma bridge_send_window_slots x : gen_send_window_slots (rwr x) (vs x) (vsa x) = send_window_slots x.
Proof. reflexivity. Qed.
Lemma bridge_recv_window_slots x : gen_recv_window_slots (rwl x) (vr x) (vra x) = recv_window_slots x.
Proof. reflexivity. Qed.
