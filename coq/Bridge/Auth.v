(* Bridge: the kernels regenerated from src/nfc/tag/{tt3_sony,tt3,tt2_nxp}.py on this run
   (Gen/AuthK.v, pyDes as the uninterpreted des3_cbc) are the functions the C20 models use, with
   des3_cbc instantiated by the DES model. *)
From Coq Require Import ZArith List Bool Lia.
From NV Require Import Base.Result Base.Bytes Base.PyPrims Base.PyAuth Model.Des Model.FelicaMac Model.Ntag Gen.AuthK.
Import ListNotations.
Open Scope Z_scope.

Notation des3 := tdes_cbc_encrypt.

(* ---- generic slice facts ------------------------------------------------------------------------ *)
Lemma pyslice_slice {A} (l : list A) a b : 0 <= a <= b -> pyslice l a b = slice l a b.
Proof.
  intros [Ha Hb]. unfold pyslice, slice, norm_idx. pose proof (len_nonneg l) as Hn.
  replace (a <? 0) with false by (symmetry; apply Z.ltb_ge; lia).
  replace (b <? 0) with false by (symmetry; apply Z.ltb_ge; lia).
  rewrite !(Z.max_r 0) by lia. unfold len in *.
  destruct (Z.le_gt_cases b (Z.of_nat (length l))) as [H|H].
  - rewrite !Z.min_l by lia. reflexivity.
  - rewrite (Z.min_r b) by lia. destruct (Z.le_gt_cases a (Z.of_nat (length l))) as [H2|H2].
    + rewrite Z.min_l by lia. rewrite !firstn_all2; [reflexivity | |]; rewrite skipn_length; lia.
    + rewrite Z.min_r by lia. rewrite !skipn_all2 by lia. rewrite !firstn_nil. reflexivity.
Qed.
Lemma pyslice_to_end {A} (l : list A) a : 0 <= a -> pyslice l a (len l) = skipn (Z.to_nat a) l.
Proof.
  intro Ha. unfold pyslice, norm_idx. pose proof (len_nonneg l) as Hn.
  replace (a <? 0) with false by (symmetry; apply Z.ltb_ge; lia).
  replace (len l <? 0) with false by (symmetry; apply Z.ltb_ge; lia).
  rewrite (Z.min_id (len l)). unfold len in *.
  destruct (Z.le_gt_cases a (Z.of_nat (length l))) as [H|H].
  - rewrite Z.min_l by lia. apply firstn_all2. rewrite skipn_length. lia.
  - rewrite Z.min_r by lia. rewrite Nat2Z.id, !skipn_all2 by lia. apply firstn_nil.
Qed.
Lemma pyslice_first {A} (l : list A) b : 0 <= b -> pyslice l 0 b = firstn (Z.to_nat b) l.
Proof. intro H. rewrite pyslice_slice by lia. unfold slice. rewrite Z.max_r, Z.sub_0_r, Z.max_r by lia. reflexivity. Qed.

Lemma pychunks8 (l : list Z) : pychunks 8 l = chunks8 l.
Proof.
  unfold pychunks. change (Z.to_nat 8) with 8%nat.
  assert (H : forall fuel l, (length l <= fuel)%nat -> pychunks_fuel fuel 8 l = chunks8 l).
  { induction fuel as [|f IH]; intros m Hm.
    - destruct m; [reflexivity | cbn in Hm; lia].
    - do 8 (destruct m as [|? m]; [reflexivity|]).
      cbn [pychunks_fuel length Nat.ltb Nat.leb firstn skipn chunks8]. f_equal. apply IH. cbn [length] in Hm. lia. }
  apply H. lia.
Qed.

Lemma list16 {A} (l : list A) : length l = 16%nat ->
  exists a0 a1 a2 a3 a4 a5 a6 a7 a8 a9 a10 a11 a12 a13 a14 a15,
    l = [a0; a1; a2; a3; a4; a5; a6; a7; a8; a9; a10; a11; a12; a13; a14; a15].
Proof. intro H. do 16 (destruct l as [|? l]; [discriminate|]). destruct l; [|discriminate]. repeat eexists. Qed.

(* key[7::-1] + key[15:7:-1] of a 16-byte string *)
Lemma halves_reversed (l : list Z) : length l = 16%nat ->
  pyslice_neg l (Some 7) None ++ pyslice_neg l (Some 15) (Some 7) = rev_halves l.
Proof.
  intro H. destruct (list16 l H) as (a0 & a1 & a2 & a3 & a4 & a5 & a6 & a7 & a8 & a9 & a10 & a11 & a12 & a13 & a14 & a15 & ->).
  reflexivity.
Qed.

(* ---- FelicaLite.generate_mac ---------------------------------------------------------------------- *)
Theorem bridge_generate_mac data key iv flip :
  generate_mac data key iv flip =
    if gen_mac_assert data key iv then Ok (gen_generate_mac des3 data key iv flip) else Crash AssertErr.
Proof.
  unfold generate_mac, gen_mac_assert, gen_generate_mac.
  destruct ((len data mod 8 =? 0) && (len key =? 16) && (len iv =? 8)); cbn [negb]; [|reflexivity].
  f_equal. rewrite pyslice_neg_tail8, pychunks8. f_equal. f_equal.
  destruct flip; [|reflexivity].
  rewrite pyslice_to_end, pyslice_first by lia. reflexivity.
Qed.

Corollary bridge_generate_mac_ok data key iv flip m :
  generate_mac data key iv flip = Ok m -> gen_generate_mac des3 data key iv flip = m /\ gen_mac_assert data key iv = true.
Proof. rewrite bridge_generate_mac. destruct (gen_mac_assert data key iv); [|discriminate]. intro H. injection H as <-. split; reflexivity. Qed.

(* ---- FelicaLite._authenticate ---------------------------------------------------------------------- *)
Theorem bridge_felica_key pw :
  felica_key pw = if gen_auth_pw_bad pw then Err ValueError else Ok (gen_auth_key pw).
Proof.
  unfold felica_key, gen_auth_pw_bad, gen_auth_key. pose proof (len_nonneg pw) as Hn.
  destruct (len pw =? 0) eqn:E0.
  - apply Z.eqb_eq in E0. rewrite E0. reflexivity.
  - apply Z.eqb_neq in E0. replace (0 <? len pw) with true by (symmetry; apply Z.ltb_lt; lia). cbn [negb andb].
    destruct (len pw <? 16); [reflexivity|]. rewrite pyslice_first by lia. reflexivity.
Qed.
Theorem bridge_auth_rc_block rc : length rc = 16%nat ->
  gen_auth_rc_block rc = rev_halves rc /\ gen_auth_rc_blockno = 128 /\ gen_auth_read_blocks = [130; 129].
Proof. intro H. unfold gen_auth_rc_block. rewrite halves_reversed by exact H. repeat split. Qed.
Theorem bridge_session_key key rc : gen_auth_sk des3 key rc = session_key key rc /\ gen_auth_iv rc = firstn 8 rc.
Proof. split; [reflexivity|]. unfold gen_auth_iv. apply pyslice_first. lia. Qed.
(* the comparison that decides authenticate(): received MAC against the MAC under the derived session key *)
Theorem bridge_auth_mac_ok data sk rc m :
  generate_mac (pyslice data 0 (-16)) sk (firstn 8 rc) false = Ok m ->
  gen_auth_mac_ok des3 data sk rc = list_eqb (pyslice data (-16) (-8)) m.
Proof.
  intro H. unfold gen_auth_mac_ok. change (Z.opp 16) with (-16). change (Z.opp 8) with (-8). rewrite (pyslice_first rc 8) by lia. change (Z.to_nat 8) with 8%nat.
  destruct (bridge_generate_mac_ok _ _ _ _ _ H) as [-> _]. reflexivity.
Qed.

(* ---- FelicaLite.read_with_mac: the model function in terms of the generated kernels ---------------- *)
Theorem bridge_read_with_mac {T : Type} (xchg : T -> list Z -> T * xres) idm blocks (s s' : T * rstate) sk iv rsp :
  r_sk (snd s) = Some sk -> r_iv (snd s) = Some iv ->
  read_blocks xchg idm (blocks ++ [gen_rmac_mac_block]) s = (s', Ok rsp) ->
  gen_mac_assert (gen_rmac_data rsp sk iv) sk iv = true ->
  read_with_mac xchg idm blocks s =
    (s', Ok (if gen_rmac_reject des3 rsp sk iv then None else Some (gen_rmac_data rsp sk iv))).
Proof.
  intros Hsk Hiv HR HA. unfold read_with_mac, bindM, get_rs. cbn [fst snd]. rewrite Hsk, Hiv.
  change [129] with [gen_rmac_mac_block]. rewrite HR. unfold lift, ret.
  unfold gen_rmac_reject, gen_rmac_data in *. change (Z.opp 16) with (-16) in *. change (Z.opp 8) with (-8) in *.
  rewrite bridge_generate_mac, HA.
  destruct (list_eqb _ _); reflexivity.
Qed.

(* ---- FelicaLiteS.write_with_mac ---------------------------------------------------------------------- *)
Theorem bridge_wmac_pieces w wcnt block data sk :
  gen_wmac_wcnt w = slice w 0 3 /\ gen_wmac_wcnt_block = 144 /\ gen_wmac_maca_block = 145 /\
  gen_wmac_plain wcnt block data = wcnt ++ [0; block; 0; 145; 0] ++ data /\
  (length sk = 16%nat -> gen_wmac_flip sk = skipn 8 sk ++ firstn 8 sk).
Proof.
  split; [apply pyslice_slice; lia|]. split; [reflexivity|]. split; [reflexivity|]. split.
  - unfold gen_wmac_plain. rewrite <- !app_assoc. reflexivity.
  - intro H. unfold gen_wmac_flip. rewrite pyslice_first by lia. f_equal.
    replace 16 with (len sk) by (unfold len; rewrite H; reflexivity). apply pyslice_to_end. lia.
Qed.
(* what is written to (block, MAC_A) *)
Theorem bridge_wmac_payload wcnt block data sk iv m : length sk = 16%nat ->
  let d := wcnt ++ [0; block; 0; 145; 0] ++ data in
  generate_mac d (skipn 8 sk ++ firstn 8 sk) iv false = Ok m ->
  gen_wmac_payload (gen_wmac_plain wcnt block data) (gen_wmac_maca des3 (gen_wmac_plain wcnt block data) sk iv wcnt)
  = slice d 8 24 ++ m ++ wcnt ++ zeros 5.
Proof.
  intros Hsk d HG. destruct (bridge_wmac_pieces [] wcnt block data sk) as (_ & _ & _ & Hp & Hf).
  rewrite Hp. fold d. unfold gen_wmac_payload, gen_wmac_maca. rewrite (Hf Hsk).
  destruct (bridge_generate_mac_ok _ _ _ _ _ HG) as [-> _].
  rewrite pyslice_slice by lia. rewrite <- !app_assoc. reflexivity.
Qed.

(* ---- protect(): the key and its layout in the CK block ------------------------------------------------ *)
Theorem bridge_protect_key pw key : length key = 16%nat ->
  gen_protect_key pw = pw_key pw /\ gen_lites_protect_key pw = pw_key pw /\
  gen_protect_ck_block key = rev_halves key /\ gen_lites_protect_ck_block key = rev_halves key /\
  gen_protect_ck_blockno = 135 /\ gen_lites_protect_ck_blockno = 135.
Proof.
  intro H. unfold gen_protect_key, gen_lites_protect_key, pw_key, gen_protect_ck_block, gen_lites_protect_ck_block.
  rewrite !halves_reversed by exact H. rewrite !pyslice_first by lia.
  destruct (len pw =? 0); repeat split.
Qed.

(* the card key version written by FelicaLiteS._protect: incremented and clamped to the 16-bit maximum *)
Theorem bridge_lites_ckv blk : length blk = 16%nat -> bytes_ok blk ->
  gen_lites_ckv_block blk = lites_ckv_block blk /\ gen_lites_ckv_blockno = 134.
Proof.
  intros H Hb. split; [|reflexivity].
  destruct (list16 blk H) as (a0 & a1 & a2 & a3 & a4 & a5 & a6 & a7 & a8 & a9 & a10 & a11 & a12 & a13 & a14 & a15 & ->).
  apply bytes_ok_cons in Hb. destruct Hb as [H0 Hb]. apply bytes_ok_cons in Hb. destruct Hb as [H1 _].
  unfold byte_ok in *.
  unfold gen_lites_ckv_block, lites_ckv_block.
  change (unpack_le16 (pyslice [a0; a1; a2; a3; a4; a5; a6; a7; a8; a9; a10; a11; a12; a13; a14; a15] 0 2)) with (a0 + 256 * a1).
  cbn [nth]. unfold Z.add at 1. fold (Z.add (a0 + 256 * a1) 1).
  set (v := Z.min (a0 + 256 * a1 + 1) 65535).
  assert (Hv : 0 <= v <= 65535) by (unfold v; lia).
  unfold pack_le16, le16. f_equal. f_equal. f_equal.
  symmetry. apply Z.mod_small. split; [apply Z.div_pos; lia | apply Z.div_lt_upper_bound; lia].
Qed.

(* ---- block list / service code elements of the read and write commands ------------------------------- *)
Theorem bridge_block_code n : 0 <= n < 65536 -> block_code n = Ok (gen_blockcode_pack n 0 0).
Proof.
  intro H. unfold block_code, gen_blockcode_pack. replace (n <? 0) with false by (symmetry; apply Z.ltb_ge; lia).
  destruct (n <? 256); [reflexivity|]. replace (n <? 65536) with true by (symmetry; apply Z.ltb_lt; lia). reflexivity.
Qed.
Theorem bridge_service_codes :
  gen_sc_read = [11; 0] /\ gen_sc_read_mac = [11; 0] /\ gen_sc_write = [9; 0] /\ gen_sc_write_mac = [9; 0].
Proof. repeat split. Qed.

(* ---- NTAG21x ------------------------------------------------------------------------------------------ *)
Lemma list_eqb_nil (l : list Z) : list_eqb l [] = (len l =? 0).
Proof. destruct l; [reflexivity|]. rewrite len_cons. pose proof (len_nonneg l). symmetry. apply Z.eqb_neq. lia. Qed.

Theorem bridge_ntag_key pw :
  ntag_key pw = (if gen_ntag_pw_bad pw then Err ValueError else Ok (gen_ntag_key pw)) /\
  gen_ntag_protect_pw_bad pw = gen_ntag_pw_bad pw /\ gen_ntag_protect_key pw = gen_ntag_key pw.
Proof.
  split; [|split; reflexivity].
  unfold ntag_key, gen_ntag_pw_bad, gen_ntag_key. rewrite list_eqb_nil. pose proof (len_nonneg pw) as Hn.
  destruct (len pw =? 0) eqn:E0.
  - apply Z.eqb_eq in E0. rewrite E0. reflexivity.
  - apply Z.eqb_neq in E0. replace (0 <? len pw) with true by (symmetry; apply Z.ltb_lt; lia). cbn [negb andb].
    destruct (len pw <? 6); [reflexivity|]. rewrite pyslice_first by lia. reflexivity.
Qed.
(* the PWD_AUTH command and the comparison of the answer with PACK (whole sequences, so a short answer differs) *)
Theorem bridge_ntag_auth key rsp :
  gen_ntag_auth_cmd key = 27 :: firstn 4 key /\ gen_ntag_auth_ok rsp key = list_eqb rsp (slice key 4 6).
Proof.
  unfold gen_ntag_auth_cmd, gen_ntag_auth_ok. rewrite pyslice_first by lia. rewrite pyslice_slice by lia. split; reflexivity.
Qed.
Lemma list6' {A} (l : list A) : length l = 6%nat -> exists a b c d e f, l = [a; b; c; d; e; f].
Proof. intro H. do 6 (destruct l as [|? l]; [discriminate|]). destruct l; [|discriminate]. repeat eexists. Qed.
Lemma list4' {A} (l : list A) : length l = 4%nat -> exists a b c d, l = [a; b; c; d].
Proof. intro H. do 4 (destruct l as [|? l]; [discriminate|]). destruct l; [|discriminate]. repeat eexists. Qed.
(* configuration page arithmetic of _protect_with_password *)
Theorem bridge_ntag_cfg_edit cfg key rp pf : length cfg = 16%nat -> length key = 6%nat ->
  gen_ntag_cfg_edit cfg key rp pf = ntag_cfg_edit cfg key rp pf.
Proof.
  intros Hc Hk.
  destruct (list16 cfg Hc) as (a0 & a1 & a2 & a3 & a4 & a5 & a6 & a7 & a8 & a9 & a10 & a11 & a12 & a13 & a14 & a15 & ->).
  destruct (list6' key Hk) as (k0 & k1 & k2 & k3 & k4 & k5 & ->).
  reflexivity.
Qed.
Theorem bridge_ntag_cfg_writes cfgpage cfg :
  map (fun i => (gen_ntag_cfg_page cfgpage i, gen_ntag_cfg_slice cfg i)) (zrange 0 gen_ntag_cfg_count) =
  [(cfgpage, slice cfg 0 4); (cfgpage + 1, slice cfg 4 8); (cfgpage + 2, slice cfg 8 12); (cfgpage + 3, slice cfg 12 16)].
Proof.
  unfold gen_ntag_cfg_page, gen_ntag_cfg_slice. change (zrange 0 gen_ntag_cfg_count) with [0; 1; 2; 3]. cbn [map].
  rewrite !pyslice_slice by (cbn; lia). rewrite Z.add_0_r. reflexivity.
Qed.
Theorem bridge_ntag_cc cc rp pf : length cc = 4%nat ->
  gen_ntag_cc_cond pf = (pf <=? 3) /\ gen_ntag_cc_test cc = ntag_cc_test cc /\ gen_ntag_cc_edit cc rp = ntag_cc_edit cc rp.
Proof.
  intro H. destruct (list4' cc H) as (a & b & c & d & ->). repeat split.
Qed.
