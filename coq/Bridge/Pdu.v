(* Bridge: the __len__ methods regenerated from src/nfc/llcp/pdu.py on this run (Gen/PduLen.v) are pdu_len of the
   model (Model/Pdu.v), constructor by constructor.  C11's len_encode and C10's size accounting are about pdu_len. *)
From Coq Require Import ZArith List Bool Lia ZifyBool.
From NV Require Import Base.Bytes Model.Pdu Gen.PduLen.
Import ListNotations.
Open Scope Z_scope.

Lemma g_zsum_zsum l : g_zsum l = zsum l. Proof. reflexivity. Qed.

Theorem bridge_len_symm d s : gen_len_Symmetry = pdu_len (Symm d s).
Proof. reflexivity. Qed.
Theorem bridge_len_pax d s v m w l o : gen_len_ParameterExchange v m w l o = pdu_len (Pax d s v m w l o).
Proof. destruct v, m, w, l, o; reflexivity. Qed.
(* the aggregate: __len__ sums 2 + len(member) over the members *)
Theorem bridge_len_agf d s ps : gen_len_AggregatedFrame (map pdu_len ps) = pdu_len (Agf d s ps).
Proof. unfold gen_len_AggregatedFrame. cbn [pdu_len]. rewrite map_map. reflexivity. Qed.
Theorem bridge_len_ui d s data : gen_len_UnnumberedInformation data = pdu_len (UI d s data).
Proof. reflexivity. Qed.
Theorem bridge_len_connect d s miu rw sn : gen_len_Connect miu rw sn = pdu_len (Connect d s miu rw sn).
Proof.
  unfold gen_len_Connect, g_truthy_obytes, g_olen. cbn [pdu_len].
  destruct sn as [[|x b]|]; destruct (miu >? 128) eqn:E; destruct (rw =? 1) eqn:E2; destruct (miu =? 0) eqn:E3;
    cbn [negb andb optb_len]; lia.
Qed.
Theorem bridge_len_disc d s : gen_len_Disconnect = pdu_len (Disc d s).
Proof. reflexivity. Qed.
Theorem bridge_len_cc d s miu rw : gen_len_ConnectionComplete miu rw = pdu_len (CC d s miu rw).
Proof.
  unfold gen_len_ConnectionComplete. cbn [pdu_len].
  destruct (miu >? 128) eqn:E; destruct (rw =? 1) eqn:E2; destruct (miu =? 0) eqn:E3; cbn [negb andb]; lia.
Qed.
Theorem bridge_len_dm d s r : gen_len_DisconnectedMode = pdu_len (DM d s r).
Proof. reflexivity. Qed.
Theorem bridge_len_frmr d s a b c e f g h i : gen_len_FrameReject = pdu_len (Frmr d s a b c e f g h i).
Proof. reflexivity. Qed.
Theorem bridge_len_snl d s rq rs : gen_len_ServiceNameLookup rq rs = pdu_len (Snl d s rq rs).
Proof. reflexivity. Qed.
Theorem bridge_len_dps d s e r : gen_len_DataProtectionSetup e r = pdu_len (Dps d s e r).
Proof. destruct e as [[|x b]|]; destruct r as [[|y c]|]; reflexivity. Qed.
Theorem bridge_len_info d s ns nr data : gen_len_Information data = pdu_len (Info d s ns nr data).
Proof. reflexivity. Qed.
(* ReceiveReady / ReceiveNotReady inherit NumberedProtocolDataUnit.__len__ (checked by the generator) *)
Theorem bridge_len_rr d s nr : gen_len_NumberedProtocolDataUnit = pdu_len (RR d s nr).
Proof. reflexivity. Qed.
Theorem bridge_len_rnr d s nr : gen_len_NumberedProtocolDataUnit = pdu_len (RNR d s nr).
Proof. reflexivity. Qed.
Theorem bridge_len_unknown pt d s payload : gen_len_UnknownProtocolDataUnit payload = pdu_len (Unknown pt d s payload).
Proof. reflexivity. Qed.
