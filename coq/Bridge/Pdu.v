(* Bridge: the __len__ methods regenerated from src/nfc/llcp/pdu.py on this run (Gen/PduLen.v) are pdu_len of the
   model (Model/Pdu.v), constructor by constructor.  C11's len_encode and C10's size accounting are about pdu_len. *)
From Coq Require Import ZArith List Bool Lia ZifyBool.
Ltac Zify.zify_post_hook ::= Z.to_euclidean_division_equations.
From NV Require Import Base.Result Base.Bytes Base.PyPrims Base.Sweep Model.Pdu Gen.PduLen Gen.PduK Gen.CollectK
  Proofs.PduBase Proofs.PduWin.
Import ListNotations.
Open Scope Z_scope.

Lemma g_zsum_zsum l : g_zsum l = zsum l. Proof. reflexivity. Qed.

Theorem bridge_len_symm d s : gen_len_Symmetry = pdu_len (Symm d s).
Proof. reflexivity. Qed.
Theorem bridge_len_pax d s v m w l o : gen_len_ParameterExchange v m w l o = pdu_len (Pax d s v m w l o).
Proof. destruct v, m, w, l, o; reflexivity. Qed.
(* the aggregate: __len__ sums 2 + len(member) over the members *)
Theorem bridge_len_agf d s ps : gen_len_AggregatedFrame (map pdu_len ps) = pdu_len (Agf d s ps).
Proof. unfold gen_len_AggregatedFrame. cbn [pdu_len]. rewrite map_map. reflexivity. Qed.
Theorem bridge_len_ui d s data : gen_len_UnnumberedInformation data = pdu_len (UI d s data).
Proof. reflexivity. Qed.
Theorem bridge_len_connect d s miu rw sn : gen_len_Connect miu rw sn = pdu_len (Connect d s miu rw sn).
Proof.
  unfold gen_len_Connect, g_truthy_obytes, g_olen. cbn [pdu_len].
  destruct sn as [[|x b]|]; destruct (miu >? 128) eqn:E; destruct (rw =? 1) eqn:E2; destruct (miu =? 0) eqn:E3;
    cbn [negb andb optb_len]; lia.
Qed.
Theorem bridge_len_disc d s : gen_len_Disconnect = pdu_len (Disc d s).
Proof. reflexivity. Qed.
Theorem bridge_len_cc d s miu rw : gen_len_ConnectionComplete miu rw = pdu_len (CC d s miu rw).
Proof.
  unfold gen_len_ConnectionComplete. cbn [pdu_len].
  destruct (miu >? 128) eqn:E; destruct (rw =? 1) eqn:E2; destruct (miu =? 0) eqn:E3; cbn [negb andb]; lia.
Qed.
Theorem bridge_len_dm d s r : gen_len_DisconnectedMode = pdu_len (DM d s r).
Proof. reflexivity. Qed.
Theorem bridge_len_frmr d s a b c e f g h i : gen_len_FrameReject = pdu_len (Frmr d s a b c e f g h i).
Proof. reflexivity. Qed.
Theorem bridge_len_snl d s rq rs : gen_len_ServiceNameLookup rq rs = pdu_len (Snl d s rq rs).
Proof. reflexivity. Qed.
Theorem bridge_len_dps d s e r : gen_len_DataProtectionSetup e r = pdu_len (Dps d s e r).
Proof. destruct e as [[|x b]|]; destruct r as [[|y c]|]; reflexivity. Qed.
Theorem bridge_len_info d s ns nr data : gen_len_Information data = pdu_len (Info d s ns nr data).
Proof. reflexivity. Qed.
(* ReceiveReady / ReceiveNotReady inherit NumberedProtocolDataUnit.__len__ (checked by the generator) *)
Theorem bridge_len_rr d s nr : gen_len_NumberedProtocolDataUnit = pdu_len (RR d s nr).
Proof. reflexivity. Qed.
Theorem bridge_len_rnr d s nr : gen_len_NumberedProtocolDataUnit = pdu_len (RNR d s nr).
Proof. reflexivity. Qed.
Theorem bridge_len_unknown pt d s payload : gen_len_UnknownProtocolDataUnit payload = pdu_len (Unknown pt d s payload).
Proof. reflexivity. Qed.

(* ===================================================================================================================
   Round 2: the codec kernels regenerated from pdu.py (Gen/PduK.v) are the expressions / functions of Model/Pdu.v.
   Reads of the kernels are py2coq's total pyidx; the lemmas carry the in-range facts as [rd .. = Some ..].
   =================================================================================================================== *)
Lemma pyidx_rd l k x : rd l k = Some x -> pyidx l k = x.
Proof.
  unfold rd, pyidx. destruct (k <? 0) eqn:E; [discriminate|]. intro H. rewrite E.
  apply nth_error_nth with (d := 0) in H. exact H.
Qed.

Lemma pyslice_slice {A} (l : list A) a b : 0 <= a -> 0 <= b -> pyslice l a b = slice l a b.
Proof.
  intros Ha Hb. unfold pyslice, norm_idx. rewrite slice_eq by lia. pose proof (len_nonneg l) as Hn.
  replace (a <? 0) with false by lia. replace (b <? 0) with false by lia.
  destruct (Z.le_gt_cases (len l) a) as [H|H].
  - rewrite (Z.min_r a) by lia. unfold len in *. rewrite !skipn_all2 by lia. rewrite !firstn_nil. reflexivity.
  - rewrite (Z.min_l a) by lia. destruct (Z.le_gt_cases b (len l)) as [H2|H2].
    + rewrite (Z.min_l b) by lia. reflexivity.
    + rewrite (Z.min_r b) by lia. unfold len in *. rewrite !firstn_all2; [reflexivity | |]; rewrite skipn_length; lia.
Qed.

(* ---------------------------------------------------------------- encode_header / decode_header *)
Theorem bridge_encode_header pt d s :
  encode_header pt d s =
  if gen_pdu_hdr_neg d s then EEncodeError else if gen_pdu_hdr_big d s then EEncodeError
  else if in_range 0 65535 (gen_pdu_hdr_value d pt s) then EOk (gen_pdu_hdr_bytes d pt s) else ECrash StructErr.
Proof. reflexivity. Qed.
Theorem bridge_encode_nheader pt d s ns nr :
  encode_nheader pt d s ns nr =
  edo h <- encode_header pt d s;
  if gen_pdu_seq_neg ns nr then EEncodeError else if gen_pdu_seq_big ns nr then EEncodeError
  else EOk (h ++ gen_pdu_seq_bytes ns nr).
Proof. reflexivity. Qed.
Theorem bridge_decode_header data off size a b : rd data off = Some a -> rd data (off + 1) = Some b ->
  decode_header data off size =
  if gen_pdu_hdr_short size gen_pdu_hdr_size then Err DecodeError
  else Ok (gen_pdu_hdr_field0 data off, gen_pdu_hdr_field1 data off).
Proof.
  intros Ha Hb. unfold decode_header, rdc, gen_pdu_hdr_field0, gen_pdu_hdr_field1. rewrite Ha, Hb.
  rewrite (pyidx_rd _ _ _ Ha), (pyidx_rd _ _ _ Hb). reflexivity.
Qed.
Theorem bridge_decode_nheader data off size a b q :
  rd data off = Some a -> rd data (off + 1) = Some b -> rd data (off + 2) = Some q ->
  decode_nheader data off size =
  if gen_pdu_nhdr_short size gen_pdu_nhdr_size then Err DecodeError
  else Ok (gen_pdu_nhdr_field0 data off, gen_pdu_nhdr_field1 data off, gen_pdu_nhdr_field2 data off, gen_pdu_nhdr_field3 data off).
Proof.
  intros Ha Hb Hq. unfold decode_nheader, rdc, gen_pdu_nhdr_field0, gen_pdu_nhdr_field1, gen_pdu_nhdr_field2, gen_pdu_nhdr_field3.
  rewrite Ha, Hb, Hq. rewrite (pyidx_rd _ _ _ Ha), (pyidx_rd _ _ _ Hb), (pyidx_rd _ _ _ Hq). reflexivity.
Qed.

(* ---------------------------------------------------------------- Parameter.encode *)
Theorem bridge_penc_types :
  gen_pdu_penc_u8_types = [gen_pdu_T_VERSION; gen_pdu_T_LTO; gen_pdu_T_RW; gen_pdu_T_OPT] /\
  gen_pdu_penc_u16_types = [gen_pdu_T_MIUX; gen_pdu_T_WKS] /\
  gen_pdu_penc_bytes_types = [gen_pdu_T_SN; gen_pdu_T_ECPK; gen_pdu_T_RN] /\
  [gen_pdu_T_VERSION; gen_pdu_T_MIUX; gen_pdu_T_WKS; gen_pdu_T_LTO; gen_pdu_T_RW; gen_pdu_T_SN; gen_pdu_T_OPT;
   gen_pdu_T_SDREQ; gen_pdu_T_SDRES; gen_pdu_T_ECPK; gen_pdu_T_RN] = [1; 2; 3; 4; 5; 6; 7; 8; 9; 10; 11].
Proof. repeat split. Qed.
Theorem bridge_param_encode t :
  param_encode t =
  match t with
  | TVersion v => if in_range 0 255 v then EOk (gen_pdu_penc_u8 gen_pdu_T_VERSION v) else EEncodeError
  | TMiux v => if in_range 0 65535 v then EOk (gen_pdu_penc_u16 gen_pdu_T_MIUX v) else EEncodeError
  | TWks v => if in_range 0 65535 v then EOk (gen_pdu_penc_u16 gen_pdu_T_WKS v) else EEncodeError
  | TLto v => if in_range 0 255 v then EOk (gen_pdu_penc_u8 gen_pdu_T_LTO v) else EEncodeError
  | TRw v => if in_range 0 255 v then EOk (gen_pdu_penc_u8 gen_pdu_T_RW v) else EEncodeError
  | TSn b => if gen_pdu_penc_bytes_long b then EEncodeError else EOk (gen_pdu_penc_bytes gen_pdu_T_SN b)
  | TOpt v => if in_range 0 255 v then EOk (gen_pdu_penc_u8 gen_pdu_T_OPT v) else EEncodeError
  | TSdreq tid sn => if gen_pdu_penc_sdreq_long sn then EEncodeError
                     else if in_range 0 255 tid then EOk (gen_pdu_penc_sdreq gen_pdu_T_SDREQ tid sn) else EEncodeError
  | TSdres tid sap => if in_range 0 255 tid && in_range 0 255 sap
                      then EOk (gen_pdu_penc_sdres gen_pdu_T_SDRES tid sap) else EEncodeError
  | TEcpk b => if gen_pdu_penc_bytes_long b then EEncodeError else EOk (gen_pdu_penc_bytes gen_pdu_T_ECPK b)
  | TRn b => if gen_pdu_penc_bytes_long b then EEncodeError else EOk (gen_pdu_penc_bytes gen_pdu_T_RN b)
  | TOther _ _ => EEncodeError
  end.
Proof.
  destruct t; cbn [param_encode]; unfold packB, packH; try reflexivity.
  - destruct (in_range 0 255 v); reflexivity.
  - destruct (in_range 0 65535 v); reflexivity.
  - destruct (in_range 0 65535 v); reflexivity.
  - destruct (in_range 0 255 v); reflexivity.
  - destruct (in_range 0 255 v); reflexivity.
  - destruct (in_range 0 255 v); reflexivity.
  - unfold gen_pdu_penc_sdreq_long. destruct (len sn >? 254); [reflexivity|]. destruct (in_range 0 255 tid); reflexivity.
  - destruct (in_range 0 255 tid); destruct (in_range 0 255 sap); reflexivity.
Qed.

(* ---------------------------------------------------------------- Parameter.decode *)
Lemma mask_sweep16 (m k : Z) :
  sweep16 (fun x => Z.land x k =? (if negb (Z.land x m =? 0) then Z.land x k else x)) = true ->
  forall x, 0 <= x < 65536 -> Z.land x k = if negb (Z.land x m =? 0) then Z.land x k else x.
Proof. intros H x Hx. apply Z.eqb_eq. exact (sweep16_lift _ H x Hx). Qed.

Lemma mask_sweep8 (m k : Z) :
  forallb (fun x => Z.land x k =? (if negb (Z.land x m =? 0) then Z.land x k else x)) (zseq 0 256) = true ->
  forall x, 0 <= x < 256 -> Z.land x k = if negb (Z.land x m =? 0) then Z.land x k else x.
Proof. intros H x Hx. apply Z.eqb_eq. apply (sweep_lift _ 0 256 H x). cbn. lia. Qed.

Theorem bridge_param_decode data off size T L : rd data off = Some T -> rd data (off + 1) = Some L ->
  param_decode data off size =
  if off + 2 + L >? len data then Err DecodeError
  else if gen_pdu_pdec_exceeds L size then Err DecodeError
  else do t <- tlv_interp T L (slice data (off + 2) (off + 2 + L)); Ok (L, t).
Proof. intros Ha Hb. unfold param_decode. rewrite Ha, Hb. reflexivity. Qed.

Theorem bridge_pdec_version L v :
  tlv_interp gen_pdu_T_VERSION L [v] =
  if gen_pdu_pdec_VERSION_badlen L then Err DecodeError else Ok (TVersion (gen_pdu_pdec_VERSION_raw [v])).
Proof. reflexivity. Qed.
Theorem bridge_pdec_lto L v :
  tlv_interp gen_pdu_T_LTO L [v] =
  if gen_pdu_pdec_LTO_badlen L then Err DecodeError else Ok (TLto (gen_pdu_pdec_LTO_raw [v])).
Proof. reflexivity. Qed.
Theorem bridge_pdec_wks L a b :
  tlv_interp gen_pdu_T_WKS L [a; b] =
  if gen_pdu_pdec_WKS_badlen L then Err DecodeError else Ok (TWks (gen_pdu_pdec_WKS_raw [a; b])).
Proof. reflexivity. Qed.
(* MIUX: the reserved-bit test and the mask are C10's kernels (Gen/CollectK.v, the same two source expressions) *)
Theorem bridge_pdec_miux L a b : 0 <= a < 256 -> 0 <= b < 256 ->
  tlv_interp gen_pdu_T_MIUX L [a; b] =
  if gen_pdu_pdec_MIUX_badlen L then Err DecodeError
  else Ok (TMiux (let V := gen_pdu_pdec_MIUX_raw [a; b] in
                  if negb (gen_c10_miux_reserved V =? 0) then gen_c10_miux_masked V else V)).
Proof.
  intros Ha Hb. unfold tlv_interp, gen_pdu_T_MIUX, gen_pdu_pdec_MIUX_badlen, gen_pdu_pdec_MIUX_raw, gen_c10_miux_reserved, gen_c10_miux_masked.
  cbn [Z.eqb Pos.eqb pyidx]. change (pyidx [a; b] 0) with a. change (pyidx [a; b] 1) with b. cbv zeta.
  destruct (negb (L =? 2)); [reflexivity|]. f_equal. f_equal.
  apply (mask_sweep16 63488 2047); [vm_compute; reflexivity | lia].
Qed.
Theorem bridge_pdec_rw L v : 0 <= v < 256 ->
  tlv_interp gen_pdu_T_RW L [v] =
  if gen_pdu_pdec_RW_badlen L then Err DecodeError
  else Ok (TRw (let V := gen_pdu_pdec_RW_raw [v] in
                if negb (gen_pdu_pdec_RW_reserved V =? 0) then gen_pdu_pdec_RW_masked V else V)).
Proof.
  intro Hv. unfold tlv_interp, gen_pdu_T_RW, gen_pdu_pdec_RW_badlen, gen_pdu_pdec_RW_raw, gen_pdu_pdec_RW_reserved, gen_pdu_pdec_RW_masked.
  cbn [Z.eqb Pos.eqb]. change (pyidx [v] 0) with v. cbv zeta. destruct (negb (L =? 1)); [reflexivity|]. f_equal. f_equal.
  apply (mask_sweep8 240 15); [vm_compute; reflexivity | lia].
Qed.
Theorem bridge_pdec_opt L v : 0 <= v < 256 ->
  tlv_interp gen_pdu_T_OPT L [v] =
  if gen_pdu_pdec_OPT_badlen L then Err DecodeError
  else Ok (TOpt (let V := gen_pdu_pdec_OPT_raw [v] in
                 if negb (gen_pdu_pdec_OPT_reserved V =? 0) then gen_pdu_pdec_OPT_masked V else V)).
Proof.
  intro Hv. unfold tlv_interp, gen_pdu_T_OPT, gen_pdu_pdec_OPT_badlen, gen_pdu_pdec_OPT_raw, gen_pdu_pdec_OPT_reserved, gen_pdu_pdec_OPT_masked.
  cbn [Z.eqb Pos.eqb]. change (pyidx [v] 0) with v. cbv zeta. destruct (negb (L =? 1)); [reflexivity|]. f_equal. f_equal.
  apply (mask_sweep8 248 7); [vm_compute; reflexivity | lia].
Qed.
Theorem bridge_pdec_sdreq L tid sn :
  tlv_interp gen_pdu_T_SDREQ L (tid :: sn) = if gen_pdu_pdec_SDREQ_badlen L then Err DecodeError else Ok (TSdreq tid sn).
Proof. reflexivity. Qed.
Theorem bridge_pdec_sdres L a b :
  tlv_interp gen_pdu_T_SDRES L [a; b] = if gen_pdu_pdec_SDRES_badlen L then Err DecodeError else Ok (TSdres a b).
Proof. reflexivity. Qed.
Theorem bridge_pdec_bytes L V :
  tlv_interp gen_pdu_T_SN L V = Ok (TSn V) /\ tlv_interp gen_pdu_T_ECPK L V = Ok (TEcpk V) /\
  tlv_interp gen_pdu_T_RN L V = Ok (TRn V).
Proof. repeat split. Qed.

(* the `while size >= 2` loop of the five parameter-carrying classes *)
Theorem bridge_tlv_loop_step f step data off size st :
  tlv_loop (S f) step data off size st =
  if negb (gen_pdu_tlv_more size) then Ok st else
  do (L, t) <- param_decode data off size;
  tlv_loop f step data (gen_pdu_tlv_next_offset off L) (gen_pdu_tlv_next_size size L) (step st t).
Proof.
  rewrite tlv_loop_eq. unfold gen_pdu_tlv_more. replace (negb (size >=? 2)) with (size <? 2) by lia. reflexivity.
Qed.

(* ---------------------------------------------------------------- decode() *)
Theorem bridge_decode_guard agf data off size :
  decode_gen agf data off size =
  if gen_pdu_dec_exceeds data off size then Err DecodeError
  else if gen_pdu_dec_short size then Err DecodeError else decode_gen agf data off size.
Proof.
  unfold decode_gen, gen_pdu_dec_exceeds, gen_pdu_dec_short.
  destruct (off + size >? len data); [reflexivity|]. destruct (size <? 2); reflexivity.
Qed.
Theorem bridge_decode_ptype data off a b : rd data off = Some a -> rd data (off + 1) = Some b ->
  gen_pdu_dec_ptype data off = Z.land (Z.shiftr (a * 256 + b) 6) 15.
Proof. intros Ha Hb. unfold gen_pdu_dec_ptype. rewrite (pyidx_rd _ _ _ Ha), (pyidx_rd _ _ _ Hb). reflexivity. Qed.
(* pdu_type_map sends the PTYPE of each class to that class, and the PTYPEs are the ones the model dispatches on *)
Theorem bridge_type_map :
  gen_pdu_type_map =
  [(gen_pdu_ptype_Symmetry, 0); (gen_pdu_ptype_ParameterExchange, 1); (gen_pdu_ptype_AggregatedFrame, 2);
   (gen_pdu_ptype_UnnumberedInformation, 3); (gen_pdu_ptype_Connect, 4); (gen_pdu_ptype_Disconnect, 5);
   (gen_pdu_ptype_ConnectionComplete, 6); (gen_pdu_ptype_DisconnectedMode, 7); (gen_pdu_ptype_FrameReject, 8);
   (gen_pdu_ptype_ServiceNameLookup, 9); (gen_pdu_ptype_DataProtectionSetup, 10); (gen_pdu_ptype_Information, 11);
   (gen_pdu_ptype_ReceiveReady, 12); (gen_pdu_ptype_ReceiveNotReady, 13)] /\
  map fst gen_pdu_type_map = [0; 1; 2; 3; 4; 5; 6; 7; 8; 9; 10; 12; 13; 14].
Proof. split; reflexivity. Qed.
Theorem bridge_unknown_ptype data off a b : rd data off = Some a -> rd data (off + 1) = Some b ->
  gen_pdu_unknown_ptype data off = Z.land (Z.lor (Z.shiftl a 2) (Z.shiftr b 6)) 15.
Proof. intros Ha Hb. unfold gen_pdu_unknown_ptype. rewrite (pyidx_rd _ _ _ Ha), (pyidx_rd _ _ _ Hb). reflexivity. Qed.
Theorem bridge_payloads data off size : 0 <= off -> 0 <= off + size ->
  gen_pdu_ui_payload data off size = slice data (off + 2) (off + size) /\
  gen_pdu_info_payload data off size = slice data (off + 3) (off + size) /\
  gen_pdu_unknown_payload data off size = slice data (off + 2) (off + size).
Proof.
  intros Ho Hs. unfold gen_pdu_ui_payload, gen_pdu_info_payload, gen_pdu_unknown_payload.
  rewrite !pyslice_slice by lia. repeat split.
Qed.

(* ---------------------------------------------------------------- AggregatedFrame.decode / .encode *)
Theorem bridge_agf_step f data off size acc :
  agf_loop (S f) data off size acc =
  if negb (gen_pdu_agf_more size) then Ok acc else
  if gen_pdu_agf_lenshort size then Err DecodeError else
  match rd data off, rd data (off + 1) with
  | Some _, Some _ =>
      let n := gen_pdu_agf_len data off in
      if gen_pdu_agf_exceeds n size then Err DecodeError else
      do p <- decode_sub data (off + 2) n;
      agf_loop f data (gen_pdu_agf_next_offset off n) (gen_pdu_agf_next_size size n) (acc ++ [p])
  | _, _ => Err DecodeError
  end.
Proof.
  rewrite agf_loop_eq. unfold gen_pdu_agf_more, gen_pdu_agf_lenshort, gen_pdu_agf_len.
  replace (negb (size >? 0)) with (size <=? 0) by lia. destruct (size <=? 0); [reflexivity|].
  destruct (size <? 2); [reflexivity|].
  destruct (rd data off) as [h|] eqn:Eh; [|reflexivity]. destruct (rd data (off + 1)) as [l|] eqn:El; [|reflexivity].
  rewrite (pyidx_rd _ _ _ Eh), (pyidx_rd _ _ _ El). reflexivity.
Qed.
(* the member: peek at the header under the guard `pdu_size >= 2`, then decode(data, offset + 2, pdu_size) *)
Theorem bridge_agf_member data moff n : 0 <= moff ->
  decode_sub data moff n =
  if gen_pdu_agf_guard n && gen_pdu_agf_is_agf data moff then Err DecodeError else decode data moff n.
Proof.
  intro Ho. unfold decode_sub, decode, decode_gen, gen_pdu_agf_guard, gen_pdu_agf_is_agf.
  destruct (moff + n >? len data) eqn:E1.
  { destruct ((n >=? 2) && _); reflexivity. }
  destruct (n <? 2) eqn:E2.
  { replace (n >=? 2) with false by lia. reflexivity. }
  replace (n >=? 2) with true by lia. cbn [andb].
  destruct (rd data moff) as [a|] eqn:Ea; [|rewrite rd_spec in Ea by lia; discriminate].
  destruct (rd data (moff + 1)) as [b|] eqn:Eb; [|rewrite rd_spec in Eb by lia; discriminate].
  unfold rdc. rewrite Ea, Eb. cbn [bind]. rewrite (pyidx_rd _ _ _ Ea), (pyidx_rd _ _ _ Eb).
  destruct (Z.land (Z.shiftr (a * 256 + b) 6) 15 =? 2) eqn:E; [|reflexivity].
  apply Z.eqb_eq in E. rewrite E. reflexivity.
Qed.
Theorem bridge_agf_tests n size off :
  gen_pdu_agf_exceeds n size = (n >? size - 2) /\ gen_pdu_agf_next_offset off n = off + 2 + n /\
  gen_pdu_agf_next_size size n = size - 2 - n /\ (forall d s, gen_pdu_agf_nonzero d s = negb (d =? 0) || negb (s =? 0)).
Proof. repeat split. Qed.
Theorem bridge_agf_frame e : 0 <= len e <= 65535 -> agf_body [e] = EOk (gen_pdu_agf_frame e).
Proof.
  intro H. cbn [agf_body]. unfold in_range. replace ((0 <=? len e) && (len e <=? 65535)) with true by lia.
  cbn [ebind]. unfold gen_pdu_agf_frame, pack_be16. rewrite app_nil_r. reflexivity.
Qed.

(* ---------------------------------------------------------------- address / size tests of the other classes *)
Theorem bridge_class_tests d s size :
  gen_pdu_symm_badsap d s = negb (d =? 0) || negb (s =? 0) /\ gen_pdu_symm_payload size = (size >=? 3) /\
  gen_pdu_pax_badsap d s = negb (d =? 0) || negb (s =? 0) /\ gen_pdu_snl_badsap d s = negb (d =? 1) || negb (s =? 1) /\
  gen_pdu_dps_badsap d s = negb (d =? 0) || negb (s =? 0) /\
  gen_pdu_symm_enc_badsap d s = negb (d =? 0) || negb (s =? 0) /\ gen_pdu_pax_enc_badsap d s = negb (d =? 0) || negb (s =? 0) /\
  gen_pdu_dps_enc_badsap d s = negb (d =? 0) || negb (s =? 0) /\ gen_pdu_agf_enc_nonzero d s = negb (d =? 0) || negb (s =? 0) /\
  gen_pdu_dm_badsize size = negb (size =? 3) /\ gen_pdu_frmr_badsize size = negb (size =? 6).
Proof. repeat split. Qed.
Theorem bridge_symm data off size :
  dec_symm data off size =
  do (dsap, ssap) <- decode_header data off size;
  if gen_pdu_symm_badsap dsap ssap then Err DecodeError else
  if gen_pdu_symm_payload size then Err DecodeError else Ok (Symm dsap ssap).
Proof. reflexivity. Qed.

(* ---------------------------------------------------------------- Connect / ConnectionComplete *)
Theorem bridge_connect_encode d s miu rw sn :
  encode (Connect d s miu rw sn) =
  edo h <- encode_header gen_pdu_ptype_Connect d s;
  edo a <- (if gen_pdu_connect_enc_miux miu then param_encode (TMiux (gen_pdu_connect_enc_miux_arg miu)) else EOk []);
  edo b <- (if gen_pdu_connect_enc_rw rw then param_encode (TRw rw) else EOk []);
  edo c <- (if gen_pdu_connect_enc_sn sn then param_encode (TSn (match sn with Some x => x | None => [] end)) else EOk []);
  EOk (h ++ a ++ b ++ c).
Proof.
  cbn [encode]. unfold gen_pdu_connect_enc_miux, gen_pdu_connect_enc_rw, gen_pdu_connect_enc_sn, gen_pdu_connect_enc_miux_arg, gen_pdu_ptype_Connect.
  replace (negb (miu =? 0) && (miu >? 128)) with (miu >? 128) by lia. cbn [andb].
  destruct sn as [[|x l]|]; reflexivity.
Qed.
Theorem bridge_cc_encode d s miu rw :
  encode (CC d s miu rw) =
  edo h <- encode_header gen_pdu_ptype_ConnectionComplete d s;
  edo a <- (if gen_pdu_cc_enc_miux miu then param_encode (TMiux (gen_pdu_cc_enc_miux_arg miu)) else EOk []);
  edo b <- (if gen_pdu_cc_enc_rw rw then param_encode (TRw rw) else EOk []);
  EOk (h ++ a ++ b).
Proof.
  cbn [encode]. unfold gen_pdu_cc_enc_miux, gen_pdu_cc_enc_rw, gen_pdu_cc_enc_miux_arg, gen_pdu_ptype_ConnectionComplete.
  replace (negb (miu =? 0) && (miu >? 128)) with (miu >? 128) by lia. reflexivity.
Qed.
Theorem bridge_connect_decode data off size d s miu rw sn x :
  dec_connect data off size =
    (do (dsap, ssap) <- decode_header data off size;
     tlv_loop (Z.to_nat (size - 2)) connect_step data (off + 2) (size - 2)
       (Connect dsap ssap gen_pdu_connect_default_miu gen_pdu_connect_default_rw None)) /\
  dec_cc data off size =
    (do (dsap, ssap) <- decode_header data off size;
     tlv_loop (Z.to_nat (size - 2)) cc_step data (off + 2) (size - 2)
       (CC dsap ssap gen_pdu_cc_default_miu gen_pdu_cc_default_rw)) /\
  connect_step (Connect d s miu rw sn) (TMiux x) = Connect d s (gen_pdu_connect_dec_miu x) rw sn /\
  cc_step (CC d s miu rw) (TMiux x) = CC d s (gen_pdu_cc_dec_miu x) rw.
Proof. repeat split. Qed.

(* ---------------------------------------------------------------- FrameReject *)
Theorem bridge_frmr_encode d s fl pt ns nr vs vr vsa vra :
  encode (Frmr d s fl pt ns nr vs vr vsa vra) =
  edo h <- encode_header gen_pdu_ptype_FrameReject d s;
  if forallb (in_range 0 255) (gen_pdu_frmr_bytes fl pt ns nr vs vr vsa vra)
  then EOk (h ++ gen_pdu_frmr_bytes fl pt ns nr vs vr vsa vra) else ECrash StructErr.
Proof.
  cbn [encode]. unfold gen_pdu_ptype_FrameReject, gen_pdu_frmr_bytes, pack_u8, rawB. cbn [app forallb].
  destruct (encode_header 8 d s); cbn [ebind]; try reflexivity.
  destruct (in_range 0 255 (Z.lor (Z.shiftl fl 4) pt)); destruct (in_range 0 255 (Z.lor (Z.shiftl ns 4) nr));
    destruct (in_range 0 255 (Z.lor (Z.shiftl vs 4) vr)); destruct (in_range 0 255 (Z.lor (Z.shiftl vsa 4) vra)); reflexivity.
Qed.
Theorem bridge_frmr_nibbles b : gen_pdu_frmr_hi b = Z.shiftr b 4 /\ gen_pdu_frmr_lo b = Z.land b 15.
Proof. split; reflexivity. Qed.
