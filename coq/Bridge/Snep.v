(* Bridge: the fragmentation arithmetic regenerated from src/nfc/snep/{client,server}.py and
   src/nfc/handover/{client,server}.py on every run (Gen/SnepK.v, translate/kspec_c06.py) is the
   arithmetic Model/Snep.v computes with.  Each lemma rewrites one model function (or one of its
   steps) with the generated kernels in the place of the model's own tests, slices, header fields
   and constants; if the source changes one of these expressions the lemma no longer checks. *)
From Coq Require Import ZArith List Bool Lia ZifyBool.
From NV Require Import Base.Result Base.Bytes Base.PyPrims Model.Snep Proofs.SnepChunks Gen.SnepK.
Import ListNotations.
Open Scope Z_scope.

(* ---------------------------------------------------------------- Python slices and range() *)
Lemma pyslice_take {A} (l : list A) n : 0 <= n -> pyslice l 0 n = take n l.
Proof. intro H. rewrite pyslice_0 by exact H. unfold slice, take. cbn [skipn Z.to_nat Z.max]. f_equal. lia. Qed.

Lemma pyslice_mid {A} (pre rest : list A) m : 0 <= m ->
  pyslice (pre ++ rest) (len pre) (len pre + m) = take m rest.
Proof.
  intro Hm. unfold pyslice, norm_idx, take. pose proof (len_nonneg pre). pose proof (len_nonneg rest).
  rewrite len_app. replace (len pre <? 0) with false by lia. replace (len pre + m <? 0) with false by lia.
  rewrite (Z.min_l (len pre)) by lia.
  replace (Z.to_nat (len pre)) with (length pre) by (unfold len; lia).
  rewrite skipn_app, skipn_all, Nat.sub_diag. cbn [skipn app].
  destruct (Z.le_gt_cases m (len rest)).
  - rewrite Z.min_l by lia. f_equal. lia.
  - rewrite Z.min_r by lia. unfold len in *. rewrite !firstn_all2; [reflexivity | lia | lia].
Qed.

Lemma pyslice_drop {A} (l : list A) n : 0 <= n -> pyslice l n (len l) = drop n l.
Proof.
  intro Hn. unfold pyslice, norm_idx, drop. pose proof (len_nonneg l).
  replace (n <? 0) with false by lia. replace (len l <? 0) with false by lia. rewrite Z.min_id.
  destruct (Z.le_gt_cases n (len l)).
  - rewrite Z.min_l by lia. unfold len in *. apply firstn_all2. rewrite skipn_length. lia.
  - rewrite Z.min_r by lia. unfold len in *. rewrite !skipn_all2 by lia. destruct (Z.to_nat _); reflexivity.
Qed.

(* range(a, b, s) for a positive step: a, a+s, ... while < b *)
Fixpoint pyrange_f (fuel : nat) (a b s : Z) : list Z :=
  match fuel with
  | O => []
  | S f => if a <? b then a :: pyrange_f f (a + s) b s else []
  end.
Definition pyrange (a b s : Z) : list Z := pyrange_f (Z.to_nat (b - a)) a b s.

(* the fragment list of the model is the list of slices the range() loops cut *)
Lemma chunks_as_slices miu : 1 <= miu -> forall fuel (pre rest : list Z), (length rest <= fuel)%nat ->
  chunks_f fuel (Z.to_nat miu) rest =
  map (fun off => pyslice (pre ++ rest) off (off + miu)) (pyrange_f fuel (len pre) (len pre + len rest) miu).
Proof.
  intros Hmiu. induction fuel as [|f IH]; intros pre rest Hf.
  - reflexivity.
  - destruct rest as [|x r].
    + cbn [chunks_f pyrange_f]. rewrite len_nil. replace (len pre <? len pre + 0) with false by lia. reflexivity.
    + cbn [chunks_f pyrange_f]. pose proof (len_nonneg r). rewrite len_cons.
      replace (len pre <? len pre + (1 + len r)) with true by lia. cbn [map]. f_equal.
      * rewrite pyslice_mid by lia. reflexivity.
      * set (l := x :: r) in *. cbn [length] in Hf.
        destruct (Z.le_gt_cases (len l) miu) as [Hs|Hs].
        -- (* last fragment *)
           unfold len in Hs. rewrite skipn_all2 by lia.
           destruct f; [reflexivity|]. cbn [chunks_f pyrange_f].
           replace (len pre + miu <? len pre + (1 + len r)) with false; [reflexivity|].
           subst l. unfold len in *. cbn [length] in Hs. lia.
        -- assert (Hl : len (firstn (Z.to_nat miu) l) = miu) by (apply (len_take miu l); lia).
           specialize (IH (pre ++ firstn (Z.to_nat miu) l) (skipn (Z.to_nat miu) l)).
           rewrite <- app_assoc, firstn_skipn in IH. rewrite len_app, Hl in IH.
           replace (len pre + miu + len (skipn (Z.to_nat miu) l)) with (len pre + (1 + len r)) in IH.
           ++ apply IH. rewrite skipn_length. subst l. cbn [length] in *. lia.
           ++ pose proof (len_drop miu l) as Hd. unfold drop in Hd. rewrite Hd by lia. subst l. rewrite len_cons. lia.
Qed.

Lemma chunks_range miu (l : list Z) : 1 <= miu ->
  chunks miu l = map (fun off => pyslice l off (off + miu)) (pyrange 0 (len l) miu).
Proof.
  intro H. unfold chunks, pyrange. rewrite (chunks_as_slices miu H (length l) [] l) by lia.
  cbn [app]. rewrite len_nil, Z.add_0_l, Z.sub_0_r. unfold len. rewrite Nat2Z.id. reflexivity.
Qed.

Lemma chunks_rest_range miu (req : list Z) : 1 <= miu -> miu < len req ->
  chunks miu (drop miu req) = map (fun off => pyslice req off (off + miu)) (pyrange miu (len req) miu).
Proof.
  intros H Hlt. unfold chunks, pyrange.
  rewrite (chunks_as_slices miu H (length (drop miu req)) (take miu req) (drop miu req)) by lia.
  rewrite take_drop, len_take, len_drop by lia.
  replace (miu + (len req - miu)) with (len req) by lia.
  replace (Z.to_nat (len req - miu)) with (length (drop miu req)); [reflexivity|].
  pose proof (len_drop miu req ltac:(lia)) as Hd. unfold len in *. lia.
Qed.

(* ---------------------------------------------------------------- constants and socket options *)
Lemma bridge_constants :
  gen_c06_rsp_continue = RSP_CONTINUE /\ gen_c06_srv_rsp_continue = RSP_CONTINUE /\
  gen_c06_req_continue = REQ_CONTINUE /\ gen_c06_srv_req_continue = REQ_CONTINUE /\
  gen_c06_rsp_reject = RSP_REJECT /\ gen_c06_rsp_unsupver = RSP_UNSUPVER.
Proof. repeat split. Qed.

(* all four senders read the fragment size with getsockopt(SO_SNDMIU) *)
Lemma bridge_socket_options :
  gen_c06_SO_SNDMIU = SO_SNDMIU /\ gen_c06_SO_RCVMIU = SO_RCVMIU /\
  gen_c06_opt_snep_client = fragment_size_option /\ gen_c06_opt_snep_server = fragment_size_option /\
  gen_c06_opt_ho_client = fragment_size_option /\ gen_c06_opt_ho_server = fragment_size_option /\
  forall send_miu recv_miu, getsockopt send_miu recv_miu gen_c06_opt_ho_client = send_miu.
Proof. repeat split. Qed.

(* ---------------------------------------------------------------- snep client *)
Lemma bridge_put_request o : len o <= 4294967295 -> snep_request (OpPut o) = Ok (gen_c06_put_request o).
Proof. intro H. pose proof (len_nonneg o). cbn [snep_request]. rewrite pack_L_ok by lia. reflexivity. Qed.
Lemma bridge_get_request o acc : 4 + len o <= 4294967295 -> 0 <= acc <= 4294967295 ->
  snep_request (OpGet o acc) = Ok (gen_c06_get_request o acc).
Proof. intros H Ha. pose proof (len_nonneg o). cbn [snep_request]. rewrite !pack_L_ok by lia. reflexivity. Qed.
Lemma bridge_put_acceptable miu o req : snep_request (OpPut o) = Ok req ->
  client_start miu (OpPut o) = send_request miu KPut gen_c06_put_acceptable req.
Proof. intro H. cbn [client_start]. rewrite H. reflexivity. Qed.

Lemma bridge_send_request miu k acc req : 1 <= miu ->
  send_request miu k acc req =
  if gen_c06_req_whole req miu then (CAwaitResp k acc, [req])
  else (CAwaitCont k acc (map (fun offset => gen_c06_req_fragment req offset miu)
                              (pyrange (gen_c06_req_range_start req miu) (gen_c06_req_range_stop req miu)
                                       (gen_c06_req_range_step req miu))),
        [gen_c06_req_first req miu]).
Proof.
  intro H. unfold send_request, gen_c06_req_whole, gen_c06_req_first, gen_c06_req_fragment,
    gen_c06_req_range_start, gen_c06_req_range_stop, gen_c06_req_range_step.
  destruct (len req <=? miu) eqn:E; [reflexivity|].
  rewrite chunks_rest_range by lia. rewrite pyslice_take by lia. reflexivity.
Qed.

Lemma len6 {A} (a b c d e f : A) r : len (a :: b :: c :: d :: e :: f :: r) = 6 + len r.
Proof. rewrite !len_cons. lia. Qed.
Lemma pyslice6 {A} (a b c d e f : A) r : pyslice (a :: b :: c :: d :: e :: f :: r) 0 6 = [a; b; c; d; e; f].
Proof. rewrite pyslice_take by lia. reflexivity. Qed.

Ltac simpl_pyidx :=
  repeat match goal with
         | |- context [pyidx ?l ?i] => let v := eval cbv in (pyidx l i) in change (pyidx l i) with v
         end.

Lemma bridge_recv_first k acc m :
  recv_first k acc m =
  if gen_c06_rsp_short m then (CDone (resp_none k), [])
  else let length := gen_c06_rsp_length m in
       if gen_c06_rsp_excess length acc then (CDone (resp_none k), [])
       else if gen_c06_rsp_more m length then (CMoreResp k m length, [gen_c06_req_continue])
       else (CDone (finish k m), []).
Proof.
  unfold gen_c06_rsp_short, gen_c06_rsp_length, gen_c06_rsp_excess, gen_c06_rsp_more.
  unfold recv_first.
  do 6 (destruct m as [|? m]; [reflexivity|]).
  rewrite !len6. pose proof (len_nonneg m). replace (6 + len m <? 6) with false by lia.
  rewrite pyslice6. simpl_pyidx. reflexivity.
Qed.

Lemma bridge_more_response complete k data length m :
  client_react complete (CMoreResp k data length) (IMsg m) =
  if gen_c06_rsp_more (data ++ m) length then (CMoreResp k (data ++ m) length, [])
  else (CDone (finish k (data ++ m)), []).
Proof. reflexivity. Qed.

Lemma bridge_continue_test complete k acc rest m :
  client_react complete (CAwaitCont k acc rest) (IMsg m) =
  if negb (list_eqb m gen_c06_rsp_continue) then (CDone (send_failed k), []) else (CAwaitResp k acc, rest).
Proof. cbn [client_react]. change gen_c06_rsp_continue with RSP_CONTINUE. destruct (list_eqb m RSP_CONTINUE); reflexivity. Qed.

Lemma bridge_finish k x code r :
  finish k (x :: code :: r) =
  if gen_c06_status_fail (x :: code :: r) then RSnepError code
  else match k with KPut => RBool true | KGet => ROctets (gen_c06_get_result (x :: code :: r)) end.
Proof.
  unfold finish, gen_c06_status_fail, gen_c06_get_result.
  change (pyidx (x :: code :: r) 1) with code.
  destruct (code =? 129) eqn:E; cbn [negb]; [|reflexivity].
  destruct k; [reflexivity|]. rewrite pyslice_drop by lia. reflexivity.
Qed.

(* ---------------------------------------------------------------- snep server *)
Lemma bridge_response code data : 0 <= code < 256 -> len data <= 4294967295 ->
  mk_response code data = Ok (gen_c06_response code data).
Proof.
  intros Hc Hl. pose proof (len_nonneg data). unfold mk_response.
  replace ((0 <=? code) && (code <? 256)) with true by lia. rewrite pack_L_ok by lia. reflexivity.
Qed.

Section Server.
  Variable A : Type.
  Variable app_put : A -> list Z -> A * Z.
  Variable app_get : A -> list Z -> A * getres.
  Variable decodable : list Z -> bool.
  Variables max_acc miu : Z.
  Notation react := (snep_react A app_put app_get decodable max_acc miu).
  Notation respond' := (respond A app_put app_get decodable miu).
  Notation process' := (process_snep_request A app_put app_get decodable).

  Lemma bridge_serve_first (s : srv A) m : sv_st s = SPoll ->
    react s (IMsg m) =
    if gen_c06_srv_short m then (set_st A s SClosed, [])
    else let version := gen_c06_srv_version m in
         let length := gen_c06_srv_length m in
         if gen_c06_srv_badver version then (s, [gen_c06_rsp_unsupver])
         else if gen_c06_srv_excess length max_acc then (s, [gen_c06_rsp_reject])
         else if gen_c06_srv_more m length then (set_st A s (SMore m length), [gen_c06_srv_rsp_continue])
         else respond' s m.
  Proof.
    intro Hs. unfold snep_react. rewrite Hs.
    unfold gen_c06_srv_short, gen_c06_srv_version, gen_c06_srv_length, gen_c06_srv_badver, gen_c06_srv_excess, gen_c06_srv_more.
    do 6 (destruct m as [|? m]; [reflexivity|]).
    rewrite !len6. pose proof (len_nonneg m). replace (6 + len m <? 6) with false by lia.
    simpl_pyidx. reflexivity.
  Qed.

  Lemma bridge_serve_more (s : srv A) data length m : sv_st s = SMore data length ->
    react s (IMsg m) =
    if gen_c06_srv_more (data ++ m) length then (set_st A s (SMore (data ++ m) length), [])
    else respond' s (data ++ m).
  Proof. intro Hs. unfold snep_react. rewrite Hs. reflexivity. Qed.

  Lemma bridge_serve_continue (s : srv A) rest m : sv_st s = SAwaitCont rest ->
    react s (IMsg m) = if list_eqb m gen_c06_srv_req_continue then (set_st A s SPoll, rest) else (set_st A s SPoll, []).
  Proof. intro Hs. unfold snep_react. rewrite Hs. reflexivity. Qed.

  (* the response: whole when len(data) <= send_miu, else data[0:send_miu], Continue, the range() slices *)
  Lemma bridge_respond (s : srv A) data a log resp : 1 <= miu ->
    process' (sv_app s) (sv_log s) data = (a, log, Ok resp) ->
    respond' s data =
    if gen_c06_srv_rsp_whole resp miu then ({| sv_st := SPoll; sv_app := a; sv_log := log |}, [resp])
    else ({| sv_st := SAwaitCont (map (fun offset => gen_c06_srv_fragment resp offset miu)
                                      (pyrange (gen_c06_srv_range_start resp miu) (gen_c06_srv_range_stop resp miu)
                                               (gen_c06_srv_range_step resp miu)));
             sv_app := a; sv_log := log |},
          [gen_c06_srv_rsp_first resp miu]).
  Proof.
    intros H Hp. unfold respond. rewrite Hp.
    unfold gen_c06_srv_rsp_whole, gen_c06_srv_rsp_first, gen_c06_srv_fragment,
      gen_c06_srv_range_start, gen_c06_srv_range_stop, gen_c06_srv_range_step.
    destruct (len resp <=? miu) eqn:E; [reflexivity|].
    rewrite chunks_rest_range by lia. rewrite pyslice_take by lia. reflexivity.
  Qed.

  (* process_snep_request: which request it is, where the acceptable length and the octets are *)
  Lemma bridge_process a log data : 6 <= len data ->
    process' a log data =
    if gen_c06_is_get data then
      let acceptable := gen_c06_get_acceptable data in
      let octets := gen_c06_get_octets data in
      if decodable octets then
        let ar := app_get a octets in
        let cd := match snd ar with
                  | GCode c => (c, [])
                  | GMsg o => if gen_c06_rsp_data_excess o acceptable then (193, []) else (129, o)
                  | GEncodeError => (192, [])
                  end in
        (fst ar, log ++ [CallGet octets], mk_response (fst cd) (snd cd))
      else (a, log, mk_response 194 [])
    else if gen_c06_is_put data then
      let octets := gen_c06_put_octets data in
      if decodable octets then
        let ar := app_put a octets in (fst ar, log ++ [CallPut octets], mk_response (snd ar) [])
      else (a, log, mk_response 194 [])
    else (a, log, mk_response 194 []).
  Proof.
    intro Hlen.
    unfold gen_c06_is_get, gen_c06_is_put, gen_c06_get_acceptable, gen_c06_get_octets, gen_c06_put_octets,
      gen_c06_rsp_data_excess.
    do 6 (destruct data as [|? data]; [exfalso; cbn in Hlen; lia|]).
    match goal with |- context [pyidx (?x0 :: ?rq :: ?t) 1] => change (pyidx (x0 :: rq :: t) 1) with rq end.
    unfold process_snep_request. rewrite Z.geb_leb.
    set (full := z :: z0 :: z1 :: z2 :: z3 :: z4 :: data).
    assert (Hput : pyslice full 6 (len full) = data) by (rewrite pyslice_drop by lia; reflexivity).
    destruct (z0 =? 1) eqn:E1; cbn [andb].
    - destruct (10 <=? len full) eqn:E10.
      + unfold full in E10. rewrite len6 in E10.
        do 4 (destruct data as [|? data]; [exfalso; cbn in E10; lia|]).
        assert (Hacc : pyslice full 6 10 = [z5; z6; z7; z8]).
        { change full with ([z; z0; z1; z2; z3; z4] ++ (z5 :: z6 :: z7 :: z8 :: data)).
          change 6 with (len [z; z0; z1; z2; z3; z4]) at 1. change 10 with (len [z; z0; z1; z2; z3; z4] + 4).
          rewrite pyslice_mid by lia. reflexivity. }
        assert (Hoct : pyslice full 10 (len full) = data) by (rewrite pyslice_drop by lia; reflexivity).
        rewrite Hacc, Hoct. reflexivity.
      + rewrite Hput. reflexivity.
    - rewrite Hput. reflexivity.
  Qed.
End Server.

(* ---------------------------------------------------------------- handover *)
(* HandoverClient.send_octets: while len(octets) > 0: send(octets[0:miu]); octets = octets[miu:] *)
Fixpoint ho_send_loop (fuel : nat) (miu : Z) (octets : list Z) : list (list Z) :=
  match fuel with
  | O => []
  | S f => if gen_c06_ho_more octets
           then gen_c06_ho_frag octets miu :: ho_send_loop f miu (gen_c06_ho_rest octets miu)
           else []
  end.

Lemma bridge_ho_send_loop miu : 0 <= miu -> forall fuel octets,
  chunks_f fuel (Z.to_nat miu) octets = ho_send_loop fuel miu octets.
Proof.
  intro H. induction fuel as [|f IH]; intro octets; [reflexivity|].
  cbn [chunks_f ho_send_loop]. unfold gen_c06_ho_more, gen_c06_ho_frag, gen_c06_ho_rest.
  destruct octets as [|x r]; [reflexivity|].
  set (l := x :: r).
  assert (0 < len l) by (subst l; rewrite len_cons; pose proof (len_nonneg r); lia).
  replace (len l >? 0) with true by lia.
  rewrite pyslice_take, pyslice_drop by lia. rewrite <- IH. reflexivity.
Qed.

Lemma bridge_ho_client miu o : 0 <= miu ->
  client_start miu (OpHo o) = (CHoRecv [], ho_send_loop (length o) miu o) /\
  (gen_c06_ho_sent_all [] = true).
Proof. intro H. split; [|reflexivity]. cbn [client_start]. unfold chunks. rewrite bridge_ho_send_loop by exact H. reflexivity. Qed.

(* HandoverServer.serve: for offset in range(0, len(response), send_miu): send(response[offset:offset+send_miu]) *)
Lemma bridge_ho_server_fragments miu response : 1 <= miu ->
  chunks miu response =
  map (fun offset => gen_c06_ho_fragment response offset miu)
      (pyrange (gen_c06_ho_range_start response miu) (gen_c06_ho_range_stop response miu)
               (gen_c06_ho_range_step response miu)).
Proof. intro H. apply chunks_range. exact H. Qed.

Lemma bridge_ho_serve A app_ho complete is_hr miu reset (s : hsrv A) request m : hv_st s = HAccum request ->
  ho_react A app_ho complete is_hr miu reset s (IMsg m) =
  let request' := request ++ m in
  if gen_c06_ho_empty request' then (s, [])
  else if complete request' then
    match ho_process A app_ho is_hr (hv_app s) (hv_log s) request' with
    | (a, log, response) =>
        ({| hv_st := HAccum (if reset then [] else request'); hv_app := a; hv_log := log |}, chunks miu response)
    end
  else ({| hv_st := HAccum request'; hv_app := hv_app s; hv_log := hv_log s |}, []).
Proof. intro Hs. unfold ho_react. rewrite Hs. reflexivity. Qed.
