(* Bridge/C09Skel.v - the wait/notify skeleton regenerated from tco.py / llc.py (Gen/TcoSkel.v) passes
   WaitCheck; hence (waitcheck_sound) every hold of every method satisfies hold_ok, which is what
   the multi-thread theorem Skel/WaitSys.wait_sys_invariant needs of every step. *)
From Coq Require Import List String Bool.
From NV Require Import Model.LlcLife Skel.WaitSyntax Skel.WaitCheck Skel.WaitSys Gen.TcoSkel.
Import ListNotations.
Open Scope string_scope.

Lemma tco_skel_checked : forallb (fun e => waitcheck (snd (fst e)) (snd e)) tco_skel = true.
Proof. vm_compute. reflexivity. Qed.

(* every method of the socket classes and of ServiceDiscovery, executed from outside the lock *)
Theorem tco_skel_holds_ok : forall name cs s, In (name, cs, s) tco_skel ->
  forall b hs o c', exec s (mkC 0 b b false []) hs o c' -> Forall (hold_ok cs) hs /\ Forall hold_coh hs.
Proof.
  intros name cs s Hin b hs o c' He.
  pose proof tco_skel_checked as H. rewrite forallb_forall in H. specialize (H _ Hin). cbn in H.
  split; [eapply waitcheck_sound; eauto|].
  refine (proj1 (exec_coherent _ _ _ _ _ He _)). unfold coh. cbn. congruence.
Qed.

(* the blocking entry points of the socket API are in the skeleton (the extractor did not drop them) *)
Definition required : list string :=
  ["RawAccessPoint.poll"; "RawAccessPoint.send"; "RawAccessPoint.recv"; "RawAccessPoint.close";
   "LogicalDataLink.poll"; "LogicalDataLink.sendto"; "LogicalDataLink.recvfrom"; "LogicalDataLink.close";
   "DataLinkConnection.accept"; "DataLinkConnection.connect"; "DataLinkConnection.send"; "DataLinkConnection.recv";
   "DataLinkConnection.poll"; "DataLinkConnection.close"; "DataLinkConnection.listen"; "DataLinkConnection.enqueue";
   "DataLinkConnection.dequeue"; "ServiceDiscovery.resolve"; "ServiceDiscovery.shutdown"].
Lemma tco_skel_complete :
  forallb (fun n => existsb (fun e => String.eqb n (fst (fst e))) tco_skel) required = true.
Proof. vm_compute. reflexivity. Qed.

(* the condition variables the skeleton waits on are those the classes create *)
Lemma tco_skel_conds :
  conds_RawAccessPoint = [SendReady; RecvReady] /\ conds_LogicalDataLink = [SendReady; RecvReady] /\
  conds_DataLinkConnection = [AcksReady; SendToken; SendReady; RecvReady] /\ conds_ServiceDiscovery = [Resp].
Proof. repeat split. Qed.

(* the link run loops: every exception class that has to end the link has a handler that calls
   self.terminate(<constant reason>) before anything that could raise (checked by the extractor, which
   fails closed otherwise), in both run loops *)
Definition required_handled : list string :=
  ["KeyboardInterrupt"; "IOError"; "sec.KeyAgreementError"; "sec.DecryptionError"; "sec.EncryptionError"].
Lemma run_loops_terminate :
  map fst run_loop_handled = ["run_as_initiator"; "run_as_target"] /\
  forallb (fun e => forallb (fun c => existsb (String.eqb c) (snd e)) required_handled) run_loop_handled = true.
Proof. vm_compute. split; reflexivity. Qed.

(* terminate(): the loop over ALL service access points (63..0, including access point 1 that bind() tests)
   lies inside one `with self.lock`, and link.SHUTDOWN is set after it (the extractor accepts no other shape) *)
Lemma terminate_one_critical_section :
  terminate_nesting = ["with self.lock"; "for i in range(63,-1,-1)"; "self.sap[i].shutdown()"; "self.sap[i] = None";
                       "self.link.SHUTDOWN = True"].
Proof. vm_compute. reflexivity. Qed.

(* the calls in the loop bodies that can raise outside the handled set are exactly the three known ones (the
   extractor fails closed on any call or object comparison it has not classified): the `==` on the received
   PDU (re-encodes it), collect() and dispatch().  That they do not raise is not a C09 theorem: it is the
   subject of C11 (encode of a decoded PDU), C10/C11 (collect) and C07 (dispatch); the C09 harness covers it
   by sending every PDU type / enumerated field value from the scripted peer. *)
Lemma run_loops_uncovered_calls :
  map (fun e => List.length (snd e)) run_loop_uncovered = [3; 3].
Proof. vm_compute. reflexivity. Qed.
