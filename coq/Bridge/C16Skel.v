(* C16 - ExnCheck (Skel/ExnCheck.v, proved sound for C13) evaluated on the exception-flow skeletons of
   every public method / property of every tag class under src/nfc/tag/, regenerated on this run
   (Gen/TagSkel.v).  Prim = clf.exchange raising the CommunicationError classes.

   tag_ops_closed: what can leave a public method along explicit raise / handler flow is, per tag type,
     - the TagCommandError subclass of that type,
     - the documented argument / state checks: ValueError (incl. UnicodeError of a non-ascii password),
       RuntimeError ("authentication required", "tag must be authenticated first", and the
       "unexpected <error>" check at the end of the retry loops of Type 1/2/3),
     - AttributeError("tag ndef area is not writeable") for the two NDEF write properties only,
     - the ndeflib DecodeError/EncodeError family for NDEF.records only,
   and never a raw CommunicationError.  No method needs NotImplementedError: every concrete class
   overrides the stubs of Tag.NDEF.
   The statements are closed boolean computations (vm_compute) lifted by exncheck_sound. *)
From Coq Require Import ZArith List Bool String.
From NV Require Import Skel.ExnSyntax Skel.ExnCheck Gen.TagSkel.
Import ListNotations.
Open Scope Z_scope.
Open Scope string_scope.

Definition type_error (fam : string) : cls :=
  if String.eqb fam "tt1" then C_Type1TagCommandError
  else if String.eqb fam "tt2" then C_Type2TagCommandError
  else if String.eqb fam "tt3" then C_Type3TagCommandError
  else C_Type4TagCommandError.

Definition is_ndef_write (entry : string) : bool :=
  String.eqb entry "NDEF.octets=" || String.eqb entry "NDEF.records=".
Definition is_records (entry : string) : bool :=
  String.eqb entry "NDEF.records" || String.eqb entry "NDEF.records=".

(* allowed escapes of public method `entry` of a class of family fam *)
Definition allowed (fam entry : string) : list cls :=
  type_error fam :: C_ValueError :: C_UnicodeError ::
  (if String.eqb fam "tt4" then [] else [C_RuntimeError]) ++
  (if is_ndef_write entry then [C_AttributeError] else []) ++
  (if is_records entry then [C_NdefError] else []).

Definition tagprog := (string * string * (list cls -> program) * list (string * string))%type.

Definition class_okb (exch : list cls) (p : tagprog) : bool :=
  let '(nm, fam, pr, ents) := p in
  let P := pr exch in
  let sol := solution P in
  summary_okb P sol &&
  forallb (fun ek => match lookup P (snd ek) with Some _ => true | None => false end &&
                     subsetb (slookup sol (snd ek)) (allowed fam (fst ek))) ents.

Lemma class_okb_closedb exch nm fam pr ents : class_okb exch (nm, fam, pr, ents) = true ->
  forall e k, In (e, k) ents -> closedb (pr exch) k (allowed fam e) = true.
Proof.
  unfold class_okb. intros H e k Hin. apply andb_true_iff in H as [H1 H2].
  rewrite forallb_forall in H2. specialize (H2 _ Hin). cbn [fst snd] in H2.
  apply andb_true_iff in H2 as [_ H2].
  unfold closedb, escapes. rewrite H1, H2. reflexivity.
Qed.

(* --- the three error classes the property quantifies over: every class, every method *)
Lemma all_classes_ok_named : forallb (class_okb exch_named) tag_programs = true.
Proof. vm_compute. reflexivity. Qed.

(* --- any CommunicationError subclass (BrokenLinkError, further subclasses, the base class):
       Type 1/2/3 classes stay closed (RuntimeError "unexpected ..." is in their allowed set) *)
Definition not_tt4 (p : tagprog) : bool := let '(_, fam, _, _) := p in negb (String.eqb fam "tt4").
Lemma t123_classes_ok_any : forallb (class_okb exch_any) (filter not_tt4 tag_programs) = true.
Proof. vm_compute. reflexivity. Qed.

(* Type 4: IsoDepInitiator.exchange has handlers for the three named classes only; the analysis does
   not exclude that another CommunicationError subclass leaves a Type 4 method (the drivers raise
   BrokenLinkError in listen mode only, property C13) *)
Lemma tt4_not_closed_for_other_classes :
  forallb (fun p => negb (class_okb exch_any p)) (filter (fun p => negb (not_tt4 p)) tag_programs) = true.
Proof. vm_compute. reflexivity. Qed.

(* --- nfc.tag.activate(): nothing escapes, whatever CommunicationError subclass clf.exchange raises *)
Lemma activate_ok : closedb (prog_activate exch_any) entry_activate [] = true.
Proof. vm_compute. reflexivity. Qed.

Definition tag_ops_closed_stmt (exch : list cls) (progs : list tagprog) : Prop :=
  forall nm fam pr ents, In (nm, fam, pr, ents) progs ->
  forall e k, In (e, k) ents ->
  forall c, can_escape (pr exch) k c -> In c (allowed fam e).

Lemma lift exch progs : forallb (class_okb exch) progs = true -> tag_ops_closed_stmt exch progs.
Proof.
  intros H nm fam pr ents Hin e k Hek c Hc. rewrite forallb_forall in H.
  eapply exncheck_sound; [|exact Hc]. eapply class_okb_closedb; [apply (H _ Hin)|exact Hek].
Qed.

Lemma tag_ops_closed_lemma : tag_ops_closed_stmt exch_named tag_programs.
Proof. apply lift, all_classes_ok_named. Qed.

Lemma tag_ops_closed_any_lemma : tag_ops_closed_stmt exch_any (filter not_tt4 tag_programs).
Proof. apply lift, t123_classes_ok_any. Qed.

Lemma activate_closed_lemma : forall c, ~ can_escape (prog_activate exch_any) entry_activate c.
Proof. intros c H. exact (exncheck_sound _ _ _ activate_ok c H). Qed.

(* no allowed set contains a CommunicationError class *)
Definition comm_classes : list cls :=
  [C_CommunicationError; C_TimeoutError; C_TransmissionError; C_ProtocolError; C_BrokenLinkError; C_OtherCommunicationError].
Lemma allowed_no_comm : forallb (fun p : tagprog => let '(_, fam, _, ents) := p in
    forallb (fun ek => forallb (fun c => negb (mem c (allowed fam (fst ek)))) comm_classes) ents) tag_programs = true.
Proof. vm_compute. reflexivity. Qed.

Lemma never_raw_commerror_lemma : forall nm fam pr ents, In (nm, fam, pr, ents) tag_programs ->
  forall e k, In (e, k) ents -> forall c, In c comm_classes -> ~ can_escape (pr exch_named) k c.
Proof.
  intros nm fam pr ents Hin e k Hek c Hc Hesc.
  pose proof (tag_ops_closed_lemma nm fam pr ents Hin e k Hek c Hesc) as Ha.
  pose proof allowed_no_comm as N. rewrite forallb_forall in N. specialize (N _ Hin). cbv beta iota in N.
  rewrite forallb_forall in N. specialize (N _ Hek). cbv beta in N. rewrite forallb_forall in N. specialize (N _ Hc).
  cbv beta in N. cbn [fst] in N. apply negb_true_iff in N. apply mem_In in Ha. rewrite Ha in N. discriminate.
Qed.

(* the statements are not vacuous: the table is not empty, every entry names a function of its program
   (checked inside class_okb), and can_escape is inhabited: Type2Tag.write raises ValueError for data
   that is not four bytes long *)
Definition n_classes : nat := List.length tag_programs.
Definition n_entries : nat := fold_left (fun n (p : tagprog) => (n + List.length (snd p))%nat) tag_programs 0%nat.
Lemma table_size : Nat.leb 30 n_classes && Nat.leb 800 n_entries = true.
Proof. vm_compute. reflexivity. Qed.

Lemma type2_write_can_raise_valueerror : can_escape (prog_tt2_Type2Tag exch_named) "tt2.Type2Tag.write" C_ValueError.
Proof.
  unfold can_escape. eexists. exists (mkExn C_ValueError 0). split; [vm_compute; reflexivity|]. split; [|reflexivity].
  apply E_SeqA; [|discriminate]. apply E_ChoiceL. apply E_Raise.
Qed.
