(* C13 - ExnCheck evaluated on the skeletons regenerated from the driver sources on this run
   (Gen/DriverSkel.v): for every driver, every exception class that can leave
   ContactlessFrontend.exchange along explicit raise / handler flow is a documented one.
   The statements are closed boolean computations (vm_compute) lifted by exncheck_sound. *)
From Coq Require Import ZArith List Bool String.
From NV Require Import Skel.ExnSyntax Skel.ExnCheck Gen.DriverSkel.
Import ListNotations.
Open Scope Z_scope.

(* TimeoutError, BrokenLinkError, TransmissionError, ProtocolError (CommunicationError subclasses), IOError *)
Definition doc_classes : list cls := documented_classes.

(* PN531 and the PN531 based Arygon reader inherit the base-class stub
   pn53x.Device._tt1_send_cmd_recv_rsp (raise NotImplementedError): it is selected by
   target.rid_res, an attribute only sense_tta of a Type 1 capable driver creates
   (in_list_passive_target_brty_range of PN531 excludes 4).  The stub is kept visible. *)
Definition doc_classes_no_tt1 : list cls := C_NotImplementedError :: doc_classes.

Lemma pn532_closed : closedb prog_pn532 entry doc_classes = true. Proof. vm_compute. reflexivity. Qed.
Lemma pn533_closed : closedb prog_pn533 entry doc_classes = true. Proof. vm_compute. reflexivity. Qed.
Lemma rcs956_closed : closedb prog_rcs956 entry doc_classes = true. Proof. vm_compute. reflexivity. Qed.
Lemma acr122_closed : closedb prog_acr122 entry doc_classes = true. Proof. vm_compute. reflexivity. Qed.
Lemma arygon_b_closed : closedb prog_arygon_b entry doc_classes = true. Proof. vm_compute. reflexivity. Qed.
Lemma pn531_closed : closedb prog_pn531 entry doc_classes_no_tt1 = true. Proof. vm_compute. reflexivity. Qed.
Lemma arygon_a_closed : closedb prog_arygon_a entry doc_classes_no_tt1 = true. Proof. vm_compute. reflexivity. Qed.
Lemma rcs380_closed : closedb prog_rcs380 entry doc_classes = true. Proof. vm_compute. reflexivity. Qed.
Lemma udp_closed : closedb prog_udp entry doc_classes = true. Proof. vm_compute. reflexivity. Qed.

(* the entry point exists in every program (the statements below are not vacuous) *)
Lemma entries_defined : forallb (fun p => match lookup (snd p) entry with Some _ => true | None => false end)
  driver_programs = true.
Proof. vm_compute. reflexivity. Qed.

Definition exchange_documented (P : program) (ok : list cls) : Prop :=
  forall c, can_escape P entry c -> In c ok.

Lemma pn53x_exchange_closed_lemma :
  exchange_documented prog_pn532 doc_classes /\ exchange_documented prog_pn533 doc_classes /\
  exchange_documented prog_rcs956 doc_classes /\ exchange_documented prog_acr122 doc_classes /\
  exchange_documented prog_arygon_b doc_classes.
Proof. repeat split; intros c H; eapply exncheck_sound; try exact H;
  [exact pn532_closed|exact pn533_closed|exact rcs956_closed|exact acr122_closed|exact arygon_b_closed]. Qed.

Lemma pn531_exchange_closed_lemma :
  exchange_documented prog_pn531 doc_classes_no_tt1 /\ exchange_documented prog_arygon_a doc_classes_no_tt1.
Proof. split; intros c H; eapply exncheck_sound; try exact H; [exact pn531_closed|exact arygon_a_closed]. Qed.

Lemma rcs380_exchange_closed_lemma : exchange_documented prog_rcs380 doc_classes.
Proof. intros c H; eapply exncheck_sound; [exact rcs380_closed|exact H]. Qed.

Lemma udp_exchange_closed_lemma : exchange_documented prog_udp doc_classes.
Proof. intros c H; eapply exncheck_sound; [exact udp_closed|exact H]. Qed.

(* a concrete escaping run, so that can_escape is inhabited: IOError(ENODEV) when no device is open *)
Lemma exchange_can_raise_ioerror : can_escape prog_pn532 entry C_IOError.
Proof.
  unfold can_escape. eexists. exists (mkExn C_IOError 19). split; [vm_compute; reflexivity|]. split; [|reflexivity].
  apply E_SeqA; [|discriminate]. apply E_ChoiceL. apply E_Raise.
Qed.
