(* C07 bridge: the kernels regenerated from the source on this run (Gen/RobustK.v, translate/kspec_c07.py; for the SNEP /
   handover header arithmetic the kernels of C06, Gen/SnepK.v) are what the C07 models compute with.  Every lemma restates
   a defining equation of a model function with the generated kernels plugged in, so a changed length test, slice bound,
   mask, status flag, dispatch table or handler class in the source makes the lemma unprovable.
   (The start byte / length octet / code membership tests of decode_frame and the PFB fields are bridged for the same
   source text in Bridge/Dep.v against Model/Dep.v, whose strip_frame is literally DepDecode's prefix handling; see
   bridge_strip_frame_dep below.) *)
From Coq Require Import ZArith List Bool Lia ZifyBool.
From NV Require Import Base.Result Base.Bytes Base.PyPrims Model.Pdu Model.DepDecode Model.Pax Model.T3Emu Model.SnepHdr Model.DepAny
  Gen.RobustK Gen.SnepK Gen.DepK.
Import ListNotations.
Open Scope Z_scope.

(* ================================================================ src/nfc/dep.py *)
Lemma starts2_slice d a b : starts2 d a b = list_eqb (slice d 0 2) [a; b].
Proof.
  destruct d as [|x [|y t]]; try reflexivity.
  - simpl. destruct (x =? a); reflexivity.
  - simpl. rewrite andb_true_r. reflexivity.
Qed.

Lemma testbit1_land2 p : Z.testbit p 1 = negb (Z.land p 2 =? 0).
Proof.
  destruct (Z.testbit p 1) eqn:E.
  - destruct (Z.land p 2 =? 0) eqn:E2; [|reflexivity]. apply Z.eqb_eq in E2.
    assert (H : Z.testbit (Z.land p 2) 1 = true) by (rewrite Z.land_spec, E; reflexivity).
    rewrite E2 in H. discriminate.
  - assert (H : Z.land p 2 = 0).
    { apply Z.bits_inj'. intros n Hn. rewrite Z.land_spec, Z.bits_0. change 2 with (2 ^ 1). rewrite Z.pow2_bits_eqb by lia.
      destruct (1 =? n) eqn:En; [apply Z.eqb_eq in En; subst; rewrite E; reflexivity | apply andb_false_r]. }
    rewrite H. reflexivity.
Qed.

Theorem bridge_atr_req d :
  gen_atr_req_nfields = 4%nat /\
  dec_atr_req d =
  (if negb (list_eqb (slice d 0 2) gen_code_ATR_REQ) then Ok None else
   if gen_atr_req_short d then Err ProtocolError else
   match gen_atr_req_fields d with
   | [did; bs; br; pp] => Ok (Some (AtrReq (gen_atr_req_nfcid3 d) did bs br pp (if gen_atr_req_has_gb pp then gen_atr_req_gb d else [])))
   | _ => Crash ValueErr
   end).
Proof.
  split; [reflexivity|]. unfold dec_atr_req, gen_code_ATR_REQ, gen_atr_req_short, gen_atr_req_fields, gen_atr_req_nfcid3,
    gen_atr_req_has_gb, gen_atr_req_gb, bit. rewrite starts2_slice.
  destruct (negb _); [reflexivity|]. destruct (len d <? 16); [reflexivity|].
  destruct (slice d 12 16) as [|a [|b [|c [|e [|f l]]]]]; try reflexivity. rewrite testbit1_land2. reflexivity.
Qed.

Theorem bridge_atr_res d :
  gen_atr_res_nfields = 5%nat /\
  dec_atr_res d =
  (if negb (list_eqb (slice d 0 2) gen_code_ATR_RES) then Ok None else
   if gen_atr_res_short d then Err ProtocolError else
   match gen_atr_res_fields d with
   | [did; bs; br; to; pp] => Ok (Some (AtrRes (gen_atr_res_nfcid3 d) did bs br to pp (if gen_atr_res_has_gb pp then gen_atr_res_gb d else [])))
   | _ => Crash ValueErr
   end).
Proof.
  split; [reflexivity|]. unfold dec_atr_res, gen_code_ATR_RES, gen_atr_res_short, gen_atr_res_fields, gen_atr_res_nfcid3,
    gen_atr_res_has_gb, gen_atr_res_gb, bit. rewrite starts2_slice.
  destruct (negb _); [reflexivity|]. destruct (len d <? 17); [reflexivity|].
  destruct (slice d 12 17) as [|a [|b [|c [|e [|f [|g l]]]]]]; try reflexivity. rewrite testbit1_land2. reflexivity.
Qed.

(* cls( *data[2:] ): the constructor takes exactly gen_arity_<class> values, otherwise TypeError -> ProtocolError *)
Theorem bridge_psl d :
  dec_psl_req d = (if negb (list_eqb (slice d 0 2) gen_code_PSL_REQ) then Ok None else
                   if Nat.eqb (length (gen_psl_args d)) gen_arity_PSL_REQ
                   then match gen_psl_args d with [a; b; c] => Ok (Some (PslReq a b c)) | _ => Crash TypeErr end
                   else Err ProtocolError) /\
  dec_psl_res d = (if negb (list_eqb (slice d 0 2) gen_code_PSL_RES) then Ok None else
                   if Nat.eqb (length (gen_psl_args d)) gen_arity_PSL_RES
                   then match gen_psl_args d with [a] => Ok (Some (PslRes a)) | _ => Crash TypeErr end
                   else Err ProtocolError).
Proof.
  unfold dec_psl_req, dec_psl_res, gen_code_PSL_REQ, gen_code_PSL_RES, gen_psl_args, gen_arity_PSL_REQ, gen_arity_PSL_RES.
  rewrite !starts2_slice. split.
  - destruct (negb _); [reflexivity|]. destruct (drop 2 d) as [|a [|b [|c [|e l]]]]; reflexivity.
  - destruct (negb _); [reflexivity|]. destruct (drop 2 d) as [|a [|b l]]; reflexivity.
Qed.

Definition dsl_code (rls req : bool) : list Z :=
  if rls then (if req then gen_code_RLS_REQ else gen_code_RLS_RES) else (if req then gen_code_DSL_REQ else gen_code_DSL_RES).

Theorem bridge_dsl rls req d :
  dec_dsl rls req d =
  (if negb (list_eqb (slice d 0 2) (dsl_code rls req)) then Ok None else
   if gen_dsl_long d then Err ProtocolError else
   do did <- (if gen_dsl_has_did d then (do x <- idx d gen_dsl_did_index; Ok (Some x)) else Ok None);
   Ok (Some (if rls then RlsPdu req did else DslPdu req did))).
Proof.
  unfold dec_dsl, gen_dsl_long, gen_dsl_has_did, gen_dsl_did_index. rewrite starts2_slice, Z.gtb_ltb.
  destruct rls, req; reflexivity.
Qed.

(* DEP_REQ / DEP_RES: the PDU code; the PFB fields are bridged in Bridge/Dep.v (bridge_pfb_decode, bridge_dec_dep) *)
Theorem bridge_dep_code (req : bool) (d : list Z) :
  (if req then starts2 d 212 6 else starts2 d 213 7) = list_eqb (slice d 0 2) (if req then gen_code_DEP_REQ else gen_code_DEP_RES).
Proof. destruct req; apply starts2_slice. Qed.

(* decode_frame hands the frame to the class found in the name table under the command / response code *)
Definition dec_by_kind (r : role) (kind : Z) (f : list Z) : res (option dpdu) :=
  let req := match r with Tgt => true | Ini => false end in
  if kind =? 0 then (if req then dec_atr_req f else dec_atr_res f)
  else if kind =? 1 then (if req then dec_psl_req f else dec_psl_res f)
  else if kind =? 2 then dec_dep req f
  else if kind =? 3 then dec_dsl false req f
  else dec_dsl true req f.

Theorem bridge_i_dispatch c1 kind code t : In (c1, kind, code) gen_i_dispatch ->
  code = [213; c1] /\ decode_body false Ini (213 :: c1 :: t) = dec_by_kind Ini kind (213 :: c1 :: t).
Proof.
  assert (L : len (213 :: c1 :: t) <? 2 = false) by (rewrite !len_cons; pose proof (len_nonneg t); lia).
  unfold gen_i_dispatch. cbn [In]. intros [H|[H|[H|[H|[H|[]]]]]]; inversion H; subst; (split; [reflexivity|]);
    unfold decode_body; rewrite L; reflexivity.
Qed.
Theorem bridge_t_dispatch c1 kind code t : In (c1, kind, code) gen_t_dispatch ->
  code = [212; c1] /\ decode_body false Tgt (212 :: c1 :: t) = dec_by_kind Tgt kind (212 :: c1 :: t).
Proof.
  assert (L : len (212 :: c1 :: t) <? 2 = false) by (rewrite !len_cons; pose proof (len_nonneg t); lia).
  unfold gen_t_dispatch. cbn [In]. intros [H|[H|[H|[H|[H|[]]]]]]; inversion H; subst; (split; [reflexivity|]);
    unfold decode_body; rewrite L; reflexivity.
Qed.
(* ... and every other code is a protocol error (the membership test itself is Gen/DepK.v gen_i_code_bad / gen_t_code_bad) *)
Theorem bridge_code_bad c0 c1 t :
  (gen_i_code_bad c0 c1 = true -> decode_body false Ini (c0 :: c1 :: t) = Err ProtocolError) /\
  (gen_t_code_bad c0 c1 = true -> decode_body false Tgt (c0 :: c1 :: t) = Err ProtocolError) /\
  (gen_i_code_bad c0 c1 = false -> c0 = 213 /\ In c1 (map (fun e => fst (fst e)) gen_i_dispatch)) /\
  (gen_t_code_bad c0 c1 = false -> c0 = 212 /\ In c1 (map (fun e => fst (fst e)) gen_t_dispatch)).
Proof.
  assert (L : len (c0 :: c1 :: t) <? 2 = false) by (rewrite !len_cons; pose proof (len_nonneg t); lia).
  unfold gen_i_code_bad, gen_t_code_bad, decode_body. rewrite L.
  change (idx (c0 :: c1 :: t) 0) with (Ok c0). change (idx (c0 :: c1 :: t) 1) with (Ok c1). cbn [bind existsb].
  split; [|split; [|split]]; intro H.
  - replace (negb (c0 =? 213) || negb ((c1 =? 1) || (c1 =? 5) || (c1 =? 7) || (c1 =? 9) || (c1 =? 11))) with true by lia. reflexivity.
  - replace (negb (c0 =? 212) || negb ((c1 =? 0) || (c1 =? 4) || (c1 =? 6) || (c1 =? 8) || (c1 =? 10))) with true by lia. reflexivity.
  - split; [lia|]. unfold gen_i_dispatch. cbn [map fst In]. lia.
  - split; [lia|]. unfold gen_t_dispatch. cbn [map fst In]. lia.
Qed.
(* the frame prefix handling (start byte, length octet, minimum length) of this model is the generated one of Gen/DepK.v *)
Theorem bridge_strip_frame_dep r b frame :
  decode_frame r b frame = (do f <- gen_i_strip_frame b frame; decode_body false r f) /\
  gen_t_strip_frame b frame = gen_i_strip_frame b frame.
Proof.
  split; [|reflexivity]. unfold decode_frame, gen_i_strip_frame, decode_body. destruct b.
  - destruct frame as [|x t]; [reflexivity|]. destruct (negb (x =? 240)); [reflexivity|]. cbn [bind].
    destruct t as [|l t']; [reflexivity|]. destruct (negb (len (l :: t') =? l)); [reflexivity|].
    destruct (len t' <? 2) eqn:E; cbn [bind]; rewrite ?E; reflexivity.
  - cbn [bind]. destruct frame as [|l t']; [reflexivity|]. destruct (negb (len (l :: t') =? l)); [reflexivity|].
    destruct (len t' <? 2) eqn:E; cbn [bind]; rewrite ?E; reflexivity.
Qed.

(* ---- the retry loops grant the frontend what is LEFT until the deadline (Model/DepAny.v) *)
Theorem bridge_t_listen f c s frame dl :
  t_listen (S f) c s frame dl =
  (let t := gen_t_listen_timeout (now s) dl in
   let (r, s') := xchg c s frame t in
   match r with
   | Err TransmissionError => t_listen f c s' None dl
   | Ok rsp => t_decode c rsp s'
   | Err e => (Err e, s')
   | Crash x => (Crash x, s')
   | Hang => (Hang, s')
   end).
Proof. cbn [t_listen]. unfold gen_t_listen_timeout. rewrite Z.gtb_ltb. reflexivity. Qed.

Theorem bridge_i_tmo s rwt dl : tmo s rwt dl = gen_i_tmo rwt (now s) dl.
Proof. reflexivity. Qed.
Theorem bridge_i_loops f c s spni fmt pni data rwt dl n ch :
  i_sdr_loop (S f) c s spni fmt pni data rwt dl =
    (if gen_i_expired (gen_i_tmo rwt (now s) dl) then (Err TimeoutError, s) else
     let (r, s1) := i_srr c s fmt pni data (gen_i_tmo rwt (now s) dl) in
     match r with
     | Ok res => (Ok res, s1)
     | Err TimeoutError =>
         let (a, s2) := i_attention 2 c s1 rwt dl in
         match a with
         | Ok _ => i_sdr_loop f c s2 spni fmt pni data rwt dl
         | Err e => (Err e, s2) | Crash x => (Crash x, s2) | Hang => (Hang, s2)
         end
     | Err TransmissionError => i_retrans 2 c s1 spni rwt dl (fmt =? 1)
     | Err e => (Err e, s1) | Crash x => (Crash x, s1) | Hang => (Hang, s1)
     end) /\
  i_attention (S n) c s rwt dl =
    (if gen_i_expired (gen_i_tmo rwt (now s) dl) then (Err TimeoutError, s) else
     let (r, s') := i_srr c s 8 0 [] (gen_i_tmo rwt (now s) dl) in
     match r with
     | Ok res => if rfmt res =? 9 then (Err ProtocolError, s')
                 else if negb (rfmt res =? 8) then (Err ProtocolError, s') else (Ok tt, s')
     | Err _ => i_attention n c s' rwt dl
     | Crash x => (Crash x, s') | Hang => (Hang, s')
     end) /\
  i_retrans (S n) c s pni rwt dl ch =
    (if gen_i_expired (gen_i_tmo rwt (now s) dl) then (Err TimeoutError, s) else
     let (r, s') := i_srr c s 5 pni [] (gen_i_tmo rwt (now s) dl) in
     match r with
     | Ok res => if rfmt res =? 9 then (Err ProtocolError, s')
                 else if (rfmt res =? 0) || (rfmt res =? 1) || (ch && (rfmt res =? 4)) then (Ok res, s')
                 else (Err ProtocolError, s')
     | Err _ => i_retrans n c s' pni rwt dl ch
     | Crash x => (Crash x, s') | Hang => (Hang, s')
     end).
Proof. repeat split; reflexivity. Qed.

(* ---- Target._deactivate: one deadline for the whole release phase, the loop guard and the answers are the generated ones *)
Theorem bridge_t_deactivate f fuel c s res data dl :
  gen_deact_grace_ms = 1000 /\
  t_deact_loop (S f) fuel c s res data dl =
  (if negb (gen_deact_running (now s) dl) then (Ok tt, s) else
   let (r, s') := t_send fuel c s None res dl in
   match r with
   | Err _ => (Ok tt, s')
   | Ok None => (Ok tt, s')
   | Ok (Some q) =>
       if oeqb (treq_did q) (cdid c) then
         match q with
         | TDsl _ | TRls _ =>
             let rls := match q with TRls _ => true | _ => false end in
             let (r2, s2) := t_listen fuel c s' (Some (enc_rel c rls)) 0 in
             match r2 with Crash x => (Crash x, s2) | Hang => (Hang, s2) | _ => (Ok tt, s2) end
         | TDep d =>
             if gen_deact_is_atn (rfmt d) then t_deact_loop f fuel c s' (Some (8, 0, [])) data dl
             else t_deact_loop f fuel c s' (Some (0, rpni d, data)) data dl
         | TOther _ => t_deact_loop f fuel c s' None data dl
         end
       else t_deact_loop f fuel c s' None data dl
   | Crash x => (Crash x, s')
   | Hang => (Hang, s')
   end) /\
  (forall grace, t_deactivate fuel c s data grace = t_deact_loop fuel fuel c s None data (now s + grace)).
Proof. split; [reflexivity|]. split; [reflexivity|]. intros; reflexivity. Qed.

(* ================================================================ src/nfc/llcp/llc.py activate, pdu.py ParameterExchange *)
Theorem bridge_activate sec g :
  gen_lsc_text_size = len [0; 1; 2; 3] /\ gen_dpc_text_size = len [0; 1] /\
  activate_gb sec (Some g) =
  (if negb (gen_gb_accept g) then Ok (false, None) else
   match decode (gen_pax_bytes g) 0 (len (gen_pax_bytes g)) with
   | Ok p => use_pax sec p
   | Err DecodeError => Ok (gen_activate_decode_error_result, None)
   | Err e => Err e
   | Crash c => Crash c
   | Hang => Hang
   end).
Proof.
  split; [reflexivity|]. split; [reflexivity|].
  unfold activate_gb, gen_gb_accept, gen_pax_bytes, pax_bytes, has_magic, magic, gen_activate_decode_error_result.
  replace (negb (0 <? len g) || negb (list_eqb (slice g 0 3) [70; 102; 109]) || negb (6 <=? len g))
    with (negb ((match g with [] => false | _ :: _ => true end) && list_eqb (slice g 0 3) [70; 102; 109] && (len g >=? 6))).
  - reflexivity.
  - destruct g as [|x t]; [reflexivity|]. rewrite len_cons. pose proof (len_nonneg t).
    destruct (list_eqb (slice (x :: t) 0 3) [70; 102; 109]); lia.
Qed.

Theorem bridge_pax_cfg sec d s v m w l o :
  use_pax sec (Pax d s v m w l o) =
  (do _ <- lsc_text o; do _ <- dpc_text o;
   Ok (true, Some (Pax.mkcfg (gen_cfg_rcvd_ver v) (gen_cfg_send_miu m) (gen_cfg_recv_lto l) (gen_cfg_send_wks w)
                         (gen_cfg_send_lsc o) (gen_cfg_llcp_dpc sec o)))).
Proof. destruct v, m, w, l, o, sec; reflexivity. Qed.

(* ================================================================ src/nfc/tag/tt3.py Type3TagEmulation *)
Definition ba (l : list Z) : res (list Z) := match l with a :: b :: rest => ba2 a b rest | _ => Crash ValueErr end.

Section T3.
Variables (idm pmm sys svcs : list Z).
Variable rdf : Z -> Z -> bool -> bool -> option (list Z).
Variable wrf : Z -> Z -> list Z -> bool -> bool -> bool.

Theorem bridge_t3_process cmd :
  gen_t3_index_error_is_no_response = true /\
  process_command idm pmm sys svcs rdf wrf cmd =
  (if gen_t3_len_bad cmd then Ok None else
   match process_inner idm pmm sys svcs rdf wrf cmd with Crash IndexErr => Ok None | r => r end).
Proof.
  split; [reflexivity|]. unfold process_command, gen_t3_len_bad. destruct cmd as [|c0 t]; [reflexivity|].
  replace (len (c0 :: t) =? 0) with false by (rewrite len_cons; pose proof (len_nonneg t); lia).
  change (pyidx (c0 :: t) 0) with c0. reflexivity.
Qed.

Definition t3_handler (h : Z) (arg : list Z) : res (list Z) :=
  if h =? 0 then Ok gen_t3_request_response
  else if h =? 1 then read_without_encryption svcs rdf arg
  else if h =? 2 then write_without_encryption svcs wrf arg
  else Ok (gen_t3_request_system_code sys).

Fixpoint t3_by_table (tbl : list (Z * Z * Z * Z * Z)) (cmd : list Z) (c1 : Z) : res (option (list Z)) :=
  match tbl with
  | [] => Ok None
  | (code, h, off, base, rc) :: r =>
      if c1 =? code then (do rsp <- t3_handler h (drop off cmd); do out <- ba2 (base + len rsp) rc (idm ++ rsp); Ok (Some out))
      else t3_by_table r cmd c1
  end.

Theorem bridge_t3_inner cmd :
  process_inner idm pmm sys svcs rdf wrf cmd =
  (if gen_t3_is_polling sys cmd then
     do rc <- idx (gen_t3_polling_arg cmd) gen_t3_polling_rc_index;
     do out <- ba (gen_t3_polling_rsp (gen_t3_polling idm pmm sys rc)); Ok (Some out)
   else if gen_t3_idm_match idm cmd then (do c1 <- idx cmd 1; t3_by_table gen_t3_dispatch cmd c1)
   else Ok None).
Proof.
  unfold process_inner, gen_t3_is_polling, is_polling, gen_t3_idm_match, polling, gen_t3_polling_arg, gen_t3_polling_rc_index,
    gen_t3_polling_rsp, gen_t3_polling.
  destruct (list_eqb (slice cmd 0 4) [6; 0; 255; 255] || list_eqb (slice cmd 0 4) ([6; 0] ++ sys)).
  - destruct (idx (drop 2 cmd) 2) as [rc| | |]; try reflexivity. cbn [bind]. destruct (rc =? 1); rewrite <- ?app_assoc; reflexivity.
  - destruct (list_eqb (slice cmd 2 10) idm); [|reflexivity].
    destruct (idx cmd 1) as [c1| | |]; reflexivity.
Qed.

(* the service list and block list parsers are shared by read and write in the model: the two methods use the same expressions *)
Theorem bridge_t3_rd_wr_same :
  gen_t3_wr_service_code = gen_t3_rd_service_code /\ gen_t3_wr_err_service = gen_t3_rd_err_service /\
  gen_t3_wr_service_step = gen_t3_rd_service_step /\ gen_t3_wr_list_index = gen_t3_rd_list_index /\
  gen_t3_wr_err_index = gen_t3_rd_err_index /\ gen_t3_wr_two_byte = gen_t3_rd_two_byte /\ gen_t3_wr_bn2 = gen_t3_rd_bn2 /\
  gen_t3_wr_bn2_step = gen_t3_rd_bn2_step /\ gen_t3_wr_bn3 = gen_t3_rd_bn3 /\ gen_t3_wr_bn3_step = gen_t3_rd_bn3_step /\
  gen_t3_wr_begin = gen_t3_rd_begin /\ gen_t3_wr_end = gen_t3_rd_end.
Proof. repeat split; reflexivity. Qed.

Theorem bridge_t3_parse_services n err cd acc :
  parse_services svcs (S n) err cd acc =
  (do b1 <- idx cd 1; do b0 <- idx cd 0;
   let code := gen_t3_rd_service_code b0 b1 in
   if negb (memz code svcs) then Ok (Rsp err)
   else parse_services svcs n err (drop gen_t3_rd_service_step cd) (acc ++ [(code, 0)])).
Proof. reflexivity. Qed.

Theorem bridge_t3_parse_blocks m i cd sl acc :
  parse_blocks (S m) i cd sl acc =
  match nth_error cd 0 with
  | None => Ok (Rsp (gen_t3_rd_err_index i))
  | Some b0 =>
      let k := Z.to_nat (gen_t3_rd_list_index b0) in
      match nth_error sl k with
      | None => Ok (Rsp (gen_t3_rd_err_index i))
      | Some (code, cnt) =>
          let sl' := set_nth k (code, cnt + 1) sl in
          if gen_t3_rd_two_byte b0 then
            do b1 <- idx cd 1;
            parse_blocks m (i + 1) (drop gen_t3_rd_bn2_step cd) sl' (acc ++ [(code, gen_t3_rd_bn2 b1)])
          else
            do b2 <- idx cd 2; do b1 <- idx cd 1;
            parse_blocks m (i + 1) (drop gen_t3_rd_bn3_step cd) sl' (acc ++ [(code, gen_t3_rd_bn3 b1 b2)])
      end
  end.
Proof. reflexivity. Qed.

Theorem bridge_t3_read cd :
  read_without_encryption svcs rdf cd =
  (do (n, cd1) <- pop0 cd;
   do e1 <- parse_services svcs (Z.to_nat n) gen_t3_rd_err_service cd1 [];
   match e1 with
   | Rsp r => Ok r
   | Go (sl, cd2) =>
       do (m, cd3) <- pop0 cd2;
       if gen_t3_rd_too_many m then Ok gen_t3_rd_err_too_many else
       do e2 <- parse_blocks (Z.to_nat m) 0 cd3 sl [];
       match e2 with
       | Rsp r => Ok r
       | Go (sl', bl, _) =>
           do bl' <- annotate sl' bl;
           do e3 <- read_loop svcs rdf bl' 0 sl' [];
           match e3 with Rsp r => Ok r | Go data => ba (gen_t3_rd_ok data) end
       end
   end).
Proof. reflexivity. Qed.

Theorem bridge_t3_read_loop sc bn bc r i d acc :
  read_loop svcs rdf ((sc, bn, bc) :: r) i d acc =
  (do c <- dget d sc;
   do _ <- services_get svcs sc;
   match rdf sc bn (gen_t3_rd_begin bc c) (gen_t3_rd_end c) with
   | None => Ok (Rsp (gen_t3_rd_err_block i))
   | Some one => read_loop svcs rdf r (i + 1) (dset d sc (c - 1)) (acc ++ one)
   end).
Proof. reflexivity. Qed.

Theorem bridge_t3_write cd :
  write_without_encryption svcs wrf cd =
  (do (n, cd1) <- pop0 cd;
   do e1 <- parse_services svcs (Z.to_nat n) gen_t3_wr_err_service cd1 [];
   match e1 with
   | Rsp r => Ok r
   | Go (sl, cd2) =>
       do (m, cd3) <- pop0 cd2;
       do e2 <- parse_blocks (Z.to_nat m) 0 cd3 sl [];
       match e2 with
       | Rsp r => Ok r
       | Go (sl', bl, cd4) =>
           do bl' <- annotate sl' bl;
           if gen_t3_wr_misaligned cd4 then Ok gen_t3_wr_err_align else write_loop svcs wrf bl' 0 sl' cd4
       end
   end).
Proof. reflexivity. Qed.

Theorem bridge_t3_write_loop sc bn bc r i d bd :
  write_loop svcs wrf [] i d bd = Ok gen_t3_wr_ok /\
  write_loop svcs wrf ((sc, bn, bc) :: r) i d bd =
  (do c <- dget d sc;
   do _ <- services_get svcs sc;
   if negb (wrf sc bn (gen_t3_wr_block bd i) (gen_t3_wr_begin bc c) (gen_t3_wr_end c)) then Ok (gen_t3_wr_err_block i)
   else write_loop svcs wrf r (i + 1) (dset d sc (c - 1)) bd).
Proof. split; reflexivity. Qed.

End T3.

(* ================================================================ src/nfc/snep/server.py, src/nfc/handover/*.py *)
Lemma pyslice_to_end (l : list Z) a : 0 <= a <= len l -> pyslice l a (len l) = drop a l.
Proof.
  intro H. unfold pyslice, norm_idx, drop. replace (a <? 0) with false by lia. pose proof (len_nonneg l).
  replace (len l <? 0) with false by lia. rewrite (Z.min_l a (len l)) by lia. rewrite (Z.min_l (len l) (len l)) by lia.
  apply firstn_all2. rewrite skipn_length. unfold len in *. lia.
Qed.

Lemma idx_pyidx (l : list Z) i : 0 <= i < len l -> idx l i = Ok (pyidx l i).
Proof.
  intro H. unfold idx, pyidx. replace (i <? 0) with false by lia.
  destruct (nth_error l (Z.to_nat i)) eqn:E.
  - f_equal. symmetry. replace (i <? 0) with false by lia. apply nth_error_nth. exact E.
  - apply nth_error_None in E. unfold len in H. lia.
Qed.

Definition rsp_of (c : option Z) : res (list Z) := match c with Some k => Ok (gen_c06_response k []) | None => Crash ValueErr end.

Section Snep.
Variable nd : Z -> list Z -> ndef_out.

Lemma snep_rsp_gen code : gen_c06_response code [] = snep_rsp code.
Proof. reflexivity. Qed.

(* process_snep_request: GET / PUT tests and octet slices of Gen/SnepK.v, handler classes and default results of Gen/RobustK.v *)
Theorem bridge_snep_process d : 6 <= len d ->
  process_snep_request nd false d =
  (let dec (o : ndef_out) (ok_code : Z) :=
     match o with
     | NdOk _ => Ok (gen_c06_response ok_code [])
     | NdDecodeError => rsp_of gen_snep_decode_error_code
     | NdValueError => rsp_of gen_snep_value_error_code
     end in
   if gen_c06_is_get d then dec (nd 0 (gen_c06_get_octets d)) gen_snep_default_get
   else if gen_c06_is_put d then dec (nd 0 (gen_c06_put_octets d)) gen_snep_default_put
   else Ok (gen_c06_response gen_snep_bad_request_code [])).
Proof.
  intro H. unfold process_snep_request, gen_c06_is_get, gen_c06_is_put, gen_c06_get_octets, gen_c06_put_octets.
  rewrite (idx_pyidx d 1) by lia. cbn [bind]. rewrite Z.geb_leb.
  destruct ((pyidx d 1 =? 1) && (10 <=? len d)) eqn:E.
  - rewrite pyslice_to_end by lia. destruct (nd 0 (drop 10 d)); reflexivity.
  - destruct (pyidx d 1 =? 2); [|reflexivity]. rewrite pyslice_to_end by lia. destruct (nd 0 (drop 6 d)); reflexivity.
Qed.

(* the header of the first fragment *)
Theorem bridge_snep_first max_len d :
  gen_snep_empty_fragment_ends = true /\
  snep_step nd false max_len Idle (Frag d) =
  (if len d =? 0 then Ok ([], Return)
   else if gen_c06_srv_short d then Ok ([], Return)
   else let v := gen_c06_srv_version d in
        let length := gen_c06_srv_length d in
        if gen_c06_srv_badver v then Ok ([gen_c06_rsp_unsupver], Continue Idle)
        else if gen_c06_srv_excess length max_len then Ok ([gen_c06_rsp_reject], Continue Idle)
        else if gen_c06_srv_more d length then Ok ([gen_c06_srv_rsp_continue], Continue (Collect d length))
        else (do r <- process_snep_request nd false d; Ok ([r], Continue Idle))).
Proof.
  split; [reflexivity|]. cbn [snep_step]. unfold gen_c06_srv_short. destruct (len d =? 0); [reflexivity|].
  destruct (len d <? 6) eqn:E6; [reflexivity|].
  assert (Hl : gen_c06_srv_length d = be32 (slice d 2 6)).
  { destruct d as [|a [|b [|c [|e [|f [|g t]]]]]]; rewrite ?len_cons in E6; try (change (len (@nil Z)) with 0 in E6; lia).
    unfold gen_c06_srv_length, be32. set (l := a :: b :: c :: e :: f :: g :: t).
    change (pyidx l 2) with c. change (pyidx l 3) with e. change (pyidx l 4) with f. change (pyidx l 5) with g.
    change (slice l 2 6) with [c; e; f; g]. cbn [fold_left]. ring. }
  rewrite (idx_pyidx d 0) by lia. cbn [bind]. unfold gen_c06_srv_version, gen_c06_srv_badver, gen_c06_srv_excess, gen_c06_srv_more.
  rewrite Hl. reflexivity.
Qed.
(* further fragments *)
Theorem bridge_snep_more max_len data need f :
  snep_step nd false max_len (Collect data need) (Frag f) =
  (if gen_c06_srv_more (data ++ f) need then Ok ([], Continue (Collect (data ++ f) need))
   else (do r <- process_snep_request nd false (data ++ f); Ok ([r], Continue Idle))).
Proof. reflexivity. Qed.

Variables (hs : list Z) (send_miu : Z) (reset : bool).

Theorem bridge_ho_step request f :
  ho_step nd false hs send_miu reset request (Frag f) =
  (let r := request ++ f in
   if gen_c06_ho_empty r then Ok ([], Continue r) else
   match nd 1 r with
   | NdDecodeError => if gen_ho_serve_continues_on_decode_error then Ok ([], Continue r) else Crash ValueErr
   | NdValueError => if gen_ho_serve_continues_on_value_error then Ok ([], Continue r) else Crash ValueErr
   | NdOk _ => do rsp <- ho_process nd false hs r; Ok (chunks send_miu (length rsp) rsp, Continue (if reset then [] else r))
   end).
Proof. reflexivity. Qed.
Theorem bridge_ho_process request :
  ho_process nd false hs request =
  match nd 2 request with
  | NdOk hr => Ok (if hr then hs else [])
  | NdDecodeError => if gen_ho_process_empty_on_decode_error then Ok [] else Crash ValueErr
  | NdValueError => if gen_ho_process_empty_on_value_error then Ok [] else Crash ValueErr
  end.
Proof. reflexivity. Qed.
Theorem bridge_ho_client octets f :
  hc_step nd false octets (Frag f) =
  match nd 1 (octets ++ f) with
  | NdOk _ => Ok (Return, Some (octets ++ f))
  | NdDecodeError => if gen_ho_client_continues_on_decode_error then Ok (Continue (octets ++ f), None) else Crash ValueErr
  | NdValueError => if gen_ho_client_continues_on_value_error then Ok (Continue (octets ++ f), None) else Crash ValueErr
  end.
Proof. reflexivity. Qed.

End Snep.
