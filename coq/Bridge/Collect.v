(* Bridge: the budget expressions, size tests, __len__ methods and header sizes regenerated from
   src/nfc/llcp/{llc,tco,pdu}.py (Gen/CollectK.v, translate/kspec_c10.py) are the expressions the model
   Model/Collect.v computes with.  Each lemma is a step equation of a model function with the generated
   kernels in the place of the model's own arithmetic; if the source changes one of these expressions the
   lemma no longer checks. *)
From Coq Require Import ZArith List Bool Lia.
From NV Require Import Base.Result Base.Bytes Model.Collect Gen.CollectK.
Import ListNotations.
Open Scope Z_scope.

(* ---- TransmissionControlObject.dequeue: pdu_size and the requeue test ---- *)
Lemma bridge_tco_dequeue m icv p q :
  tco_dequeue (Some m) icv (p :: q) =
  (let pdu_size := if is_ui_i p then gen_c10_size_ui_i (plen p) icv else gen_c10_size_other (plen p) in
   if gen_c10_requeue pdu_size (hsize p) m then (p :: q, None) else (q, Some p)).
Proof. reflexivity. Qed.

(* ---- ServiceDiscovery.dequeue: `while miu_size >= 4`, `miu_size -= 4`, `3 + len(name) > miu_size`,
        `miu_size -= 3 + len(name)`, `len(self.dmpdu) > 0 and miu_size > 0` ---- *)
Lemma bridge_take_res r rest miu :
  take_res (sd_thr fixed) (r :: rest) miu =
  (if gen_c10_sd_more miu
   then let '(t, rest', m) := take_res (sd_thr fixed) rest (miu - gen_c10_sd_res_cost) in (r :: t, rest', m)
   else ([], r :: rest, miu)).
Proof. cbn [take_res sd_thr fixed]. unfold gen_c10_sd_more. rewrite Z.geb_leb. reflexivity. Qed.

Lemma bridge_req_loop k r rest taken miu :
  req_loop (S k) (r :: rest) taken miu =
  (if gen_c10_sd_req_over (snd r) miu then req_loop k (rest ++ [r]) taken miu
   else req_loop k rest (taken ++ [r]) (miu - gen_c10_sd_req_cost (snd r))).
Proof. reflexivity. Qed.

Lemma bridge_sd_dm thr miu dm :
  sd_dequeue thr miu (mkSd [] [] dm) =
  (if gen_c10_sd_dm (len dm) miu
   then match dm with p :: r => Ok (mkSd [] [] r, Some p) | [] => Ok (mkSd [] [] dm, None) end
   else Ok (mkSd [] [] dm, None)).
Proof.
  unfold sd_dequeue, gen_c10_sd_dm. cbn [sdres sdreq dmpdu]. destruct dm as [|p r]; [reflexivity|].
  rewrite len_cons. pose proof (len_nonneg r). replace (1 + len r >? 0) with true by lia. reflexivity.
Qed.

(* ---- collect(): first budget, early return, the three `miu_size = send-miu - len(agf) - 3`, loop tests ---- *)
Lemma bridge_early_return M p : (plen p - hsize p >=? M) = gen_c10_early_return (plen p) (hsize p) (gen_c10_miu_first M).
Proof. reflexivity. Qed.

Lemma bridge_agg_for c thr M icv o r agf miu dn :
  agg_for c thr M icv (o :: r) agf miu dn =
  (do x <- obj_dequeue thr miu (gen_c10_icv_agg icv) o;
   let '(o', y) := x in
   match y with
   | Some p =>
       let agf' := agf ++ [maybe_encrypt c p] in
       let miu' := gen_c10_budget2 M (agf_len agf') in
       if gen_c10_break_inner miu' then Ok (o' :: r, agf', miu', false)
       else do z <- agg_for c thr M icv r agf' miu' false; let '(r', a, m, d) := z in Ok (o' :: r', a, m, d)
   | None => do z <- agg_for c thr M icv r agf miu dn; let '(r', a, m, d) := z in Ok (o' :: r', a, m, d)
   end).
Proof. reflexivity. Qed.

Lemma bridge_agg_loop f c M icv l agf miu :
  agg_loop (S f) c fixed M icv l agf miu =
  (if gen_c10_agf_enter miu then
     do x <- agg_for c (sd_thr fixed) M icv l agf miu true;
     let '(l', agf', miu', dn) := x in
     if gen_c10_break_outer miu' dn then Ok (l', agf', miu') else agg_loop f c fixed M icv l' agf' miu'
   else Ok (l, agf, miu)).
Proof.
  cbn [agg_loop agf_guard fixed andb]. unfold gen_c10_agf_enter.
  destruct (miu <? 0) eqn:E; [replace (miu >=? 0) with false by lia | replace (miu >=? 0) with true by lia]; reflexivity.
Qed.

Lemma bridge_ack_for M o r agf :
  ack_for M (o :: r) agf =
  (if skind_eqb (obj_mode o) Dlc then
     let '(o', y) := obj_sendack o in
     match y with
     | Some p =>
         let agf' := agf ++ [p] in
         if gen_c10_break_acks (gen_c10_budget3 M (agf_len agf')) then (o' :: r, agf')
         else let '(r', a) := ack_for M r agf' in (o' :: r', a)
     | None => let '(r', a) := ack_for M r agf in (o' :: r', a)
     end
   else let '(r', a) := ack_for M r agf in (o :: r', a)).
Proof. reflexivity. Qed.

Lemma bridge_collect_budget M p miu1 :
  M - agf_len [p] - 3 = gen_c10_budget1 M (agf_len [p]) /\ (miu1 >=? 0) = gen_c10_final_acks miu1.
Proof. split; reflexivity. Qed.

(* ---- pdu.py: header_size and __len__ ---- *)
Lemma bridge_hsize p : hsize p = if numbered (pt p) then gen_c10_hdr_numbered else gen_c10_hdr_plain.
Proof. reflexivity. Qed.
Lemma bridge_len d s n r data reason b0 b1 b2 b3 sk :
  plen (mkPdu PT_UI d s n r data) = gen_c10_len_ui data /\
  plen (mkPdu PT_I d s n r data) = gen_c10_len_i data /\
  plen (ack sk) = gen_c10_len_rr_rnr /\
  plen (mkPdu PT_DM d s n r [reason]) = gen_c10_len_dm /\
  plen (mkPdu PT_FRMR d s n r [b0; b1; b2; b3]) = gen_c10_len_frmr /\
  plen (mkPdu PT_DISC d s n r []) = gen_c10_len_disc.
Proof. repeat split; try reflexivity. unfold ack. destruct (busy sk); reflexivity. Qed.

(* ---- pdu.py: the MIU learnt from a MIUX TLV (Parameter.decode) in PAX / CONNECT / CC ---- *)
Lemma bridge_miux V :
  miux_decode V = (if negb (gen_c10_miux_reserved V =? 0) then gen_c10_miux_masked V else V) /\
  learn_miu (Some V) = gen_c10_connect_miu (miux_decode V) /\ learn_miu (Some V) = gen_c10_cc_miu (miux_decode V) /\
  learn_miu (Some V) = gen_c10_pax_miu (miux_decode V).
Proof. repeat split; try reflexivity. unfold learn_miu, gen_c10_pax_miu. lia. Qed.

(* ---- the ICV allowance: icv_size = self.sec.icv_size if self.sec else 0, the encryption tests, and what every
        dequeue call site passes on as icv_size (first loop: 0; aggregation: icv_size; SAP -> socket -> TCO) ---- *)
Definition sec_on (c : cfg) : bool := match sec c with Some _ => true | None => false end.
Definition sec_icv (c : cfg) : Z := match sec c with Some k => icv_size k | None => 0 end.
Lemma bridge_icv_size c : cfg_icv c = gen_c10_icv_size (sec_on c) (sec_icv c).
Proof. unfold cfg_icv, sec_on, sec_icv, gen_c10_icv_size. destruct (sec c); reflexivity. Qed.
Lemma bridge_encrypt c p :
  maybe_encrypt c p =
  (if gen_c10_encrypt_cond1 (sec_on c) (is_ui_i p)
   then match sec c with Some k => mkPdu (pt p) (da p) (sa p) (ns p) (nr p) (encrypt k (enc_hdr p) (body p)) | None => p end
   else p) /\ gen_c10_encrypt_cond2 (sec_on c) (is_ui_i p) = gen_c10_encrypt_cond1 (sec_on c) (is_ui_i p).
Proof. unfold maybe_encrypt, sec_on, gen_c10_encrypt_cond1, gen_c10_encrypt_cond2. destruct (sec c); split; reflexivity. Qed.
Lemma bridge_icv_sites c thr b miu icv o r a s l k :
  first_pass c thr b miu (o :: r) =
    (if Bool.eqb (skind_eqb (obj_mode o) Raw) b then
       do x <- obj_dequeue thr miu (gen_c10_icv_first (cfg_icv c)) o;
       let '(o', y) := x in
       match y with
       | Some p => Ok (o' :: r, Some (maybe_encrypt c p))
       | None => do z <- first_pass c thr b miu r; let '(r', y') := z in Ok (o' :: r', y')
       end
     else do z <- first_pass c thr b miu r; let '(r', y') := z in Ok (o :: r', y')) /\
  sap_dequeue miu icv a = sap_dequeue miu (gen_c10_icv_sap icv) a /\
  socks_dequeue k miu icv l = socks_dequeue k miu (gen_c10_icv_sap icv) l /\
  sock_dequeue Ldl miu icv s = (let '(q', x) := tco_dequeue (Some miu) (gen_c10_icv_ldl icv) (sq s) in (with_sq s q', x)) /\
  sock_dequeue Raw miu icv s = (let '(q', x) := tco_dequeue None (gen_c10_icv_raw icv) (sq s) in (with_sq s q', x)) /\
  sock_dequeue Dlc miu icv s = dlc_dequeue miu (gen_c10_icv_dlc icv) s.
Proof. repeat split; reflexivity. Qed.
