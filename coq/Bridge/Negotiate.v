(* C19 tie: the kernels regenerated from src/nfc/dep.py and src/nfc/llcp/llc.py on this run (Gen/Negotiate.v)
   are the definitions of Model/Negotiate.v. *)
From Coq Require Import ZArith List Bool Lia ZifyBool.
From NV Require Import Base.Result Base.Bytes Model.Dep Model.Negotiate Gen.Negotiate Proofs.Negotiate.
Import ListNotations.
Open Scope Z_scope.
Ltac Zify.zify_post_hook ::= Z.to_euclidean_division_equations.

Lemma nth_lr i : 0 <= i <= 3 -> nth (Z.to_nat i) [64; 128; 192; 254] 0 = lr_of i.
Proof. intro H. assert (i = 0 \/ i = 1 \/ i = 2 \/ i = 3) as [->|[->|[->| ->]]] by lia; reflexivity. Qed.

Lemma bridge_atr_lr pp : 0 <= pp -> gen_atr_lr pp = atr_lr pp.
Proof.
  intro H. unfold gen_atr_lr, atr_lr. rewrite land3, Z.shiftr_div_pow2 by lia. change (2 ^ 4) with 16.
  apply nth_lr. lia.
Qed.
Lemma bridge_psl_lr fsl : gen_psl_lr fsl = psl_lr fsl.
Proof. unfold gen_psl_lr, psl_lr. rewrite land3. apply nth_lr. lia. Qed.
Lemma bridge_psl_dsi brs : gen_psl_dsi brs = psl_dsi brs.
Proof. unfold gen_psl_dsi, psl_dsi. rewrite land7, Z.shiftr_div_pow2 by lia. reflexivity. Qed.
Lemma bridge_psl_dri brs : gen_psl_dri brs = psl_dri brs.
Proof. unfold gen_psl_dri, psl_dri. apply land7. Qed.
Lemma bridge_atr_wt to : gen_atr_wt to = atr_wt to.
Proof. unfold gen_atr_wt, atr_wt. change 15 with (Z.ones 4). rewrite Z.land_ones by lia. reflexivity. Qed.

Lemma bridge_i_brs o : gen_i_brs (io_brs o) = i_brs o. Proof. reflexivity. Qed.
Lemma bridge_i_lri o : gen_i_lri (io_lri o) = i_lri o. Proof. reflexivity. Qed.
Lemma bridge_t_lrt o : gen_t_lrt (to_lrt o) = t_lrt o. Proof. reflexivity. Qed.
Lemma bridge_t_rwt o : gen_t_rwt (to_rwt o) = t_rwt o. Proof. reflexivity. Qed.
Lemma bridge_send_lto o : gen_send_lto (lo_lto o) = l_send_lto o. Proof. reflexivity. Qed.

Lemma pp_bits lr g n : 0 <= lr <= 3 -> Z.lor (Z.lor (Z.shiftl lr 4) (Z.shiftl (b2z g) 1)) (b2z n) = lr * 16 + b2z g * 2 + b2z n.
Proof. intro H. assert (lr = 0 \/ lr = 1 \/ lr = 2 \/ lr = 3) as [->|[->|[->| ->]]] by lia; destruct g, n; reflexivity. Qed.

Lemma bridge_i_ppi o : gen_i_ppi (i_lri o) (i_gbi o) (io_nad o) = i_ppi o.
Proof.
  unfold gen_i_ppi, i_ppi.
  replace (if match i_gbi o with [] => false | _ :: _ => true end then 1 else 0) with (b2z (nonempty (i_gbi o))) by (destruct (i_gbi o); reflexivity).
  replace (if match io_nad o with Some x => negb (x =? 0) | None => false end then 1 else 0) with (b2z (truthy (io_nad o)))
    by (unfold truthy; destruct (io_nad o) as [x|]; [destruct (negb (x =? 0))|]; reflexivity).
  apply pp_bits. unfold i_lri, clamp. lia.
Qed.
(* Target.nad is never set: the target announces "no NAD" *)
Lemma bridge_t_pp o : gen_t_pp (t_lrt o) (t_gbt o) None = t_pp o.
Proof.
  unfold gen_t_pp, t_pp.
  replace (if match t_gbt o with [] => false | _ :: _ => true end then 1 else 0) with (b2z (nonempty (t_gbt o))) by (destruct (t_gbt o); reflexivity).
  pose proof (pp_bits (t_lrt o) (nonempty (t_gbt o)) false ltac:(unfold t_lrt, clamp; lia)) as E. cbn [b2z] in E.
  cbn [b2z]. rewrite E. lia.
Qed.

Lemma bridge_i_miu lr did nad : gen_i_miu lr did nad = lr - 3 - b2z (is_some did) - b2z (is_some nad).
Proof. unfold gen_i_miu. destruct did, nad; reflexivity. Qed.
Lemma bridge_t_miu lr did : gen_t_miu lr did None = lr - 3 - b2z (is_some did).
Proof. unfold gen_t_miu. destruct did; cbn [is_some b2z]; lia. Qed.

(* the model's evaluation functions use exactly these kernels *)
Theorem bridge_ini_eval o brty0 id did bs br to pp gb d : 0 <= pp -> 0 <= to ->
  ini_eval o brty0 (PAtrRes id did bs br to pp gb) = Ok d ->
  di_miu d = gen_i_miu (gen_atr_lr pp) (io_did o) (io_nad o) /\
  di_wt d = (if gen_atr_wt to <? 15 then gen_atr_wt to else 14) /\
  di_brty d = (if brty0 <? gen_i_brs (io_brs o) then gen_i_brs (io_brs o) else brty0).
Proof.
  intros Hp Ht H. unfold ini_eval in H. injection H as <-. cbn [di_miu di_wt di_brty].
  rewrite bridge_i_miu, bridge_atr_lr, bridge_atr_wt by assumption. auto.
Qed.
Theorem bridge_tgt_eval o brty id did bs br pp gb d : 0 <= pp ->
  tgt_eval o brty (PAtrReq id did bs br pp gb) = Ok d ->
  dt_miu d = gen_t_miu (gen_atr_lr pp) (dt_did d) None /\ dt_wt d = gen_t_rwt (to_rwt o).
Proof.
  intros Hp H. unfold tgt_eval in H. injection H as <-. cbn [dt_miu dt_wt dt_did].
  rewrite bridge_t_miu, bridge_atr_lr by assumption. auto.
Qed.

(* ---- LogicalLinkController.activate: announced values come from entries no activation changes, the received values are
   ASSIGNED (regenerated from the assignment statements: a setdefault or a swapped field does not get here) ---- *)
Theorem bridge_announce local send_lsc : gen_announce_lsc local send_lsc = announce_lsc local send_lsc /\ gen_announce_guards = (128, 100, 0).
Proof. split; reflexivity. Qed.
Theorem bridge_cfg_assign sec miu lto wks lsc dpc ver :
  let c := cfg_assign sec miu lto wks lsc dpc ver in
  gen_cfg_assign sec miu lto wks lsc dpc ver = (c_ok c, c_send_miu c, c_recv_lto c, c_send_wks c, c_send_lsc c, c_dpc c, c_ver c).
Proof. reflexivity. Qed.
