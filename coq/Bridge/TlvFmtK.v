(* The expressions of Type2Tag._format regenerated on this run (Gen/TlvFmtK.v; the translator also checks that
   the method still has the control skeleton length := 0 | skip reserved bytes | terminator if inside the data
   area | wipe loop up to the data area end) are the ones the model's ph_format / t2_read use. *)
From Coq Require Import ZArith List Bool Lia.
From NV Require Import Base.Result Base.Bytes Base.PyPrims Model.TlvMem Model.T2T Gen.TlvFmtK Proofs.TlvLib.
Import ListNotations.
Open Scope Z_scope.

Lemma bridge_fmt_size b14 : gen_t2_fmt_size b14 = b14 * 8 + 16.
Proof. reflexivity. Qed.
(* the model's format phase, written with the generated expressions *)
Lemma bridge_ph_format L wipe c : ph_format L wipe c =
  (do c1 <- upd c (gen_t2_fmt_len_addr (l_off L)) 0;
   let a := gen_t2_fmt_term_from (l_off L) in
   match term_pos (l_skip L) a (Z.to_nat (l_dend L - a)) with
   | Some t =>
     do c2 <- upd c1 t 254;
     match wipe with
     | Some w => wipe_loop (l_skip L) (gen_t2_fmt_wipe_from t) (Z.to_nat (l_dend L - gen_t2_fmt_wipe_from t)) (gen_t2_fmt_wipe_value w) c2
     | None => Ok c2
     end
   | None => Ok c1
   end).
Proof. reflexivity. Qed.
(* the terminator position the model computes is one the code's guard "offset < memory_size" admits, and is the
   first address from offset+2 on that is not reserved *)
Lemma bridge_fmt_term_guard L t : term_pos (l_skip L) (gen_t2_fmt_term_from (l_off L)) (Z.to_nat (l_dend L - gen_t2_fmt_term_from (l_off L))) = Some t ->
  gen_t2_fmt_term_guard t (l_dend L) = true /\ in_skip (l_skip L) t = false /\ gen_t2_fmt_term_from (l_off L) <= t.
Proof. intro H. apply term_pos_spec in H. unfold gen_t2_fmt_term_guard, gen_t2_fmt_term_from in *. destruct H as [H1 H2].
  split; [apply Z.ltb_lt; lia|]. split; [exact H2 | lia]. Qed.
