(* Bridge, whole functions: the decode / encode functions translated statement by statement from src/nfc/llcp/pdu.py on this
   run (Gen/PduF.v) ARE the functions of Model/Pdu.v that the C11 theorems are about. *)
From Coq Require Import ZArith List Bool Lia ZifyBool.
Ltac Zify.zify_post_hook ::= Z.to_euclidean_division_equations.
From NV Require Import Base.Result Base.Bytes Base.PyPrims Base.Sweep Model.Pdu Gen.PduF
  Proofs.PduBase Proofs.PduWin Proofs.PduLen Proofs.PduRt Proofs.PduTotal.
Import ListNotations.
Open Scope Z_scope.

Lemma pyslice_slice' {A} (l : list A) a b : 0 <= a -> 0 <= b -> pyslice l a b = slice l a b.
Proof.
  intros Ha Hb. unfold pyslice, norm_idx. rewrite slice_eq by lia. pose proof (len_nonneg l) as Hn.
  replace (a <? 0) with false by lia. replace (b <? 0) with false by lia.
  destruct (Z.le_gt_cases (len l) a) as [H|H].
  - rewrite (Z.min_r a) by lia. unfold len in *. rewrite !skipn_all2 by lia. rewrite !firstn_nil. reflexivity.
  - rewrite (Z.min_l a) by lia. destruct (Z.le_gt_cases b (len l)) as [H2|H2].
    + rewrite (Z.min_l b) by lia. reflexivity.
    + rewrite (Z.min_r b) by lia. unfold len in *. rewrite !firstn_all2; [reflexivity | |]; rewrite skipn_length; lia.
Qed.

(* ---------------------------------------------------------------- headers *)
Theorem bridge_decode_header_f data off size : gen_decode_header data off size = decode_header data off size.
Proof. reflexivity. Qed.
Theorem bridge_decode_nheader_f data off size : gen_decode_nheader data off size = decode_nheader data off size.
Proof. reflexivity. Qed.
Theorem bridge_encode_header_f pt d s : gen_encode_header pt d s = encode_header pt d s.
Proof.
  unfold gen_encode_header, encode_header, g_pack_raw. cbn [orb g_packs Z.eqb Pos.eqb].
  destruct ((d <? 0) || (s <? 0)); [reflexivity|]. destruct ((d >? 63) || (s >? 63)); [reflexivity|].
  destruct (in_range 0 65535 _); reflexivity.
Qed.
Theorem bridge_encode_nheader_f pt d s ns nr : gen_encode_nheader pt d s ns nr = encode_nheader pt d s ns nr.
Proof.
  unfold gen_encode_nheader, encode_nheader. rewrite bridge_encode_header_f. destruct (encode_header pt d s); cbn [ebind]; try reflexivity.
  cbn [orb]. destruct ((ns <? 0) || (nr <? 0)) eqn:E0; [reflexivity|]. destruct ((ns >? 15) || (nr >? 15)) eqn:E; [reflexivity|].
  unfold g_pack_raw. cbn [g_packs Z.eqb Pos.eqb].
  assert (H : in_range 0 255 (Z.lor (Z.shiftl ns 4) nr) = true).
  { rewrite lor_nibbles by lia. unfold in_range. lia. }
  rewrite H. reflexivity.
Qed.

(* ---------------------------------------------------------------- Parameter.encode *)
Theorem bridge_param_encode_f t : gen_param_encode t = param_encode t.
Proof.
  destruct t; cbn [gen_param_encode param_encode]; unfold g_pack_try, packB, packH; cbn [g_packs Z.eqb Pos.eqb];
    change (in_range 0 255 1) with true; change (in_range 0 255 2) with true; change (in_range 0 255 3) with true;
    change (in_range 0 255 4) with true; change (in_range 0 255 5) with true; change (in_range 0 255 6) with true;
    change (in_range 0 255 7) with true; change (in_range 0 255 8) with true; change (in_range 0 255 9) with true;
    change (in_range 0 255 10) with true; change (in_range 0 255 11) with true; cbv iota;
    try (destruct (in_range 0 255 v); reflexivity); try (destruct (in_range 0 65535 v); reflexivity); try reflexivity.
  - pose proof (len_nonneg b). destruct (len b >? 255) eqn:E; [reflexivity|].
    replace (in_range 0 255 (len b)) with true by (unfold in_range; lia). reflexivity.
  - pose proof (len_nonneg sn). destruct (len sn >? 254) eqn:E; [reflexivity|].
    replace (in_range 0 255 (1 + len sn)) with true by (unfold in_range; lia).
    destruct (in_range 0 255 tid); reflexivity.
  - destruct (in_range 0 255 tid); destruct (in_range 0 255 sap); reflexivity.
  - pose proof (len_nonneg b). destruct (len b >? 255) eqn:E; [reflexivity|].
    replace (in_range 0 255 (len b)) with true by (unfold in_range; lia). reflexivity.
  - pose proof (len_nonneg b). destruct (len b >? 255) eqn:E; [reflexivity|].
    replace (in_range 0 255 (len b)) with true by (unfold in_range; lia). reflexivity.
Qed.

(* ---------------------------------------------------------------- Parameter.decode *)
Definition rd0 (data : list Z) (off : Z) : Z := match rd data off with Some T => T | None => 0 end.

Lemma mask8 (m k : Z) :
  forallb (fun x => Z.land x k =? (if negb (Z.land x m =? 0) then Z.land x k else x)) (zseq 0 256) = true ->
  forall x, 0 <= x < 256 -> (if negb (Z.land x m =? 0) then Z.land x k else x) = Z.land x k.
Proof. intros H x Hx. symmetry. apply Z.eqb_eq. apply (sweep_lift _ 0 256 H x). cbn. lia. Qed.
Lemma mask16 (m k : Z) :
  sweep16 (fun x => Z.land x k =? (if negb (Z.land x m =? 0) then Z.land x k else x)) = true ->
  forall x, 0 <= x < 65536 -> (if negb (Z.land x m =? 0) then Z.land x k else x) = Z.land x k.
Proof. intros H x Hx. symmetry. apply Z.eqb_eq. exact (sweep16_lift _ H x Hx). Qed.

Lemma bytes_ok_slice data a b : bytes_ok data -> bytes_ok (slice data a b).
Proof. intro H. unfold slice. apply (bytes_ok_take _ (Z.max 0 (b - Z.max 0 a))). apply (bytes_ok_drop _ (Z.max 0 a)), H. Qed.

Lemma tlv_interp_f T L V : bytes_ok V ->
  (if (T =? 1) then (if (negb (L =? 1)) then Err DecodeError else match V with [v0_] => Ok (T, L, TVersion v0_) | _ => Crash StructErr end)
   else if (T =? 2) then (if (negb (L =? 2)) then Err DecodeError else
        match V with [v0_; v1_] => let V := (Z.add (Z.mul v0_ 256) v1_) in
          let V := (if (negb ((Z.land V 63488) =? 0)) then (Z.land V 2047) else V) in Ok (T, L, TMiux V) | _ => Crash StructErr end)
   else if (T =? 3) then (if (negb (L =? 2)) then Err DecodeError else
        match V with [v0_; v1_] => Ok (T, L, TWks (Z.add (Z.mul v0_ 256) v1_)) | _ => Crash StructErr end)
   else if (T =? 4) then (if (negb (L =? 1)) then Err DecodeError else match V with [v0_] => Ok (T, L, TLto v0_) | _ => Crash StructErr end)
   else if (T =? 5) then (if (negb (L =? 1)) then Err DecodeError else
        match V with [v0_] => let V := v0_ in let V := (if (negb ((Z.land V 240) =? 0)) then (Z.land V 15) else V) in Ok (T, L, TRw V)
                   | _ => Crash StructErr end)
   else if (T =? 7) then (if (negb (L =? 1)) then Err DecodeError else
        match V with [v0_] => let V := v0_ in let V := (if (negb ((Z.land V 248) =? 0)) then (Z.land V 7) else V) in Ok (T, L, TOpt V)
                   | _ => Crash StructErr end)
   else if (T =? 8) then (if (L =? 0) then Err DecodeError else match V with v0_ :: v1_ => Ok (T, L, TSdreq v0_ v1_) | [] => Crash StructErr end)
   else if (T =? 9) then (if (negb (L =? 2)) then Err DecodeError else match V with [v0_; v1_] => Ok (T, L, TSdres v0_ v1_) | _ => Crash StructErr end)
   else Ok (T, L, g_tlv_raw T V))
  = do t <- tlv_interp T L V; Ok (T, L, t).
Proof.
  intro Hb. unfold tlv_interp, g_tlv_raw.
  destruct (T =? 1) eqn:E1. { destruct (negb (L =? 1)); [reflexivity|]. destruct V as [|a [|b V]]; reflexivity. }
  destruct (T =? 2) eqn:E2.
  { destruct (negb (L =? 2)); [reflexivity|]. destruct V as [|a [|b [|c V]]]; try reflexivity. cbv zeta.
    pose proof (byte_of _ _ Hb). pose proof (byte_of _ _ (bytes_tl _ _ Hb)).
    rewrite (mask16 63488 2047) by (first [lia | vm_compute; reflexivity]). reflexivity. }
  destruct (T =? 3) eqn:E3. { destruct (negb (L =? 2)); [reflexivity|]. destruct V as [|a [|b [|c V]]]; reflexivity. }
  destruct (T =? 4) eqn:E4. { destruct (negb (L =? 1)); [reflexivity|]. destruct V as [|a [|b V]]; reflexivity. }
  destruct (T =? 5) eqn:E5.
  { destruct (negb (L =? 1)); [reflexivity|]. destruct V as [|a [|b V]]; try reflexivity. cbv zeta.
    pose proof (byte_of _ _ Hb). rewrite (mask8 240 15) by (first [lia | vm_compute; reflexivity]). reflexivity. }
  destruct (T =? 6) eqn:E6.
  { apply Z.eqb_eq in E6. subst T. reflexivity. }
  destruct (T =? 7) eqn:E7.
  { destruct (negb (L =? 1)); [reflexivity|]. destruct V as [|a [|b V]]; try reflexivity. cbv zeta.
    pose proof (byte_of _ _ Hb). rewrite (mask8 248 7) by (first [lia | vm_compute; reflexivity]). reflexivity. }
  destruct (T =? 8) eqn:E8. { destruct (L =? 0); [reflexivity|]. destruct V; reflexivity. }
  destruct (T =? 9) eqn:E9. { destruct (negb (L =? 2)); [reflexivity|]. destruct V as [|a [|b [|c V]]]; reflexivity. }
  destruct (T =? 10); [reflexivity|]. destruct (T =? 11); reflexivity.
Qed.

Theorem bridge_param_decode_f data off size : bytes_ok data ->
  gen_param_decode data off size = do (L, t) <- param_decode data off size; Ok (rd0 data off, L, t).
Proof.
  intro Hd. unfold gen_param_decode, param_decode, g_rd_err, rd0.
  destruct (rd data off) as [T|]; [|reflexivity]. cbn [bind].
  destruct (rd data (off + 1)) as [L|]; [|reflexivity]. cbn [bind].
  destruct (off + 2 + L >? len data); [reflexivity|]. cbv zeta. cbn [andb].
  destruct (2 + L >? size); [reflexivity|].
  set (V := slice data (off + 2) (off + 2 + L)).
  pose proof (tlv_interp_f T L V (bytes_ok_slice _ _ _ Hd)) as H. cbv zeta in H |- *.
  etransitivity; [|etransitivity; [exact H|]].
  - repeat match goal with |- (if ?c then _ else _) = (if ?c then _ else _) => destruct c end; try reflexivity;
      destruct V as [|a [|b [|c V']]]; reflexivity.
  - destruct (tlv_interp T L V); reflexivity.
Qed.

(* the T returned next to a decoded parameter is the tag of its constructor; an uninterpreted one has no known tag *)
Definition tag_ok (t : tlv) : Prop :=
  match t with TOther T _ => (T =? 1) || (T =? 2) || (T =? 3) || (T =? 4) || (T =? 5) || (T =? 6) || (T =? 7) || (T =? 8) || (T =? 9) ||
                             (T =? 10) || (T =? 11) = false | _ => True end.
Lemma tlv_interp_tag T L V t : tlv_interp T L V = Ok t -> tlv_T t = T /\ tag_ok t.
Proof.
  unfold tlv_interp.
  repeat match goal with |- context [if ?c then _ else _] => destruct c eqn:? end; intro H; try discriminate H;
    try (destruct V as [|a [|b [|c V']]]; try discriminate H); injection H as <-; cbn [tlv_T tag_ok]; split; try exact I; try lia.
Qed.
Lemma param_decode_tag data off size L t : param_decode data off size = Ok (L, t) -> tlv_T t = rd0 data off /\ tag_ok t.
Proof.
  unfold param_decode, rd0. destruct (rd data off) as [T|]; [|discriminate]. destruct (rd data (off + 1)) as [L'|]; [|discriminate].
  destruct (off + 2 + L' >? len data); [discriminate|]. destruct (2 + L' >? size); [discriminate|].
  destruct (tlv_interp T L' _) as [t'| | |] eqn:E; cbn [bind]; try discriminate. intro H. injection H as _ <-.
  eapply tlv_interp_tag, E.
Qed.

(* ---------------------------------------------------------------- the parameter loops of the five TLV classes *)
Ltac other_tag Hok :=
  cbn [tag_ok] in Hok;
  repeat (let H := fresh "Hk" in apply orb_false_iff in Hok; destruct Hok as [Hok H]; try rewrite H); try rewrite Hok.

Ltac loop_tac gen_loop IH E :=
  intros data off size st Hd; rewrite tlv_loop_eq; cbn [gen_loop];
  replace (negb (size >=? 2)) with (size <? 2) by lia;
  destruct (size <? 2); [reflexivity|]; try reflexivity;
  rewrite bridge_param_decode_f by assumption;
  destruct (param_decode data off size) as [[L t]| | |] eqn:E; cbn [bind]; try reflexivity;
  let Htag := fresh "Htag" in let Hok := fresh "Hok" in
  destruct (param_decode_tag _ _ _ _ _ E) as [Htag Hok]; rewrite <- Htag; rewrite IH by assumption; f_equal;
  destruct st; destruct t; cbn [tlv_T Z.eqb Pos.eqb pax_step connect_step cc_step snl_step dps_step g_tlv_int g_tlv_bytes g_tlv_sdreq g_tlv_sdres];
  try reflexivity; other_tag Hok; reflexivity.

Lemma loop_pax_f fuel : forall data off size st, bytes_ok data ->
  gen_loop_pax fuel data off size st = tlv_loop fuel pax_step data off size st.
Proof. induction fuel as [|f IH]; [intros data off size st Hd; rewrite tlv_loop_eq; cbn [gen_loop_pax];
  replace (negb (size >=? 2)) with (size <? 2) by lia; reflexivity|]. loop_tac gen_loop_pax IH E. Qed.
Lemma loop_connect_f fuel : forall data off size st, bytes_ok data ->
  gen_loop_connect fuel data off size st = tlv_loop fuel connect_step data off size st.
Proof. induction fuel as [|f IH]; [intros data off size st Hd; rewrite tlv_loop_eq; cbn [gen_loop_connect];
  replace (negb (size >=? 2)) with (size <? 2) by lia; reflexivity|]. loop_tac gen_loop_connect IH E. Qed.
Lemma loop_cc_f fuel : forall data off size st, bytes_ok data ->
  gen_loop_cc fuel data off size st = tlv_loop fuel cc_step data off size st.
Proof. induction fuel as [|f IH]; [intros data off size st Hd; rewrite tlv_loop_eq; cbn [gen_loop_cc];
  replace (negb (size >=? 2)) with (size <? 2) by lia; reflexivity|]. loop_tac gen_loop_cc IH E. Qed.
Lemma loop_snl_f fuel : forall data off size st, bytes_ok data ->
  gen_loop_snl fuel data off size st = tlv_loop fuel snl_step data off size st.
Proof. induction fuel as [|f IH]; [intros data off size st Hd; rewrite tlv_loop_eq; cbn [gen_loop_snl];
  replace (negb (size >=? 2)) with (size <? 2) by lia; reflexivity|]. loop_tac gen_loop_snl IH E. Qed.
Lemma loop_dps_f fuel : forall data off size st, bytes_ok data ->
  gen_loop_dps fuel data off size st = tlv_loop fuel dps_step data off size st.
Proof. induction fuel as [|f IH]; [intros data off size st Hd; rewrite tlv_loop_eq; cbn [gen_loop_dps];
  replace (negb (size >=? 2)) with (size <? 2) by lia; reflexivity|]. loop_tac gen_loop_dps IH E. Qed.

(* ---------------------------------------------------------------- decode of every class *)
Lemma bind_ok_id {A} (r : res A) : (do x <- r; Ok x) = r.
Proof. destruct r; reflexivity. Qed.

Theorem bridge_decode_Symmetry data off size : gen_decode_Symmetry data off size = dec_symm data off size.
Proof. reflexivity. Qed.
Theorem bridge_decode_ParameterExchange data off size : bytes_ok data ->
  gen_decode_ParameterExchange data off size = dec_pax data off size.
Proof.
  intro Hd. unfold gen_decode_ParameterExchange, dec_pax. rewrite bridge_decode_header_f.
  destruct (decode_header data off size) as [[d s]| | |]; cbn [bind]; try reflexivity.
  destruct (negb (d =? 0) || negb (s =? 0)); [reflexivity|]. rewrite loop_pax_f by assumption. apply bind_ok_id.
Qed.
Theorem bridge_decode_Connect data off size : bytes_ok data -> gen_decode_Connect data off size = dec_connect data off size.
Proof.
  intro Hd. unfold gen_decode_Connect, dec_connect. rewrite bridge_decode_header_f.
  destruct (decode_header data off size) as [[d s]| | |]; cbn [bind]; try reflexivity.
  rewrite loop_connect_f by assumption. apply bind_ok_id.
Qed.
Theorem bridge_decode_ConnectionComplete data off size : bytes_ok data ->
  gen_decode_ConnectionComplete data off size = dec_cc data off size.
Proof.
  intro Hd. unfold gen_decode_ConnectionComplete, dec_cc. rewrite bridge_decode_header_f.
  destruct (decode_header data off size) as [[d s]| | |]; cbn [bind]; try reflexivity.
  rewrite loop_cc_f by assumption. apply bind_ok_id.
Qed.
Theorem bridge_decode_ServiceNameLookup data off size : bytes_ok data ->
  gen_decode_ServiceNameLookup data off size = dec_snl data off size.
Proof.
  intro Hd. unfold gen_decode_ServiceNameLookup, dec_snl. rewrite bridge_decode_header_f.
  destruct (decode_header data off size) as [[d s]| | |]; cbn [bind]; try reflexivity.
  destruct (negb (d =? 1) || negb (s =? 1)); [reflexivity|]. rewrite loop_snl_f by assumption. apply bind_ok_id.
Qed.
Theorem bridge_decode_DataProtectionSetup data off size : bytes_ok data ->
  gen_decode_DataProtectionSetup data off size = dec_dps data off size.
Proof.
  intro Hd. unfold gen_decode_DataProtectionSetup, dec_dps. rewrite bridge_decode_header_f.
  destruct (decode_header data off size) as [[d s]| | |]; cbn [bind]; try reflexivity.
  destruct (negb (d =? 0) || negb (s =? 0)); [reflexivity|]. rewrite loop_dps_f by assumption. apply bind_ok_id.
Qed.
Theorem bridge_decode_UnnumberedInformation data off size : 0 <= off -> 0 <= off + size ->
  gen_decode_UnnumberedInformation data off size = dec_ui data off size.
Proof. intros. unfold gen_decode_UnnumberedInformation, dec_ui. rewrite pyslice_slice' by lia. reflexivity. Qed.
Theorem bridge_decode_Disconnect data off size : gen_decode_Disconnect data off size = dec_disc data off size.
Proof. reflexivity. Qed.
Theorem bridge_decode_DisconnectedMode data off size : gen_decode_DisconnectedMode data off size = dec_dm data off size.
Proof. reflexivity. Qed.
Theorem bridge_decode_FrameReject data off size : gen_decode_FrameReject data off size = dec_frmr data off size.
Proof.
  unfold gen_decode_FrameReject, dec_frmr. replace (off + 2 + 1) with (off + 3) by lia.
  replace (off + 2 + 2) with (off + 4) by lia. replace (off + 2 + 3) with (off + 5) by lia. reflexivity.
Qed.
Theorem bridge_decode_Information data off size : 0 <= off -> 0 <= off + size ->
  gen_decode_Information data off size = dec_info data off size.
Proof. intros. unfold gen_decode_Information, dec_info. rewrite pyslice_slice' by lia. reflexivity. Qed.
Theorem bridge_decode_ReceiveReady data off size : gen_decode_ReceiveReady data off size = dec_rr data off size.
Proof. reflexivity. Qed.
Theorem bridge_decode_ReceiveNotReady data off size : gen_decode_ReceiveNotReady data off size = dec_rnr data off size.
Proof. reflexivity. Qed.
Theorem bridge_decode_UnknownProtocolDataUnit data off size : 0 <= off -> 0 <= off + size ->
  gen_decode_UnknownProtocolDataUnit data off size = dec_unknown data off size.
Proof. intros. unfold gen_decode_UnknownProtocolDataUnit, dec_unknown. rewrite pyslice_slice' by lia. reflexivity. Qed.

(* ---------------------------------------------------------------- decode(): the dispatcher, for any AGF entry *)
Lemma decode_with_f agf agf' data off size : 0 <= off -> bytes_ok data ->
  (off + size <= len data -> 2 <= size -> agf data off size = agf' data off size) ->
  gen_decode_with agf data off size = decode_gen agf' data off size.
Proof.
  intros Ho Hd Hagf. unfold gen_decode_with, decode_gen.
  destruct (off + size >? len data) eqn:E1; [reflexivity|]. destruct (size <? 2) eqn:E2; [reflexivity|].
  destruct (rdc StructErr data off) as [a| | |]; cbn [bind]; try reflexivity.
  destruct (rdc StructErr data (off + 1)) as [b| | |]; cbn [bind]; try reflexivity. cbv zeta.
  set (pt := Z.land (Z.shiftr (a * 256 + b) 6) 15).
  destruct (pt =? 0); [apply bridge_decode_Symmetry|].
  destruct (pt =? 1); [apply bridge_decode_ParameterExchange, Hd|].
  destruct (pt =? 2); [apply Hagf; lia|].
  destruct (pt =? 3); [apply bridge_decode_UnnumberedInformation; lia|].
  destruct (pt =? 4); [apply bridge_decode_Connect, Hd|].
  destruct (pt =? 5); [apply bridge_decode_Disconnect|].
  destruct (pt =? 6); [apply bridge_decode_ConnectionComplete, Hd|].
  destruct (pt =? 7); [apply bridge_decode_DisconnectedMode|].
  destruct (pt =? 8); [apply bridge_decode_FrameReject|].
  destruct (pt =? 9); [apply bridge_decode_ServiceNameLookup, Hd|].
  destruct (pt =? 10); [apply bridge_decode_DataProtectionSetup, Hd|].
  destruct (pt =? 12); [apply bridge_decode_Information; lia|].
  destruct (pt =? 13); [apply bridge_decode_ReceiveReady|].
  destruct (pt =? 14); [apply bridge_decode_ReceiveNotReady|].
  apply bridge_decode_UnknownProtocolDataUnit; lia.
Qed.

(* ---------------------------------------------------------------- AggregatedFrame.decode *)
Lemma decode_sub_agf_hdr data moff n a b : moff + n <= len data -> 2 <= n ->
  rd data moff = Some a -> rd data (moff + 1) = Some b -> Z.land (Z.shiftr (a * 256 + b) 6) 15 = 2 ->
  decode_sub data moff n = Err DecodeError.
Proof.
  intros Hl Hn Ha Hb Hp. unfold decode_sub, decode_gen, rdc.
  replace (moff + n >? len data) with false by lia. replace (n <? 2) with false by lia.
  rewrite Ha, Hb. cbn [bind]. cbv zeta. rewrite Hp. reflexivity.
Qed.

(* [dec] is the decoder used for the members; it has to agree with decode_sub wherever the nested-AGF guard lets it be called *)
Definition member_dec_ok (dec : list Z -> Z -> Z -> res pdu) (data : list Z) : Prop :=
  forall moff n, 0 <= moff ->
    (n < 2 \/ exists a b, rd data moff = Some a /\ rd data (moff + 1) = Some b /\ Z.land (Z.shiftr (a * 256 + b) 6) 15 <> 2) ->
    dec data moff n = decode_sub data moff n.

Lemma loop_agf_f dec data : bytes_ok data -> member_dec_ok dec data ->
  forall fuel off size d s acc, 0 <= off -> off + size <= len data ->
  gen_loop_agf dec fuel data off size (Agf d s acc) = do l <- agf_loop fuel data off size acc; Ok (Agf d s l).
Proof.
  intros Hd Hdec. induction fuel as [|f IH]; intros off size d s acc Ho Hl; rewrite agf_loop_eq; cbn [gen_loop_agf];
    replace (negb (size >? 0)) with (size <=? 0) by lia; destruct (size <=? 0) eqn:E0; try reflexivity.
  destruct (size <? 2) eqn:E2; [reflexivity|]. unfold g_rd_err.
  destruct (rd data off) as [h|] eqn:Eh; [|reflexivity]. cbn [bind].
  destruct (rd data (off + 1)) as [l|] eqn:El; [|reflexivity]. cbn [bind]. cbv zeta.
  pose proof (rd_byte _ _ _ Hd Eh) as Bh. pose proof (rd_byte _ _ _ Hd El) as Bl. unfold byte_ok in Bh, Bl.
  set (n := h * 256 + l). assert (Hn : 0 <= n) by (unfold n; lia).
  destruct (n >? size - 2) eqn:E3; [reflexivity|].
  assert (Hmem : (do _ <- (if n >=? 2
                    then do m0_ <- rdc StructErr data (off + 2); do m1_ <- rdc StructErr data (off + 2 + 1);
                         (if Z.land (Z.shiftr (m0_ * 256 + m1_) 6) 15 =? 2 then Err DecodeError else Ok tt)
                    else Ok tt); dec data (off + 2) n) = decode_sub data (off + 2) n).
  { destruct (n >=? 2) eqn:E4.
    - unfold rdc. rewrite (rd_spec data (off + 2)) by lia. rewrite (rd_spec data (off + 2 + 1)) by lia. cbn [bind].
      set (a := nth (Z.to_nat (off + 2)) data 0). set (b := nth (Z.to_nat (off + 2 + 1)) data 0).
      destruct (Z.land (Z.shiftr (a * 256 + b) 6) 15 =? 2) eqn:E5; cbn [bind].
      + symmetry. apply (decode_sub_agf_hdr data (off + 2) n a b); try lia; [apply rd_spec; lia | apply rd_spec; lia].
      + apply Hdec; [lia|]. right. exists a, b. repeat split; [apply rd_spec; lia | apply rd_spec; lia | lia].
    - cbn [bind]. apply Hdec; [lia|]. left. lia. }
  rewrite <- Hmem.
  match goal with |- context [bind ?g0 (fun _ => dec data (off + 2) n)] => set (g := g0) end.
  destruct g as [[]| | |]; cbn [bind]; try reflexivity.
  destruct (dec data (off + 2) n) as [p| | |]; cbn [bind]; try reflexivity.
  apply IH; lia.
Qed.

Theorem bridge_decode_AggregatedFrame_with dec data off size : 0 <= off -> bytes_ok data -> off + size <= len data ->
  member_dec_ok dec data -> gen_decode_AggregatedFrame_with dec data off size = dec_agf data off size.
Proof.
  intros Ho Hd Hl Hdec. unfold gen_decode_AggregatedFrame_with, dec_agf. rewrite bridge_decode_header_f.
  destruct (decode_header data off size) as [[d s]| | |]; cbn [bind]; try reflexivity.
  destruct (negb (d =? 0) || negb (s =? 0)); [reflexivity|].
  rewrite (loop_agf_f dec data Hd Hdec) by lia.
  destruct (agf_loop (Z.to_nat (size - 2)) data (off + 2) (size - 2) []); reflexivity.
Qed.

(* ---------------------------------------------------------------- tying the recursion *)
Lemma decode_gen_slot agf1 agf2 data off size :
  (size < 2 \/ exists a b, rd data off = Some a /\ rd data (off + 1) = Some b /\ Z.land (Z.shiftr (a * 256 + b) 6) 15 <> 2) ->
  decode_gen agf1 data off size = decode_gen agf2 data off size.
Proof.
  intros [H|(a & b & Ha & Hb & Hp)]; unfold decode_gen, rdc.
  - destruct (off + size >? len data); [reflexivity|]. replace (size <? 2) with true by lia. reflexivity.
  - rewrite Ha, Hb. cbn [bind]. cbv zeta. replace (Z.land (Z.shiftr (a * 256 + b) 6) 15 =? 2) with false by lia. reflexivity.
Qed.

Lemma fuel_member_ok d data : bytes_ok data -> member_dec_ok (gen_decode_fuel (S d)) data.
Proof.
  intros Hd moff n Ho Hc. cbn [gen_decode_fuel].
  rewrite (decode_with_f _ (gen_decode_AggregatedFrame_with (gen_decode_fuel d)) data moff n Ho Hd (fun _ _ => eq_refl)).
  unfold decode_sub. apply decode_gen_slot, Hc.
Qed.

Theorem bridge_decode_fuel d data off size : 0 <= off -> bytes_ok data ->
  gen_decode_fuel (S (S d)) data off size = decode data off size.
Proof.
  intros Ho Hd. cbn [gen_decode_fuel]. unfold decode. apply decode_with_f; [exact Ho | exact Hd |].
  intros Hl Hs. apply bridge_decode_AggregatedFrame_with; try assumption. apply fuel_member_ok, Hd.
Qed.

(* the translated module-level decode() is the model's decode *)
Theorem bridge_decode data off size : 0 <= off -> bytes_ok data -> gen_decode data off size = decode data off size.
Proof. intros. unfold gen_decode. change gen_recursion_depth with (S (S 398)). apply bridge_decode_fuel; assumption. Qed.
Theorem bridge_decode_AggregatedFrame data off size : 0 <= off -> bytes_ok data -> off + size <= len data ->
  gen_decode_AggregatedFrame data off size = dec_agf data off size.
Proof.
  intros Ho Hd Hl. unfold gen_decode_AggregatedFrame. change (pred gen_recursion_depth) with (S 398).
  apply bridge_decode_AggregatedFrame_with; try assumption. apply fuel_member_ok, Hd.
Qed.

(* ---------------------------------------------------------------- encode of every class *)
Lemma efor_param {A} (f : A -> eres (list Z)) l : forall data,
  g_efor f l data = edo a <- econcat (emapM f l); EOk (data ++ a).
Proof.
  unfold econcat. induction l as [|x r IH]; intro data.
  - cbn. rewrite app_nil_r. reflexivity.
  - cbn [g_efor]. rewrite emapM_cons. destruct (f x) as [b| |]; cbn [ebind]; try reflexivity.
    rewrite IH. destruct (emapM f r) as [bs| |]; cbn [ebind concat]; try reflexivity. rewrite app_assoc. reflexivity.
Qed.
Lemma efor_agf encs : forall data,
  g_efor (fun e => edo l_ <- g_pack_raw [(2, len e)]; EOk (l_ ++ e)) encs data = edo b <- agf_body encs; EOk (data ++ b).
Proof.
  induction encs as [|e r IH]; intro data.
  - cbn. rewrite app_nil_r. reflexivity.
  - cbn [g_efor agf_body]. unfold g_pack_raw. cbn [g_packs Z.eqb Pos.eqb]. destruct (in_range 0 65535 (len e)); cbn [ebind]; [|reflexivity].
    rewrite IH. destruct (agf_body r); cbn [ebind]; try reflexivity. rewrite <- !app_assoc. reflexivity.
Qed.

Ltac enc_cases :=
  cbn [ebind];
  repeat (match goal with
          | |- context [ebind (param_encode ?t) _] => destruct (param_encode t)
          end; cbn [ebind]);
  cbn [app]; rewrite ?app_nil_r, <- ?app_assoc; try reflexivity.

Theorem bridge_encode : forall p, gen_encode p = encode p.
Proof.
  induction p as [d s ps IH | p Hp] using pdu_ind'.
  - (* AGF *)
    cbn [gen_encode encode]. destruct (negb (d =? 0) || negb (s =? 0)); [reflexivity|].
    rewrite bridge_encode_header_f. destruct (encode_header 2 d s); cbn [ebind]; try reflexivity.
    rewrite (emapM_ext gen_encode encode) by (rewrite Forall_forall in IH; exact IH).
    destruct (emapM encode ps); cbn [ebind]; try reflexivity. rewrite efor_agf.
    destruct (agf_body a0); reflexivity.
  - destruct p; try discriminate Hp; cbn [gen_encode encode];
      rewrite ?bridge_encode_header_f, ?bridge_encode_nheader_f.
    + (* SYMM *) destruct (negb (dsap =? 0) || negb (ssap =? 0)); [reflexivity|]. destruct (encode_header 0 dsap ssap); reflexivity.
    + (* PAX *) destruct (negb (dsap =? 0) || negb (ssap =? 0)); [reflexivity|].
      destruct (encode_header 1 dsap ssap); cbn [ebind]; try reflexivity.
      destruct version, miux, wks, lto, opt; cbn [g_is_some g_oint opt_tlv]; rewrite ?bridge_param_encode_f; enc_cases.
    + (* UI *) destruct (encode_header 3 dsap ssap); reflexivity.
    + (* CONNECT *) destruct (encode_header 4 dsap ssap); cbn [ebind]; try reflexivity.
      unfold g_true_int. replace (negb (miu =? 0) && (miu >? 128)) with (miu >? 128) by lia. cbn [andb].
      destruct (miu >? 128); destruct (negb (rw =? 1)); destruct sn as [[|x l]|]; cbn [g_true_obytes g_obytes optb_tlv];
        rewrite ?bridge_param_encode_f; enc_cases.
    + (* DISC *) destruct (encode_header 5 dsap ssap); cbn [ebind]; try reflexivity.
    + (* CC *) destruct (encode_header 6 dsap ssap); cbn [ebind]; try reflexivity.
      unfold g_true_int. replace (negb (miu =? 0) && (miu >? 128)) with (miu >? 128) by lia. cbn [andb].
      destruct (miu >? 128); destruct (negb (rw =? 1)); rewrite ?bridge_param_encode_f; enc_cases.
    + (* DM *) destruct (encode_header 7 dsap ssap); cbn [ebind]; try reflexivity.
      unfold g_pack_raw, rawB. cbn [g_packs Z.eqb Pos.eqb]. destruct (in_range 0 255 reason); reflexivity.
    + (* FRMR *) destruct (encode_header 8 dsap ssap); cbn [ebind]; try reflexivity.
      unfold g_pack_raw, rawB. cbn [g_packs Z.eqb Pos.eqb].
      destruct (in_range 0 255 (Z.lor (Z.shiftl flags 4) ptype)); destruct (in_range 0 255 (Z.lor (Z.shiftl ns 4) nr));
        destruct (in_range 0 255 (Z.lor (Z.shiftl vs 4) vr)); destruct (in_range 0 255 (Z.lor (Z.shiftl vsa 4) vra)); reflexivity.
    + (* SNL *) destruct (encode_header 9 dsap ssap); cbn [ebind]; try reflexivity.
      rewrite (efor_param (fun x_ => gen_param_encode (TSdreq (fst x_) (snd x_)))).
      rewrite (emapM_ext (fun x_ => gen_param_encode (TSdreq (fst x_) (snd x_))) (fun x => param_encode (TSdreq (fst x) (snd x))))
        by (intros; apply bridge_param_encode_f).
      destruct (econcat (emapM (fun x => param_encode (TSdreq (fst x) (snd x))) sdreq)); cbn [ebind]; try reflexivity.
      rewrite (efor_param (fun x_ => gen_param_encode (TSdres (fst x_) (snd x_)))).
      rewrite (emapM_ext (fun x_ => gen_param_encode (TSdres (fst x_) (snd x_))) (fun x => param_encode (TSdres (fst x) (snd x))))
        by (intros; apply bridge_param_encode_f).
      destruct (econcat (emapM (fun x => param_encode (TSdres (fst x) (snd x))) sdres)); cbn [ebind]; try reflexivity.
      rewrite <- app_assoc. reflexivity.
    + (* DPS *) destruct (negb (dsap =? 0) || negb (ssap =? 0)); [reflexivity|].
      destruct (encode_header 10 dsap ssap); cbn [ebind]; try reflexivity.
      destruct ecpk as [[|x l]|]; destruct rn as [[|y m]|]; cbn [g_true_obytes g_obytes optb_tlv]; rewrite ?bridge_param_encode_f; enc_cases.
    + (* I *) destruct (encode_nheader 12 dsap ssap ns nr); reflexivity.
    + (* RR *) destruct (encode_nheader 13 dsap ssap 0 nr); reflexivity.
    + (* RNR *) destruct (encode_nheader 14 dsap ssap 0 nr); reflexivity.
    + (* unknown *) destruct (encode_header ptype dsap ssap); reflexivity.
Qed.

(* per class (instances of bridge_encode) *)
Theorem bridge_encode_Symmetry d s : gen_encode (Symm d s) = encode (Symm d s). Proof. apply bridge_encode. Qed.
Theorem bridge_encode_ParameterExchange d s v m w l o : gen_encode (Pax d s v m w l o) = encode (Pax d s v m w l o). Proof. apply bridge_encode. Qed.
Theorem bridge_encode_AggregatedFrame d s ps : gen_encode (Agf d s ps) = encode (Agf d s ps). Proof. apply bridge_encode. Qed.
Theorem bridge_encode_UnnumberedInformation d s b : gen_encode (UI d s b) = encode (UI d s b). Proof. apply bridge_encode. Qed.
Theorem bridge_encode_Connect d s miu rw sn : gen_encode (Connect d s miu rw sn) = encode (Connect d s miu rw sn). Proof. apply bridge_encode. Qed.
Theorem bridge_encode_Disconnect d s : gen_encode (Disc d s) = encode (Disc d s). Proof. apply bridge_encode. Qed.
Theorem bridge_encode_ConnectionComplete d s miu rw : gen_encode (CC d s miu rw) = encode (CC d s miu rw). Proof. apply bridge_encode. Qed.
Theorem bridge_encode_DisconnectedMode d s r : gen_encode (DM d s r) = encode (DM d s r). Proof. apply bridge_encode. Qed.
Theorem bridge_encode_FrameReject d s a b c e f g h i : gen_encode (Frmr d s a b c e f g h i) = encode (Frmr d s a b c e f g h i). Proof. apply bridge_encode. Qed.
Theorem bridge_encode_ServiceNameLookup d s rq rs : gen_encode (Snl d s rq rs) = encode (Snl d s rq rs). Proof. apply bridge_encode. Qed.
Theorem bridge_encode_DataProtectionSetup d s e r : gen_encode (Dps d s e r) = encode (Dps d s e r). Proof. apply bridge_encode. Qed.
Theorem bridge_encode_Information d s ns nr b : gen_encode (Info d s ns nr b) = encode (Info d s ns nr b). Proof. apply bridge_encode. Qed.
Theorem bridge_encode_ReceiveReady d s nr : gen_encode (RR d s nr) = encode (RR d s nr). Proof. apply bridge_encode. Qed.
Theorem bridge_encode_ReceiveNotReady d s nr : gen_encode (RNR d s nr) = encode (RNR d s nr). Proof. apply bridge_encode. Qed.
Theorem bridge_encode_UnknownProtocolDataUnit pt d s b : gen_encode (Unknown pt d s b) = encode (Unknown pt d s b). Proof. apply bridge_encode. Qed.
