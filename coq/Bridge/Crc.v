(* Bridge: the kernel regenerated from /repo/src/nfc/clf/device.py equals the model
   function the C14 theorems are about. *)
From Coq Require Import ZArith List Bool Lia.
From NV Require Import Base.Bytes Base.PyPrims Base.Fold Model.Crc Gen.Crc.
Import ListNotations.
Open Scope Z_scope.

Lemma crc_steps_as_fold n : forall pos o r,
  crc_steps n pos o r = fold_left (fun r p => crc_bit r o p) (zrange pos (pos + Z.of_nat n)) r.
Proof.
  induction n as [|n IH]; intros pos o r.
  - rewrite zrange_nil by lia. reflexivity.
  - rewrite zrange_cons by lia. cbn [crc_steps fold_left]. rewrite IH. f_equal. f_equal. lia.
Qed.

Theorem bridge_calculate_crc data size reg :
  gen_calculate_crc data size reg = calculate_crc data size reg.
Proof.
  unfold gen_calculate_crc, calculate_crc, crc16.
  match goal with |- (let '(_, _) := fold_left ?f ?l ?i in _) = _ =>
    assert (H : snd (fold_left f l i) = fold_left crc_octet l reg) end.
  { apply (fold_left_rel (fun (st : Z * Z) r => snd st = r)); [|reflexivity].
    intros [b r] r' x Hr. cbn [snd] in Hr. subst r'.
    unfold crc_octet. rewrite crc_steps_as_fold. change (0 + Z.of_nat 8) with 8.
    match goal with |- snd (let '(_, _) := fold_left ?f ?l ?i in _) = _ =>
      assert (H : snd (fold_left f l i) = fold_left (fun r p => crc_bit r x p) l r) end.
    { apply (fold_left_rel (fun (st : Z * Z) r => snd st = r)); [|reflexivity].
      intros [b1 r1] r1' p Hr. cbn [snd] in Hr. subst r1'. unfold crc_bit.
      destruct (Z.land (Z.lxor r1 (Z.land (Z.shiftr x p) 1)) 1 =? 0); reflexivity. }
    destruct (fold_left _ (zrange 0 8) (0, r)) as [b1 r1]. exact H. }
  destruct (fold_left _ _ _) as [b r]. exact H.
Qed.

Theorem bridge_add_crc_a d : gen_add_crc_a d = add_crc_a d.
Proof. unfold gen_add_crc_a, add_crc_a. rewrite bridge_calculate_crc. reflexivity. Qed.
Theorem bridge_add_crc_b d : gen_add_crc_b d = add_crc_b d.
Proof. unfold gen_add_crc_b, add_crc_b. rewrite bridge_calculate_crc. reflexivity. Qed.

Lemma idx_nth l i : 0 <= i < len l -> idx l i = Result.Ok (nth (Z.to_nat i) l 0).
Proof.
  intros [H0 H1]. unfold idx. destruct (i <? 0) eqn:E; [apply Z.ltb_lt in E; lia|].
  destruct (nth_error l (Z.to_nat i)) eqn:En.
  - f_equal. symmetry. apply nth_error_nth with (d := 0) in En. exact En.
  - apply nth_error_None in En. unfold len in H1. lia.
Qed.
Lemma pyidx_neg l k : 0 < k <= len l -> pyidx l (Z.opp k) = nth (Z.to_nat (len l - k)) l 0.
Proof.
  intros [H0 H1]. unfold pyidx. destruct (- k <? 0) eqn:E; [|apply Z.ltb_ge in E; lia].
  destruct (- k + len l <? 0) eqn:E2; [apply Z.ltb_lt in E2; lia|]. f_equal. f_equal. lia.
Qed.

Lemma bridge_check_with d crc :
  2 <= len d ->
  Result.Ok (list_eqb [pyidx d (Z.opp 2); pyidx d (Z.opp 1)] [Z.land crc 255; Z.shiftr crc 8]) =
  Result.bind (idx d (len d - 2)) (fun a => Result.bind (idx d (len d - 1)) (fun b =>
     Result.Ok ((a =? Z.land crc 255) && (b =? Z.shiftr crc 8)))).
Proof.
  intros H. rewrite !idx_nth, !pyidx_neg by lia. cbn [Result.bind list_eqb].
  rewrite andb_true_r. reflexivity.
Qed.

Theorem bridge_check_crc_a d : 2 <= len d -> Result.Ok (gen_check_crc_a d) = check_crc_a d.
Proof.
  intro H. unfold gen_check_crc_a, check_crc_a, check_crc_with.
  rewrite bridge_calculate_crc. apply bridge_check_with; exact H.
Qed.
Theorem bridge_check_crc_b d : 2 <= len d -> Result.Ok (gen_check_crc_b d) = check_crc_b d.
Proof.
  intro H. unfold gen_check_crc_b, check_crc_b, check_crc_with.
  rewrite bridge_calculate_crc. apply bridge_check_with; exact H.
Qed.
