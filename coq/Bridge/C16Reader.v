(* C16 - static tie between the drivers and the tag layer.
   The retry loops of nfc.tag handle TimeoutError, TransmissionError and ProtocolError (Model/Retry.v, Props/C12.v).
   Here: for every driver, the READER side of ContactlessFrontend.exchange (Device.send_cmd_recv_rsp, the function
   called for a RemoteTarget) raises no other CommunicationError class - in particular not BrokenLinkError, which the
   documentation reserves for the card / target side ("the remote device has deactivated the RF field").
   Computed by ExnCheck on the driver skeletons of C13 (Gen/DriverSkel.v, regenerated on this run) at the entries
   of Gen/ReaderSkel.v. *)
From Coq Require Import ZArith List Bool String.
From NV Require Import Skel.ExnSyntax Skel.ExnCheck Gen.DriverSkel Gen.ReaderSkel.
Import ListNotations.
Open Scope Z_scope.
Open Scope string_scope.

(* what the tag layer turns into TagCommandError *)
Definition handled_by_tag_layer : list cls := [C_TimeoutError; C_TransmissionError; C_ProtocolError].
(* not communication errors: no device open (IOError(ENODEV), property C18 / C13) and the visible
   NotImplementedError stub of the PN531 Type 1 path (C13) *)
Definition device_errors : list cls := [C_IOError; C_NotImplementedError].
Definition reader_allowed : list cls := handled_by_tag_layer ++ device_errors.

Fixpoint program_of (ps : list (string * program)) (d : string) : option program :=
  match ps with
  | [] => None
  | (n, p) :: t => if String.eqb n d then Some p else program_of t d
  end.

Definition reader_okb (extra : list cls) (e : string * string) : bool :=
  match program_of driver_programs (fst e) with
  | Some P => match lookup P (snd e) with Some _ => closedb P (snd e) (reader_allowed ++ extra) | None => false end
  | None => false
  end.

Definition is_udp (e : string * string) : bool := String.eqb (fst e) "udp".
Definition hardware_readers : list (string * string) := filter (fun e => negb (is_udp e)) reader_entries.
Definition udp_readers : list (string * string) := filter is_udp reader_entries.

Lemma hardware_readers_ok : forallb (reader_okb []) hardware_readers = true.
Proof. vm_compute. reflexivity. Qed.

(* open finding (findings/C16.json): the UDP test driver shares _recv_data between both directions, an "RFOFF"
   datagram makes the reader side raise BrokenLinkError *)
Lemma udp_reader_raises_brokenlink :
  forallb (reader_okb [C_BrokenLinkError]) udp_readers = true /\ forallb (reader_okb []) udp_readers = false.
Proof. vm_compute. split; reflexivity. Qed.

Lemma readers_listed : (8 <=? List.length hardware_readers)%nat && (1 <=? List.length udp_readers)%nat = true.
Proof. vm_compute. reflexivity. Qed.

Definition reader_side_stmt (entries : list (string * string)) (allowed : list cls) : Prop :=
  forall d k, In (d, k) entries -> exists P, program_of driver_programs d = Some P /\
  forall c, can_escape P k c -> In c allowed.

Lemma lift extra entries : forallb (reader_okb extra) entries = true -> reader_side_stmt entries (reader_allowed ++ extra).
Proof.
  intros H d k Hin. rewrite forallb_forall in H. specialize (H _ Hin). unfold reader_okb in H. cbn [fst snd] in H.
  destruct (program_of driver_programs d) as [P|]; [|discriminate]. exists P. split; [reflexivity|].
  destruct (lookup P k); [|discriminate]. intros c Hc. exact (exncheck_sound _ _ _ H c Hc).
Qed.

Lemma reader_side_lemma : reader_side_stmt hardware_readers reader_allowed.
Proof. rewrite <- (app_nil_r reader_allowed). apply lift, hardware_readers_ok. Qed.

Lemma udp_reader_side_lemma : reader_side_stmt udp_readers (reader_allowed ++ [C_BrokenLinkError]).
Proof. apply lift, udp_reader_raises_brokenlink. Qed.
