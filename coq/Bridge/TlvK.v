(* The kernels regenerated from src/nfc/tag/tt1.py and tt2.py on this run (Gen/TlvK.v) are the
   functions the Type 1 / Type 2 models use. *)
From Coq Require Import ZArith List Bool Lia.
From NV Require Import Base.Result Base.Bytes Base.PyPrims Model.TlvMem Gen.TlvK.
Import ListNotations.
Open Scope Z_scope.

Lemma pow2_shift n : 0 <= n -> Z.shiftl 1 n = 2 ^ n.
Proof. intro H. rewrite Z.shiftl_1_l. reflexivity. Qed.
Lemma land15_nonneg x : 0 <= Z.land x 15.
Proof. apply Z.land_nonneg. right. lia. Qed.

(* get_lock_byte_range / get_rsvd_byte_range on a value with at least three bytes d0 d1 d2 *)
Lemma bridge_t2_lock d0 d1 d2 rest :
  (gen_t2_lock_from (d0 :: d1 :: d2 :: rest), gen_t2_lock_to (d0 :: d1 :: d2 :: rest)) = lock_byte_range d0 d1 d2.
Proof. unfold gen_t2_lock_from, gen_t2_lock_to, lock_byte_range. cbn [pyidx Z.ltb Z.compare len length Z.to_nat nth].
  change (pyidx (d0 :: d1 :: d2 :: rest) 0) with d0. change (pyidx (d0 :: d1 :: d2 :: rest) 1) with d1.
  change (pyidx (d0 :: d1 :: d2 :: rest) 2) with d2.
  rewrite pow2_shift by apply land15_nonneg. rewrite Z.gtb_ltb. reflexivity. Qed.
Lemma bridge_t2_rsvd d0 d1 d2 rest :
  (gen_t2_rsvd_from (d0 :: d1 :: d2 :: rest), gen_t2_rsvd_to (d0 :: d1 :: d2 :: rest)) = rsvd_byte_range d0 d1 d2.
Proof. unfold gen_t2_rsvd_from, gen_t2_rsvd_to, rsvd_byte_range.
  change (pyidx (d0 :: d1 :: d2 :: rest) 0) with d0. change (pyidx (d0 :: d1 :: d2 :: rest) 1) with d1.
  change (pyidx (d0 :: d1 :: d2 :: rest) 2) with d2.
  rewrite pow2_shift by apply land15_nonneg. rewrite Z.gtb_ltb. reflexivity. Qed.
Lemma bridge_t1_lock d0 d1 d2 rest :
  (gen_t1_lock_from (d0 :: d1 :: d2 :: rest), gen_t1_lock_to (d0 :: d1 :: d2 :: rest)) = lock_byte_range d0 d1 d2.
Proof. exact (bridge_t2_lock d0 d1 d2 rest). Qed.
Lemma bridge_t1_rsvd d0 d1 d2 rest :
  (gen_t1_rsvd_from (d0 :: d1 :: d2 :: rest), gen_t1_rsvd_to (d0 :: d1 :: d2 :: rest)) = rsvd_byte_range d0 d1 d2.
Proof. exact (bridge_t2_rsvd d0 d1 d2 rest). Qed.

(* the model's ctl_range is the generated pair, clipped like slice.indices() *)
Lemma bridge_ctl_range_lock clip v r : ctl_range lock_byte_range clip v = Ok r ->
  r = clip_range clip (gen_t2_lock_from v) (gen_t2_lock_to v).
Proof. destruct v as [|d0 [|d1 [|d2 rest]]]; try discriminate. unfold ctl_range. cbv zeta. intro H.
  assert (E : r = clip_range clip (fst (lock_byte_range d0 d1 d2)) (snd (lock_byte_range d0 d1 d2))) by congruence.
  rewrite E, <- (bridge_t2_lock d0 d1 d2 rest). reflexivity. Qed.
Lemma bridge_ctl_range_rsvd clip v r : ctl_range rsvd_byte_range clip v = Ok r ->
  r = clip_range clip (gen_t2_rsvd_from v) (gen_t2_rsvd_to v).
Proof. destruct v as [|d0 [|d1 [|d2 rest]]]; try discriminate. unfold ctl_range. cbv zeta. intro H.
  assert (E : r = clip_range clip (fst (rsvd_byte_range d0 d1 d2)) (snd (rsvd_byte_range d0 d1 d2))) by congruence.
  rewrite E, <- (bridge_t2_rsvd d0 d1 d2 rest). reflexivity. Qed.

(* get_capacity: END of the counted range and the adjustment; count_free stands for
   len(set(range(offset, END)) - skip_bytes) *)
Lemma bridge_t2_capacity raw off skip :
  get_capacity (gen_t2_cap_end raw) off skip = gen_t2_cap_adjust (count_free skip off (Z.to_nat (gen_t2_cap_end raw - off))).
Proof. unfold get_capacity, gen_t2_cap_adjust. rewrite Z.gtb_ltb. reflexivity. Qed.
Lemma bridge_t2_cap_end b14 : gen_t2_cap_end (b14 * 8) = b14 * 8 + 16.
Proof. reflexivity. Qed.
Lemma bridge_t1_capacity size off skip :
  get_capacity (gen_t1_cap_end size) off skip = gen_t1_cap_adjust (count_free skip off (Z.to_nat (gen_t1_cap_end size - off))).
Proof. unfold get_capacity, gen_t1_cap_adjust, gen_t1_cap_end. rewrite Z.gtb_ltb. reflexivity. Qed.
