(* Bridge: the frame construction statements cut out of pn53x.Chipset.command, acr122.Chipset.command +
   ccid_xfr_block and rcs380.Frame.__init__ on this run equal the model functions of Model/Frames.v. *)
From Coq Require Import ZArith List Bool Lia ZifyBool.
From NV Require Import Base.Result Base.Bytes Base.PyPrims Model.Frames Gen.FramesK.
Import ListNotations.
Open Scope Z_scope.

Lemma pyslice_suffix {A} (p d : list A) : pyslice (p ++ d) (len p) (len (p ++ d)) = d.
Proof.
  unfold pyslice, norm_idx. pose proof (len_nonneg p) as Hp. pose proof (len_nonneg d) as Hd.
  rewrite len_app. replace (len p <? 0) with false by lia. replace (len p + len d <? 0) with false by lia.
  rewrite Z.min_l, Z.min_l by lia. replace (len p + len d - len p) with (len d) by lia.
  unfold len. rewrite !Nat2Z.id. rewrite skipn_app, skipn_all, Nat.sub_diag. cbn [skipn app].
  apply firstn_all.
Qed.

Lemma pyslice_neg_suffix {A} (p d : list A) : 0 < len d -> pyslice (p ++ d) (- len d) (len (p ++ d)) = d.
Proof.
  intro H. unfold pyslice, norm_idx. pose proof (len_nonneg p) as Hp.
  rewrite len_app. replace (- len d <? 0) with true by lia. replace (len p + len d <? 0) with false by lia.
  rewrite Z.max_r, Z.min_l by lia. replace (- len d + (len p + len d)) with (len p) by lia.
  replace (len p + len d - len p) with (len d) by lia.
  unfold len. rewrite !Nat2Z.id. rewrite skipn_app, skipn_all, Nat.sub_diag. cbn [skipn app].
  apply firstn_all.
Qed.

Theorem bridge_pn53x_build cmd data : gen_pn53x_build cmd data = pn53x_build cmd data.
Proof.
  unfold gen_pn53x_build, pn53x_build, pn53x_head, SOF.
  destruct (len data <? 254) eqn:E.
  - cbn [app]. rewrite <- ?app_assoc. cbn [app]. reflexivity.
  - set (hi := (len data + 2) / 256). set (lo := (len data + 2) mod 256).
    assert (Hs : sum (pyslice (([0; 0; 255] ++ [255; 255]) ++ pack_be16 (len data + 2)) (- (2))
                      (len (([0; 0; 255] ++ [255; 255]) ++ pack_be16 (len data + 2)))) = hi + lo).
    { unfold pack_be16. fold hi lo. change (- (2)) with (- len [hi; lo]).
      rewrite pyslice_neg_suffix by (cbn; lia). rewrite !sum_cons, sum_nil. lia. }
    cbv zeta. rewrite Hs. unfold pack_be16. fold hi lo. cbn [app]. rewrite <- ?app_assoc. cbn [app]. reflexivity.
Qed.

Theorem bridge_acr122_build cmd data f : acr122_build cmd data = Ok f -> gen_acr122_build cmd data = f.
Proof.
  unfold acr122_build, gen_acr122_build, ccid_build, le32, pack_u8, pack_le32.
  destruct (len ([212; cmd] ++ data) >? 255); [discriminate|]. intro H. injection H as <-.
  cbn [app]. reflexivity.
Qed.

Theorem bridge_rcs380_build data : gen_rcs380_build data = rcs380_build data.
Proof.
  unfold gen_rcs380_build, rcs380_build, pack_le16, pack_u8. cbv zeta.
  set (n := len data). set (l := [n mod 256; n / 256]).
  assert (H1 : pyslice ([0; 0; 255; 255; 255] ++ l) 5 7 = l).
  { change 5 with (len [0; 0; 255; 255; 255]). change 7 with (len ([0; 0; 255; 255; 255] ++ l)).
    apply pyslice_suffix. }
  rewrite H1.
  set (p8 := ([0; 0; 255; 255; 255] ++ l) ++ [(256 - sum l) mod 256]).
  assert (H2 : pyslice (p8 ++ data) 8 (len (p8 ++ data)) = data).
  { change 8 with (len p8). apply pyslice_suffix. }
  rewrite H2. unfold p8. rewrite <- ?app_assoc. cbn [app]. reflexivity.
Qed.
