(* C07: the SNEP / handover fragment handling never lets an exception escape the serving thread, whatever the
   fragments are and whatever ndeflib makes of the octets (records, DecodeError or ValueError). *)
From Coq Require Import ZArith List Bool Lia ZifyBool.
From NV Require Import Base.Result Base.Bytes Base.PyPrims Model.SnepHdr.
Import ListNotations.
Open Scope Z_scope.

Section Snep.
Variable nd : Z -> list Z -> ndef_out.

Lemma idx_ok (l : list Z) i : 0 <= i < len l -> exists v, idx l i = Ok v.
Proof.
  intro H. unfold idx. replace (i <? 0) with false by lia.
  destruct (nth_error l (Z.to_nat i)) eqn:E; [eexists; reflexivity|].
  apply nth_error_None in E. unfold len in H. lia.
Qed.

Lemma process_ok d : 6 <= len d -> exists r, process_snep_request nd false d = Ok r /\ len r = 6.
Proof.
  intro H. unfold process_snep_request. destruct (idx_ok d 1 ltac:(lia)) as [r ->]. cbn [bind].
  destruct ((r =? 1) && (10 <=? len d)).
  - destruct (nd 0 (drop 10 d)); eexists; split; reflexivity.
  - destruct (r =? 2); [destruct (nd 0 (drop 6 d))|]; eexists; split; reflexivity.
Qed.

Definition snep_inv (st : snep_state) : Prop := match st with Idle => True | Collect data _ => 6 <= len data end.

(* every arrival in every reachable state: the thread sends responses and goes on, or returns; no exception *)
Theorem snep_step_total max_len st a : snep_inv st ->
  exists sends nx, snep_step nd false max_len st a = Ok (sends, nx) /\
                   match nx with Continue st' => snep_inv st' | Return => True end.
Proof.
  intro Hi. destruct st as [|data need]; destruct a as [d| |]; cbn [snep_step].
  - destruct (len d =? 0); [do 2 eexists; split; [reflexivity | exact I]|].
    destruct (len d <? 6) eqn:E6; [do 2 eexists; split; [reflexivity | exact I]|].
    destruct (idx_ok d 0 ltac:(lia)) as [v ->]. cbn [bind].
    destruct (Z.shiftr v 4 >? 1); [do 2 eexists; split; [reflexivity | exact I]|].
    destruct (be32 (slice d 2 6) >? max_len); [do 2 eexists; split; [reflexivity | exact I]|].
    destruct (len d - 6 <? be32 (slice d 2 6)); [do 2 eexists; split; [reflexivity | cbn; lia]|].
    destruct (process_ok d ltac:(lia)) as (r & -> & _). cbn [bind]. do 2 eexists; split; [reflexivity | exact I].
  - do 2 eexists; split; [reflexivity | exact I].
  - do 2 eexists; split; [reflexivity | exact I].
  - cbn [snep_inv] in Hi. pose proof (len_nonneg d).
    destruct (len (data ++ d) - 6 <? need); [do 2 eexists; split; [reflexivity | cbn; rewrite len_app; lia]|].
    destruct (process_ok (data ++ d) ltac:(rewrite len_app; lia)) as (r & -> & _). cbn [bind].
    do 2 eexists; split; [reflexivity | exact I].
  - cbn [snep_inv] in Hi. destruct (process_ok data Hi) as (r & -> & _). cbn [bind]. do 2 eexists; split; [reflexivity | exact I].
  - do 2 eexists; split; [reflexivity | exact Hi].
Qed.

(* the whole life of a serving thread over any sequence of arrivals: it returns or waits for the peer *)
Theorem snep_header_total max_len : forall script st, snep_inv st ->
  exists sends o, snep_serve nd false max_len st script = Ok (sends, o).
Proof.
  induction script as [|a r IH]; intros st Hi; cbn [snep_serve]; [do 2 eexists; reflexivity|].
  destruct (snep_step_total max_len st a Hi) as (s1 & nx & -> & Hn). cbn [bind].
  destruct nx as [st'|]; [|do 2 eexists; reflexivity].
  destruct (IH st' Hn) as (s2 & o & ->). cbn [bind]. do 2 eexists; reflexivity.
Qed.
(* every response the server sends is a 6-byte SNEP header *)
Theorem snep_sends_headers max_len st a sends nx : snep_inv st ->
  snep_step nd false max_len st a = Ok (sends, nx) -> Forall (fun m => len m = 6) sends.
Proof.
  intros Hi. destruct st as [|data need]; destruct a as [d| |]; cbn [snep_step]; intro H.
  - destruct (len d =? 0); [inversion H; constructor|].
    destruct (len d <? 6) eqn:E6; [inversion H; constructor|].
    destruct (idx_ok d 0 ltac:(lia)) as [v Hv]. rewrite Hv in H. cbn [bind] in H.
    destruct (Z.shiftr v 4 >? 1); [inversion H; repeat constructor|].
    destruct (be32 (slice d 2 6) >? max_len); [inversion H; repeat constructor|].
    destruct (len d - 6 <? be32 (slice d 2 6)); [inversion H; repeat constructor|].
    destruct (process_ok d ltac:(lia)) as (r & Hr & Hl). rewrite Hr in H. cbn [bind] in H. inversion H; subst. repeat constructor. exact Hl.
  - inversion H; constructor.
  - inversion H; constructor.
  - cbn [snep_inv] in Hi. pose proof (len_nonneg d).
    destruct (len (data ++ d) - 6 <? need); [inversion H; constructor|].
    destruct (process_ok (data ++ d) ltac:(rewrite len_app; lia)) as (r & Hr & Hl). rewrite Hr in H. cbn [bind] in H.
    inversion H; subst. repeat constructor. exact Hl.
  - cbn [snep_inv] in Hi. destruct (process_ok data Hi) as (r & Hr & _). rewrite Hr in H. cbn [bind] in H. inversion H; constructor.
  - inversion H; constructor.
Qed.

Theorem snep_client_total acceptable st a : exists sends nx r, client_step acceptable st a = Ok (sends, nx, r).
Proof.
  destruct st; destruct a; cbn [client_step]; repeat match goal with |- context [if ?c then _ else _] => destruct c end;
    do 3 eexists; reflexivity.
Qed.

Variables (hs : list Z) (send_miu : Z) (reset : bool).

Theorem handover_step_total request a : exists sends nx, ho_step nd false hs send_miu reset request a = Ok (sends, nx).
Proof.
  destruct a; cbn [ho_step]; try (do 2 eexists; reflexivity).
  destruct (len (request ++ d) =? 0); [do 2 eexists; reflexivity|].
  destruct (nd 1 (request ++ d)); try (do 2 eexists; reflexivity).
  unfold ho_process. destruct (nd 2 (request ++ d)); cbn [bind]; do 2 eexists; reflexivity.
Qed.
Theorem handover_serve_total : forall script request, exists sends o, ho_serve nd false hs send_miu reset request script = Ok (sends, o).
Proof.
  induction script as [|a r IH]; intro request; cbn [ho_serve]; [do 2 eexists; reflexivity|].
  destruct (handover_step_total request a) as (s1 & nx & ->). cbn [bind].
  destruct nx as [q|]; [|do 2 eexists; reflexivity].
  destruct (IH q) as (s2 & o & ->). cbn [bind]. do 2 eexists; reflexivity.
Qed.
Theorem handover_client_total octets a : exists nx r, hc_step nd false octets a = Ok (nx, r).
Proof. destruct a; cbn [hc_step]; try (do 2 eexists; reflexivity). destruct (nd 1 (octets ++ d)); do 2 eexists; reflexivity. Qed.

End Snep.

(* the code as it was: a PUT whose NDEF record has a non-ASCII TYPE (check corpus: 10 02 00000004 d2 01 00 80) *)
Definition nd_value_error (_ : Z) (_ : list Z) : ndef_out := NdValueError.
Lemma orig_snep_put_bad_type :
  snep_serve nd_value_error true 1048576 Idle [Frag [16; 2; 0; 0; 0; 4; 210; 1; 0; 128]; Closed] = Crash ValueErr.
Proof. vm_compute. reflexivity. Qed.
Lemma orig_handover_bad_type : ho_serve nd_value_error true [209;2;1;72;115;18] 128 false [] [Frag [210; 1; 0; 128]; Closed] = Crash ValueErr.
Proof. vm_compute. reflexivity. Qed.
Lemma fixed_snep_put_bad_type :
  snep_serve nd_value_error false 1048576 Idle [Frag [16; 2; 0; 0; 0; 4; 210; 1; 0; 128]; Closed] = Ok ([[16; 194; 0; 0; 0; 0]], Ended).
Proof. vm_compute. reflexivity. Qed.
