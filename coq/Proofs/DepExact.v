(* The ideal trajectory of the Target during one exchange: explicit results of accepting
   the initiator's information / acknowledge PDUs (chaining in both directions, packet
   numbers modulo 4). *)
From Coq Require Import ZArith List Bool Lia ZifyBool.
From NV Require Import Base.Result Base.Bytes Model.Dep Proofs.DepCodec Proofs.DepTarget.
Import ListNotations.
Open Scope Z_scope.
Ltac Zify.zify_post_hook ::= Z.to_euclidean_division_equations.

Lemma len_drop_take {A} n (l : list A) : 0 <= n -> take n l ++ drop n l = l.
Proof. intro. unfold take, drop. apply firstn_skipn. Qed.
Lemma drop_nil_iff {A} n (l : list A) : 0 <= n -> (drop n l = [] <-> len l <= n).
Proof.
  intro Hn. unfold drop, len. split.
  - intro H. pose proof (skipn_length (Z.to_nat n) l) as E. rewrite H in E. cbn in E. lia.
  - intro H. apply skipn_all2. lia.
Qed.
Lemma len_drop {A} n (l : list A) : 0 <= n -> len (drop n l) = Z.max 0 (len l - n).
Proof. intro. unfold drop, len. rewrite skipn_length. lia. Qed.
Lemma len_pos_nonempty {A} (l : list A) : l <> [] <-> 0 < len l.
Proof. destruct l; unfold len; cbn; split; intro; try congruence; try lia. Qed.
Lemma nonempty_true {A} (l : list A) : nonempty l = true <-> l <> [].
Proof. destruct l; cbn; split; congruence. Qed.

Section Ideal.
Variable tc : tcfg.
Hypothesis Hmiu : 1 <= tc_miu tc /\ tc_miu tc + 3 + b2z (is_some (tc_did tc)) + b2z (is_some (tc_nad tc)) <= 254.

Definition ack (q : Z) : deppdu := mkdep F_ACK q (tc_did tc) (tc_nad tc) [].
Definition inf (q : Z) (sd : list Z) : deppdu :=
  mkdep (if tc_miu tc <? len sd then F_MORE else F_INF) q (tc_did tc) (tc_nad tc) (take (tc_miu tc) sd).

(* the target waits for the next information PDU of a (possibly chained) payload; acc is what it has
   accumulated, q the packet number it will accept *)
Definition Ready (t : tgt) (q : Z) (acc : list Z) : Prop :=
  Tinv tc t /\ 0 <= q <= 3 /\
  ((t_pos t = TListen /\ q = 0 /\ acc = [] /\ t_pni t = None) \/
   (exists sd pt, t_pos t = TSend sd /\ len sd <= tc_miu tc /\ t_pni t = Some pt /\ q = (pt + 1) mod 4 /\ acc = []) \/
   (exists pt, t_pos t = TRecv acc /\ t_pni t = Some pt /\ q = (pt + 1) mod 4)).

(* the target has the first chunk of sd on the air with packet number q *)
Definition Sending (t : tgt) (q : Z) (sd : list Z) : Prop :=
  Tinv tc t /\ t_pos t = TSend sd /\ t_pni t = Some q /\ t_res t = Some (inf q sd) /\ sd <> [].

Definition act_after (t : tgt) : bool := match t_pos t with TListen => true | _ => t_act t end.

Lemma ready_facts t q acc : Ready t q acc ->
  Tinv tc t /\ t_pos t <> TStop /\ t_pni t <> Some q /\ (t_pos t = TListen \/ t_pos t = TFirst -> q = 0).
Proof.
  intros (HI & Hq & Hc). split; [exact HI|].
  destruct Hc as [(Hp & -> & _ & Hn)|[(sd & pt & Hp & _ & Hn & -> & _)|(pt & Hp & Hn & ->)]].
  - rewrite Hp, Hn. split; [discriminate|]. split; [discriminate|]. intros _. reflexivity.
  - destruct HI as [HIp _]. specialize (HIp pt Hn). rewrite Hp, Hn. split; [discriminate|].
    split; [intro E; injection E as E; lia|]. intros [E|E]; discriminate.
  - destruct HI as [HIp _]. specialize (HIp pt Hn). rewrite Hp, Hn. split; [discriminate|].
    split; [intro E; injection E as E; lia|]. intros [E|E]; discriminate.
Qed.

Lemma ack_ok q : 0 <= q <= 3 -> resp_ok tc (ack q).
Proof. intro. apply resp_ok_mk; [unfold F_ACK; lia | assumption | change (len (@nil Z)) with 0; lia]. Qed.
Lemma inf_ok q sd : 0 <= q <= 3 -> resp_ok tc (inf q sd).
Proof. intro. apply resp_ok_mk; [destruct (tc_miu tc <? len sd); unfold F_MORE, F_INF; lia | assumption | apply len_take_le; lia]. Qed.

(* a "more information" PDU with the expected packet number: accumulate and acknowledge *)
Lemma ready_more t q acc d : Ready t q acc -> fmt d = F_MORE -> pni d = q ->
  let t' := mktgt (Some q) (TRecv (acc ++ data d)) (Some (ack q)) (t_app t) (t_out t) (t_rtx t) (act_after t) in
  t_accept tc t d = (t', Some (PDepRes (ack q))) /\ Ready t' ((q + 1) mod 4) (acc ++ data d).
Proof.
  intros (HI & Hq & Hc) Hf Hp. cbv zeta.
  assert (HR : forall a, Ready (mktgt (Some q) (TRecv (acc ++ data d)) (Some (ack q)) (t_app t) (t_out t) (t_rtx t) a) ((q + 1) mod 4) (acc ++ data d)).
  { intro a. split; [|split; [lia|]].
    - split; cbn; [intros p E; injection E as <-; lia | intros r E; injection E as <-; apply ack_ok, Hq].
    - right; right. exists q. cbn. auto. }
  unfold t_accept, act_after.
  destruct Hc as [(Hpos & -> & -> & Hn)|[(sd & pt & Hpos & Hl & Hn & -> & ->)|(pt & Hpos & Hn & ->)]]; rewrite Hpos.
  - unfold t_recv_chain. rewrite Hf. change (F_MORE =? F_MORE) with true. cbn [t_pni t_emit].
    split; [reflexivity | apply HR].
  - replace (tc_miu tc <? len sd) with false by lia. cbn [andb]. rewrite Hn, Hp.
    rewrite Z.eqb_refl. cbn [negb].
    replace (drop (tc_miu tc) sd) with (@nil Z) by (symmetry; apply drop_nil_iff; lia).
    unfold t_recv_chain, t_set_pni. rewrite Hf. change (F_MORE =? F_MORE) with true. cbn [t_pni t_emit t_pos t_res t_app t_out t_rtx t_act].
    split; [reflexivity | apply HR].
  - rewrite Hn, Hp. rewrite Z.eqb_refl. cbn [negb].
    unfold t_recv_chain, t_set_pni. rewrite Hf. change (F_MORE =? F_MORE) with true. cbn [t_pni t_emit t_pos t_res t_app t_out t_rtx t_act].
    split; [reflexivity | apply HR].
Qed.

(* the last information PDU: the payload goes to the application, which answers with resp *)
Lemma ready_last t q acc d resp rest : Ready t q acc -> fmt d = F_INF -> pni d = q ->
  t_app t = ([], resp) :: rest -> resp <> [] ->
  let t' := mktgt (Some q) (TSend resp) (Some (inf q resp)) rest (t_out t ++ [TOk (acc ++ data d)]) (t_rtx t) (act_after t) in
  t_accept tc t d = (t', Some (PDepRes (inf q resp))) /\ Sending t' q resp.
Proof.
  intros (HI & Hq & Hc) Hf Hp Happ Hne. cbv zeta.
  assert (HS : forall a, Sending (mktgt (Some q) (TSend resp) (Some (inf q resp)) rest (t_out t ++ [TOk (acc ++ data d)]) (t_rtx t) a) q resp).
  { intro a. split; [|cbn; auto].
    split; cbn; [intros p E; injection E as <-; lia | intros r E; injection E as <-; apply inf_ok, Hq]. }
  assert (Hstart : forall a pos res0,
     t_app_step tc (mktgt (Some q) pos res0 (t_app t) (t_out t) (t_rtx t) a) (acc ++ data d) =
     (mktgt (Some q) (TSend resp) (Some (inf q resp)) rest (t_out t ++ [TOk (acc ++ data d)]) (t_rtx t) a, Some (PDepRes (inf q resp)))).
  { intros a pos res0. unfold t_app_step, t_app_continue. cbn [t_app t_pni t_pos t_res t_out t_rtx t_act]. rewrite Happ.
    unfold t_start_send. destruct resp as [|b resp']; [congruence|].
    cbn [t_pni t_emit t_pos t_res t_app t_out t_rtx t_act]. reflexivity. }
  unfold t_accept, act_after.
  destruct Hc as [(Hpos & -> & -> & Hn)|[(sd & pt & Hpos & Hl & Hn & -> & ->)|(pt & Hpos & Hn & ->)]]; rewrite Hpos.
  - unfold t_recv_chain. rewrite Hf. change (F_INF =? F_MORE) with false. cbv iota.
    rewrite Hstart. split; [reflexivity | apply HS].
  - replace (tc_miu tc <? len sd) with false by lia. cbn [andb]. rewrite Hn, Hp.
    rewrite Z.eqb_refl. cbn [negb].
    replace (drop (tc_miu tc) sd) with (@nil Z) by (symmetry; apply drop_nil_iff; lia).
    unfold t_recv_chain, t_set_pni. rewrite Hf. change (F_INF =? F_MORE) with false. cbv iota.
    rewrite Hstart. split; [reflexivity | apply HS].
  - rewrite Hn, Hp. rewrite Z.eqb_refl. cbn [negb].
    unfold t_recv_chain, t_set_pni. rewrite Hf. change (F_INF =? F_MORE) with false. cbv iota.
    rewrite Hstart. split; [reflexivity | apply HS].
Qed.

(* an acknowledge while the target is chaining its response: next chunk *)
Lemma sending_ack t q sd d : Sending t q sd -> tc_miu tc < len sd -> fmt d = F_ACK -> pni d = (q + 1) mod 4 -> 0 <= q <= 3 ->
  let q' := (q + 1) mod 4 in
  let t' := mktgt (Some q') (TSend (drop (tc_miu tc) sd)) (Some (inf q' (drop (tc_miu tc) sd))) (t_app t) (t_out t) (t_rtx t) (t_act t) in
  t_accept tc t d = (t', Some (PDepRes (inf q' (drop (tc_miu tc) sd)))) /\ Sending t' q' (drop (tc_miu tc) sd).
Proof.
  intros (HI & Hpos & Hn & Hr & Hne) Hl Hf Hp Hq. cbv zeta.
  assert (Hd : drop (tc_miu tc) sd <> []).
  { intro E. apply drop_nil_iff in E; lia. }
  unfold t_accept. rewrite Hpos. replace (tc_miu tc <? len sd) with true by lia. rewrite Hf.
  change (F_ACK =? F_ACK) with true. cbn [negb andb]. rewrite Hn, Hp, Z.eqb_refl. cbn [negb].
  destruct (drop (tc_miu tc) sd) as [|b sd'] eqn:Ed; [congruence|].
  unfold t_emit, t_set_pni. cbn [t_pni t_pos t_res t_app t_out t_rtx t_act]. split; [reflexivity|].
  split; [|cbn; repeat split; auto].
  split; cbn; [intros p E; injection E as <-; lia | intros r E; injection E as <-; apply inf_ok; lia].
Qed.

(* after its last chunk the target is ready for the next payload *)
Lemma sending_ready t q sd : Sending t q sd -> len sd <= tc_miu tc -> 0 <= q <= 3 -> Ready t ((q + 1) mod 4) [].
Proof.
  intros (HI & Hpos & Hn & Hr & Hne) Hl Hq. split; [exact HI|]. split; [lia|].
  right; left. exists sd, q. auto.
Qed.

Lemma ready_init app : Ready (tgt_init app) 0 [].
Proof.
  split; [split; cbn; intros; discriminate|]. split; [lia|]. left. cbn. auto.
Qed.
End Ideal.
