From Coq Require Import ZArith List Bool Lia ZifyBool.
From NV Require Import Base.Result Base.Bytes Base.PyPrims Model.Crc Proofs.Crc.
Import ListNotations.
Open Scope Z_scope.

(* --- 4. add / check helpers ------------------------------------------------ *)
Lemma slice0_len (d : list Z) : slice d 0 (len d) = d.
Proof. unfold slice, len. cbn [Z.max]. rewrite Z.max_r by lia. cbn [Z.to_nat skipn].
  rewrite Z.sub_0_r, Z.max_r, Nat2Z.id by lia. apply firstn_all. Qed.

Lemma lo_hi_bytes c : 0 <= c < 65536 ->
  Z.land c 255 = c mod 256 /\ Z.shiftr c 8 = c / 256 /\ Z.land (Z.shiftr c 8) 255 = c / 256.
Proof.
  intro H. change 255 with (Z.ones 8). rewrite !Z.land_ones by lia.
  rewrite Z.shiftr_div_pow2 by lia. change (2 ^ 8) with 256.
  repeat split. apply Z.mod_small. split; [apply Z.div_pos; lia | apply Z.div_lt_upper_bound; lia].
Qed.

Theorem add_crc_a_iso d : bytes_ok d -> add_crc_a d = d ++ iso_crc_a d.
Proof.
  intro Hd. unfold add_crc_a, iso_crc_a, calculate_crc. rewrite pyslice_0, slice0_len by apply len_nonneg.
  destruct (crc16_agree d 0x6363 ltac:(lia) Hd) as [He Hr]. rewrite <- He.
  destruct (lo_hi_bytes _ Hr) as (_ & _ & H3). rewrite H3.
  destruct (lo_hi_bytes _ Hr) as (_ & H2 & _). rewrite H2. reflexivity.
Qed.

Lemma lnot16 c : 0 <= c < 65536 -> Z.land (Z.lnot c) 65535 = 65535 - c.
Proof.
  intro H. change 65535 with (Z.ones 16). rewrite Z.land_ones by lia.
  unfold Z.lnot. rewrite Z.ones_equiv. change (Z.pred (2 ^ 16)) with 65535.
  replace (Z.pred (- c)) with (65535 - c + (-1) * 2 ^ 16) by (change (2^16) with 65536; lia).
  rewrite Z.mod_add by lia. apply Z.mod_small. change (2^16) with 65536. lia.
Qed.

Theorem add_crc_b_iso d : bytes_ok d -> add_crc_b d = d ++ iso_crc_b d.
Proof.
  intro Hd. unfold add_crc_b, iso_crc_b, calculate_crc. rewrite pyslice_0, slice0_len by apply len_nonneg.
  destruct (crc16_agree d 0xFFFF ltac:(lia) Hd) as [He Hr]. rewrite <- He.
  assert (Hc : 0 <= Z.land (Z.lnot (crc16 65535 d)) 65535 < 65536) by (rewrite lnot16 by exact Hr; lia).
  destruct (lo_hi_bytes _ Hc) as (_ & H2 & H3). rewrite H3, H2. reflexivity.
Qed.

Lemma idx_app_len d x y : idx (d ++ [x; y]) (len d) = Ok x /\ idx (d ++ [x; y]) (len d + 1) = Ok y.
Proof.
  unfold idx, len. split.
  - destruct (Z.of_nat (length d) <? 0) eqn:E; [lia|]. rewrite Nat2Z.id, nth_error_app2, Nat.sub_diag by lia. reflexivity.
  - destruct (Z.of_nat (length d) + 1 <? 0) eqn:E; [lia|].
    replace (Z.to_nat (Z.of_nat (length d) + 1)) with (S (length d)) by lia.
    rewrite nth_error_app2 by lia. replace (S (length d) - length d)%nat with 1%nat by lia. reflexivity.
Qed.

Lemma check_with_app final init d x y :
  check_crc_with final init (d ++ [x; y]) =
  Ok ((x =? Z.land (final (crc16 init d)) 255) && (y =? Z.shiftr (final (crc16 init d)) 8)).
Proof.
  unfold check_crc_with. rewrite len_app. change (len [x; y]) with 2.
  replace (len d + 2 - 2) with (len d) by lia. replace (len d + 2 - 1) with (len d + 1) by lia.
  destruct (idx_app_len d x y) as [H1 H2]. rewrite H1, H2. cbn [bind].
  unfold calculate_crc. pose proof (len_nonneg d). rewrite pyslice_0 by lia.
  replace (slice (d ++ [x; y]) 0 (len d)) with d; [reflexivity|].
  unfold slice. cbn [Z.max]. rewrite Z.sub_0_r, Z.max_r by lia. cbn [Z.to_nat skipn].
  symmetry. apply take_len_app.
Qed.

(* a frame is accepted exactly when its last two bytes are the ISO CRC *)
Theorem check_crc_a_iff d x y : bytes_ok d ->
  check_crc_a (d ++ [x; y]) = Ok true <-> [x; y] = iso_crc_a d.
Proof.
  intro Hd. unfold check_crc_a. rewrite check_with_app. unfold iso_crc_a.
  destruct (crc16_agree d 0x6363 ltac:(lia) Hd) as [He Hr]. rewrite <- He.
  destruct (lo_hi_bytes _ Hr) as (H1 & H2 & H3). rewrite H3.
  split.
  - intro H. injection H as H. apply andb_true_iff in H. destruct H as [Hx Hy].
    apply Z.eqb_eq in Hx, Hy. subst. rewrite H2. reflexivity.
  - intro H. injection H as -> ->. rewrite H2, !Z.eqb_refl. reflexivity.
Qed.

Theorem check_crc_b_iff d x y : bytes_ok d ->
  check_crc_b (d ++ [x; y]) = Ok true <-> [x; y] = iso_crc_b d.
Proof.
  intro Hd. unfold check_crc_b. rewrite check_with_app. unfold iso_crc_b.
  destruct (crc16_agree d 0xFFFF ltac:(lia) Hd) as [He Hr]. rewrite <- He.
  assert (Hc : 0 <= Z.land (Z.lnot (crc16 65535 d)) 65535 < 65536) by (rewrite lnot16 by exact Hr; lia).
  destruct (lo_hi_bytes _ Hc) as (H1 & H2 & H3). rewrite H3.
  split.
  - intro H. injection H as H. apply andb_true_iff in H. destruct H as [Hx Hy].
    apply Z.eqb_eq in Hx, Hy. subst. rewrite H2. reflexivity.
  - intro H. injection H as -> ->. rewrite H2, !Z.eqb_refl. reflexivity.
Qed.

(* check after add always accepts (non-vacuity of the iff) *)
Corollary check_add_a d : bytes_ok d -> check_crc_a (add_crc_a d) = Ok true.
Proof. intro Hd. rewrite add_crc_a_iso by exact Hd. unfold iso_crc_a. apply check_crc_a_iff; [exact Hd|reflexivity]. Qed.
Corollary check_add_b d : bytes_ok d -> check_crc_b (add_crc_b d) = Ok true.
Proof. intro Hd. rewrite add_crc_b_iso by exact Hd. unfold iso_crc_b. apply check_crc_b_iff; [exact Hd|reflexivity]. Qed.
